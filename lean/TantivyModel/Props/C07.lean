import TantivyModel.Proofs.PureFns
import TantivyModel.Proofs.VInt
import TantivyModel.Proofs.FieldNorm
import TantivyModel.Proofs.Invert
import TantivyModel.Proofs.PostingsRoundtrip
import TantivyModel.Proofs.BlockSearch
import TantivyModel.Proofs.CursorSeek
import TantivyModel.Proofs.Positions
import TantivyModel.Proofs.TermInfoStore
import TantivyModel.Proofs.BitPacker4x
import TantivyModel.Proofs.BlockCursor
import TantivyModel.Proofs.Pipeline
import TantivyModel.Proofs.JsonPositions
import TantivyModel.Proofs.RecorderRemap
import TantivyModel.Proofs.BlockCursorDrain
import TantivyModel.Proofs.PositionReader
import TantivyModel.Proofs.PositionsAfterSeeks
import TantivyModel.Proofs.FieldSerializer
import TantivyModel.Proofs.VInt32Source
import TantivyModel.Proofs.BlockCursorSeek
import TantivyModel.Proofs.RemapPermuted
import TantivyModel.Proofs.SegmentEndToEnd
import TantivyModel.Proofs.Expull
/-!
# C07 — The inverted index records exactly the terms, documents, frequencies, positions

Property theorems only (helper lemmas live in `Proofs/`).  The SIMD bit packer of the external
crate `bitpacking` is a parameter `P` with the contract `GoodPacker` (round trip for values below
`2^width`, `width·B/8` bytes); block size `B`, VInt stop bit `S` and `TERMINATED` are parameters
of the mechanism theorems and are instantiated at the extracted constants at the end.
-/
namespace TantivyModel.C07
open TantivyModel TantivyModel.Postings TantivyModel.Invert

/-! ### VInt, bit widths -/

/-- every value (in particular every `u64` / `u32`) survives serialisation, whatever follows it
in the stream; the stop bit equals the radix in the code (`example` below) -/
theorem C07_vint_roundtrip (S : Nat) (hS : 2 ≤ S) (n : Nat) (rest : List Nat) :
    VInt.dec S (VInt.enc S n ++ rest) = some (n, rest) :=
  VInt.dec_enc S hS n rest

/-- a `u64` takes at most 10 bytes, a `u32` at most 5, each byte is a `u8` -/
theorem C07_vint_size (n : Nat) :
    (n < 2 ^ 64 → (VInt.enc VInt.STOP n).length ≤ 10) ∧
    (n < 2 ^ 32 → (VInt.enc VInt.STOP n).length ≤ 5) ∧
    (∀ b ∈ VInt.enc VInt.STOP n, b < 256) := by
  have hS : (2 : Nat) ≤ VInt.STOP := by decide
  refine ⟨fun h => ?_, fun h => ?_, fun b hb => ?_⟩
  · exact VInt.enc_length_le _ hS 9 n (Nat.lt_of_lt_of_le h (by decide))
  · exact VInt.enc_length_le _ hS 4 n (Nat.lt_of_lt_of_le h (by decide))
  · have := VInt.enc_bytes_lt _ hS n b hb
    have e : VInt.STOP = 128 := by decide
    omega

/-- **The recorders' `u32` encoder** (`serialize_vint_u32`, the unrolled threshold ladder with the
extracted `START_k` bounds): every `u32` is written on 1..5 bytes, each a `u8`, and
`read_u32_vint` reads it back together with its length, whatever follows in the buffer.
The proof goes through `serializeU32_eq_enc`, which needs every threshold to be exactly `128^k`. -/
theorem C07_vint_u32_roundtrip (v : Nat) (hv : v < 2 ^ 32) (rest : List Nat) :
    let bytes := VInt.serializeU32 Gen.Postings.VINT32_LADDER Gen.Postings.VINT32_LAST_BYTES
      Gen.Postings.VINT32_RADIX Gen.Postings.VINT32_STOP_BIT v
    VInt.readU32 Gen.Postings.VINT_STOP_BIT Gen.Postings.VINT32_MAX_LEN (bytes ++ rest) =
      some (v, bytes.length) ∧
    1 ≤ bytes.length ∧ bytes.length ≤ 5 ∧ (∀ b ∈ bytes, b < 256) := by
  intro bytes
  have hb : bytes = VInt.enc 128 v := VInt.serializeU32_eq_enc v hv
  have hS : Gen.Postings.VINT_STOP_BIT = 128 := by decide
  have hM : Gen.Postings.VINT32_MAX_LEN = 5 := by decide
  have hlen : (VInt.enc 128 v).length ≤ 5 :=
    VInt.enc_length_le 128 (by omega) 4 v (Nat.lt_of_lt_of_le hv (by decide))
  rw [hb, hS, hM]
  refine ⟨VInt.readU32_enc 128 (by omega) 5 v rest hlen, VInt.enc_length_pos 128 v, hlen, ?_⟩
  intro b hb'
  have := VInt.enc_bytes_lt 128 (by omega) v b hb'
  omega

/-- **`serialize_vint_u32`, the source text.**  `Gen.Postings.serialize_vint_u32_packed` is the
mechanical translation (`extract/rs2lean.py`, `u32`/`u64` as bit vectors, `& | <<` as the bit-vector
operations) of the function's `(res, num_bytes)` expression — the five-branch ladder with its masks
and shifts as written in `common/src/vint.rs`.  For **every** `u32` the first `num_bytes`
little-endian bytes of `res` are the bytes of the model's ladder, i.e. the VInt of the value, and
`read_u32_vint` reads the value and the length back, whatever follows. -/
theorem C07_vint_u32_source (val : BitVec 32) (rest : List Nat) :
    VInt.packedBytes val = VInt.enc 128 val.toNat ∧
    VInt.readU32 Gen.Postings.VINT_STOP_BIT Gen.Postings.VINT32_MAX_LEN (VInt.packedBytes val ++ rest) =
      some (val.toNat, (VInt.packedBytes val).length) ∧
    1 ≤ (VInt.packedBytes val).length ∧ (VInt.packedBytes val).length ≤ 5 := by
  have h1 := VInt.packedBytes_eq_model val
  have h2 := VInt.serializeU32_eq_enc val.toNat val.isLt
  have he : VInt.packedBytes val = VInt.enc 128 val.toNat := by rw [h1]; exact h2
  have h3 := C07_vint_u32_roundtrip val.toNat val.isLt rest
  simp only at h3
  have h1' : VInt.serializeU32 Gen.Postings.VINT32_LADDER Gen.Postings.VINT32_LAST_BYTES
      Gen.Postings.VINT32_RADIX Gen.Postings.VINT32_STOP_BIT val.toNat = VInt.packedBytes val := h1.symm
  rw [h1'] at h3
  exact ⟨he, h3.1, h3.2.1, h3.2.2.1⟩

/-- lists of VInts (the tail of a posting list, the tail of a position stream) -/
theorem C07_vint_list_roundtrip (S : Nat) (hS : 2 ≤ S) (vs rest : List Nat) :
    VInt.decList S vs.length (VInt.encList S vs ++ rest) = some (vs, rest) ∧
    VInt.decAll S (VInt.encList S vs) = vs :=
  ⟨VInt.decList_encList S hS vs rest, VInt.decAll_encList S hS vs⟩

/-- the doc-bit-width byte of a skip entry (`encode_bitwidth` / `decode_bitwidth`) -/
theorem C07_bitwidth_roundtrip (bits : Nat) (strict : Bool) (h : bits < Gen.Postings.BITWIDTH_LIMIT) :
    decodeBitwidth (encodeBitwidth bits strict) = (bits, strict) ∧ encodeBitwidth bits strict < 256 :=
  ⟨decode_encode_bitwidth bits strict h, encodeBitwidth_lt bits strict h⟩

/-- the width chosen for a block is enough for every value of the block -/
theorem C07_numbits_sufficient (vs : List Nat) : ∀ v ∈ vs, v < 2 ^ numBits vs :=
  lt_two_pow_numBits vs

/-! ### postings of one term -/

/-- **Round trip.** For every strictly increasing doc list below `2^31` (any length: 0, 1, 127,
128, 129, k·128, …; any gaps), every list of positive term frequencies and each record option,
decoding the encoded bytes sequentially yields the list again (frequencies read back only when the
option stores them). -/
theorem C07_postings_roundtrip (c : Cfg) (o : RecOpt) (hB : 0 < c.B) (hS : 2 ≤ c.S)
    (hP : GoodPacker c.B c.P) (docs tfs : List Nat) (hv : ValidList docs tfs) :
    decodeAll c o docs.length (encodeTerm c o docs tfs) =
      some (docs, if hasFreq o then tfs else []) := by
  unfold decodeAll
  rw [decodeTerm_encodeTerm c o hB hS hP docs tfs hv]
  simp only [Option.map_some, allDocs_chunkBlocks]
  cases ho : hasFreq o
  · have : o = .basic := by cases o <;> simp [hasFreq] at ho ⊢
    subst this
    simp [allTfs_chunkBlocks_basic]
  · simp [allTfs_chunkBlocks c o ho]

/-- the same at the extracted constants: lists below TERMINATED, blocks of 128 -/
theorem C07_postings_roundtrip_extracted (P : BitPacker) (hP : GoodPacker cfg.B P) (o : RecOpt)
    (docs tfs : List Nat) (hs : docs.Pairwise (· < ·)) (ht : ∀ d ∈ docs, d < Gen.Postings.TERMINATED)
    (hl : tfs.length = docs.length) (hp : ∀ t ∈ tfs, 1 ≤ t) :
    decodeAll (cfgWith P) o docs.length (encodeTerm (cfgWith P) o docs tfs) =
      some (docs, if hasFreq o then tfs else []) := by
  apply C07_postings_roundtrip
  · show 0 < cfg.B; decide
  · show 2 ≤ cfg.S; decide
  · exact hP
  · exact ⟨hs, fun d hd => Nat.lt_trans (ht d hd) (by decide), hl, hp⟩

/-! ### in-block search, cursor, positions: see below -/

/-- **Block search.** On a non-decreasing block of `K^m·q` entries (`q < K`; 128 = 8²·2) whose
last entry is `≥ target`, the k-ary branchless search returns the number of entries `< target`,
i.e. the first index with value `≥ target`. -/
theorem C07_block_search (K m q : Nat) (hK : 2 ≤ K) (hq : q < K) (arr : List Nat) (target : Nat)
    (hlen : arr.length = K ^ m * q) (hs : arr.Pairwise (· ≤ ·)) :
    karyLoop K arr target 0 (K ^ m * q) = arr.countP (· < target) :=
  karyLoop_correct K m q hK hq arr target hlen hs

/-- at the extracted constants (`K = 8`, 128 entries): first index with value `≥ target` -/
theorem C07_block_search_extracted (arr : List Nat) (target : Nat)
    (hlen : arr.length = cfg.B) (hs : arr.Pairwise (· ≤ ·)) :
    searchBlock cfg arr target = arr.countP (· < target) ∧
    (∀ i, i < searchBlock cfg arr target → arr.getD i 0 < target) ∧
    (searchBlock cfg arr target < arr.length → target ≤ arr.getD (searchBlock cfg arr target) 0) :=
  searchBlock_spec arr target hlen hs

/-- **Seek equivalence.** Reading a posting list through any program of `advance` / `seek`
(skip-reader seek + in-block search) observes — doc, term frequency and the offset of the
document's positions — exactly what the sorted-list specification yields. -/
theorem C07_seek_equiv (o : RecOpt) (docs tfs : List Nat) (hv : ValidList docs tfs)
    (hT : ∀ d ∈ docs, d < cfg.T) (hsum : BlockSumsFit cfg tfs)
    (ops : List Op) (hops : ∀ t, Op.seek t ∈ ops → t ≤ cfg.T) :
    run cfg o (Cursor.init (chunkBlocks cfg o (docs.length / cfg.B) docs tfs)) ops =
      specRun cfg.T o docs (obsTfs o tfs) ⟨0⟩ ops :=
  run_eq_specRun o docs tfs hv hT hsum ops hops

/-- bytes → cursor → program, end to end: reading the *encoded bytes* of a posting list through
any program observes the sorted-list specification (any bit packer meeting the contract) -/
theorem C07_seek_equiv_bytes (P : BitPacker) (hP : GoodPacker cfg.B P) (o : RecOpt)
    (docs tfs : List Nat) (hv : ValidList docs tfs) :
    decodeTerm (cfgWith P) o docs.length (encodeTerm (cfgWith P) o docs tfs) =
      some (chunkBlocks (cfgWith P) o (docs.length / cfg.B) docs tfs) :=
  decodeTerm_encodeTerm (cfgWith P) o (show 0 < cfg.B by decide) (show 2 ≤ cfg.S by decide) hP docs tfs hv

/-- **Positions addressing.** The position deltas of the `i`-th document of a term are the slice
of the term's position stream (the concatenation of all documents' deltas) that starts at
`Σ_{j<i} tf_j` and has length `tf_i` — across 128-value block boundaries of the stream. -/
theorem C07_positions_addressing (c : Cfg) (hB : 0 < c.B) (hS : 2 ≤ c.S) (hP : GoodPacker c.B c.P)
    (perDoc : List (List Nat)) (i : Nat) (hi : i < perDoc.length) :
    Positions.read c (Positions.encode c perDoc.flatten)
      (((perDoc.take i).map List.length).sum) (perDoc.getD i []).length = some (perDoc.getD i []) :=
  Positions.read_slice c hB hS hP perDoc i hi

/-! ### the modelled BitPacker4x layout meets the contract: hypothesis-free instances -/

/-- the 4-lane byte layout of `BitPacker4x` as modelled (`bp4x`, validated against the real crate by
cross-decoding in both directions) packs 128 values of `w` bits into `16·w` bytes and unpacks them -/
theorem C07_bp4x_good : GoodPacker cfg.B bp4x := bp4x_good

/-- the executable model (what the driver runs, `cfg` with `bp4x`): no packer hypothesis left -/
theorem C07_postings_roundtrip_concrete (o : RecOpt) (docs tfs : List Nat)
    (hs : docs.Pairwise (· < ·)) (ht : ∀ d ∈ docs, d < Gen.Postings.TERMINATED)
    (hl : tfs.length = docs.length) (hp : ∀ t ∈ tfs, 1 ≤ t) :
    decodeAll cfg o docs.length (encodeTerm cfg o docs tfs) = some (docs, if hasFreq o then tfs else []) :=
  C07_postings_roundtrip cfg o (by decide) (by decide) C07_bp4x_good docs tfs
    ⟨hs, fun d hd => Nat.lt_trans (ht d hd) (by decide), hl, hp⟩

theorem C07_positions_addressing_concrete (perDoc : List (List Nat)) (i : Nat) (hi : i < perDoc.length) :
    Positions.read cfg (Positions.encode cfg perDoc.flatten)
      (((perDoc.take i).map List.length).sum) (perDoc.getD i []).length = some (perDoc.getD i []) :=
  C07_positions_addressing cfg (by decide) (by decide) C07_bp4x_good perDoc i hi

/-! ### the indexing pipeline -/

/-- **recorders ∘ serializer ∘ decoder = `invert`.**  Index the analysed corpus through the
modelled pipeline — `subscribe` into the per-term recorders (the arena byte stream of
`serialize_vint_u32` VInts: doc-id deltas, term frequencies written when the next document of the
term starts, `position + 1` values and the `POSITION_END` marker), iterate the term table in byte
order, re-read each recorder's bytes with `read_u32_vint`, hand `write_doc(doc, tf, deltas)` to the
postings / positions serializers, and read the bytes back with `WithFreqsAndPositions`.  Then:
the table's keys are exactly the spec's terms; for every term `doc_freq` is the number of its
documents and the postings read back are the spec's, as visible under the field's record option
(multi-value position gap included); `total_num_tokens` and the per-document token counts (field
norm = `fieldnorm_to_id` of them) are the spec's.  The arena hash map is a parameter (any finite
map `Term → Option Rec`; sorted iteration is `termsOf`). -/
theorem C07_invert_pipeline (o : RecOpt) (c : Corpus) (G : Recorder.GoodCorpus c) :
    (∀ t, (Recorder.indexCorpus o c).table t ≠ none ↔ t ∈ (invert c).terms.map (·.1)) ∧
    (∀ e ∈ (invert c).terms, ∃ r, (Recorder.indexCorpus o c).table e.1 = some r ∧
      (Recorder.serializeTerm o r).docFreq = docFreq e.2 ∧
      Recorder.readBack o (Recorder.serializeTerm o r) = some (e.2.map (project o))) ∧
    (Recorder.indexCorpus o c).totalNumTokens = (invert c).totalNumTokens ∧
    c.map (fun d => FieldNorm.fieldnormId (Recorder.docTokenCount o d)) = fieldnormIds (invert c) := by
  have _tie : Gen.Postings.INDEX_TEXT_SHAPE_OK = 1 := by decide
  have hmap : (invert c).terms.map (·.1) = termsOf Gen.Postings.POSITION_GAP c := by
    simp [invert, invertWith, Function.comp_def]
  refine ⟨fun t => by rw [hmap]; exact Recorder.table_keys o c t, ?_, Recorder.indexCorpus_total o c, ?_⟩
  · intro e he
    simp only [invert, invertWith, List.mem_map] at he
    obtain ⟨t, ht, rfl⟩ := he
    exact Recorder.pipeline_term o c G t ht
  · simp only [fieldnormIds, invert, invertWith, List.map_map]
    apply List.map_congr_left
    intro d _
    simp [Recorder.docTokenCount_eq]

/-- **The `doc_id_map` branch (index sorting).**  For the recorder of any term (any of the three
recorders), `Recorder::serialize(.., Some(doc_id_map), ..)` — decode the stream in the *old* id
space (deltas are accumulated there), map every doc id with `get_new_doc_id`, sort by the new id —
hands the serializer exactly the term's postings with their doc id mapped and tf / positions
staying with their document, in strictly increasing new-id order; and reading the serialized
bytes back returns that list (as visible under the record option).  `newId` only needs to be
injective on the term's documents and stay below TERMINATED. -/
theorem C07_recorder_remap (o : RecOpt) (c : Corpus) (G : Recorder.GoodCorpus c) (t : Term)
    (ht : t ∈ (invert c).terms.map (·.1)) (newId : Nat → Nat)
    (hinj : (((postingsOf Gen.Postings.POSITION_GAP c t).map (Recorder.remapPosting newId)).map (·.doc)).Nodup)
    (hbelow : ∀ p ∈ postingsOf Gen.Postings.POSITION_GAP c t, newId p.doc < Gen.Postings.TERMINATED) :
    ∃ r, (Recorder.indexCorpus o c).table t = some r ∧
      Recorder.readBack o (Recorder.serializeTermRemapped o r newId) =
        some ((Recorder.sortPostings ((postingsOf Gen.Postings.POSITION_GAP c t).map
          (Recorder.remapPosting newId))).map (project o)) ∧
      ((Recorder.sortPostings ((postingsOf Gen.Postings.POSITION_GAP c t).map
          (Recorder.remapPosting newId))).map (·.doc)).Pairwise (· < ·) ∧
      (∀ x, x ∈ Recorder.sortPostings ((postingsOf Gen.Postings.POSITION_GAP c t).map
          (Recorder.remapPosting newId)) ↔
        ∃ p ∈ postingsOf Gen.Postings.POSITION_GAP c t, x = Recorder.remapPosting newId p) := by
  have hmap : (invert c).terms.map (·.1) = termsOf Gen.Postings.POSITION_GAP c := by
    simp [invert, invertWith, Function.comp_def]
  rw [hmap] at ht
  have hne : postingsOf Gen.Postings.POSITION_GAP c t ≠ [] :=
    (Recorder.postingsFrom_ne_nil_iff _ t c 0).mpr ((mem_termsOf _ c t).mp ht)
  obtain ⟨r, h1, _, h3, h4, h5⟩ := Recorder.remapped_pipeline o _ newId hne
    (Recorder.termOK_of_goodCorpus c G t) hinj hbelow
  exact ⟨r, by rw [Recorder.indexCorpus_table, h1], h3, h4, h5⟩

/-- **Index sorting = inverting the re-ordered corpus.**  With `doc_id_map` a permutation of the
segment's documents (`newId` / `oldId` are `DocIdMapping`'s two arrays, inverse to each other),
the remapped branch of `Recorder::serialize` — per term: remap every doc id, sort by the new id,
serialize — produces, read back, exactly `invert` of the corpus in its new document order: the
same terms, and for every term the postings (docs, term frequencies, positions as visible under
the record option) of the permuted corpus. -/
theorem C07_remap_is_invert_of_permuted (o : RecOpt) (c : Corpus) (G : Recorder.GoodCorpus c)
    (newId oldId : Nat → Nat)
    (h1 : ∀ i, i < c.length → newId i < c.length ∧ oldId (newId i) = i)
    (h2 : ∀ j, j < c.length → oldId j < c.length ∧ newId (oldId j) = j) :
    (invert (Recorder.permuted c oldId)).terms.map (·.1) = (invert c).terms.map (·.1) ∧
    ∀ e ∈ (invert (Recorder.permuted c oldId)).terms, ∃ r,
      (Recorder.indexCorpus o c).table e.1 = some r ∧
      Recorder.readBack o (Recorder.serializeTermRemapped o r newId) = some (e.2.map (project o)) := by
  have hmap : ∀ c' : Corpus, (invert c').terms.map (·.1) = termsOf Gen.Postings.POSITION_GAP c' := by
    intro c'; simp [invert, invertWith, Function.comp_def]
  have hterms := Recorder.termsOf_permuted Gen.Postings.POSITION_GAP c newId oldId h1 h2
  refine ⟨by rw [hmap, hmap, hterms], ?_⟩
  intro e he
  simp only [invert, invertWith, List.mem_map] at he
  obtain ⟨t, ht, rfl⟩ := he
  rw [hterms] at ht
  have hspec := postingsFrom_spec Gen.Postings.POSITION_GAP t 0 c
  obtain ⟨r, hr, hback, _, _⟩ := C07_recorder_remap o c G t (by rw [hmap]; exact ht) newId
    (Recorder.remap_nodup _ t c newId oldId h1)
    (fun p hp => by
      have := (hspec.2 p hp).2.1
      have := (h1 p.doc (by omega)).1
      have := G.docs
      omega)
  exact ⟨r, hr, by rw [hback, Recorder.remap_eq_permuted _ t c newId oldId h1 h2]⟩

/-! ### JSON fields: per-path positions -/

/-- **Per path, a JSON field is a multi-valued text field.**  For one (document, JSON field) —
the position map starts empty for each, as the extracted guard on `index_document` records — the
text occurrences of any path `p` are exactly `docOccs` of the list of `p`'s text leaves in
traversal order (same `index_text` arithmetic, same position gap), whatever other paths and typed
leaves are interleaved; typed leaves (numbers, bools, dates) are subscribed at position 0. -/
theorem C07_json_positions_per_path (p : Term) (evs : List JsonPositions.JEvent) :
    (((JsonPositions.occs Gen.Postings.POSITION_GAP evs).filter (fun o => o.text ∧ o.path = p)).map
        (fun o => (o.term, o.pos)) =
      docOccs Gen.Postings.POSITION_GAP (JsonPositions.pathValues p evs)) ∧
    (∀ o ∈ JsonPositions.occs Gen.Postings.POSITION_GAP evs, o.text = false → o.pos = 0) := by
  have _tie : Gen.Postings.JSON_POSITIONS_CLEARED_PER_FIELD = 1 ∧ Gen.Postings.INDEX_TEXT_SHAPE_OK = 1 := by
    decide
  exact ⟨JsonPositions.occsFrom_path _ p evs (fun _ => 0),
    JsonPositions.occsFrom_nontext_pos _ evs (fun _ => 0)⟩

/-- **Consecutive values are separated by the gap** (text fields and, by the theorem above, the
leaves of one JSON path): in `A ++ v :: B` every token of `v` is indexed at
`endAfter A + token.pos`, and every occurrence of every later value lies beyond it by at least the
token's position length plus `gap` — so a phrase cannot span two values when `gap ≥ 1`. -/
theorem C07_values_gap_separated (gap e : Nat) (A : List Value) (v : Value) (B : List Value) :
    docOccsFrom gap e (A ++ v :: B) =
      docOccsFrom gap e A ++ v.map (fun t => (t.term, JsonPositions.endAfter gap e A + t.pos)) ++
        docOccsFrom gap (indexValue gap (JsonPositions.endAfter gap e A) v).2 B ∧
    ∀ t ∈ v, ∀ o ∈ docOccsFrom gap (indexValue gap (JsonPositions.endAfter gap e A) v).2 B,
      JsonPositions.endAfter gap e A + t.pos + t.posLen + gap ≤ o.2 :=
  JsonPositions.values_gap_separated gap e A v B

/-- **JSON fields through the pipeline.**  With the occurrences positioned per path (`asDoc`), the
recorder → serializer → decoder pipeline returns, for every term of the JSON field, the postings
of `invertJson`: text terms through the recorder of the field's option, typed leaves (numbers,
bools, dates) through the doc-id-only recorder of the second postings writer. -/
theorem C07_json_pipeline (o : RecOpt) (c : List (List JsonPositions.JEvent))
    (G : Recorder.GoodCorpus (c.map (JsonPositions.asDoc Gen.Postings.POSITION_GAP))) :
    ∀ e ∈ (JsonPositions.invertJson o c).1, ∃ o' r,
      o' = (if (c.flatMap JsonPositions.nonTextTerms).contains e.1 then RecOpt.basic else o) ∧
      (Recorder.indexCorpus o' (c.map (JsonPositions.asDoc Gen.Postings.POSITION_GAP))).table e.1 = some r ∧
      Recorder.readBack o' (Recorder.serializeTerm o' r) = some e.2 := by
  intro e he
  simp only [JsonPositions.invertJson, List.mem_map] at he
  obtain ⟨e0, he0, rfl⟩ := he
  obtain ⟨r, h1, _, h3⟩ := (C07_invert_pipeline
    (if (c.flatMap JsonPositions.nonTextTerms).contains e0.1 then RecOpt.basic else o) _ G).2.1 e0 he0
  exact ⟨(if (c.flatMap JsonPositions.nonTextTerms).contains e0.1 then RecOpt.basic else o), r, rfl, h1, h3⟩

/-! ### recycled block cursor -/

/-- **reset ≡ fresh open.** For every prior state `p` of a block cursor (any term read before,
moved by any advances / seeks, drained or not), `reset(doc_freq, bytes)` yields — up to the
frequency buffers — exactly the cursor `open(doc_freq, bytes)` yields, and so does every block
read afterwards; in particular the skip reader is re-initialised like `SkipReader::new`
(`last_doc_in_previous_block = 0`).  The extracted field lists of `SkipReader::new` / `reset` and
`BlockSegmentPostings::reset` must show no field left out (the Lean `reset` mirrors the code only
then). -/
theorem C07_reset_equiv_open (c : Cfg) (o req : RecOpt) (p : BlockPostings) (docFreq : Nat)
    (bytes : List Nat)
    (hskip : p.skip.skipInfo = effectiveOpt c o docFreq (splitSkips c docFreq bytes).1)
    (hfreq : p.freqOpt = freqOptOf (effectiveOpt c o docFreq (splitSkips c docFreq bytes).1) req) :
    (p.reset c docFreq bytes).eraseTf = (BlockPostings.open c o req docFreq bytes).eraseTf ∧
    (∀ fuel, (BlockPostings.drain c fuel (p.reset c docFreq bytes)).1 =
      (BlockPostings.drain c fuel (BlockPostings.open c o req docFreq bytes)).1) ∧
    (∀ (s : SkipReader) data, s.reset c data docFreq = SkipReader.new c data docFreq s.skipInfo) := by
  have _tie : Gen.Postings.SKIPREADER_RESET_MISSING = 0 ∧ Gen.Postings.BLOCKPOSTINGS_RESET_MISSING = 0 := by
    decide
  have h := reset_eq_open c o req p docFreq bytes hskip hfreq
  exact ⟨h, fun fuel => drain_docs_congr c fuel _ _ h, fun s data => SkipReader.reset_eq_new c s data docFreq⟩

/-- **The lazy cursor reads the list** (lazy `SkipReader` / `BlockSegmentPostings` model ≡ the
eager decoder on encoded input): a block cursor opened on the bytes `PostingsSerializer` writes for
a posting list — skip reader walking entry by entry, `byte_offset` accumulated from the bit widths,
each block decoded against `last_doc_in_previous_block` — drained block after block yields exactly
the docs; and so does a *recycled* cursor, whatever it had read before (this is the end-to-end
statement seeded mutant B violated). -/
theorem C07_lazy_cursor_drains (o : RecOpt) (docs tfs : List Nat) (hv : ValidList docs tfs) :
    (BlockPostings.drain cfg (docs.length / cfg.B + 2)
      (BlockPostings.open cfg o o docs.length (encodeTerm cfg o docs tfs))).1 = docs ∧
    ∀ p : BlockPostings, p.skip.skipInfo = o → p.freqOpt = freqOptOf o o →
      (BlockPostings.drain cfg (docs.length / cfg.B + 2)
        (p.reset cfg docs.length (encodeTerm cfg o docs tfs))).1 = docs := by
  have hopen := drain_open_encode cfg o (by decide) (by decide) (by decide) C07_bp4x_good docs tfs hv
  refine ⟨hopen, fun p hskip hfreq => ?_⟩
  have heff : effectiveOpt cfg o docs.length (splitSkips cfg docs.length (encodeTerm cfg o docs tfs)).1 = o := by
    rw [splitSkips_encodeTerm cfg o (by decide)]
    exact effectiveOpt_encodeTerm cfg o docs tfs
  have h := (C07_reset_equiv_open cfg o o p docs.length (encodeTerm cfg o docs tfs)
    (by rw [heff]; exact hskip) (by rw [heff]; exact hfreq)).2.1 (docs.length / cfg.B + 2)
  rw [h]; exact hopen

/-- … and the term frequencies: when the option stores them, the freshly opened and the recycled
lazy cursor both show exactly the list's frequencies, block after block -/
theorem C07_lazy_cursor_freqs (o : RecOpt) (ho : hasFreq o = true) (docs tfs : List Nat)
    (hv : ValidList docs tfs) :
    (BlockPostings.drain cfg (docs.length / cfg.B + 2)
      (BlockPostings.open cfg o o docs.length (encodeTerm cfg o docs tfs))).2 = tfs ∧
    ∀ p : BlockPostings, p.skip.skipInfo = o → p.freqOpt = .readFreq →
      (BlockPostings.drain cfg (docs.length / cfg.B + 2)
        (p.reset cfg docs.length (encodeTerm cfg o docs tfs))).2 = tfs :=
  ⟨drain_open_encode_tfs cfg o ho (by decide) (by decide) (by decide) C07_bp4x_good docs tfs hv,
   fun p hs hf => drain_reset_encode_tfs cfg o ho (by decide) (by decide) (by decide) C07_bp4x_good
     docs tfs hv p hs hf⟩

/-- **The lazy cursor's seek.** `BlockSegmentPostings::seek` on the bytes `PostingsSerializer` writes
— the skip reader stepping entry by entry while `last_doc_in_block < target` (byte offset and
`last_doc_in_previous_block` carried along), `load_block` decoding only the block it stops on, the
in-block search on the `TERMINATED`-padded buffer — lands on the first doc `≥ target` of the list
(`TERMINATED` if there is none), at an index below the block size; for a freshly opened cursor and
for a recycled one, whatever it had read before. -/
theorem C07_lazy_seek (o : RecOpt) (docs tfs : List Nat) (hv : ValidList docs tfs)
    (hT : ∀ d ∈ docs, d < cfg.T) (target : Nat) (ht : target ≤ cfg.T) :
    (let r := (BlockPostings.open cfg o o docs.length (encodeTerm cfg o docs tfs)).seek cfg target
     r.1.docBuf.getD r.2 cfg.T = docs.getD (docs.countP (· < target)) cfg.T ∧ r.2 < cfg.B) ∧
    ∀ p : BlockPostings, p.skip.skipInfo = o → p.freqOpt = freqOptOf o o →
      (let r := (p.reset cfg docs.length (encodeTerm cfg o docs tfs)).seek cfg target
       r.1.docBuf.getD r.2 cfg.T = docs.getD (docs.countP (· < target)) cfg.T ∧ r.2 < cfg.B) := by
  have key : ∀ q : BlockPostings, LazyAt cfg o docs tfs 0 q →
      (q.seek cfg target).1.docBuf.getD (q.seek cfg target).2 cfg.T =
        docs.getD (docs.countP (· < target)) cfg.T ∧ (q.seek cfg target).2 < cfg.B := by
    intro q hq
    have h := seekAll_lazyAt o docs tfs hv hT [target] 0 q hq (Nat.zero_le _) (by simp)
      (by simpa using ht) (by simp)
    obtain ⟨_, _, _, _, _, _, hlt, _⟩ := seek_lazyAt o docs tfs hv hT target ht 0 q hq
    simp only [BlockPostings.seekAll, List.map_cons, List.map_nil, List.cons.injEq, and_true] at h
    exact ⟨h, hlt⟩
  exact ⟨key _ (open_lazyAt cfg o (by decide) (by decide) docs tfs hv),
    fun p hs hf => key _ (reset_lazyAt o docs tfs hv p hs hf)⟩

/-- … and the term frequency: when the option stores frequencies and some doc is `≥ target`, the
frequency buffer shows at the returned index the term frequency of the doc the seek landed on —
for the freshly opened and for the recycled cursor. -/
theorem C07_lazy_seek_freq (o : RecOpt) (ho : hasFreq o = true) (docs tfs : List Nat)
    (hv : ValidList docs tfs) (hT : ∀ d ∈ docs, d < cfg.T) (target : Nat) (ht : target ≤ cfg.T)
    (hrank : docs.countP (· < target) < docs.length) :
    (let r := (BlockPostings.open cfg o o docs.length (encodeTerm cfg o docs tfs)).seek cfg target
     r.1.freqs.getD r.2 0 = tfs.getD (docs.countP (· < target)) 0) ∧
    ∀ p : BlockPostings, p.skip.skipInfo = o → p.freqOpt = .readFreq →
      (let r := (p.reset cfg docs.length (encodeTerm cfg o docs tfs)).seek cfg target
       r.1.freqs.getD r.2 0 = tfs.getD (docs.countP (· < target)) 0) := by
  have hfo : freqOptOf o o = .readFreq := by cases o <;> simp_all [freqOptOf, hasFreq]
  refine ⟨seek_lazyAt_freq o ho docs tfs hv hT target ht 0 _
      (open_lazyAt cfg o (by decide) (by decide) docs tfs hv)
      (open_freqsAt cfg o ho (by decide) docs tfs) (by simp) hrank, fun p hs hf => ?_⟩
  exact seek_lazyAt_freq o ho docs tfs hv hT target ht 0 _
    (reset_lazyAt o docs tfs hv p hs (by rw [hfo]; exact hf))
    (reset_freqsAt cfg p _ _ hf) (by simp) hrank

/-- **A program of seeks on the lazy cursor** (non-decreasing targets, the `DocSet` contract): every
seek of the program — each continuing from the block the previous one stopped on, without
re-decoding when the skip reader did not move — lands on the first doc `≥` its target. -/
theorem C07_lazy_seek_program (o : RecOpt) (docs tfs : List Nat) (hv : ValidList docs tfs)
    (hT : ∀ d ∈ docs, d < cfg.T) (ts : List Nat) (hs : ts.Pairwise (· ≤ ·)) (hts : ∀ t ∈ ts, t ≤ cfg.T) :
    BlockPostings.seekAll cfg (BlockPostings.open cfg o o docs.length (encodeTerm cfg o docs tfs)) ts =
      ts.map (fun t => docs.getD (docs.countP (· < t)) cfg.T) :=
  seekAll_lazyAt o docs tfs hv hT ts 0 _ (open_lazyAt cfg o (by decide) (by decide) docs tfs hv)
    (Nat.zero_le _) hs hts (by simp)

/-- **Block-level programs of the lazy cursor.**  Any program of `BlockSegmentPostings::advance`
(out of a full block) and `seek` — in any order, with any targets up to TERMINATED, forwards or
backwards — on the bytes of a posting list shows exactly what the *doc list* prescribes: `advance`
moves the block start `n` to `n + 128` and shows `docs[n + 128]`; `seek(t)` steps over the full
blocks whose last doc is `< t` (`landing`) and shows the first doc `≥ t` from that block's start
on (TERMINATED if none).  For a freshly opened and for a recycled cursor. -/
theorem C07_lazy_block_programs (o : RecOpt) (docs tfs : List Nat) (hv : ValidList docs tfs)
    (hT : ∀ d ∈ docs, d < cfg.T) (ops : List BOp)
    (hok : okBlockOps cfg.B cfg.T docs (docs.length / cfg.B + 2) 0 ops) :
    BlockPostings.runOps cfg (BlockPostings.open cfg o o docs.length (encodeTerm cfg o docs tfs)) ops =
      specBlockOps cfg.B cfg.T docs (docs.length / cfg.B + 2) 0 ops ∧
    ∀ p : BlockPostings, p.skip.skipInfo = o → p.freqOpt = freqOptOf o o →
      BlockPostings.runOps cfg (p.reset cfg docs.length (encodeTerm cfg o docs tfs)) ops =
        specBlockOps cfg.B cfg.T docs (docs.length / cfg.B + 2) 0 ops :=
  ⟨runOps_lazyAt o docs tfs hv hT ops 0 _ (open_lazyAt cfg o (by decide) (by decide) docs tfs hv) hok,
   fun p hs hf => runOps_lazyAt o docs tfs hv hT ops 0 _ (reset_lazyAt o docs tfs hv p hs hf) hok⟩

/-! ### TermInfoStore -/

/-- **TermInfoStore round trip.** For every list of TermInfos whose ranges are ordered, below `2^56`
(`extract_bits` asserts widths ≤ 56) and back to back inside each block of `BL` terms, the store
returns for ordinal `n` the `n`-th TermInfo written: reference TermInfo of the block for
`n % BL = 0`, otherwise the bit-packed deltas read through the unaligned 8-byte window, the end of
a range being the start of the next entry (or the appended final ends). -/
theorem C07_terminfo_roundtrip (BL : Nat) (hBL : 0 < BL) (tis : List TermInfoStore.TermInfo)
    (G : TermInfoStore.GoodStore BL tis) (n : Nat) (hn : n < tis.length) :
    TermInfoStore.get BL (TermInfoStore.write BL tis) n = some tis[n] :=
  TermInfoStore.get_write BL hBL tis G n hn

/-- the bit-level core: a field written by `BitPacker::write` after any prefix is read back by
`extract_bits` at the prefix's bit length, whatever bytes follow the flushed stream -/
theorem C07_extract_bits_field (pre : List (Nat × Nat)) (v w : Nat) (post : List (Nat × Nat))
    (hall : TermInfoStore.AllLt (pre ++ (v, w) :: post)) (hw : w ≤ 56) (rest : List Nat)
    (hrest : TermInfoStore.Bytes rest) :
    TermInfoStore.extractBits (TermInfoStore.bitBytes (pre ++ (v, w) :: post) ++ rest)
      (TermInfoStore.totalBits pre) w = v :=
  TermInfoStore.extractBits_field pre v w post hall hw rest hrest

/-- **The stateful `PositionReader`.**  Open a reader on the bytes `PositionSerializer` writes for
a term's position stream `D` and issue *any* sequence of `read(offset, len)` calls on it — forwards,
backwards (reset), inside the loaded block, across many blocks, into the VInt tail — each within
the stream: every call returns exactly `D[offset .. offset+len)`.  The model keeps the reader's
state (bit widths and bytes from the anchor block, the decoded block and its `block_offset`,
skipping whole blocks by the sum of their widths). -/
theorem C07_position_reader (D : List Nat) (rs : List (Nat × Nat))
    (hr : ∀ r ∈ rs, r.1 + r.2 ≤ D.length) :
    ∃ s, Positions.Reader.open cfg (Positions.encode cfg D) = some s ∧
      Positions.Reader.reads cfg s rs = rs.map (fun r => (D.drop r.1).take r.2) := by
  obtain ⟨s, h1, hc, hl⟩ := Positions.open_encode cfg (by decide) D
  exact ⟨s, h1, Positions.reads_spec cfg (by decide) (by decide) (by decide) C07_bp4x_good D rs s 0 hc hl hr⟩

/-- parametric form: any block size divisible by 8, any bit packer meeting the contract, and the
reader's consistency invariant is re-established by every read -/
theorem C07_position_reader_step (c : Cfg) (h8 : 8 ∣ c.B) (hB : 0 < c.B) (hS : 2 ≤ c.S)
    (hP : GoodPacker c.B c.P) (D : List Nat) (s : Positions.Reader) (a : Nat)
    (hc : Positions.Core c D s a) (hl : Positions.Loaded c D s a) (offset len : Nat)
    (hrange : offset + len ≤ D.length) :
    (s.read c offset len).1 = (D.drop offset).take len ∧
    ∃ a', Positions.Core c D (s.read c offset len).2 a' ∧ Positions.Loaded c D (s.read c offset len).2 a' :=
  Positions.read_spec c h8 hB hS hP D s a hc hl offset len hrange

/-- **Positions after any seek program.**  Drive the postings cursor of a term through any program
of `advance` / `seek`; for every document it lands on, ask the (one, stateful) position reader for
`term_freq` values at the cursor's read offset (`position_offset + Σ freqs[..cur]`): the answers
are, in order, exactly the position deltas of those documents — across skipped postings blocks
(`tf_sum` of the skip entries) and across 128-value blocks of the position stream, with reads
going forwards only as far as the program does. -/
theorem C07_positions_after_seeks (docs : List Nat) (perDoc : List (List Nat))
    (hv : ValidList docs (perDoc.map List.length)) (hT : ∀ d ∈ docs, d < cfg.T)
    (hsum : BlockSumsFit cfg (perDoc.map List.length))
    (ops : List Op) (hops : ∀ t, Op.seek t ∈ ops → t ≤ cfg.T) :
    ∃ s, Positions.Reader.open cfg (Positions.encode cfg perDoc.flatten) = some s ∧
      Positions.Reader.reads cfg s
        (positionRequests cfg.T (run cfg .positions
          (Cursor.init (chunkBlocks cfg .positions (docs.length / cfg.B) docs (perDoc.map List.length))) ops)) =
      ((specIdxs docs ⟨0⟩ ops).filter (· < docs.length)).map (fun i => perDoc.getD i []) := by
  have hrun := C07_seek_equiv .positions docs (perDoc.map List.length) hv hT hsum ops hops
  have hobs : obsTfs .positions (perDoc.map List.length) = perDoc.map List.length := rfl
  rw [hrun, hobs, specRun_eq_map, requests_of_spec cfg.T docs _ hT]
  have hlen : perDoc.length = docs.length := by simpa using hv.len
  obtain ⟨s, h1, hc, hl⟩ := Positions.open_encode cfg (by decide) perDoc.flatten
  refine ⟨s, h1, ?_⟩
  have hslice : ∀ i, i < docs.length →
      (perDoc.flatten.drop ((perDoc.map List.length).take i).sum).take ((perDoc.map List.length).getD i 1) =
        perDoc.getD i [] := by
    intro i hi
    have hi' : i < perDoc.length := by omega
    have hg : (perDoc.map List.length).getD i 1 = (perDoc.getD i []).length := by
      simp [List.getD_eq_getElem?_getD, List.getElem?_eq_getElem hi']
    rw [hg, take_map_length_sum]
    exact Positions.slice_flatten perDoc i
  have hrange : ∀ r ∈ ((specIdxs docs ⟨0⟩ ops).filter (· < docs.length)).map
      (fun i => (((perDoc.map List.length).take i).sum, (perDoc.map List.length).getD i 1)),
      r.1 + r.2 ≤ perDoc.flatten.length := by
    intro r hr
    obtain ⟨i, hi, rfl⟩ := List.mem_map.mp hr
    have hi' : i < docs.length := by simpa using (List.mem_filter.mp hi).2
    have := hslice i hi'
    have hl1 : ((perDoc.flatten.drop ((perDoc.map List.length).take i).sum).take
        ((perDoc.map List.length).getD i 1)).length = (perDoc.getD i []).length := by rw [this]
    have hg : (perDoc.map List.length).getD i 1 = (perDoc.getD i []).length := by
      have hi'' : i < perDoc.length := by omega
      simp [List.getD_eq_getElem?_getD, List.getElem?_eq_getElem hi'']
    have hpos : 1 ≤ (perDoc.map List.length).getD i 1 := by
      have hi'' : i < (perDoc.map List.length).length := by simp; omega
      apply hv.tfpos
      simp only [List.getD_eq_getElem?_getD, List.getElem?_eq_getElem hi'', Option.getD_some]
      exact List.getElem_mem hi''
    rw [List.length_take, List.length_drop, hg] at hl1
    simp only
    omega
  rw [Positions.reads_spec cfg (by decide) (by decide) (by decide) C07_bp4x_good _ _ s 0 hc hl hrange]
  simp only [List.map_map]
  apply List.map_congr_left
  intro i hi
  exact hslice i (by simpa using (List.mem_filter.mp hi).2)

/-- **From the term ordinal to the term's bytes.**  Write the terms of a field one after the
other through the `FieldSerializer` (postings and positions appended back to back, one `TermInfo`
each) and store the TermInfos in a `TermInfoStore`: the store's hypothesis of
`C07_terminfo_roundtrip` holds by construction (ranges ordered and back to back), ordinal `n` returns
the `n`-th TermInfo, and slicing the two files at its ranges returns exactly the `n`-th term's
`doc_freq`, postings bytes and position bytes — for any number of terms, as long as the files stay
below `2^56` bytes. -/
theorem C07_field_serializer (ts : List Recorder.TermBytes)
    (h1 : (ts.flatMap (·.postings)).length < 2 ^ 56) (h2 : (ts.flatMap (·.positions)).length < 2 ^ 56)
    (h3 : ∀ t ∈ ts, t.docFreq < 2 ^ 56) (n : Nat) (hn : n < ts.length) :
    TermInfoStore.GoodStore TermInfoStore.BLOCK_LEN (FieldSerializer.writeTerms ts).infos ∧
    ∃ i, TermInfoStore.get TermInfoStore.BLOCK_LEN
        (TermInfoStore.write TermInfoStore.BLOCK_LEN (FieldSerializer.writeTerms ts).infos) n = some i ∧
      FieldSerializer.sliceTerm (FieldSerializer.writeTerms ts) i = ts[n] := by
  have hg := FieldSerializer.writeTerms_goodStore TermInfoStore.BLOCK_LEN ts h1 h2 h3
  have he := FieldSerializer.writeTerms_eq ts
  have hlen : (FieldSerializer.writeTerms ts).infos.length = ts.length := by
    rw [he.2.2, FieldSerializer.infosFrom_length]
  refine ⟨hg, _, C07_terminfo_roundtrip _ (by decide) _ hg n (by rw [hlen]; exact hn), ?_⟩
  exact FieldSerializer.slice_writeTerms ts n hn

/-- **From the corpus to the files and back through the term ordinal.**  Index the analysed corpus
(recorders), serialize the terms of the table in byte order through the `FieldSerializer`
(`serialize_postings`: postings and positions appended back to back, one `TermInfo` per term into
the `TermInfoStore`).  Then for the `n`-th term of the specification (the term dictionary maps the
`n`-th term in byte order to ordinal `n`): the store returns a `TermInfo` whose `doc_freq` is the
spec's, whose byte ranges cut out of the two files bytes that read back (`WithFreqsAndPositions`,
eager decoder) as exactly the spec's postings of that term under the record option, and on whose
postings range the lazy block cursor drains to exactly the spec's docs (and, when the option
stores them, term frequencies). -/
theorem C07_segment_end_to_end (o : RecOpt) (c : Corpus) (G : Recorder.GoodCorpus c)
    (h1 : ((FieldSerializer.segmentTerms o c).flatMap (·.postings)).length < 2 ^ 56)
    (h2 : ((FieldSerializer.segmentTerms o c).flatMap (·.positions)).length < 2 ^ 56)
    (n : Nat) (hn : n < (invert c).terms.length) :
    ∃ i, TermInfoStore.get TermInfoStore.BLOCK_LEN
        (TermInfoStore.write TermInfoStore.BLOCK_LEN (FieldSerializer.segmentFiles o c).infos) n = some i ∧
      i.docFreq = docFreq ((invert c).terms[n]).2 ∧
      Recorder.readBack o (FieldSerializer.sliceTerm (FieldSerializer.segmentFiles o c) i) =
        some (((invert c).terms[n]).2.map (project o)) ∧
      (BlockPostings.drain cfg (i.docFreq / cfg.B + 2) (BlockPostings.open cfg o o i.docFreq
        (FieldSerializer.sliceTerm (FieldSerializer.segmentFiles o c) i).postings)).1 =
        ((invert c).terms[n]).2.map (·.doc) ∧
      (hasFreq o = true →
        (BlockPostings.drain cfg (i.docFreq / cfg.B + 2) (BlockPostings.open cfg o o i.docFreq
          (FieldSerializer.sliceTerm (FieldSerializer.segmentFiles o c) i).postings)).2 =
          ((invert c).terms[n]).2.map (·.tf)) := by
  have hlen : (FieldSerializer.segmentTerms o c).length = (invert c).terms.length :=
    FieldSerializer.segmentTerms_length o c
  have hn' : n < (termsOf Gen.Postings.POSITION_GAP c).length := by
    simpa [invert, invertWith] using hn
  have hterm : (invert c).terms[n] = ((termsOf Gen.Postings.POSITION_GAP c)[n],
      postingsOf Gen.Postings.POSITION_GAP c ((termsOf Gen.Postings.POSITION_GAP c)[n])) := by
    simp [invert, invertWith]
  obtain ⟨_, i, hget, hslice⟩ := C07_field_serializer (FieldSerializer.segmentTerms o c) h1 h2
    (FieldSerializer.segmentTerms_docFreq o c G) n (by rw [hlen]; exact hn)
  obtain ⟨r, hr, hts, hdf, hback⟩ := FieldSerializer.segmentTerms_get o c G n hn'
  obtain ⟨r', hr', hlazy⟩ := FieldSerializer.segment_term_lazy o c G _ (List.getElem_mem hn')
  have hrr : r' = r := Option.some.inj (hr'.symm.trans hr)
  subst hrr
  have hsl : FieldSerializer.sliceTerm (FieldSerializer.segmentFiles o c) i = Recorder.serializeTerm o r' := by
    unfold FieldSerializer.segmentFiles; rw [hslice, hts]
  have hidf : i.docFreq = (Recorder.serializeTerm o r').docFreq := by
    rw [← hsl]; rfl
  refine ⟨i, hget, ?_, ?_, ?_, fun ho => ?_⟩
  · rw [hidf, hdf, hterm]; rfl
  · rw [hsl, hback, hterm]
  · rw [hsl, hidf, hlazy, hterm]
  · obtain ⟨r'', hr'', hlazytf⟩ := FieldSerializer.segment_term_lazy_tf o ho c G _ (List.getElem_mem hn')
    have hrr' : r'' = r' := Option.some.inj (hr''.symm.trans hr)
    subst hrr'
    rw [hsl, hidf, hlazytf, hterm]

/-! ### the recorders' byte log: `ExpUnrolledLinkedList` in the shared arena -/

/-- **The byte log round-trips.**  Starting from an empty `ExpUnrolledLinkedList`, after any sequence
of `extend_from_slice` calls — blocks of 8, 16, …, 32768, 32768, … bytes allocated from the arena
and linked through the 4-byte next pointer written behind each full block — `read_to_end` returns
exactly the concatenation of everything written (the arena staying within 32-bit addresses).
More generally a list holding `bs` holds `bs ++ buf` after `extend_from_slice(buf)`. -/
theorem C07_expull_roundtrip (a : Expull.Arena) (e : Expull.Eull) (bs buf : List Nat)
    (h : Expull.Rep a e bs) (hfit : (Expull.extendFromSlice e a buf).2.len ≤ 2 ^ 32) :
    Expull.Rep a Expull.Eull.default [] ∧
    Expull.Rep (Expull.extendFromSlice e a buf).2 (Expull.extendFromSlice e a buf).1 (bs ++ buf) ∧
    Expull.readToEnd (Expull.extendFromSlice e a buf).1 (Expull.extendFromSlice e a buf).2 = bs ++ buf ∧
    Expull.readToEnd e a = bs := by
  have h2 := Expull.extendFromSlice_rep e a buf bs h hfit
  exact ⟨Or.inl ⟨rfl, rfl⟩, h2, Expull.readToEnd_rep _ _ _ h2, Expull.readToEnd_rep _ _ _ h⟩

/-- **Lists sharing the arena do not disturb each other.**  A list's content depends only on the
bytes of its own blocks (frame); and appending to another list touches, among the bytes allocated
so far, only the free part and the next-pointer slot of *that* list's current block — so every
list that shares no address with it still reads back the same bytes afterwards. -/
theorem C07_expull_separation (a : Expull.Arena) (e1 : Expull.Eull) (full : List Expull.Block) (la : Nat)
    (ld : List Nat) (g : Expull.Good a e1 full la ld) (e2 : Expull.Eull) (buf : List Nat)
    (hdisj : ∀ x, Expull.Owned e1 full la x → ¬ Expull.Free e2 x) :
    Expull.readToEnd e1 (Expull.extendFromSlice e2 a buf).2 = Expull.readToEnd e1 a ∧
    (∀ a' : Expull.Arena, (∀ x, Expull.Owned e1 full la x → a'.mem x = a.mem x) → a.len ≤ a'.len →
      Expull.readToEnd e1 a' = Expull.readToEnd e1 a) ∧
    (∀ x, x < a.len → ¬ Expull.Free e2 x → (Expull.extendFromSlice e2 a buf).2.mem x = a.mem x) := by
  refine ⟨?_, fun a' hm hl => ?_, fun x hx hf => Expull.extendLoop_footprint _ e2 a buf x hx hf⟩
  · rw [Expull.readToEnd_good _ _ _ _ _ (Expull.other_list_kept a e1 full la ld g e2 buf hdisj),
      Expull.readToEnd_good _ _ _ _ _ g]
  · rw [Expull.readToEnd_good _ _ _ _ _ (Expull.good_congr a a' e1 full la ld hm hl g),
      Expull.readToEnd_good _ _ _ _ _ g]

/-- **The whole writer.**  `n` byte logs (one per term) start empty in an empty arena; after *any*
interleaving of `extend_from_slice` calls on them — the indexing loop appending to whichever term
the next token belongs to — `read_to_end` of every list returns exactly the bytes written to that
list, in order.  (Invariant: each list holds its bytes in its own blocks, and no two lists share
an address; a write grows a list only into freshly allocated space.) -/
theorem C07_expull_writer (n : Nat) (ws : List (Nat × List Nat)) (hw : ∀ w ∈ ws, w.1 < n)
    (hfit : (Expull.runWrites (List.replicate n Expull.Eull.default) Expull.Arena.empty ws).2.len ≤ 2 ^ 32)
    (j : Nat) (hj : j < n) :
    Expull.readToEnd
        ((Expull.runWrites (List.replicate n Expull.Eull.default) Expull.Arena.empty ws).1.getD j Expull.Eull.default)
        (Expull.runWrites (List.replicate n Expull.Eull.default) Expull.Arena.empty ws).2 =
      (ws.filter (fun w => w.1 = j)).flatMap (·.2) := by
  have h0 : Expull.Inv Expull.Arena.empty (List.replicate n Expull.Eull.default) (fun _ => none) (fun _ => []) := by
    refine ⟨fun k hk => ?_, fun k l _ _ _ x hx => by simp [Expull.OwnedV] at hx⟩
    simp only [List.length_replicate] at hk
    simp [Expull.RepV, List.getD_eq_getElem?_getD, hk]
  obtain ⟨hl, vs', hinv⟩ := Expull.runWrites_inv ws _ _ _ _ h0 (by simpa using hw) hfit
  have := hinv.1 j (by rw [hl]; simpa using hj)
  have hr := Expull.readToEnd_rep _ _ _ (Expull.repV_rep _ _ _ _ this)
  simpa using hr

/-! ### field norms -/

theorem fieldnorm_roundtrip (i : Nat) (hi : i < 256) :
    FieldNorm.fieldnormToId FieldNorm.table (FieldNorm.idToFieldnorm FieldNorm.table i) = i :=
  FieldNorm.roundtrip_of_sorted _ FieldNorm.table_sorted i (by rw [FieldNorm.table_length]; exact hi)

theorem fieldnorm_to_id_mono {n m : Nat} (h : n ≤ m) :
    FieldNorm.fieldnormToId FieldNorm.table n ≤ FieldNorm.fieldnormToId FieldNorm.table m :=
  FieldNorm.fieldnormToId_mono _ h

/-- the stored code never over-estimates the length, and the next code would -/
theorem fieldnorm_bracket (n : Nat) :
    FieldNorm.fieldnormToId FieldNorm.table n < 256 ∧
    FieldNorm.idToFieldnorm FieldNorm.table (FieldNorm.fieldnormToId FieldNorm.table n) ≤ n ∧
    (FieldNorm.fieldnormToId FieldNorm.table n + 1 < 256 →
      n < FieldNorm.idToFieldnorm FieldNorm.table (FieldNorm.fieldnormToId FieldNorm.table n + 1)) := by
  have hb := FieldNorm.count_le_bracket _ FieldNorm.table_sorted n
  have hpos := FieldNorm.count_pos n
  have hle : FieldNorm.table.countP (· ≤ n) ≤ 256 := by
    rw [← FieldNorm.table_length]; exact List.countP_le_length
  unfold FieldNorm.fieldnormToId FieldNorm.idToFieldnorm
  refine ⟨by omega, hb.1 hpos, fun h => ?_⟩
  have e : FieldNorm.table.countP (· ≤ n) - 1 + 1 = FieldNorm.table.countP (· ≤ n) := by omega
  rw [e]
  apply hb.2
  rw [FieldNorm.table_length]; omega

/-! ### the specification itself is well-formed -/

/-- `invert` lists the terms that occur, in strictly increasing byte order; every term's postings
have strictly increasing doc ids inside the segment, `tf` = number of positions > 0, positions =
the term's occurrences in that document; `doc_freq` is the length of the list. -/
theorem C07_invert_spec_sorted (c : Corpus) :
    ((invert c).terms.map (·.1)).Pairwise (· < ·) ∧
    (∀ t, t ∈ (invert c).terms.map (·.1) ↔
      ∃ d ∈ c, ∃ occ ∈ docOccs Gen.Postings.POSITION_GAP d, occ.1 = t) ∧
    (∀ e ∈ (invert c).terms,
      (e.2.map (·.doc)).Pairwise (· < ·) ∧ docFreq e.2 = e.2.length ∧
      ∀ p ∈ e.2, p.doc < c.length ∧ p.tf = p.positions.length ∧ 0 < p.tf ∧
        p.positions = ((docOccs Gen.Postings.POSITION_GAP (c.getD p.doc [])).filter
          (fun occ => occ.1 = e.1)).map (·.2)) := by
  have hmap : (invert c).terms.map (·.1) = termsOf Gen.Postings.POSITION_GAP c := by
    simp [invert, invertWith, Function.comp_def]
  refine ⟨?_, ?_, ?_⟩
  · rw [hmap]; exact termsOf_sorted _ c
  · intro t; rw [hmap]; exact mem_termsOf _ c t
  · intro e he
    simp only [invert, invertWith, List.mem_map] at he
    obtain ⟨t, _, rfl⟩ := he
    have := postingsFrom_spec Gen.Postings.POSITION_GAP t 0 c
    refine ⟨this.1, rfl, fun p hp => ?_⟩
    have h := this.2 p hp
    simp only [Nat.zero_add, Nat.sub_zero] at h
    exact ⟨h.2.1, h.2.2.1, h.2.2.2.1, h.2.2.2.2⟩

/-! ### non-vacuity: the hypotheses are met by concrete non-trivial states -/

example : (2 : Nat) ≤ VInt.STOP ∧ Gen.Postings.VINT_RADIX = Gen.Postings.VINT_STOP_BIT ∧
    Gen.Postings.PVINT_RADIX = Gen.Postings.PVINT_STOP_BIT ∧
    Gen.Postings.PVINT_STOP_BIT = Gen.Postings.VINT_STOP_BIT := by decide
example : VInt.enc VInt.STOP 300 = [44, 130] ∧ VInt.dec VInt.STOP [44, 130, 7] = some (300, [7]) := by
  decide +kernel
example : VInt.serializeU32 Gen.Postings.VINT32_LADDER Gen.Postings.VINT32_LAST_BYTES
    Gen.Postings.VINT32_RADIX Gen.Postings.VINT32_STOP_BIT 2097152 = [0, 0, 0, 129] ∧
    VInt.readU32 Gen.Postings.VINT_STOP_BIT Gen.Postings.VINT32_MAX_LEN [0, 0, 0, 129, 9] = some (2097152, 4) := by
  decide
example : VInt.packedBytes 2097152#32 = [0, 0, 0, 129] ∧ VInt.packedBytes 300#32 = [44, 130] := by decide
example : ValidList [0, 3, 4, 1000, 2147483646] [1, 2, 1, 300, 7] :=
  ⟨by decide, by decide, by decide, by decide⟩
example : 0 < cfg.B ∧ 2 ≤ cfg.S ∧ cfg.B = 8 ^ 2 * 2 ∧ cfg.T = 2 ^ 31 - 1 := by decide
example : BlockSumsFit cfg [1, 2, 1, 300, 7] := by
  intro m
  have : ∀ m, m < 6 → ((([1, 2, 1, 300, 7] : List Nat).drop m).take cfg.B).sum < 2 ^ 32 := by decide
  rcases Nat.lt_or_ge m 6 with h | h
  · exact this m h
  · rw [List.drop_eq_nil_of_le (by simpa using Nat.le_of_lt_succ (Nat.lt_succ_of_lt h))]; decide
example : run cfg .positions (Cursor.init (chunkBlocks cfg .positions 0 [0, 3, 4, 1000] [1, 2, 1, 300]))
    [.advance, .seek 5, .seek 2147483647] = [(3, 2, 1), (1000, 300, 4), (2147483647, 0, 0)] := by
  decide +kernel
example : (5 : Nat) < Gen.Postings.BITWIDTH_LIMIT ∧ encodeBitwidth 5 true = 69 := by decide
example : (invert [[[⟨[97], 0, 1⟩, ⟨[98], 1, 1⟩], [⟨[97], 0, 1⟩]], [], [[⟨[98], 0, 1⟩]]]).terms =
    [([97], [⟨0, 2, [0, 3]⟩]), ([98], [⟨0, 1, [1]⟩, ⟨2, 1, [0]⟩])] := by decide
example : ((BlockPostings.open cfg .basic .basic 3 [129, 132, 132]).advance cfg).skip.skipInfo =
    effectiveOpt cfg .basic 2 (splitSkips cfg 2 [130, 133]).1 ∧
    ((BlockPostings.open cfg .basic .basic 3 [129, 132, 132]).reset cfg 2 [130, 133]).docs = [2, 7] := by
  decide
example : Recorder.GoodCorpus [[[⟨[97], 0, 1⟩]], []] := by
  refine ⟨by decide, ?_⟩
  intro t p hp
  by_cases h : ([97] : Term) = t
  · subst h
    simp [postingsOf, postingsFrom, docOccs, docOccsFrom, indexValue] at hp
    subst hp; simp
  · simp [postingsOf, postingsFrom, docOccs, docOccsFrom, indexValue, h] at hp
example : JsonPositions.occs 1 [⟨[97], true, [⟨[1], 0, 1⟩, ⟨[2], 1, 1⟩]⟩, ⟨[98], true, [⟨[3], 0, 1⟩]⟩,
    ⟨[97], false, [⟨[9], 0, 1⟩]⟩, ⟨[97], true, [⟨[1], 0, 1⟩]⟩] =
    [⟨[97], true, [1], 0⟩, ⟨[97], true, [2], 1⟩, ⟨[98], true, [3], 0⟩, ⟨[97], false, [9], 0⟩, ⟨[97], true, [1], 3⟩] := by
  decide
example : Recorder.permuted [[[⟨[97], 0, 1⟩]], [], [[⟨[98], 0, 1⟩]]] (fun j => 2 - j) =
    [[[⟨[98], 0, 1⟩]], [], [[⟨[97], 0, 1⟩]]] ∧
    (∀ i, i < 3 → (fun d => 2 - d) i < 3 ∧ (fun j => 2 - j) ((fun d => 2 - d) i) = i) := by decide
example : (FieldSerializer.segmentFiles .freqs [[[⟨[97], 0, 1⟩, ⟨[98], 1, 1⟩]], [[⟨[97], 0, 1⟩]]]).infos.length = 2 ∧
    (invert [[[⟨[97], 0, 1⟩, ⟨[98], 1, 1⟩]], [[⟨[97], 0, 1⟩]]]).terms.length = 2 := by decide +kernel
example : ((BlockPostings.open cfg .freqs .freqs 3 [129, 132, 132, 130, 129, 135]).seek cfg 2).1.freqs.getD
    ((BlockPostings.open cfg .freqs .freqs 3 [129, 132, 132, 130, 129, 135]).seek cfg 2).2 0 = 1 ∧
    encodeTerm cfg .freqs [1, 5, 9] [2, 1, 7] = [129, 132, 132, 130, 129, 135] := by decide +kernel
example : (Expull.runWrites [Expull.Eull.default, Expull.Eull.default] Expull.Arena.empty
      [(0, [1, 2, 3]), (1, [9]), (0, [4, 5, 6, 7, 8, 9, 10])]).1.map
    (fun e => Expull.readToEnd e (Expull.runWrites [Expull.Eull.default, Expull.Eull.default] Expull.Arena.empty
      [(0, [1, 2, 3]), (1, [9]), (0, [4, 5, 6, 7, 8, 9, 10])]).2) = [[1, 2, 3, 4, 5, 6, 7, 8, 9, 10], [9]] := by
  decide +kernel
example : (Expull.runWrites (List.replicate 2 Expull.Eull.default) Expull.Arena.empty
      [(0, [1, 2, 3]), (1, [9]), (0, [4, 5, 6, 7, 8, 9, 10])]).2.len ≤ 2 ^ 32 ∧
    (∀ w ∈ [(0, [1, 2, 3]), (1, [9]), (0, [4, 5, 6, 7, 8, 9, 10])], w.1 < 2) := by decide +kernel
example : okBlockOps cfg.B cfg.T (List.range 130) (130 / cfg.B + 2) 0 [.advance, .seek 129, .seek 5] ∧
    specBlockOps cfg.B cfg.T (List.range 130) (130 / cfg.B + 2) 0 [.advance, .seek 129, .seek 5] = [128, 129, 128] :=
  ⟨⟨by decide +kernel, by decide +kernel, by decide +kernel, trivial⟩, by decide +kernel⟩
example : Recorder.sortPostings ([⟨0, 1, [0]⟩, ⟨1, 2, [0, 2]⟩, ⟨2, 1, [4]⟩].map (Recorder.remapPosting (fun d => 2 - d))) =
    [⟨0, 1, [4]⟩, ⟨1, 2, [0, 2]⟩, ⟨2, 1, [0]⟩] := by decide
example : BlockPostings.seekAll cfg (BlockPostings.open cfg .basic .basic 3 [129, 132, 132]) [0, 2, 9, 10] =
    [1, 5, 9, cfg.T] ∧ [0, 2, 9, 10].Pairwise (· ≤ ·) ∧ (∀ d ∈ [1, 5, 9], d < cfg.T) := by decide +kernel
example : (BlockPostings.open cfg .basic .basic 3 [129, 132, 132]).skip.skipInfo = .basic ∧
    (BlockPostings.open cfg .basic .basic 3 [129, 132, 132]).freqOpt = freqOptOf .basic .basic ∧
    ValidList [1, 5, 9] [1, 1, 1] := by
  refine ⟨by decide, by decide, ⟨by decide, by decide, by decide, by decide⟩⟩
example : ∀ r ∈ [(2, 2), (0, 1), (1, 3)], r.1 + r.2 ≤ ([5, 0, 7, 9] : List Nat).length := by decide
example : ValidList [0, 3, 9] (([[1, 2], [5], [0, 0, 7]] : List (List Nat)).map List.length) :=
  ⟨by decide, by decide, by decide, by decide⟩
example : (FieldSerializer.writeTerms [⟨2, [1, 2, 3], [9]⟩, ⟨1, [7], []⟩]).infos =
    [⟨2, 0, 3, 0, 1⟩, ⟨1, 3, 4, 1, 1⟩] := by decide
example : hasFreq .freqs = true ∧ ValidList [2, 4] [3, 1] := ⟨rfl, by decide, by decide, by decide, by decide⟩
example : 0 < TermInfoStore.BLOCK_LEN ∧ TermInfoStore.BLOCK_LEN = 256 := by decide
theorem C07_terminfo_example_good :
    TermInfoStore.GoodStore 2 [⟨512, 51, 57, 110, 134⟩, ⟨3, 57, 60, 134, 134⟩, ⟨9, 70, 100, 140, 150⟩] := by
  refine ⟨?_, ?_, ?_⟩
  · intro t ht
    simp at ht
    rcases ht with rfl | rfl | rfl <;> simp
  · intro t ht
    simp at ht
    rcases ht with rfl | rfl | rfl <;> simp
  · intro i hi hmod
    have : i = 0 ∨ i = 1 := by simp at hi; omega
    rcases this with rfl | rfl
    · simp
    · simp at hmod
example : TermInfoStore.get 2 (TermInfoStore.write 2
    [⟨512, 51, 57, 110, 134⟩, ⟨3, 57, 60, 134, 134⟩, ⟨9, 70, 100, 140, 150⟩]) 1 = some ⟨3, 57, 60, 134, 134⟩ :=
  C07_terminfo_roundtrip 2 (by decide) _ C07_terminfo_example_good 1 (by simp)
example : FieldNorm.fieldnormToId FieldNorm.table 41 = 40 ∧ FieldNorm.idToFieldnorm FieldNorm.table 41 = 42 := by
  decide +kernel

/-! ### functions translated from the Rust source on every run (`Gen/PureFns.lean`)

The skip-entry byte codes of `src/postings/skip.rs` and the block sizes of the stacker arena the
in-memory recorders live in (`stacker/src/expull.rs`, `shared_arena_hashmap.rs`). The definitions
are the source text, mechanically translated; the theorems are re-checked against it on every
run. -/
section SrcFns
open TantivyModel.Gen.Fn TantivyModel.PureFns

theorem C07_src_skip_bitwidth_roundtrip : ∀ (b : BitVec 8) (d : Bool),
    encode_bitwidth_pre b d = true → decode_bitwidth (encode_bitwidth b d) = (b, d) :=
  bitwidth_roundtrip

theorem C07_src_block_wand_tf_never_underestimates (tf : BitVec 32) :
    BitVec.ule tf (decode_block_wand_max_tf (encode_block_wand_max_tf tf)) = true :=
  block_wand_tf_upper tf

theorem C07_src_arena_block_sizes (b : BitVec 32) (n : BitVec 64) (hn : n ≠ 0#64) :
    (get_block_size b).toNat = 2 ^ (min b.toNat 15)
    ∧ ∃ k, k < 64 ∧ (compute_previous_power_of_two n).toNat = 2 ^ k
        ∧ 2 ^ k ≤ n.toNat ∧ n.toNat < 2 ^ (k + 1) :=
  ⟨get_block_size_spec b, compute_previous_power_of_two_spec n hn⟩

example : encode_bitwidth_pre 17#8 true = true := by decide
end SrcFns

end TantivyModel.C07
