import TantivyModel.Proofs.Store.Codec
import TantivyModel.Proofs.Store.Cache
import TantivyModel.Proofs.Store.SkipIndex
import TantivyModel.Proofs.Store.Writer
/-!
# C09 — Stored documents are returned exactly as they were added

Property theorems only (helper lemmas live in `Proofs/Store/`). The block compression codec is a
parameter (`Compression`) with the round-trip contract `GoodCompression`.
-/
namespace TantivyModel.C09
open TantivyModel TantivyModel.Store

/-- contract assumed of the block codec (none / lz4_flex / zstd) -/
structure GoodCompression (C : Compression) : Prop where
  roundtrip : ∀ b, C.decomp (C.comp b) = some b
  nonempty : ∀ b, b ≠ [] → C.comp b ≠ []

/-! ### binary document codec -/

/-- VInt (`common/src/vint.rs`): every natural number reads back, whatever follows it -/
theorem C09_vint_roundtrip (n : Nat) (rest : Bytes) : vintDec (vintEnc n ++ rest) = some (n, rest) :=
  vintDec_enc n rest

/-- a `u64` never needs more than the 10-byte buffer of `VInt::serialize_into`, a `u32` fits the
5 bytes `read_u32_vint` accepts -/
theorem C09_vint_length (n : Nat) :
    (n < 2 ^ 64 → (vintEnc n).length ≤ 10) ∧ (n < 2 ^ 32 → (vintEnc n).length ≤ 5) := by
  constructor
  · intro h
    exact vintEnc_length_le 10 n (by omega) (Nat.lt_of_lt_of_le h (by decide))
  · intro h
    exact vintEnc_length_le 5 n (by omega) (Nat.lt_of_lt_of_le h (by decide))

/-- every value tree (any depth, any width, every leaf type) reads back exactly, and the reader
stops exactly at the end of the value -/
theorem C09_value_codec_roundtrip (v : StoredValue) (rest : Bytes) :
    decodeValue (encValue v ++ rest) = some (v, rest) :=
  decodeValue_enc v rest

/-- `deserialize (serialize d) = stored view of d`: exactly the stored-flagged field values, in
order (several values per field included), non-stored fields absent; a top-level pre-tokenized
text comes back as its text. -/
theorem C09_doc_codec_roundtrip (isStored : BitVec 32 → Bool) (doc : List (BitVec 32 × FieldInput)) :
    deserializeDoc (serializeDoc isStored doc) = some (storedView isStored doc) := by
  have := deserialize_encStoredDoc (storedView isStored doc) []
  simpa [serializeDoc] using this

/-- non-stored fields are never returned -/
theorem C09_nonstored_absent (isStored : BitVec 32 → Bool) (doc : List (BitVec 32 × FieldInput))
    (d : StoredDoc) (h : deserializeDoc (serializeDoc isStored doc) = some d) :
    ∀ fv ∈ d, isStored fv.1 = true := by
  rw [C09_doc_codec_roundtrip] at h
  cases h
  intro fv hfv
  simp only [storedView, List.mem_map, List.mem_filter] at hfv
  obtain ⟨a, ⟨_, ha⟩, rfl⟩ := hfv
  exact ha

/-- a serialized document is never empty (so `send_current_block_to_compressor`'s "empty block"
shortcut never drops a document) -/
theorem C09_serialized_doc_nonempty (isStored : BitVec 32 → Bool) (doc : List (BitVec 32 × FieldInput)) :
    serializeDoc isStored doc ≠ [] :=
  encStoredDoc_ne_nil _

/-! ### skip index -/

/-- a block of checkpoints (`CheckpointBlock::serialize` / `deserialize`) reads back exactly -/
theorem C09_checkpoint_block_roundtrip (cs : List Checkpoint) (d b : Nat) (rest : Bytes)
    (hne : cs ≠ []) (h : ChainFrom d b cs) : decBlock (encBlock cs ++ rest) = some (cs, rest) :=
  decBlock_enc cs d b rest hne h

/-- `SkipIndex::open` recovers the layers `serialize_into` wrote (any number of layers) -/
theorem C09_skip_index_open_serialize (layers : List Bytes) :
    openSkipIndex (encSkipIndex layers) = some layers :=
  openSkipIndex_enc layers

/-- For every sequence of contiguous checkpoints covering `[0, N)` — any number of checkpoints,
hence any number of layers, for every period `P ≥ 2` — `seek d` on the index that
`SkipIndexBuilder` serialises is the first checkpoint whose doc range ends after `d`:
the unique checkpoint containing `d` when `d < N`, nothing when `d ≥ N`. -/
theorem C09_skip_index_seek (P : Nat) (hP : 2 ≤ P) (cps : List Checkpoint) (hne : cps ≠ [])
    (hc : ChainFrom 0 0 cps) (d : Nat) :
    (openSkipIndex (serializeSkipIndex P cps)).map (fun idx => seek idx d)
        = some (cps.find? fun c => decide (c.docEnd > d)) ∧
    (d < endD 0 cps → ∃ c, seek (finishedLayers P cps) d = some c ∧ c ∈ cps ∧ c.docStart ≤ d ∧ d < c.docEnd ∧
        ∀ c' ∈ cps, c'.docStart ≤ d → d < c'.docEnd → c'.docStart = c.docStart ∧ c'.docEnd = c.docEnd) ∧
    (endD 0 cps ≤ d → seek (finishedLayers P cps) d = none) := by
  have hs := seek_finished P hP cps hne hc d
  obtain ⟨f1, f2⟩ := find_endsAfter_spec d cps 0 0 hc (Nat.zero_le _)
  refine ⟨?_, ?_, ?_⟩
  · unfold serializeSkipIndex
    rw [openSkipIndex_enc]
    simp only [Option.map_some, hs]
    rfl
  · intro hlt
    obtain ⟨c, h1, h2, h3, h4⟩ := f1 hlt
    refine ⟨c, by rw [hs, h1], h2, h3, h4, ?_⟩
    intro c' hc' h5 h6
    exact chain_unique d cps 0 0 hc c' hc' c h2 h5 h6 h3 h4
  · intro hge
    rw [hs, f2 hge]

/-- the instance the code uses: `CHECKPOINT_PERIOD` as extracted from `store/index/mod.rs` -/
theorem C09_skip_index_seek_period (cps : List Checkpoint) (hne : cps ≠ []) (hc : ChainFrom 0 0 cps)
    (d : Nat) : seek (finishedLayers Gen.CHECKPOINT_PERIOD cps) d = cps.find? fun c => decide (c.docEnd > d) :=
  seek_finished Gen.CHECKPOINT_PERIOD (by decide) cps hne hc d

/-- an index without any checkpoint answers every `seek` with the bogus initial checkpoint
(doc range `0..1`, byte range `0..0`) instead of `None` — harmless only because a store always
holds at least one document -/
theorem C09_skip_index_seek_empty_store (P d : Nat) :
    seek (finishedLayers P []) d = some { docStart := 0, docEnd := 1, byteStart := 0, byteEnd := 0 } := by
  simp [finishedLayers, buildLayers, finishLayers, seek, seekLoop, seekInit]

/-! ### writer → file → reader -/

/-- `get (write docs) i = docs[i]` for every block size, every document size (larger than a block
included), every codec with the round-trip contract; beyond the last document `get` fails.
`K` is the per-document index estimate of `check_flush_block`, `P` the checkpoint period.
The dedicated compressor thread executes the same call sequence (FIFO channel), so the statement
covers both settings. Sizes are bounded only by the u32 offsets inside a block. -/
theorem C09_store_get (C : Compression) (hC : GoodCompression C) (K P bs : Nat) (hK : 1 ≤ K) (hP : 2 ≤ P)
    (hbs : bs < 4294967296) (docs : List Bytes) (hne : docs ≠ [])
    (hall : ∀ d ∈ docs, d ≠ [] ∧ bs + d.length < 4294967296) (i : Nat) :
    getBytes C (writtenStore C K P bs docs) i = docs[i]? := by
  obtain ⟨groups, hflat, hl, hg⟩ := written_laid C K hK bs docs hall hbs
  have hgne : groups ≠ [] := by
    intro h; rw [h] at hflat; exact hne hflat.symm
  have := getBytes_laid C hC.roundtrip P hP groups _ _ hl hg hgne (writtenStore C K P bs docs) rfl rfl i
  rw [this, hflat]

/-- `StoreReader::open` of what `StoreWriter::close` wrote is the store above (footer, offset of
the skip index, decompressor id, version) -/
theorem C09_store_open_close (C : Compression) (K P bs : Nat) (docs : List Bytes) (hid : C.id < 256)
    (hlen : ((docs.foldl (Writer.storeBytes C K) (Writer.new bs)).sendBlock C).written.length < 2 ^ 64) :
    openStore (writeStore C K P bs docs) = some (writtenStore C K P bs docs) :=
  openStore_close C P _ hid hlen

/-- the same, end to end on documents: adding documents and fetching by doc id returns exactly the
stored view of each (instance with the extracted constants) -/
theorem C09_store_get_doc (C : Compression) (hC : GoodCompression C) (bs : Nat) (hbs : bs < 4294967296)
    (isStored : BitVec 32 → Bool) (added : List (List (BitVec 32 × FieldInput))) (hne : added ≠ [])
    (hfit : ∀ d ∈ added, bs + (serializeDoc isStored d).length < 4294967296) (i : Nat) (hi : i < added.length) :
    getDoc C (writtenStore C Gen.STORE_INDEX_ENTRY_COST Gen.CHECKPOINT_PERIOD bs (added.map (serializeDoc isStored))) i
      = some (storedView isStored added[i]) := by
  unfold getDoc
  rw [C09_store_get C hC _ _ bs (by decide) (by decide) hbs _ (by simpa using hne)]
  · simp only [List.getElem?_map, List.getElem?_eq_getElem hi, Option.map_some, Option.bind_some]
    exact C09_doc_codec_roundtrip isStored _
  · intro d hd
    obtain ⟨a, ha, rfl⟩ := List.mem_map.mp hd
    exact ⟨C09_serialized_doc_nonempty isStored a, hfit a ha⟩

/-! ### block cache -/

/-- for every access sequence and every capacity (0 included), reading through the LRU block cache
returns exactly what reading without it returns — provided the cache key (block start offset)
determines the block among the checkpoints `seek` returns. -/
theorem C09_cache_transparent (C : Compression) (sf : StoreFile) (hk : KeyDeterminesBlock sf)
    (cap : Nat) (accesses : List Nat) :
    (runGets C sf (BlockCache.new cap) accesses).1 = accesses.map (getBytes C sf) :=
  runGets_spec C sf hk accesses _ (cacheInv_new C sf cap)

/-! ### non-vacuity -/

example : ∃ C, GoodCompression C :=
  ⟨Compression.none, ⟨fun _ => rfl, fun _ h => h⟩⟩

/-- a nested document with every kind of node, stored and non-stored fields mixed -/
def exampleDoc : List (BitVec 32 × FieldInput) :=
  [(0, .val (.str [104, 105])), (1, .val (.u64 7)), (0, .val (.str [])),
   (2, .preTokText [97]),
   (3, .val (.object [([107], .array [.null, .bool true, .i64 (-1), .object []]), ([], .f64 5)])),
   (4, .val (.ip 1)), (5, .val (.bytes [0, 255])), (6, .val (.date 9)), (7, .val (.facet [97, 0, 98]))]

example : (storedView (fun f => f ≠ 1) exampleDoc).length = 8 := by decide

example : deserializeDoc (serializeDoc (fun f => f ≠ 1) exampleDoc)
    = some (storedView (fun f => f ≠ 1) exampleDoc) := C09_doc_codec_roundtrip _ _

example : vintEnc 300 = [44, 130] := by
  rw [vintEnc]; simp [stop_eq]; rw [vintEnc]; simp [stop_eq]

/-- 70 one-document checkpoints: two full layers and a third one (8·8 < 70) -/
def exampleCheckpoints : List Checkpoint :=
  (List.range 70).map fun i => { docStart := i, docEnd := i + 1, byteStart := 3 * i, byteEnd := 3 * i + 3 }

example : ChainFrom 0 0 exampleCheckpoints := by decide +kernel
example : (finishedLayers 8 exampleCheckpoints).length = 3 := by decide
example : seek (finishedLayers 8 exampleCheckpoints) 64
    = some { docStart := 64, docEnd := 65, byteStart := 192, byteEnd := 195 } := by decide +kernel

/-- three documents, block size 9: the second document is larger than a block -/
example : getBytes Compression.none (writtenStore Compression.none 8 8 9 [[1], [2, 3, 4, 5, 6, 7, 8, 9, 10, 11, 12], [13, 14]]) 1
    = some [2, 3, 4, 5, 6, 7, 8, 9, 10, 11, 12] := by decide +kernel
example : ((([[1], [2, 3, 4, 5, 6, 7, 8, 9, 10, 11, 12], [13, 14]] : List Bytes).foldl
    (Writer.storeBytes Compression.none 8) (Writer.new 9)).sendBlock Compression.none).checkpoints.length = 2 := by
  decide +kernel

end TantivyModel.C09
