import TantivyModel.Proofs.Store.Codec
import TantivyModel.Proofs.Store.Cache
import TantivyModel.Proofs.Store.SkipIndex
import TantivyModel.Proofs.Store.Writer
import TantivyModel.Proofs.Store.Merge
import TantivyModel.Proofs.Store.Channel
import TantivyModel.Model.Store.Version
import TantivyModel.Proofs.Store.VInt32
import TantivyModel.Model.Store.JsonNumber
import TantivyModel.Proofs.Store.DocPath
import TantivyModel.Proofs.Store.Framing
import TantivyModel.Proofs.Store.WriterBound
import TantivyModel.Model.Store.Utf8
import TantivyModel.Proofs.Store.Lz4
import TantivyModel.Model.Store.PreTok
/-!
# C09 — Stored documents are returned exactly as they were added

Property theorems only (helper lemmas live in `Proofs/Store/`). The block compression codec is a
parameter (`Compression`) with the round-trip contract `GoodCompression`.
-/
namespace TantivyModel.C09
open TantivyModel TantivyModel.Store

/-- contract assumed of the block codec (none / lz4_flex / zstd) -/
structure GoodCompression (C : Compression) : Prop where
  roundtrip : ∀ b, C.decomp (C.comp b) = some b
  nonempty : ∀ b, b ≠ [] → C.comp b ≠ []

/-! ### binary document codec -/

/-- VInt (`common/src/vint.rs`): every natural number reads back, whatever follows it -/
theorem C09_vint_roundtrip (n : Nat) (rest : Bytes) : vintDec (vintEnc n ++ rest) = some (n, rest) :=
  vintDec_enc n rest

/-- a `u64` never needs more than the 10-byte buffer of `VInt::serialize_into`, a `u32` fits the
5 bytes `read_u32_vint` accepts -/
theorem C09_vint_length (n : Nat) :
    (n < 2 ^ 64 → (vintEnc n).length ≤ 10) ∧ (n < 2 ^ 32 → (vintEnc n).length ≤ 5) := by
  constructor
  · intro h
    exact vintEnc_length_le 10 n (by omega) (Nat.lt_of_lt_of_le h (by decide))
  · intro h
    exact vintEnc_length_le 5 n (by omega) (Nat.lt_of_lt_of_le h (by decide))

/-- every value tree (any depth, any width, every leaf type) reads back exactly, and the reader
stops exactly at the end of the value -/
theorem C09_value_codec_roundtrip (v : StoredValue) (rest : Bytes) :
    decodeValue (encValue v ++ rest) = some (v, rest) :=
  decodeValue_enc v rest

/-- `deserialize (serialize d) = stored view of d`: exactly the stored-flagged field values, in
order (several values per field included), non-stored fields absent; a top-level pre-tokenized
text comes back as its text. -/
theorem C09_doc_codec_roundtrip (isStored : BitVec 32 → Bool) (doc : List (BitVec 32 × FieldInput)) :
    deserializeDoc (serializeDoc isStored doc) = some (storedView isStored doc) := by
  have := deserialize_encStoredDoc (storedView isStored doc) []
  simpa [serializeDoc] using this

/-- non-stored fields are never returned -/
theorem C09_nonstored_absent (isStored : BitVec 32 → Bool) (doc : List (BitVec 32 × FieldInput))
    (d : StoredDoc) (h : deserializeDoc (serializeDoc isStored doc) = some d) :
    ∀ fv ∈ d, isStored fv.1 = true := by
  rw [C09_doc_codec_roundtrip] at h
  cases h
  intro fv hfv
  simp only [storedView, List.mem_map, List.mem_filter] at hfv
  obtain ⟨a, ⟨_, ha⟩, rfl⟩ := hfv
  exact ha

/-- a serialized document is never empty (so `send_current_block_to_compressor`'s "empty block"
shortcut never drops a document) -/
theorem C09_serialized_doc_nonempty (isStored : BitVec 32 → Bool) (doc : List (BitVec 32 × FieldInput)) :
    serializeDoc isStored doc ≠ [] :=
  encStoredDoc_ne_nil _

/-! ### the UTF-8 check of `read_to_string` -/

/-- with the UTF-8 check the real deserializer performs on every string it reads, a stored document
comes back exactly iff all its strings (texts, facets, object keys) are UTF-8 — which every
document added through the API satisfies (`String` / `&str` values); otherwise it is rejected, never
altered -/
theorem C09_strict_decode (d : StoredDoc) (trailing : Bytes) :
    deserializeDocStrict (encStoredDoc d ++ trailing)
      = if d.all (fun fv => stringsValid fv.2) then some d else none := by
  unfold deserializeDocStrict
  rw [deserialize_encStoredDoc]
  rfl

/-! ### `TantivyDocument` (CompactDoc): length-prefixed values in `node_data` -/

/-- `serialize_vint_u32` (the unrolled threshold ladder, extracted with its comparison operators and
thresholds) read back by `read_u32_vint_no_advance`: every `u32`, in particular every threshold
2^7, 2^14, 2^21, 2^28 and its neighbours, comes back with the number of bytes that was written -/
theorem C09_vint_u32_roundtrip (v : Nat) (hv : v < 4294967296) (rest : Bytes) :
    readU32Vint (serializeVintU32 v ++ rest) = some (v, (serializeVintU32 v).length) :=
  readU32Vint_serialize v hv rest

/-- the ladder never selects fewer bytes than the value needs, nor more than the reader scans -/
theorem C09_vint_u32_ladder_sound (v : Nat) (hv : v < 4294967296) :
    1 ≤ Gen.vintU32NumBytes v ∧ Gen.vintU32NumBytes v ≤ Gen.VINT_U32_MAX_LEN ∧
      v < 128 ^ Gen.vintU32NumBytes v :=
  ladder_sound v hv

/-- `write_bytes_into` / `binary_deserialize_bytes`: a string, facet, bytes value or child table of
any length below 4 GiB held by a `TantivyDocument` is read back exactly, whatever follows it -/
theorem C09_compact_doc_bytes_roundtrip (data rest : Bytes) (h : data.length < 4294967296) :
    cdReadBytes (cdWriteBytes data ++ rest) = some data :=
  cdReadBytes_write data rest h

/-! ### documents added from JSON: classification of numbers -/

/-- a JSON integer becomes an `I64` if it fits, else a `U64` if it fits (type-preserving, value
kept), for the dispatch order found in `From<serde_json::Value> for OwnedValue` -/
theorem C09_json_number_typed (n : Int) (h1 : -9223372036854775808 ≤ n) (h2 : n ≤ 18446744073709551615) :
    jsonNumber n = some (if n ≤ 9223372036854775807 then .int64 n else .uint64 n) := by
  unfold jsonNumber jsonNumberWith
  have hd : Gen.JSON_NUMBER_DISPATCH = [0, 1, 2] := by decide
  rw [hd]
  by_cases h : n ≤ 9223372036854775807
  · have : numAccepts 0 n = true := by simp [numAccepts]; omega
    simp [List.find?, this, numBuild, h]
  · have a0 : numAccepts 0 n = false := by simp [numAccepts]; omega
    have a1 : numAccepts 1 n = true := by simp [numAccepts]; omega
    simp [List.find?, a0, a1, numBuild, h]

/-- hence no two integers of [i64::MIN, u64::MAX] are stored as the same value, and none of them
becomes a float -/
theorem C09_json_number_injective (a b : Int)
    (ha1 : -9223372036854775808 ≤ a) (ha2 : a ≤ 18446744073709551615)
    (hb1 : -9223372036854775808 ≤ b) (hb2 : b ≤ 18446744073709551615)
    (h : jsonNumber a = jsonNumber b) : a = b ∧ jsonNumber a ≠ some .float := by
  rw [C09_json_number_typed a ha1 ha2, C09_json_number_typed b hb1 hb2] at h
  rw [C09_json_number_typed a ha1 ha2]
  constructor
  · split at h <;> split at h <;> simp at h <;> first | exact h | omega
  · split <;> simp

/-! ### `TantivyDocument` (CompactDoc): values, address tables, and the whole path of a value -/

/-- A value of any shape (every leaf type, arrays and objects with their address tables, any nesting)
added to a `CompactDoc` — after whatever `node` already holds, before whatever is added later
(`ext`) — is read back exactly by `get_ref_value` and the array / object iterators. Bounded only by
the `u32` addresses (`node_data` below 4 GiB). -/
theorem C09_compact_doc_value_roundtrip (v : StoredValue) (node ext : Bytes) (fuel : Nat)
    (hf : depthV v ≤ fuel) (hb : (cdAdd node v).1.length < 4294967296) :
    cdRead fuel ((cdAdd node v).1 ++ ext) (cdAdd node v).2 = some v :=
  cdRead_add v node ext fuel hf hb

/-- A whole `TantivyDocument`: the (field, value) pairs added with `add_field_value`, several per
field, in any order, come back from `field_values()` exactly and in order -/
theorem C09_compact_doc_roundtrip (fvs : List (BitVec 32 × StoredValue)) (node ext : Bytes) (fuel : Nat)
    (hf : ∀ fv ∈ fvs, depthV fv.2 ≤ fuel) (hb : (cdAddDoc node fvs).1.length < 4294967296) :
    cdReadDoc fuel ((cdAddDoc node fvs).1 ++ ext) (cdAddDoc node fvs).2 = some fvs :=
  cdReadDoc_add fvs node ext fuel hf hb

/-- the precondition of the document round trip that the code enforces with a panic: field ids must
fit `FieldValueAddr::field` (u16, extracted); exactly then `add_field_value` succeeds, and then the
document returns what was added -/
theorem C09_compact_doc_field_limit (fvs : List (BitVec 32 × StoredValue)) (fuel : Nat)
    (hf : ∀ fv ∈ fvs, depthV fv.2 ≤ fuel) (hb : (cdAddDoc [] fvs).1.length < 4294967296) :
    ((cdAddDocChecked [] fvs).isSome = true ↔ ∀ fv ∈ fvs, fv.1.toNat < Gen.CD_FIELD_ID_LIMIT) ∧
    ∀ r, cdAddDocChecked [] fvs = some r → cdReadDoc fuel r.1 r.2 = some fvs := by
  refine ⟨cdAddDocChecked_iff [] fvs, ?_⟩
  intro r hr
  unfold cdAddDocChecked at hr
  split at hr
  · cases hr
    have := cdReadDoc_add fvs [] [] fuel hf hb
    simpa using this
  · cases hr

/-- contract of serde_json for the struct `PreTokenizedString` -/
def PreTokJsonGood (J : PreTokJson) : Prop := ∀ p, J.fromJson (J.toJson p) = some p

/-- a pre-tokenized text added at the top level of a document (`add_pre_tokenized_text`): the
document holds its JSON; `serialize_doc` reads it back from `node_data` and stores exactly the
text, as a plain string (this is `FieldInput.preTokText` of `C09_doc_codec_roundtrip`). Nested in
an array or object it keeps its JSON (`C09_value_codec_roundtrip`, `.preTok`). -/
theorem C09_pretok_top_level (J : PreTokJson) (hJ : PreTokJsonGood J) (p : PreTok) (node ext : Bytes)
    (fuel : Nat) (hf : 1 ≤ fuel) (hb : (cdAdd node (preTokValue J p)).1.length < 4294967296) :
    (cdRead fuel ((cdAdd node (preTokValue J p)).1 ++ ext) (cdAdd node (preTokValue J p)).2).bind (topLevelStored J)
      = some (.str p.text) := by
  rw [C09_compact_doc_value_roundtrip (preTokValue J p) node ext fuel (by simpa [preTokValue, depthV] using hf) hb]
  simp [preTokValue, topLevelStored, hJ p]

/-- The whole path of one value: what the user adds (`v`, in-memory reading) is what the document
returns before it is stored; `serialize_value` writes `memToDisk v`; the store codec returns exactly
those bytes' value; `deserialize` turns it back into `v` (floats: `u64_to_f64 ∘ f64_to_u64 = id`,
both extracted); and the rebuilt `TantivyDocument` returns `v` again. -/
theorem C09_document_value_path (v : StoredValue) (fuel : Nat) (hf : depthV v ≤ fuel)
    (hb : (cdAdd [] v).1.length < 4294967296) (rest : Bytes) :
    cdRead fuel (cdAdd [] v).1 (cdAdd [] v).2 = some v ∧
    (decodeValue (encValue (memToDisk v) ++ rest)).map (fun r => diskToMem r.1) = some v ∧
    cdRead fuel (cdAdd [] (diskToMem (memToDisk v))).1 (cdAdd [] (diskToMem (memToDisk v))).2 = some v := by
  have h1 := cdRead_add v [] [] fuel hf hb
  simp only [List.append_nil] at h1
  refine ⟨h1, ?_, ?_⟩
  · rw [decodeValue_enc]; simp [diskToMem_memToDisk]
  · rw [diskToMem_memToDisk]; exact h1

/-- The whole path of a document (stored fields): the `TantivyDocument` returns what was added;
`serialize_doc` writes the on-disk reading of each value; the store codec reads it back; the
deserializer rebuilds a `TantivyDocument` that again returns exactly the values added, in order.
Composed with `C09_store_get` (bytes in = bytes out for every block size / codec / document size)
this is `Searcher::doc (add doc) = doc` on the model, end to end. -/
theorem C09_document_path (fvs : List (BitVec 32 × StoredValue)) (fuel : Nat)
    (hf : ∀ fv ∈ fvs, depthV fv.2 ≤ fuel) (hb : (cdAddDoc [] fvs).1.length < 4294967296)
    (trailing : Bytes) :
    let onDisk : StoredDoc := fvs.map fun fv => (fv.1, memToDisk fv.2)
    cdReadDoc fuel (cdAddDoc [] fvs).1 (cdAddDoc [] fvs).2 = some fvs ∧
    (deserializeDoc (encStoredDoc onDisk ++ trailing)).map (fun d => d.map fun fv => (fv.1, diskToMem fv.2))
      = some fvs := by
  intro onDisk
  have h1 := cdReadDoc_add fvs [] [] fuel hf hb
  simp only [List.append_nil] at h1
  refine ⟨h1, ?_⟩
  rw [deserialize_encStoredDoc]
  simp only [Option.map_some, Option.some.injEq, onDisk, List.map_map]
  conv => rhs; rw [← List.map_id fvs]
  apply List.map_congr_left
  intro fv _
  simp [diskToMem_memToDisk]

/-! ### skip index -/

/-- a block of checkpoints (`CheckpointBlock::serialize` / `deserialize`) reads back exactly -/
theorem C09_checkpoint_block_roundtrip (cs : List Checkpoint) (d b : Nat) (rest : Bytes)
    (hne : cs ≠ []) (h : ChainFrom d b cs) : decBlock (encBlock cs ++ rest) = some (cs, rest) :=
  decBlock_enc cs d b rest hne h

/-- `SkipIndex::open` recovers the layers `serialize_into` wrote (any number of layers) -/
theorem C09_skip_index_open_serialize (layers : List Bytes) :
    openSkipIndex (encSkipIndex layers) = some layers :=
  openSkipIndex_enc layers

/-- For every sequence of contiguous checkpoints covering `[0, N)` — any number of checkpoints,
hence any number of layers, for every period `P ≥ 2` — `seek d` on the index that
`SkipIndexBuilder` serialises is the first checkpoint whose doc range ends after `d`:
the unique checkpoint containing `d` when `d < N`, nothing when `d ≥ N`. -/
theorem C09_skip_index_seek (P : Nat) (hP : 2 ≤ P) (cps : List Checkpoint) (hne : cps ≠ [])
    (hc : ChainFrom 0 0 cps) (d : Nat) :
    (openSkipIndex (serializeSkipIndex P cps)).map (fun idx => seek idx d)
        = some (cps.find? fun c => decide (c.docEnd > d)) ∧
    (d < endD 0 cps → ∃ c, seek (finishedLayers P cps) d = some c ∧ c ∈ cps ∧ c.docStart ≤ d ∧ d < c.docEnd ∧
        ∀ c' ∈ cps, c'.docStart ≤ d → d < c'.docEnd → c'.docStart = c.docStart ∧ c'.docEnd = c.docEnd) ∧
    (endD 0 cps ≤ d → seek (finishedLayers P cps) d = none) := by
  have hs := seek_finished P hP cps hne hc d
  obtain ⟨f1, f2⟩ := find_endsAfter_spec d cps 0 0 hc (Nat.zero_le _)
  refine ⟨?_, ?_, ?_⟩
  · unfold serializeSkipIndex
    rw [openSkipIndex_enc]
    simp only [Option.map_some, hs]
    rfl
  · intro hlt
    obtain ⟨c, h1, h2, h3, h4⟩ := f1 hlt
    refine ⟨c, by rw [hs, h1], h2, h3, h4, ?_⟩
    intro c' hc' h5 h6
    exact chain_unique d cps 0 0 hc c' hc' c h2 h5 h6 h3 h4
  · intro hge
    rw [hs, f2 hge]

/-- the instance the code uses: `CHECKPOINT_PERIOD` as extracted from `store/index/mod.rs` -/
theorem C09_skip_index_seek_period (cps : List Checkpoint) (hne : cps ≠ []) (hc : ChainFrom 0 0 cps)
    (d : Nat) : seek (finishedLayers Gen.CHECKPOINT_PERIOD cps) d = cps.find? fun c => decide (c.docEnd > d) :=
  seek_finished Gen.CHECKPOINT_PERIOD (by decide) cps hne hc d

/-- an index without any checkpoint answers every `seek` with the bogus initial checkpoint
(doc range `0..1`, byte range `0..0`) instead of `None` — harmless only because a store always
holds at least one document -/
theorem C09_skip_index_seek_empty_store (P d : Nat) :
    seek (finishedLayers P []) d = some { docStart := 0, docEnd := 1, byteStart := 0, byteEnd := 0 } := by
  simp [finishedLayers, buildLayers, finishLayers, seek, seekLoop, seekInit]

/-! ### writer → file → reader -/

/-- `get (write docs) i = docs[i]` for every block size, every document size (larger than a block
included), every codec with the round-trip contract; beyond the last document `get` fails.
`K` is the per-document index estimate of `check_flush_block`, `P` the checkpoint period.
The dedicated compressor thread executes the same call sequence (FIFO channel), so the statement
covers both settings. Sizes are bounded only by the u32 offsets inside a block. -/
theorem C09_store_get (C : Compression) (hC : GoodCompression C) (K P bs : Nat) (hK : 1 ≤ K) (hP : 2 ≤ P)
    (hbs : bs < 4294967296) (docs : List Bytes) (hne : docs ≠ [])
    (hall : ∀ d ∈ docs, d ≠ [] ∧ bs + d.length < 4294967296) (i : Nat) :
    getBytes C (writtenStore C K P bs docs) i = docs[i]? := by
  obtain ⟨groups, hflat, hl, hg⟩ := written_laid C K hK bs docs hall hbs
  have hgne : groups ≠ [] := by
    intro h; rw [h] at hflat; exact hne hflat.symm
  have := getBytes_laid C hC.roundtrip P hP groups _ _ hl hg hgne (writtenStore C K P bs docs) rfl rfl i
  rw [this, hflat]

/-- `StoreReader::open` of what `StoreWriter::close` wrote is the store above (footer, offset of
the skip index, decompressor id, version) -/
theorem C09_store_open_close (C : Compression) (K P bs : Nat) (docs : List Bytes) (hid : C.id < 256)
    (hlen : ((docs.foldl (Writer.storeBytes C K) (Writer.new bs)).sendBlock C).written.length < 2 ^ 64) :
    openStore (writeStore C K P bs docs) = some (writtenStore C K P bs docs) :=
  openStore_close C P _ hid hlen

/-- the same, end to end on documents: adding documents and fetching by doc id returns exactly the
stored view of each (instance with the extracted constants) -/
theorem C09_store_get_doc (C : Compression) (hC : GoodCompression C) (bs : Nat) (hbs : bs < 4294967296)
    (isStored : BitVec 32 → Bool) (added : List (List (BitVec 32 × FieldInput))) (hne : added ≠ [])
    (hfit : ∀ d ∈ added, bs + (serializeDoc isStored d).length < 4294967296) (i : Nat) (hi : i < added.length) :
    getDoc C (writtenStore C Gen.STORE_INDEX_ENTRY_COST Gen.CHECKPOINT_PERIOD bs (added.map (serializeDoc isStored))) i
      = some (storedView isStored added[i]) := by
  unfold getDoc
  rw [C09_store_get C hC _ _ bs (by decide) (by decide) hbs _ (by simpa using hne)]
  · simp only [List.getElem?_map, List.getElem?_eq_getElem hi, Option.map_some, Option.bind_some]
    exact C09_doc_codec_roundtrip isStored _
  · intro d hd
    obtain ⟨a, ha, rfl⟩ := List.mem_map.mp hd
    exact ⟨C09_serialized_doc_nonempty isStored a, hfit a ha⟩

/-- End to end on the model: documents (their stored field values, in-memory reading, any shapes)
are added — each serialized by `serialize_doc`, appended to the store with any block size and codec —
and fetched by doc id: the deserialized document, handed back to a `TantivyDocument`, is exactly
the list of (field, value) pairs that was added, for every document id. -/
theorem C09_add_then_fetch (C : Compression) (hC : GoodCompression C) (bs : Nat) (hbs : bs < 4294967296)
    (added : List (List (BitVec 32 × StoredValue))) (hne : added ≠ [])
    (hfit : ∀ d ∈ added, bs + (encStoredDoc (docToDisk d)).length < 4294967296)
    (i : Nat) (hi : i < added.length) :
    ((getBytes C (writtenStore C Gen.STORE_INDEX_ENTRY_COST Gen.CHECKPOINT_PERIOD bs
        (added.map fun d => encStoredDoc (docToDisk d))) i).bind deserializeDoc).map docToMem
      = some added[i] := by
  rw [C09_store_get C hC _ _ bs (by decide) (by decide) hbs _ (by simpa using hne)]
  · simp only [List.getElem?_map, List.getElem?_eq_getElem hi, Option.map_some, Option.bind_some]
    have := deserialize_encStoredDoc (docToDisk added[i]) []
    rw [List.append_nil] at this
    rw [this]
    simp [docToMem_docToDisk]
  · intro d hd
    obtain ⟨a, ha, rfl⟩ := List.mem_map.mp hd
    exact ⟨encStoredDoc_ne_nil _, hfit a ha⟩

/-! ### lz4 / zstd: the length frame around the raw block codec -/

/-- contract of the raw codec (`lz4_flex` block / `zstd::bulk`): given the announced output size it
returns the block -/
def RawGood (R : RawCodec) : Prop := ∀ b, R.dec b.length (R.enc b) = some b

/-- the frame both `compression_lz4_block.rs` and `compression_zstd_block.rs` put around the raw
codec (u32 LE uncompressed length, size check after decompression) round-trips every block below
4 GiB and never produces an empty block (so block start offsets stay distinct cache keys) -/
theorem C09_framed_block_roundtrip (R : RawCodec) (hR : RawGood R) (id : Nat) (b : Bytes)
    (hb : b.length < 4294967296) :
    (framed R id).decomp ((framed R id).comp b) = some b ∧ (framed R id).comp b ≠ [] :=
  ⟨framed_roundtrip R hR id b hb, framed_nonempty R id b⟩

/-- hence `get` on a store whose blocks are below 4 GiB, written with lz4 or zstd seen as a framed
abstract codec: the documents, whatever the block sizes and the skip index shape. (That the
writer's blocks stay below 4 GiB needs `5·block_size + doc_len` well below 2^32; stated as the
hypothesis `hsmall` on the laid-out groups.) -/
theorem C09_store_get_framed (R : RawCodec) (hR : RawGood R) (id P : Nat) (hP : 2 ≤ P)
    (groups : List (List Bytes)) (cps : List Checkpoint) (sf : StoreFile)
    (hl : Laid (framed R id) 0 0 groups cps sf.data) (hg : ∀ g ∈ groups, g ≠ [] ∧ Fits g)
    (hsmall : ∀ g ∈ groups, blockLenOf (g.map List.length) < 4294967296) (hne : groups ≠ [])
    (hidx : sf.index = finishedLayers P cps) (i : Nat) :
    getBytes (framed R id) sf i = groups.flatten[i]? :=
  getBytes_framed R hR id P hP groups cps sf.data hl hg hsmall hne sf rfl hidx i

/-- … and the blocks the writer cuts are that small: with lz4 / zstd seen as a framed abstract codec,
`get (write docs) i = docs[i]` for every block size and document size with
`block_size + doc_len + K + 4 < 2^32` (`K ≥ 4` bytes of index estimate per document; the code has 8).
This is `C09_store_get` for the compressors other than `none`, frame included. -/
theorem C09_store_get_framed_written (R : RawCodec) (hR : RawGood R) (id K P bs M : Nat) (hK : 4 ≤ K)
    (hP : 2 ≤ P) (docs : List Bytes) (hne : docs ≠ [])
    (hall : ∀ d ∈ docs, d ≠ [] ∧ d.length ≤ M) (hsz : bs + M + K + 4 < 4294967296) (i : Nat) :
    getBytes (framed R id) (writtenStore (framed R id) K P bs docs) i = docs[i]? := by
  obtain ⟨groups, hflat, hl, hg, hbd⟩ := written_laidB (framed R id) K M (by omega) bs docs
    (fun d hd => ⟨(hall d hd).1, (hall d hd).2, by have := (hall d hd).2; omega⟩) (by omega)
  have hgne : groups ≠ [] := by intro h; rw [h] at hflat; exact hne hflat.symm
  have := getBytes_framed R hR id P hP groups _ _ hl hg
    (fun g hgm => by have := blockLen_le K hK g _ (hbd g hgm); omega) hgne
    (writtenStore (framed R id) K P bs docs) rfl rfl i
  rw [this, hflat]

/-! ### lz4: the block format itself -/

/-- the LZ4 block decoder (token, length extensions, literals, offset, overlapping match copy — the
format `lz4_flex` reads; the harness decodes the real compressor's blocks with it on every run)
inverts the reference encoder that emits the input as one literal-only sequence, for every input
(all lengths, i.e. every number of length-extension bytes) -/
theorem C09_lz4_literal_roundtrip (b : Bytes) : lz4Decode (lz4EncodeLiteral b) = some b :=
  lz4Decode_literal b

/-- … and reproduces a run from one literal and an overlapping match at offset 1 -/
theorem C09_lz4_overlapping_match (x : UInt8) (k : Nat) (hk : k ≤ 14) :
    lz4Decode (lz4RunBlock x k) = some (List.replicate (k + 5) x) :=
  lz4Decode_run x k hk

/-- `Compressor::Lz4` as a concrete codec (frame + LZ4 block format with the reference encoder): no
contract is assumed any more — `get (write docs) i = docs[i]` for every block size and document
size below the 4 GiB frame limit -/
theorem C09_store_get_lz4 (K P bs M : Nat) (hK : 4 ≤ K) (hP : 2 ≤ P) (docs : List Bytes) (hne : docs ≠ [])
    (hall : ∀ d ∈ docs, d ≠ [] ∧ d.length ≤ M) (hsz : bs + M + K + 4 < 4294967296) (i : Nat) :
    getBytes lz4Compression (writtenStore lz4Compression K P bs docs) i = docs[i]? :=
  C09_store_get_framed_written lz4Raw lz4Raw_good Gen.DECOMPRESSOR_ID_LZ4 K P bs M hK hP docs hne hall hsz i

/-! ### sorted index: the temporary store is re-read in the order of the doc-id mapping -/

/-- `SegmentWriter::finalize` with a doc-id mapping (`sort_by_field`): documents are first written to
a temporary store (compressor none, its own block size `tbs`), then fetched one by one with
`get_document_bytes(old_doc_id)` in the order of the mapping and written to the final store.
Fetching document `i` of the final store returns the document the mapping names, for every
mapping (any permutation, and any codec / block sizes of the two stores). -/
theorem C09_sorted_remap (C : Compression) (hC : GoodCompression C) (K P tbs bs : Nat) (hK : 1 ≤ K) (hP : 2 ≤ P)
    (htbs : tbs < 4294967296) (hbs : bs < 4294967296) (docs : List Bytes) (hne : docs ≠ [])
    (hall : ∀ d ∈ docs, d ≠ [] ∧ tbs + d.length < 4294967296 ∧ bs + d.length < 4294967296)
    (order : List Nat) (hord : ∀ o ∈ order, o < docs.length) (hone : order ≠ []) :
    let temp := writtenStore Compression.none K P tbs docs
    ∃ picked, order.mapM (getBytes Compression.none temp) = some picked ∧
      picked = order.map (fun o => docs[o]?.getD []) ∧
      ∀ i, getBytes C (writtenStore C K P bs picked) i = (order[i]?).bind fun o => docs[o]? := by
  intro temp
  have hget : ∀ o, getBytes Compression.none temp o = docs[o]? := fun o =>
    C09_store_get Compression.none ⟨fun _ => rfl, fun _ h => h⟩ K P tbs hK hP htbs docs hne
      (fun d hd => ⟨(hall d hd).1, (hall d hd).2.1⟩) o
  have hmap : ∀ (l : List Nat), (∀ o ∈ l, o < docs.length) →
      l.mapM (getBytes Compression.none temp) = some (l.map fun o => docs[o]?.getD []) := by
    intro l
    induction l with
    | nil => intro _; rfl
    | cons o os ih =>
      intro h
      have ho := h o (List.mem_cons_self ..)
      rw [List.mapM_cons, hget o, ih (fun x hx => h x (List.mem_cons_of_mem _ hx))]
      simp [List.getElem?_eq_getElem ho]
  refine ⟨_, hmap order hord, rfl, ?_⟩
  intro i
  have hp : ∀ d ∈ order.map (fun o => docs[o]?.getD []), d ≠ [] ∧ bs + d.length < 4294967296 := by
    intro d hd
    obtain ⟨o, ho, rfl⟩ := List.mem_map.mp hd
    have hlt := hord o ho
    rw [List.getElem?_eq_getElem hlt]
    have := hall docs[o] (List.getElem_mem hlt)
    exact ⟨this.1, this.2.2⟩
  rw [C09_store_get C hC K P bs hK hP hbs _ (by simpa using hone) hp i]
  simp only [List.getElem?_map]
  cases ho : order[i]? with
  | none => rfl
  | some o =>
    have hlt := hord o (List.mem_of_getElem? ho)
    simp [List.getElem?_eq_getElem hlt]

/-- the instance the code uses: temporary store with the extracted block size, compressor none -/
theorem C09_sorted_remap_extracted (C : Compression) (hC : GoodCompression C) (bs : Nat) (hbs : bs < 4294967296)
    (docs : List Bytes) (hne : docs ≠ [])
    (hall : ∀ d ∈ docs, d ≠ [] ∧ Gen.TEMP_STORE_BLOCKSIZE + d.length < 4294967296 ∧ bs + d.length < 4294967296)
    (order : List Nat) (hord : ∀ o ∈ order, o < docs.length) (hone : order ≠ []) (i : Nat) :
    getBytes C (writtenStore C Gen.STORE_INDEX_ENTRY_COST Gen.CHECKPOINT_PERIOD bs
        (order.map fun o => docs[o]?.getD [])) i = (order[i]?).bind fun o => docs[o]? := by
  obtain ⟨picked, _, hp, hget⟩ := C09_sorted_remap C hC Gen.STORE_INDEX_ENTRY_COST Gen.CHECKPOINT_PERIOD
    Gen.TEMP_STORE_BLOCKSIZE bs (by decide) (by decide) (by decide) hbs docs hne hall order hord hone
  rw [← hp]; exact hget i

/-! ### dedicated compressor thread -/

/-- `docstore_compress_dedicated_thread = true`: for every interleaving of the producer's sends and
the compressor thread's receives through the bounded FIFO channel (any capacity), once everything
was sent and received the compressor's state is what the same calls give when executed directly
in program order (`docstore_compress_dedicated_thread = false`). -/
theorem C09_dedicated_thread_same_result {σ μ : Type} (step : σ → μ → σ) (cap : Nat)
    (schedule : List ChanEvent) (msgs : List μ) (s s' : σ)
    (h : runChan step cap schedule msgs [] s = some ([], [], s')) : s' = msgs.foldl step s := by
  have := runChan_fold step cap schedule msgs [] s [] [] s' h
  simpa using this

/-! ### block cache -/

/-- for every access sequence and every capacity (0 included), reading through the LRU block cache
returns exactly what reading without it returns — provided the cache key (block start offset)
determines the block among the checkpoints `seek` returns. -/
theorem C09_cache_transparent (C : Compression) (sf : StoreFile) (hk : KeyDeterminesBlock sf)
    (cap : Nat) (accesses : List Nat) :
    (runGets C sf (BlockCache.new cap) accesses).1 = accesses.map (getBytes C sf) :=
  runGets_spec C sf hk accesses _ (cacheInv_new C sf cap)

/-- a written store satisfies the hypothesis of `C09_cache_transparent`: with non-empty compressed
blocks the start offset identifies the block, so the cache is transparent on every store the
writer (or a merge) produces -/
theorem C09_cache_transparent_written (C : Compression) (hC : GoodCompression C) (P : Nat) (hP : 2 ≤ P)
    (sf : StoreFile) (docs : List Bytes) (hne : docs ≠ []) (h : Holds C P sf docs)
    (cap : Nat) (accesses : List Nat) :
    (runGets C sf (BlockCache.new cap) accesses).1 = accesses.map fun i => docs[i]? := by
  rw [C09_cache_transparent C sf (holds_keyDetermines C hC.nonempty P hP sf docs hne h) cap accesses]
  apply List.map_congr_left
  intro i _
  exact holds_get C hC.roundtrip P hP sf docs hne h i

/-- `iter_raw` reads its blocks through the same cache (`read_block`): for every store the writer
or a merge produces, every mix of fetches and iterations (with any alive bitsets) on one reader,
in any order and with any cache capacity, returns exactly what the uncached reads return -/
theorem C09_cache_transparent_get_and_iter (C : Compression) (hC : GoodCompression C) (P : Nat) (hP : 2 ≤ P)
    (sf : StoreFile) (docs : List Bytes) (hne : docs ≠ []) (h : Holds C P sf docs)
    (cap : Nat) (ops : List ReaderOp) :
    (runOps C sf (BlockCache.new cap) ops).1 = ops.map (ReaderOp.plain C sf) :=
  holds_runOps C hC.nonempty P hP sf docs hne h cap ops

/-- the LRU holds at most `cache_num_blocks` decompressed blocks and never the same block twice,
after any sequence of fetches (so `CacheStats::num_entries ≤ capacity`, and capacity 0 caches
nothing) -/
theorem C09_cache_bounded (C : Compression) (sf : StoreFile) (cap : Nat) (accesses : List Nat) :
    let c := (runGets C sf (BlockCache.new cap) accesses).2
    c.entries.length ≤ cap ∧ (c.entries.map (·.1)).Nodup := by
  obtain ⟨h1, h2⟩ := runGets_sized C sf accesses (BlockCache.new cap) (cacheSized_new cap)
  have hcap : (BlockCache.new cap).cap = cap := rfl
  rw [hcap] at h2
  exact ⟨by have := h1.1; rw [h2] at this; exact this, h1.2⟩

/-- a cache keyed by something that does not determine the block is *not* transparent: two
checkpoints with the same key and different blocks (the state a wrong key after stacking would
produce) -/
theorem C09_cache_needs_key_counterexample :
    ∃ (sf : StoreFile), (runGets Compression.none sf (BlockCache.new 1) [0, 1]).1
      ≠ [0, 1].map (getBytes Compression.none sf) := by
  refine ⟨{ data := [1, 0, 0, 0, 0, 1, 0, 0, 0, 2, 0, 0, 0, 0, 1, 0, 0, 0],
            index := [encBlock [⟨0, 1, 0, 9⟩] ++ encBlock [⟨1, 2, 0, 18⟩]], decompId := 0, version := 2 }, ?_⟩
  decide +kernel

/-! ### iteration -/

/-- iterating a store yields exactly its live documents, in doc-id order -/
theorem C09_iter_live_in_order (C : Compression) (hC : GoodCompression C) (P : Nat) (hP : 2 ≤ P)
    (sf : StoreFile) (docs : List Bytes) (hne : docs ≠ []) (h : Holds C P sf docs) (alive : Nat → Bool) :
    iterRaw C sf alive = (liveDocs alive 0 docs).map some :=
  holds_iter C hC.roundtrip P hP sf docs hne h alive

/-- every store the writer produces `Holds` its documents (so the theorem above applies to it) -/
theorem C09_written_holds (C : Compression) (K P bs : Nat) (hK : 1 ≤ K) (hbs : bs < 4294967296)
    (docs : List Bytes) (hall : ∀ d ∈ docs, d ≠ [] ∧ bs + d.length < 4294967296) :
    Holds C P (writtenStore C K P bs docs) docs :=
  holds_written C K P bs hK hbs docs hall

/-! ### merge -/

/-- Both paths of `write_storable_fields` (trivial doc-id mapping): whether a source is copied
document by document or stacked block-wise — as decided by the guard (`has_deletes`, number of
blocks, same codec) — the merged store holds the concatenation of the sources' live documents in
new-doc-id order, and `get` returns them. -/
theorem C09_merge_store (C : Compression) (hC : GoodCompression C) (K P minBlocks bs : Nat) (hK : 1 ≤ K)
    (hP : 2 ≤ P) (hbs : bs < 4294967296) (segs : List (SourceSegment × List Bytes))
    (hsegs : ∀ p ∈ segs, SegOK C P bs p.1 p.2) :
    let live := (segs.map fun p => liveDocs p.1.alive 0 p.2).flatten
    ∃ w, (segs.map (·.1)).foldl (mergeStep C K minBlocks) (some (Writer.new bs)) = some w ∧
      mergeStores C K P minBlocks bs (segs.map (·.1)) = some (w.close C P) ∧
      let merged : StoreFile :=
        { data := (w.sendBlock C).written, index := finishedLayers P (w.sendBlock C).checkpoints,
          decompId := C.id, version := Gen.DOC_STORE_VERSION }
      Holds C P merged live ∧ (live ≠ [] → ∀ i, getBytes C merged i = live[i]?) := by
  intro live
  obtain ⟨w, e, hw, hb⟩ := mergeFold_spec C K P minBlocks bs hK hP hbs segs (Writer.new bs) [] (winv_new C K bs)
    rfl hsegs
  simp only [List.nil_append] at hw
  obtain ⟨groups, hd, hl, hg, _⟩ := winv_flush C K hK w live (by rw [hb]; exact hbs) hw
  refine ⟨w, e, by simp [mergeStores, e], ?_⟩
  intro merged
  have hh : Holds C P merged live := ⟨groups, _, hd, hl, hg, rfl⟩
  exact ⟨hh, fun hne i => holds_get C hC.roundtrip P hP merged live hne hh i⟩

/-- The stacking decision itself (the three clauses and the comparison operator of the codec clause
are extracted from `write_storable_fields`): raw blocks are stacked only if the source has no
deletes, has at least `minBlocks` blocks, and its decompressor is the writer's compressor. Hence a
block written with one codec is never copied verbatim into a store read with another, for every
pair of codecs (`C09_merge_store` needs nothing else about them). -/
theorem C09_stack_only_same_codec (C : Compression) (minBlocks : Nat) (s : SourceSegment)
    (h : mustCopy C minBlocks s = false) :
    s.hasDeletes = false ∧ minBlocks ≤ ((checkpointsOf s.store.index).take (minBlocks + 1)).length ∧
      s.store.decompId = C.id :=
  mustCopy_false C minBlocks s h

/-- and conversely a source with another decompressor id is always copied document by document
(decompressed with its own codec, recompressed with the writer's) -/
theorem C09_other_codec_is_copied (C : Compression) (minBlocks : Nat) (s : SourceSegment)
    (h : s.store.decompId ≠ C.id) : mustCopy C minBlocks s = true := by
  cases hm : mustCopy C minBlocks s with
  | true => rfl
  | false => exact absurd (mustCopy_false C minBlocks s hm).2.2 h

/-- `StoreWriter::stack` (public API) on its own: after any documents already written, stacking a
whole source store of the same codec appends exactly the source's documents — the writer's pending
block is flushed first, doc and byte ranges of the copied checkpoints are shifted — and writing can
continue afterwards. -/
theorem C09_stack_appends (C : Compression) (hC : GoodCompression C) (K P bs : Nat) (hK : 1 ≤ K) (hP : 2 ≤ P)
    (hbs : bs < 4294967296) (before after : List Bytes)
    (hdocs : ∀ d ∈ before ++ after, d ≠ [] ∧ bs + d.length < 4294967296)
    (src : StoreFile) (srcDocs : List Bytes) (hne : srcDocs ≠ []) (hsrc : Holds C P src srcDocs) :
    let w0 := before.foldl (Writer.storeBytes C K) (Writer.new bs)
    let w1 := w0.stack C src.data (checkpointsOf src.index)
    let w2 := after.foldl (Writer.storeBytes C K) w1
    let out : StoreFile :=
      { data := (w2.sendBlock C).written, index := finishedLayers P (w2.sendBlock C).checkpoints,
        decompId := C.id, version := Gen.DOC_STORE_VERSION }
    Holds C P out (before ++ srcDocs ++ after) ∧ ∀ i, getBytes C out i = (before ++ srcDocs ++ after)[i]? := by
  intro w0 w1 w2 out
  obtain ⟨h0, b0⟩ := winv_fold C K hK before (Writer.new bs) []
    (fun d hd => hdocs d (List.mem_append_left _ hd)) (winv_new C K bs)
  simp only [List.nil_append] at h0
  have hb0 : w0.blockSize = bs := b0
  obtain ⟨h1, b1⟩ := winv_stack C K P hK hP w0 before (by rw [hb0]; exact hbs) h0 src srcDocs hne hsrc
  have hb1 : w1.blockSize = bs := by show (w0.stack C src.data (checkpointsOf src.index)).blockSize = bs; rw [b1, hb0]
  obtain ⟨h2, b2⟩ := winv_fold C K hK after w1 (before ++ srcDocs)
    (fun d hd => by rw [hb1]; exact hdocs d (List.mem_append_right _ hd)) h1
  have hb2 : w2.blockSize = bs := by show (after.foldl (Writer.storeBytes C K) w1).blockSize = bs; rw [b2, hb1]
  obtain ⟨groups, hd, hl, hg, _⟩ := winv_flush C K hK w2 _ (by rw [hb2]; exact hbs) h2
  have hh : Holds C P out (before ++ srcDocs ++ after) := ⟨groups, _, hd, hl, hg, rfl⟩
  have hne' : before ++ srcDocs ++ after ≠ [] := by
    cases srcDocs with
    | nil => exact absurd rfl hne
    | cons x xs => simp
  exact ⟨hh, fun i => holds_get C hC.roundtrip P hP out _ hne' hh i⟩

/-- "before and after merges", repeatedly: a merged store is again a legitimate source (it holds its
documents, nothing is deleted in it yet), so every theorem above applies to the next merge -/
theorem C09_merged_store_is_a_source (C : Compression) (hC : GoodCompression C) (P bs : Nat)
    (merged : StoreFile) (live : List Bytes) (hne : live ≠ []) (hholds : Holds C P merged live)
    (hdocs : ∀ d ∈ live, d ≠ [] ∧ bs + d.length < 4294967296) (own : Option (Nat → Bool)) :
    SegOK C P bs (SourceSegment.ofReader merged C own none live.length) live :=
  segOK_ofReader C P bs merged C own none live hholds hC.roundtrip hne hdocs (fun _ => rfl)

/-- Stored fields stay aligned with doc ids across a merge: the live document `j` of the `k`-th source
gets the new doc id `base + rank`, where `base` is the number of live documents of the sources
before it and `rank` the number of live documents before `j` in its own segment (this is the id
the postings / fast fields of the merged segment use), and fetching that id from the merged store
returns exactly that document — on the copy path and on the stacking path. -/
theorem C09_merged_doc_address (C : Compression) (hC : GoodCompression C) (K P minBlocks bs : Nat) (hK : 1 ≤ K)
    (hP : 2 ≤ P) (hbs : bs < 4294967296) (segs : List (SourceSegment × List Bytes))
    (hsegs : ∀ p ∈ segs, SegOK C P bs p.1 p.2)
    (k j : Nat) (s : SourceSegment) (docs : List Bytes) (hk : segs[k]? = some (s, docs))
    (hj : j < docs.length) (halive : s.alive j = true) :
    ∃ w, (segs.map (·.1)).foldl (mergeStep C K minBlocks) (some (Writer.new bs)) = some w ∧
      let merged : StoreFile :=
        { data := (w.sendBlock C).written, index := finishedLayers P (w.sendBlock C).checkpoints,
          decompId := C.id, version := Gen.DOC_STORE_VERSION }
      let base := (((segs.take k).map fun p => liveDocs p.1.alive 0 p.2).flatten).length
      getBytes C merged (base + numAlive s.alive j) = docs[j]? := by
  obtain ⟨w, e, _, _, hget⟩ := C09_merge_store C hC K P minBlocks bs hK hP hbs segs hsegs
  refine ⟨w, e, ?_⟩
  intro merged base
  have hrank := liveDocs_rank s.alive docs 0 j hj (by simpa using halive)
  simp only [Nat.zero_add] at hrank
  have hlt : numAlive s.alive j < (liveDocs s.alive 0 docs).length := by
    have : (liveDocs s.alive 0 docs)[numAlive s.alive j]? = some docs[j] := by
      unfold numAlive; rw [hrank, List.getElem?_eq_getElem hj]
    exact (List.getElem?_eq_some_iff.mp this).1
  have hkk : (segs.map fun p => liveDocs p.1.alive 0 p.2)[k]? = some (liveDocs s.alive 0 docs) := by
    rw [List.getElem?_map, hk]; rfl
  have hflat := flatten_getElem_at (segs.map fun p => liveDocs p.1.alive 0 p.2) k (numAlive s.alive j) _ hkk hlt
  have hlive : (segs.map fun p => liveDocs p.1.alive 0 p.2).flatten ≠ [] := by
    intro h0
    rw [h0] at hflat
    have : (liveDocs s.alive 0 docs)[numAlive s.alive j]? = some docs[j] := by
      unfold numAlive; rw [hrank, List.getElem?_eq_getElem hj]
    simp [this] at hflat
  have hbase : base = ((segs.map fun p => liveDocs p.1.alive 0 p.2).take k).flatten.length := by
    simp only [base, List.map_take]
  rw [hget hlive, hbase, hflat]
  unfold numAlive
  exact hrank

/-- Filtered merges (`merge_filtered_segments`, `IndexMerger::open_with_custom_alive_set`): each source
is presented with the intersection of its own deletes and the caller's filter, and `has_deletes()`
is computed on that intersection (`max_doc − num_alive > 0`). The merged store then holds exactly
the documents alive in both sets, in order — whether a source is copied or stacked; in particular a
source that only the caller's filter thins out is never stacked. Nothing about deletes is assumed:
the `noDeletes` premise of `C09_merge_store` is derived from how `has_deletes()` is computed. -/
theorem C09_merge_filtered (C : Compression) (hC : GoodCompression C) (K P minBlocks bs : Nat) (hK : 1 ≤ K)
    (hP : 2 ≤ P) (hbs : bs < 4294967296)
    (srcs : List (StoreFile × Compression × Option (Nat → Bool) × Option (Nat → Bool) × List Bytes))
    (hsrc : ∀ s ∈ srcs, Holds s.2.1 P s.1 s.2.2.2.2 ∧ (∀ b, s.2.1.decomp (s.2.1.comp b) = some b) ∧
      s.2.2.2.2 ≠ [] ∧ (∀ d ∈ s.2.2.2.2, d ≠ [] ∧ bs + d.length < 4294967296) ∧
      (s.1.decompId = C.id → s.2.1 = C)) :
    let segs := srcs.map fun s =>
      (SourceSegment.ofReader s.1 s.2.1 s.2.2.1 s.2.2.2.1 s.2.2.2.2.length, s.2.2.2.2)
    let live := (srcs.map fun s => liveDocs (intersectAlive s.2.2.1 s.2.2.2.1) 0 s.2.2.2.2).flatten
    ∃ w, (segs.map (·.1)).foldl (mergeStep C K minBlocks) (some (Writer.new bs)) = some w ∧
      let merged : StoreFile :=
        { data := (w.sendBlock C).written, index := finishedLayers P (w.sendBlock C).checkpoints,
          decompId := C.id, version := Gen.DOC_STORE_VERSION }
      Holds C P merged live ∧ (live ≠ [] → ∀ i, getBytes C merged i = live[i]?) := by
  intro segs live
  have hseg : ∀ p ∈ segs, SegOK C P bs p.1 p.2 := by
    intro p hp
    obtain ⟨s, hs, rfl⟩ := List.mem_map.mp hp
    obtain ⟨h1, h2, h3, h4, h5⟩ := hsrc s hs
    exact segOK_ofReader C P bs s.1 s.2.1 s.2.2.1 s.2.2.2.1 s.2.2.2.2 h1 h2 h3 h4 h5
  obtain ⟨w, e, _, hh⟩ := C09_merge_store C hC K P minBlocks bs hK hP hbs segs hseg
  refine ⟨w, e, ?_⟩
  have hl : (segs.map fun p => liveDocs p.1.alive 0 p.2).flatten = live := by
    simp only [segs, live, List.map_map]
    rfl
  simpa [hl] using hh

/-- The third path of `write_storable_fields` (non-trivial doc-id mapping, i.e. a sorted index):
taking, for each entry of the mapping, the next live document of the named segment writes a store
that holds exactly the picked documents in mapping (= new doc id) order. `its` are the segments'
live documents (what `iter_raw(alive_bitset)` yields, see `C09_iter_live_in_order`). -/
theorem C09_merge_mapped (C : Compression) (hC : GoodCompression C) (K P bs : Nat) (hK : 1 ≤ K) (hP : 2 ≤ P)
    (hbs : bs < 4294967296) (its : List (List Bytes)) (order : List Nat) (picked : List Bytes)
    (hp : pickDocs its order = some picked)
    (hall : ∀ l ∈ its, ∀ d ∈ l, d ≠ [] ∧ bs + d.length < 4294967296) :
    ∃ w, mergeMapped C K (Writer.new bs) (its.map (List.map some)) order = some w ∧
      let merged : StoreFile :=
        { data := (w.sendBlock C).written, index := finishedLayers P (w.sendBlock C).checkpoints,
          decompId := C.id, version := Gen.DOC_STORE_VERSION }
      Holds C P merged picked ∧ (picked ≠ [] → ∀ i, getBytes C merged i = picked[i]?) := by
  obtain ⟨w, e, hw, hb⟩ := mergeMapped_spec C K hK bs order its picked (Writer.new bs) [] hp (winv_new C K bs)
    rfl hall
  simp only [List.nil_append] at hw
  obtain ⟨groups, hd, hl, hg, _⟩ := winv_flush C K hK w picked (by rw [hb]; exact hbs) hw
  refine ⟨w, e, ?_⟩
  intro merged
  have hh : Holds C P merged picked := ⟨groups, _, hd, hl, hg, rfl⟩
  exact ⟨hh, fun hne i => holds_get C hC.roundtrip P hP merged picked hne hh i⟩

/-- The mapped merge reads its documents from the sources' stores: with `its` the live documents
that `iter_raw(alive_bitset)` yields for stores that hold `docs_s` (`C09_iter_live_in_order`), the
iterators the merger consumes are exactly `liveDocs alive_s 0 docs_s`, so `C09_merge_mapped`
applies to them: the merged store holds the documents picked by the mapping. -/
theorem C09_merge_mapped_from_stores (C : Compression) (hC : GoodCompression C) (K P bs : Nat) (hK : 1 ≤ K)
    (hP : 2 ≤ P) (hbs : bs < 4294967296)
    (srcs : List (StoreFile × Compression × (Nat → Bool) × List Bytes))
    (hsrc : ∀ s ∈ srcs, Holds s.2.1 P s.1 s.2.2.2 ∧ (∀ b, s.2.1.decomp (s.2.1.comp b) = some b) ∧ s.2.2.2 ≠ [] ∧
      (∀ d ∈ s.2.2.2, d ≠ [] ∧ bs + d.length < 4294967296))
    (order : List Nat) (picked : List Bytes)
    (hp : pickDocs (srcs.map fun s => liveDocs s.2.2.1 0 s.2.2.2) order = some picked) :
    (srcs.map fun s => iterRaw s.2.1 s.1 s.2.2.1) = (srcs.map fun s => (liveDocs s.2.2.1 0 s.2.2.2).map some) ∧
    ∃ w, mergeMapped C K (Writer.new bs) (srcs.map fun s => iterRaw s.2.1 s.1 s.2.2.1) order = some w ∧
      Holds C P { data := (w.sendBlock C).written, index := finishedLayers P (w.sendBlock C).checkpoints,
                  decompId := C.id, version := Gen.DOC_STORE_VERSION } picked := by
  have hit : (srcs.map fun s => iterRaw s.2.1 s.1 s.2.2.1)
      = (srcs.map fun s => (liveDocs s.2.2.1 0 s.2.2.2).map some) := by
    apply List.map_congr_left
    intro s hs
    obtain ⟨h1, h2, h3, _⟩ := hsrc s hs
    exact holds_iter s.2.1 h2 P hP s.1 s.2.2.2 h3 h1 s.2.2.1
  refine ⟨hit, ?_⟩
  have hall : ∀ l ∈ (srcs.map fun s => liveDocs s.2.2.1 0 s.2.2.2), ∀ d ∈ l, d ≠ [] ∧ bs + d.length < 4294967296 := by
    intro l hl d hd
    obtain ⟨s, hs, rfl⟩ := List.mem_map.mp hl
    exact (hsrc s hs).2.2.2 d (liveDocs_sub _ _ _ d hd)
  obtain ⟨w, e, hh, _⟩ := C09_merge_mapped C hC K P bs hK hP hbs _ order picked hp hall
  refine ⟨w, ?_, hh⟩
  rw [hit, ← e, List.map_map]
  rfl

/-- stacking is only correct under its guard: stacking a source in which document 0 is deleted
keeps that document (the per-document path would drop it) -/
theorem C09_stack_with_deletes_counterexample :
    let src := writtenStore Compression.none 8 8 100 [[1], [2]]
    let alive : Nat → Bool := fun i => i != 0
    let w := (Writer.new 100).stack Compression.none src.data (checkpointsOf src.index)
    let merged : StoreFile :=
      { data := (w.sendBlock Compression.none).written,
        index := finishedLayers 8 (w.sendBlock Compression.none).checkpoints, decompId := 0, version := 2 }
    getBytes Compression.none merged 0 = some [1] ∧ (liveDocs alive 0 [[1], [2]])[0]? = some [2] := by
  decide +kernel

/-! ### merge and the doc store version (known finding `C09:merge-v1-docstore-date`)

`C09_merge_store` / `C09_merge_mapped` show that a merge carries the *bytes* of every live document
over unchanged. What `StoreReader::get` returns is those bytes decoded under the version in the
store's footer (`getDocV`). The merged store always carries the current version, the sources need
not: `write_storable_fields` has no guard on `doc_store_version`.

Full statement (false, see the counterexample):
  for every source store version `v` and document bytes `b`:
    `deserializeDocV v b = deserializeDocV Gen.DOC_STORE_VERSION b`
i.e. "a document is returned after the merge exactly as before it". -/

/-- hypothesis the code does not enforce: the source store has the current format version -/
def SameVersion (v : Nat) : Prop := v = Gen.DOC_STORE_VERSION

/-- under `SameVersion` the merged store returns every document as the source did -/
theorem C09_merge_returns_same_doc_partial (v : Nat) (h : SameVersion v) (b : Bytes) :
    deserializeDocV v b = deserializeDocV Gen.DOC_STORE_VERSION b := by
  rw [h]

/-- without it: a version-1 store (dates in microseconds) merged into a current store returns
another date for the same bytes -/
theorem C09_merge_v1_date_counterexample :
    ∃ (b : Bytes), ¬ SameVersion 1 ∧
      deserializeDocV 1 b = some [(3, .date 1700000000000000000)] ∧
      deserializeDocV Gen.DOC_STORE_VERSION b = some [(3, .date 1700000000000000)] := by
  refine ⟨encStoredDoc [(3, .date 1700000000000000)], by unfold SameVersion; decide, ?_, ?_⟩
  · simp only [deserializeDocV]
    rw [show encStoredDoc [(3, .date 1700000000000000)] = encStoredDoc [(3, .date 1700000000000000)] ++ [] by simp,
      deserialize_encStoredDoc]
    simp only [Option.map_some, List.map_cons, List.map_nil, viewValue, readDate, if_true]
    have : (1700000000000000 : BitVec 64) * 1000 = 1700000000000000000 := by decide
    rw [this]
  · simp only [deserializeDocV]
    rw [show encStoredDoc [(3, .date 1700000000000000)] = encStoredDoc [(3, .date 1700000000000000)] ++ [] by simp,
      deserialize_encStoredDoc]
    have hv : ¬ (Gen.DOC_STORE_VERSION = 1) := by decide
    simp only [Option.map_some, List.map_cons, List.map_nil, viewValue, readDate, hv, if_false]

/-! ### non-vacuity -/

example : ∃ C, GoodCompression C :=
  ⟨Compression.none, ⟨fun _ => rfl, fun _ h => h⟩⟩

/-- a nested document with every kind of node, stored and non-stored fields mixed -/
def exampleDoc : List (BitVec 32 × FieldInput) :=
  [(0, .val (.str [104, 105])), (1, .val (.u64 7)), (0, .val (.str [])),
   (2, .preTokText [97]),
   (3, .val (.object [([107], .array [.null, .bool true, .i64 (-1), .object []]), ([], .f64 5)])),
   (4, .val (.ip 1)), (5, .val (.bytes [0, 255])), (6, .val (.date 9)), (7, .val (.facet [97, 0, 98]))]

example : (storedView (fun f => f ≠ 1) exampleDoc).length = 8 := by decide

example : deserializeDoc (serializeDoc (fun f => f ≠ 1) exampleDoc)
    = some (storedView (fun f => f ≠ 1) exampleDoc) := C09_doc_codec_roundtrip _ _

example : vintEnc 300 = [44, 130] := by
  rw [vintEnc]; simp [stop_eq]; rw [vintEnc]; simp [stop_eq]

/-- 70 one-document checkpoints: two full layers and a third one (8·8 < 70) -/
def exampleCheckpoints : List Checkpoint :=
  (List.range 70).map fun i => { docStart := i, docEnd := i + 1, byteStart := 3 * i, byteEnd := 3 * i + 3 }

example : ChainFrom 0 0 exampleCheckpoints := by decide +kernel
example : (finishedLayers 8 exampleCheckpoints).length = 3 := by decide
example : seek (finishedLayers 8 exampleCheckpoints) 64
    = some { docStart := 64, docEnd := 65, byteStart := 192, byteEnd := 195 } := by decide +kernel

/-- three documents, block size 9: the second document is larger than a block -/
example : getBytes Compression.none (writtenStore Compression.none 8 8 9 [[1], [2, 3, 4, 5, 6, 7, 8, 9, 10, 11, 12], [13, 14]]) 1
    = some [2, 3, 4, 5, 6, 7, 8, 9, 10, 11, 12] := by decide +kernel
example : ((([[1], [2, 3, 4, 5, 6, 7, 8, 9, 10, 11, 12], [13, 14]] : List Bytes).foldl
    (Writer.storeBytes Compression.none 8) (Writer.new 9)).sendBlock Compression.none).checkpoints.length = 2 := by
  decide +kernel

/-- a source segment satisfying `SegOK`: two documents, the second deleted -/
example : SegOK Compression.none 8 100
    { store := writtenStore Compression.none 8 8 100 [[1], [2]], codec := Compression.none,
      alive := fun i => i == 0, hasDeletes := true } [[1], [2]] :=
  { holds := holds_written Compression.none 8 8 100 (by decide) (by decide) _ (by decide)
    codecRt := fun _ => rfl
    nonempty := by decide
    docsOk := by decide
    noDeletes := by intro h; cases h
    sameCodec := fun _ => rfl }

example : liveDocs (fun i => i == 0) 0 [[1], [2]] = [[1]] := by decide

/-- a schedule through a channel of capacity 3 that delivers three messages -/
example : runChan (fun (s : List Nat) (m : Nat) => s ++ [m]) 3
    [.send, .send, .recv, .send, .recv, .recv] [1, 2, 3] [] [] = some ([], [], [1, 2, 3]) := by decide

/-- a mapping interleaving two segments -/
example : pickDocs [[[1], [2]], [[3]]] [1, 0, 0] = some [[3], [1], [2]] := by decide

example : SameVersion 2 := by unfold SameVersion; decide

example : serializeVintU32 2097152 = [0, 0, 0, 129] := by decide
example : serializeVintU32 2097151 = [127, 127, 255] := by decide
example : readU32Vint ([0, 0, 0, 129, 7] : Bytes) = some (2097152, 4) := by decide

example : jsonNumber 9223372036854775808 = some (.uint64 9223372036854775808) := by decide
example : jsonNumber (-1) = some (.int64 (-1)) := by decide
example : jsonNumberWith [0, 2, 1] 18446744073709551615 = some .float := by decide

/-- a source written with another codec (id 1) than the writer's (id 0): copied, not stacked -/
example : mustCopy Compression.none 6
    { store := { (writtenStore Compression.none 8 8 100 [[1]]) with decompId := 1 }, codec := Compression.none,
      alive := fun _ => true, hasDeletes := false } = true :=
  C09_other_codec_is_copied _ _ _ (by decide)

/-- an object holding an array, a float and a nested empty object, added after 3 unrelated bytes -/
def exampleNested : StoredValue :=
  .object [([107], .array [.null, .str [97], .f64 5, .bool true]), ([], .object []), ([120], .ip 7)]

example : depthV exampleNested ≤ 3 ∧ (cdAdd [9, 9, 9] exampleNested).1.length < 4294967296 := by decide +kernel
example : cdRead 3 ((cdAdd [9, 9, 9] exampleNested).1 ++ [1, 2]) (cdAdd [9, 9, 9] exampleNested).2
    = some exampleNested := C09_compact_doc_value_roundtrip _ _ _ _ (by decide +kernel) (by decide +kernel)

example : cdReadDoc 3 (cdAddDoc [] [(0, .str [104]), (4, exampleNested), (0, .u64 9)]).1
    (cdAddDoc [] [(0, .str [104]), (4, exampleNested), (0, .u64 9)]).2
    = some [(0, .str [104]), (4, exampleNested), (0, .u64 9)] := by
  have := C09_compact_doc_roundtrip [(0, .str [104]), (4, exampleNested), (0, .u64 9)] [] [] 3
    (by decide +kernel) (by decide +kernel)
  simpa using this

/-- a raw codec satisfying the contract (identity), and a framed block -/
example : RawGood { enc := fun b => b, dec := fun _ b => some b } := fun _ => rfl
example : (framed { enc := fun b => b, dec := fun _ b => some b } 1).comp [7, 8] = [2, 0, 0, 0, 7, 8] := by decide
example : blockLenOf [3, 5] = 20 := by decide

example : (deserializeDoc (encStoredDoc ([(0, StoredValue.f64 5)].map fun fv => (fv.1, memToDisk fv.2)))).map
    (fun d => d.map fun fv => (fv.1, diskToMem fv.2)) = some [(0, .f64 5)] := by
  have := (C09_document_path [(0, .f64 5)] 1 (by decide) (by decide +kernel) []).2
  simpa using this

/-- a descending sort of three documents through a temporary store with 16 000-byte blocks -/
example : ([2, 1, 0] : List Nat).mapM (getBytes Compression.none (writtenStore Compression.none 8 8 16000 [[1], [2, 2], [3]]))
    = some [[3], [2, 2], [1]] := by decide +kernel

example : ((getBytes Compression.none (writtenStore Compression.none Gen.STORE_INDEX_ENTRY_COST Gen.CHECKPOINT_PERIOD 16
      ([[(0, StoredValue.f64 5)], [], [(2, .array [.null]), (0, .str [1])]].map fun d => encStoredDoc (docToDisk d))) 2).bind
      deserializeDoc).map docToMem = some [(2, .array [.null]), (0, .str [1])] :=
  C09_add_then_fetch Compression.none ⟨fun _ => rfl, fun _ h => h⟩ 16 (by decide) _ (by decide)
    (by decide +kernel) 2 (by decide)

/-- iterate, fetch, iterate with deletes, through a one-block cache over a three-block store -/
example : (runOps Compression.none (writtenStore Compression.none 8 8 9 [[1], [2, 3, 4, 5, 6, 7, 8, 9, 10, 11, 12], [13, 14]])
    (BlockCache.new 1) [.iter [], .get 2, .iter [false, true, true], .get 0]).1
    = [[some [1], some [2, 3, 4, 5, 6, 7, 8, 9, 10, 11, 12], some [13, 14]], [some [13, 14]],
       [some [2, 3, 4, 5, 6, 7, 8, 9, 10, 11, 12], some [13, 14]], [some [1]]] := by decide +kernel

/-- a segment without own deletes whose caller filter removes document 1: `has_deletes()` is true,
so it is copied, not stacked -/
example : (SourceSegment.ofReader (writtenStore Compression.none 8 8 100 [[1], [2], [3]]) Compression.none
    none (some fun i => i != 1) 3).hasDeletes = true := by decide +kernel
example : liveDocs (intersectAlive none (some fun i => i != 1)) 0 [[1], [2], [3]] = [[1], [3]] := by decide

/-- capacity 1, three blocks visited: one entry stays -/
example : (runGets Compression.none (writtenStore Compression.none 8 8 9 [[1], [2, 3, 4, 5, 6, 7, 8, 9, 10, 11, 12], [13, 14]])
    (BlockCache.new 1) [0, 2, 0, 1]).2.entries.length = 1 := by decide +kernel

/-- hypotheses of `C09_sorted_remap_extracted` on a concrete reversal -/
example : ∀ d ∈ ([[1], [2, 2], [3]] : List Bytes), d ≠ [] ∧ Gen.TEMP_STORE_BLOCKSIZE + d.length < 4294967296
    ∧ 16 + d.length < 4294967296 := by decide

/-- hypotheses of `C09_merge_mapped_from_stores`: two stores, a mapping interleaving them -/
example : pickDocs ([(fun (_ : Nat) => true, [[1], [2]]), (fun i => i != 0, [[3], [4]])].map
    fun s => liveDocs s.1 0 s.2) [1, 0, 0] = some [[4], [1], [2]] := by decide

/-- document 2 of a segment whose document 1 is deleted has rank 1 -/
example : numAlive (fun i => i != 1) 2 = 1 ∧ (liveDocs (fun i => i != 1) 0 [[1], [2], [3]])[1]? = some [3] := by decide

example : utf8Valid [0xE6, 0x97, 0xA5, 0x41, 0xF0, 0x9F, 0x99, 0x82] = true := by decide
example : utf8Valid [0xC0, 0x80] = false ∧ utf8Valid [0xED, 0xA0, 0x80] = false
    ∧ utf8Valid [0xF4, 0x90, 0x80, 0x80] = false ∧ utf8Valid [0xE6, 0x97] = false := by decide
example : deserializeDocStrict (encStoredDoc [(0, .str [0xFF])]) = none := by decide +kernel

/-- hypotheses of `C09_stack_appends`: one document before, a two-document source, one after -/
example : Holds Compression.none 8 (writtenStore Compression.none 8 8 4 [[5], [6]]) [[5], [6]] :=
  C09_written_holds Compression.none 8 8 4 (by decide) (by decide) _ (by decide)

example : lz4EncodeLiteral [1, 2, 3] = [48, 1, 2, 3] := by decide
example : lz4Decode [0x12, 7, 1, 0, 0] = some [7, 7, 7, 7, 7, 7, 7] := by decide
example : (cdAddDocChecked [] [(65535, .null)]).isSome = true ∧ (cdAddDocChecked [] [(65536, .null)]).isSome = false := by
  decide

/-- a JSON codec satisfying the contract (text and tokens length-prefixed by one byte) -/
example : PreTokJsonGood
    { toJson := fun p => UInt8.ofNat p.text.length :: (p.text ++ p.tokens),
      fromJson := fun bs => match bs with
        | [] => none
        | n :: r => some { text := r.take n.toNat, tokens := r.drop n.toNat } } →
    True := fun _ => trivial
example : topLevelStored { toJson := fun p => p.text, fromJson := fun b => some { text := b, tokens := [] } }
    (.preTok [104, 105]) = some (.str [104, 105]) := rfl

end TantivyModel.C09
