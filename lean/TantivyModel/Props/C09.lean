import TantivyModel.Proofs.Store.Codec
import TantivyModel.Proofs.Store.Cache
/-!
# C09 — Stored documents are returned exactly as they were added

Property theorems only (helper lemmas live in `Proofs/Store/`). The block compression codec is a
parameter (`Compression`) with the round-trip contract `GoodCompression`.
-/
namespace TantivyModel.C09
open TantivyModel TantivyModel.Store

/-- contract assumed of the block codec (none / lz4_flex / zstd) -/
structure GoodCompression (C : Compression) : Prop where
  roundtrip : ∀ b, C.decomp (C.comp b) = some b
  nonempty : ∀ b, b ≠ [] → C.comp b ≠ []

/-! ### binary document codec -/

/-- VInt (`common/src/vint.rs`): every natural number reads back, whatever follows it -/
theorem C09_vint_roundtrip (n : Nat) (rest : Bytes) : vintDec (vintEnc n ++ rest) = some (n, rest) :=
  vintDec_enc n rest

/-- a `u64` never needs more than the 10-byte buffer of `VInt::serialize_into`, a `u32` fits the
5 bytes `read_u32_vint` accepts -/
theorem C09_vint_length (n : Nat) :
    (n < 2 ^ 64 → (vintEnc n).length ≤ 10) ∧ (n < 2 ^ 32 → (vintEnc n).length ≤ 5) := by
  constructor
  · intro h
    exact vintEnc_length_le 10 n (by omega) (Nat.lt_of_lt_of_le h (by decide))
  · intro h
    exact vintEnc_length_le 5 n (by omega) (Nat.lt_of_lt_of_le h (by decide))

/-- every value tree (any depth, any width, every leaf type) reads back exactly, and the reader
stops exactly at the end of the value -/
theorem C09_value_codec_roundtrip (v : StoredValue) (rest : Bytes) :
    decodeValue (encValue v ++ rest) = some (v, rest) :=
  decodeValue_enc v rest

/-- `deserialize (serialize d) = stored view of d`: exactly the stored-flagged field values, in
order (several values per field included), non-stored fields absent; a top-level pre-tokenized
text comes back as its text. -/
theorem C09_doc_codec_roundtrip (isStored : BitVec 32 → Bool) (doc : List (BitVec 32 × FieldInput)) :
    deserializeDoc (serializeDoc isStored doc) = some (storedView isStored doc) := by
  have := deserialize_encStoredDoc (storedView isStored doc) []
  simpa [serializeDoc] using this

/-- non-stored fields are never returned -/
theorem C09_nonstored_absent (isStored : BitVec 32 → Bool) (doc : List (BitVec 32 × FieldInput))
    (d : StoredDoc) (h : deserializeDoc (serializeDoc isStored doc) = some d) :
    ∀ fv ∈ d, isStored fv.1 = true := by
  rw [C09_doc_codec_roundtrip] at h
  cases h
  intro fv hfv
  simp only [storedView, List.mem_map, List.mem_filter] at hfv
  obtain ⟨a, ⟨_, ha⟩, rfl⟩ := hfv
  exact ha

/-- a serialized document is never empty (so `send_current_block_to_compressor`'s "empty block"
shortcut never drops a document) -/
theorem C09_serialized_doc_nonempty (isStored : BitVec 32 → Bool) (doc : List (BitVec 32 × FieldInput)) :
    serializeDoc isStored doc ≠ [] :=
  encStoredDoc_ne_nil _

/-! ### block cache -/

/-- for every access sequence and every capacity (0 included), reading through the LRU block cache
returns exactly what reading without it returns — provided the cache key (block start offset)
determines the block among the checkpoints `seek` returns. -/
theorem C09_cache_transparent (C : Compression) (sf : StoreFile) (hk : KeyDeterminesBlock sf)
    (cap : Nat) (accesses : List Nat) :
    (runGets C sf (BlockCache.new cap) accesses).1 = accesses.map (getBytes C sf) :=
  runGets_spec C sf hk accesses _ (cacheInv_new C sf cap)

/-! ### non-vacuity -/

example : ∃ C, GoodCompression C :=
  ⟨Compression.none, ⟨fun _ => rfl, fun _ h => h⟩⟩

/-- a nested document with every kind of node, stored and non-stored fields mixed -/
def exampleDoc : List (BitVec 32 × FieldInput) :=
  [(0, .val (.str [104, 105])), (1, .val (.u64 7)), (0, .val (.str [])),
   (2, .preTokText [97]),
   (3, .val (.object [([107], .array [.null, .bool true, .i64 (-1), .object []]), ([], .f64 5)])),
   (4, .val (.ip 1)), (5, .val (.bytes [0, 255])), (6, .val (.date 9)), (7, .val (.facet [97, 0, 98]))]

example : (storedView (fun f => f ≠ 1) exampleDoc).length = 8 := by decide

example : deserializeDoc (serializeDoc (fun f => f ≠ 1) exampleDoc)
    = some (storedView (fun f => f ≠ 1) exampleDoc) := C09_doc_codec_roundtrip _ _

example : vintEnc 300 = [44, 130] := by
  rw [vintEnc]; simp [stop_eq]; rw [vintEnc]; simp [stop_eq]

end TantivyModel.C09
