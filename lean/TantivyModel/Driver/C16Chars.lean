import TantivyModel.Driver.Proto
import TantivyModel.Model.Grammar.Chars
import TantivyModel.Model.Grammar.CharsLenient
import TantivyModel.Model.Grammar.Agree
import TantivyModel.Model.Grammar.Printer
/-!
Line protocol of the C16 character layer.

* `parse <hex of the UTF-8 query text>` → `panic` | `error` | `tree <Ast>` where
  `Ast` := `L,<field>,<phrase>,<n|s|d>,<slop>,<0|1>` | `A` | `R,<field>,<bound>,<bound>`
         | `S,<field>,<n>,<elem>*` | `E,<field>` | `X,<field>,<pattern>`
         | `b,<digits>e-<scale>,Ast` | `c,<n>,` n × (`<-|s|m|x>,Ast`)
  strings are the hex of their UTF-8 bytes (`-` = empty), an absent field is `~`,
  a bound is `u` | `i:<hex>` | `e:<hex>`.
-/
namespace TantivyModel.Driver.C16Chars
open TantivyModel TantivyModel.Proto TantivyModel.Grammar TantivyModel.Grammar.Chars

def hexStr (s : Str) : String := hexOfBytes (String.ofList s).toUTF8.toList

def optStr : Option Str → String
  | none => "~"
  | some s => hexStr s

def showBound : Bound → String
  | .unbounded => "u"
  | .incl s => "i:" ++ hexStr s
  | .excl s => "e:" ++ hexStr s

def showLeaf : CLeaf → List String
  | .literal f p d slop pfx =>
    ["L", optStr f, hexStr p, (match d with | .none => "n" | .single => "s" | .double => "d"),
      toString slop, showBool pfx]
  | .all => ["A"]
  | .range f lo hi => ["R", optStr f, showBound lo, showBound hi]
  | .set f es => ["S", optStr f, toString es.length] ++ es.map hexStr
  | .exists f => ["E", hexStr f]
  | .regex f p => ["X", optStr f, hexStr p]

def occTok : Option Occur → String
  | none => "-" | some .should => "s" | some .must => "m" | some .mustNot => "x"

mutual
def showAst : Ast CLeaf → List String
  | .leaf l => showLeaf l
  | .boost a b => "b" :: (toString (b / 65536) ++ "e-" ++ toString (b % 65536)) :: showAst a
  | .clause cs => "c" :: toString cs.length :: showAstL cs
def showAstL : List (Entry CLeaf) → List String
  | [] => []
  | (o, a) :: rest => occTok o :: (showAst a ++ showAstL rest)
end

def showOutcome : Outcome → String
  | .panic => "panic"
  | .error => "error"
  | .tree t => "tree " ++ ",".intercalate (showAst t)

def textOfHex (h : String) : Option Str :=
  match bytesOfHex h with
  | some bs =>
    match String.fromUTF8? (ByteArray.mk bs.toArray) with
    | some s => some s.toList
    | none => none
  | none => none

def showLOutcome : LOutcome → String
  | .diverges => "diverges"
  | .tree t e => "tree " ++ toString e ++ " " ++ ",".intercalate (showAst t)

/-- `parsel <hex>` → `diverges` | `tree <number of errors> <Ast>` (the lenient grammar) -/
def handleParseLenient (h : String) : String :=
  match textOfHex h with
  | some s => showLOutcome (parseLenient s)
  | none => "bad-op"

/-- `parse2 <hex>` → `<strict outcome>|<lenient outcome>|<featureFree 0/1>` -/
def handleParseBoth (h : String) : String :=
  match textOfHex h with
  | some s => showOutcome (parseStrict s) ++ "|" ++ showLOutcome (parseLenient s) ++ "|" ++ showBool (featureFree s)
  | none => "bad-op"

def parseOccTok : String → Option (Option Occur)
  | "-" => some none | "s" => some (some .should) | "m" => some (some .must)
  | "x" => some (some .mustNot) | _ => none

def parseOpTok : String → Option (Option BinOp)
  | "-" => some none | "o" => some (some .or) | "a" => some (some .and) | _ => none

def parsePItem (s : String) : Option PItem :=
  match s.splitOn "," with
  | [op, occ, w, a, b] =>
    match parseOpTok op, parseOccTok occ, textOfHex w, a.toNat?, b.toNat? with
    | some op, some occ, some w, some a, some b => some ⟨op, occ, wordOpd w, a, b⟩
    | _, _, _, _, _ => none
  | _ => none

/-- `printl <lead> <occ> <word hex> <trailing> <items|->` → hex of `printList …` (the printer of
    `C16_print_parse_operands`); items are `;` separated `op,occ,word hex,sp1,sp2` -/
def handlePrintList (lead occ w k items : String) : String :=
  match lead.toNat?, parseOccTok occ, textOfHex w, k.toNat? with
  | some lead, some occ, some w, some k =>
    let its : Option (List PItem) := if items == "-" then some [] else (items.splitOn ";").mapM parsePItem
    match its with
    | some its => hexStr (printList lead occ (wordOpd w) its k [])
    | none => "bad-op"
  | _, _, _, _ => "bad-op"

/-- suffix token: `-` | `*` | `s<digits>` -/
def parseSfxTok (t : String) : Option Sfx :=
  match t.toList with
  | ['-'] => some .none
  | ['*'] => some .pfx
  | 's' :: ds => some (.slop ds)
  | _ => none

/-- `n` further set elements `<k>,<hex>` -/
def parseElemToks : Nat → List String → Option (List (Nat × Str) × List String)
  | 0, toks => some ([], toks)
  | n + 1, k :: h :: rest =>
    match k.toNat?, textOfHex h, parseElemToks n rest with
    | some k, some w, some (more, rest') => some ((k, w) :: more, rest')
    | _, _, _ => none
  | _ + 1, _ => none

mutual
/-- operand tokens: `w,<hex>` | `p,<hex>` | `fw,<hex>,<hex>` | `fp,<hex>,<hex>` | `ps,<hex>,<sfx>` | `fps,<hex>,<hex>,<sfx>` (sfx `-`|`*`|`s<digits>`) | `r,<lo>,<hi>,<hex>,<hex>` | `fr,<hex>,<lo>,<hi>,<hex>,<hex>` | `s,<k0>,<k1>,<hex>,<n>, n×(<k>,<hex>)` | `fs,<hex>,<k0>,<k1>,<hex>,<n>,…` | `pe,<hex>,<sfx>` | `fpe,<hex>,<hex>,<sfx>` | `a` | `x,<hex>` | `el,<k>,<hex>` | `fel,<hex>,<k>,<hex>` | `b,<int digits>,<fraction digits or ->,Opd` | `pq,<hex>,<sfx>` | `fpq,<hex>,<hex>,<sfx>` | `n,<k>,Opd` | `fg,<hex>,` + the fields of `g` | `g,<lead>,<occ>,<k>,<n>,Opd, n × (<op>,<occ>,<sp1>,<sp2>,Opd)` -/
def parseOpdToks : Nat → List String → Option (Opd × List String)
  | 0, _ => none
  | fuel + 1, toks =>
    match toks with
    | "w" :: h :: rest => (textOfHex h).map fun w => (wordOpd w, rest)
    | "p" :: h :: rest => (textOfHex h).map fun w => (phraseOpd w, rest)
    | "fw" :: hf :: h :: rest =>
      match textOfHex hf, textOfHex h with
      | some f, some w => some (fieldWordOpd f w, rest)
      | _, _ => none
    | "fp" :: hf :: h :: rest =>
      match textOfHex hf, textOfHex h with
      | some f, some w => some (fieldPhraseOpd f w, rest)
      | _, _ => none
    | "ps" :: h :: x :: rest =>
      match textOfHex h, parseSfxTok x with
      | some b, some x => some (phraseSfxOpd b x, rest)
      | _, _ => none
    | "fps" :: hf :: h :: x :: rest =>
      match textOfHex hf, textOfHex h, parseSfxTok x with
      | some f, some b, some x => some (fieldPhraseSfxOpd f b x, rest)
      | _, _, _ => none
    | "r" :: lo :: hi :: h1 :: h2 :: rest =>
      match textOfHex h1, textOfHex h2 with
      | some w1, some w2 => some (rangeOpd (lo == "1") (hi == "1") w1 w2, rest)
      | _, _ => none
    | "fr" :: hf :: lo :: hi :: h1 :: h2 :: rest =>
      match textOfHex hf, textOfHex h1, textOfHex h2 with
      | some f, some w1, some w2 => some (fieldRangeOpd f (lo == "1") (hi == "1") w1 w2, rest)
      | _, _, _ => none
    | "s" :: k0 :: k1 :: h :: n :: rest =>
      match k0.toNat?, k1.toNat?, textOfHex h, n.toNat? with
      | some k0, some k1, some w, some n =>
        match parseElemToks n rest with
        | some (more, rest') => some (setOpd k0 k1 w more, rest')
        | none => none
      | _, _, _, _ => none
    | "fs" :: hf :: k0 :: k1 :: h :: n :: rest =>
      match textOfHex hf, k0.toNat?, k1.toNat?, textOfHex h, n.toNat? with
      | some f, some k0, some k1, some w, some n =>
        match parseElemToks n rest with
        | some (more, rest') => some (fieldSetOpd f k0 k1 w more, rest')
        | none => none
      | _, _, _, _, _ => none
    | "pe" :: h :: x :: rest =>
      match textOfHex h, parseSfxTok x with
      | some b, some x => some (phraseEscOpd b x, rest)
      | _, _ => none
    | "fpe" :: hf :: h :: x :: rest =>
      match textOfHex hf, textOfHex h, parseSfxTok x with
      | some f, some b, some x => some (fieldPhraseEscOpd f b x, rest)
      | _, _, _ => none
    | "a" :: rest => some (allOpd, rest)
    | "x" :: hf :: rest => (textOfHex hf).map fun f => (existsOpd f, rest)
    | "el" :: k :: h :: rest =>
      match k.toNat?, textOfHex h with
      | some k, some w => some (elasticOpd k w, rest)
      | _, _ => none
    | "fel" :: hf :: k :: h :: rest =>
      match textOfHex hf, k.toNat?, textOfHex h with
      | some f, some k, some w => some (fieldElasticOpd f k w, rest)
      | _, _, _ => none
    | "b" :: i :: f :: rest =>
      match parseOpdToks fuel rest with
      | some (o, rest1) => some (boostOpd o ⟨i.toList, if f == "-" then [] else f.toList⟩, rest1)
      | none => none
    | "pq" :: h :: x :: rest =>
      match textOfHex h, parseSfxTok x with
      | some b, some x => some (phraseSOpd b x, rest)
      | _, _ => none
    | "fpq" :: hf :: h :: x :: rest =>
      match textOfHex hf, textOfHex h, parseSfxTok x with
      | some f, some b, some x => some (fieldPhraseSOpd f b x, rest)
      | _, _, _ => none
    | "n" :: k :: rest =>
      match k.toNat?, parseOpdToks fuel rest with
      | some k, some (o, rest1) => some (notOpd k o, rest1)
      | _, _ => none
    | "fg" :: hf :: lead :: occ :: k :: n :: rest =>
      match textOfHex hf, lead.toNat?, parseOccTok occ, k.toNat?, n.toNat? with
      | some f, some lead, some occ, some k, some n =>
        match parseOpdToks fuel rest with
        | some (o, rest1) =>
          match parseItemToks fuel n rest1 with
          | some (more, rest2) => some (fieldGroupOpd f lead occ o more k, rest2)
          | none => none
        | none => none
      | _, _, _, _, _ => none
    | "g" :: lead :: occ :: k :: n :: rest =>
      match lead.toNat?, parseOccTok occ, k.toNat?, n.toNat? with
      | some lead, some occ, some k, some n =>
        match parseOpdToks fuel rest with
        | some (o, rest1) =>
          match parseItemToks fuel n rest1 with
          | some (more, rest2) => some (groupOpd lead occ o more k, rest2)
          | none => none
        | none => none
      | _, _, _, _ => none
    | _ => none
def parseItemToks : Nat → Nat → List String → Option (List PItem × List String)
  | 0, _, _ => none
  | _ + 1, 0, toks => some ([], toks)
  | fuel + 1, n + 1, toks =>
    match toks with
    | op :: occ :: a :: b :: rest =>
      match parseOpTok op, parseOccTok occ, a.toNat?, b.toNat?, parseOpdToks fuel rest with
      | some op, some occ, some a, some b, some (o, rest1) =>
        match parseItemToks fuel n rest1 with
        | some (more, rest2) => some (⟨op, occ, o, a, b⟩ :: more, rest2)
        | none => none
      | _, _, _, _, _ => none
    | _ => none
end

/-- `printt <lead>,<occ>,<k>,<n>,Opd,items…` → hex of the printed top-level operand list (the
    printer of `C16_print_parse_nested`) -/
def handlePrintTree (toks : String) : String :=
  let ts := toks.splitOn ","
  match ts with
  | lead :: occ :: k :: n :: rest =>
    match lead.toNat?, parseOccTok occ, k.toNat?, n.toNat? with
    | some lead, some occ, some k, some n =>
      match parseOpdToks (ts.length + 1) rest with
      | some (o, rest1) =>
        match parseItemToks (ts.length + 1) n rest1 with
        | some (more, []) => hexStr (printList lead occ o more k [])
        | _ => "bad-op"
      | none => "bad-op"
    | _, _, _, _ => "bad-op"
  | _ => "bad-op"

def handleParse (h : String) : String :=
  match textOfHex h with
  | some s => showOutcome (parseStrict s)
  | none => "bad-op"

end TantivyModel.Driver.C16Chars
