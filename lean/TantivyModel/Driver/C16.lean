import TantivyModel.Driver.Proto
namespace TantivyModel.Driver.C16
/-- stub: the model for C16 is not built yet -/
def handle : List String → String
  | _ => "bad-op"
end TantivyModel.Driver.C16
