import TantivyModel.Driver.Proto
import TantivyModel.Model.Grammar.Q
import TantivyModel.Model.Grammar.Safe
import TantivyModel.Driver.C16Chars
import TantivyModel.Model.Grammar.Phrase
/-!
Line protocol of the C16 model.

Trees travel as comma separated prefix tokens (no spaces):
* `Q`   := `l,<field|->,<kind>,<id>` | `b,<bits>,Q` | `n,Q` | `f,<field>,Q`
          | `s,<n>,` n × (`<-|o|a>,<-|s|m|x>,Q`)
* `Ast` := `l,<field|->,<kind>,<id>` | `b,<bits>,Ast` | `c,<n>,` n × (`<-|s|m|x>,Ast`)

Requests:
* `build Q`                         → `<Ast of rewrite (build q)> <number of early-operand errors>`
* `sem <o|a> <defaults> Q <docs>`   → per document `1`/`0`/`e` of the strict parser, `/`, the same
                                      for the lenient parser; `<docs>` = valuations separated by `|`,
                                      each a `;` separated list of true `field.id` keys (`-` = none)
* `semq <o|a> <defaults> Q <docs>`  → per document `1`/`0` of `semQ`, or `undoc`
* `phrase <flags>`                   → offsets of the compiled phrase terms (`Model/Grammar/Phrase.lean`)
* `parse <hex>`                      → the character-layer strict parser, see Driver/C16Chars.lean
* `safe <o|a> Q`                    → `1` iff `rewrite_ast` is meaning-preserving on `build q`
                                      by the side condition `safeWith` (see the comment before `C16_rewrite_preserves_sem_counterexample`)
-/
namespace TantivyModel.Driver.C16
open TantivyModel TantivyModel.Proto TantivyModel.Grammar

def occTok : Option Occur → String
  | none => "-" | some .should => "s" | some .must => "m" | some .mustNot => "x"

def parseOcc : String → Option (Option Occur)
  | "-" => some none | "s" => some (some .should) | "m" => some (some .must)
  | "x" => some (some .mustNot) | _ => none

def parseOp : String → Option (Option BinOp)
  | "-" => some none | "o" => some (some .or) | "a" => some (some .and) | _ => none

def parseField : String → Option (Option Nat)
  | "-" => some none
  | s => s.toNat?.map some

mutual
def parseQ : Nat → List String → Option (Q × List String)
  | 0, _ => none
  | fuel + 1, toks =>
    match toks with
    | "l" :: f :: k :: i :: rest =>
      match parseField f, k.toNat?, i.toNat? with
      | some f, some k, some i => some (.leaf ⟨f, k, i⟩, rest)
      | _, _, _ => none
    | "b" :: bits :: rest =>
      match bits.toNat?, parseQ fuel rest with
      | some b, some (q, rest) => some (.boost q b, rest)
      | _, _ => none
    | "n" :: rest =>
      match parseQ fuel rest with
      | some (q, rest) => some (.neg q, rest)
      | none => none
    | "f" :: f :: rest =>
      match f.toNat?, parseQ fuel rest with
      | some f, some (q, rest) => some (.scoped f q, rest)
      | _, _ => none
    | "s" :: n :: rest =>
      match n.toNat? with
      | some n =>
        match parseItems fuel n rest with
        | some (items, rest) => some (.seq items, rest)
        | none => none
      | none => none
    | _ => none
def parseItems : Nat → Nat → List String → Option (List QItem × List String)
  | 0, _, _ => none
  | _ + 1, 0, toks => some ([], toks)
  | fuel + 1, n + 1, toks =>
    match toks with
    | op :: occ :: rest =>
      match parseOp op, parseOcc occ, parseQ fuel rest with
      | some op, some occ, some (q, rest) =>
        match parseItems fuel n rest with
        | some (items, rest) => some ((op, occ, q) :: items, rest)
        | none => none
      | _, _, _ => none
    | _ => none
end

def readQ (s : String) : Option Q :=
  let toks := s.splitOn ","
  match parseQ (toks.length + 1) toks with
  | some (q, []) => some q
  | _ => none

mutual
def showAst : Ast Leaf → List String
  | .leaf l => ["l", (match l.field with | none => "-" | some f => toString f), toString l.kind, toString l.id]
  | .boost a b => "b" :: toString b :: showAst a
  | .clause cs => "c" :: toString cs.length :: showAstL cs
def showAstL : List (Entry Leaf) → List String
  | [] => []
  | (o, a) :: rest => occTok o :: (showAst a ++ showAstL rest)
end

def parseMode : String → Option Mode
  | "o" => some .orDefault | "a" => some .andDefault | _ => none

def parseKey (s : String) : Option (Nat × Nat) :=
  match s.splitOn "." with
  | [f, i] => match f.toNat?, i.toNat? with
    | some f, some i => some (f, i)
    | _, _ => none
  | _ => none

def parseVal (s : String) : Option (List (Nat × Nat)) :=
  if s == "-" then some [] else (s.splitOn ";").mapM parseKey

def parseDocs (s : String) : Option (List (List (Nat × Nat))) :=
  (s.splitOn "|").mapM parseVal

def valOf (keys : List (Nat × Nat)) : RLeaf → Bool
  | none => true
  | some k => keys.contains k

/-- valuation of unresolved leaves (for `semQ`): the documented meaning of a leaf -/
def leafVal (defaults : List Nat) (keys : List (Nat × Nat)) (l : Leaf) : Bool :=
  semL (valOf keys) (resolve defaults l)

def handle : List String → String
  | ["build", q] =>
    match readQ q with
    | some q => ",".intercalate (showAst (rewrite (build q))) ++ " " ++ toString (earlyCount q)
    | none => "bad-op"
  | ["sem", m, d, q, docs] =>
    match parseMode m, natList d, readQ q, parseDocs docs with
    | some m, some d, some q, some docs =>
      let a := rewrite (build q)
      let strict := docs.map fun keys =>
        match strictSem m d (valOf keys) a with
        | none => "e" | some true => "1" | some false => "0"
      let lenient := docs.map fun keys => showBool (lenientSem m d (valOf keys) a)
      String.join strict ++ "/" ++ String.join lenient
    | _, _, _, _ => "bad-op"
  | ["semq", m, d, q, docs] =>
    match parseMode m, natList d, readQ q, parseDocs docs with
    | some m, some d, some q, some docs =>
      if documented q then
        String.join (docs.map fun keys => showBool (semQ m q (leafVal d keys)))
      else "undoc"
    | _, _, _, _ => "bad-op"
  | ["safe", m, q] =>
    match parseMode m, readQ q with
    | some m, some q => showBool (safe m (build q))
    | _, _ => "bad-op"
  | ["phrase", flags] =>
    -- offsets of the phrase terms compiled from a literal whose i-th word is kept iff flag i ≠ 0
    match natList flags with
    | some fs => showNatList ((Phrase.compile (Phrase.analyse (fun w => w != 0) fs)).map (·.1))
    | none => "bad-op"
  | ["printl", lead, occ, w, k, items] => C16Chars.handlePrintList lead occ w k items
  | ["printt", toks] => C16Chars.handlePrintTree toks
  | ["parse", h] => C16Chars.handleParse h
  | ["parsel", h] => C16Chars.handleParseLenient h
  | ["parse2", h] => C16Chars.handleParseBoth h
  | _ => "bad-op"

end TantivyModel.Driver.C16
