import TantivyModel.Driver.Proto
namespace TantivyModel.Driver.C02
/-- stub: the model for C02 is not built yet -/
def handle : List String → String
  | _ => "bad-op"
end TantivyModel.Driver.C02
