import TantivyModel.Driver.Proto
import TantivyModel.Model.Writer
import TantivyModel.Model.WriterMergeMeta
import TantivyModel.Model.WriterHistory
import TantivyModel.Model.WriterBook
/-!
Line protocol of the C02 model.  Documents are the harness's unique ids; a delete query travels
as its extension over the ids of the history (`-` = matches nothing).

History tokens (no blanks inside a token, optional `@n` suffix = opstamp the real call returned):
  `a<id>`            add_document
  `d<ids>`           delete_term / delete_query
  `b<item;item…>`    run(batch)  (items `a<id>` / `d<ids>`; `b-` = empty batch)
  `x`                delete_all_documents
  `c` / `c<n>`       commit (with payload n)
  `r`                rollback / abort / drop + reopen
  `p`                prepare_commit whose PreparedCommit is dropped

  `C02 replay tok…`            -> `committed=<ids>;pending=<ids>;last=<n>;payload=<n|->`  (specification)
  `C02 impl <workers> <seed> tok…` -> the implementation-level model under a schedule derived from
                                  `seed`, ticking the stamper up to the observed opstamps:
                                  `pub=<ids>;meta=<n>;payload=<n|->;cop=<n>;ret=<n,…>;segs=<k>;merges=<k>;pubD=<ids>`
                                  (`pubD`: what the machine WITH the bookkeeping of advance_deletes,
                                  `Model/WriterBook.lean`, publishes after the same events)
  `C02 mergecorner <B> <victim ids> <delop|->:<ids>;…` -> `pub=<ids>;cursor=<n>`: the merged segment
                                  after ONE merge of those committed segments, when the log holds one
                                  delete stamped with the commit opstamp B (advance_deletes with its
                                  delete_opstamp early return; catch-up guard as extracted)
  `C02 substeps <cut> <schedule> <tokA> <tokB> tok…` -> `pub=<ids>;lazy=<ids>;ret=<a>,<b>` (or `disabled`): the
                                  state machine with ONE worker, after the atomic prior calls `tok…`,
                                  the two calls A and B run as sub-steps (`Event.stamp` / `Event.publish`)
                                  in schedule 0 `s1 p1 s2 p2`, 1 `s1 s2 p1 p2`, 2 `s1 s2 p2 p1`, then a
                                  commit; with cut = 1 the worker closes its segment after every batch
                                  (what `tantivy::verif::set_segment_cut_docs(1)` makes the real worker
                                  do); `pub`: the worker takes every batch as soon as it is sent, `lazy`:
                                  it takes the batches of A and B only when the commit waits for it
                                  (the harness does not control the worker thread: the real outcome
                                  must be one of the two)
  `C02 book tok…`              -> `ok` / `dirty`: `bookHist` (delete_all_documents only on a writer object that
                                  has not committed yet), the extra hypothesis of C02_bookkeeping_refines_history
  `C02 clean tok…`             -> `clean` or `dirty:<i,…>;firstdel:<i,…>` (indices of the calls that violate
                                  a hypothesis of `C02_commit_refines_replay_partial`)
-/
namespace TantivyModel.Driver.C02
open TantivyModel TantivyModel.Proto TantivyModel.WriterSpec TantivyModel.Writer

def sortNat (l : List Nat) : List Nat := l.mergeSort (fun a b => decide (a ≤ b))

def extQuery (ext : List Nat) : Nat → Bool := fun d => ext.contains d

def parseItem (t : String) : Option (Item Nat) :=
  match t.toList with
  | 'a' :: r => (String.ofList r).toNat?.map Item.add
  | 'd' :: r => (natList (String.ofList r)).map (fun e => Item.del (extQuery e))
  | _ => none

/-- token -> (op, observed opstamp) -/
def parseTok (t : String) : Option (Op Nat × Option Nat) :=
  let (body, obs) : String × Option (Option Nat) :=
    match t.splitOn "@" with
    | [b] => (b, some none)
    | [b, o] => (b, o.toNat?.map some)
    | _ => (t, none)
  match obs with
  | none => none
  | some obs =>
    let op : Option (Op Nat) :=
      match body.toList with
      | ['x'] => some .deleteAll
      | ['r'] => some .rollback
      | ['p'] => some .prepare
      | ['c'] => some (.commit none)
      | 'c' :: r => (String.ofList r).toNat?.map (fun n => Op.commit (some n))
      | 'a' :: r => (String.ofList r).toNat?.map Op.add
      | 'd' :: r => (natList (String.ofList r)).map (fun e => Op.del (extQuery e))
      | ['b', '-'] => some (.batch [])
      | 'b' :: r => (((String.ofList r).splitOn ";").mapM parseItem).map Op.batch
      | _ => none
    op.map (fun o => (o, obs))

def showOpt : Option Nat → String
  | none => "-"
  | some n => toString n

/-- number of stamps an API call draws before the one it returns -/
def stampsBefore : Op Nat → Nat
  | .batch items => items.length
  | _ => 0

def opToEvent : Op Nat → Event Nat
  | .add d => .add d
  | .del q => .del q
  | .batch items => .batch items
  | .deleteAll => .deleteAll
  | .commit p => .commit p
  | .rollback => .rollback
  | .prepare => .prepare

/-- where a history violates the hypotheses of `C02_commit_refines_replay_partial`:
`(dirty delete_all calls, deletes that are the first stamped operation of a re-created writer)`.
Scan state: operations pending in the current transaction / a delete issued since the writer was
created / no operation stamped yet since the writer was re-created. -/
def hypViolations (h : List (Op Nat)) : List Nat × List Nat :=
  let rec go (i : Nat) (txDirty sessDel fresh : Bool) : List (Op Nat) → List Nat × List Nat
    | [] => ([], [])
    | op :: rest =>
      match op with
      | .add _ => go (i + 1) true sessDel false rest
      | .del _ =>
        let r := go (i + 1) true true false rest
        (r.1, (if fresh then [i] else []) ++ r.2)
      | .batch items =>
        let firstDel := match items with | .del _ :: _ => true | _ => false
        let r := go (i + 1) (txDirty || !items.isEmpty)
          (sessDel || items.any (fun it => match it with | .del _ => true | _ => false)) false rest
        (r.1, (if fresh && firstDel then [i] else []) ++ r.2)
      | .deleteAll =>
        let r := go (i + 1) txDirty sessDel false rest
        ((if txDirty || sessDel then [i] else []) ++ r.1, r.2)
      | .commit _ => go (i + 1) false sessDel false rest
      | .rollback => go (i + 1) false false true rest
      | .prepare => go (i + 1) txDirty sessDel false rest
  go 0 false false false h

/-! ### a scheduler for the internal events (driver only; the theorems quantify over all) -/

structure Sched where
  st : WState Nat
  rng : Nat
  /-- the events fired so far, last first (replayed on the machine with bookkeeping, `pubD`) -/
  evs : List (Event Nat) := []

def nextRng (r : Nat) : Nat := (r * 6364136223846793005 + 1442695040888963407) % 18446744073709551616

def Sched.draw (sc : Sched) (n : Nat) : Nat × Sched :=
  let r := nextRng sc.rng
  ((r / 4294967296) % (if n = 0 then 1 else n), { sc with rng := r })

def Sched.fire (sc : Sched) (e : Event Nat) : Sched :=
  match step sc.st e with
  | some (s', _) => { sc with st := s', evs := e :: sc.evs }
  | none => sc

/-- the hypothesis `cleanState` of `C02_commit_refines_replay_partial`, decided on a model state -/
def cleanStateB (s : WState Nat) : Bool :=
  s.log.isEmpty && s.channel.isEmpty && s.inflight.isEmpty && s.uncommitted.isEmpty
    && s.workers.all (fun w => w.seg.isNone)

def busyWorkers (s : WState Nat) : List Nat :=
  (List.range s.workers.length).filter (fun w => match s.workers[w]? with
    | some wk => wk.seg.isSome | none => false)

/-- a few random internal steps -/
def Sched.wander (sc : Sched) (budget : Nat) : Nat → Sched
  | 0 => sc
  | fuel + 1 =>
    let before := sc.st.stamper
    let (k, sc) := sc.draw 12
    let sc :=
      match k with
      | 0 | 1 | 2 | 3 =>
        let (w, sc) := sc.draw sc.st.workers.length
        sc.fire (.recv w)
      | 4 =>
        let (w, sc) := sc.draw sc.st.workers.length
        sc.fire (.cut w)
      | 5 | 6 => sc.fire .register
      | 7 =>
        -- start a merge of a random sub-list of one register
        let (which, sc) := sc.draw 2
        -- a merge of uncommitted segments draws a stamp: only within the observed slack
        let which := if budget = 0 then 1 else which
        let reg : List (Seg Nat) := if which = 0 then sc.st.uncommitted else sc.st.committed
        let (mask, sc) := sc.draw 256
        let idxs : List (Nat × Nat) := (reg.map (fun (sg : Seg Nat) => sg.id)).zipIdx
        let ids : List Nat := (idxs.filter (fun (p : Nat × Nat) => (mask / 2 ^ (p.2 % 8)) % 2 = 1)).map (fun (p : Nat × Nat) => p.1)
        sc.fire (.mergeStart ids true)
      | 8 =>
        let (j, sc) := sc.draw sc.st.merges.length
        sc.fire (.mergeEnd j)
      | 9 => sc.fire .flush
      | _ => sc
    sc.wander (budget - (sc.st.stamper - before)) fuel

/-- what `prepare_commit` forces: every batch received, every segment cut and registered -/
def Sched.drain (sc : Sched) : Nat → Sched
  | 0 => sc
  | fuel + 1 =>
    if !sc.st.channel.isEmpty then
      let (w, sc) := sc.draw sc.st.workers.length
      -- now and then a worker cuts before taking more
      let (c, sc) := sc.draw 4
      let sc := if c = 0 then sc.fire (.cut w) else sc
      (sc.fire (.recv w)).drain fuel
    else match busyWorkers sc.st with
      | w :: _ => (sc.fire (.cut w)).drain fuel
      | [] => if !sc.st.inflight.isEmpty then (sc.fire .register).drain fuel else sc

def Sched.ticks (sc : Sched) : Nat → Sched
  | 0 => sc
  | n + 1 => (sc.fire .tick).ticks n

/-- run the tokens; returns the final scheduler state and the returned opstamps, or an error -/
def implRun (sc : Sched) : List (Op Nat × Option Nat) → Nat → List Nat → Except String (Sched × List Nat)
  | [], _, rets => .ok (sc, rets.reverse)
  | (op, obs) :: rest, i, rets =>
    -- stamps the internal events may draw before this call: the observed slack
    let slack : Nat := match obs, op with
      | some _, .deleteAll => 0
      | some _, .rollback => 0
      | some o, _ => (o - stampsBefore op) - sc.st.stamper
      | none, .deleteAll => 0
      | none, _ => 2
    let sc := match op with
      | .commit _ | .prepare => (sc.wander slack 3).drain 100000
      | _ => sc.wander slack 2
    -- tick the stamper up to the observed opstamp
    let sc? : Option Sched :=
      match obs, op with
      | some _, .deleteAll => some sc
      | some _, .rollback => some sc
      | some o, _ =>
        let want := o - stampsBefore op
        if o < stampsBefore op || want < sc.st.stamper then none else some (sc.ticks (want - sc.st.stamper))
      | none, _ => some sc
    match sc? with
    | none => .error s!"mismatch:{i}:model-stamper={sc.st.stamper}"
    | some sc =>
      -- the state-level hypothesis of the theorem, where the history-level rule says it holds
      if (match op with | .deleteAll => !cleanStateB sc.st | _ => false) then .error s!"hyp-violated:{i}" else
      match step sc.st (opToEvent op) with
      | none => .error s!"disabled:{i}"
      | some (s', ret) => implRun { sc with st := s', evs := opToEvent op :: sc.evs } rest (i + 1) (ret :: rets)

/-! ### the forced producer schedules (one worker, deterministic) -/

def fire1 (s : WState Nat) (e : Event Nat) : WState Nat :=
  match step s e with
  | some (s', _) => s'
  | none => s

/-- the worker takes every batch sent so far; with `cut` it closes its segment after each batch -/
def pump (cut : Bool) : Nat → WState Nat → WState Nat
  | 0, s => s
  | fuel + 1, s =>
    if s.channel.isEmpty then s else
    let s1 := fire1 s (.recv 0)
    pump cut fuel (if cut then fire1 (fire1 s1 (.cut 0)) .register else s1)

def registerAll : Nat → WState Nat → WState Nat
  | 0, s => s
  | fuel + 1, s => if s.inflight.isEmpty then s else registerAll fuel (fire1 s .register)

/-- what `prepare_commit` waits for -/
def settle (cut : Bool) (s : WState Nat) : WState Nat :=
  registerAll 1000 (fire1 (pump cut 1000 s) (.cut 0))

/-- an atomic call followed by the worker -/
def atomicCall (cut : Bool) (s : WState Nat) (op : Op Nat) : Option (WState Nat × Nat) :=
  let s := match op with
    | .commit _ | .prepare => settle cut s
    | _ => s
  (step s (opToEvent op)).map (fun p => (pump cut 1000 p.1, p.2))

def substepsRun (cut eager : Bool) (schedule : Nat) (a b : Op Nat) (prior : List (Op Nat)) : Option (WState Nat × Nat × Nat) := do
  let s ← prior.foldlM (fun s op => (atomicCall cut s op).map (·.1)) (WState.init 1)
  let pub (s : WState Nat) (k : Nat) : Option (WState Nat) :=
    (step s (.publish k)).map (fun p => if eager then pump cut 1000 p.1 else p.1)
  let (s, ra, rb) ←
    match schedule with
    | 0 => do
      let (s, ra) ← step s (.stamp a)
      let s ← pub s 0
      let (s, rb) ← step s (.stamp b)
      let s ← pub s 0
      pure (s, ra, rb)
    | 1 => do
      let (s, ra) ← step s (.stamp a)
      let (s, rb) ← step s (.stamp b)
      let s ← pub s 0
      let s ← pub s 0
      pure (s, ra, rb)
    | _ => do
      let (s, ra) ← step s (.stamp a)
      let (s, rb) ← step s (.stamp b)
      let s ← pub s 1
      let s ← pub s 0
      pure (s, ra, rb)
  let (s, _) ← atomicCall cut s (.commit none)
  pure (s, ra, rb)

/-- `<delete_opstamp|->:<alive ids>` -/
def parseCornerSeg (i : Nat) (t : String) : Option (Seg Nat) :=
  match t.splitOn ":" with
  | [d, ids] =>
    let delOp : Option (Option Nat) := if d == "-" then some none else d.toNat?.map some
    match delOp, natList ids with
    | some dop, some l =>
      some { id := i, docs := l.map (fun x => ({ doc := x, op := 0, alive := true } : SDoc Nat)), cursor := 0,
             delOp := dop, metaDead := if dop.isSome then 1 else 0 }
    | _, _ => none
  | _ => none

def handle : List String → String
  | ["mergecorner", b, victims, segs] =>
    -- a re-created writer's first delete (stamped with the commit opstamp `b`, matching `victims`),
    -- then ONE merge of the committed segments `segs` (in the order of the merge operation):
    -- what the merged segment shows and where its cursor is (Model/WriterMergeMeta.lean)
    match b.toNat?, natList victims, ((segs.splitOn ";").zipIdx.mapM (fun p => parseCornerSeg p.2 p.1)) with
    | some b, some v, some srcs =>
      let log : List (DelOp Nat) := [{ op := b, q := extQuery v }]
      match mergeCommitted Gen.END_MERGE_CATCHUP_CMP log b srcs with
      | some (docs, cur) => s!"pub={showNatList (sortNat docs)};cursor={cur}"
      | none => "pub=-;cursor=-"
    | _, _, _ => "bad-op"
  | "substeps" :: cut :: schedule :: ta :: tb :: toks =>
    match cut.toNat?, schedule.toNat?, parseTok ta, parseTok tb, toks.mapM parseTok with
    | some cut, some schedule, some (a, _), some (b, _), some prior =>
      match substepsRun (cut != 0) true schedule a b (prior.map (·.1)), substepsRun (cut != 0) false schedule a b (prior.map (·.1)) with
      | some (s, ra, rb), some (s', _, _) =>
        s!"pub={showNatList (sortNat (published s))};lazy={showNatList (sortNat (published s'))};ret={ra},{rb}"
      | _, _ => "disabled"
    | _, _, _, _, _ => "bad-op"
  | "replay" :: toks =>
    match toks.mapM parseTok with
    | none => "bad-op"
    | some ops =>
      let s := replay (ops.map (·.1))
      s!"committed={showNatList (sortNat s.committed)};pending={showNatList (sortNat s.pending)};last={s.lastCommit};payload={showOpt s.payload}"
  | "book" :: toks =>
    -- the history-level hypothesis of C02_bookkeeping_refines_history beyond `clean`
    match toks.mapM parseTok with
    | none => "bad-op"
    | some ops => if bookHist false (ops.map (fun o => opToEvent o.1)) then "ok" else "dirty"
  | "clean" :: toks =>
    match toks.mapM parseTok with
    | none => "bad-op"
    | some ops =>
      -- the verdict is `okHistB` (proved equivalent to the hypothesis `okHist` of
      -- C02_commit_refines_replay_history); the index lists only say where
      let verdict := okHistB HFlags.init (ops.map (·.1))
      match hypViolations (ops.map (·.1)) with
      | ([], []) => if verdict then "clean" else "verdict-mismatch"
      | (l, f) => if verdict then "verdict-mismatch" else "dirty:" ++ showNatList l ++ ";firstdel:" ++ showNatList f
  | "impl" :: nw :: seed :: toks =>
    match nw.toNat?, seed.toNat?, toks.mapM parseTok with
    | some nw, some seed, some ops =>
      if nw = 0 || nw > 8 then "bad-op" else
      match implRun { st := WState.init nw, rng := seed } ops 0 [] with
      | .error e => e
      | .ok (sc, rets) =>
        let s := sc.st
        -- the same events on the machine with the bookkeeping of advance_deletes (Model/WriterBook.lean)
        let pubD := match runD (WState.init nw, Book.init) sc.evs.reverse with
          | some (sD, _) => showNatList (sortNat (published sD))
          | none => "disabled"
        s!"pub={showNatList (sortNat (published s))};meta={s.metas.opstamp};payload={showOpt s.metas.payload};cop={commitOpstamp s};ret={showNatList rets};segs={s.metas.segs.length};merges={s.merges.length};pubD={pubD}"
    | _, _, _ => "bad-op"
  | _ => "bad-op"

end TantivyModel.Driver.C02
