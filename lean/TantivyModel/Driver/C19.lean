import TantivyModel.Driver.Proto
namespace TantivyModel.Driver.C19
/-- stub: the model for C19 is not built yet -/
def handle : List String → String
  | _ => "bad-op"
end TantivyModel.Driver.C19
