import TantivyModel.Driver.Proto
import TantivyModel.Model.Tokenizer.Filters
import TantivyModel.Model.Tokenizer.Stateful
import TantivyModel.Model.Tokenizer.Ngram
import TantivyModel.Model.Snippet
/-!
Line protocol of the C19 model.

  text     = `<codes> <alnum>`: two comma lists of equal length (scalar values, 0/1 class bits)
  tokens   = `f:t:p:c.c.c;f:t:p:;…` (`-` = none); offsets-only answers are flattened `f,t,p,f,t,p`

  tok simple|whitespace|raw|facet <codes> <alnum>          -> f,t,p,…
  tok ngram <min> <max> <prefix01> <codes> <alnum>          -> f,t,p,…
  tok regex <a,b,a,b,…> <codes> <alnum>                     -> f,t,p,…
  tokt <same as tok …>                                       -> tokens with texts
  chain <spec|spec|…> <tokens>                               -> tokens with texts
      spec: lower=<c>o.o/c>o> | fold=<c>o.o/…> | rl=<n> | an | stop=<w/w> | stem=<t>u/…> | split=<t>p+q/…>
  snippet <M> <codes> <alnum> <f:t:s;…  s = score or n>      -> panic | ok <frag codes> <hl a,b,…> <html hex|panic>
  chainfacet <spec|spec|…> <codes> <alnum>                   -> tokens of FacetTokenizer + chain
  splithist <split=…> <tokens@k#tokens@k…>                   -> tokens#tokens…  (reused analyzer, stateful model)
  collapse <a,b,a,b,…>                                       -> a,b,…
  (`missing-param` = a parameter table of the request lacks a point the model needs)
-/
namespace TantivyModel.Driver.C19
open TantivyModel TantivyModel.Proto TantivyModel.Tok TantivyModel.Snip

def dotList (s : String) : Option (List Nat) :=
  if s == "" then some [] else (s.splitOn ".").mapM (fun t => t.toNat?)

def showDots (l : List Nat) : String := ".".intercalate (l.map toString)

def parseText (codes alnum : String) : Option Text :=
  match natList codes, natList alnum with
  | some cs, some bs =>
    if cs.length = bs.length ∧ bs.all (fun b => b ≤ 1) then
      some (List.zipWith (fun c b => (⟨c, b == 1⟩ : Cp)) cs bs)
    else none
  | _, _ => none

def showOffsets (ts : List Token) : String :=
  showNatList (ts.flatMap (fun t => [t.from_, t.to, t.pos]))

def showTokens (ts : List Token) : String :=
  if ts.isEmpty then "-" else
  ";".intercalate (ts.map (fun t => s!"{t.from_}:{t.to}:{t.pos}:{showDots t.text}"))

def parseTokens (s : String) : Option (List Token) :=
  if s == "-" then some [] else
  (s.splitOn ";").mapM (fun e =>
    match e.splitOn ":" with
    | [f, t, p, x] =>
      match f.toNat?, t.toNat?, p.toNat?, dotList x with
      | some f, some t, some p, some x => some (⟨f, t, p, x⟩ : Token)
      | _, _, _, _ => none
    | _ => none)

def pairs : List Nat → Option (List (Nat × Nat))
  | [] => some []
  | [_] => none
  | a :: b :: r => (pairs r).map ((a, b) :: ·)

def tokenize (args : List String) : Option (List Token) :=
  match args with
  | ["simple", c, a] => (parseText c a).map simpleTokens
  | ["whitespace", c, a] => (parseText c a).map whitespaceTokens
  | ["raw", c, a] => (parseText c a).map rawTokens
  | ["facet", c, a] => (parseText c a).map (facetTokens Gen.FACET_SEP_BYTE)
  | ["ngram", mn, mx, pf, c, a] =>
    match mn.toNat?, mx.toNat?, parseText c a with
    | some mn, some mx, some s =>
      if 0 < mn ∧ mn ≤ mx ∧ (pf == "0" ∨ pf == "1") then some (ngramTokens s mn mx (pf == "1")) else none
    | _, _, _ => none
  | ["regex", ms, c, a] =>
    match (natList ms).bind pairs, parseText c a with
    | some ms, some s => some (regexTokens s ms)
    | _, _ => none
  | _ => none

/-- `k>v` entries separated by `/`; keys and values parsed by `pk`, `pv` -/
def parseMap {α β} (pk : String → Option α) (pv : String → Option β) (s : String) :
    Option (List (α × β)) :=
  if s == "" then some [] else
  (s.splitOn "/").mapM (fun e =>
    match e.splitOn ">" with
    | [k, v] => match pk k, pv v with
      | some k, some v => some (k, v)
      | _, _ => none
    | _ => none)

def lookup {α β} [BEq α] (m : List (α × β)) (k : α) : Option β :=
  (m.find? (fun e => e.1 == k)).map (·.2)

/-- not a scalar value: stands for "the request did not supply this point of a parameter function"
(`char::to_lowercase` of a non-ASCII scalar, the stem of a text); never defaulted silently -/
def missingParam : Nat := 0x110000

def showChain (ts : List Token) : String :=
  if ts.any (fun t => t.text.contains missingParam) then "missing-param" else showTokens ts

def parseFilter (spec : String) : Option Filter :=
  match spec.splitOn "=" with
  | ["an"] => some .alnumOnly
  | ["rl", n] => n.toNat?.map .removeLong
  | ["lower", m] =>
    (parseMap String.toNat? dotList m).map fun tab =>
      .lower (fun c => if c < 128 then [asciiLower c] else (lookup tab c).getD [missingParam])
  | ["fold", m] =>
    (parseMap String.toNat? dotList m).map fun tab => .fold (fun c => lookup tab c)
  | ["stop", ws] =>
    (if ws == "" then some [] else (ws.splitOn "/").mapM dotList).map .stop
  | ["stem", m] =>
    (parseMap dotList dotList m).map fun tab => .stem (fun t => (lookup tab t).getD [missingParam])
  | ["split", m] =>
    (parseMap dotList (fun v => (v.splitOn "+").mapM dotList) m).map fun tab =>
      .split (fun t => lookup tab t)
  | _ => none

def utf8Bytes (c : Nat) : List Nat :=
  if c < 0x80 then [c]
  else if c < 0x800 then [0xC0 + c / 64, 0x80 + c % 64]
  else if c < 0x10000 then [0xE0 + c / 4096, 0x80 + (c / 64) % 64, 0x80 + c % 64]
  else [0xF0 + c / 262144, 0x80 + (c / 4096) % 64, 0x80 + (c / 64) % 64, 0x80 + c % 64]

/-- the bytes of `to_html()`: the model's character rendering (`renderChars`), UTF-8 encoded -/
def renderHtml (h : List Html) : List UInt8 :=
  ((renderChars h).flatMap utf8Bytes).map UInt8.ofNat

def parseSToks (s : String) : Option (List STok) :=
  if s == "-" then some [] else
  (s.splitOn ";").mapM (fun e =>
    match e.splitOn ":" with
    | [f, t, sc] =>
      match f.toNat?, t.toNat? with
      | some f, some t =>
        if sc == "n" then some (⟨f, t, none⟩ : STok) else sc.toNat?.map (fun v => ⟨f, t, some v⟩)
      | _, _ => none
    | _ => none)

/-- offsets and positions only (the token texts, slices of the whole text, are not computed):
the same `scanAux` / `regexAux` / `ngramOffsets` the token lists are mapped from -/
def offsetsOnly (args : List String) : Option (List (Nat × Nat × Nat)) :=
  match args with
  | ["simple", c, a] => (parseText c a).map (scanAux (fun c => c.alnum) none 0 0)
  | ["whitespace", c, a] => (parseText c a).map (scanAux (fun c => !isAsciiWs c.code) none 0 0)
  | ["ngram", mn, mx, pf, c, a] =>
    match mn.toNat?, mx.toNat?, parseText c a with
    | some mn, some mx, some s =>
      if 0 < mn ∧ mn ≤ mx ∧ (pf == "0" ∨ pf == "1") then
        some ((ngramOffsets s mn mx (pf == "1")).map (fun p => (p.1, p.2, 0)))
      else none
    | _, _, _ => none
  | ["regex", ms, _, _] => ((natList ms).bind pairs).map (regexAux 0 0)
  | _ => (tokenize args).map (fun ts => ts.map (fun t => (t.from_, t.to, t.pos)))

def handle : List String → String
  | "tok" :: args =>
    match offsetsOnly args with
    | some ts => showNatList (ts.flatMap (fun t => [t.1, t.2.1, t.2.2]))
    | none => "bad-op"
  | "tokt" :: args =>
    match tokenize args with
    | some ts => showTokens ts
    | none => "bad-op"
  | ["chain", specs, toks] =>
    match (specs.splitOn "|").mapM parseFilter, parseTokens toks with
    | some fs, some ts => showChain (applyChain fs ts)
    | _, _ => "bad-op"
  | ["chainfacet", specs, c, a] =>
    match (specs.splitOn "|").mapM parseFilter, parseText c a with
    | some fs, some s => showChain (facetChain Gen.FACET_SEP_BYTE fs s)
    | _, _ => "bad-op"
  | ["snippet", m, c, a, toks] =>
    match m.toNat?, parseText c a, parseSToks toks with
    | some m, some s, some ts =>
      match snippet stopMode s m ts with
      | none => "panic"
      | some sn =>
        let html := match toHtml sn with
          | none => "panic"
          | some h => hexOfBytes (renderHtml h)
        let frag := if sn.fragment.isEmpty then "-" else showDots (sn.fragment.map Cp.code)
        s!"ok {frag} {showNatList (sn.hl.flatMap (fun h => [h.1, h.2]))} {html}"
    | _, _, _ => "bad-op"
  | ["splithist", spec, steps] =>
    -- one reused analyzer ending in SplitCompoundWords: `inner@k#inner@k…` (tokens reaching the
    -- filter for each text, number of tokens read before the stream is dropped); the stateful model
    -- (`splitNewStream` with the extracted clearing, `splitRun`) threads the `parts` buffer
    match parseFilter spec with
    | some (.split g) =>
      let parsed := (steps.splitOn "#").mapM (fun st =>
        match st.splitOn "@" with
        | [toks, k] => match parseTokens toks, k.toNat? with
          | some ts, some k => some (ts, k)
          | _, _ => none
        | _ => none)
      match parsed with
      | none => "bad-op"
      | some sts =>
        let r := sts.foldl (fun (acc : PartsBuf × List String) st =>
          let run := splitRun g st.2 (splitNewStream Gen.SPLIT_COMPOUND_CLEARS_PARTS acc.1) st.1
          (run.2, acc.2 ++ [showChain run.1])) ([], [])
        "#".intercalate r.2
    | _ => "bad-op"
  | ["ngramnew", mn, mx] =>
    match mn.toNat?, mx.toNat? with
    | some mn, some mx => if ngramNewOk mn mx then "ok" else "err"
    | _, _ => "bad-op"
  | ["unesc", d] =>
    -- the model's reader of the HTML (`unescapeChars`) applied to the characters of a real rendering
    match (if d == "-" then some [] else dotList d) with
    | some cs => let r := unescapeChars cs; if r.isEmpty then "-" else showDots r
    | none => "bad-op"
  | ["collapse", l] =>
    match (natList l).bind pairs with
    | some ps => showNatList ((collapse ps).flatMap (fun h => [h.1, h.2]))
    | none => "bad-op"
  | _ => "bad-op"

end TantivyModel.Driver.C19
