import TantivyModel.Driver.Proto
namespace TantivyModel.Driver.C12
/-- stub: the model for C12 is not built yet -/
def handle : List String → String
  | _ => "bad-op"
end TantivyModel.Driver.C12
