import TantivyModel.Driver.Proto
import TantivyModel.Model.Bm25
/-!
Line protocol of the C12 model; floats travel as the decimal value of their IEEE-754 single bit
pattern.

* `term <N> <tokens> <n> <fieldnorm_id> <tf> <boost bits>` →
  `score explain idf weight norm maxscore` (bit patterns)
* `tree <N> <tokens> <rpn>` → `score explain` of a query tree (one matching document), RPN items
  separated by `,`: `t.<n>.<fid>.<tf>` | `p.<n1>+<n2>….<fid>.<count>` | `b.<bits>` | `c.<bits>` | `s.<k>` | `d.<k>.<tie bits>`
* `fn <id>` → `id_to_fieldnorm`; `fnid <fieldnorm>` → `fieldnorm_to_id`
* `corpus <term> <segmentation> <seg> <doc> <boost bits>` → `N tokens n fid tf score`;
  segmentation: segments `|`, documents `,`, token ids `.`, empty document `-`
-/
namespace TantivyModel.Driver.C12
open TantivyModel TantivyModel.Proto TantivyModel.Bm25

def fbits (x : Float32) : String := toString x.toBits.toNat
def ofBits? (s : String) : Option Float32 :=
  s.toNat?.bind fun n => if n < 4294967296 then some (Float32.ofBits (UInt32.ofNat n)) else none

abbrev T := QTree Float32

def popN (k : Nat) (st : List T) : Option (List T × List T) :=
  if k ≤ st.length then some ((st.take k).reverse, st.drop k) else none

/-- stack machine for the RPN encoding (stack head = last pushed) -/
def rpnStep (st : List T) (item : String) : Option (List T) :=
  match item.splitOn "." with
  | ["t", n, fid, tf] =>
    match n.toNat?, fid.toNat?, tf.toNat? with
    | some n, some fid, some tf => if fid < 256 then some (.term n fid tf :: st) else none
    | _, _, _ => none
  | ["p", dfs, fid, cnt] =>
    -- phrase leaf: doc freqs of the terms joined by `+`
    match (dfs.splitOn "+").mapM (·.toNat?), fid.toNat?, cnt.toNat? with
    | some ns, some fid, some c => if fid < 256 then some (.phrase ns fid c :: st) else none
    | _, _, _ => none
  | ["b", bits] =>
    match ofBits? bits, st with
    | some b, q :: rest => some (.boost q b :: rest)
    | _, _ => none
  | ["c", bits] =>
    match ofBits? bits, st with
    | some c, q :: rest => some (.const q c :: rest)
    | _, _ => none
  | ["s", k] =>
    match k.toNat? with
    | some k => (popN k st).map fun (qs, rest) => .sum qs :: rest
    | none => none
  | ["d", k, bits] =>
    match k.toNat?, ofBits? bits with
    | some k, some tie => (popN k st).map fun (qs, rest) => .dismax qs tie :: rest
    | _, _ => none
  | _ => none

def parseTree (s : String) : Option T :=
  match (s.splitOn ",").foldlM rpnStep [] with
  | some [q] => some q
  | _ => none

def parseDoc (s : String) : Option Doc :=
  if s == "-" then some [] else (s.splitOn ".").mapM (·.toNat?)

def parseSegs (s : String) : Option (List (List Doc)) :=
  (s.splitOn "|").mapM fun seg => if seg == "" then some [] else (seg.splitOn ",").mapM parseDoc

def handle : List String → String
  | ["term", nDocs, tokens, n, fid, tf, boost] =>
    match nDocs.toNat?, tokens.toNat?, n.toNat?, fid.toNat?, tf.toNat?, ofBits? boost with
    | some nDocs, some tokens, some n, some fid, some tf, some b =>
      if fid < 256 ∧ n ≤ nDocs ∧ 0 < nDocs then
        let s : Stats := { numDocs := nDocs, numTokens := tokens }
        " ".intercalate [
          fbits (termScore s n fid tf b),
          fbits (explainValue s (.boost (.term n fid tf) b : T)),
          fbits (idf n nDocs : Float32),
          fbits (weight s n b),
          fbits (cachedTfComponent (idToFieldnorm fid) (avgFieldnorm s : Float32)),
          fbits (maxScore s n b)]
      else "bad-op"
    | _, _, _, _, _, _ => "bad-op"
  | ["tree", nDocs, tokens, rpn] =>
    match nDocs.toNat?, tokens.toNat?, parseTree rpn with
    | some nDocs, some tokens, some q =>
      if 0 < nDocs then
        let s : Stats := { numDocs := nDocs, numTokens := tokens }
        fbits (score s q one) ++ " " ++ fbits (explainValue s q)
      else "bad-op"
    | _, _, _ => "bad-op"
  | ["fn", id] =>
    match id.toNat? with
    | some id => if id < 256 then toString (idToFieldnorm id) else "bad-op"
    | none => "bad-op"
  | ["fnid", f] =>
    match f.toNat? with
    | some f => toString (fieldnormToId f)
    | none => "bad-op"
  | ["corpus", term, segs, si, di, boost] =>
    match term.toNat?, parseSegs segs, si.toNat?, di.toNat?, ofBits? boost with
    | some t, some segs, some si, some di, some b =>
      match (segs[si]?).bind (·[di]?) with
      | some d =>
        let s := statsOf segs
        if 0 < s.numDocs then
          " ".intercalate [toString s.numDocs, toString s.numTokens, toString (docFreqOf segs t),
            toString (fieldnormIdOf d), toString (tfOf d t), fbits (termScoreIn segs t d b)]
        else "bad-op"
      | none => "bad-op"
    | _, _, _, _, _ => "bad-op"
  | _ => "bad-op"

end TantivyModel.Driver.C12
