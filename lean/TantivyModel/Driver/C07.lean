import TantivyModel.Driver.Proto
import TantivyModel.Model.VInt
import TantivyModel.Model.FieldNorm
import TantivyModel.Model.Invert
import TantivyModel.Model.PostingsCodec
import TantivyModel.Model.Positions
import TantivyModel.Model.TermInfoStore
import TantivyModel.Model.BlockCursor
import TantivyModel.Model.Recorder
import TantivyModel.Model.JsonPositions
import TantivyModel.Model.PositionReader
import TantivyModel.Model.FieldSerializer
import TantivyModel.Model.Expull
import TantivyModel.Proofs.VInt32Source
/-!
Line protocol of the C07 model (see harness/src/props/c07.rs):

* `vint_enc <n>` → hex; `vint_dec <hex>` → `<n> <consumed>` | `err`
* `vint32_src <n>` → hex of the bytes of the rs2lean translation of serialize_vint_u32
* `vint32_enc <n>` (serialize_vint_u32) → hex; `vint32_dec <hex>` (read_u32_vint_no_advance) → `<n> <len>` | `err`
* `recycle <opt> <df1> <hex1> <A<k>|D|S<target>> <df2> <hex2>` → `<docs>|<tfs>` drained from a block cursor opened on list 1, moved, then reset to list 2
* `lazyseeks <opt> <doc_freq> <hex> <targets>` → the doc each `BlockSegmentPostings::seek` of the program lands on (lazy cursor model)
* `lazyops <opt> <doc_freq> <hex> <A|S<target>,…>` → after each block-level op (`advance`: first doc of the new block; `seek`: the doc landed on)
* `lazyseeks_tf <opt> <doc_freq> <hex> <targets>` → the term frequency the frequency buffer shows after each seek (0 when the seek ran off the end)
* `tis_write <df:ps:pe:qs:qe;…>` → hex of the TermInfoStore bytes; `tis_get <hex> <ord>` → `df:ps:pe:qs:qe` | `err`
* `numbits <n>`; `fn_to_id <n>`; `id_to_fn <i>`
* `enc <opt> <docs> <tfs>` → hex of the term's postings bytes
* `dec <opt> <doc_freq> <hex>` → `<docs>|<tfs>` | `err`
* `seek <opt> <doc_freq> <hex> <program>` → doc after every op
* `pos_enc <deltas>` → hex; `pos_read <hex> <offset> <len>` → values | `err`
* `pos_reads <hex> <off:len,off:len,…>` → the outputs of that sequence of reads on ONE stateful PositionReader, separated by `|`
* `blocksearch <values> <target>` → index
* `invert_json <opt> <docs separated by ; and events by slash: <pathhex>~T~<tokens> | <pathhex>~N~<termhex>>` → `<terms>|<total_num_tokens>`
* `pipeline_remap <opt> <new ids, comma separated, indexed by old id> <corpus>` → `<terms>|<total>` through the doc_id_map branch of Recorder::serialize
* `expull <n> <i:hex;i:hex;…>` → `hex|…|hex|<arena len>`: read_to_end of each of the n ExpUnrolledLinkedLists after the writes, and the arena's allocated length
* `segment <opt> <corpus>` → `df:ps:pe:qs:qe;…`, the TermInfos of the terms in byte order (recorders → FieldSerializer)
* `pipeline <opt> <corpus>` → same format as `invert`, computed through recorders → serializer → decoder
* `invert <opt> <corpus>` → `<terms>|<total_num_tokens>|<fieldnorm ids>`
-/
namespace TantivyModel.Driver.C07
open TantivyModel TantivyModel.Proto TantivyModel.Invert TantivyModel.Postings

def natsOfHex (h : String) : Option (List Nat) := (bytesOfHex h).map (·.map (·.toNat))

def hexOfNats (l : List Nat) : Option String :=
  if l.all (· < 256) then some (hexOfBytes (l.map UInt8.ofNat)) else none

def parseOpt : String → Option RecOpt
  | "basic" => some .basic
  | "freqs" => some .freqs
  | "positions" => some .positions
  | _ => none

def parseToken (s : String) : Option Token :=
  match s.splitOn ":" with
  | [h, p, l] =>
    match natsOfHex h, p.toNat?, l.toNat? with
    | some t, some p, some l => some { term := t, pos := p, posLen := l }
    | _, _, _ => none
  | _ => none

def parseValue (s : String) : Option Value :=
  if s == "_" then some [] else (s.splitOn ",").mapM parseToken

def parseDoc (s : String) : Option Doc :=
  if s.isEmpty then some [] else (s.splitOn "/").mapM parseValue

def parseCorpus (s : String) : Option Corpus :=
  if s == "-" then some [] else (s.splitOn ";").mapM parseDoc

def showPositions (l : List Nat) : String :=
  if l.isEmpty then "-" else ".".intercalate (l.map toString)

def showPosting (p : Posting) : String :=
  toString p.doc ++ ":" ++ toString p.tf ++ ":" ++ showPositions p.positions

def showTerm (o : RecOpt) (e : Term × List Posting) : String :=
  (hexOfNats e.1).getD "bad" ++ "=" ++ ",".intercalate (e.2.map (fun p => showPosting (project o p)))

def showInverted (o : RecOpt) (inv : Inverted) : String :=
  (if inv.terms.isEmpty then "-" else ";".intercalate (inv.terms.map (showTerm o)))
  ++ "|" ++ toString inv.totalNumTokens ++ "|" ++ showNatList (fieldnormIds inv)

def parseOp (s : String) : Option Op :=
  if s == "A" then some .advance
  else if s.startsWith "S" then (s.drop 1).toNat?.map Op.seek
  else none

def parseProgram (s : String) : Option (List Op) :=
  if s == "-" then some [] else (s.splitOn ",").mapM parseOp

def parseTermInfo (s : String) : Option TermInfoStore.TermInfo :=
  match (s.splitOn ":").mapM (·.toNat?) with
  | some [df, ps, pe, qs, qe] => some { docFreq := df, postStart := ps, postEnd := pe, posStart := qs, posEnd := qe }
  | _ => none

def showTermInfo (t : TermInfoStore.TermInfo) : String :=
  ":".intercalate ([t.docFreq, t.postStart, t.postEnd, t.posStart, t.posEnd].map toString)

def handleInvert (o : String) (corpus : String) : String :=
  match parseOpt o, parseCorpus corpus with
  | some o, some c => showInverted o (invert c)
  | _, _ => "bad-op"

def parseJEvent (s : String) : Option JsonPositions.JEvent :=
  match s.splitOn "~" with
  | [ph, "T", toks] =>
    match natsOfHex ph, parseValue toks with
    | some p, some v => some { path := p, text := true, toks := v }
    | _, _ => none
  | [ph, "N", th] =>
    match natsOfHex ph, natsOfHex th with
    | some p, some t => some { path := p, text := false, toks := [{ term := t, pos := 0, posLen := 1 }] }
    | _, _ => none
  | _ => none

def parseJDoc (s : String) : Option (List JsonPositions.JEvent) :=
  if s.isEmpty then some [] else (s.splitOn "/").mapM parseJEvent

def handleInvertJson (o : String) (corpus : String) : String :=
  match parseOpt o, (if corpus == "-" then some [] else (corpus.splitOn ";").mapM parseJDoc) with
  | some o, some c =>
    let r := JsonPositions.invertJson o c
    (if r.1.isEmpty then "-" else ";".intercalate (r.1.map (fun e =>
      (hexOfNats e.1).getD "bad" ++ "=" ++ ",".intercalate (e.2.map showPosting))))
    ++ "|" ++ toString r.2
  | _, _ => "bad-op"

/-- the modelled indexing pipeline, in the response format of `invert` -/
def handlePipeline (o : String) (corpus : String) : String :=
  match parseOpt o, parseCorpus corpus with
  | some o, some c =>
    let ix := Recorder.indexCorpus o c
    let terms := termsOf Gen.Postings.POSITION_GAP c
    let entries := terms.map (fun t =>
      match ix.table t with
      | none => (hexOfNats t).getD "bad" ++ "=missing"
      | some r =>
        match Recorder.readBack o (Recorder.serializeTerm o r) with
        | none => (hexOfNats t).getD "bad" ++ "=unreadable"
        | some ps => (hexOfNats t).getD "bad" ++ "=" ++ ",".intercalate (ps.map showPosting))
    (if entries.isEmpty then "-" else ";".intercalate entries)
    ++ "|" ++ toString ix.totalNumTokens ++ "|" ++
    showNatList (c.map (fun d => FieldNorm.fieldnormId (Recorder.docTokenCount o d)))
  | _, _ => "bad-op"

def parseWrite (s : String) : Option (Nat × List Nat) :=
  match s.splitOn ":" with
  | [i, h] =>
    match i.toNat?, (if h == "-" then some [] else natsOfHex h) with
    | some i, some b => some (i, b)
    | _, _ => none
  | _ => none

/-- several `ExpUnrolledLinkedList`s in one arena -/
def handleExpull (n : String) (ws : String) : String :=
  match n.toNat?, (if ws == "-" then some [] else (ws.splitOn ";").mapM parseWrite) with
  | some n, some ws =>
    if ws.all (fun w => w.1 < n) then
      let r := Expull.runWrites (List.replicate n Expull.Eull.default) Expull.Arena.empty ws
      let outs := r.1.map (fun e =>
        let bs := Expull.readToEnd e r.2
        if bs.isEmpty then "-" else (hexOfNats bs).getD "bad")
      "|".intercalate (outs ++ [toString r.2.len])
    else "bad-op"
  | _, _ => "bad-op"

/-- the TermInfos of the field's terms as `serialize_postings` lays them out -/
def handleSegment (o : String) (corpus : String) : String :=
  match parseOpt o, parseCorpus corpus with
  | some o, some c =>
    let f := FieldSerializer.segmentFiles o c
    if f.infos.isEmpty then "-" else ";".intercalate (f.infos.map showTermInfo)
  | _, _ => "bad-op"

/-- the `doc_id_map` branch: index the corpus in arrival order, serialize with the doc ids mapped
through `newIds` (old id ↦ new id) -/
def handlePipelineRemap (o : String) (ids : String) (corpus : String) : String :=
  match parseOpt o, natList ids, parseCorpus corpus with
  | some o, some ids, some c =>
    let ix := Recorder.indexCorpus o c
    let newId : Nat → Nat := fun d => ids.getD d d
    let entries := (termsOf Gen.Postings.POSITION_GAP c).map (fun t =>
      match ix.table t with
      | none => (hexOfNats t).getD "bad" ++ "=missing"
      | some r =>
        match Recorder.readBack o (Recorder.serializeTermRemapped o r newId) with
        | none => (hexOfNats t).getD "bad" ++ "=unreadable"
        | some ps => (hexOfNats t).getD "bad" ++ "=" ++ ",".intercalate (ps.map showPosting))
    (if entries.isEmpty then "-" else ";".intercalate entries) ++ "|" ++ toString ix.totalNumTokens
  | _, _, _ => "bad-op"

def handle : List String → String
  | ["ping"] => "pong"
  | ["vint_enc", n] =>
    match n.toNat? with
    | some n => (hexOfNats (VInt.enc VInt.STOP n)).getD "bad-op"
    | none => "bad-op"
  | ["vint_dec", h] =>
    match natsOfHex h with
    | some bs =>
      match VInt.dec VInt.STOP bs with
      | some (v, r) => toString v ++ " " ++ toString (bs.length - r.length)
      | none => "err"
    | none => "bad-op"
  | ["vint32_enc", n] =>
    match n.toNat? with
    | some n =>
      if n < 2 ^ 32 then
        (hexOfNats (VInt.serializeU32 Gen.Postings.VINT32_LADDER Gen.Postings.VINT32_LAST_BYTES
          Gen.Postings.VINT32_RADIX Gen.Postings.VINT32_STOP_BIT n)).getD "bad-op"
      else "bad-op"
    | none => "bad-op"
  | ["vint32_src", n] =>
    match n.toNat? with
    | some n => if n < 2 ^ 32 then (hexOfNats (VInt.packedBytes (BitVec.ofNat 32 n))).getD "bad-op" else "bad-op"
    | none => "bad-op"
  | ["vint32_dec", h] =>
    match natsOfHex h with
    | some bs =>
      match VInt.readU32 Gen.Postings.VINT_STOP_BIT Gen.Postings.VINT32_MAX_LEN bs with
      | some (v, n) => toString v ++ " " ++ toString n
      | none => "err"
    | none => "bad-op"
  | ["recycle", o, df1, h1, mv, df2, h2] =>
    match parseOpt o, df1.toNat?, natsOfHex h1, df2.toNat?, natsOfHex h2 with
    | some o, some df1, some b1, some df2, some b2 =>
      let p0 := BlockPostings.open cfg o o df1 b1
      let moved : Option BlockPostings :=
        if mv == "D" then
          some ((List.range (df1 / cfg.B + 2)).foldl (fun p _ => if p.docs.isEmpty then p else p.advance cfg) p0)
        else if mv.startsWith "A" then
          (mv.drop 1).toNat?.map (fun k => (List.range k).foldl (fun p _ => p.advance cfg) p0)
        else if mv.startsWith "S" then
          (mv.drop 1).toNat?.map (fun t => (p0.seek cfg t).1)
        else none
      match moved with
      | some p =>
        let r := BlockPostings.drain cfg (df2 / cfg.B + 2) (p.reset cfg df2 b2)
        showNatList r.1 ++ "|" ++ showNatList (if hasFreq o then r.2 else r.1.map (fun _ => 1))
      | none => "bad-op"
    | _, _, _, _, _ => "bad-op"
  | ["lazyseeks", o, df, h, ts] =>
    match parseOpt o, df.toNat?, natsOfHex h, natList ts with
    | some o, some df, some b, some ts =>
      showNatList (BlockPostings.seekAll cfg (BlockPostings.open cfg o o df b) ts)
    | _, _, _, _ => "bad-op"
  | ["lazyops", o, df, h, prog] =>
    let parseOp := fun (w : String) =>
      if w == "A" then some BOp.advance
      else if w.startsWith "S" then (w.drop 1).toNat?.map BOp.seek else none
    match parseOpt o, df.toNat?, natsOfHex h, (if prog == "-" then some [] else (prog.splitOn ",").mapM parseOp) with
    | some o, some df, some b, some ops =>
      showNatList (BlockPostings.runOps cfg (BlockPostings.open cfg o o df b) ops)
    | _, _, _, _ => "bad-op"
  | ["lazyseeks_tf", o, df, h, ts] =>
    match parseOpt o, df.toNat?, natsOfHex h, natList ts with
    | some o, some df, some b, some ts =>
      let step := fun (acc : BlockPostings × List Nat) (t : Nat) =>
        let r := acc.1.seek cfg t
        let d := r.1.docBuf.getD r.2 cfg.T
        (r.1, acc.2 ++ [if d = cfg.T then 0 else r.1.freqs.getD r.2 0])
      showNatList (ts.foldl step (BlockPostings.open cfg o o df b, [])).2
    | _, _, _, _ => "bad-op"
  | ["tis_write", infos] =>
    match (if infos == "-" then some [] else (infos.splitOn ";").mapM parseTermInfo) with
    | some tis => (hexOfNats (TermInfoStore.storeBytes TermInfoStore.BLOCK_LEN tis)).getD "bad-op"
    | none => "bad-op"
  | ["tis_get", h, ord] =>
    match natsOfHex h, ord.toNat? with
    | some bs, some ord =>
      match TermInfoStore.getFromBytes TermInfoStore.BLOCK_LEN bs ord with
      | some t => showTermInfo t
      | none => "err"
    | _, _ => "bad-op"
  | ["numbits", n] =>
    match n.toNat? with
    | some n => toString (computeNumBits n)
    | none => "bad-op"
  | ["fn_to_id", n] =>
    match n.toNat? with
    | some n => toString (FieldNorm.fieldnormToId FieldNorm.table n)
    | none => "bad-op"
  | ["id_to_fn", i] =>
    match i.toNat? with
    | some i => if i < 256 then toString (FieldNorm.idToFieldnorm FieldNorm.table i) else "bad-op"
    | none => "bad-op"
  | ["enc", o, docs, tfs] =>
    match parseOpt o, natList docs, natList tfs with
    | some o, some docs, some tfs =>
      if docs.length ≠ tfs.length then "bad-op"
      else (hexOfNats (encodeTerm cfg o docs tfs)).getD "bad-op"
    | _, _, _ => "bad-op"
  | ["dec", o, df, h] =>
    match parseOpt o, df.toNat?, natsOfHex h with
    | some o, some df, some bs =>
      match decodeAll cfg o df bs with
      | some (docs, tfs) =>
        showNatList docs ++ "|" ++ showNatList (if hasFreq o then tfs else docs.map (fun _ => 1))
      | none => "err"
    | _, _, _ => "bad-op"
  | ["seek", o, df, h, prog] =>
    match parseOpt o, df.toNat?, natsOfHex h, parseProgram prog with
    | some o, some df, some bs, some ops =>
      match decodeTerm cfg o df bs with
      | some blocks => showNatList ((run cfg o (Cursor.init blocks) ops).map (·.1))
      | none => "err"
    | _, _, _, _ => "bad-op"
  | ["seekfull", o, df, h, prog] =>
    match parseOpt o, df.toNat?, natsOfHex h, parseProgram prog with
    | some o, some df, some bs, some ops =>
      match decodeTerm cfg o df bs with
      | some blocks =>
        ";".intercalate ((run cfg o (Cursor.init blocks) ops).map
          (fun r => toString r.1 ++ ":" ++ toString r.2.1 ++ ":" ++ toString r.2.2))
      | none => "err"
    | _, _, _, _ => "bad-op"
  | ["pos_enc", ds] =>
    match natList ds with
    | some ds => (hexOfNats (Positions.encode cfg ds)).getD "bad-op"
    | none => "bad-op"
  | ["pos_read", h, off, len] =>
    match natsOfHex h, off.toNat?, len.toNat? with
    | some bs, some off, some len =>
      match Positions.read cfg bs off len with
      | some vs => showNatList vs
      | none => "err"
    | _, _, _ => "bad-op"
  | ["pos_reads", h, reads] =>
    match natsOfHex h, (reads.splitOn ",").mapM (fun r =>
        match r.splitOn ":" with
        | [o, l] => match o.toNat?, l.toNat? with
          | some o, some l => some (o, l)
          | _, _ => none
        | _ => none) with
    | some bs, some rs =>
      match Positions.Reader.open cfg bs with
      | some rd => "|".intercalate ((Positions.Reader.reads cfg rd rs).map showNatList)
      | none => "err"
    | _, _ => "bad-op"
  | ["blocksearch", vs, t] =>
    match natList vs, t.toNat? with
    | some vs, some t => if vs.length = cfg.B then toString (searchBlock cfg vs t) else "bad-op"
    | _, _ => "bad-op"
  | ["invert", o, corpus] => handleInvert o corpus
  | ["invert", o] => handleInvert o ""
  | ["invert_json", o, corpus] => handleInvertJson o corpus
  | ["invert_json", o] => handleInvertJson o ""
  | ["pipeline_remap", o, ids, corpus] => handlePipelineRemap o ids corpus
  | ["expull", n, ws] => handleExpull n ws
  | ["segment", o, corpus] => handleSegment o corpus
  | ["segment", o] => handleSegment o ""
  | ["pipeline", o, corpus] => handlePipeline o corpus
  | ["pipeline", o] => handlePipeline o ""
  | _ => "bad-op"

end TantivyModel.Driver.C07
