import TantivyModel.Driver.Proto
namespace TantivyModel.Driver.C07
/-- stub: the model for C07 is not built yet -/
def handle : List String → String
  | _ => "bad-op"
end TantivyModel.Driver.C07
