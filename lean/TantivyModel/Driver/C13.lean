import TantivyModel.Driver.Proto
import TantivyModel.Model.DocSet.Tree
/-!
Line protocol of the C13 model.

* `C13 run <tree> <prog>`  — build the scorer tree (nesting depth ≤ 3 over vector leaves) and run
  the call program on the implementation-level model; one result per call, `;`-separated.
* `C13 runh <fix> <tree> <prog>` — the same with a set of `…_partial` hypotheses enforced
  (`-` | subset of `dw,fc,fs,cu,ci,bs`): the model of the code with those defects repaired.
* `C13 spec <docs> <prog>` — run the same program on the specification cursor over `docs`.
* `C13 consts`             — the extracted constants the model was built with.

tree (prefix notation, tokens separated by `;`):
  `v;<docs>;<score>` | `bs;<docs>;<max_value>;<score>` | `bu;<sum 0/1>;<n>;T1..Tn` | `su;<n>;T1..Tn` | `in;<dense 0/1>;<n>;T1..Tn`
  | `ex;<n>;U;E1..En` | `ro;<sum 0/1>;REQ;OPT` | `dj;<sum 0/1>;<min_match>;<n>;T1..Tn`
prog (`;`-separated): `d` doc | `a` advance | `s<t>` seek | `k<t>` seek_danger | `f` fill_buffer
  | `b<m>` fill_bitset_block | `c` count_including_deleted | `x` score
results: `<doc>` for d/a/s | `F` / `L<bound>` for k | `f:<docs>` | `b:<docs>:<next>` | `c:<n>` | `x:<n>`
-/
namespace TantivyModel.Driver.C13
open TantivyModel TantivyModel.Proto TantivyModel.DocSet

def parseTree : Nat → List String → Option (Tree × List String)
  | 0, _ => none
  | fuel + 1, toks =>
    let rec many (k : Nat) (toks : List String) (acc : List Tree) : Option (List Tree × List String) :=
      match k with
      | 0 => some (acc.reverse, toks)
      | k + 1 =>
        match parseTree fuel toks with
        | some (t, rest) => many k rest (t :: acc)
        | none => none
    match toks with
    | "v" :: docs :: sc :: rest =>
      match natList docs, sc.toNat? with
      | some l, some s => some (.vec l s, rest)
      | _, _ => none
    | "bs" :: docs :: mx :: sc :: rest =>
      match natList docs, mx.toNat?, sc.toNat? with
      | some l, some m, some s => some (.bits l m s, rest)
      | _, _, _ => none
    | "bu" :: sum :: n :: rest =>
      match sum.toNat?, n.toNat? with
      | some sm, some k => (many k rest []).map (fun (cs, r) => (.bunion (sm == 1) cs, r))
      | _, _ => none
    | "dj" :: sum :: k :: n :: rest =>
      match sum.toNat?, k.toNat?, n.toNat? with
      | some sm, some kk, some nn => (many nn rest []).map (fun (cs, r) => (.disj (sm == 1) kk cs, r))
      | _, _, _ => none
    | "su" :: n :: rest =>
      match n.toNat? with
      | some k => (many k rest []).map (fun (cs, r) => (.sunion cs, r))
      | none => none
    | "in" :: dense :: n :: rest =>
      match dense.toNat?, n.toNat? with
      | some dn, some k => (many k rest []).map (fun (cs, r) => (.inter (dn == 1) cs, r))
      | _, _ => none
    | "ex" :: n :: rest =>
      match n.toNat? with
      | some k =>
        match parseTree fuel rest with
        | some (u, rest') => (many k rest' []).map (fun (es, r) => (.excl u es, r))
        | none => none
      | none => none
    | "ro" :: sum :: rest =>
      match sum.toNat? with
      | some sm =>
        match parseTree fuel rest with
        | some (rq, rest') =>
          match parseTree fuel rest' with
          | some (op, rest'') => some (.reqopt (sm == 1) rq op, rest'')
          | none => none
        | none => none
      | none => none
    | _ => none

inductive Call where
  | op (o : Op)
  | score

def parseCall (s : String) : Option Call :=
  match s.toList with
  | ['d'] => some (.op .doc)
  | ['a'] => some (.op .advance)
  | ['f'] => some (.op .fillBuffer)
  | ['c'] => some (.op .count)
  | ['x'] => some .score
  | 's' :: r => (String.ofList r).toNat?.map (fun t => .op (.seek t))
  | 'k' :: r => (String.ofList r).toNat?.map (fun t => .op (.seekDanger t))
  | 'b' :: r => (String.ofList r).toNat?.map (fun t => .op (.fillBitset t))
  | _ => none

def runCalls (D : DS σ) : σ → List Call → List String
  | _, [] => []
  | s, .score :: rest => let r := D.score s; ("x:" ++ toString r.1) :: runCalls D r.2 rest
  | s, .op .doc :: rest => toString (D.doc s) :: runCalls D s rest
  | s, .op .advance :: rest => let s' := D.advance s; toString (D.doc s') :: runCalls D s' rest
  | s, .op (.seek t) :: rest => let s' := D.seek t s; toString (D.doc s') :: runCalls D s' rest
  | s, .op (.seekDanger t) :: rest =>
    match D.seekDanger t s with
    | (.found, s') => "F" :: runCalls D s' rest
    | (.lower b, s') => ("L" ++ toString b) :: runCalls D s' rest
  | s, .op .fillBuffer :: rest =>
    let r := D.fillBuffer s; ("f:" ++ showNatList r.1) :: runCalls D r.2 rest
  | s, .op (.fillBitset m) :: rest =>
    let r := D.fillBitset m s
    ("b:" ++ showNatList r.1.1 ++ ":" ++ toString r.1.2) :: runCalls D r.2 rest
  | s, .op .count :: rest => let r := D.count s; ("c:" ++ toString r.1) :: runCalls D r.2 rest

/-- the specification cursor as an implementation (state = remaining documents) -/
def specDS : DS (List Nat) where
  doc := Spec.doc
  advance := Spec.advance
  seek := Spec.seek
  seekDanger := fun t l =>
    if t ∈ l then (.found, Spec.seek t l) else (.lower (Spec.doc (Spec.seek t l)), Spec.seek t l)
  fillBuffer := Spec.fillBuffer
  fillBitset := fun m l => (((Spec.fillBitset m l).1, Spec.doc (Spec.fillBitset m l).2), (Spec.fillBitset m l).2)
  count := fun l => (Spec.count l, [])
  score := fun l => (0, l)

def parseProg (s : String) : Option (List Call) :=
  if s == "-" then some [] else (s.splitOn ";").mapM parseCall

/-- enforced hypotheses, `-` or a comma separated subset of
`dw` (finding 5) `fc` (1) `fs` (2) `cu` (3) `ci` (8) `bs` (4) `du` (9) -/
def parseFix (s : String) : Option Fix :=
  if s == "-" then some {} else
  (s.splitOn ",").foldlM (fun (fx : Fix) tok =>
    match tok with
    | "dw" => some { fx with dangerWindow := true }
    | "fc" => some { fx with fillClear := true }
    | "fs" => some { fx with fillScore := true }
    | "cu" => some { fx with unionCountEnd := true }
    | "ci" => some { fx with interCountEnd := true }
    | "bs" => some { fx with bitsetSticky := true }
    | "du" => some { fx with childRevalidate := true }
    | _ => none) {}

def runTree (fx : Fix) (tree prog : String) : String :=
  match parseTree 64 (tree.splitOn ";"), parseProg prog with
  | some (t, []), some calls =>
    match buildTree fx 3 t with
    | some s => ";".intercalate (runCalls (levelDS fx 3) s calls)
    | none => "bad-op"
  | _, _ => "bad-op"

def handle : List String → String
  | ["run", tree, prog] => runTree {} tree prog
  | ["runh", fix, tree, prog] =>
    match parseFix fix with
    | some fx => runTree fx tree prog
    | none => "bad-op"
  | ["spec", docs, prog] =>
    match natList docs, parseProg prog with
    | some l, some calls => ";".intercalate (runCalls specDS l calls)
    | _, _ => "bad-op"
  | ["consts"] =>
    s!"TERMINATED={TERMINATED} BUFLEN={BUFLEN} BLOCK_WINDOW={BLOCK_WINDOW} HORIZON={Comb.H} NB={BUnion.NB Comb.H}"
  | _ => "bad-op"

end TantivyModel.Driver.C13
