import TantivyModel.Driver.Proto
namespace TantivyModel.Driver.C13
/-- stub: the model for C13 is not built yet -/
def handle : List String → String
  | _ => "bad-op"
end TantivyModel.Driver.C13
