import TantivyModel.Driver.Proto
import TantivyModel.Model.Reader
import TantivyModel.Model.Generations
/-!
Line protocol of the reader / GC protocol model.

  C05 trace <disc> <events>     disc ∈ full | noreaderlock | nogclock
      → `<ok|bad:i> pubs=<R.K.j,…> badopens=<R.K.P,…> loads=<R.K.j,…> handles=<R.K:p+p+…;…>`
  C05 seq <ρ> <events>          → `seq=<0|1> pubs=<j,…> mono=<0|1>`
  C05 disc                      → the discipline the extractor reads off the source text

events are `;`-separated: `a.R.K` acquire, `l.R.K` loadMeta, `o.R.K.P` openFile, `r.R.K`
release, `p.R.K` publish, `c.P.B` create, `s.P,P,…` saveMeta (`s.-` = no files), `ga`,
`gl.P,P,…` gcList (living set), `gr`, `gd.P`.
-/
namespace TantivyModel.Driver.C05
open TantivyModel TantivyModel.Proto TantivyModel.Reader

def parseEv (s : String) : Option Ev :=
  match s.splitOn "." with
  | ["a", r, k] => do some (.acquire ((← r.toNat?), (← k.toNat?)))
  | ["l", r, k] => do some (.loadMeta ((← r.toNat?), (← k.toNat?)))
  | ["o", r, k, p] => do some (.openFile ((← r.toNat?), (← k.toNat?)) (← p.toNat?))
  | ["r", r, k] => do some (.release ((← r.toNat?), (← k.toNat?)))
  | ["w", r, k] => do some (.warm ((← r.toNat?), (← k.toNat?)))
  | ["p", r, k] => do some (.publish ((← r.toNat?), (← k.toNat?)))
  | ["c", p, b] => do some (.create (← p.toNat?) (← b.toNat?))
  | ["s", l] => do some (.saveMeta (← natList l))
  | ["ml", r, k] => do some (.mLock ((← r.toNat?), (← k.toNat?)))
  | ["mu", r, k] => do some (.mUnlock ((← r.toNat?), (← k.toNat?)))
  | ["ga"] => some .gcAcquire
  | ["gl", l] => do some (.gcList (← natList l))
  | ["gr"] => some .gcRelease
  | ["gd", p] => do some (.gcDelete (← p.toNat?))
  | _ => none

def parseTrace (s : String) : Option (List Ev) :=
  if s == "-" then some [] else (s.splitOn ";").mapM parseEv

def parseDisc : String → Option Disc
  | "full" => some full
  | "noreaderlock" => some { readerLock := false }
  | "nogclock" => some { gcLock := false }
  | _ => none

def showRid (r : Rid) : String := toString r.1 ++ "." ++ toString r.2

def joinOr (l : List String) (sep : String) : String :=
  if l.isEmpty then "-" else sep.intercalate l

/-! generation / inventory / warmer-GC model: `C05 gens <events>`; events `t` track, `w.G` warm,
`s.G` store, `a.G` abandon, `k` take, `d.G` drop, `g` warmGc (model-computed list), and
`G.l1,l2,…` = a `Warmer::garbage_collect(list)` call *observed* on the real code: the list must
contain every generation the model knows to be live, and is applied as the GC's list.
→ `<ok|bad:i> drawn=<n> live=<…> artifacts=<…> calls=<n>` -/

inductive GIn where
  | ev (e : Gens.GEv)
  | obs (l : List Nat)

def parseGIn (s : String) : Option GIn :=
  match s.splitOn "." with
  | ["t"] => some (.ev .track)
  | ["w", g] => do some (.ev (.warm (← g.toNat?)))
  | ["s", g] => do some (.ev (.store (← g.toNat?)))
  | ["a", g] => do some (.ev (.abandon (← g.toNat?)))
  | ["k"] => some (.ev .take)
  | ["d", g] => do some (.ev (.drop (← g.toNat?)))
  | ["g"] => some (.ev .warmGc)
  | ["G", l] => do some (.obs (← natList l))
  | _ => none

/-- (state, first offending index) -/
def gensFold : Gens.GSt → List GIn → Nat → Option Nat → Gens.GSt × Option Nat
  | s, [], _, bad => (s, bad)
  | s, .ev e :: t, i, bad =>
    let bad' := match bad with
      | some b => some b
      | none => if Gens.gok s e then none else some i
    gensFold (Gens.gstep s e) t (i + 1) bad'
  | s, .obs l :: t, i, bad =>
    let okHere := (Gens.liveList s).all (fun g => l.contains g)
    let bad' := match bad with
      | some b => some b
      | none => if okHere then none else some i
    let s' : Gens.GSt := { s with gcCalls := l :: s.gcCalls,
                                  artifacts := s.artifacts.filter (fun g => l.contains g),
                                  warmedIds := l }
    gensFold s' t (i + 1) bad'

def handle : List String → String
  | ["trace", d, evs] =>
    match parseDisc d, parseTrace evs with
    | some d, some t =>
      let s := run init t
      let verdict := match firstBad d init t 0 with
        | none => "ok"
        | some i => "bad:" ++ toString i
      let started := s.started.reverse
      let pubs := s.pubs.map (fun x => showRid x.1 ++ "." ++ toString x.2)
      let bad := s.badOpens.reverse.map (fun x => showRid x.1 ++ "." ++ toString x.2)
      let loads := started.filterMap (fun r => (s.rs r).j.map (fun j => showRid r ++ "." ++ toString j))
      let hs := started.map (fun r =>
        showRid r ++ ":" ++ joinOr ((searcherOf s r).reverse.map (fun h => toString h.path)) "+")
      verdict ++ " pubs=" ++ joinOr pubs "," ++ " badopens=" ++ joinOr bad "," ++
        " loads=" ++ joinOr loads "," ++ " handles=" ++ joinOr hs ";"
    | _, _ => "bad-op"
  | ["seq", ρ, evs] =>
    match ρ.toNat?, parseTrace evs with
    | some ρ, some t =>
      let js := pubsOf ρ (run init t)
      let mono := (js.zip js.tail).all (fun x => x.1 ≤ x.2)
      "seq=" ++ showBool (sequential ρ t) ++ " pubs=" ++ showNatList js ++ " mono=" ++ showBool mono
    | _, _ => "bad-op"
  | ["warm", ρ, evs] =>
    match ρ.toNat?, parseTrace evs with
    | some ρ, some t => "warmed=" ++ showBool (warmedBeforePublish ρ t) ++ " served=" ++
        (match served ρ (run init t) with | some j => toString j | none => "-")
    | _, _ => "bad-op"
  | ["gens", evs] =>
    match (if evs == "-" then some [] else (evs.splitOn ";").mapM parseGIn) with
    | some t =>
      let (s, bad) := gensFold Gens.ginit t 0 none
      (match bad with | none => "ok" | some i => "bad:" ++ toString i) ++
        " drawn=" ++ toString s.counter ++ " live=" ++ showNatList (Gens.liveList s) ++
        " artifacts=" ++ showNatList s.artifacts.reverse ++ " calls=" ++ toString s.gcCalls.length
    | none => "bad-op"
  | ["disc"] =>
    "readerLock=" ++ showBool codeDisc.readerLock ++ " gcLock=" ++ showBool codeDisc.gcLock
  | _ => "bad-op"

end TantivyModel.Driver.C05
