import TantivyModel.Driver.Proto
namespace TantivyModel.Driver.C05
/-- stub: the model for C05 is not built yet -/
def handle : List String → String
  | _ => "bad-op"
end TantivyModel.Driver.C05
