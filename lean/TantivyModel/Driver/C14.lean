import TantivyModel.Driver.Proto
import TantivyModel.Model.AggMerge
import TantivyModel.Model.AggExtStats
import TantivyModel.Model.AggRange
/-!
Line protocol of the C14 model (sums are exact integers: `M := Int`).

  C14 spec   <req> <parts>   evalAgg over all documents of all parts
  C14 specpv <req> <parts>   evalAggPV (per-value direct computation) over all documents of all parts
  C14 whole  <req> <parts>   finalize (collect all documents)
  C14 merged <req> <parts>   finalize (mergeFruits (parts.map collectSeg))   (with segment truncation)
  C14 mergedtrim <req> <parts>   top-level composite only: finalize (fold compMergeFruits (parts.map collectSegComposite)) — per-segment eviction and merge-time trim above 2*size
  C14 mergedevict <req> <parts>   finalize (fold merge (parts.map collectSegEvict)) — eviction at every composite node, no terms cut
  C14 mergedfull <req> <parts>   finalize (mergeFruits (parts.map collectSegFull)) — terms cut and composite eviction
  C14 keyasc <req> <parts>   (several top-level nodes / filter parents: every _key-ordered terms node reached through `both` and `filter`, C14_request_tree_decomposes) top-level terms; _key ascending or descending, or any order with at most one non-empty part (C14_terms_single_segment_exact_any_schedule); min_doc_count ≤ 1, no terms below: `same` when the truncated
                             merged segments show the buckets and sum_other_doc_count of evalAggPV, `diff …` otherwise, `n/a` when not applicable
  C14 limit  <n> <req> <parts>   finalizeGuarded n on the merged tree: `ok <res>` | `err <count>`
  C14 defaults <size|_> <segment_size|_> <min_doc_count|_>   size, segment_size, min_doc_count, default bucket limit
  C14 extstats <sigma*4> <parts of integers>   extended_stats accumulator (Welford + Chan over Rat): count sum Σv² M2 sigma
  C14 normranges <from:to;…>                    cut points of the normalised range request, or `err` (overlap)
  C14 histpos <interval> <offset> <v>      bucket position
  C14 rangeidx <cuts> <v>                  range bucket index

<req>   comma separated prefix code:  N | B,<a>,<b> | M,f,miss | T,f,miss,size,segsize,mdc,ord,<sub>
        | H,f,interval,offset,mdc,hlo,hhi,elo,ehi,<sub> | R,f,n,c1,…,cn,<sub> | F,f,v,<sub>
        | TH,f,addr,k,(d|a) | C,n,f1,base1,(d|a),…,fn,basen,(d|a),size,after,<sub>
        (`_` = absent optional; ord ∈ cd,ca,ka,kd)
<parts> parts separated by `|` (`-` = a part without documents), documents by `;`,
        a document is `e` (no field) or `f=v,v,…` items separated by `/`
-/
namespace TantivyModel.Driver.C14
open TantivyModel TantivyModel.Agg

def optInt (s : String) : Option (Option Int) :=
  if s == "_" then some Option.none else s.toInt?.map some

def pairOpt (a b : Option Int) : Option (Int × Int) :=
  match a, b with
  | some x, some y => some (x, y)
  | _, _ => Option.none

def parseOrder : String → Option Order
  | "cd" => some .countDesc | "ca" => some .countAsc | "ka" => some .keyAsc | "kd" => some .keyDesc
  | _ => Option.none

/-- prefix parser with fuel (the token count bounds the recursion) -/
def parseReq : Nat → List String → Option (Req × List String)
  | 0, _ => Option.none
  | fuel + 1, toks =>
    match toks with
    | "N" :: rest => some (.none, rest)
    | "B" :: rest => do
      let (a, r1) ← parseReq fuel rest
      let (b, r2) ← parseReq fuel r1
      pure (.both a b, r2)
    | "M" :: f :: m :: rest => do
      let f ← f.toNat?
      let m ← optInt m
      pure (.metric f m, rest)
    | "T" :: f :: m :: size :: seg :: mdc :: ord :: rest => do
      let f ← f.toNat?
      let m ← optInt m
      let size ← size.toNat?
      let seg ← seg.toNat?
      let mdc ← mdc.toNat?
      let ord ← parseOrder ord
      let (sub, r1) ← parseReq fuel rest
      pure (.terms ⟨f, m, size, seg, mdc, ord⟩ sub, r1)
    | "H" :: f :: iv :: off :: mdc :: hlo :: hhi :: elo :: ehi :: rest => do
      let f ← f.toNat?
      let iv ← iv.toInt?
      if iv ≤ 0 then Option.none
      let off ← off.toInt?
      let mdc ← mdc.toNat?
      let hlo ← optInt hlo
      let hhi ← optInt hhi
      let elo ← optInt elo
      let ehi ← optInt ehi
      let (sub, r1) ← parseReq fuel rest
      pure (.hist ⟨f, iv, off, mdc, pairOpt hlo hhi, pairOpt elo ehi⟩ sub, r1)
    | "R" :: f :: n :: rest => do
      let f ← f.toNat?
      let n ← n.toNat?
      if rest.length < n then Option.none
      let cuts ← (rest.take n).mapM (fun s => s.toInt?)
      let (sub, r1) ← parseReq fuel (rest.drop n)
      pure (.range f cuts sub, r1)
    | "TH" :: f :: addr :: k :: d :: rest => do
      let f ← f.toNat?
      let addr ← addr.toNat?
      let k ← k.toNat?
      let desc ← (if d == "d" then some true else if d == "a" then some false else Option.none)
      pure (.topHits f addr k desc, rest)
    | "C" :: n :: rest => do
      let n ← n.toNat?
      if rest.length < 3 * n + 2 then Option.none
      let rec srcs : Nat → List String → Option (List CompSrc)
        | 0, _ => some []
        | k + 1, f :: b :: d :: more => do
          let f ← f.toNat?
          let b ← b.toNat?
          let desc ← (if d == "d" then some true else if d == "a" then some false else Option.none)
          let tl ← srcs k more
          pure (⟨f, b, desc⟩ :: tl)
        | _, _ => Option.none
      let ss ← srcs n rest
      match rest.drop (3 * n) with
      | size :: after :: more => do
        let size ← size.toNat?
        let after ← optInt after
        let (sub, r1) ← parseReq fuel more
        pure (.composite ss size after sub, r1)
      | _ => Option.none
    | "F" :: f :: v :: rest => do
      let f ← f.toNat?
      let v ← v.toInt?
      let (sub, r1) ← parseReq fuel rest
      pure (.filter f v sub, r1)
    | _ => Option.none

def parseReqStr (s : String) : Option Req :=
  let toks := s.splitOn ","
  match parseReq (toks.length + 1) toks with
  | some (r, []) => some r
  | _ => Option.none

def parseDoc (s : String) : Option Doc :=
  if s == "e" then some [] else
  (s.splitOn "/").mapM fun item =>
    match item.splitOn "=" with
    | [f, vs] => do
      let f ← f.toNat?
      let vs ← (vs.splitOn ",").mapM (fun v => v.toInt?)
      pure (f, vs)
    | _ => Option.none

def parseParts (s : String) : Option (List (List Doc)) :=
  (s.splitOn "|").mapM fun p =>
    if p == "-" then some [] else (p.splitOn ";").mapM parseDoc

def showOpt : Option Int → String
  | some v => toString v
  | Option.none => "_"

def showBuckets {V : Type} (sh : V → String) (l : List (Int × Nat × V)) : String :=
  ";".intercalate (l.map fun b => s!"{b.1}:{b.2.1}:{sh b.2.2}")

def showRes : (r : Req) → Res Int r → String
  | .none, _ => "N"
  | .both a b, x => "(" ++ showRes a x.1 ++ ")(" ++ showRes b x.2 ++ ")"
  | .metric _ _, x => s!"M[{x.count},{x.sum},{x.sumsq},{showOpt x.min},{showOpt x.max}]"
  | .terms _ sub, x => s!"T[{x.2.1},{x.2.2};" ++ showBuckets (showRes sub) x.1 ++ "]"
  | .hist _ sub, x => "L[" ++ showBuckets (showRes sub) x ++ "]"
  | .range _ _ sub, x => "L[" ++ showBuckets (showRes sub) x ++ "]"
  | .filter _ _ sub, x => s!"F[{x.1}:" ++ showRes sub x.2 ++ "]"
  | .composite _ _ _ sub, x => "L[" ++ showBuckets (showRes sub) x ++ "]"
  | .topHits _ _ _ _, x => "H[" ++ ";".intercalate (x.map fun e => s!"{e.1}:{e.2}") ++ "]"

def merged (r : Req) (parts : List (List Doc)) : Inter Int r :=
  mergeFruits r (parts.map (collectSeg r))

/-- C14_request_tree_decomposes + the `_key`-order theorems: walk the top-level nodes (`both`) and filter
parents; for every `_key`-ordered terms node found there with the checked hypotheses compare buckets and
sum_other_doc_count of the truncated merged result `x` with the direct computation `y`.
`none`: no applicable node; `some true`: all applicable nodes agree. -/
def keyCheck : (r : Req) → Res Int r → Res Int r → Option Bool
  | .both a b, x, y =>
    match keyCheck a x.1 y.1, keyCheck b x.2 y.2 with
    | Option.none, o => o
    | o, Option.none => o
    | some u, some v => some (u && v)
  | .filter _ _ sub, x, y => keyCheck sub x.2 y.2
  | .terms p sub, x, y =>
    if (p.order == .keyAsc || p.order == .keyDesc) && decide (p.size ≤ p.segSize) && decide (p.minDocCount ≤ 1) && sub.cutFree then
      some (showRes (.terms p sub) (x.1, x.2.1, 0) == showRes (.terms p sub) (y.1, y.2.1, 0))
    else Option.none
  | _, _, _ => Option.none

def handle : List String → String
  | ["spec", rq, ps] =>
    match parseReqStr rq, parseParts ps with
    | some r, some parts => showRes r (evalAgg Int r parts.flatten)
    | _, _ => "bad-op"
  | ["specpv", rq, ps] =>
    match parseReqStr rq, parseParts ps with
    | some r, some parts => showRes r (evalAggPV Int r parts.flatten)
    | _, _ => "bad-op"
  | ["whole", rq, ps] =>
    match parseReqStr rq, parseParts ps with
    | some r, some parts => showRes r (finalize r (collect r parts.flatten))
    | _, _ => "bad-op"
  | ["merged", rq, ps] =>
    match parseReqStr rq, parseParts ps with
    | some r, some parts => showRes r (finalize r (merged r parts))
    | _, _ => "bad-op"
  | ["mergedtrim", rq, ps] =>
    -- a single top-level composite: every segment fruit is trimmed to its own page first
    match parseReqStr rq, parseParts ps with
    | some (.composite srcs size after sub), some parts =>
      let r := Req.composite srcs size after sub
      let x : Inter Int r := (parts.map (collectSegComposite (M := Int) srcs size after sub)).foldl
        (compMergeFruits (entryMerge (merge (M := Int) sub)) size after) (empty r)
      showRes r (finalize r x)
    | _, _ => "bad-op"
  | ["mergedevict", rq, ps] =>
    -- any request: composite eviction at every composite node of every segment fruit (C14_composite_eviction_invisible_anywhere)
    match parseReqStr rq, parseParts ps with
    | some r, some parts =>
      showRes r (finalize r ((parts.map (collectSegEvict (M := Int) r)).foldl (merge r) (empty r)))
    | _, _ => "bad-op"
  | ["mergedfull", rq, ps] =>
    -- the complete segment model: terms cut and composite eviction (C14_full_segment_model_exact)
    match parseReqStr rq, parseParts ps with
    | some r, some parts =>
      showRes r (finalize r (mergeFruits r (parts.map (collectSegFull (M := Int) r))))
    | _, _ => "bad-op"
  | ["keyasc", rq, ps] =>
    -- C14_terms_key_asc_exact_under_truncation / C14_terms_key_desc_exact_under_truncation: when the hypotheses hold, the truncated merged
    -- segments show the buckets of the direct computation
    match parseReqStr rq, parseParts ps with
    | some (.terms p sub), some parts =>
      if ((p.order == .keyAsc || p.order == .keyDesc) || decide ((parts.filter (fun q => !q.isEmpty)).length ≤ 1)) && decide (p.size ≤ p.segSize) && decide (p.minDocCount ≤ 1) && sub.cutFree then
        let a : Res Int (.terms p sub) := finalize (.terms p sub) (merged (.terms p sub) parts)
        let b : Res Int (.terms p sub) := evalAggPV Int (.terms p sub) parts.flatten
        if showRes (.terms p sub) (a.1, a.2.1, 0) == showRes (.terms p sub) (b.1, b.2.1, 0) then "same"
        else "diff " ++ showRes (.terms p sub) a ++ " " ++ showRes (.terms p sub) b
      else "n/a"
    | some r, some parts =>
      match keyCheck r (finalize r (merged r parts)) (evalAggPV Int r parts.flatten) with
      | some true => "same"
      | some false => "diff " ++ showRes r (finalize r (merged r parts)) ++ " " ++ showRes r (evalAggPV Int r parts.flatten)
      | Option.none => "n/a"
    | _, _ => "n/a"
  | ["limit", n, rq, ps] =>
    match n.toNat?, parseReqStr rq, parseParts ps with
    | some n, some r, some parts =>
      match finalizeGuarded n r (merged r parts) with
      | .ok res => "ok " ++ showRes r res
      | .error c => s!"err {c}"
    | _, _, _ => "bad-op"
  | ["defaults", size, seg, mdc] =>
    match optInt size, optInt seg, optInt mdc with
    | some size, some seg, some mdc =>
      let p := TermsP.ofRequest 0 Option.none (size.map Int.toNat) (seg.map Int.toNat) (mdc.map Int.toNat) Option.none
      s!"{p.size} {p.segSize} {p.minDocCount} {Gen.AGG_DEFAULT_BUCKET_LIMIT}"
    | _, _, _ => "bad-op"
  | ["extstats", sig4, ps] =>
    -- extended_stats accumulator over exact rationals: one fruit per part (a part without values is
    -- an `empty_from_req` placeholder with the default sigma), merged as collector.rs::merge_fruits
    -- does (the last fruit is the accumulator); prints count sum sum_of_squares M2 sigma
    match sig4.toInt?, (ps.splitOn "|").mapM (fun p => if p == "-" then some [] else (p.splitOn ",").mapM (fun v => v.toInt?)) with
    | some s4, some parts =>
      let σ : Rat := (s4 : Rat) / 4
      let fruits : List ExtS := parts.map fun vs => if vs.isEmpty then ExtS.empty else ExtS.ofList σ (vs.map (fun (v : Int) => ((v : Int) : Rat)))
      let r := match fruits.reverse with
        | [] => ExtS.empty
        | last :: restRev => restRev.reverse.foldl ExtS.merge last
      s!"{r.count} {r.sum} {r.q} {r.m2} {r.sigma}"
    | _, _ => "bad-op"
  | ["normranges", rs] =>
    -- ranges `from:to` separated by `;` (`_` = open end): the cut points of the normalised request or `err`
    match (rs.splitOn ";").mapM (fun r => match r.splitOn ":" with
        | [a, b] => match optInt a, optInt b with
          | some a, some b => some (a, b)
          | _, _ => Option.none
        | _ => Option.none) with
    | some ranges =>
      match normRanges ranges with
      | some bs => Proto.showIntList (cutsOf bs)
      | Option.none => "err"
    | Option.none => "bad-op"
  | ["histpos", iv, off, v] =>
    match iv.toInt?, off.toInt?, v.toInt? with
    | some iv, some off, some v => if iv ≤ 0 then "bad-op" else toString (histPos iv off v)
    | _, _, _ => "bad-op"
  | ["rangeidx", cuts, v] =>
    match Proto.intList cuts, v.toInt? with
    | some cuts, some v => toString (rangeIdx cuts v)
    | _, _ => "bad-op"
  | _ => "bad-op"

end TantivyModel.Driver.C14
