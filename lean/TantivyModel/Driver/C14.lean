import TantivyModel.Driver.Proto
namespace TantivyModel.Driver.C14
/-- stub: the model for C14 is not built yet -/
def handle : List String → String
  | _ => "bad-op"
end TantivyModel.Driver.C14
