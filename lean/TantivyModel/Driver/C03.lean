import TantivyModel.Driver.Proto
namespace TantivyModel.Driver.C03
/-- stub: the model for C03 is not built yet -/
def handle : List String → String
  | _ => "bad-op"
end TantivyModel.Driver.C03
