import TantivyModel.Driver.Proto
import TantivyModel.Model.QuerySem
import TantivyModel.Model.BoolCompile
import TantivyModel.Model.PhraseSlop
import TantivyModel.Model.OrderEnc
import TantivyModel.Model.JsonRange
import TantivyModel.Model.FastRange
/-
Line protocol of the C03 model.

  C03 answer <corpus> <query>…            spec: ids of live docs with `sem` (`;` between queries)
  C03 search <0|1> <top 0|1> <corpus> <query>…  implementation model: `searchIds`/`searchIdsTop leafTree scoring`
  C03 count <corpus> <query>…             implementation model: Σ `weightCount`
  C03 ok <query>…                         side conditions `okQ singleClauseGuard` of C03_compile_sound_partial
  C03 jrange <col i|u> <values supplied as i|u> <lk> <lt> <lv> <uk> <ut> <uv> <values>   JSON numeric range: impl bits | spec bits | column type as predicted
  C03 ffrange <lk> <lv> <uk> <uv> <col min> <col max> <full 0|1>   scorer chosen by search_on_u64_ff: empty | all | range:st:en
  C03 jmerge <t:min:max,…>                 column type of the merged segment (i | u | f)
  C03 jwritten <s:v,…>                     write-time column type of values supplied as i64 / u64 (i | u | f)
  C03 wf <corpus>                         hypotheses `Seg.wf` and `DocsWf` of C03_search_eq_answer_concrete on this corpus
  C03 guard                               does BooleanWeight::scorer's single-clause branch honour msm (extracted)
  C03 slop <on|off> <slop> <l1/l2/…>      the two phrase-slop algorithms on adjusted position lists
  C03 i64 <u64 bits> / C03 f64 <u64 bits> order-preserving encodings (on bit patterns)
  C03 lev <transp> <pre> <hex cand> <hex query>   edit distance

corpus  := seg ('/' seg)* | '-'          seg := doc (';' doc)*
doc     := id '|' alive '|' postings '|' fast
postings:= '-' | f ':' hex ':' positions (',' …)*     positions := '-' | p ('.' p)*
fast    := '-' | f ':' v (',' …)*
query   := atoms joined by ':' in prefix form (see `parseQ`)
-/
namespace TantivyModel.Driver.C03
open TantivyModel TantivyModel.Proto TantivyModel.QuerySem TantivyModel.BoolCompile

def bytesNat (s : String) : Option (List Nat) := (bytesOfHex s).map (·.map UInt8.toNat)

def dotList (s : String) : Option (List Nat) :=
  if s == "-" then some [] else (s.splitOn ".").mapM (fun t => t.toNat?)

def parsePosting (s : String) : Option Posting :=
  match s.splitOn ":" with
  | [f, h, ps] =>
    match f.toNat?, bytesNat h, dotList ps with
    | some f, some t, some ps => some ⟨f, t, ps⟩
    | _, _, _ => none
  | _ => none

def parseFast (s : String) : Option (Nat × Nat) :=
  match s.splitOn ":" with
  | [f, v] =>
    match f.toNat?, v.toNat? with
    | some f, some v => some (f, v)
    | _, _ => none
  | _ => none

def commaList {α} (p : String → Option α) (s : String) : Option (List α) :=
  if s == "-" then some [] else (s.splitOn ",").mapM p

def parseDoc (s : String) : Option (ADoc × Bool) :=
  match s.splitOn "|" with
  | [id, al, ps, fs] =>
    match id.toNat?, commaList parsePosting ps, commaList parseFast fs with
    | some id, some ps, some fs =>
      if al == "1" then some (⟨id, ps, fs⟩, true)
      else if al == "0" then some (⟨id, ps, fs⟩, false) else none
    | _, _, _ => none
  | _ => none

def parseSeg (s : String) : Option Seg := do
  let ds ← (s.splitOn ";").mapM parseDoc
  pure ⟨ds.map (·.1), ds.map (·.2)⟩

def parseCorpus (s : String) : Option Corpus :=
  if s == "-" then some [] else (s.splitOn "/").mapM parseSeg

def parseOcc : String → Option Occur
  | "m" => some .must | "s" => some .should | "n" => some .mustNot | _ => none

/-- `n` pairs `(nat, hex)` -/
def parsePairs : Nat → List String → Option (List (Nat × Bytes) × List String)
  | 0, r => some ([], r)
  | n + 1, a :: h :: r => do
    let a ← a.toNat?
    let h ← bytesNat h
    let (ps, r) ← parsePairs n r
    pure ((a, h) :: ps, r)
  | _, _ => none

def parseHexes : Nat → List String → Option (List Bytes × List String)
  | 0, r => some ([], r)
  | n + 1, h :: r => do
    let h ← bytesNat h
    let (ps, r) ← parseHexes n r
    pure (h :: ps, r)
  | _, _ => none

def parseBnd (k h : String) : Option Bnd :=
  match k with
  | "i" => (bytesNat h).map .incl
  | "e" => (bytesNat h).map .excl
  | "u" => some .unb
  | _ => none

def parseBndN (k h : String) : Option BndN :=
  match k with
  | "i" => h.toNat?.map .incl
  | "e" => h.toNat?.map .excl
  | "u" => some .unb
  | _ => none

def parseB (s : String) : Option Bool := if s == "1" then some true else if s == "0" then some false else none

mutual
def parseQ : Nat → List String → Option (Query × List String)
  | 0, _ => none
  | fuel + 1, atoms =>
    match atoms with
    | "T" :: f :: h :: r => do pure (.leaf (.term (← f.toNat?) (← bytesNat h)), r)
    | "P" :: f :: slop :: n :: r => do
      let (ps, r) ← parsePairs (← n.toNat?) r
      pure (.leaf (.phrase (← f.toNat?) ps (← slop.toNat?)), r)
    | "PP" :: f :: n :: r => do
      let (ps, r) ← parsePairs (← n.toNat?) r
      match r with
      | po :: h :: r => pure (.leaf (.phrasePrefix (← f.toNat?) ps (← po.toNat?) (← bytesNat h)), r)
      | _ => none
    | "RT" :: f :: lk :: lh :: uk :: uh :: r => do
      pure (.leaf (.rangeTerm (← f.toNat?) (← parseBnd lk lh) (← parseBnd uk uh)), r)
    | "RF" :: f :: lk :: lh :: uk :: uh :: r => do
      pure (.leaf (.rangeFast (← f.toNat?) (← parseBndN lk lh) (← parseBndN uk uh)), r)
    | "S" :: n :: r => do
      let (ps, r) ← parsePairs (← n.toNat?) r
      pure (.leaf (.termSet ps), r)
    | "E" :: f :: r => do pure (.leaf (.exists_ (← f.toNat?)), r)
    | "A" :: r => some (.leaf .all, r)
    | "N" :: r => some (.leaf .empty, r)
    | "F" :: f :: h :: d :: tr :: pre :: r => do
      pure (.leaf (.fuzzy (← f.toNat?) (← bytesNat h) (← d.toNat?) (← parseB tr) (← parseB pre)), r)
    | "X" :: f :: n :: r => do
      let (hs, r) ← parseHexes (← n.toNat?) r
      pure (.leaf (.regex (← f.toNat?) hs), r)
    | "W" :: r => do
      let (q, r) ← parseQ fuel r
      pure (.boost q, r)
    | "K" :: r => do
      let (q, r) ← parseQ fuel r
      pure (.constScore q, r)
    | "D" :: n :: r => do
      let (qs, r) ← parseQs fuel (← n.toNat?) r
      pure (.disMax qs, r)
    | "L" :: msm :: n :: r => do
      let (cs, r) ← parseCs fuel (← n.toNat?) r
      pure (.bool cs (← msm.toNat?), r)
    | _ => none
def parseQs : Nat → Nat → List String → Option (List Query × List String)
  | 0, _, _ => none
  | _ + 1, 0, r => some ([], r)
  | fuel + 1, n + 1, r => do
    let (q, r) ← parseQ fuel r
    let (qs, r) ← parseQs fuel n r
    pure (q :: qs, r)
def parseCs : Nat → Nat → List String → Option (List (Occur × Query) × List String)
  | 0, _, _ => none
  | _ + 1, 0, r => some ([], r)
  | fuel + 1, n + 1, o :: r => do
    let o ← parseOcc o
    let (q, r) ← parseQ fuel r
    let (qs, r) ← parseCs fuel n r
    pure ((o, q) :: qs, r)
  | _ + 1, _ + 1, [] => none
end

def parseQuery (s : String) : Option Query :=
  let atoms := s.splitOn ":"
  match parseQ (atoms.length + 1) atoms with
  | some (q, []) => some q
  | _ => none

def perQuery (qs : List String) (f : Query → String) : String :=
  match qs.mapM parseQuery with
  | some qs => ";".intercalate (qs.map f)
  | none => "bad-op"

def slashLists (s : String) : Option (List (List Nat)) :=
  (s.splitOn "/").mapM dotList

def handle : List String → String
  | "answer" :: c :: qs =>
    match parseCorpus c with
    | some c => perQuery qs (fun q => showNatList (answer q c))
    | none => "bad-op"
  | "search" :: sc :: top :: c :: qs =>
    match parseB sc, parseB top, parseCorpus c with
    | some sc, some top, some c =>
      perQuery qs (fun q => showNatList (if top then searchIdsTop leafTree singleClauseGuard sc c q else searchIds leafTree singleClauseGuard sc c q))
    | _, _, _ => "bad-op"
  | ["wf", c] =>
    match parseCorpus c with
    | some c => showBool (c.all (fun s => docsWfB s.docs && s.alive.length == s.docs.length))
    | none => "bad-op"
  | "ok" :: qs => perQuery qs (fun q => showBool (okQ singleClauseGuard q))
  | ["guard"] => showBool singleClauseGuard
  | "count" :: c :: qs =>
    match parseCorpus c with
    | some c => perQuery qs (fun q => toString ((c.map (fun s => weightCount leafTree singleClauseGuard s q)).sum))
    | none => "bad-op"
  | ["slop", mode, slop, ls] =>
    match slop.toNat?, slashLists ls with
    | some slop, some ls =>
      if mode == "on" then showBool (if slop = 0 then PhraseSlop.exactOn ls else PhraseSlop.phraseOn ls slop)
      else if mode == "off" then showBool (if slop = 0 then PhraseSlop.exactOff ls else PhraseSlop.phraseOff ls slop)
      else if mode == "spec" then showBool (phraseSlop ls slop)
      else "bad-op"
    | _, _ => "bad-op"
  | ["jrange", col, sup, lk, lt, lv, uk, ut, uv, vals] =>
    let pcol : Option JsonRange.ColT := if col == "i" then some .i64 else if col == "u" then some .u64 else none
    let pbv (t v : String) : Option JsonRange.BV :=
      if t == "i" then v.toInt?.map .i else if t == "u" then v.toNat?.map .u
      else if t == "f" then v.toInt?.map .f else none
    let pb (k t v : String) : Option JsonRange.B :=
      if k == "u" then some .unb
      else if k == "i" then (pbv t v).map .incl
      else if k == "e" then (pbv t v).map .excl else none
    if col == "f" then
      match pb lk lt lv, pb uk ut uv, intList vals with
      | some lo, some hi, some vs =>
        String.ofList (vs.map (fun v => if JsonRange.implMatchF lo hi v then '1' else '0')) ++ "|" ++
        String.ofList (vs.map (fun v => if JsonRange.specMatchF lo hi v then '1' else '0')) ++ "|" ++
        (if sup == "f" then "1" else "0")
      | _, _, _ => "bad-op"
    else
    match pcol, pb lk lt lv, pb uk ut uv, intList vals with
    | some col, some lo, some hi, some vs =>
      String.ofList (vs.map (fun v => if JsonRange.implMatchG JsonRange.Guards.extracted col lo hi v then '1' else '0')) ++ "|" ++
      String.ofList (vs.map (fun v => if JsonRange.specMatch lo hi v then '1' else '0')) ++ "|" ++
      (if JsonRange.colOf (sup == "u") vs == col then "1" else "0")
    | _, _, _, _ => "bad-op"
  | ["ffrange", lk, lv, uk, uv, mn, mx, full] =>
    let card : Option FastRange.Card :=
      if full == "f" then some .full else if full == "o" then some .optional
      else if full == "m" then some .multivalued else none
    match parseBndN lk lv, parseBndN uk uv, mn.toNat?, mx.toNat?, card with
    | some lo, some hi, some mn, some mx, some card =>
      match FastRange.classifyC FastRange.Shortcut.extracted lo hi mn mx card with
      | .empty => "empty"
      | .all => "all"
      | .range st en => s!"range:{st}:{en}"
    | _, _, _, _, _ => "bad-op"
  | ["jmerge", srcs] =>
    -- srcs: `t:min:max` separated by `,` with t ∈ i,u,f
    let one (x : String) : Option JsonRange.Src :=
      match x.splitOn ":" with
      | [t, mn, mx] =>
        let c : Option JsonRange.ColT3 := if t == "i" then some .i64 else if t == "u" then some .u64 else if t == "f" then some .f64 else none
        match c, mn.toInt?, mx.toInt? with
        | some c, some mn, some mx => some ⟨c, mn, mx⟩
        | _, _, _ => none
      | _ => none
    match (srcs.splitOn ",").mapM one with
    | some l => (match JsonRange.mergedCol l with | .i64 => "i" | .u64 => "u" | .f64 => "f")
    | none => "bad-op"
  | ["jwritten", vals] =>
    -- vals: `s:v` separated by `,` with s ∈ i,u (supplied type)
    let one (x : String) : Option (Bool × Int) :=
      match x.splitOn ":" with
      | [t, v] =>
        match (if t == "i" then some false else if t == "u" then some true else none), v.toInt? with
        | some b, some v => some (b, v)
        | _, _ => none
      | _ => none
    match (vals.splitOn ",").mapM one with
    | some l => (match JsonRange.writtenCol l with | .i64 => "i" | .u64 => "u" | .f64 => "f")
    | none => "bad-op"
  | ["i64", v] =>
    match v.toNat? with
    | some v => toString (OrderEnc.i64_to_u64 (BitVec.ofNat 64 v)).toNat
    | none => "bad-op"
  | ["f64", v] =>
    match v.toNat? with
    | some v => toString (OrderEnc.f64_to_u64 (BitVec.ofNat 64 v)).toNat
    | none => "bad-op"
  | ["lev", tr, pre, c, q] =>
    match parseB tr, parseB pre, bytesNat c, bytesNat q with
    | some tr, some pre, some c, some q =>
      let c := utf8Decode c
      let q := utf8Decode q
      toString (if pre then prefixEditDistance tr c q else editDistance tr c q)
    | _, _, _, _ => "bad-op"
  | _ => "bad-op"

end TantivyModel.Driver.C03
