/-
Line-protocol helpers shared by all driver modules (no Mathlib).

A request line is `Cxx op arg arg ...` separated by single spaces.
Byte strings travel as lower-case hex (`-` for the empty string), naturals in decimal,
lists of naturals as comma separated decimals (`-` for the empty list).
-/
namespace TantivyModel.Proto

def hexDigit (n : Nat) : Char :=
  if n < 10 then Char.ofNat (48 + n) else Char.ofNat (87 + n)

def hexVal (c : Char) : Option Nat :=
  if '0' ≤ c ∧ c ≤ '9' then some (c.toNat - 48)
  else if 'a' ≤ c ∧ c ≤ 'f' then some (c.toNat - 87)
  else if 'A' ≤ c ∧ c ≤ 'F' then some (c.toNat - 55)
  else none

def hexOfBytes (bs : List UInt8) : String :=
  if bs.isEmpty then "-" else
  String.ofList (bs.foldr (fun b acc => hexDigit (b.toNat / 16) :: hexDigit (b.toNat % 16) :: acc) [])

def bytesOfHexChars : List Char → Option (List UInt8)
  | [] => some []
  | [_] => none
  | a :: b :: rest =>
    match hexVal a, hexVal b, bytesOfHexChars rest with
    | some x, some y, some r => some (UInt8.ofNat (x * 16 + y) :: r)
    | _, _, _ => none

def bytesOfHex (s : String) : Option (List UInt8) :=
  if s == "-" then some [] else bytesOfHexChars s.toList

def natList (s : String) : Option (List Nat) :=
  if s == "-" then some [] else
  (s.splitOn ",").mapM (fun t => t.toNat?)

def showNatList (l : List Nat) : String :=
  if l.isEmpty then "-" else ",".intercalate (l.map toString)

def intList (s : String) : Option (List Int) :=
  if s == "-" then some [] else
  (s.splitOn ",").mapM (fun t => t.toInt?)

def showIntList (l : List Int) : String :=
  if l.isEmpty then "-" else ",".intercalate (l.map toString)

def showBool (b : Bool) : String := if b then "1" else "0"

end TantivyModel.Proto
