import TantivyModel.Driver.Proto
import TantivyModel.Model.Columnar.Column
import TantivyModel.Model.Columnar.Writer
import TantivyModel.Model.Columnar.CompactSpace
import TantivyModel.Model.Columnar.DictMerge
import TantivyModel.Model.Columnar.ColumnFile
/-!
Line protocol of the C08 model (fast fields / columnar).

  pack <w> <vals>                    -> hex of BitPacker output
  unpack <w> <hex> <idxs>            -> values BitUnpacker::get returns at idxs (`bad-width` if refused)
  rangeids <w> <hex> <lo> <hi> <s> <e> -> positions BitUnpacker::get_ids_for_value_range reports
  numbits <n>                        -> compute_num_bits
  stats <vals>                       -> `min max gcd rows`
  transform <min> <gcd> <lo> <hi>    -> `a b` | none (transform_range_before_linear_transformation as the source has it)
  encode <codec> <vals>              -> hex of the column values (codec byte included) | none
  decode <hex> <idxs|all>            -> `codec min max gcd rows;v,v,..` | corrupt
  decode128 <hex> <idxs|all>         -> `rows min max bits ranges;v,v,..` of a compact-space u128 column | corrupt
  range128 <hex> <lo> <hi> <s> <e>   -> positions get_row_ids_for_value_range reports on a compact-space column
  optenc <numRows> <rows>            -> hex of serialize_optional_index
  optidx <hex> <docs> <ranks>        -> `numDocs numNonNull;rank..;rankIfExists..;select..` (x = none)
  i64_to_u64 / u64_to_i64 / f64_to_u64 / u64_to_f64 <bits>
  writer <rows>                      -> `card;rows` written by the ColumnWriter op-log pipeline and read back
  roundtrip <card|auto> <rows>       -> rows read back from encodeAs (rows: `1,2|-|3`)
  shuffle <order> <inputs>           -> rows of read(mergeShuffled); order `seg:row,seg:row`,
                                        inputs separated by `/`, each `~n` (missing, n docs) or rows
  stack <inputs>                     -> rows of read(mergeStacked)
  colrange <lo> <hi> <s> <e> <rows>  -> Column::get_docids_for_value_range on the written column
  inrange <lo> <hi> <rows>           -> docsInRange
  dictalive <alive> <order> <dicts> <inputs> -> the same with the term bitsets computed by the model: alive
                                        per segment `*` (no alive bitset) or the alive rows
  dictstack <dicts> <inputs>         -> `merged;rows` of merge_bytes_or_str_column under MergeRowOrder::Stack
  colfile <hex> <docs|all>           -> `card numDocs numVals;rows` open_column_u64 on a whole column file and
                                        values_for_doc of the docs | corrupt
  colfilebytes <hex> <docs|all>      -> `dictLen card numDocs numVals;rows` open_column_bytes on a Str / Bytes column file
  colfile128 <hex> <docs|all>        -> the same through open_column_u128 (compact-space values)
  dictshuffle <used> <order> <dicts> <inputs> -> `merged;rows` of merge_bytes_or_str_column: the merged
                                        dictionary and the rows of remapped ordinals (inputs: rows of old ordinals)
  dictmerge <used> <dicts>           -> `merged;map/map/..` of merge_dict_and_compute_term_ord_mapping: dicts
                                        separated by `/` (terms as ranks), used per segment `*` (every
                                        ordinal) or the ordinals surviving rows use; map: new ordinal per old
                                        ordinal of the segment (x = not registered)
-/
namespace TantivyModel.Driver.C08
open TantivyModel TantivyModel.Proto TantivyModel.Columnar

def toNats (bs : List UInt8) : List Nat := bs.map (·.toNat)
def ofNats (bs : List Nat) : List UInt8 := bs.map (fun b => UInt8.ofNat (b % 256))

def bytesArg (h : String) : Option (List Nat) := (bytesOfHex h).map toNats

def showOpt : Option Nat → String
  | some n => toString n
  | none => "x"

def showOptList (l : List (Option Nat)) : String :=
  if l.isEmpty then "-" else ",".intercalate (l.map showOpt)

def parseRows (s : String) : Option (List (List Nat)) :=
  if s == "." then some [] else (s.splitOn "|").mapM natList

def showRows (rows : List (List Nat)) : String :=
  if rows.isEmpty then "." else "|".intercalate (rows.map showNatList)

def parseOrder (s : String) : Option (List (Nat × Nat)) :=
  if s == "-" then some [] else
  (s.splitOn ",").mapM (fun t =>
    match t.splitOn ":" with
    | [a, b] => do some ((← a.toNat?), (← b.toNat?))
    | _ => none)

def parseInput (s : String) : Option (MergeInput Nat) :=
  if s.startsWith "~" then do
    let n ← (s.drop 1).toNat?
    some { numDocs := n, col := none }
  else do
    let rows ← parseRows s
    some { numDocs := rows.length, col := some (encodeAs (detectCard rows) rows) }

def parseInputs (s : String) : Option (List (MergeInput Nat)) :=
  if s == "-" then some [] else (s.splitOn "/").mapM parseInput

def parseUsed (s : String) : Option (List (Option (List Nat))) :=
  (s.splitOn "/").mapM (fun t => if t == "*" then some none else (natList t).map some)

def usedFn (u : List (Option (List Nat))) (s o : Nat) : Bool :=
  match u.getD s (some []) with
  | none => true
  | some l => l.contains o

def showColFile (r : Option (Option ColFile)) (docs : String) : String :=
  match r with
  | some (some f) =>
    let n := f.idx.numDocs f.vals.length
    let card := match f.idx with | .full => 0 | .optional _ => 1 | .multivalued _ _ => 2
    match (if docs == "all" then some (List.range n) else natList docs) with
    | some ds =>
      if ds.all (fun d => decide (d < n)) then
        s!"{card} {n} {f.vals.length};{showRows (ds.map f.readRow)}"
      else "bad-op"
    | none => "bad-op"
  | some none => "corrupt"
  | none => "bad-op"

def parseCard : String → Option (Option Card)
  | "auto" => some none
  | "full" => some (some .full)
  | "optional" => some (some .optional)
  | "multivalued" => some (some .multivalued)
  | _ => none

def bv (n : Nat) : BitVec 64 := BitVec.ofNat 64 n

def handle : List String → String
  | ["pack", w, vals] =>
    match w.toNat?, natList vals with
    | some w, some vs => if w ≤ 64 then hexOfBytes (ofNats (pack w vs)) else "bad-op"
    | _, _ => "bad-op"
  | ["unpack", w, h, idxs] =>
    match w.toNat?, bytesArg h, natList idxs with
    | some w, some data, some is =>
      if unpackerWidthOk w then showNatList (is.map (fun i => unpackGet w i data)) else "bad-width"
    | _, _, _ => "bad-op"
  | ["rangeids", w, h, lo, hi, st, en] =>
    match w.toNat?, bytesArg h, lo.toNat?, hi.toNat?, st.toNat?, en.toNat? with
    | some w, some data, some lo, some hi, some st, some en =>
      if unpackerWidthOk w then showNatList (unpackRangeIds w data lo hi st en) else "bad-width"
    | _, _, _, _, _, _ => "bad-op"
  | ["numbits", n] =>
    match n.toNat? with
    | some n => toString (computeNumBits n)
    | none => "bad-op"
  | ["stats", vals] =>
    match natList vals with
    | some vs => let s := collectStats vs; s!"{s.min} {s.max} {s.gcd} {s.numRows}"
    | none => "bad-op"
  | ["transform", mn, g, lo, hi] =>
    match mn.toNat?, g.toNat?, lo.toNat?, hi.toNat? with
    | some mn, some g, some lo, some hi =>
      if g = 0 then "bad-op" else
      match transformRangeCur { gcd := g, min := mn, max := mn, numRows := 0 } lo hi with
      | some r => s!"{r.1} {r.2}"
      | none => "none"
    | _, _, _, _ => "bad-op"
  | ["encode", c, vals] =>
    match c.toNat?, natList vals with
    | some c, some vs =>
      match encodeU64Column c vs with
      | some b => hexOfBytes (ofNats b)
      | none => "none"
    | _, _ => "bad-op"
  | ["decode", h, idxs] =>
    match bytesArg h with
    | some bytes =>
      match openU64Column bytes with
      | some r =>
        let idxs := if idxs == "all" then some (List.range r.stats.numRows) else natList idxs
        match idxs with
        | some is =>
          if is.all (fun i => decide (i < r.stats.numRows)) then
            s!"{r.codec} {r.stats.min} {r.stats.max} {r.stats.gcd} {r.stats.numRows};{showNatList (is.map r.get)}"
          else "bad-op"
        | none => "bad-op"
      | none => "corrupt"
    | none => "bad-op"
  | ["decode128", h, idxs] =>
    match bytesArg h with
    | some bytes =>
      match openU128Column bytes with
      | some c =>
        let idxs := if idxs == "all" then some (List.range c.numVals) else natList idxs
        match idxs with
        | some is =>
          if is.all (fun i => decide (i < c.numVals)) then
            s!"{c.numVals} {c.minValue} {c.maxValue} {c.numBits} {c.ranges.length};{showNatList (is.map c.get)}"
          else "bad-op"
        | none => "bad-op"
      | none => "corrupt"
    | none => "bad-op"
  | ["range128", h, lo, hi, st, en] =>
    match bytesArg h, lo.toNat?, hi.toNat?, st.toNat?, en.toNat? with
    | some bytes, some lo, some hi, some st, some en =>
      match openU128Column bytes with
      | some c =>
        showNatList (compactRangeRows c.ranges ((List.range c.numVals).map (fun i => unpackGet c.numBits i c.data)) lo hi st en)
      | none => "corrupt"
    | _, _, _, _, _ => "bad-op"
  | ["optenc", n, rows] =>
    match n.toNat?, natList rows with
    | some n, some rs => hexOfBytes (ofNats (optEnc rs n))
    | _, _ => "bad-op"
  | ["optidx", h, docs, ranks] =>
    match bytesArg h, natList docs, natList ranks with
    | some bytes, some ds, some rs =>
      match optOpen bytes with
      | some o =>
        s!"{o.numDocs} {o.numNonNull};{showOptList (ds.map o.rank)};{showOptList (ds.map o.rankIfExists)};{showOptList (rs.map o.select)}"
      | none => "corrupt"
    | _, _, _ => "bad-op"
  | ["i64_to_u64", x] => match x.toNat? with | some x => toString (Gen.Col.i64_to_u64 (bv x)).toNat | none => "bad-op"
  | ["u64_to_i64", x] => match x.toNat? with | some x => toString (Gen.Col.u64_to_i64 (bv x)).toNat | none => "bad-op"
  | ["f64_to_u64", x] => match x.toNat? with | some x => toString (Gen.Col.f64_to_u64 (bv x)).toNat | none => "bad-op"
  | ["u64_to_f64", x] => match x.toNat? with | some x => toString (Gen.Col.u64_to_f64 (bv x)).toNat | none => "bad-op"
  | ["writer", rows] =>
    match parseRows rows with
    | some rows =>
      let e := writerEncode rows
      let c := match e.1 with | .full => "full" | .optional _ _ => "optional" | .multivalued _ _ _ => "multivalued" | .empty _ => "empty"
      c ++ ";" ++ showRows (read e.1 e.2)
    | none => "bad-op"
  | ["roundtrip", c, rows] =>
    match parseCard c, parseRows rows with
    | some c, some rows =>
      let card := c.getD (detectCard rows)
      let e := encodeAs card rows
      showRows (read e.1 e.2)
    | _, _ => "bad-op"
  | ["shuffle", order, inputs] =>
    match parseOrder order, parseInputs inputs with
    | some o, some ins => let m := mergeShuffled o ins; showRows (read m.1 m.2)
    | _, _ => "bad-op"
  | ["stack", inputs] =>
    match parseInputs inputs with
    | some ins => let m := mergeStacked ins; showRows (read m.1 m.2)
    | none => "bad-op"
  | ["colrange", lo, hi, st, en, rows] =>
    match lo.toNat?, hi.toNat?, st.toNat?, en.toNat?, parseRows rows with
    | some lo, some hi, some st, some en, some rows =>
      let e := writerEncode rows
      showNatList (docidsForValueRange id e.1 e.2 lo hi st en)
    | _, _, _, _, _ => "bad-op"
  | ["dictmerge", used, dicts] =>
    match parseUsed used, (dicts.splitOn "/").mapM natList with
    | some u, some ds =>
      let m := mergeDicts (usedFn u) ds
      let maps := (List.range ds.length).map (fun s =>
        showOptList ((List.range (ds.getD s []).length).map (fun o => remapOrd m s o)))
      showNatList m.merged ++ ";" ++ "/".intercalate maps
    | _, _ => "bad-op"
  | ["dictshuffle", used, order, dicts, inputs] =>
    match parseUsed used, parseOrder order, (dicts.splitOn "/").mapM natList, parseInputs inputs with
    | some u, some o, some ds, some ords =>
      let ins : List DictInput := (ds.zip ords).map (fun p => ⟨p.1, p.2⟩)
      let m := mergeDictColumnAs (shuffledCard o ords) (usedFn u) o ins
      showNatList m.1 ++ ";" ++ showRows (read m.2.1 m.2.2)
    | _, _, _, _ => "bad-op"
  | ["dictalive", alive, order, dicts, inputs] =>
    match parseUsed alive, parseOrder order, (dicts.splitOn "/").mapM natList, parseInputs inputs with
    | some al, some o, some ds, some ords =>
      let ins : List DictInput := (ds.zip ords).map (fun p => ⟨p.1, p.2⟩)
      let m := mergeDictColumnAs (shuffledCard o ords) (usedOf al ins) o ins
      showNatList m.1 ++ ";" ++ showRows (read m.2.1 m.2.2)
    | _, _, _, _ => "bad-op"
  | ["dictstack", dicts, inputs] =>
    match (dicts.splitOn "/").mapM natList, parseInputs inputs with
    | some ds, some ords =>
      let m := mergeDictColumnStacked ((ds.zip ords).map (fun p => ⟨p.1, p.2⟩))
      showNatList m.1 ++ ";" ++ showRows (read m.2.1 m.2.2)
    | _, _ => "bad-op"
  | ["colfile", h, docs] => showColFile ((bytesArg h).map openColumnFile) docs
  | ["colfilebytes", h, docs] =>
    match (bytesArg h).map openBytesColumnFile with
    | some (some (d, f)) => s!"{d.length} " ++ showColFile (some (some f)) docs
    | some none => "corrupt"
    | none => "bad-op"
  | ["colfile128", h, docs] => showColFile ((bytesArg h).map openColumnFile128) docs
  | ["inrange", lo, hi, rows] =>
    match lo.toNat?, hi.toNat?, parseRows rows with
    | some lo, some hi, some rows => showNatList (docsInRange id rows lo hi)
    | _, _, _ => "bad-op"
  | _ => "bad-op"

end TantivyModel.Driver.C08
