import TantivyModel.Driver.Proto
namespace TantivyModel.Driver.C08
/-- stub: the model for C08 is not built yet -/
def handle : List String → String
  | _ => "bad-op"
end TantivyModel.Driver.C08
