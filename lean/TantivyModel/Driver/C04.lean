import TantivyModel.Driver.Proto
import TantivyModel.Model.Merge
/-!
Line protocol of the merge model.

segment  := `<alive>/<payloads>/<terms>`
  alive    : string of `0`/`1` (`-` = no docs)
  payloads : comma separated naturals, one per doc id (`-` = none)
  terms    : `-` or `;`-separated `hexkey=doc:tf:pos.pos.pos,doc:tf:_`
logical  := `<payloads>/<terms>`

ops: `dump S`, `spec S…`, `model S…` (logical `/` doc_freqs), `table S…`, `store bits S…`,
     `sm event…`
-/
namespace TantivyModel.Driver.C04
open TantivyModel TantivyModel.Proto TantivyModel.Merge

def parseAlive (s : String) : Option (List Bool) :=
  if s == "-" then some [] else
  s.toList.mapM fun c => if c == '1' then some true else if c == '0' then some false else none

def parsePos (s : String) : Option (List Nat) :=
  if s == "_" then some [] else (s.splitOn ".").mapM (·.toNat?)

def parsePosting (s : String) : Option Posting :=
  match s.splitOn ":" with
  | [d, tf, ps] =>
    match d.toNat?, tf.toNat?, parsePos ps with
    | some d, some tf, some ps => some { doc := d, tf := tf, pos := ps }
    | _, _, _ => none
  | _ => none

def parseTerm (s : String) : Option (Key × List Posting) :=
  match s.splitOn "=" with
  | [k, ps] =>
    match bytesOfHex k, (ps.splitOn ",").mapM parsePosting with
    | some kb, some ps => some (kb.map (·.toNat), ps)
    | _, _ => none
  | _ => none

def parseTerms (s : String) : Option (List (Key × List Posting)) :=
  if s == "-" then some [] else (s.splitOn ";").mapM parseTerm

def parseSeg (s : String) : Option (Segment Nat) :=
  match s.splitOn "/" with
  | [a, p, t] =>
    match parseAlive a, natList p, parseTerms t with
    | some a, some p, some t =>
      if a.length = p.length then some { docs := p, alive := a, terms := t } else none
    | _, _, _ => none
  | _ => none

def showPosting (p : Posting) : String :=
  toString p.doc ++ ":" ++ toString p.tf ++ ":" ++
    (if p.pos.isEmpty then "_" else ".".intercalate (p.pos.map toString))

def showKey (k : Key) : String := hexOfBytes (k.map UInt8.ofNat)

def showTerms (ts : List (Key × List Posting)) : String :=
  if ts.isEmpty then "-" else
  ";".intercalate (ts.map fun t => showKey t.1 ++ "=" ++ ",".intercalate (t.2.map showPosting))

def showLogical (l : LogicalSegment Nat) : String :=
  showNatList l.docs ++ "/" ++ showTerms l.terms

/-! ### updater state machine script -/

def parseDocRec (s : String) : Option DocRec :=
  match (s.splitOn ".").mapM (·.toNat?) with
  | some (u :: ks) => some { uid := u, keys := ks }
  | _ => none

structure Sm where
  st : State
  running : List (Nat × Running)

def findSources (reg : List Entry) (ids : List Nat) : List Entry :=
  ids.filterMap fun i => reg.find? fun e => e.segId == i

def smStep (s : Sm) (ev : String) : Option Sm :=
  match ev.splitOn ":" with
  | ["seg", id, docs, reg] =>
    match id.toNat?, (if docs == "-" then some [] else (docs.splitOn ",").mapM parseDocRec) with
    | some id, some ds =>
      let e : Entry := { segId := id, docs := ds, alive := List.replicate ds.length true,
                         cursor := s.st.queue.length }
      if reg == "c" then
        some { s with st := { s.st with committed := s.st.committed ++ [e],
                                         published := s.st.published ++ [e] } }
      else if reg == "u" then
        some { s with st := { s.st with uncommitted := s.st.uncommitted ++ [e] } }
      else none
    | _, _ => none
  | ["del", o, k] =>
    match o.toNat?, k.toNat? with
    | some o, some k => some { s with st := pushDelete s.st { opstamp := o, key := k } }
    | _, _ => none
  | ["commit", o] => o.toNat?.map fun o => { s with st := commit s.st o }
  | ["rollback"] => some { s with st := rollback s.st }
  | ["delall"] => some { s with st := deleteAll s.st }
  | ["start", idx, target, newId, ids] =>
    match idx.toNat?, target.toNat?, newId.toNat?, natList ids with
    | some idx, some target, some newId, some ids =>
      let reg := if containsAll s.st.uncommitted ids then some s.st.uncommitted
                 else if containsAll s.st.committed ids then some s.st.committed else none
      reg.map fun reg =>
        let r : Running := { sources := ids, epoch := s.st.epoch,
                             merged := mergeEntriesG s.st.queue (findSources reg ids) target newId }
        { s with running := (idx, r) :: s.running }
    | _, _, _, _ => none
  | ["end", idx] =>
    match idx.toNat? with
    | some idx => (s.running.lookup idx).map fun r => { s with st := endMergeG s.st r }
    | none => none
  | ["endnr", idx] =>
    match idx.toNat? with
    | some idx => (s.running.lookup idx).map fun r => { s with st := endMergeWith false s.st r }
    | none => none
  | _ => none

def sortNat (l : List Nat) : List Nat := (l.toArray.qsort (· < ·)).toList

def smRun (evs : List String) : Option Sm :=
  evs.foldlM smStep { st := { queue := [], committed := [], uncommitted := [],
                              committedOpstamp := 0, published := [], epoch := 0 },
                      running := [] }

/-! ### event machine (`Sys`) next to the sequential replay (`Abs`) -/

def parseEv (s : Sys) (tok : String) : Option Ev :=
  match tok.splitOn ":" with
  | ["a", docs] => (if docs == "-" then some [] else (docs.splitOn ",").mapM parseDocRec).map Ev.addSeg
  | ["d", k] => k.toNat?.map Ev.delete
  | ["c"] => some .commit
  | ["r"] => some .rollback
  | ["x"] => some .deleteAll
  | ["z"] => some .removeEmpty
  | ["mu"] => some (.startMerge (s.st.uncommitted.map (·.segId)))
  | ["mc"] => some (.startMerge (s.st.committed.map (·.segId)))
  | ["xu"] => some (.startMergeExplicit (s.st.uncommitted.map (·.segId)))
  | ["xc"] => some (.startMergeExplicit (s.st.committed.map (·.segId)))
  | ["e"] => some .endMerge
  | _ => none

def traceRun (toks : List String) : Option (Sys × Abs) :=
  toks.foldlM (fun (p : Sys × Abs) tok => (parseEv p.1 tok).map fun ev => (p.1.stepG ev, p.2.step ev))
    (Sys.init, Abs.init)

def parseEvM (s : SysM) (tok : String) : Option EvM :=
  match tok.splitOn ":" with
  | ["a", docs] => (if docs == "-" then some [] else (docs.splitOn ",").mapM parseDocRec).map EvM.addSeg
  | ["d", k] => k.toNat?.map EvM.delete
  | ["c"] => some .commit
  | ["r"] => some .rollback
  | ["x"] => some .deleteAll
  | ["z"] => some .removeEmpty
  | ["mu"] => some (.startMerge (s.st.uncommitted.map (·.segId)))
  | ["mc"] => some (.startMerge (s.st.committed.map (·.segId)))
  | ["mu1"] => some (.startMerge ((s.st.uncommitted.map (·.segId)).drop 1))
  | ["mc1"] => some (.startMerge ((s.st.committed.map (·.segId)).drop 1))
  | ["xu"] => some (.startMergeExplicit (s.st.uncommitted.map (·.segId)))
  | ["xc"] => some (.startMergeExplicit (s.st.committed.map (·.segId)))
  | ["xc1"] => some (.startMergeExplicit ((s.st.committed.map (·.segId)).drop 1))
  | ["e", i] => i.toNat?.map EvM.endMerge
  | _ => none

def traceRunM (toks : List String) : Option (SysM × Abs) :=
  toks.foldlM (fun (p : SysM × Abs) tok => (parseEvM p.1 tok).map fun ev => (p.1.step ev, p.2.step ev.toEv))
    (SysM.init, Abs.init)

def handle : List String → String
  | ["dump", s] =>
    match parseSeg s with
    | some s => showLogical (dump s)
    | none => "bad-op"
  | "spec" :: ss =>
    match ss.mapM parseSeg with
    | some segs => showLogical (mergeSpec segs)
    | none => "bad-op"
  | "model" :: ss =>
    match ss.mapM parseSeg with
    | some segs =>
      showLogical (dump (mergeModel (mergeReaders segs))) ++ "/" ++
        showNatList ((mergedTerms (mergeReaders segs)).map (·.2.1))
    | none => "bad-op"
  | "table" :: ss =>
    match ss.mapM parseSeg with
    | some segs =>
      let tbl := newToOld segs
      (if tbl.isEmpty then "-" else ",".intercalate (tbl.map fun a => toString a.1 ++ ":" ++ toString a.2))
        ++ "/" ++ (if segs.any (fun s => hasDeletes s.alive) then "stacked-with-deletes" else "stacked")
    | none => "bad-op"
  | "store" :: bits :: ss =>
    match parseAlive bits, ss.mapM parseSeg with
    | some bits, some segs => showNatList (mergedStore (fun i => bits.getD i false) 0 segs)
    | _, _ => "bad-op"
  | "trace" :: toks =>
    match traceRun toks with
    | some (s, a) =>
      "pub=" ++ showNatList (sortNat (publishedUids s.st)) ++ "/pend=" ++
        showNatList (sortNat ((pendDocs s.st).map (·.uid))) ++ "/abs=" ++
        showNatList (sortNat (a.pub.map (·.uid))) ++ "/abspend=" ++ showNatList (sortNat (a.pend.map (·.uid)))
    | none => "bad-op"
  | "shuffled" :: tbl :: ss =>
    -- the merge through an arbitrary new→old table `s:d,s:d,…` (sorted-index merges)
    let parseAddr (t : String) : Option (Nat × Nat) :=
      match t.splitOn ":" with
      | [a, b] => match a.toNat?, b.toNat? with
        | some a, some b => some (a, b)
        | _, _ => none
      | _ => none
    match (if tbl == "-" then some [] else (tbl.splitOn ",").mapM parseAddr), ss.mapM parseSeg with
    | some tbl, some segs =>
      -- the doc store goes through per-source iterators (`storeIter`); it must deliver the
      -- documents the table asks for
      match storeIter (storeIters segs) tbl with
      | none => "store-iterator-ran-dry"
      | some ds =>
        if ds != shuffledDocs segs tbl then "store-iterator-differs" else
        showLogical { docs := shuffledDocs segs tbl,
                      terms := dropEmpty ((allKeys segs).map fun k => (k, shuffledPostings segs tbl k)) }
    | _, _ => "bad-op"
  | "tracem" :: toks =>
    match traceRunM toks with
    | some (s, a) =>
      "pub=" ++ showNatList (sortNat (publishedUids s.st)) ++ "/pend=" ++
        showNatList (sortNat ((pendDocs s.st).map (·.uid))) ++ "/abs=" ++
        showNatList (sortNat (a.pub.map (·.uid))) ++ "/running=" ++ toString s.running.length
    | none => "bad-op"
  | "sm" :: evs =>
    match smRun evs with
    | some s => "pub=" ++ showNatList (sortNat (publishedUids s.st)) ++ "/pend=" ++
        showNatList (sortNat (pendingUids s.st (s.st.queue.foldl (fun m op => max m op.opstamp) s.st.committedOpstamp)))
    | none => "bad-op"
  | _ => "bad-op"

end TantivyModel.Driver.C04
