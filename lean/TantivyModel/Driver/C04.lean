import TantivyModel.Driver.Proto
namespace TantivyModel.Driver.C04
/-- stub: the model for C04 is not built yet -/
def handle : List String → String
  | _ => "bad-op"
end TantivyModel.Driver.C04
