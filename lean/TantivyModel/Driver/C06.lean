import TantivyModel.Driver.Proto
namespace TantivyModel.Driver.C06
/-- stub: the model for C06 is not built yet -/
def handle : List String → String
  | _ => "bad-op"
end TantivyModel.Driver.C06
