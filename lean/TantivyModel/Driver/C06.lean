import TantivyModel.Driver.Proto
import TantivyModel.Model.TopN
import TantivyModel.Model.Wand
import TantivyModel.Model.BlockWand
import TantivyModel.Model.LazyKey
/-!
Line protocol of the C06 model. Keys travel as integers (the harness maps real keys to ranks
that preserve the comparator's order), addresses as naturals.

* `topn <K> <order> <sel> <keys> <addrs>` — `TopNComputer`: pushes `(key_i, addr_i)` in the given
  order; answer `k@a,…|t0,t1,…|panic` (sorted vec, threshold after every push, panic flag).
  `order`: `desc` (NaturalComparator) | `asc` (ReverseComparator); `sel`: `sorted` | `reversed`.
* `topk <K> <O> <order> <keys> <addrs>` — the specification.
* `search <K> <O> <order> <sel> <keys> <addrs> <segment lengths>` — per-segment collection,
  `merge_top_k`, offset (generic sort key path).
* `scoresearch <K> <O> <keys> <addrs> <segment lengths>` — per-segment `TopNHeap` + merge.
* `wand1 <policy> <arg> <initial> <blocks>` — `block_wand_single_scorer` on one term's postings:
  blocks `bm:doc@score,doc@score;bm:…` (scores, bounds and thresholds as order-preserving
  naturals), callback policy `kth <K>` | `stair 0` | `const <θ>`; answer: the documents offered
  to the callback, `|`, the final threshold.
* `bwand <policy> <arg bits> <initial bits> <scorers>` — the mirrored `block_wand` loop in Float32:
  scorers separated by `/`, each `max;tailMax;tailLoaded;cost;last:bm,…;doc@score,…` (floats as bit
  patterns, `-` for an empty list); answer `ok|doc@scorebits,…|threshold bits`, `assert` or `fuel`.
* `binter …` — the same for `block_wand_intersection`.
-/
namespace TantivyModel.Driver.C06
open TantivyModel TantivyModel.Proto TantivyModel.TopN

def gtOf : String → Option (Int → Int → Bool)
  | "desc" => some (fun a b => decide (b < a))
  | "asc" => some (fun a b => decide (a < b))
  | _ => none

def selOf (gt : Int → Int → Bool) (K : Nat) : String → Option (List (Entry Int) → List (Entry Int))
  | "sorted" => some (selSorted gt)
  | "reversed" => some (selReversed gt K)
  | _ => none

def entries (keys : List Int) (addrs : List Nat) : Option (List (Entry Int)) :=
  if keys.length = addrs.length then some (List.zipWith (fun k a => ⟨k, a⟩) keys addrs) else none

def showEntries (l : List (Entry Int)) : String :=
  if l.isEmpty then "-" else ",".intercalate (l.map fun e => s!"{e.key}@{e.addr}")

def showThr : Option Int → String
  | none => "n"
  | some t => toString t

def splitSegs : List (Entry Int) → List Nat → Option (List (List (Entry Int)))
  | [], [] => some []
  | _ :: _, [] => none
  | l, n :: ns =>
    if n ≤ l.length then (splitSegs (l.drop n) ns).map (fun r => l.take n :: r) else none

/-- per-segment `TopNHeap`, fruits in heap (here: sorted) order, then `merge_top_k` -/
def scoreSearch (gt : Int → Int → Bool) (_sel : List (Entry Int) → List (Entry Int)) (K O : Nat)
    (segs : List (List (Entry Int))) : List (Entry Int) :=
  mergeTopK gt K O (segs.map fun d => (d.foldl (heapPush gt) (Heap.new (O + K))).heap)

/-- callback policies of the correspondence run (thresholds never decrease) -/
structure CbState where
  best : List Nat := []
  θ : Nat
  calls : List Nat := []

def cbOf (policy : String) (arg : Nat) (s : CbState) (d sc : Nat) : CbState × Nat :=
  let θ' := match policy with
    | "kth" =>
      let best := (TopN.isort (fun a b => decide (b ≤ a)) (sc :: s.best)).take arg
      if best.length = arg then Nat.max s.θ (best.getLast?.getD s.θ) else s.θ
    | "stair" => Nat.max s.θ sc
    | _ => Nat.max s.θ arg
  let best := if policy == "kth" then (TopN.isort (fun a b => decide (b ≤ a)) (sc :: s.best)).take arg else s.best
  ({ best := best, θ := θ', calls := s.calls ++ [d] }, θ')

def parseBlock (s : String) : Option (Wand.Block Nat) :=
  match s.splitOn ":" with
  | [bm, docs] =>
    match bm.toNat?, (if docs == "" then some [] else (docs.splitOn ",").mapM fun e =>
        match e.splitOn "@" with
        | [d, sc] => match d.toNat?, sc.toNat? with
          | some d, some sc => some (d, sc)
          | _, _ => none
        | _ => none) with
    | some bm, some ds => some { docs := ds, blockMax := bm }
    | _, _ => none
  | _ => none

/-! ### the mirrored multi-scorer loops, in Float32 -/

def f32? (s : String) : Option Float32 :=
  s.toNat?.bind fun n => if n < 4294967296 then some (Float32.ofBits (UInt32.ofNat n)) else none

structure FCb where
  best : List Float32 := []
  θ : Float32
  calls : List (Nat × Float32) := []

def fmax (a b : Float32) : Float32 := if a < b then b else a

/-- the callback policies of the harness (thresholds never decrease) -/
def fcbOf (policy : String) (arg : Float32) (k : Nat) (s : FCb) (d : Nat) (sc : Float32) : FCb × Float32 :=
  let best := if policy == "kth" then (TopN.isort (fun a b => decide (b ≤ a)) (sc :: s.best)).take k else s.best
  let θ' := match policy with
    | "kth" => if best.length = k then fmax (best.getLast?.getD s.θ) s.θ else s.θ
    | "stair" => fmax sc s.θ
    | _ => fmax arg s.θ
  ({ best := best, θ := θ', calls := s.calls ++ [(d, sc)] }, θ')

def parsePairs (s : String) : Option (List (Nat × Float32)) :=
  if s == "-" then some [] else (s.splitOn ",").mapM fun e =>
    match e.splitOn "@" with
    | [d, sc] => match d.toNat?, f32? sc with
      | some d, some sc => some (d, sc)
      | _, _ => none
    | _ => none

def parseBlocksF (s : String) : Option (List (Nat × Float32)) :=
  if s == "-" then some [] else (s.splitOn ",").mapM fun e =>
    match e.splitOn ":" with
    | [d, sc] => match d.toNat?, f32? sc with
      | some d, some sc => some (d, sc)
      | _, _ => none
    | _ => none

def parseScorer (s : String) : Option (BlockWand.TS Float32) :=
  match s.splitOn ";" with
  | [mx, tm, tl, cost, blocks, posts] =>
    match f32? mx, f32? tm, cost.toNat?, parseBlocksF blocks, parsePairs posts with
    | some mx, some tm, some cost, some bs, some ps =>
      some { rest := ps, maxScore := mx, blocks := bs, skip := 0, tailMax := tm, tailLoaded := tl == "1", cost := cost }
    | _, _, _, _, _ => none
  | _ => none

def showCalls (st : FCb) (θ : Float32) : String :=
  "ok|" ++ (if st.calls.isEmpty then "-" else ",".intercalate (st.calls.map fun c => s!"{c.1}@{c.2.toBits.toNat}"))
    ++ "|" ++ toString θ.toBits.toNat

/-! ### lazy acceptance of tuple sort keys -/

/-- a component compared through its comparator = natural comparison of ranks -/
def lazyLeaf : Nat → Nat → Option (Ordering × Nat) := TopN.acceptLeaf (fun a b => compare a b)

def showAccept {κ : Type} : Option (Ordering × κ) → String
  | none => "none"
  | some (.lt, _) => "lt"
  | some (.eq, _) => "eq"
  | some (.gt, _) => "gt"

/-- the chains the tuple shapes of the harness stand for (3- and 4-tuples are `(a, (b, (c, d)))`
behind the forwarding adapter) -/
def lazyAccept (shape : Nat) (k t : List Nat) : String :=
  let g (l : List Nat) (i : Nat) : Nat := l.getD i 0
  match shape with
  | 0 => showAccept (TopN.acceptPair lazyLeaf (TopN.acceptPair lazyLeaf lazyLeaf) (g k 0, (g k 1, g k 2)) (g t 0, (g t 1, g t 2)))
  | 1 | 3 => showAccept (TopN.acceptPair lazyLeaf (TopN.acceptPair lazyLeaf (TopN.acceptPair lazyLeaf lazyLeaf))
      (g k 0, (g k 1, (g k 2, g k 3))) (g t 0, (g t 1, (g t 2, g t 3))))
  | 2 => showAccept (TopN.acceptPair (TopN.acceptPair lazyLeaf (TopN.acceptPair lazyLeaf lazyLeaf)) lazyLeaf
      ((g k 0, (g k 1, g k 2)), g k 3) ((g t 0, (g t 1, g t 2)), g t 3))
  | _ => showAccept (TopN.acceptPair (TopN.acceptPair lazyLeaf lazyLeaf) (TopN.acceptPair lazyLeaf lazyLeaf)
      ((g k 0, g k 1), (g k 2, g k 3)) ((g t 0, g t 1), (g t 2, g t 3)))

/-- the same on the optional keys themselves, every component under the comparator its `Order`
turns into (`ofOrder`): `n` = None -/
def optList (s : String) : Option (List (Option Nat)) :=
  (s.splitOn ",").mapM fun t => if t == "n" then some none else t.toNat?.map some

def lazyAccept2 (shape : Nat) (asc : List Bool) (k t : List (Option Nat)) : String :=
  let g (l : List (Option Nat)) (i : Nat) : Option Nat := l.getD i none
  let leaf (i : Nat) : Option Nat → Option Nat → Option (Ordering × Option Nat) :=
    TopN.acceptLeaf (TopN.ofOrder (asc.getD i false) (fun a b : Nat => compare a b))
  match shape with
  | 0 => showAccept (TopN.acceptPair (leaf 0) (TopN.acceptPair (leaf 1) (leaf 2)) (g k 0, (g k 1, g k 2)) (g t 0, (g t 1, g t 2)))
  | 1 | 3 => showAccept (TopN.acceptPair (leaf 0) (TopN.acceptPair (leaf 1) (TopN.acceptPair (leaf 2) (leaf 3)))
      (g k 0, (g k 1, (g k 2, g k 3))) (g t 0, (g t 1, (g t 2, g t 3))))
  | 2 => showAccept (TopN.acceptPair (TopN.acceptPair (leaf 0) (TopN.acceptPair (leaf 1) (leaf 2))) (leaf 3)
      ((g k 0, (g k 1, g k 2)), g k 3) ((g t 0, (g t 1, g t 2)), g t 3))
  | _ => showAccept (TopN.acceptPair (TopN.acceptPair (leaf 0) (leaf 1)) (TopN.acceptPair (leaf 2) (leaf 3))
      ((g k 0, g k 1), (g k 2, g k 3)) ((g t 0, g t 1), (g t 2, g t 3)))

def handle : List String → String
  | ["lazyacc2", shape, asc, keys, thr] =>
    match shape.toNat?, optList keys, optList thr with
    | some sh, some k, some t => lazyAccept2 sh (asc.toList.map (· == '1')) k t
    | _, _, _ => "bad-op"
  | ["lazyacc", shape, keys, thr] =>
    match shape.toNat?, natList keys, natList thr with
    | some sh, some k, some t => lazyAccept sh k t
    | _, _, _ => "bad-op"
  | ["bwand", policy, arg, initial, scorers] =>
    match f32? arg, f32? initial, (scorers.splitOn "/").mapM parseScorer with
    | some arg, some θ0, some ss =>
      if policy == "kth" ∨ policy == "stair" ∨ policy == "const" then
        let k := if policy == "kth" then arg.toBits.toNat else 0
        let fuel := (ss.map (·.rest.length)).sum * 4 + 16
        match BlockWand.blockWand (fcbOf policy arg k) fuel (({ θ := θ0 } : FCb), θ0) ss with
        | .ok (st, θ) => showCalls st θ
        | .assertFailed => "assert"
        | .skipAhead => "skip-ahead"
        | .outOfFuel => "fuel"
      else "bad-op"
    | _, _, _ => "bad-op"
  | ["binter", policy, arg, initial, scorers] =>
    match f32? arg, f32? initial, (scorers.splitOn "/").mapM parseScorer with
    | some arg, some θ0, some ss =>
      if policy == "kth" ∨ policy == "stair" ∨ policy == "const" then
        let k := if policy == "kth" then arg.toBits.toNat else 0
        let fuel := (ss.map (·.rest.length)).sum * 2 + (ss.map (·.blocks.length)).sum * 2 + 16
        match BlockWand.blockWandInter (fcbOf policy arg k) fuel (({ θ := θ0 } : FCb), θ0) ss with
        | .ok (st, θ) => showCalls st θ
        | .assertFailed => "assert"
        | .skipAhead => "skip-ahead"
        | .outOfFuel => "fuel"
      else "bad-op"
    | _, _, _ => "bad-op"
  | ["wand1", policy, arg, initial, blocks] =>
    match arg.toNat?, initial.toNat?, (if blocks == "-" then some [] else (blocks.splitOn ";").mapM parseBlock) with
    | some arg, some θ0, some bs =>
      if policy == "kth" ∨ policy == "stair" ∨ policy == "const" then
        let gt : Nat → Nat → Bool := fun a b => decide (b < a)
        let (st, θ) := Wand.wandSingle gt (cbOf policy arg) ({ θ := θ0 }, θ0) bs
        showNatList st.calls ++ "|" ++ toString θ
      else "bad-op"
    | _, _, _ => "bad-op"
  | ["topn", k, order, sel, keys, addrs] =>
    match k.toNat?, gtOf order, intList keys, natList addrs with
    | some K, some gt, some ks, some as =>
      match selOf gt K sel, entries ks as with
      | some sel, some es =>
        let step := fun (st : Computer Int × List String) e =>
          let c := push gt sel st.1 e
          (c, showThr c.threshold :: st.2)
        let (c, trace) := es.foldl step (Computer.new K, [])
        let vec := intoSortedVec gt sel c
        showEntries vec ++ "|" ++ (if trace.isEmpty then "-" else ",".intercalate trace.reverse)
          ++ "|" ++ showBool c.panicked
      | _, _ => "bad-op"
    | _, _, _, _ => "bad-op"
  | ["topk", k, o, order, keys, addrs] =>
    match k.toNat?, o.toNat?, gtOf order, intList keys, natList addrs with
    | some K, some O, some gt, some ks, some as =>
      match entries ks as with
      | some es => showEntries (topK (le gt) K O es)
      | none => "bad-op"
    | _, _, _, _, _ => "bad-op"
  | ["search", k, o, order, sel, keys, addrs, lens] =>
    match k.toNat?, o.toNat?, gtOf order, intList keys, natList addrs, natList lens with
    | some K, some O, some gt, some ks, some as, some ls =>
      match selOf gt (O + K) sel, (entries ks as).bind (splitSegs · ls) with
      | some sel, some segs => showEntries (search gt sel K O segs)
      | _, _ => "bad-op"
    | _, _, _, _, _, _ => "bad-op"
  | ["scoresearch", k, o, sel, keys, addrs, lens] =>
    match k.toNat?, o.toNat?, gtOf "desc", intList keys, natList addrs, natList lens with
    | some K, some O, some gt, some ks, some as, some ls =>
      match selOf gt (O + K) sel, (entries ks as).bind (splitSegs · ls) with
      | some sel, some segs => showEntries (scoreSearch gt sel K O segs)
      | _, _ => "bad-op"
    | _, _, _, _, _, _ => "bad-op"
  | _ => "bad-op"

end TantivyModel.Driver.C06
