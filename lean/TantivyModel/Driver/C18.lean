import TantivyModel.Driver.Proto
import TantivyModel.Model.Lock
import TantivyModel.Model.LockFile
/-!
Line protocol of the writer-lock model (C18).

`run <ev>,<ev>,…`  events from the initial state; response `<out>,<out>,…|<held>|<id>:<killed>:<owns>;…`
  small steps : `a<t>` acquire · `n<t>:<argsOk>:<newOk>` construct · `t<w>` rollbackTake ·
                `f<w>:<newOk>` rollbackNew · `d<w>` drop · `m<w>` wait_merging_threads · `k<w>` kill
  whole calls : `c<t>:<argsOk>:<newOk>` Index::writer… · `r<w>:<newOk>` rollback
`argsok <budgetPerThread> <numThreads>`  the argument guards of IndexWriter::new → `0`/`1`
-/
namespace TantivyModel.Driver.C18
open TantivyModel TantivyModel.Proto TantivyModel.Lock

inductive DEv where
  | small (e : Ev)
  | create (t : Nat) (a n : Bool)
  | rollback (w : Nat) (n : Bool)

def dstep (s : St) : DEv → St × Out
  | .small e => step s e
  | .create t a n => create s t a n
  | .rollback w n =>
    -- a failing rollback: which event it is depends on the extracted order inside `rollback`
    if !n && Gen.ROLLBACK_TAKES_GUARD_AFTER_NEW == 1 then step s (.rollbackFailedEarly w)
    else rollback s w n

def showOut : Out → String
  | .ok w => "ok" ++ toString w
  | .lockBusy => "busy"
  | .invalidArg => "invalid"
  | .ioErr => "io"
  | .done => "done"
  | .panic => "panic"
  | .stuck => "stuck"

def bit? (s : String) : Option Bool :=
  if s == "1" then some true else if s == "0" then some false else none

def parseEv (tok : String) : Option DEv :=
  match tok.toList with
  | [] => none
  | c :: rest =>
    let parts := (String.ofList rest).splitOn ":"
    match c, parts with
    | 'a', [t] => t.toNat?.map (fun t => .small (.acquire t))
    | 'n', [t, a, n] => do pure (.small (.construct (← t.toNat?) (← bit? a) (← bit? n)))
    | 't', [w] => w.toNat?.map (fun w => .small (.rollbackTake w))
    | 'f', [w, n] => do pure (.small (.rollbackNew (← w.toNat?) (← bit? n)))
    | 'd', [w] => w.toNat?.map (fun w => .small (.drop w))
    | 'm', [w] => w.toNat?.map (fun w => .small (.wait w))
    | 'k', [w] => w.toNat?.map (fun w => .small (.kill w))
    | 'c', [t, a, n] => do pure (.create (← t.toNat?) (← bit? a) (← bit? n))
    | 'r', [w, n] => do pure (.rollback (← w.toNat?) (← bit? n))
    | _, _ => none

def runD (s : St) : List DEv → St × List Out
  | [] => (s, [])
  | e :: es =>
    let r := dstep s e
    let rest := runD r.1 es
    (rest.1, r.2 :: rest.2)

def showState (s : St) : String :=
  showBool s.held ++ "|" ++
  (if s.writers.isEmpty then "-" else
    ";".intercalate (s.writers.map (fun x =>
      toString x.id ++ ":" ++ showBool x.killed ++ ":" ++ showBool (s.guards.contains (.writer x.id)))))

/-- lock-file protocol (`Model/LockFile.lean`, shape of the code as extracted): `o<t>` open_write ·
`g<t>` guard built · `x` a guard dropped. Response `<out>,…|<file 0/1>|<holders>` -/
def parseLF (tok : String) : Option LockFile.Ev :=
  match tok.toList with
  | ['x'] => some .dropGuard
  | 'o' :: rest => (String.ofList rest).toNat?.map .openWrite
  | 'g' :: rest => (String.ofList rest).toNat?.map .mkGuard
  | _ => none

def showLF : LockFile.Out → String
  | .acquired => "acquired" | .refused => "refused" | .done => "done" | .stuck => "stuck"

def handle : List String → String
  | ["lockfile", evs] =>
    match (if evs == "-" then some [] else (evs.splitOn ",").mapM parseLF) with
    | some es =>
      let r := LockFile.run LockFile.codeShape LockFile.init es
      (if r.2.isEmpty then "-" else ",".intercalate (r.2.map showLF)) ++ "|" ++ showBool r.1.file ++ "|" ++
        toString (LockFile.holders r.1)
    | none => "bad-op"
  | ["run", evs] =>
    let toks := if evs == "-" then [] else evs.splitOn ","
    match toks.mapM parseEv with
    | some es =>
      let r := runD init es
      (if r.2.isEmpty then "-" else ",".intercalate (r.2.map showOut)) ++ "|" ++ showState r.1
    | none => "bad-op"
  | ["argsok", b, n] =>
    match b.toNat?, n.toNat? with
    | some b, some n => showBool (argsOk b n)
    | _, _ => "bad-op"
  | _ => "bad-op"

end TantivyModel.Driver.C18
