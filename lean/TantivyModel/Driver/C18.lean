import TantivyModel.Driver.Proto
namespace TantivyModel.Driver.C18
/-- stub: the model for C18 is not built yet -/
def handle : List String → String
  | _ => "bad-op"
end TantivyModel.Driver.C18
