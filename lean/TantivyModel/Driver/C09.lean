import TantivyModel.Driver.Proto
import TantivyModel.Model.Store.Store
import TantivyModel.Model.Store.Version
import TantivyModel.Model.Store.VInt32
import TantivyModel.Model.Store.JsonNumber
import TantivyModel.Model.Store.DocPath
import TantivyModel.Model.Store.Framing
import TantivyModel.Model.Store.Utf8
import TantivyModel.Model.Store.Lz4
/-!
Line protocol of the C09 model (doc store). Compression is `none` in every whole-file request
(the harness feeds lz4/zstd stores block-wise after decompressing with the real codec).

Canonical text of a value (no spaces):
  `N` null, `S<hex>` str, `U<n>` u64, `I<n>` i64 bits, `F<n>` f64 disk bits, `B0|B1`, `D<n>` date bits,
  `C<hex>` facet, `Y<hex>` bytes, `P<n>` ip as u128, `T<hex>` pre-tokenized json,
  `A[v,v,…]`, `O{<hex>:v,…}`;   a document is `<field>=v;<field>=v;…` (`-` when empty).
-/
namespace TantivyModel.Driver.C09
open TantivyModel TantivyModel.Proto TantivyModel.Store

/-! ### canonical text -/

mutual
partial def showValue : StoredValue → String
  | .null => "N"
  | .str b => "S" ++ hexOfBytes b
  | .u64 v => "U" ++ toString v.toNat
  | .i64 v => "I" ++ toString v.toNat
  | .f64 v => "F" ++ toString v.toNat
  | .bool b => if b then "B1" else "B0"
  | .date v => "D" ++ toString v.toNat
  | .facet b => "C" ++ hexOfBytes b
  | .bytes b => "Y" ++ hexOfBytes b
  | .ip v => "P" ++ toString v.toNat
  | .preTok j => "T" ++ hexOfBytes j
  | .array vs => "A[" ++ ",".intercalate (vs.map showValue) ++ "]"
  | .object es => "O{" ++ ",".intercalate (es.map fun (k, v) => hexOfBytes k ++ ":" ++ showValue v) ++ "}"
end

def showDoc (d : StoredDoc) : String :=
  if d.isEmpty then "-" else ";".intercalate (d.map fun (f, v) => toString f.toNat ++ "=" ++ showValue v)

def isHexChar (c : Char) : Bool := c.isDigit || ('a' ≤ c && c ≤ 'f') || c == '-'

def spanChars (p : Char → Bool) : List Char → List Char × List Char
  | [] => ([], [])
  | c :: cs => if p c then let (a, b) := spanChars p cs; (c :: a, b) else ([], c :: cs)

def parseHexTok (cs : List Char) : Option (Bytes × List Char) :=
  let (h, r) := spanChars isHexChar cs
  (bytesOfHex (String.ofList h)).map fun b => (b, r)

def parseNatTok (cs : List Char) : Option (Nat × List Char) :=
  let (h, r) := spanChars Char.isDigit cs
  (String.ofList h).toNat?.map fun n => (n, r)

mutual
partial def parseValue : List Char → Option (StoredValue × List Char)
  | 'N' :: r => some (.null, r)
  | 'S' :: r => (parseHexTok r).map fun (b, r) => (.str b, r)
  | 'U' :: r => (parseNatTok r).bind fun (n, r) => if n < 2 ^ 64 then some (.u64 (BitVec.ofNat 64 n), r) else none
  | 'I' :: r => (parseNatTok r).bind fun (n, r) => if n < 2 ^ 64 then some (.i64 (BitVec.ofNat 64 n), r) else none
  | 'F' :: r => (parseNatTok r).bind fun (n, r) => if n < 2 ^ 64 then some (.f64 (BitVec.ofNat 64 n), r) else none
  | 'D' :: r => (parseNatTok r).bind fun (n, r) => if n < 2 ^ 64 then some (.date (BitVec.ofNat 64 n), r) else none
  | 'P' :: r => (parseNatTok r).bind fun (n, r) => if n < 2 ^ 128 then some (.ip (BitVec.ofNat 128 n), r) else none
  | 'B' :: '0' :: r => some (.bool false, r)
  | 'B' :: '1' :: r => some (.bool true, r)
  | 'C' :: r => (parseHexTok r).map fun (b, r) => (.facet b, r)
  | 'Y' :: r => (parseHexTok r).map fun (b, r) => (.bytes b, r)
  | 'T' :: r => (parseHexTok r).map fun (b, r) => (.preTok b, r)
  | 'A' :: '[' :: ']' :: r => some (.array [], r)
  | 'A' :: '[' :: r => (parseValues r).map fun (vs, r) => (.array vs, r)
  | 'O' :: '{' :: '}' :: r => some (.object [], r)
  | 'O' :: '{' :: r => (parseEntries r).map fun (es, r) => (.object es, r)
  | _ => none
partial def parseValues (cs : List Char) : Option (List StoredValue × List Char) :=
  (parseValue cs).bind fun (v, r) =>
    match r with
    | ',' :: r => (parseValues r).map fun (vs, r) => (v :: vs, r)
    | ']' :: r => some ([v], r)
    | _ => none
partial def parseEntries (cs : List Char) : Option (List (Bytes × StoredValue) × List Char) :=
  (parseHexTok cs).bind fun (k, r) =>
    match r with
    | ':' :: r =>
      (parseValue r).bind fun (v, r) =>
        match r with
        | ',' :: r => (parseEntries r).map fun (es, r) => ((k, v) :: es, r)
        | '}' :: r => some ([(k, v)], r)
        | _ => none
    | _ => none
end

partial def parseFields (cs : List Char) : Option StoredDoc :=
  (parseNatTok cs).bind fun (f, r) =>
    if f ≥ 2 ^ 32 then none else
    match r with
    | '=' :: r =>
      (parseValue r).bind fun (v, r) =>
        match r with
        | [] => some [(BitVec.ofNat 32 f, v)]
        | ';' :: r => (parseFields r).map fun d => (BitVec.ofNat 32 f, v) :: d
        | _ => none
    | _ => none

def parseDoc (s : String) : Option StoredDoc :=
  if s == "-" then some [] else parseFields s.toList

/-! ### small helpers -/

def showCp (c : Checkpoint) : String :=
  s!"{c.docStart}-{c.docEnd}-{c.byteStart}-{c.byteEnd}"

def showOptBytes : Option Bytes → String
  | none => "err"
  | some b => hexOfBytes b

def joinOr (l : List String) : String := if l.isEmpty then "-" else ",".intercalate l

/-- contiguous checkpoints from 0 with the given doc counts and byte lengths -/
def mkCheckpoints : Nat → Nat → List Nat → List Nat → List Checkpoint
  | d, b, dl :: dls, bl :: bls =>
    { docStart := d, docEnd := d + dl, byteStart := b, byteEnd := b + bl } :: mkCheckpoints (d + dl) (b + bl) dls bls
  | _, _, _, _ => []

def hexList (s : String) : Option (List Bytes) :=
  if s == "-" then some [] else (s.splitOn ",").mapM bytesOfHex

def aliveOf (bits : String) : Nat → Bool :=
  let arr := bits.toList.toArray
  fun i => if bits == "all" then true else arr.getD i '0' == '1'

def K : Nat := Gen.STORE_INDEX_ENTRY_COST
def P : Nat := Gen.CHECKPOINT_PERIOD

def parseSeg (s : String) : Option SourceSegment :=
  match s.splitOn ":" with
  | [fileHex, bits] =>
    (bytesOfHex fileHex).bind fun file => (openStore file).map fun sf =>
      -- the segment as `open_with_custom_alive_set` presents it: `has_deletes()` is computed from
      -- the alive set over `max_doc` documents
      let maxDoc := ((checkpointsOf sf.index).getLast?.map (·.docEnd)).getD 0
      SourceSegment.ofReader sf Compression.none none (if bits == "all" then none else some (aliveOf bits)) maxDoc
  | _ => none

def handle : List String → String
  | ["consts"] =>
    -- the extracted constants the harness derives its boundary values from
    s!"{Gen.CHECKPOINT_PERIOD} {Gen.DEFAULT_DOCSTORE_BLOCKSIZE} {Gen.DOCSTORE_CACHE_CAPACITY} {Gen.STORE_INDEX_ENTRY_COST} {Gen.STACK_MIN_BLOCKS} {Gen.DOCSTORE_FOOTER_LEN}"
  | ["vintenc", n] =>
    match n.toNat? with
    | some n => hexOfBytes (vintEnc n)
    | none => "bad-op"
  | ["ops", cap, fh, spec] =>
    -- a mix of `get_document_bytes` (`g<doc>`) and `iter_raw` (`i<alive bits>`, `iall`) on one reader,
    -- all through its block cache: statistics, and whether every answer equals the uncached one
    let parseOp (t : String) : Option ReaderOp :=
      match t.toList with
      | 'g' :: r => (String.ofList r).toNat?.map ReaderOp.get
      | 'i' :: r => if String.ofList r == "all" then some (.iter []) else some (.iter (r.map (· == '1')))
      | _ => none
    match cap.toNat?, bytesOfHex fh, (spec.splitOn ";").mapM parseOp with
    | some cap, some file, some ops =>
      match openStore file with
      | some sf =>
        let r := runOps Compression.none sf (BlockCache.new cap) ops
        let plain := ops.map (ReaderOp.plain Compression.none sf)
        s!"{r.2.hits}/{r.2.misses}/{r.2.entries.length}/{showBool (r.1 == plain)}"
      | none => "err"
    | _, _, _ => "bad-op"
  | ["docdecs", h] =>
    -- deserialization with the UTF-8 check of `read_to_string`
    match bytesOfHex h with
    | some bs =>
      match deserializeDocStrict bs with
      | some d => showDoc d
      | none => "err"
    | none => "bad-op"
  | ["lz4dec", h] =>
    match bytesOfHex h with
    | some bs => showOptBytes (lz4Decode bs)
    | none => "bad-op"
  | ["getlz4", fh, ds] =>
    -- the model reader on a store written with `Compressor::Lz4` (frame + LZ4 block decoder)
    match bytesOfHex fh, natList ds with
    | some file, some ds =>
      match openStore file with
      | some sf => joinOr (ds.map fun d => showOptBytes (getBytes lz4Compression sf d))
      | none => "err"
    | _, _ => "bad-op"
  | ["cdfield", f] =>
    match f.toNat? with
    | some f => if f ≥ 4294967296 then "bad-op" else
      match cdAddDocChecked [] [(BitVec.ofNat 32 f, .null)] with
      | some _ => "ok"
      | none => "panic"
    | none => "bad-op"
  | ["mergemapped", bs, segs, order] =>
    -- `write_storable_fields` with a non-trivial doc-id mapping: for every new doc the ordinal of
    -- the source segment whose next live document is taken
    match bs.toNat?, (segs.splitOn ";").mapM parseSeg, natList order with
    | some bs, some segs, some order =>
      let its := segs.map fun s => iterRaw s.codec s.store s.alive
      match mergeMapped Compression.none K (Writer.new bs) its order with
      | some w => hexOfBytes (w.close Compression.none P)
      | none => "err"
    | _, _, _ => "bad-op"
  | ["frame", lens] =>
    -- the 4-byte header lz4 / zstd blocks start with, for a block of documents of these lengths
    match natList lens with
    | some ls => hexOfBytes (u32le (blockLenOf ls))
    | none => "bad-op"
  | ["cdoc", t] =>
    -- `CompactDoc::add_field_value` of one value (canonical text, on-disk reading of floats) into an
    -- empty document: node_data, the address, and the value read back (written as on disk)
    match parseValue t.toList with
    | some (d, []) =>
      let m := diskToMem d
      let r := cdAdd [] m
      let back := match cdRead (r.1.length + 2) r.1 r.2 with
        | some v => showValue (memToDisk v)
        | none => "err"
      s!"{hexOfBytes r.1}|{r.2.ty}:{r.2.addr}|{back}"
    | _ => "bad-op"
  | ["jsonnum", n] =>
    -- how an integer of a JSON document is typed (canonical prefix of the stored value)
    match n.toInt? with
    | some n =>
      if n < -9223372036854775808 ∨ n > 18446744073709551615 then "F" else
      match jsonNumber n with
      | some (.int64 v) => s!"I{(BitVec.ofInt 64 v).toNat}"
      | some (.uint64 v) => s!"U{v}"
      | some .float => "F"
      | none => "panic"
    | none => "bad-op"
  | ["vint32enc", n] =>
    match n.toNat? with
    | some n => if n < 4294967296 then hexOfBytes (serializeVintU32 n) else "bad-op"
    | none => "bad-op"
  | ["vint32dec", h] =>
    match bytesOfHex h with
    | some bs =>
      match readU32Vint bs with
      | some (v, n) => s!"{v}:{n}"
      | none => "err"
    | none => "bad-op"
  | ["cdbytes", len] =>
    -- `write_bytes_into` for `len` zero bytes: the prefix, and what `binary_deserialize_bytes` gets back
    match len.toNat? with
    | some len =>
      if len > 5000000 then "bad-op" else
      let w := cdWriteBytes (List.replicate len 0)
      s!"{hexOfBytes (w.take (w.length - len))}:{((cdReadBytes w).map List.length).getD 4294967296}"
    | none => "bad-op"
  | ["vintdec", h] =>
    match bytesOfHex h with
    | some bs =>
      match vintDec bs with
      | some (n, r) => s!"{n}:{hexOfBytes r}"
      | none => "err"
    | none => "bad-op"
  | ["docdec", h] =>
    match bytesOfHex h with
    | some bs =>
      match deserializeDoc bs with
      | some d => showDoc d
      | none => "err"
    | none => "bad-op"
  | ["docdecv", v, h] =>
    -- a document as `StoreReader::get` returns it from a store of format version `v`
    match v.toNat?, bytesOfHex h with
    | some v, some bs =>
      match deserializeDocV v bs with
      | some d => showDoc d
      | none => "err"
    | _, _ => "bad-op"
  | ["docenc", t] =>
    match parseDoc t with
    | some d => hexOfBytes (encStoredDoc d)
    | none => "bad-op"
  | ["skipser", p, dls, bls] =>
    match p.toNat?, natList dls, natList bls with
    | some p, some dls, some bls =>
      if dls.length ≠ bls.length ∨ p < 2 then "bad-op"
      else hexOfBytes (serializeSkipIndex p (mkCheckpoints 0 0 dls bls))
    | _, _, _ => "bad-op"
  | ["skipseek", h, ts] =>
    match bytesOfHex h, natList ts with
    | some bs, some ts =>
      match openSkipIndex bs with
      | some idx => joinOr (ts.map fun t => match seek idx t with | some c => showCp c | none => "none")
      | none => "err"
    | _, _ => "bad-op"
  | ["skipcps", h] =>
    match bytesOfHex h with
    | some bs =>
      match openSkipIndex bs with
      | some idx => s!"{idx.length}|" ++ joinOr ((checkpointsOf idx).map showCp)
      | none => "err"
    | none => "bad-op"
  | ["write", bs, docs] =>
    match bs.toNat?, hexList docs with
    | some bs, some docs => hexOfBytes (writeStore Compression.none K P bs docs)
    | _, _ => "bad-op"
  | ["get", fh, ds] =>
    match bytesOfHex fh, natList ds with
    | some file, some ds =>
      match openStore file with
      | some sf => joinOr (ds.map fun d => showOptBytes (getBytes Compression.none sf d))
      | none => "err"
    | _, _ => "bad-op"
  | ["cache", cap, fh, ds] =>
    match cap.toNat?, bytesOfHex fh, natList ds with
    | some cap, some file, some ds =>
      match openStore file with
      | some sf =>
        let (rs, c) := runGets Compression.none sf (BlockCache.new cap) ds
        let plain := ds.map (getBytes Compression.none sf)
        s!"{c.hits}/{c.misses}/{c.entries.length}/{showBool (rs == plain)}|" ++ joinOr (rs.map showOptBytes)
      | none => "err"
    | _, _, _ => "bad-op"
  | ["cachesim", cap, keys] =>
    -- the LRU alone: `read_block` for a sequence of block start offsets (every load succeeds)
    match cap.toNat?, natList keys with
    | some cap, some keys =>
      let c := keys.foldl (fun (c : BlockCache) k =>
        match c.get k with
        | (some _, c') => c'
        | (none, c') => c'.put k []) (BlockCache.new cap)
      s!"{c.hits}/{c.misses}/{c.entries.length}"
    | _, _ => "bad-op"
  | ["filecps", fh] =>
    match bytesOfHex fh with
    | some file =>
      match openStore file with
      | some sf => joinOr ((checkpointsOf sf.index).map showCp)
      | none => "err"
    | none => "bad-op"
  | ["iter", fh, bits] =>
    match bytesOfHex fh with
    | some file =>
      match openStore file with
      | some sf => joinOr ((iterRaw Compression.none sf (aliveOf bits)).map showOptBytes)
      | none => "err"
    | none => "bad-op"
  | ["merge", bs, segs] =>
    match bs.toNat?, (segs.splitOn ";").mapM parseSeg with
    | some bs, some segs =>
      match mergeStores Compression.none K P Gen.STACK_MIN_BLOCKS bs segs with
      | some file => hexOfBytes file
      | none => "err"
    | _, _ => "bad-op"
  | _ => "bad-op"

end TantivyModel.Driver.C09
