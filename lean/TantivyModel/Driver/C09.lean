import TantivyModel.Driver.Proto
namespace TantivyModel.Driver.C09
/-- stub: the model for C09 is not built yet -/
def handle : List String → String
  | _ => "bad-op"
end TantivyModel.Driver.C09
