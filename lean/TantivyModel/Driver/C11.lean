import TantivyModel.Driver.Proto
namespace TantivyModel.Driver.C11
/-- stub: the model for C11 is not built yet -/
def handle : List String → String
  | _ => "bad-op"
end TantivyModel.Driver.C11
