import TantivyModel.Driver.Proto
import TantivyModel.Model.Faults
/-!
Line protocol of the fault model (C11).

`run <cap> <call>,<call>,…` — calls from the empty index (`cap` = the literal `cap` for the
extracted `PIPELINE_MAX_SIZE_IN_DOCS`, or a number); a call is `<c>` or `<c>:<ph>+<ph>…`
(the storage phases that hit a failing operation during that call):
  calls  : `n` Index::writer · `a<d>` add_document(d) · `c` commit · `r` rollback · `d` drop ·
           `m` merge(all).wait · `g` garbage_collect_files.wait · `l` reader reload ·
           `x` the operator removes an orphaned writer lock file · `w` wait_merging_threads
  phases : `lo` `lf` `ld` lock open/flush/delete · `cr` reads in IndexWriter::new · `wk` worker ·
           `pu` purge · `sm` save_metas · `gl` `gd` `gm` GC lock/delete/managed.json ·
           `mt` merge thread · `ep` `es` end_merge purge/save · `rl` reload ·
           `s2` `e2` the directory sync after the meta.json rename (commit / end_merge)
`cap` — the extracted capacity of the document channel (`PIPELINE_MAX_SIZE_IN_DOCS`)
response: `<res>,<res>,…|<content of meta.json as doc ids>|<stale lock 0/1>|<searcher content>`
-/
namespace TantivyModel.Driver.C11
open TantivyModel TantivyModel.Proto TantivyModel.Faults

/-- With the guard built before the flush (`Gen.LOCK_GUARD_BEFORE_FLUSH = 1`) a failing flush of
the new lock file drops the guard, i.e. it is, for the lock, a failing construction: the driver
maps the observed phase accordingly, so the model follows the code as it is. -/
def lockFlushPhase : Phase := if Gen.LOCK_GUARD_BEFORE_FLUSH == 1 then .ctorRead else .lockFlush

def phaseOf : String → Option Phase
  | "lo" => some .lockOpen | "lf" => some lockFlushPhase | "ld" => some .lockDelete
  | "cr" => some .ctorRead | "wk" => some .worker | "pu" => some .purge | "sm" => some .saveMeta
  | "gl" => some .gcLock | "gd" => some .gcDelete | "gm" => some .gcManaged
  | "mt" => some .mergeThread | "ep" => some .endMergePurge | "es" => some .endMergeSave
  | "rl" => some .reload
  | "s2" => some .saveSync2 | "e2" => some .endMergeSync2
  | _ => none

def callOf (t : String) : Option Call :=
  match t.toList with
  | ['n'] => some .newWriter
  | ['c'] => some .commit
  | ['r'] => some .rollback
  | ['d'] => some .dropWriter
  | ['m'] => some .merge
  | ['g'] => some .gc
  | ['l'] => some .reload
  | ['x'] => some .removeLock
  | ['w'] => some .waitMerges
  | 'a' :: rest => (String.ofList rest).toNat?.map .add
  | _ => none

def parseTok (tok : String) : Option (Call × List Phase) :=
  match tok.splitOn ":" with
  | [c] => (callOf c).map (fun c => (c, []))
  | [c, ps] => do
    let c ← callOf c
    let ps ← (ps.splitOn "+").mapM phaseOf
    pure (c, ps)
  | _ => none

def showRes : Res → String
  | .ok => "ok" | .err => "err" | .panic => "panic" | .hang => "hang"

/-- `<cap>` or `<cap>/<cutDocs>`; `cap` = the literal `cap` (extracted capacity) or a number -/
def capOf (t : String) : Option (Nat × Nat) :=
  match t.splitOn "/" with
  | [c] => (if c == "cap" then some codeCap else c.toNat?).map (fun c => (c, 0))
  | [c, k] => do
    let c ← (if c == "cap" then some codeCap else c.toNat?)
    let k ← k.toNat?
    pure (c, k)
  | _ => none

def cutOf (c : Nat × Nat) : Nat := c.2

def handle : List String → String
  | ["cap"] => toString codeCap
  | ["run", cap, toks] =>
    match capOf cap, (if toks == "-" then some [] else (toks.splitOn ",").mapM parseTok) with
    | some cap, some cps =>
      let plans : List (List Phase) := cps.map (·.2)
      let F : Nat → Plan := fun i p => (plans.getD i []).contains p
      let r := run codeSync2 { codeFixes with cutDocs := cutOf cap } cap.1 F 0 init (cps.map (·.1))
      (if r.2.isEmpty then "-" else ",".intercalate (r.2.map showRes)) ++ "|" ++
        showNatList (content r.1.metaSegs) ++ "|" ++ showBool (stale r.1) ++ "|" ++
        showNatList (content r.1.searcher)
    | _, _ => "bad-op"
  | _ => "bad-op"

end TantivyModel.Driver.C11
