import TantivyModel.Driver.Proto
import TantivyModel.Proofs.CommitProtocol
/-!
Line protocol of the C01 model.

Tokens of a log (one per storage operation, in log order):
  `c<p>` create   `w<p>:<n>` write   `f<p>` flush   `t<p>` terminate   `s` sync_directory
  `a<p>:<commit>:<ver>:<len>:<refs>` atomic_write (refs `.`-separated or `-`)   `d<p>` delete
  `k<c>` commit() returned opstamp c
observations (checked against the visible layer, no effect):
  `r<p>:<len|x>` open_read   `e<p>:<0|1>` exists   `g<p>:<len|x>` atomic_read

Requests:
  `check <tok>…`                 → `explained=<ok|i> viol=<i:r+r,…|-> acked=<n> started=<n>`
  `images <k,k,…> <tok>…`        → per requested boundary k (state after the first k tokens), `#`-separated:
                                   `k|acked|started|img;img;…`, img = `kind:subject:arg|rec|allowed|files|atoms`
  `names`                        → extracted file names (hex), `;`-separated
-/
namespace TantivyModel.Driver.C01
open TantivyModel TantivyModel.Proto TantivyModel.Storage TantivyModel.CommitProtocol

inductive Tok
  | op (o : Op)
  | obsRead (p : Path) (r : Option Nat)
  | obsExists (p : Path) (b : Bool)
  | obsAtomic (p : Path) (r : Option Nat)

def natOf (s : String) : Option Nat := s.toNat?

def optLen (s : String) : Option (Option Nat) := if s == "x" then some none else (s.toNat?).map some

def refsOf (s : String) : Option (List Nat) :=
  if s == "-" then some [] else (s.splitOn ".").mapM (fun t => t.toNat?)

def parseTok (s : String) : Option Tok :=
  match s.toList with
  | [] => none
  | c :: rest =>
    let body := String.ofList rest
    let parts := body.splitOn ":"
    match c, parts with
    | 's', [""] => some (.op .syncDir)
    | 'c', [p] => (natOf p).map (fun p => .op (.create p))
    | 'f', [p] => (natOf p).map (fun p => .op (.flush p))
    | 't', [p] => (natOf p).map (fun p => .op (.terminate p))
    | 'd', [p] => (natOf p).map (fun p => .op (.delete p))
    | 'k', [p] => (natOf p).map (fun p => .op (.ack p))
    | 'w', [p, n] => do some (.op (.write (← natOf p) (← natOf n)))
    | 'a', [p, c, v, l, r] => do
        some (.op (.atomicWrite (← natOf p) { commit := ← natOf c, ver := ← natOf v, len := ← natOf l, refs := ← refsOf r }))
    | 'r', [p, l] => do some (.obsRead (← natOf p) (← optLen l))
    | 'g', [p, l] => do some (.obsAtomic (← natOf p) (← optLen l))
    | 'e', [p, b] => do
        let b ← natOf b
        if b > 1 then none else some (.obsExists (← natOf p) (b == 1))
    | _, _ => none

def initState : PState := { dir := Dir.empty, acked := 0, started := 0 }

def explains (s : PState) : Tok → Bool
  | .op _ => true
  | .obsRead p r => s.dir.readLen p == r
  | .obsAtomic p r => s.dir.readLen p == r
  | .obsExists p b => s.dir.existsP p == b

def stepTok (s : PState) : Tok → PState
  | .op o => s.step o
  | _ => s

def showRules (rs : List Rule) : String := "+".intercalate (rs.map (fun r => toString r.name))

/-- walks the log: first unexplained observation, all discipline violations -/
def walk : PState → List Tok → Nat → Option Nat → List String → (PState × Option Nat × List String)
  | s, [], _, un, vs => (s, un, vs.reverse)
  | s, t :: ts, i, un, vs =>
    let un' := match un with
      | some x => some x
      | none => if explains s t then none else some i
    let vs' := match t with
      | .op o => match violations s o with
        | [] => vs
        | rs => (toString i ++ ":" ++ showRules rs) :: vs
      | _ => vs
    walk (stepTok s t) ts (i + 1) un' vs'

def showFile (e : Path × Option (Nat × Bool)) : Option String :=
  match e.2 with
  | none => none
  | some (n, sl) => some (toString e.1 ++ ":" ++ toString n ++ ":" ++ showBool sl)

def showAtom (e : Path × Option Payload) : Option String :=
  match e.2 with
  | none => none
  | some b => some (toString e.1 ++ ":" ++ toString b.ver)

def joinOr (sep : String) (l : List String) : String := if l.isEmpty then "-" else sep.intercalate l

def showImage (s : PState) (ni : NamedImage) : String :=
  let rec' := match recover ni.img.toImage with | some j => toString j | none => "x"
  toString ni.kind ++ ":" ++ toString ni.subject ++ ":" ++ toString ni.arg ++ "|" ++ rec' ++ "|" ++
    showBool (ni.img.allowed s.dir) ++ "|" ++ joinOr "," (ni.img.files.filterMap showFile) ++ "|" ++
    joinOr "," (ni.img.atoms.filterMap showAtom)

def imagesAt (ks : List Nat) : PState → List Tok → Nat → List String → List String
  | s, ts, i, acc =>
    let acc' := if ks.contains i then
        (toString i ++ "|" ++ toString s.acked ++ "|" ++ toString s.started ++ "|" ++
          ";".intercalate ((quickImages s.dir).map (showImage s))) :: acc
      else acc
    match ts with
    | [] => acc'.reverse
    | t :: ts' => imagesAt ks (stepTok s t) ts' (i + 1) acc'

def hexOfNats (l : List Nat) : String := hexOfBytes (l.map UInt8.ofNat)

def handle : List String → String
  | "check" :: toks =>
    match toks.mapM parseTok with
    | none => "bad-op"
    | some ts =>
      let (s, un, vs) := walk initState ts 0 none []
      "explained=" ++ (match un with | none => "ok" | some i => toString i) ++ " viol=" ++ joinOr "," vs ++
        " acked=" ++ toString s.acked ++ " started=" ++ toString s.started
  | "images" :: ks :: toks =>
    match natList ks, toks.mapM parseTok with
    | some ks, some ts => joinOr "#" (imagesAt ks initState ts 0 [])
    | _, _ => "bad-op"
  | "verdict" :: base :: toks =>
    -- the two hypotheses of `C01_run_verdict_is_hypothesis`, decided on a real log:
    -- invB of the state after the first `base` tokens, Disciplined of the rest from there
    match base.toNat?, toks.mapM parseTok with
    | some k, some ts =>
      let ops := ts.filterMap (fun t => match t with | .op o => some o | _ => none)
      let nPre := ((ts.take k).filterMap (fun t => match t with | .op o => some o | _ => none)).length
      let s := initState.run (ops.take nPre)
      "inv=" ++ showBool (invB s) ++ " disc=" ++ showBool (Disciplined s (ops.drop nPre))
    | _, _ => "bad-op"
  | ["names"] =>
    ";".intercalate ([Gen.META_NAME, Gen.MANAGED_NAME, Gen.INDEX_WRITER_LOCK_NAME, Gen.META_LOCK_NAME, Gen.DELETE_SUFFIX]
      ++ Gen.COMPONENT_SUFFIXES |>.map hexOfNats) ++ ";" ++ toString Gen.TEMPSTORE_INDEX ++ ";" ++
      showBool Gen.INDEX_WRITER_LOCK_BLOCKING ++ showBool Gen.META_LOCK_BLOCKING ++ ";" ++ toString Gen.UNMANAGED_PREFIX
  | _ => "bad-op"

end TantivyModel.Driver.C01
