import TantivyModel.Driver.Proto
namespace TantivyModel.Driver.C01
/-- stub: the model for C01 is not built yet -/
def handle : List String → String
  | _ => "bad-op"
end TantivyModel.Driver.C01
