import TantivyModel.Driver.Proto
namespace TantivyModel.Driver.C15
/-- stub: the model for C15 is not built yet -/
def handle : List String → String
  | _ => "bad-op"
end TantivyModel.Driver.C15
