import TantivyModel.Driver.Proto
import TantivyModel.Model.SSTable.Search
import TantivyModel.Model.SSTable.Merge
import TantivyModel.Model.SSTable.AddrStore
import TantivyModel.Model.SSTable.FileOps
/-!
Line protocol of the C15 model (ordered-map spec + sstable block model).

* `run <blockLen> <keys> <vals> <tables> <ops>` — one dictionary, many operations; the answer is
  `;`-joined, one `spec~model` pair per operation (see `answer`).
  keys: `,`-separated hex (`-` = empty key, `_` = no key); vals: naturals (`_` = none);
  tables: `|`-separated explicit DFAs (`_` = none); ops: `;`-separated.
* `decode <void|u64|range> <hex file>` — cross-decoding of a real sstable file.
* `encode <blockLen> <keys>` — key bytes of every block as the model writes them.
* `insert <blockLen> <keys>` — `ok` or `panic:<index of the rejected key>`.
* `merge <sum|void> <keys/vals> …` — k-way merge, spec and model, with ordinal tables.
* `index <hex file> <ords>` — the block-address store of a real file decoded by the model:
  `ord:start:end,…|block ids located for the ordinals` (`empty` for a ≤ 1-block file).
* `bitpack <values> <widths>` — bytes `BitPacker::write`* + `flush` produce for the fields.
* `shorter <left> <right>`, `pfxup <prefix>`, `lev <d> <query> <key>`, `cpl <a> <b>`, `lt <a> <b>`.
-/
namespace TantivyModel.Driver.C15
open TantivyModel TantivyModel.Proto TantivyModel.SSTable

def keyList (s : String) : Option (List Key) :=
  if s == "_" then some [] else (s.splitOn ",").mapM bytesOfHex

def valList (s : String) : Option (List Nat) :=
  if s == "_" then some [] else (s.splitOn ",").mapM (fun t => t.toNat?)

def showKeys (ks : List Key) : String :=
  if ks.isEmpty then "_" else ",".intercalate (ks.map hexOfBytes)

def showNats (ns : List Nat) : String :=
  if ns.isEmpty then "_" else ",".intercalate (ns.map toString)

def parseBound (s : String) : Option Bound :=
  match s.toList with
  | ['u'] => some .unbounded
  | 'i' :: r => (bytesOfHex (String.ofList r)).map .incl
  | 'e' :: r => (bytesOfHex (String.ofList r)).map .excl
  | _ => none

def parseLimit (s : String) : Option (Option Nat) :=
  if s == "n" then some none else s.toNat?.map some

/-! digest of a stream of (ordinal, key, value): `count/first ordinal/fnv1a64` -/
def fnvByte (h : UInt64) (b : UInt8) : UInt64 := (h ^^^ b.toUInt64) * 0x100000001b3

def fnvNat (h : UInt64) (n : Nat) : UInt64 :=
  (List.range 8).foldl (fun h i => fnvByte h (UInt8.ofNat ((n >>> (8 * i)) % 256))) h

def fnvItem (h : UInt64) (it : Nat × Key × Nat) : UInt64 :=
  let h := fnvNat h it.1
  let h := fnvNat h it.2.1.length
  let h := it.2.1.foldl fnvByte h
  fnvNat h it.2.2

def digest (items : List (Nat × Key × Nat)) : String :=
  let h := items.foldl fnvItem 0xcbf29ce484222325
  s!"{items.length}/{match items.head? with | some it => toString it.1 | none => "x"}/{h.toNat}"

/-- spec stream with true ordinals -/
def specItems (m : Assoc Nat) (p : Key → Bool) : List (Nat × Key × Nat) :=
  (m.zipIdx.filter (fun e => p e.1.1)).map (fun e => (e.2, e.1.1, e.1.2))

def showHit : Hit → String
  | .exact o => s!"e{o}"
  | .next o => if o = U64_MAX then "nmax" else s!"n{o}"

def parseTable (s : String) : Option (Table × Nat) :=
  match s.splitOn ":" with
  | [n, start, acc, can, next] =>
    match n.toNat?, start.toNat? with
    | some n, some start =>
      let bits := fun (t : String) => (t.toList.map (· == '1')).toArray
      let runs := (next.splitOn ",").mapM (fun r =>
        match r.splitOn "*" with
        | [v] => v.toNat?.map (fun v => (v, 1))
        | [v, c] => match v.toNat?, c.toNat? with | some v, some c => some (v, c) | _, _ => none
        | _ => none)
      match runs with
      | some runs =>
        let arr := runs.foldl (fun (a : Array Nat) r => a ++ (Array.replicate r.2 r.1)) #[]
        if arr.size = n * 256 then some (⟨n, arr, bits acc, bits can⟩, start) else none
      | none => none
    | _, _ => none
  | _ => none

inductive AnyAut where
  | pfx (p : Key)
  | lev (d : Nat) (q : Key)
  | tab (t : Table) (start : Nat)

def parseAut (tables : Array (Table × Nat)) (s : String) : Option AnyAut :=
  match s.toList with
  | 'p' :: r => (bytesOfHex (String.ofList r)).map .pfx
  | 'l' :: r =>
    match (String.ofList r).splitOn "," with
    | [d, q] => match d.toNat?, bytesOfHex q with | some d, some q => some (.lev d q) | _, _ => none
    | _ => none
  | 't' :: r => match (String.ofList r).toNat? with
    | some i => (tables[i]?).map (fun t => .tab t.1 t.2)
    | none => none
  | _ => none

def streamDigest (r : Option (List (Nat × Key × Nat))) : String :=
  match r with | none => "panic" | some items => digest items

def searchAnswer {σ} (A : Automaton σ) (m : Assoc Nat) (d : Dict Nat) (lo hi : Bound) : String :=
  let spec := specItems m (fun k => matchLo lo k && matchHi hi k && A.accepts k)
  s!"{digest spec}~{digest (d.search A lo hi)}~{digest (d.searchDelta A lo hi)}"

def searchLimAnswer {σ} (A : Automaton σ) (wam : Bool) (m : Assoc Nat) (d : Dict Nat) (lo hi : Bound)
    (limit : Option Nat) : String :=
  let spec := specItems m (fun k => matchLo lo k && matchHi hi k && A.accepts k)
  s!"{digest spec}~{streamDigest (d.searchLim A wam lo hi limit)}"

/-- one operation on spec `m` and block model `d` -/
def answer (tables : Array (Table × Nat)) (m : Assoc Nat) (d : Dict Nat) (op : String) : String :=
  match op.splitOn ":" with
  | ["skip"] => "skip~skip"   -- an operation the harness could not express for the model
  | ["get", k] =>
    match bytesOfHex k with
    | some k =>
      let sh := fun (o : Option Nat) => match o with | some v => s!"some{v}" | none => "none"
      s!"{sh (SSTable.get m k)}~{sh (d.get k)}"
    | none => "bad-op"
  | ["ord", k] =>
    match bytesOfHex k with
    | some k =>
      let sh := fun (o : Option Nat) => match o with | some v => toString v | none => "none"
      s!"{sh (SSTable.termOrd m k)}~{sh (d.termOrd k)}"
    | none => "bad-op"
  | ["orn", k] =>
    match bytesOfHex k with
    | some k => s!"{showHit (SSTable.termOrdOrNext m k)}~{showHit (d.termOrdOrNext k)}~{showHit (d.termOrdOrNextDelta k)}"
    | none => "bad-op"
  | ["o2t", o] =>
    match o.toNat? with
    | some o =>
      let sh := fun (r : Option Key) => match r with | some k => "k" ++ hexOfBytes k | none => "none"
      s!"{sh (SSTable.ordToTerm m o)}~{sh (d.ordToTerm o)}"
    | none => "bad-op"
  | ["val", o] =>
    match o.toNat? with
    | some o =>
      let sh := fun (o : Option Nat) => match o with | some v => s!"some{v}" | none => "none"
      s!"{sh (SSTable.valueAtOrd m o)}~{sh (d.valueAtOrd o)}"
    | none => "bad-op"
  | ["sorted", os] =>
    match valList os with
    | some os =>
      let sh := fun (r : List Key × Bool) => s!"{showKeys r.1}/{showBool r.2}"
      s!"{sh (sortedOrdsSpec m os)}~{sh (d.sortedOrdsToTerm os)}"
    | none => "bad-op"
  | ["tbo", lo, hi] =>
    match parseBound lo, parseBound hi with
    | some lo, some hi =>
      let sh := fun (b : OrdBound) => match b with
        | .unbounded => "u"
        | .incl o => if o = U64_MAX then "imax" else s!"i{o}"
        | .excl o => if o = U64_MAX then "emax" else s!"e{o}"
      let r := d.termBoundsToOrd lo hi
      s!"-~{sh r.1},{sh r.2}"
    | _, _ => "bad-op"
  | ["blk", k] =>
    match bytesOfHex k with
    | some k => match (d.locateKey k).bind d.blockAt with
      | some b => s!"{b.firstOrd}"
      | none => "none"
    | none => "bad-op"
  | ["rng", lo, hi, lim] =>
    match parseBound lo, parseBound hi, parseLimit lim with
    | some lo, some hi, some lim =>
      let spec := specItems m (fun k => matchLo lo k && matchHi hi k)
      s!"{digest spec}~{streamDigest (d.stream lo hi lim)}"
    | _, _, _ => "bad-op"
  | ["pfx", p, lim] =>
    match bytesOfHex p, parseLimit lim with
    | some p, some lim =>
      let spec := specItems m (fun k => isPrefixOf p k)
      let b := prefixBounds p
      s!"{digest spec}~{streamDigest (d.stream b.1 b.2 lim)}"
    | _, _ => "bad-op"
  | ["autl", a, lo, hi, lim, w] =>
    match parseAut tables a, parseBound lo, parseBound hi, parseLimit lim with
    | some (.pfx p), some lo, some hi, some lim => searchLimAnswer (prefixAutomaton p) (w == "1") m d lo hi lim
    | some (.lev dist q), some lo, some hi, some lim => searchLimAnswer (levAutomaton q dist) (w == "1") m d lo hi lim
    | some (.tab t s), some lo, some hi, some lim => searchLimAnswer (tableAutomaton t s) (w == "1") m d lo hi lim
    | _, _, _, _ => "bad-op"
  | ["aut", a, lo, hi] =>
    match parseAut tables a, parseBound lo, parseBound hi with
    | some (.pfx p), some lo, some hi => searchAnswer (prefixAutomaton p) m d lo hi
    | some (.lev dist q), some lo, some hi => searchAnswer (levAutomaton q dist) m d lo hi
    | some (.tab t s), some lo, some hi => searchAnswer (tableAutomaton t s) m d lo hi
    | _, _, _ => "bad-op"
  | _ => "bad-op"

def showRaw (kind : String) (b : RawBlock) : String :=
  match b with
  | .compressed _ => "Z"
  | .plain payload =>
    if kind == "void" then s!"P{showKeys (decodeBlockKeys payload)}/_"
    else if kind == "u64" then
      let r := loadU64Mono payload
      s!"P{showKeys (decodeBlockKeys r.2)}/{showNats r.1}"
    else
      let r := loadRange payload
      s!"P{showKeys (decodeBlockKeys r.2)}/{showNats (r.1.map (·.1))}/{showNats (r.1.map (·.2))}"

def mergeInput (s : String) : Option (Assoc Nat) :=
  match s.splitOn "/" with
  | [ks, vs] =>
    match keyList ks, valList vs with
    | some ks, some vs => if ks.length = vs.length then some (ks.zip vs) else none
    | _, _ => none
  | _ => none

def showOrdTable (t : List (Option Nat)) : String :=
  if t.isEmpty then "_" else ",".intercalate (t.map (fun o => match o with | some v => toString v | none => "x"))

def transpose (rows : List (List (Option Nat))) (n : Nat) : List (List (Option Nat)) :=
  (List.range n).map (fun j => rows.map (fun r => r.getD j none))

def handle : List String → String
  | ["run", bl, ks, vs, tabs, ops] =>
    match bl.toNat?, keyList ks, valList vs with
    | some bl, some ks, some vs =>
      if ks.length ≠ vs.length then "bad-op" else
      let tables : Option (List (Table × Nat)) :=
        if tabs == "_" then some [] else (tabs.splitOn "|").mapM parseTable
      match tables with
      | none => "bad-op"
      | some tables =>
        let m : Assoc Nat := ks.zip vs
        let d := build bl m
        ";".intercalate ((ops.splitOn ";").map (answer tables.toArray m d))
    | _, _, _ => "bad-op"
  | ["layout", bl, ks] =>
    match bl.toNat?, keyList ks with
    | some bl, some ks =>
      let d := build bl (ks.map (fun k => (k, 0)))
      ";".intercalate (d.blocks.map (fun b => s!"{b.firstOrd}:{b.entries.length}:{hexOfBytes b.sep}"))
    | _, _ => "bad-op"
  | ["decode", kind, h] =>
    if kind != "void" && kind != "u64" && kind != "range" then "bad-op" else
    match bytesOfHex h with
    | some bs =>
      let f := openFile bs
      match readBlocks f.data.length f.data with
      | none => "truncated"
      | some blocks =>
        s!"{if blocks.isEmpty then "_" else ";".intercalate (blocks.map (showRaw kind))}|n={f.numTerms},v={f.version}"
    | none => "bad-op"
  | ["encode", bl, ks] =>
    match bl.toNat?, keyList ks with
    | some bl, some ks =>
      let bs := encodeBlocks bl ks
      if bs.isEmpty then "_" else ",".intercalate (bs.map hexOfBytes)
    | _, _ => "bad-op"
  | ["insert", bl, ks] =>
    match bl.toNat?, keyList ks with
    | some bl, some ks =>
      match firstRejected bl {} ks 0 with
      | none => "ok"
      | some i => s!"panic:{i}"
    | _, _ => "bad-op"
  | "merge" :: comb :: inputs =>
    if comb != "sum" && comb != "void" && comb != "first" then "bad-op" else
    match inputs.mapM mergeInput with
    | some ms =>
      let c : List Nat → Nat := if comb == "sum" then List.sum else if comb == "first" then (fun l => l.headD 0) else fun _ => 0
      let spec := mergeSpec c ms
      let model := kwayMerge c ms
      let specTables := ms.map (fun m => ordMap m spec)
      let rows := kmergeOrds (totalLen ms) (ms.map (fun _ => 0)) ms
      -- model table of input j: new ordinals (round indices) at which input j was consumed
      let modelTables := (List.range ms.length).map (fun j =>
        (rows.zipIdx.filterMap (fun r => match r.1.getD j none with | some _ => some (some r.2) | none => none)))
      let sh := fun (m : Assoc Nat) (ts : List (List (Option Nat))) =>
        s!"{showKeys (keys m)}/{showNats (m.map (·.2))}/{"|".intercalate (ts.map showOrdTable)}"
      s!"{sh spec specTables}~{sh model modelTables}"
    | none => "bad-op"
  | ["index", h, os] =>
    match bytesOfHex h, valList os with
    | some bs, some os =>
      let indexBytes := (openFile bs).index
      let fstLen := u64le (indexBytes.drop (indexBytes.length - 8))
      if fstLen = 0 then "empty"
      else
        let storeRegion := (indexBytes.take (indexBytes.length - 8)).drop fstLen
        let store := openStore storeRegion
        let addrs := store.all
        s!"{",".intercalate (addrs.map (fun a => s!"{a.firstOrd}:{a.start}:{a.stop}"))}|{showNats (os.map store.locateOrd)}|reenc={showBool (store.reencodeOk && reencodeStoreOk storeRegion && reencodeStoreOwnOk storeRegion && rebuildStoreOk storeRegion)}"
    | _, _ => "bad-op"
  | ["o2t", kind, h, os] =>
    if kind != "void" && kind != "u64" && kind != "range" then "bad-op" else
    match bytesOfHex h, valList os with
    | some bs, some os =>
      let skip : List UInt8 → List UInt8 :=
        if kind == "void" then id else if kind == "u64" then (fun p => (loadU64Mono p).2) else (fun p => (loadRange p).2)
      let f := openFile bs
      ",".intercalate (os.map (fun o => match openedOrdToTerm skip f o with
        | none => "Z"
        | some none => "-"
        | some (some k) => s!"k{hexOfBytes k}"))
    | _, _ => "bad-op"
  | ["kblk", kind, h, bl, ks, probes] =>
    if kind != "void" && kind != "u64" && kind != "range" then "bad-op" else
    match bytesOfHex h, bl.toNat?, keyList ks, keyList probes with
    | some bs, some bl, some ks, some probes =>
      let skip : List UInt8 → List UInt8 :=
        if kind == "void" then id else if kind == "u64" then (fun p => (loadU64Mono p).2) else (fun p => (loadRange p).2)
      let d := build bl (ks.map (fun k => (k, 0)))
      let f := openFile bs
      ";".intercalate (probes.map (fun k =>
        let a := match fileBlockForKey d.locateKey f k with
          | none => "-"
          | some a => s!"{a.firstOrd}:{a.start}:{a.stop}"
        let h := match fileTermOrdOrNext d.locateKey skip f k with
          | none => "Z"
          | some h => showHit h
        let vals : List UInt8 → List Nat :=
          if kind == "void" then (fun p => (decodeBlockKeys p).map (fun _ => 0))
          else if kind == "u64" then (fun p => (loadU64Mono p).1) else (fun p => (loadRange p).1.map (·.1))
        let g := match fileGet d.locateKey skip vals f k with
          | none => "Z"
          | some none => "-"
          | some (some v) => s!"v{v}"
        s!"{a}/{h}/{g}"))
    | _, _, _, _ => "bad-op"
  | ["bitpack", vs, ws] =>
    match valList vs, valList ws with
    | some vs, some ws => if vs.length = ws.length then hexOfBytes (bitPack (vs.zip ws)) else "bad-op"
    | _, _ => "bad-op"
  | ["shorter", l, r] =>
    match bytesOfHex l, bytesOfHex r with
    | some l, some r => hexOfBytes (findShorter l r)
    | _, _ => "bad-op"
  | ["pfxup", p] =>
    match bytesOfHex p with
    | some p => hexOfBytes (prefixUpper p)
    | none => "bad-op"
  | ["lev", d, q, k] =>
    match d.toNat?, bytesOfHex q, bytesOfHex k with
    | some d, some q, some k => showBool ((levAutomaton q d).accepts k)
    | _, _, _ => "bad-op"
  | ["cpl", a, b] =>
    match bytesOfHex a, bytesOfHex b with
    | some a, some b => toString (cpl a b)
    | _, _ => "bad-op"
  | ["lt", a, b] =>
    match bytesOfHex a, bytesOfHex b with
    | some a, some b => showBool (lexLt a b)
    | _, _ => "bad-op"
  | _ => "bad-op"

end TantivyModel.Driver.C15
