import TantivyModel.Driver.Proto
import TantivyModel.Gen.PureFns
/-! `PF <fn> args…` — executes the functions translated from the Rust source (Gen/PureFns). -/
namespace TantivyModel.Driver.PureFns
open TantivyModel.Gen.Fn

def bv (w : Nat) (s : String) : Option (BitVec w) := s.toNat?.map (BitVec.ofNat w)

def handle : List String → String
  | ["i64_to_u64", x] => match bv 64 x with | some v => toString (i64_to_u64 v).toNat | none => "bad-op"
  | ["u64_to_i64", x] => match bv 64 x with | some v => toString (u64_to_i64 v).toNat | none => "bad-op"
  | ["f64_to_u64", x] => match bv 64 x with | some v => toString (f64_to_u64 v).toNat | none => "bad-op"
  | ["u64_to_f64", x] => match bv 64 x with | some v => toString (u64_to_f64 v).toNat | none => "bad-op"
  | ["compute_num_bits", x] => match bv 64 x with | some v => toString (compute_num_bits v).toNat | none => "bad-op"
  | ["encode_bitwidth", b, d] =>
    match bv 8 b, d with
    | some v, "0" => toString (encode_bitwidth v false).toNat
    | some v, "1" => toString (encode_bitwidth v true).toNat
    | _, _ => "bad-op"
  | ["decode_bitwidth", x] =>
    match bv 8 x with
    | some v => let r := decode_bitwidth v; toString r.1.toNat ++ "," ++ (if r.2 then "1" else "0")
    | none => "bad-op"
  | ["encode_block_wand_max_tf", x] => match bv 32 x with | some v => toString (encode_block_wand_max_tf v).toNat | none => "bad-op"
  | ["decode_block_wand_max_tf", x] => match bv 8 x with | some v => toString (decode_block_wand_max_tf v).toNat | none => "bad-op"
  | ["tinyset_singleton", e] => match bv 32 e with | some v => toString (tinyset_singleton v).toNat | none => "bad-op"
  | ["tinyset_insert", x, e] =>
    match bv 64 x, bv 32 e with | some s, some v => toString (tinyset_insert s v).toNat | _, _ => "bad-op"
  | ["tinyset_remove", x, e] =>
    match bv 64 x, bv 32 e with | some s, some v => toString (tinyset_remove s v).toNat | _, _ => "bad-op"
  | ["tinyset_contains", x, e] =>
    match bv 64 x, bv 32 e with
    | some s, some v => if tinyset_contains s v then "1" else "0"
    | _, _ => "bad-op"
  | ["tinyset_range_lower", e] => match bv 32 e with | some v => toString (tinyset_range_lower v).toNat | none => "bad-op"
  | ["tinyset_range_greater_or_equal", e] =>
    match bv 32 e with | some v => toString (tinyset_range_greater_or_equal v).toNat | none => "bad-op"
  | ["tinyset_pop_lowest", x] =>
    match bv 64 x with
    | some s =>
      let r := tinyset_pop_lowest s
      (match r.1 with | some l => toString l.toNat | none => "none") ++ "," ++ toString r.2.toNat
    | none => "bad-op"
  | ["tinyset_full"] => toString tinyset_full.toNat
  | _ => "bad-op"

end TantivyModel.Driver.PureFns
