import TantivyModel.Driver.Proto
import TantivyModel.Model.Sorted
import TantivyModel.Driver.C04
/-!
Line protocol of the index-sorting model.

keys  := comma separated, `n` = no value, otherwise the order-preserving u64 image (`-` = empty)
ops:
  `sortorder <asc|desc> <keys>`                    → new→old row ids
  `mapping <asc|desc> <keys>`                      → `new→old/old→new`
  `deletes <asc|desc> <keys> <matches bits> <opstamps> <delete opstamp>`
        → new doc ids hit in the sorted segment `/` images of the old ids hit unsorted
  `kmerge <asc|desc> <keys> <keys> …`              → merged key sequence
  `stack <asc|desc> <min:max,…> <keys> <keys> …`   → `1`/`0` (stacking guard) `/` stacked keys
-/
namespace TantivyModel.Driver.C17
open TantivyModel TantivyModel.Proto TantivyModel.Sorted

def parseDir (s : String) : Option Bool :=
  if s == "asc" then some false else if s == "desc" then some true else none

def parseKey (s : String) : Option SKey :=
  if s == "n" then some none else s.toNat?.map some

def parseKeys (s : String) : Option (List SKey) :=
  if s == "-" then some [] else (s.splitOn ",").mapM parseKey

def showKey : SKey → String
  | none => "n"
  | some v => toString v

def showKeys (l : List SKey) : String :=
  if l.isEmpty then "-" else ",".intercalate (l.map showKey)

def parseBits (s : String) : Option (List Bool) :=
  if s == "-" then some [] else
  s.toList.mapM fun c => if c == '1' then some true else if c == '0' then some false else none

def parseStats (s : String) : Option (List Stats) :=
  if s == "-" then some [] else
  (s.splitOn ",").mapM fun t => match t.splitOn ":" with
    | [a, b] => match a.toNat?, b.toNat? with
      | some a, some b => some (a, b)
      | _, _ => none
    | _ => none

def toRun (i : Nat) (ks : List SKey) : Run := ks.zipIdx.map fun (k, d) => (k, i, d)

def trueIdx (l : List Bool) : List Nat := (l.zipIdx.filter (·.1)).map (·.2)

def parseCard (s : String) : Option Card :=
  if s == "full" then some .full else if s == "optional" then some .optional
  else if s == "multivalued" then some .multivalued else none

/-- `card;keys;alive bits;min:max` -/
def parseSegCol (s : String) : Option SegCol :=
  match s.splitOn ";" with
  | [c, ks, al, st] =>
    match parseCard c, parseKeys ks, parseBits al, parseStats st with
    | some c, some ks, some al, some [st] =>
      if ks.length = al.length then some ⟨c, ks, al, st⟩ else none
    | _, _, _, _ => none
  | _ => none

def handle : List String → String
  | ["sortorder", d, ks] =>
    match parseDir d, parseKeys ks with
    | some d, some ks => showNatList (sortOrder ks d)
    | _, _ => "bad-op"
  | ["mapping", d, ks] =>
    match parseDir d, parseKeys ks with
    | some d, some ks =>
      let n2o := sortOrder ks d
      showNatList n2o ++ "/" ++ showNatList (oldToNewOf n2o)
    | _, _ => "bad-op"
  | ["deletes", d, ks, ms, os, t] =>
    match parseDir d, parseKeys ks, parseBits ms, natList os, t.toNat? with
    | some d, some ks, some ms, some os, some t =>
      if ks.length = ms.length ∧ ks.length = os.length then
        let n2o := sortOrder ks d
        let o2n := oldToNewOf n2o
        let sortedHits := trueIdx (deleteHits (remap n2o ms) (remap n2o os) t)
        let unsortedHits := (trueIdx (deleteHits ms os t)).map fun o => o2n.getD o 0
        showNatList sortedHits ++ "/" ++ showNatList ((unsortedHits.toArray.qsort (· < ·)).toList)
      else "bad-op"
    | _, _, _, _, _ => "bad-op"
  | "kmerge" :: d :: runs =>
    match parseDir d, runs.mapM parseKeys with
    | some d, some runs => showKeys ((kmerge d (runs.zipIdx.map fun (ks, i) => toRun i ks)).map (·.1))
    | _, _ => "bad-op"
  | "stack" :: d :: st :: runs =>
    match parseDir d, parseStats st, runs.mapM parseKeys with
    | some d, some st, some runs =>
      let rs := runs.zipIdx.map fun (ks, i) => toRun i ks
      showBool (stackOk d st rs) ++ "/" ++ showKeys (rs.flatten.map (·.1))
    | _, _, _ => "bad-op"
  | "shuffled" :: rest =>
    -- merge of a sorted index through the real new→old table: the C04 merge model
    Driver.C04.handle ("shuffled" :: rest)
  | "decision" :: d :: segs =>
    -- readers sorted by min value (`sort_readers_by_min_sort_field`), then the stack decision
    match parseDir d, segs.mapM parseSegCol with
    | some d, some cs =>
      let sorted := sortReaders d (cs.zipIdx.map fun (c, i) => (c.stats, (c, i)))
      (match stackDecisionG d (sorted.map (·.2.1)) with | some b => showBool b | none => "?") ++ "/" ++ showNatList (sorted.map (·.2.2)) ++ "/" ++
        showBool ((sorted.map (·.2.1)).any fun c => hasLiveNullsG c.card c.keys c.alive)
    | _, _ => "bad-op"
  | _ => "bad-op"

end TantivyModel.Driver.C17
