import TantivyModel.Driver.Proto
namespace TantivyModel.Driver.C17
/-- stub: the model for C17 is not built yet -/
def handle : List String → String
  | _ => "bad-op"
end TantivyModel.Driver.C17
