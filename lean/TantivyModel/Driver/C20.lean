import TantivyModel.Driver.Proto
import TantivyModel.Model.Footer
namespace TantivyModel.Driver.C20
open TantivyModel TantivyModel.Proto TantivyModel.Footer

def showErr : Err → String
  | .tooSmall => "too-small" | .magic => "magic" | .tooLong => "too-long"
  | .shorterThanFooter => "shorter-than-footer" | .payload => "payload"

def handle : List String → String
  | ["crc", h] =>
    match bytesOfHex h with
    | some bs => toString (Crc32.crc32 bs).toNat
    | none => "bad-op"
  | ["validate", h] =>
    match bytesOfHex h with
    | some bs =>
      match validate decimalCodec bs with
      | .intact => "intact" | .damaged => "damaged" | .unreadable e => "unreadable:" ++ showErr e
    | none => "bad-op"
  | ["open", h] =>
    match bytesOfHex h with
    | some bs =>
      match openRead decimalCodec bs with
      | .body b => "body:" ++ hexOfBytes b | .incompatible => "incompatible"
      | .corrupt e => "corrupt:" ++ showErr e
    | none => "bad-op"
  | ["footer", ma, mi, pa, fm, crc] =>
    match ma.toNat?, mi.toNat?, pa.toNat?, fm.toNat?, crc.toNat? with
    | some ma, some mi, some pa, some fm, some crc =>
      hexOfBytes (footerBytes decimalCodec
        { version := ⟨BitVec.ofNat 32 ma, BitVec.ofNat 32 mi, BitVec.ofNat 32 pa, BitVec.ofNat 32 fm⟩,
          crc := BitVec.ofNat 32 crc })
    | _, _, _, _, _ => "bad-op"
  | _ => "bad-op"

end TantivyModel.Driver.C20
