import TantivyModel.Driver.Proto
namespace TantivyModel.Driver.C10
/-- stub: the model for C10 is not built yet -/
def handle : List String → String
  | _ => "bad-op"
end TantivyModel.Driver.C10
