import TantivyModel.Driver.Proto
import TantivyModel.Model.GC
import TantivyModel.Driver.C01
/-!
Line protocol of the C10 model.

  `gc <dir> <managed> <live> <fails>`   one complete collection (`GC.fullGC`) from the given state;
        lists are comma separated path numbers (`-` = empty), `<live>` = `/`-separated file lists
        of the live metas (path 0 = meta.json is always living);
        → `<dir'>|<managed'>|<deleted>|<failed>` (each sorted)
  `reg <tok>…`                           a storage log in the token format of `Driver/C01.lean` (with the
        `.managed.json` payloads' path lists): index of the first operation that breaks R1–R4
        (`GC.regOK`, `GC.metaRegOK`), or `ok`
  `steps <dir> <managed> <live> <fails>` the same through the small-step events (`fullGCSteps`),
        → same format, plus `|safe` / `|unsafe` (discipline of the generated events)
-/
namespace TantivyModel.Driver.C10
open TantivyModel TantivyModel.Proto TantivyModel.GC

def liveLists (s : String) : Option (List (List Nat)) :=
  if s == "-" then some [] else (s.splitOn "/").mapM natList

def sortNat (l : List Nat) : List Nat := (l.toArray.qsort (· < ·)).toList

def showSt (s : St) : String :=
  showNatList (sortNat s.dir) ++ "|" ++ showNatList (sortNat s.managed) ++ "|" ++
    showNatList (sortNat s.deleted) ++ "|" ++ showNatList (sortNat s.failed)

def mk (dir managed : List Nat) (live : List (List Nat)) : St :=
  { dir := dir, managed := managed, live := live, pending := none, deleted := [], failed := [] }

def regWalk : Storage.Dir → List Driver.C01.Tok → Nat → Option Nat
  | _, [], _ => none
  | s, .op o :: ts, i => if regOK s o && metaRegOK s o then regWalk (s.step o) ts (i + 1) else some i
  | s, _ :: ts, i => regWalk s ts (i + 1)

def handle : List String → String
  | "reg" :: toks =>
    match toks.mapM Driver.C01.parseTok with
    | none => "bad-op"
    | some ts => match regWalk Storage.Dir.empty ts 0 with
      | none => "ok"
      | some i => toString i
  | ["gc", d, m, l, f] =>
    match natList d, natList m, liveLists l, natList f with
    | some d, some m, some l, some f => showSt (fullGC (mk d m l) f)
    | _, _, _, _ => "bad-op"
  | ["steps", d, m, l, f] =>
    match natList d, natList m, liveLists l, natList f with
    | some d, some m, some l, some f =>
      let s := mk d m l
      let evs := fullGCSteps s f
      let r := s.run evs
      showSt r ++ "|" ++ (if Disc s evs then "safe" else "unsafe")
    | _, _, _, _ => "bad-op"
  | _ => "bad-op"

end TantivyModel.Driver.C10
