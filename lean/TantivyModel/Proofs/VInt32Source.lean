import TantivyModel.Gen.Postings
import TantivyModel.Model.VInt
import TantivyModel.Model.TermInfoStore
/-! the mechanically translated body of `serialize_vint_u32` (rs2lean) produces the bytes of the
hand-written model, for every `u32` -/
namespace TantivyModel.VInt
open TantivyModel.Gen.Postings

/-- a 7-bit mask at group `k` selects the `k`-th 7-bit group -/
theorem and_mask (v k : Nat) : v &&& (127 <<< (7 * k)) = (v / 2 ^ (7 * k) % 2 ^ 7) * 2 ^ (7 * k) := by
  apply Nat.eq_of_testBit_eq
  intro i
  have h127 : (127 : Nat) = 2 ^ 7 - 1 := by decide
  rw [Nat.testBit_and, Nat.testBit_shiftLeft, h127, Nat.testBit_two_pow_sub_one, Nat.testBit_mul_two_pow,
    Nat.testBit_mod_two_pow, Nat.testBit_div_two_pow]
  by_cases h : 7 * k ≤ i
  · have e : i - 7 * k + 7 * k = i := by omega
    simp [h, e, Bool.and_comm]
  · simp [h]

theorem or_low (a b i : Nat) (hb : b < 2 ^ i) : b ||| a * 2 ^ i = b + a * 2 ^ i := by
  rw [Nat.or_comm, ← Nat.shiftLeft_eq, ← Nat.shiftLeft_add_eq_or_of_lt hb, Nat.add_comm]

theorem or_low_lit (a b P i : Nat) (hP : P = 2 ^ i) (hb : b < P) : b ||| a * P = b + a * P := by
  subst hP; exact or_low a b i hb

theorem shift_group (g M s P : Nat) (hg : g < 128) (hMP : M * s = P) (hpos : 0 < P)
    (hP : 128 * P ≤ 18446744073709551616) : g * M * s % 18446744073709551616 = g * P := by
  rw [Nat.mul_assoc, hMP]
  apply Nat.mod_eq_of_lt
  exact Nat.lt_of_lt_of_le (Nat.mul_lt_mul_of_pos_right hg hpos) hP

/-- the bytes `*buf = res.to_le_bytes(); &buf[0..num_bytes]` -/
def packedBytes (val : BitVec 32) : List Nat :=
  TermInfoStore.natToLe (serialize_vint_u32_packed val).2.toNat (serialize_vint_u32_packed val).1.toNat

abbrev modelBytes (v : Nat) : List Nat :=
  serializeU32 VINT32_LADDER VINT32_LAST_BYTES VINT32_RADIX VINT32_STOP_BIT v

theorem packed_1 (val : BitVec 32) (h1 : val.toNat < 128) : packedBytes val = modelBytes val.toNat := by
  have hv64 : val.toNat % 18446744073709551616 = val.toNat := Nat.mod_eq_of_lt (by omega)
  have hl : VINT32_LADDER = [(128, 1), (16384, 2), (2097152, 3), (268435456, 4)] := by decide
  have h5 : VINT32_LAST_BYTES = 5 := by decide
  have hr : VINT32_RADIX = 128 := by decide
  have hs : VINT32_STOP_BIT = 128 := by decide
  have hres : (serialize_vint_u32_packed val).1.toNat = val.toNat + 128 ∧
      (serialize_vint_u32_packed val).2.toNat = 1 := by
    unfold serialize_vint_u32_packed
    simp only [BitVec.ult, BitVec.toNat_setWidth, BitVec.toNat_ofNat]
    simp [hv64, h1]
    have e : (128 : Nat) = 1 * 2 ^ 7 := by decide
    rw [e, or_low _ _ 7 (by omega)]
  unfold packedBytes modelBytes
  rw [hres.1, hres.2, hl, h5, hr, hs]
  simp [TermInfoStore.natToLe, serializeU32, ladderBytes, h1, List.range_succ]
  omega

theorem packed_2 (val : BitVec 32) (h1 : ¬ val.toNat < 128) (h2 : val.toNat < 16384) :
    packedBytes val = modelBytes val.toNat := by
  have hv64 : val.toNat % 18446744073709551616 = val.toNat := Nat.mod_eq_of_lt (by omega)
  have hl : VINT32_LADDER = [(128, 1), (16384, 2), (2097152, 3), (268435456, 4)] := by decide
  have h5 : VINT32_LAST_BYTES = 5 := by decide
  have hr : VINT32_RADIX = 128 := by decide
  have hs : VINT32_STOP_BIT = 128 := by decide
  have hres : (serialize_vint_u32_packed val).1.toNat = val.toNat % 128 + 256 * (val.toNat / 128 % 128 + 128) ∧
      (serialize_vint_u32_packed val).2.toNat = 2 := by
    unfold serialize_vint_u32_packed
    simp only [BitVec.ult, BitVec.toNat_setWidth, BitVec.toNat_ofNat]
    simp [hv64, h1, h2]
    have m0 := and_mask val.toNat 0
    have m1 := and_mask val.toNat 1
    simp only [Nat.reduceMul, Nat.reducePow, Nat.reduceShiftLeft, Nat.shiftLeft_zero, Nat.div_one, Nat.mul_one] at m0 m1
    rw [m0, m1, Nat.shiftLeft_eq]
    have e1 : val.toNat / 128 % 128 * 128 * 2 ^ 1 % 18446744073709551616 = (val.toNat / 128 % 128) * 2 ^ 8 := by omega
    have es : (32768 : Nat) = 1 * 2 ^ 15 := by decide
    rw [e1, or_low _ _ 8 (by omega), es, or_low _ _ 15 (by omega)]
    omega
  unfold packedBytes modelBytes
  rw [hres.1, hres.2, hl, h5, hr, hs]
  simp [TermInfoStore.natToLe, serializeU32, ladderBytes, h1, h2, List.range_succ]
  omega

theorem packed_3 (val : BitVec 32) (h1 : ¬ val.toNat < 128) (h2 : ¬ val.toNat < 16384)
    (h3 : val.toNat < 2097152) : packedBytes val = modelBytes val.toNat := by
  have hv64 : val.toNat % 18446744073709551616 = val.toNat := Nat.mod_eq_of_lt (by omega)
  have hl : VINT32_LADDER = [(128, 1), (16384, 2), (2097152, 3), (268435456, 4)] := by decide
  have h5 : VINT32_LAST_BYTES = 5 := by decide
  have hr : VINT32_RADIX = 128 := by decide
  have hs : VINT32_STOP_BIT = 128 := by decide
  have hres : (serialize_vint_u32_packed val).1.toNat =
      val.toNat % 128 + 256 * (val.toNat / 128 % 128) + 65536 * (val.toNat / 16384 % 128 + 128) ∧
      (serialize_vint_u32_packed val).2.toNat = 3 := by
    unfold serialize_vint_u32_packed
    simp only [BitVec.ult, BitVec.toNat_setWidth, BitVec.toNat_ofNat]
    simp [hv64, h1, h2, h3]
    have m0 := and_mask val.toNat 0
    have m1 := and_mask val.toNat 1
    have m2 := and_mask val.toNat 2
    simp only [Nat.reduceMul, Nat.reducePow, Nat.reduceShiftLeft, Nat.shiftLeft_zero, Nat.div_one, Nat.mul_one] at m0 m1 m2
    rw [m0, m1, m2, Nat.shiftLeft_eq, Nat.shiftLeft_eq]
    have e1 : val.toNat / 128 % 128 * 128 * 2 ^ 1 % 18446744073709551616 = (val.toNat / 128 % 128) * 2 ^ 8 := by omega
    have e2 : val.toNat / 16384 % 128 * 16384 * 2 ^ 2 % 18446744073709551616 = (val.toNat / 16384 % 128) * 2 ^ 16 := by omega
    have es : (8388608 : Nat) = 1 * 2 ^ 23 := by decide
    rw [e1, e2, or_low _ _ 8 (by omega), or_low _ _ 16 (by omega), es, or_low _ _ 23 (by omega)]
    omega
  unfold packedBytes modelBytes
  rw [hres.1, hres.2, hl, h5, hr, hs]
  simp [TermInfoStore.natToLe, serializeU32, ladderBytes, h1, h2, h3, List.range_succ]
  omega

set_option maxRecDepth 8000 in
theorem packed_4 (val : BitVec 32) (h1 : ¬ val.toNat < 128) (h2 : ¬ val.toNat < 16384)
    (h3 : ¬ val.toNat < 2097152) (h4 : val.toNat < 268435456) : packedBytes val = modelBytes val.toNat := by
  have hv64 : val.toNat % 18446744073709551616 = val.toNat := Nat.mod_eq_of_lt (by omega)
  have hl : VINT32_LADDER = [(128, 1), (16384, 2), (2097152, 3), (268435456, 4)] := by decide
  have h5 : VINT32_LAST_BYTES = 5 := by decide
  have hr : VINT32_RADIX = 128 := by decide
  have hs : VINT32_STOP_BIT = 128 := by decide
  have hres : (serialize_vint_u32_packed val).1.toNat =
      val.toNat % 128 + 256 * (val.toNat / 128 % 128) + 65536 * (val.toNat / 16384 % 128) +
        16777216 * (val.toNat / 2097152 % 128 + 128) ∧
      (serialize_vint_u32_packed val).2.toNat = 4 := by
    unfold serialize_vint_u32_packed
    simp only [BitVec.ult, BitVec.toNat_setWidth, BitVec.toNat_ofNat]
    simp [hv64, h1, h2, h3, h4]
    have m0 := and_mask val.toNat 0
    have m1 := and_mask val.toNat 1
    have m2 := and_mask val.toNat 2
    have m3 := and_mask val.toNat 3
    simp only [Nat.reduceMul, Nat.reducePow, Nat.reduceShiftLeft, Nat.shiftLeft_zero, Nat.div_one, Nat.mul_one] at m0 m1 m2 m3
    rw [m0, m1, m2, m3, Nat.shiftLeft_eq, Nat.shiftLeft_eq, Nat.shiftLeft_eq]
    simp only [Nat.reducePow]
    have e1 : val.toNat / 128 % 128 * 128 * 2 % 18446744073709551616 = (val.toNat / 128 % 128) * 256 := by omega
    have e2 : val.toNat / 16384 % 128 * 16384 * 4 % 18446744073709551616 = (val.toNat / 16384 % 128) * 65536 := by omega
    have e3 : val.toNat / 2097152 % 128 * 2097152 * 8 % 18446744073709551616 = (val.toNat / 2097152 % 128) * 16777216 :=
      shift_group _ _ _ _ (Nat.mod_lt _ (by decide)) (by decide) (by decide) (by decide)
    have es : (2147483648 : Nat) = 1 * 2147483648 := by decide
    rw [e1, e2, e3, or_low_lit _ _ 256 8 (by decide) (by omega), or_low_lit _ _ 65536 16 (by decide) (by omega),
      or_low_lit _ _ 16777216 24 (by decide) (by omega), es,
      or_low_lit _ _ 2147483648 31 (by decide) (by omega)]
    omega
  unfold packedBytes modelBytes
  rw [hres.1, hres.2, hl, h5, hr, hs]
  simp [TermInfoStore.natToLe, serializeU32, ladderBytes, h1, h2, h3, h4, List.range_succ]
  have b0 : val.toNat % 128 < 128 := Nat.mod_lt _ (by decide)
  have b1 : val.toNat / 128 % 128 < 128 := Nat.mod_lt _ (by decide)
  have b2 : val.toNat / 16384 % 128 < 128 := Nat.mod_lt _ (by decide)
  have b3 : val.toNat / 2097152 % 128 < 128 := Nat.mod_lt _ (by decide)
  generalize val.toNat % 128 = g0 at b0 ⊢
  generalize val.toNat / 128 % 128 = g1 at b1 ⊢
  generalize val.toNat / 16384 % 128 = g2 at b2 ⊢
  generalize val.toNat / 2097152 % 128 = g3 at b3 ⊢
  omega

set_option maxRecDepth 8000 in
theorem packed_5 (val : BitVec 32) (h1 : ¬ val.toNat < 128) (h2 : ¬ val.toNat < 16384)
    (h3 : ¬ val.toNat < 2097152) (h4 : ¬ val.toNat < 268435456) : packedBytes val = modelBytes val.toNat := by
  have hv : val.toNat < 2 ^ 32 := val.isLt
  have hv64 : val.toNat % 18446744073709551616 = val.toNat := Nat.mod_eq_of_lt (by omega)
  have hl : VINT32_LADDER = [(128, 1), (16384, 2), (2097152, 3), (268435456, 4)] := by decide
  have h5 : VINT32_LAST_BYTES = 5 := by decide
  have hr : VINT32_RADIX = 128 := by decide
  have hs : VINT32_STOP_BIT = 128 := by decide
  have hres : (serialize_vint_u32_packed val).1.toNat =
      val.toNat % 128 + 256 * (val.toNat / 128 % 128) + 65536 * (val.toNat / 16384 % 128) +
        16777216 * (val.toNat / 2097152 % 128) + 4294967296 * (val.toNat / 268435456 % 128 + 128) ∧
      (serialize_vint_u32_packed val).2.toNat = 5 := by
    unfold serialize_vint_u32_packed
    simp only [BitVec.ult, BitVec.toNat_setWidth, BitVec.toNat_ofNat]
    simp [hv64, h1, h2, h3, h4]
    have m0 := and_mask val.toNat 0
    have m1 := and_mask val.toNat 1
    have m2 := and_mask val.toNat 2
    have m3 := and_mask val.toNat 3
    have m4 := and_mask val.toNat 4
    simp only [Nat.reduceMul, Nat.reducePow, Nat.reduceShiftLeft, Nat.shiftLeft_zero, Nat.div_one, Nat.mul_one] at m0 m1 m2 m3 m4
    rw [m0, m1, m2, m3, m4, Nat.shiftLeft_eq, Nat.shiftLeft_eq, Nat.shiftLeft_eq, Nat.shiftLeft_eq]
    simp only [Nat.reducePow]
    have e1 : val.toNat / 128 % 128 * 128 * 2 % 18446744073709551616 = (val.toNat / 128 % 128) * 256 := by omega
    have e2 : val.toNat / 16384 % 128 * 16384 * 4 % 18446744073709551616 = (val.toNat / 16384 % 128) * 65536 := by omega
    have e3 : val.toNat / 2097152 % 128 * 2097152 * 8 % 18446744073709551616 = (val.toNat / 2097152 % 128) * 16777216 :=
      shift_group _ _ _ _ (Nat.mod_lt _ (by decide)) (by decide) (by decide) (by decide)
    have e4 : val.toNat / 268435456 % 128 * 268435456 * 16 % 18446744073709551616 = (val.toNat / 268435456 % 128) * 4294967296 :=
      shift_group _ _ _ _ (Nat.mod_lt _ (by decide)) (by decide) (by decide) (by decide)
    have es : (549755813888 : Nat) = 1 * 549755813888 := by decide
    rw [e1, e2, e3, e4, or_low_lit _ _ 256 8 (by decide) (by omega), or_low_lit _ _ 65536 16 (by decide) (by omega),
      or_low_lit _ _ 16777216 24 (by decide) (by omega), or_low_lit _ _ 4294967296 32 (by decide) (by omega), es,
      or_low_lit _ _ 549755813888 39 (by decide) (by omega)]
    omega
  unfold packedBytes modelBytes
  rw [hres.1, hres.2, hl, h5, hr, hs]
  simp [TermInfoStore.natToLe, serializeU32, ladderBytes, h1, h2, h3, h4, List.range_succ]
  have b0 : val.toNat % 128 < 128 := Nat.mod_lt _ (by decide)
  have b1 : val.toNat / 128 % 128 < 128 := Nat.mod_lt _ (by decide)
  have b2 : val.toNat / 16384 % 128 < 128 := Nat.mod_lt _ (by decide)
  have b3 : val.toNat / 2097152 % 128 < 128 := Nat.mod_lt _ (by decide)
  have b4 : val.toNat / 268435456 % 128 < 128 := Nat.mod_lt _ (by decide)
  generalize val.toNat % 128 = g0 at b0 ⊢
  generalize val.toNat / 128 % 128 = g1 at b1 ⊢
  generalize val.toNat / 16384 % 128 = g2 at b2 ⊢
  generalize val.toNat / 2097152 % 128 = g3 at b3 ⊢
  generalize val.toNat / 268435456 % 128 = g4 at b4 ⊢
  omega

/-- **source text ≡ model**: for every `u32`, the translated `serialize_vint_u32` writes the bytes
of the model's threshold ladder -/
theorem packedBytes_eq_model (val : BitVec 32) : packedBytes val = modelBytes val.toNat := by
  by_cases h1 : val.toNat < 128
  · exact packed_1 val h1
  · by_cases h2 : val.toNat < 16384
    · exact packed_2 val h1 h2
    · by_cases h3 : val.toNat < 2097152
      · exact packed_3 val h1 h2 h3
      · by_cases h4 : val.toNat < 268435456
        · exact packed_4 val h1 h2 h3 h4
        · exact packed_5 val h1 h2 h3 h4

end TantivyModel.VInt
