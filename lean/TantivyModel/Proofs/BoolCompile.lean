import TantivyModel.Model.BoolCompile
/-
Helper lemmas for C03: the scorer-tree combinators built by `complex` denote the boolean
combination of their children.
-/
set_option linter.unusedSimpArgs false
set_option linter.unusedVariables false
namespace TantivyModel.BoolCompile
open TantivyModel.QuerySem

section
variable (n d : Nat)

theorem mem_of_isAll (hd : d < n) {t : STree} (h : isAll t = true) : mem n t d = true := by
  cases t <;> simp_all [isAll, mem]

theorem mem_of_isEmpty {t : STree} (h : isEmpty t = true) : mem n t d = false := by
  cases t <;> simp_all [isEmpty, mem]

theorem not_isEmpty_of_isAll {t : STree} (h : isAll t = true) : isEmpty t = false := by
  cases t <;> simp_all [isAll, isEmpty]

theorem memAny_eq_cnt (ts : List STree) : memAny n ts d = decide (0 < memCnt n ts d) := by
  induction ts with
  | nil => simp [memAny, memCnt]
  | cons t ts ih =>
    simp only [memAny, memCnt, ih]
    by_cases h : mem n t d = true <;> simp [h] <;> omega

theorem memCnt_le (ts : List STree) : memCnt n ts d ≤ ts.length := by
  induction ts with
  | nil => simp [memCnt]
  | cons t ts ih => simp only [memCnt, List.length_cons]; split <;> omega

theorem memAll_eq_cnt (ts : List STree) : memAll n ts d = decide (memCnt n ts d = ts.length) := by
  induction ts with
  | nil => simp [memAll, memCnt]
  | cons t ts ih =>
    have := memCnt_le n d ts
    simp only [memAll, memCnt, ih, List.length_cons]
    by_cases h : mem n t d = true <;> simp [h] <;> omega

theorem memCnt_append (a b : List STree) : memCnt n (a ++ b) d = memCnt n a d + memCnt n b d := by
  induction a with
  | nil => simp [memCnt]
  | cons t ts ih => simp only [List.cons_append, memCnt, ih]; omega

theorem length_strip (ts : List STree) : ts.length = numAll ts + numEmpty ts + (strip ts).length := by
  induction ts with
  | nil => simp [numAll, numEmpty, strip]
  | cons t ts ih =>
    simp only [numAll, numEmpty, strip] at ih ⊢
    cases hA : isAll t
    · cases hE : isEmpty t <;> simp [List.countP_cons, List.filter_cons, hA, hE] <;> omega
    · have hE := not_isEmpty_of_isAll hA
      simp [List.countP_cons, List.filter_cons, hA, hE]; omega

theorem memCnt_strip (hd : d < n) (ts : List STree) :
    memCnt n ts d = numAll ts + memCnt n (strip ts) d := by
  induction ts with
  | nil => simp [numAll, strip, memCnt]
  | cons t ts ih =>
    simp only [numAll, strip] at ih ⊢
    cases hA : isAll t
    · cases hE : isEmpty t
      · simp [List.countP_cons, List.filter_cons, hA, hE, memCnt, ih]; omega
      · simp [List.countP_cons, List.filter_cons, hA, hE, memCnt, ih, mem_of_isEmpty n d hE]
    · have hE := not_isEmpty_of_isAll hA
      simp [List.countP_cons, List.filter_cons, hA, hE, memCnt, ih, mem_of_isAll n d hd hA]; omega

/-- number of stripped children that are `EmptyScorer`s: they never match -/
theorem memCnt_le_strip (hd : d < n) (ts : List STree) :
    memCnt n ts d ≤ numAll ts + (strip ts).length := by
  have := memCnt_strip n d hd ts
  have := memCnt_le n d (strip ts)
  omega

theorem mem_mkInter (hd : d < n) (cs : List STree) (hne : cs ≠ []) :
    mem n (mkInter n cs) d = memAll n cs d := by
  unfold mkInter
  split
  · exact absurd rfl hne
  · simp [memAll]
  · split
    · rename_i h
      have := List.all_eq_true.mp h d (List.mem_range.mpr hd)
      simp only [Bool.not_eq_eq_eq_not, Bool.not_true] at this
      simp [mem, this]
    · simp [mem]

theorem mem_mkUnion (cs : List STree) : mem n (mkUnion cs) d = memAny n cs d := by
  unfold mkUnion
  split
  · simp [memAny]
  · simp [mem]

theorem mem_mkDisj (cs : List STree) (k : Nat) (h : 2 ≤ cs.length) :
    mem n (mkDisj cs k) d = decide (k ≤ memCnt n cs d) := by
  unfold mkDisj
  split
  · simp at h
  · simp [mem]

end

end TantivyModel.BoolCompile

namespace TantivyModel.BoolCompile
open TantivyModel.QuerySem

theorem strip_nil_of_nil {ts : List STree} (h : ts = []) : strip ts = [] ∧ numAll ts = 0 ∧ numEmpty ts = 0 := by
  subst h; simp [strip, numAll, numEmpty]

theorem mem_effMust (n d : Nat) (hd : d < n) (must : List STree) (k : Nat) :
    (effMust n must k = none ∧ must.length = 0 ∧ k = 0) ∨
    (∃ m, effMust n must k = some m ∧ mem n m d = memAll n must d ∧ ¬ (must.length = 0 ∧ k = 0)) := by
  unfold effMust
  cases must with
  | nil =>
    by_cases hk : 0 < k
    · right; exact ⟨.all, by simp [hk], by simp [mem, memAll, hd], by omega⟩
    · left; simp [hk]; omega
  | cons t ts =>
    right
    exact ⟨mkInter n (t :: ts), by simp, mem_mkInter n d hd _ (by simp), by simp⟩

/-- the effective minimum after `msm = 0 ∧ no must ∧ some should → 1` -/
def effMsm (nMust nShould msm : Nat) : Nat :=
  if msm = 0 ∧ nMust = 0 ∧ nShould ≠ 0 then 1 else msm

theorem mem_include_ignored (scoring : Bool) (n d : Nat) (hd : d < n) (M : List STree) (aM aS : Nat) :
    mem n (includeScorer scoring n (.ignored, M) aM aS) d = true ↔
      (¬ (M.length = 0 ∧ aM + aS = 0) ∧ memCnt n M d = M.length) := by
  have aMl := memAll_eq_cnt n d M
  simp only [includeScorer]
  rcases mem_effMust n d hd M (aM + aS) with ⟨h, hM, hk⟩ | ⟨m, h, hm, hne⟩
  · simp only [h, Option.getD_none, mem]
    constructor
    · intro h; cases h
    · intro h; exact absurd ⟨hM, hk⟩ h.1
  · simp only [h, Option.getD_some, hm, aMl, decide_eq_true_eq]
    exact ⟨fun hc => ⟨hne, hc⟩, fun h => h.2⟩

theorem mem_include_optional (scoring : Bool) (n d : Nat) (hd : d < n) (M : List STree) (s : STree)
    (aM aS : Nat) :
    mem n (includeScorer scoring n (.optional s, M) aM aS) d = true ↔
      ((M.length = 0 ∧ aM = 0 ∧ (0 < aS ∨ mem n s d = true)) ∨
       (¬ (M.length = 0 ∧ aM = 0) ∧ memCnt n M d = M.length)) := by
  have aMl := memAll_eq_cnt n d M
  simp only [includeScorer]
  rcases mem_effMust n d hd M aM with ⟨h, hM, hk⟩ | ⟨m, h, hm, hne⟩
  · simp only [h]
    by_cases hs : 0 < aS
    · cases scoring <;> simp [hs, mem, memAny, hd, hM, hk]
    · simp [hs, hM, hk]
  · simp only [h]
    have e : mem n (if scoring = true then m.reqOpt s else m) d = mem n m d := by
      cases scoring <;> simp [mem]
    rw [e, hm, aMl]
    simp only [decide_eq_true_eq]
    constructor
    · intro hc; exact Or.inr ⟨hne, hc⟩
    · rintro (⟨h1, h2, _⟩ | ⟨_, h2⟩)
      · exact absurd ⟨h1, h2⟩ hne
      · exact h2

theorem mem_include_required (scoring : Bool) (n d : Nat) (hd : d < n) (M : List STree) (s : STree)
    (aM aS : Nat) :
    mem n (includeScorer scoring n (.required s, M) aM aS) d = true ↔
      (mem n s d = true ∧ memCnt n M d = M.length) := by
  have aMl := memAll_eq_cnt n d M
  have cM := memCnt_le n d M
  simp only [includeScorer]
  rcases mem_effMust n d hd M aM with ⟨h, hM, hk⟩ | ⟨m, h, hm, hne⟩
  · simp only [h]
    constructor
    · intro hs; exact ⟨hs, by omega⟩
    · exact fun h => h.1
  · simp only [h]
    rw [mem_mkInter n d hd _ (by simp)]
    simp only [memAll, hm, aMl, Bool.and_true, Bool.and_eq_true, decide_eq_true_eq]
    exact ⟨fun h => ⟨h.2, h.1⟩, fun h => ⟨h.2, h.1⟩⟩

/-- `complex_scorer` denotes the boolean combination of the per-occur scorers -/
theorem mem_complex (scoring : Bool) (n d : Nat) (hd : d < n) (must should excl : List STree) (msm : Nat) :
    mem n (complex scoring n must should excl msm) d = true ↔
      (¬ (must.length = 0 ∧ should.length = 0) ∧ memCnt n must d = must.length ∧ memCnt n excl d = 0
        ∧ effMsm must.length should.length msm ≤ memCnt n should d) := by
  have hM := memCnt_strip n d hd must
  have hS := memCnt_strip n d hd should
  have hX := memCnt_strip n d hd excl
  have lM := length_strip must
  have lS := length_strip should
  have cM := memCnt_le n d (strip must)
  have cS := memCnt_le n d (strip should)
  have cX := memCnt_le n d (strip excl)
  have apMS := memCnt_append n d (strip must) (strip should)
  have uS := memAny_eq_cnt n d (strip should)
  have uX := memAny_eq_cnt n d (strip excl)
  have lenX : (strip excl).isEmpty = true ↔ (strip excl).length = 0 := by simp
  have lenApp : (strip must ++ strip should).length = (strip must).length + (strip should).length := by simp
  -- the include scorer
  have hincl : numEmpty must = 0 → ¬ ((strip should).length < msm - numAll should) →
      (mem n (includeScorer scoring n (shouldMethod (strip must) (strip should) (msm - numAll should))
        (numAll must) (numAll should)) d = true ↔
        (¬ (must.length = 0 ∧ should.length = 0) ∧ memCnt n must d = must.length
          ∧ effMsm must.length should.length msm ≤ memCnt n should d)) := by
    intro hE hlen
    unfold shouldMethod effMsm
    by_cases h0 : msm - numAll should = 0
    · by_cases hs0 : (strip should).length = 0
      · rw [if_pos h0, if_pos hs0]
        rw [mem_include_ignored scoring n d hd]
        split <;> omega
      · rw [if_pos h0, if_neg hs0]
        rw [mem_include_optional scoring n d hd, mem_mkUnion, uS]
        simp only [decide_eq_true_eq]
        split <;> omega
    · by_cases h1 : msm - numAll should = 1
      · rw [if_neg h0, if_pos h1]
        rw [mem_include_required scoring n d hd, mem_mkUnion, uS]
        simp only [decide_eq_true_eq]
        split <;> omega
      · by_cases hp : (strip should).length = msm - numAll should
        · rw [if_neg h0, if_neg h1, if_pos hp]
          rw [mem_include_ignored scoring n d hd]
          split <;> omega
        · rw [if_neg h0, if_neg h1, if_neg hp]
          rw [mem_include_required scoring n d hd, mem_mkDisj n d _ _ (by omega)]
          simp only [decide_eq_true_eq]
          split <;> omega
  unfold complex
  by_cases hE : 0 < numEmpty must
  · rw [if_pos hE]
    simp only [mem]
    constructor
    · intro h; cases h
    · intro h; omega
  · by_cases hA : 0 < numAll excl
    · rw [if_neg hE, if_pos hA]
      simp only [mem]
      constructor
      · intro h; cases h
      · intro h; omega
    · by_cases hlen : (strip should).length < msm - numAll should
      · rw [if_neg hE, if_neg hA, if_pos hlen]
        simp only [mem]
        constructor
        · intro h; cases h
        · unfold effMsm; intro h; split at h <;> omega
      · rw [if_neg hE, if_neg hA, if_neg hlen]
        have hi := hincl (by omega) hlen
        by_cases hx : (strip excl).isEmpty = true
        · rw [if_pos hx, hi]
          have := lenX.mp hx
          constructor
          · intro h; refine ⟨h.1, h.2.1, by omega, h.2.2⟩
          · intro h; exact ⟨h.1, h.2.1, h.2.2.2⟩
        · rw [if_neg hx]
          simp only [mem, Bool.and_eq_true, hi, uX, Bool.not_eq_eq_eq_not, Bool.not_true, decide_eq_false_iff_not]
          have hxl : (strip excl).length ≠ 0 := fun h => hx (lenX.mpr h)
          constructor
          · intro h; refine ⟨h.1.1, h.1.2.1, by omega, h.1.2.2⟩
          · intro h; exact ⟨⟨h.1, h.2.1, h.2.2.2⟩, by omega⟩


/-! ### `BooleanWeight::scorer` against `boolSem` -/

def valsOf (n d : Nat) (cs : List (Occur × STree)) : List (Occur × Bool) :=
  cs.map (fun c => (c.1, mem n c.2 d))

theorem countOcc_valsOf (n d : Nat) (o : Occur) (cs : List (Occur × STree)) :
    countOcc o (valsOf n d cs) = (occList o cs).length := by
  induction cs with
  | nil => simp [valsOf, countOcc, occList]
  | cons c cs ih =>
    simp only [valsOf, countOcc, occList, List.map_cons, List.countP_cons, List.filter_cons] at ih ⊢
    by_cases h : (c.1 == o) = true <;> simp [h, ih]

theorem countHit_valsOf (n d : Nat) (o : Occur) (cs : List (Occur × STree)) :
    countHit o (valsOf n d cs) = memCnt n (occList o cs) d := by
  induction cs with
  | nil => simp [valsOf, countHit, occList, memCnt]
  | cons c cs ih =>
    simp only [valsOf, countHit, occList, List.map_cons, List.countP_cons, List.filter_cons] at ih ⊢
    by_cases h : (c.1 == o) = true
    · by_cases hm : mem n c.2 d = true <;> simp [h, hm, ih, memCnt] <;> omega
    · simp [h, ih]

/-- the side condition of DESIGN F4 at scorer-tree level (void when the guard is present) -/
def singleOkT (guard : Bool) (cs : List (Occur × STree)) (msm : Nat) : Bool :=
  guard ||
  match cs with
  | [(o, _)] =>
    match o with
    | .should => decide (msm ≤ 1)
    | .must => decide (msm = 0)
    | .mustNot => true
  | _ => true

theorem boolSem_iff (vals : List (Occur × Bool)) (msm : Nat) :
    boolSem vals msm = true ↔
      (¬ (countOcc .must vals = 0 ∧ countOcc .should vals = 0)
        ∧ countHit .must vals = countOcc .must vals ∧ countHit .mustNot vals = 0
        ∧ effMsm (countOcc .must vals) (countOcc .should vals) msm ≤ countHit .should vals) := by
  unfold boolSem effMsm
  simp only [Bool.and_eq_true, Bool.not_eq_eq_eq_not, Bool.not_true, Bool.and_eq_false_iff,
    beq_iff_eq, decide_eq_true_eq, beq_eq_false_iff_ne, ne_eq]
  constructor
  · rintro ⟨⟨⟨h1, h2⟩, h3⟩, h4⟩
    refine ⟨by omega, h2, h3, ?_⟩
    split <;> split at h4 <;> omega
  · rintro ⟨h1, h2, h3, h4⟩
    refine ⟨⟨⟨by omega, h2⟩, h3⟩, ?_⟩
    split <;> split at h4 <;> omega

theorem mem_boolScorer (guard : Bool) (scoring : Bool) (n d : Nat) (hd : d < n) (cs : List (Occur × STree)) (msm : Nat)
    (hok : singleOkT guard cs msm = true) :
    mem n (boolScorer guard scoring n cs msm) d = boolSem (valsOf n d cs) msm := by
  have key : ∀ cs : List (Occur × STree),
      (mem n (complex scoring n (occList .must cs) (occList .should cs) (occList .mustNot cs) msm) d = true
        ↔ boolSem (valsOf n d cs) msm = true) := by
    intro cs
    rw [mem_complex scoring n d hd, boolSem_iff]
    simp only [countOcc_valsOf, countHit_valsOf]
  unfold boolScorer
  split
  · simp [valsOf, boolSem, countOcc, mem]
  · rename_i o t
    have e1 : (Occur.must == Occur.mustNot) = false := by decide
    have e2 : (Occur.should == Occur.mustNot) = false := by decide
    have e3 : (Occur.must == Occur.should) = false := by decide
    have e4 : (Occur.should == Occur.should) = true := by decide
    cases o
    · -- must
      by_cases hm0 : msm = 0
      · subst hm0
        by_cases hm : mem n t d = true <;> cases guard <;>
          simp [e1, e3, valsOf, boolSem, countOcc, countHit, hm]
      · cases guard
        · simp [singleOkT] at hok; exact absurd hok hm0
        · have : 0 < msm := Nat.pos_of_ne_zero hm0
          by_cases hm : mem n t d = true <;>
            simp [e1, e3, this, valsOf, boolSem, countOcc, countHit, hm, mem] <;> omega
    · -- should
      by_cases hle : msm ≤ 1
      · have hmsm : msm = 0 ∨ msm = 1 := by omega
        rcases hmsm with h | h <;> subst h <;>
          by_cases hm : mem n t d = true <;> cases guard <;>
            simp [e2, e4, valsOf, boolSem, countOcc, countHit, hm]
      · cases guard
        · simp [singleOkT] at hok; exact absurd hok hle
        · have : 1 < msm := by omega
          have h0 : ¬ msm = 0 := by omega
          have h1 : ¬ msm ≤ 1 := by omega
          by_cases hm : mem n t d = true <;>
            simp [e2, e4, this, h0, h1, valsOf, boolSem, countOcc, countHit, hm, mem]
    · -- must_not
      simp [valsOf, boolSem, countOcc, countHit, mem]
  · rename_i h1 h2
    have := key cs
    cases hb : boolSem (valsOf n d cs) msm
    · cases hm : mem n (complex scoring n (occList .must cs) (occList .should cs) (occList .mustNot cs) msm) d
      · rfl
      · rw [this.mp hm] at hb; cases hb
    · exact this.mpr hb

end TantivyModel.BoolCompile
