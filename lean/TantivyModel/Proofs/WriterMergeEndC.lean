import TantivyModel.Proofs.WriterMergeEndB
/-!
`mergeEnd` on committed sources: `meta.json` is rewritten; what a fresh searcher shows is unchanged.
-/
namespace TantivyModel.Writer
open TantivyModel.WriterSpec

variable {α : Type} [DecidableEq α]

/-- the alive documents of a finished segment -/
theorem aliveDocs_of_segOK (log : List (DelOp α)) (sg : Seg α) (h : SegOK log sg) :
    aliveDocs sg = ((segPairs sg).filter (fun p => !dead (log.take sg.cursor) p)).map (·.1) := by
  rw [← alivePairs_of_segOK log sg h]
  simp [aliveDocs, List.map_map, Function.comp_def]

/-- what is known at the end of a merge whose sources are all committed -/
structure EndC (s : WState α) (m : Merge α) (rc : Nat) : Prop where
  rcLe : rc ≤ s.log.length
  before : ∀ del ∈ s.log.take rc, del.op < s.metas.opstamp
  after : ∀ del ∈ s.log.drop rc, s.metas.opstamp < del.op
  srcCur : ∀ x ∈ srcsOf m.ids s.committed, x.cursor = rc
  res : match m.result with
    | some M => (catchUp s.log s.metas.opstamp M).cursor = rc ∧ SegOK s.log (catchUp s.log s.metas.opstamp M)
        ∧ CommittedAt s.log s.metas.opstamp (catchUp s.log s.metas.opstamp M)
        ∧ List.Perm ((segPairs (catchUp s.log s.metas.opstamp M)).filter (fun p => !dead (s.log.take rc) p))
            (((srcsOf m.ids s.committed).flatMap segPairs).filter (fun p => !dead (s.log.take rc) p))
        ∧ (∀ p ∈ segPairs (catchUp s.log s.metas.opstamp M), p ∈ (srcsOf m.ids s.committed).flatMap segPairs)
    | none => ∀ p ∈ (srcsOf m.ids s.committed).flatMap segPairs, dead (s.log.take rc) p = true

theorem endC_facts (s : WState α) (P C : List α) (hw : WInv s P C) (hm : MInv s) (m : Merge α)
    (hmem : m ∈ s.merges) (hp : present m.ids s.committed) : ∃ rc, EndC s m rc := by
  have hRn := regsNodup s hm
  have hne := hm.idsNe m hmem
  have hpR : present m.ids (s.uncommitted ++ s.committed) := fun i hi => by
    obtain ⟨x, hx, he⟩ := hp i hi; exact ⟨x, List.mem_append_right _ hx, he⟩
  have hsrc : srcsOf m.ids (s.uncommitted ++ s.committed) = srcsOf m.ids s.committed := by
    simp only [srcsOf, List.filter_append]
    have := srcsOf_other_nil' m.ids s.uncommitted s.committed hRn hp
    simp only [srcsOf] at this
    rw [this, List.nil_append]
  have hok : ∀ sg ∈ s.committed, SegOK s.log sg := fun sg hsg => hw.segs sg (List.mem_append_right _ hsg)
  -- a source, and the common cursor of the committed segments
  obtain ⟨i0, hi0⟩ : ∃ i, i ∈ m.ids := by
    cases hids : m.ids with
    | nil => exact absurd hids hne
    | cons i _ => exact ⟨i, by simp⟩
  obtain ⟨s0, hs0, _⟩ := hp i0 hi0
  have hcis0 := hm.cis s0 hs0
  have hsame : ∀ sg ∈ s.committed, sg.cursor = s0.cursor := by
    intro sg hsg
    have a := hm.cis sg hsg
    exact boundary_unique s.log s.metas.opstamp sg.cursor s0.cursor (hok sg hsg).cur (hok s0 hs0).cur
      a.1 a.2 hcis0.1 hcis0.2
  have hneB : ∀ del ∈ s.log, del.op ≠ s.metas.opstamp := committedAt_ne s.log _ s0 hcis0
  obtain ⟨c, hc, hr3, g⟩ := hm.good m hmem hpR
  have hbefore := hr3 hp
  -- c ≤ s0.cursor
  have hcle : c ≤ s0.cursor := by
    rcases Nat.lt_or_ge s0.cursor c with hlt | hge
    · exfalso
      have hl : s0.cursor < s.log.length := by omega
      have m1 : s.log[s0.cursor] ∈ s.log.drop s0.cursor :=
        List.mem_iff_getElem.mpr ⟨0, by simp; omega, by simp⟩
      have m2 : s.log[s0.cursor] ∈ s.log.take c := by
        rw [List.mem_take_iff_getElem]; exact ⟨s0.cursor, by omega, rfl⟩
      have := hcis0.2 _ m1; have := hbefore _ m2; omega
    · exact hge
  refine ⟨s0.cursor, (hok s0 hs0).cur, hcis0.1, hcis0.2, fun x hx => hsame x (List.mem_filter.mp hx).1, ?_⟩
  cases hr : m.result with
  | none =>
    simp only [hr, hsrc] at g ⊢
    intro p hp'
    exact dead_take_le s.log c s0.cursor hcle p (g p hp')
  | some M =>
    simp only [hr, hsrc] at g ⊢
    obtain ⟨g0, g1, _, g3⟩ := g
    subst g0
    obtain ⟨c1, c2, c3, _⟩ := catchUp_spec s.log s.metas.opstamp M hw.sorted g1 hbefore hneB
    have hrc : (catchUp s.log s.metas.opstamp M).cursor = s0.cursor :=
      boundary_unique s.log s.metas.opstamp _ s0.cursor c1.cur (hok s0 hs0).cur c2.1 c2.2 hcis0.1 hcis0.2
    refine ⟨hrc, c1, c2, ?_, ?_⟩
    · rw [c3]
      have := List.Perm.filter (fun p => !dead (s.log.take s0.cursor) p) g3
      rw [filter_absorb] at this
      · exact this
      · intro x hx
        cases hd : dead (s.log.take M.cursor) x
        · rfl
        · have := dead_take_le s.log M.cursor s0.cursor hcle x hd
          simp [this] at hx
    · intro p hp'
      rw [c3] at hp'
      exact (List.mem_filter.mp (g3.mem_iff.mp hp')).1

/-- `mergeEnd` on committed sources keeps `WInv` -/
theorem winv_endC (s : WState α) (P C : List α) (hw : WInv s P C) (hm : MInv s) (k : Nat) (m : Merge α)
    (hk : s.merges[k]? = some m) (hp : present m.ids s.committed) : WInv (endStateC s k m) P C := by
  have hmem : m ∈ s.merges := List.mem_of_getElem? hk
  obtain ⟨rc, hE⟩ := endC_facts s P C hw hm m hmem hp
  let res := m.result.map (catchUp s.log s.metas.opstamp)
  let C' := replaceIn s.committed m.ids res
  have hCc : (endStateC s k m).committed = C'.filter hasAlive := rfl
  have hCm : (endStateC s k m).metas.segs = C'.filter hasAlive := rfl
  have hok : ∀ sg ∈ s.committed, SegOK s.log sg := fun sg hsg => hw.segs sg (List.mem_append_right _ hsg)
  have hCsub : ∀ p ∈ s.committed.flatMap segPairs, p ∈ allPairs s := by
    intro p hp'
    simp only [allPairs, List.mem_append]; exact Or.inl (Or.inr hp')
  have hresOK : ∀ r, res = some r → SegOK s.log r ∧ CommittedAt s.log s.metas.opstamp r
      ∧ ∀ p ∈ segPairs r, p ∈ (srcsOf m.ids s.committed).flatMap segPairs := by
    intro r hr'
    cases hr : m.result with
    | none => simp [res, hr] at hr'
    | some M =>
      have hres := hE.res
      simp only [hr] at hres
      simp only [res, hr, Option.map_some, Option.some.injEq] at hr'
      subst hr'
      exact ⟨hres.2.1, hres.2.2.1, hres.2.2.2.2⟩
  have hC'ok : ∀ sg ∈ C', SegOK s.log sg := by
    intro sg hsg
    rcases replaceIn_mem s.committed m.ids res sg hsg with ⟨hx, _⟩ | hres
    · exact hok sg hx
    · exact (hresOK sg hres).1
  have hC'pairs : ∀ p ∈ C'.flatMap segPairs, p ∈ s.committed.flatMap segPairs := by
    apply replaceIn_pairs_sub
    intro r hr' p hp'
    exact srcsOf_pairs_sub _ _ p ((hresOK r hr').2.2 p hp')
  -- live pairs
  have hlive : List.Perm ((C'.flatMap segPairs).filter (fun p => !dead s.log p))
      ((s.committed.flatMap segPairs).filter (fun p => !dead s.log p)) := by
    show List.Perm (((replaceIn s.committed m.ids (m.result.map (catchUp s.log s.metas.opstamp))).flatMap segPairs).filter _) _
    have hres := hE.res
    cases hr : m.result with
    | none =>
      simp only [hr] at hres
      simp only [Option.map_none]
      exact replace_live_none s.log s.committed m.ids (fun p hp' => dead_take_mono s.log rc p (hres p hp'))
    | some M =>
      simp only [hr] at hres
      simp only [Option.map_some]
      -- the pairs of the result that survive `take rc` are those of the sources that do
      have hsplit := List.Perm.filter (fun p => !dead s.log p)
        (List.Perm.flatMap_right segPairs (replace_split m.ids s.committed))
      rw [List.flatMap_append, List.filter_append] at hsplit
      have hr2 := List.Perm.filter (fun p => !dead s.log p) hres.2.2.2.1
      rw [filter_absorb, filter_absorb] at hr2
      · simp only [replaceIn, Option.toList, List.flatMap_append, List.flatMap_cons, List.flatMap_nil,
          List.append_nil, List.filter_append]
        exact (List.perm_append_comm.trans (List.Perm.append_right _ hr2)).trans hsplit.symm
      · intro x hx
        cases hd : dead (s.log.take rc) x
        · rfl
        · simp [dead_take_mono s.log rc x hd] at hx
      · intro x hx
        cases hd : dead (s.log.take rc) x
        · rfl
        · simp [dead_take_mono s.log rc x hd] at hx
  -- what a fresh searcher shows
  have hpub : List.Perm (published (endStateC s k m)) (published s) := by
    have hC0 : s.committed ≠ [] := by
      obtain ⟨sg, hsg, _⟩ := present_nonempty m.ids s.committed (hm.idsNe m hmem) hp
      intro he; rw [he] at hsg; simp [srcsOf] at hsg
    have hpi : List.Perm (s.committed.flatMap aliveDocs) (published s) := by
      rcases hm.pubInv with he | hpi
      · exact absurd he hC0
      · exact hpi
    refine List.Perm.trans ?_ hpi
    show List.Perm ((C'.filter hasAlive).flatMap aliveDocs) _
    rw [aliveDocs_filter_hasAlive]
    have hsplit := List.Perm.flatMap_right aliveDocs (replace_split m.ids s.committed)
    rw [List.flatMap_append] at hsplit
    refine List.Perm.trans ?_ hsplit.symm
    show List.Perm ((s.committed.filter (fun sg => !m.ids.contains sg.id) ++ res.toList).flatMap aliveDocs) _
    rw [List.flatMap_append]
    refine List.perm_append_comm.trans (List.Perm.append_right _ ?_)
    -- alive documents of the result = alive documents of the sources
    have hsrcAlive : (srcsOf m.ids s.committed).flatMap aliveDocs
        = (((srcsOf m.ids s.committed).flatMap segPairs).filter (fun p => !dead (s.log.take rc) p)).map (·.1) := by
      rw [filter_flatMap', List.map_flatMap]
      apply flatMap_congr'
      intro x hx
      rw [aliveDocs_of_segOK s.log x (hok x (List.mem_filter.mp hx).1), hE.srcCur x hx]
    rw [hsrcAlive]
    have hres := hE.res
    cases hr : m.result with
    | none =>
      simp only [hr] at hres
      have : ((srcsOf m.ids s.committed).flatMap segPairs).filter (fun p => !dead (s.log.take rc) p) = [] := by
        simp only [List.filter_eq_nil_iff]
        intro p hp'; simp [hres p hp']
      simp [res, hr, this]
    | some M =>
      simp only [hr] at hres
      simp only [res, hr, Option.map_some, Option.toList, List.flatMap_cons, List.flatMap_nil, List.append_nil]
      rw [aliveDocs_of_segOK s.log _ hres.2.1, hres.1]
      exact List.Perm.map _ hres.2.2.2.1
  refine winv_regs s (endStateC s k m) P C hw rfl rfl rfl rfl rfl rfl (List.Perm.refl _) ?_ ?_ ?_ ?_ hpub ?_
  · rw [hCc, live_filter_hasAlive s.log C' hC'ok]
    exact hlive
  · intro p hp'
    simp only [allPairs, List.mem_append]; exact Or.inl (Or.inl (Or.inr hp'))
  · intro p hp'
    rw [hCc] at hp'
    obtain ⟨x, hx, hpx⟩ := List.mem_flatMap.mp hp'
    exact hCsub p (hC'pairs p (List.mem_flatMap.mpr ⟨x, (List.mem_filter.mp hx).1, hpx⟩))
  · intro sg hsg
    rcases List.mem_append.mp hsg with h1 | h1
    · exact hw.segs sg (List.mem_append_left _ (List.mem_append_right _ h1))
    · rw [hCc] at h1
      exact hC'ok sg (List.mem_filter.mp h1).1
  · intro sg hsg d hd
    rw [hCm] at hsg
    have hp' : (d.doc, d.op) ∈ s.committed.flatMap segPairs :=
      hC'pairs _ (List.mem_flatMap.mpr ⟨sg, (List.mem_filter.mp hsg).1, mem_segPairs hd⟩)
    obtain ⟨x, hx, hpx⟩ := List.mem_flatMap.mp hp'
    simp only [segPairs, List.mem_map] at hpx
    obtain ⟨d', hd', he⟩ := hpx
    have := hm.clt x hx d' hd'
    have e2 : d'.op = d.op := by simpa using congrArg Prod.snd he
    show d.op < s.metas.opstamp
    omega

end TantivyModel.Writer
