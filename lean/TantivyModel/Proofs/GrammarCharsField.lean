import TantivyModel.Proofs.GrammarCharsPhrase
namespace TantivyModel.Grammar.Chars
open TantivyModel.Grammar

/-! ## field prefixes: `name:word` and `name:"phrase"` as operands -/

/-- a remainder that is empty or starts with a character that cannot continue a plain word -/
def NPH (t : Str) : Prop := ∀ c r, t = c :: r → plain c = false

theorem nph_colon (x : Str) : NPH (':' :: x) := by
  intro c r h
  rw [← (List.cons.inj h).1]; decide

theorem prefix_plain_next' (kw w t : Str) (hk : ∀ c ∈ kw, plain c = true) (hw : ∀ c ∈ w, plain c = true)
    (hne : w ≠ []) (hd : w ≠ kw) (ht : NPH t) (hp : kw.isPrefixOf (w ++ t) = true) :
    ∃ c rest, (w ++ t).drop kw.length = c :: rest ∧ plain c = true := by
  induction kw generalizing w with
  | nil =>
    obtain ⟨c, r, rfl⟩ := List.exists_cons_of_ne_nil hne
    exact ⟨c, r ++ t, rfl, hw c (by simp)⟩
  | cons k ks ih =>
    obtain ⟨c, r, rfl⟩ := List.exists_cons_of_ne_nil hne
    simp only [List.cons_append, List.isPrefixOf_cons_cons, Bool.and_eq_true, beq_iff_eq] at hp
    obtain ⟨hkc, hp'⟩ := hp
    subst hkc
    by_cases hr : r = []
    · subst hr
      have hks : ks ≠ [] := by
        intro h; subst h; exact hd rfl
      obtain ⟨k2, ks', rfl⟩ := List.exists_cons_of_ne_nil hks
      have hk2 := hk k2 (by simp)
      cases t with
      | nil => simp [List.isPrefixOf] at hp'
      | cons d t' =>
        simp only [List.nil_append, List.isPrefixOf_cons_cons, Bool.and_eq_true, beq_iff_eq] at hp'
        have := ht d t' rfl
        rw [← hp'.1, hk2] at this
        cases this
    · have := ih r (fun c hc => hk c (List.mem_cons_of_mem _ hc)) (fun c hc => hw c (List.mem_cons_of_mem _ hc))
        hr (fun h => hd (by rw [h])) hp'
      simpa using this

theorem tag_plain_skip1' (kw w t rest : Str) (hk : ∀ c ∈ kw, plain c = true) (hw : ∀ c ∈ w, plain c = true)
    (hne : w ≠ []) (hd : w ≠ kw) (ht : NPH t) (h : tag kw (w ++ t) = some rest) : skip1 rest = none := by
  unfold tag at h
  split at h
  · rename_i hp
    simp only [Option.some.injEq] at h
    obtain ⟨c, r, hdrop, hc⟩ := prefix_plain_next' kw w t hk hw hne hd ht hp
    rw [← h, hdrop]
    simp [skip1, (plain_not_space c hc).2]
  · cases h

theorem prefix_space_false' (ks w t : Str) (hk : ∀ c ∈ ks, plain c = true) (hw : ∀ c ∈ w, plain c = true)
    (ht : NPH t) (hp : (ks ++ [' ']).isPrefixOf (w ++ t) = true) : w = ks := by
  induction ks generalizing w with
  | nil =>
    cases w with
    | nil => rfl
    | cons c r =>
      simp only [List.nil_append, List.cons_append, List.isPrefixOf_cons_cons, Bool.and_eq_true, beq_iff_eq] at hp
      have := hw c (by simp)
      rw [← hp.1] at this
      exact absurd this (by decide)
  | cons k ks' ih =>
    cases w with
    | nil =>
      cases t with
      | nil => simp [List.isPrefixOf] at hp
      | cons d t' =>
        simp only [List.nil_append, List.cons_append, List.isPrefixOf_cons_cons, Bool.and_eq_true, beq_iff_eq] at hp
        have := ht d t' rfl
        rw [← hp.1, hk k (by simp)] at this
        cases this
    | cons c r =>
      simp only [List.cons_append, List.isPrefixOf_cons_cons, Bool.and_eq_true, beq_iff_eq] at hp
      rw [hp.1, ih r (fun c hc => hk c (List.mem_cons_of_mem _ hc)) (fun c hc => hw c (List.mem_cons_of_mem _ hc)) hp.2]

theorem binaryOperand_field (w x : Str) (hw : PlainWord w) :
    binaryOperand (w ++ ':' :: x) = (none, w ++ ':' :: x) := by
  have key : ∀ ks ∈ keywords, tag (ks ++ [' ']) (w ++ ':' :: x) = none := by
    intro ks hks
    unfold tag
    split
    · rename_i hp
      exact absurd (prefix_space_false' ks w _ (keyword_plain ks hks) hw.all (nph_colon x) hp)
        (plainWord_ne_keyword w ks hw hks)
    · rfl
  have h1 := key ['A', 'N', 'D'] (by simp [keywords])
  have h2 := key ['O', 'R'] (by simp [keywords])
  simp only [List.cons_append, List.nil_append] at h1 h2
  simp [binaryOperand, h1, h2]

theorem fieldRest_colon (x : Str) : fieldRest (':' :: x) = ([], ':' :: x) := by
  unfold fieldRest
  split
  · rename_i heq; cases heq
  · rename_i heq; exact absurd (List.cons.inj heq).1 (by decide)
  · rename_i heq; exact absurd (List.cons.inj heq).1 (by decide)
  · rename_i heq
    obtain ⟨rfl, rfl⟩ := List.cons.inj heq
    simp [specialChars]

theorem fieldRest_plain_colon (w x : Str) (hw : ∀ d ∈ w, plain d = true) :
    fieldRest (w ++ ':' :: x) = (w, ':' :: x) := by
  induction w with
  | nil => simpa using fieldRest_colon x
  | cons d rest ih =>
    have hd := hw d (by simp)
    have hb : d ≠ '\\' := plain_ne d '\\' hd (by decide)
    have hs : d ∉ specialChars := by simpa using (plain_not_special d hd).1
    have ih' := ih (fun e he => hw e (List.mem_cons_of_mem _ he))
    show fieldRest (d :: (rest ++ ':' :: x)) = (d :: rest, ':' :: x)
    unfold fieldRest
    split
    · rename_i heq; cases heq
    · rename_i heq; exact absurd (List.cons.inj heq).1 hb
    · rename_i heq; exact absurd (List.cons.inj heq).1 hb
    · rename_i heq
      obtain ⟨rfl, rfl⟩ := List.cons.inj heq
      simp [hs, ih']

theorem fieldName_field (c : Char) (r y : Str) (h : PlainWord (c :: r)) (hy : skip0 y = y) :
    fieldName (c :: (r ++ ':' :: y)) = some (c :: r, y) := by
  have hc := pw_head c r h
  have hs : c ∉ specialChars := by simpa using (plain_not_special c hc).1
  have hm : c ≠ '-' := plain_ne c '-' hc (by decide)
  have hfr := fieldRest_plain_colon r y (pw_tail c r h)
  have hsk : skip0 (':' :: y) = ':' :: y := by simp [skip0, List.dropWhile, isNomSpace]
  simp [fieldName, hs, hm, hfr, hsk, hy]

/-- the leaf alternatives of `plainLiteral` after the optional field name -/
def leafAlt (s1 : Str) : Option (CLeaf × Str) :=
  match range s1 with
  | some x => some x
  | none =>
    match set s1 with
    | some x => some x
    | none =>
      match exists_ s1 with
      | some r => some (.exists [], r)
      | none =>
        match regex s1 with
        | some x => some x
        | none => termOrPhrase s1

theorem plainLiteral_eq (g : Bool) (s : Str) :
    plainLiteral g s =
      (match leafAlt (match fieldName s with | some (_, r) => r | none => s) with
       | none => .fail
       | some (l, r) =>
         match setField l (match fieldName s with | some (n, _) => some n | none => none) with
         | some l' => .ok (.leaf l') r
         | none => if g then .fail else .panic) := by
  unfold plainLiteral leafAlt
  cases fieldName s with
  | none => rfl
  | some p => rfl

/-- a field name in front of a literal: the same literal with the field set -/
theorem plainLiteral_field (g : Bool) (c : Char) (r y : Str) (h : PlainWord (c :: r)) (hy : skip0 y = y)
    (hfn : fieldName y = none) (p : Str) (d : Delim) (sl : Nat) (x : Bool) (t : Str)
    (hY : plainLiteral g y = .ok (.leaf (.literal none p d sl x)) t) :
    plainLiteral g (c :: (r ++ ':' :: y)) = .ok (.leaf (.literal (some (c :: r)) p d sl x)) t := by
  rw [plainLiteral_eq] at hY ⊢
  rw [fieldName_field c r y h hy]
  rw [hfn] at hY
  simp only at hY ⊢
  cases hL : leafAlt y with
  | none => rw [hL] at hY; cases hY
  | some lr =>
    obtain ⟨l, r'⟩ := lr
    rw [hL] at hY
    simp only at hY ⊢
    cases l <;> simp [setField] at hY ⊢
    · exact hY
    · cases g <;> simp at hY

theorem pLeaf_field (g : Bool) (f' : Nat) (c : Char) (r y : Str) (h : PlainWord (c :: r)) (a : Ast CLeaf) (t : Str)
    (hp : plainLiteral g (c :: (r ++ ':' :: y)) = .ok a t) :
    pLeaf g (f' + 1) (c :: (r ++ ':' :: y)) = .ok a t := by
  have hc := pw_head c r h
  have h1 : c ≠ '(' := plain_ne c '(' hc (by decide)
  have h2 : c ≠ '*' := plain_ne c '*' hc (by decide)
  unfold pLeaf
  cases htag : tag ['N', 'O', 'T'] (c :: (r ++ ':' :: y)) with
  | none => simp [h1, h2, R.orElse, hp]
  | some rest =>
    have := tag_plain_skip1' ['N', 'O', 'T'] (c :: r) (':' :: y) rest (by decide) h.all h.ne
      (plainWord_ne_keyword _ _ h (by simp [keywords])) (nph_colon y) (by simpa using htag)
    simp [h1, h2, R.orElse, this, hp]

/-- `name:word` is a good operand -/
theorem goodOpd_fieldWord (g : Bool) (f w : Str) (hf : PlainWord f) (hw : PlainWord w) :
    GoodOpd g (fieldWordOpd f w) := by
  obtain ⟨c, r, rfl⟩ := List.exists_cons_of_ne_nil hf.ne
  obtain ⟨d, s, rfl⟩ := List.exists_cons_of_ne_nil hw.ne
  have hc : plain c = true := hf.all c (by simp)
  have hd : plain d = true := hw.all d (by simp)
  refine ⟨⟨c, r ++ ':' :: d :: s, rfl, (plain_not_space c hc).2, plain_ne c ':' hc (by decide),
    plain_ne c '+' hc (by decide), plain_ne c '-' hc (by decide), plain_ne c ')' hc (by decide)⟩, ?_, ?_, ?_⟩
  · intro t _
    have e : (fieldWordOpd (c :: r) (d :: s)).text ++ t = (c :: r) ++ ':' :: (d :: (s ++ t)) := by
      simp [fieldWordOpd]
    rw [e]
    exact binaryOperand_field (c :: r) _ hf
  · intro t ht f hfu
    obtain ⟨f', rfl⟩ : ∃ f', f = f' + 1 := ⟨f - 1, by simp [fieldWordOpd] at hfu; omega⟩
    have e : (fieldWordOpd (c :: r) (d :: s)).text ++ t = c :: (r ++ ':' :: (d :: (s ++ t))) := by
      simp [fieldWordOpd]
    rw [e]
    exact pLeaf_field g f' c r _ hf _ t
      (plainLiteral_field g c r _ hf (skip0_rem_plain d s t hd) (fieldName_rem d s t hw ht) _ _ _ _ t
        (plainLiteral_rem d s t hw ht g))
  · simp [fieldWordOpd]; omega

/-- `name:"phrase"` is a good operand -/
theorem goodOpd_fieldPhrase (g : Bool) (f body : Str) (hf : PlainWord f) (hb : PhraseBody body) :
    GoodOpd g (fieldPhraseOpd f body) := by
  obtain ⟨c, r, rfl⟩ := List.exists_cons_of_ne_nil hf.ne
  have hc : plain c = true := hf.all c (by simp)
  refine ⟨⟨c, r ++ ':' :: '"' :: (body ++ ['"']), rfl, (plain_not_space c hc).2, plain_ne c ':' hc (by decide),
    plain_ne c '+' hc (by decide), plain_ne c '-' hc (by decide), plain_ne c ')' hc (by decide)⟩, ?_, ?_, ?_⟩
  · intro t _
    have e : (fieldPhraseOpd (c :: r) body).text ++ t = (c :: r) ++ ':' :: ('"' :: (body ++ '"' :: t)) := by
      simp [fieldPhraseOpd]
    rw [e]
    exact binaryOperand_field (c :: r) _ hf
  · intro t ht f hfu
    obtain ⟨f', rfl⟩ : ∃ f', f = f' + 1 := ⟨f - 1, by simp [fieldPhraseOpd] at hfu; omega⟩
    have e : (fieldPhraseOpd (c :: r) body).text ++ t = c :: (r ++ ':' :: ('"' :: (body ++ '"' :: t))) := by
      simp [fieldPhraseOpd]
    rw [e]
    have hp := plainLiteral_phrase g body t hb ht
    generalize body ++ '"' :: t = x at hp
    exact pLeaf_field g f' c r _ hf _ t
      (plainLiteral_field g c r _ hf (by simp [skip0, List.dropWhile, isNomSpace])
        (by simp [fieldName, specialChars]) _ _ _ _ t hp)
  · simp [fieldPhraseOpd]; omega

end TantivyModel.Grammar.Chars
