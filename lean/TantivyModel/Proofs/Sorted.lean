import TantivyModel.Model.Sorted
/-! helper lemmas for C17 (index sorting) -/
namespace TantivyModel.Sorted
open TantivyModel.Merge

theorem keyLe_trans (a b c : SKey) : keyLe a b = true → keyLe b c = true → keyLe a c = true := by
  cases a <;> cases b <;> cases c <;> simp [keyLe] <;> omega

theorem keyLe_total (a b : SKey) : (keyLe a b || keyLe b a) = true := by
  cases a <;> cases b <;> simp [keyLe] <;> omega

theorem dirLe_trans (desc : Bool) (a b c : SKey) :
    dirLe desc a b = true → dirLe desc b c = true → dirLe desc a c = true := by
  cases desc <;> simp only [dirLe, if_true, if_false, Bool.false_eq_true]
  · exact keyLe_trans a b c
  · exact fun h1 h2 => keyLe_trans c b a h2 h1

theorem dirLe_total (desc : Bool) (a b : SKey) : (dirLe desc a b || dirLe desc b a) = true := by
  cases desc <;> simp only [dirLe, if_true, if_false, Bool.false_eq_true]
  · exact keyLe_total a b
  · exact keyLe_total b a

/-- missing values come first ascending … -/
theorem dirLe_none_asc (k : SKey) : dirLe false none k = true := by simp [dirLe, keyLe]
/-- … and last descending -/
theorem dirLe_none_desc (k : SKey) : dirLe true k none = true := by simp [dirLe, keyLe]

/-! ### the sorted pairs -/

/-- the `(key, row)` pairs after the stable sort -/
def sortedPairs (keys : List SKey) (desc : Bool) : List (SKey × Nat) :=
  keys.zipIdx.mergeSort fun a b => dirLe desc a.1 b.1

theorem sortOrder_eq (keys : List SKey) (desc : Bool) :
    sortOrder keys desc = (sortedPairs keys desc).map (·.2) := rfl

theorem sortedPairs_perm (keys : List SKey) (desc : Bool) :
    (sortedPairs keys desc).Perm keys.zipIdx := List.mergeSort_perm _ _

theorem sortedPairs_sorted (keys : List SKey) (desc : Bool) :
    (sortedPairs keys desc).Pairwise fun a b => dirLe desc a.1 b.1 = true :=
  List.pairwise_mergeSort (fun a b c => dirLe_trans desc a.1 b.1 c.1)
    (fun a b => dirLe_total desc a.1 b.1) _

theorem zipIdx_map_snd {α} (l : List α) (k : Nat) :
    (l.zipIdx k).map (·.2) = List.range' k l.length := by
  induction l generalizing k with
  | nil => rfl
  | cons a as ih => simp [List.zipIdx_cons, ih, List.range'_succ]

theorem sortOrder_perm (keys : List SKey) (desc : Bool) :
    (sortOrder keys desc).Perm (List.range keys.length) := by
  rw [sortOrder_eq]
  have h := (sortedPairs_perm keys desc).map (·.2)
  rw [zipIdx_map_snd] at h
  simpa [List.range_eq_range'] using h

theorem mem_zipIdx_key {α} (l : List α) (k : Nat) (p : α × Nat) (h : p ∈ l.zipIdx k) :
    k ≤ p.2 ∧ l[p.2 - k]? = some p.1 := by
  induction l generalizing k with
  | nil => simp at h
  | cons a as ih =>
    rw [List.zipIdx_cons, List.mem_cons] at h
    rcases h with rfl | h
    · simp
    · obtain ⟨h1, h2⟩ := ih (k + 1) h
      refine ⟨by omega, ?_⟩
      have e : p.2 - k = (p.2 - (k + 1)) + 1 := by omega
      rw [e]; simpa using h2

theorem sortedPairs_key (keys : List SKey) (desc : Bool) (p : SKey × Nat)
    (h : p ∈ sortedPairs keys desc) : keys[p.2]? = some p.1 := by
  have := mem_zipIdx_key keys 0 p ((sortedPairs_perm keys desc).mem_iff.1 h)
  simpa using this.2

/-! ### the inverse table -/

theorem fillInv_length (acc : List Nat) (k : Nat) (l : List Nat) :
    (fillInv acc k l).length = acc.length := by
  induction l generalizing acc k with
  | nil => rfl
  | cons a rest ih => simp [fillInv, ih]

theorem fillInv_notMem (acc : List Nat) (k : Nat) (l : List Nat) (d : Nat) (h : d ∉ l) :
    (fillInv acc k l)[d]? = acc[d]? := by
  induction l generalizing acc k with
  | nil => rfl
  | cons a rest ih =>
    simp only [List.mem_cons, not_or] at h
    simp only [fillInv]
    rw [ih _ _ h.2, List.getElem?_set_ne (Ne.symm h.1)]

theorem fillInv_mem (acc : List Nat) (k : Nat) (l : List Nat) (j : Nat)
    (hnd : l.Nodup) (hb : ∀ a ∈ l, a < acc.length) (d : Nat) (hj : l[j]? = some d) :
    (fillInv acc k l)[d]? = some (k + j) := by
  induction l generalizing acc k j with
  | nil => simp at hj
  | cons a rest ih =>
    simp only [fillInv]
    rw [List.nodup_cons] at hnd
    cases j with
    | zero =>
      simp at hj
      subst hj
      rw [fillInv_notMem _ _ _ _ hnd.1]
      simp [hb a (by simp)]
    | succ j' =>
      simp at hj
      have := ih (acc.set a k) (k + 1) j' hnd.2 (fun b hbm => by simpa using hb b (by simp [hbm])) hj
      rw [this]; congr 1; omega

theorem foldl_max_bound (l : List Nat) (m : Nat) :
    m ≤ l.foldl (fun m x => max m (x + 1)) m ∧ ∀ a ∈ l, a < l.foldl (fun m x => max m (x + 1)) m := by
  induction l generalizing m with
  | nil => simp
  | cons x rest ih =>
    simp only [List.foldl_cons, List.mem_cons]
    obtain ⟨h1, h2⟩ := ih (max m (x + 1))
    refine ⟨by omega, ?_⟩
    rintro a (rfl | ha)
    · omega
    · exact h2 a ha

/-- `old_to_new[new_to_old[i]] = i` for a duplicate-free mapping -/
theorem oldToNewOf_inverse (n2o : List Nat) (hnd : n2o.Nodup) (i d : Nat) (h : n2o[i]? = some d) :
    (oldToNewOf n2o)[d]? = some i := by
  unfold oldToNewOf
  have := fillInv_mem (List.replicate (n2o.foldl (fun m x => max m (x + 1)) 0) 0) 0 n2o i hnd
    (fun a ha => by simpa using (foldl_max_bound n2o 0).2 a ha) d h
  simpa using this

/-! ### remapping per-document data -/

theorem remap_cons {α} (o : Nat) (rest : List Nat) (els : List α) (h : o < els.length) :
    remap (o :: rest) els = els[o] :: remap rest els := by
  simp [remap, List.getElem?_eq_getElem h]

theorem remap_length {α} (n2o : List Nat) (els : List α) (h : ∀ o ∈ n2o, o < els.length) :
    (remap n2o els).length = n2o.length := by
  induction n2o with
  | nil => rfl
  | cons o rest ih =>
    rw [remap_cons o rest els (h o (by simp))]
    simp [ih (fun x hx => h x (by simp [hx]))]

theorem remap_getElem? {α} (n2o : List Nat) (els : List α) (h : ∀ o ∈ n2o, o < els.length)
    (n : Nat) : (remap n2o els)[n]? = (n2o[n]?).bind (els[·]?) := by
  induction n2o generalizing n with
  | nil => simp [remap]
  | cons o rest ih =>
    rw [remap_cons o rest els (h o (by simp))]
    cases n with
    | zero => simp [List.getElem?_eq_getElem (h o (by simp))]
    | succ n' => simpa using ih (fun x hx => h x (by simp [hx])) n'

/-- deletes computed on the remapped opstamps are the remapped deletes -/
theorem deleteHits_remap (n2o : List Nat) (ms : List Bool) (os : List Nat) (t : Nat)
    (hlen : ms.length = os.length) (h : ∀ o ∈ n2o, o < ms.length) :
    deleteHits (remap n2o ms) (remap n2o os) t = remap n2o (deleteHits ms os t) := by
  have hd : (deleteHits ms os t).length = ms.length := by simp [deleteHits, hlen]
  induction n2o with
  | nil => simp [remap, deleteHits]
  | cons o rest ih =>
    have ho : o < ms.length := h o (by simp)
    rw [remap_cons o rest ms ho, remap_cons o rest os (by omega),
      remap_cons o rest (deleteHits ms os t) (by omega)]
    have ih' := ih (fun x hx => h x (by simp [hx]))
    simp only [deleteHits, List.zip_cons_cons, List.map_cons] at ih' ⊢
    rw [ih']
    congr 1
    simp [List.getElem_zip]

/-! ### merging -/

theorem kmerge_sorted (desc : Bool) (runs : List Run)
    (h : ∀ r ∈ runs, r.Pairwise fun a b => dirLe desc a.1 b.1 = true) :
    (kmerge desc runs).Pairwise fun a b => dirLe desc a.1 b.1 = true := by
  induction runs with
  | nil => simp [kmerge]
  | cons r rest ih =>
    simp only [kmerge, List.foldr_cons]
    exact List.pairwise_merge (fun a b c => dirLe_trans desc a.1 b.1 c.1)
      (fun a b => dirLe_total desc a.1 b.1) _ _ (h r (by simp))
      (ih (fun x hx => h x (by simp [hx])))

theorem kmerge_perm (desc : Bool) (runs : List Run) : (kmerge desc runs).Perm runs.flatten := by
  induction runs with
  | nil => simp [kmerge]
  | cons r rest ih =>
    simp only [kmerge, List.foldr_cons, List.flatten_cons]
    exact (List.merge_perm_append _).trans (List.Perm.append_left r ih)

theorem sublist_merge_left {α} (s : α → α → Bool) (l r : List α) : l.Sublist (List.merge l r s) := by
  fun_induction List.merge l r s with
  | case1 r => simp
  | case2 l _ => simp
  | case3 a l b r h ih => exact List.Sublist.cons_cons _ ih
  | case4 a l b r h ih => exact List.Sublist.cons _ ih

theorem sublist_merge_right {α} (s : α → α → Bool) (l r : List α) : r.Sublist (List.merge l r s) := by
  fun_induction List.merge l r s with
  | case1 r => simp
  | case2 l _ => simp
  | case3 a l b r h ih => exact List.Sublist.cons _ ih
  | case4 a l b r h ih => exact List.Sublist.cons_cons _ ih

/-- every source is consumed front to back: it is a sublist of the merged sequence -/
theorem kmerge_sublist (desc : Bool) (runs : List Run) (r : Run) (hr : r ∈ runs) :
    r.Sublist (kmerge desc runs) := by
  induction runs with
  | nil => simp at hr
  | cons x rest ih =>
    simp only [kmerge, List.foldr_cons]
    rcases List.mem_cons.1 hr with rfl | h
    · exact sublist_merge_left _ _ _
    · exact (ih h).trans (sublist_merge_right _ _ _)

theorem pair_sublist_of_lt {α} (l : List α) (i j : Nat) (hij : i < j) (hj : j < l.length) :
    List.Sublist [l[i], l[j]] l := by
  have e : l = l.take i ++ l[i] :: l.drop (i + 1) := by simp
  have hm : l[j] ∈ l.drop (i + 1) := by
    rw [List.mem_drop_iff_getElem]
    exact ⟨j - (i + 1), by omega, by congr 1; omega⟩
  have h1 : List.Sublist [l[i], l[j]] (l[i] :: l.drop (i + 1)) :=
    List.Sublist.cons_cons _ (List.singleton_sublist.2 hm)
  have h2 : List.Sublist [l[i], l[j]] (l.take i ++ l[i] :: l.drop (i + 1)) :=
    h1.trans (List.sublist_append_right _ _)
  rw [← e] at h2
  exact h2


/-! ### stacking guard -/

/-- every live key of the run is a value inside the column statistics -/
def inRange (st : Stats) (r : Run) : Prop := ∀ x ∈ r, ∃ v, x.1 = some v ∧ st.1 ≤ v ∧ v ≤ st.2

theorem disjunct_tail (desc : Bool) (a : Stats) (rest : List Stats)
    (hd : disjunct desc (a :: rest) = true) : disjunct desc rest = true := by
  cases rest with
  | nil => rfl
  | cons b rest' => simp [disjunct] at hd; exact hd.2

theorem disjunct_head (desc : Bool) (a : Stats) (rest : List Stats)
    (hv : ∀ s ∈ rest, s.1 ≤ s.2) (hd : disjunct desc (a :: rest) = true) :
    ∀ b ∈ rest, if desc then b.2 ≤ a.1 else a.2 ≤ b.1 := by
  induction rest generalizing a with
  | nil => simp
  | cons b rest' ih =>
    simp only [disjunct, Bool.and_eq_true] at hd
    intro c hc
    rw [List.mem_cons] at hc
    rcases hc with rfl | hc
    · cases desc <;> simpa using hd.1
    · have hb := ih b (fun s hs => hv s (by simp [hs])) hd.2 c hc
      have hbv := hv b (by simp)
      cases desc
      · simp only [Bool.false_eq_true, if_false] at hb hd ⊢
        have := hd.1; simp at this; omega
      · simp only [if_true] at hb hd ⊢
        have := hd.1; simp at this; omega

theorem stack_sorted (desc : Bool) (sr : List (Stats × Run))
    (hsorted : ∀ p ∈ sr, p.2.Pairwise fun a b => dirLe desc a.1 b.1 = true)
    (hrange : ∀ p ∈ sr, inRange p.1 p.2) (hvalid : ∀ p ∈ sr, p.1.1 ≤ p.1.2)
    (hd : disjunct desc (sr.map (·.1)) = true) :
    ((sr.map (·.2)).flatten).Pairwise fun a b => dirLe desc a.1 b.1 = true := by
  induction sr with
  | nil => simp
  | cons p rest ih =>
    simp only [List.map_cons, List.flatten_cons]
    rw [List.pairwise_append]
    refine ⟨hsorted p (by simp), ?_, ?_⟩
    · exact ih (fun q hq => hsorted q (by simp [hq])) (fun q hq => hrange q (by simp [hq]))
        (fun q hq => hvalid q (by simp [hq])) (disjunct_tail desc p.1 _ (by simpa using hd))
    · intro x hx y hy
      simp only [List.mem_flatten, List.mem_map] at hy
      obtain ⟨_, ⟨q, hq, rfl⟩, hyq⟩ := hy
      obtain ⟨vx, hvx, hx1, hx2⟩ := hrange p (by simp) x hx
      obtain ⟨vy, hvy, hy1, hy2⟩ := hrange q (by simp [hq]) y hyq
      have hh := disjunct_head desc p.1 (rest.map (·.1))
        (fun s hs => by
          simp only [List.mem_map] at hs
          obtain ⟨q', hq', rfl⟩ := hs
          exact hvalid q' (by simp [hq']))
        (by simpa using hd) q.1 (by simp only [List.mem_map]; exact ⟨q, hq, rfl⟩)
      rw [hvx, hvy]
      cases desc
      · simp only [Bool.false_eq_true, if_false] at hh
        simp [dirLe, keyLe]; omega
      · simp only [if_true] at hh
        simp [dirLe, keyLe]; omega

/-! ### the live-null scan and the stacking decision -/

theorem mem_liveDocs {α} (l : List α) (al : List Bool) (x : α) (h : x ∈ liveDocs l al) : x ∈ l := by
  induction l generalizing al with
  | nil => cases al <;> simp [liveDocs] at h
  | cons a as ih =>
    cases al with
    | nil => simp [liveDocs] at h
    | cons b bs =>
      cases b
      · simp only [liveDocs, Bool.false_eq_true, if_false] at h
        exact List.mem_cons_of_mem _ (ih bs h)
      · simp only [liveDocs, if_true, List.mem_cons] at h
        rcases h with rfl | h
        · simp
        · exact List.mem_cons_of_mem _ (ih bs h)

theorem liveDocs_no_deletes {α} (l : List α) (al : List Bool) (hlen : l.length = al.length)
    (h : hasDeletes al = false) : liveDocs l al = l := by
  induction l generalizing al with
  | nil => cases al <;> rfl
  | cons a as ih =>
    cases al with
    | nil => simp at hlen
    | cons b bs =>
      simp at hlen
      cases b
      · simp [hasDeletes] at h
      · have hb : hasDeletes bs = false := by simpa [hasDeletes] using h
        simp [liveDocs, ih bs hlen hb]

theorem liveDocs_sublist {α} (l : List α) (al : List Bool) : List.Sublist (liveDocs l al) l := by
  induction l generalizing al with
  | nil => cases al <;> simp [liveDocs]
  | cons a as ih =>
    cases al with
    | nil => simp [liveDocs]
    | cons b bs =>
      cases b
      · simp only [liveDocs, Bool.false_eq_true, if_false]
        exact (ih bs).cons _
      · simp only [liveDocs, if_true]
        exact (ih bs).cons_cons _

/-- the scan is exact: it answers `true` iff some live document has no value -/
theorem hasLiveNulls_iff (c : SegCol) (hlen : c.keys.length = c.alive.length) (hcard : CardOk c)
    (hnm : c.card ≠ .multivalued) :
    hasLiveNulls c.card c.keys c.alive = true ↔ ∃ k ∈ c.liveKeys, k = none := by
  unfold SegCol.liveKeys
  cases hc : c.card with
  | multivalued => exact absurd hc hnm
  | full =>
    simp only [hasLiveNulls, Bool.false_eq_true, false_iff]
    rintro ⟨k, hk, rfl⟩
    have : ∀ k ∈ c.keys, k.isSome = true := by simpa [CardOk, hc] using hcard
    have := this none (mem_liveDocs _ _ _ hk)
    simp at this
  | optional =>
    have hex : ∃ k ∈ c.keys, k = none := by simpa [CardOk, hc] using hcard
    simp only [hasLiveNulls]
    by_cases hd : hasDeletes c.alive = true
    · simp only [hd, Bool.not_true, Bool.false_eq_true, if_false, List.any_eq_true]
      constructor
      · rintro ⟨k, hk, hn⟩
        exact ⟨k, hk, by cases k <;> simp_all⟩
      · rintro ⟨k, hk, rfl⟩
        exact ⟨none, hk, rfl⟩
    · have hd' : hasDeletes c.alive = false := by
        cases h : hasDeletes c.alive with
        | true => exact absurd h hd
        | false => rfl
      simp only [hd', Bool.not_false, if_true, true_iff]
      rw [liveDocs_no_deletes _ _ hlen hd']
      exact hex

/-- the repaired scan is exact for EVERY cardinality -/
theorem hasLiveNullsFixed_iff (c : SegCol) (hlen : c.keys.length = c.alive.length) (hcard : CardOk c) :
    hasLiveNullsFixed c.card c.keys c.alive = true ↔ ∃ k ∈ c.liveKeys, k = none := by
  cases hc : c.card with
  | multivalued =>
    simp only [hasLiveNullsFixed, SegCol.liveKeys, List.any_eq_true]
    constructor
    · rintro ⟨k, hk, hn⟩
      exact ⟨k, hk, by cases k <;> simp_all⟩
    · rintro ⟨k, hk, rfl⟩
      exact ⟨none, hk, rfl⟩
  | full =>
    have h := hasLiveNulls_iff c hlen hcard (by rw [hc]; decide)
    rw [hc] at h
    simpa [hasLiveNullsFixed, hasLiveNulls] using h
  | optional =>
    have h := hasLiveNulls_iff c hlen hcard (by rw [hc]; decide)
    rw [hc] at h
    simpa [hasLiveNullsFixed, hasLiveNulls] using h

theorem any_false_forall {α} (l : List α) (p : α → Bool) (h : l.any p = false) : ∀ x ∈ l, p x = false := by
  intro x hx
  cases hp : p x with
  | false => rfl
  | true =>
    have : l.any p = true := List.any_eq_true.2 ⟨x, hx, hp⟩
    rw [this] at h; cases h

/-- stacking is sorted whenever the decision with ANY scan that is sound ("false ⇒ no live
document without value") says so -/
theorem stack_sound_of_scan (scan : Card → List SKey → List Bool → Bool) (desc : Bool) (cs : List SegCol)
    (hscan : ∀ c ∈ cs, scan c.card c.keys c.alive = false → ∀ k ∈ c.liveKeys, k ≠ none)
    (hstats : ∀ c ∈ cs, StatsOk c) (hne : ∀ c ∈ cs, c.liveKeys ≠ [])
    (hsorted : ∀ c ∈ cs, sortedKeys desc c.liveKeys)
    (hdec : stackDecisionWith scan desc cs = true) :
    sortedKeys desc ((cs.map SegCol.liveKeys).flatten) := by
  simp only [stackDecisionWith, Bool.and_eq_true, Bool.not_eq_true'] at hdec
  obtain ⟨hdis, hnul⟩ := hdec
  have hsome : ∀ c ∈ cs, ∀ k ∈ c.liveKeys, ∃ v, k = some v ∧ c.stats.1 ≤ v ∧ v ≤ c.stats.2 := by
    intro c hc k hk
    have hf := any_false_forall cs _ hnul c hc
    cases hkv : k with
    | none => exact absurd hkv (hscan c hc hf k hk)
    | some v => exact ⟨v, rfl, hstats c hc k (mem_liveDocs _ _ _ hk) v hkv⟩
  let sr : List (Stats × Run) := cs.map fun c => (c.stats, c.liveKeys.map fun k => (k, 0, 0))
  have key := stack_sorted desc sr
    (by
      intro p hp
      obtain ⟨c, hc, rfl⟩ := List.mem_map.1 hp
      simp only [List.pairwise_map]
      exact hsorted c hc)
    (by
      intro p hp
      obtain ⟨c, hc, rfl⟩ := List.mem_map.1 hp
      intro x hx
      obtain ⟨k, hk, rfl⟩ := List.mem_map.1 hx
      exact hsome c hc k hk)
    (by
      intro p hp
      obtain ⟨c, hc, rfl⟩ := List.mem_map.1 hp
      obtain ⟨k, hk⟩ := List.exists_mem_of_ne_nil _ (hne c hc)
      obtain ⟨v, _, h1, h2⟩ := hsome c hc k hk
      exact Nat.le_trans h1 h2)
    (by
      have e0 : sr.map (·.1) = cs.map (·.stats) := by simp only [sr, List.map_map]; rfl
      rw [e0]; exact hdis)
  have e : (sr.map (·.2)).flatten = ((cs.map SegCol.liveKeys).flatten).map fun k => (k, 0, 0) := by
    simp only [sr, List.map_map, List.map_flatten]
    rfl
  unfold sortedKeys
  rw [e, List.pairwise_map] at key
  exact key

/-- nulls first ascending / last descending in any sorted key sequence -/
theorem sorted_nulls_asc (ks : List SKey) (h : sortedKeys false ks) (i j : Nat) (hij : i < j)
    (hj : j < ks.length) (hnone : ks[j] = none) : ks[i]'(by omega) = none := by
  have := List.pairwise_iff_getElem.1 h i j (by omega) hj hij
  rw [hnone] at this
  cases hk : ks[i]'(by omega) with
  | none => rfl
  | some v => rw [hk] at this; simp [dirLe, keyLe] at this

theorem sorted_nulls_desc (ks : List SKey) (h : sortedKeys true ks) (i j : Nat) (hij : i < j)
    (hj : j < ks.length) (hnone : ks[i]'(by omega) = none) : ks[j] = none := by
  have := List.pairwise_iff_getElem.1 h i j (by omega) hj hij
  rw [hnone] at this
  cases hk : ks[j] with
  | none => rfl
  | some v => rw [hk] at this; simp [dirLe, keyLe] at this

end TantivyModel.Sorted
