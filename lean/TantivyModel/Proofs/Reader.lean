import TantivyModel.Model.Reader
/-!
Invariants of the reader / GC protocol model (helper lemmas for `Props/C05.lean`).
-/
namespace TantivyModel.Reader

theorem upd_same (f : Rid → RState) (r : Rid) (v : RState) : upd f r v r = v := by simp [upd]

theorem upd_other (f : Rid → RState) (r x : Rid) (v : RState) (h : x ≠ r) : upd f r v x = f x := by
  simp [upd, h]

theorem lookup_filter_ne (l : List (Path × Nat)) (p x : Path) :
    (l.filter (fun q => q.1 != p)).lookup x = if x = p then none else l.lookup x := by
  induction l with
  | nil => simp
  | cons a l ih =>
    obtain ⟨k, b⟩ := a
    by_cases hk : k = p
    · subst hk
      simp only [List.filter_cons, bne_self_eq_false, Bool.false_eq_true, if_false, ih,
        List.lookup_cons]
      by_cases hx : x = k
      · simp [hx]
      · have : (x == k) = false := by simp [hx]
        simp [hx, this]
    · have hne : (k != p) = true := by simp [hk]
      simp only [List.filter_cons, hne, if_true, List.lookup_cons, ih]
      by_cases hx : x = p
      · subst hx
        have : (x == k) = false := by
          simp; intro h; exact hk h.symm
        simp [this]
      · simp [hx]

theorem getD_append_single (l : List (List Path)) (x : List Path) (j : Nat) :
    (l ++ [x]).getD j [] = if j < l.length then l.getD j [] else if j = l.length then x else [] := by
  by_cases h : j < l.length
  · simp [h, List.getD_eq_getElem?_getD, List.getElem?_append_left h]
  · have h' : l.length ≤ j := by omega
    simp only [h, if_false, List.getD_eq_getElem?_getD, List.getElem?_append_right h']
    by_cases h2 : j = l.length
    · simp [h2]
    · have : j - l.length ≠ 0 := by omega
      simp [h2]
      cases hj : j - l.length with
      | zero => omega
      | succ n => simp

theorem mem_getD_lt {l : List (List Path)} {j : Nat} {p : Path} (h : p ∈ l.getD j []) :
    j < l.length := by
  by_cases hj : j < l.length
  · exact hj
  · have : l.getD j [] = [] := by
      simp [List.getD_eq_getElem?_getD, List.getElem?_eq_none (by omega : l.length ≤ j)]
    rw [this] at h; cases h

/-- the global invariant under the full discipline -/
structure Inv (s : St) : Prop where
  /-- no meta saved since the last `gcList` references a doomed or deleted path -/
  doomed : ∀ p, (p ∈ s.gcDels ∨ p ∈ s.deleted) → ∀ j, s.kList ≤ j → p ∉ s.metas.getD j []
  /-- a reader holding the lock loaded a meta at least as new as the one GC last listed under -/
  holder : ∀ r j, s.lock = some (.reader r) → (s.rs r).j = some j → s.kList ≤ j
  exist : ∀ j p, p ∈ s.metas.getD j [] → (s.fs.lookup p).isSome = true ∨ p ∈ s.deleted
  klt : s.kList < s.metas.length
  gone : ∀ p, p ∈ s.deleted → s.fs.lookup p = none
  jlt : ∀ r j, (s.rs r).j = some j → j < s.metas.length
  noBad : s.badOpens = []
  notFailed : ∀ r, (s.rs r).failed = false
  triedSub : ∀ r p, p ∈ (s.rs r).tried → ∃ j, (s.rs r).j = some j ∧ p ∈ s.metas.getD j []
  handlesTried : ∀ r, (s.rs r).handles.map (·.path) = (s.rs r).tried
  pubOk : ∀ r j, (r, j) ∈ s.pubs →
    (s.rs r).phase = .published ∧ (s.rs r).j = some j ∧ ∀ p, p ∈ s.metas.getD j [] → p ∈ (s.rs r).tried
  lockedFresh : ∀ r, (s.rs r).phase = .locked → (s.rs r).tried = []

theorem getD_init (j : Nat) : (([[]] : List (List Path))[j]?).getD [] = [] := by
  cases j <;> simp

theorem inv_init : Inv init := by
  constructor <;> simp [init, getD_init]

theorem inv_acquire (s : St) (r : Rid) (hI : Inv s) (hok : ok full s (.acquire r) = true) :
    Inv (step s (.acquire r)) := by
  simp only [ok, Bool.and_eq_true, decide_eq_true_eq] at hok
  obtain ⟨_, hph⟩ := hok
  refine ⟨hI.doomed, ?_, hI.exist, hI.klt, hI.gone, ?_, hI.noBad, ?_, ?_, ?_, ?_, ?_⟩
  · intro r' j hl hj
    simp only [step, Option.some.injEq, Holder.reader.injEq] at hl
    subst hl
    simp [step, upd] at hj
  · intro r' j hj
    by_cases h : r' = r
    · subst h; simp [step, upd] at hj
    · simp only [step, upd, h, if_false] at hj; exact hI.jlt r' j hj
  · intro r'
    by_cases h : r' = r
    · subst h; simp [step, upd]
    · simp only [step, upd, h, if_false]; exact hI.notFailed r'
  · intro r' p hp
    by_cases h : r' = r
    · subst h; simp [step, upd] at hp
    · simp only [step, upd, h, if_false] at hp ⊢; exact hI.triedSub r' p hp
  · intro r'
    by_cases h : r' = r
    · subst h; simp [step, upd]
    · simp only [step, upd, h, if_false]; exact hI.handlesTried r'
  · intro r' j hm
    have hm' : (r', j) ∈ s.pubs := hm
    have := hI.pubOk r' j hm'
    by_cases h : r' = r
    · subst h; rw [hph] at this; exact absurd this.1 (by decide)
    · simp only [step, upd, h, if_false]; exact this
  · intro r' hp
    by_cases h : r' = r
    · subst h; simp [step, upd]
    · simp only [step, upd, h, if_false] at hp ⊢; exact hI.lockedFresh r' hp

theorem inv_loadMeta (s : St) (r : Rid) (hI : Inv s) (hok : ok full s (.loadMeta r) = true) :
    Inv (step s (.loadMeta r)) := by
  simp only [ok, full, if_true, Bool.and_eq_true, decide_eq_true_eq] at hok
  obtain ⟨hph, _⟩ := hok
  have hk := hI.klt
  refine ⟨hI.doomed, ?_, hI.exist, hI.klt, hI.gone, ?_, hI.noBad, ?_, ?_, ?_, ?_, ?_⟩
  · intro r' j hl hj
    by_cases h : r' = r
    · subst h
      simp only [step, upd, if_true, Option.some.injEq] at hj
      show s.kList ≤ j
      omega
    · simp only [step, upd, h, if_false] at hj; exact hI.holder r' j hl hj
  · intro r' j hj
    by_cases h : r' = r
    · subst h
      simp only [step, upd, if_true, Option.some.injEq] at hj
      show j < s.metas.length
      omega
    · simp only [step, upd, h, if_false] at hj; exact hI.jlt r' j hj
  · intro r'
    by_cases h : r' = r
    · subst h; simp only [step, upd, if_true]; exact hI.notFailed r'
    · simp only [step, upd, h, if_false]; exact hI.notFailed r'
  · intro r' p hp
    by_cases h : r' = r
    · subst h
      simp only [step, upd, if_true] at hp
      rw [hI.lockedFresh r' hph] at hp; cases hp
    · simp only [step, upd, h, if_false] at hp ⊢; exact hI.triedSub r' p hp
  · intro r'
    by_cases h : r' = r
    · subst h; simp only [step, upd, if_true]; exact hI.handlesTried r'
    · simp only [step, upd, h, if_false]; exact hI.handlesTried r'
  · intro r' j hm
    have := hI.pubOk r' j hm
    by_cases h : r' = r
    · subst h; rw [hph] at this; exact absurd this.1 (by decide)
    · simp only [step, upd, h, if_false]; exact this
  · intro r' hp
    by_cases h : r' = r
    · subst h; simp [step, upd] at hp
    · simp only [step, upd, h, if_false] at hp ⊢; exact hI.lockedFresh r' hp

/-- the heart of the protocol: under the invariant, an `openFile` allowed by the discipline
finds its file -/
theorem open_finds (s : St) (r : Rid) (p : Path) (hI : Inv s)
    (hok : ok full s (.openFile r p) = true) :
    ∃ b j, s.fs.lookup p = some b ∧ (s.rs r).j = some j ∧ p ∈ s.metas.getD j [] ∧
      (s.rs r).phase = .loaded ∧ p ∉ (s.rs r).tried := by
  simp only [ok, full, Bool.not_true, Bool.false_or, Bool.and_eq_true, decide_eq_true_eq,
    Bool.not_eq_true'] at hok
  obtain ⟨⟨⟨hph, hl⟩, hm⟩, ht⟩ := hok
  cases hj : (s.rs r).j with
  | none => rw [hj] at hm; cases hm
  | some j =>
    rw [hj] at hm
    have hm' : p ∈ s.metas.getD j [] := by simpa [metaFiles] using hm
    have hk := hI.holder r j hl hj
    have hnd : p ∉ s.deleted := fun hd => hI.doomed p (Or.inr hd) j hk hm'
    have hex := hI.exist j p hm'
    have hsome : (s.fs.lookup p).isSome = true := by
      rcases hex with h | h
      · exact h
      · exact absurd h hnd
    obtain ⟨b, hb⟩ := Option.isSome_iff_exists.mp hsome
    refine ⟨b, j, hb, rfl, hm', hph, ?_⟩
    simpa using ht

theorem step_open_some (s : St) (r : Rid) (p : Path) (b : Nat) (h : s.fs.lookup p = some b) :
    step s (.openFile r p) =
      { s with rs := upd s.rs r { s.rs r with tried := p :: (s.rs r).tried,
                                              handles := ⟨p, b⟩ :: (s.rs r).handles } } := by
  simp [step, h]

theorem inv_openFile (s : St) (r : Rid) (p : Path) (hI : Inv s)
    (hok : ok full s (.openFile r p) = true) : Inv (step s (.openFile r p)) := by
  obtain ⟨b, j, hb, hj, hm, hph, _⟩ := open_finds s r p hI hok
  rw [step_open_some s r p b hb]
  refine ⟨hI.doomed, ?_, hI.exist, hI.klt, hI.gone, ?_, hI.noBad, ?_, ?_, ?_, ?_, ?_⟩
  · intro r' j' hl hj'
    by_cases h : r' = r
    · subst h; simp only [upd, if_true] at hj'; exact hI.holder r' j' hl hj'
    · simp only [upd, h, if_false] at hj'; exact hI.holder r' j' hl hj'
  · intro r' j' hj'
    by_cases h : r' = r
    · subst h; simp only [upd, if_true] at hj'; exact hI.jlt r' j' hj'
    · simp only [upd, h, if_false] at hj'; exact hI.jlt r' j' hj'
  · intro r'
    by_cases h : r' = r
    · subst h; simp only [upd, if_true]; exact hI.notFailed r'
    · simp only [upd, h, if_false]; exact hI.notFailed r'
  · intro r' p' hp
    by_cases h : r' = r
    · subst h
      simp only [upd, if_true, List.mem_cons] at hp ⊢
      rcases hp with hp | hp
      · subst hp; exact ⟨j, hj, hm⟩
      · exact hI.triedSub r' p' hp
    · simp only [upd, h, if_false] at hp ⊢; exact hI.triedSub r' p' hp
  · intro r'
    by_cases h : r' = r
    · subst h; simp only [upd, if_true, List.map_cons]; rw [hI.handlesTried r']
    · simp only [upd, h, if_false]; exact hI.handlesTried r'
  · intro r' j' hm'
    have := hI.pubOk r' j' hm'
    by_cases h : r' = r
    · subst h; rw [hph] at this; exact absurd this.1 (by decide)
    · simp only [upd, h, if_false]; exact this
  · intro r' hp
    by_cases h : r' = r
    · subst h; simp only [upd, if_true] at hp; rw [hph] at hp; cases hp
    · simp only [upd, h, if_false] at hp ⊢; exact hI.lockedFresh r' hp

theorem inv_release (s : St) (r : Rid) (hI : Inv s) (hok : ok full s (.release r) = true) :
    Inv (step s (.release r)) := by
  simp only [ok, full, if_true, Bool.and_eq_true, Bool.or_eq_true, decide_eq_true_eq] at hok
  obtain ⟨hl, hph⟩ := hok
  have hne : (s.rs r).phase ≠ .published := by
    rcases hph with h | h <;> rw [h] <;> decide
  refine ⟨hI.doomed, ?_, hI.exist, hI.klt, hI.gone, ?_, hI.noBad, ?_, ?_, ?_, ?_, ?_⟩
  · intro r' j' hl' hj'
    simp [step, hl] at hl'
  · intro r' j' hj'
    by_cases h : r' = r
    · subst h; simp only [step, upd, if_true] at hj'; exact hI.jlt r' j' hj'
    · simp only [step, upd, h, if_false] at hj'; exact hI.jlt r' j' hj'
  · intro r'
    by_cases h : r' = r
    · subst h; simp only [step, upd, if_true]; exact hI.notFailed r'
    · simp only [step, upd, h, if_false]; exact hI.notFailed r'
  · intro r' p' hp
    by_cases h : r' = r
    · subst h; simp only [step, upd, if_true] at hp ⊢; exact hI.triedSub r' p' hp
    · simp only [step, upd, h, if_false] at hp ⊢; exact hI.triedSub r' p' hp
  · intro r'
    by_cases h : r' = r
    · subst h; simp only [step, upd, if_true]; exact hI.handlesTried r'
    · simp only [step, upd, h, if_false]; exact hI.handlesTried r'
  · intro r' j' hm'
    have := hI.pubOk r' j' hm'
    by_cases h : r' = r
    · subst h; exact absurd this.1 hne
    · simp only [step, upd, h, if_false]; exact this
  · intro r' hp
    by_cases h : r' = r
    · subst h; simp [step, upd] at hp
    · simp only [step, upd, h, if_false] at hp ⊢; exact hI.lockedFresh r' hp

theorem inv_publish (s : St) (r : Rid) (hI : Inv s) (hok : ok full s (.publish r) = true) :
    Inv (step s (.publish r)) := by
  simp only [ok, Bool.and_eq_true, decide_eq_true_eq, Bool.not_eq_true'] at hok
  obtain ⟨⟨hph, _⟩, hall⟩ := hok
  cases hj : (s.rs r).j with
  | none => rw [hj] at hall; cases hall
  | some j =>
    rw [hj] at hall
    have hall' : ∀ p, p ∈ s.metas.getD j [] → p ∈ (s.rs r).tried := by
      simpa [metaFiles] using hall
    have hs : step s (.publish r) =
        { s with pubs := s.pubs ++ [(r, j)],
                 rs := upd s.rs r { s.rs r with phase := .published } } := by
      simp [step, hj]
    rw [hs]
    refine ⟨hI.doomed, ?_, hI.exist, hI.klt, hI.gone, ?_, hI.noBad, ?_, ?_, ?_, ?_, ?_⟩
    · intro r' j' hl hj'
      by_cases h : r' = r
      · subst h; simp only [upd, if_true] at hj'; exact hI.holder r' j' hl hj'
      · simp only [upd, h, if_false] at hj'; exact hI.holder r' j' hl hj'
    · intro r' j' hj'
      by_cases h : r' = r
      · subst h; simp only [upd, if_true] at hj'; exact hI.jlt r' j' hj'
      · simp only [upd, h, if_false] at hj'; exact hI.jlt r' j' hj'
    · intro r'
      by_cases h : r' = r
      · subst h; simp only [upd, if_true]; exact hI.notFailed r'
      · simp only [upd, h, if_false]; exact hI.notFailed r'
    · intro r' p' hp
      by_cases h : r' = r
      · subst h; simp only [upd, if_true] at hp ⊢; exact hI.triedSub r' p' hp
      · simp only [upd, h, if_false] at hp ⊢; exact hI.triedSub r' p' hp
    · intro r'
      by_cases h : r' = r
      · subst h; simp only [upd, if_true]; exact hI.handlesTried r'
      · simp only [upd, h, if_false]; exact hI.handlesTried r'
    · intro r' j' hm'
      simp only [List.mem_append, List.mem_singleton, Prod.mk.injEq] at hm'
      by_cases h : r' = r
      · subst h
        simp only [upd, if_true]
        rcases hm' with hm' | ⟨_, hm'⟩
        · have := hI.pubOk r' j' hm'
          rw [hph] at this; exact absurd this.1 (by decide)
        · subst hm'; exact ⟨trivial, hj, hall'⟩
      · simp only [upd, h, if_false]
        rcases hm' with hm' | ⟨hm', _⟩
        · exact hI.pubOk r' j' hm'
        · exact absurd hm' h
    · intro r' hp
      by_cases h : r' = r
      · subst h; simp [upd] at hp
      · simp only [upd, h, if_false] at hp ⊢; exact hI.lockedFresh r' hp

theorem inv_create (s : St) (p : Path) (b : Nat) (hI : Inv s)
    (hok : ok full s (.create p b) = true) : Inv (step s (.create p b)) := by
  simp only [ok, present, Bool.and_eq_true, Bool.not_eq_true', List.contains_eq_mem,
    decide_eq_false_iff_not] at hok
  obtain ⟨_, hnd⟩ := hok
  refine ⟨hI.doomed, hI.holder, ?_, hI.klt, ?_, hI.jlt, hI.noBad, hI.notFailed, hI.triedSub,
    hI.handlesTried, hI.pubOk, hI.lockedFresh⟩
  · intro j p' hm
    rcases hI.exist j p' hm with h | h
    · left
      simp only [step, List.lookup_cons]
      split <;> simp_all
    · exact Or.inr h
  · intro p' hd
    have hne : p' ≠ p := fun h => hnd (h ▸ hd)
    have : (p' == p) = false := by simp [hne]
    simp only [step, List.lookup_cons, this]
    exact hI.gone p' hd

theorem inv_saveMeta (s : St) (files : List Path) (hI : Inv s)
    (hok : ok full s (.saveMeta files) = true) : Inv (step s (.saveMeta files)) := by
  simp only [ok, present, List.all_eq_true, Bool.and_eq_true, Bool.not_eq_true',
    List.contains_eq_mem, decide_eq_false_iff_not] at hok
  have hk := hI.klt
  refine ⟨?_, hI.holder, ?_, ?_, hI.gone, ?_, hI.noBad, hI.notFailed, ?_, hI.handlesTried, ?_,
    hI.lockedFresh⟩
  · intro p hp j hj hm
    simp only [step] at hm hj hp
    rw [getD_append_single] at hm
    split at hm
    · exact hI.doomed p hp j hj hm
    · split at hm
      · obtain ⟨hpres, hng⟩ := hok p hm
        rcases hp with hp | hp
        · exact hng hp
        · rw [hI.gone p hp] at hpres; cases hpres
      · cases hm
  · intro j p hm
    simp only [step] at hm ⊢
    rw [getD_append_single] at hm
    split at hm
    · exact hI.exist j p hm
    · split at hm
      · exact Or.inl (hok p hm).1
      · cases hm
  · show s.kList < (s.metas ++ [files]).length
    simp only [List.length_append, List.length_singleton]; omega
  · intro r j hj
    have := hI.jlt r j hj
    show j < (s.metas ++ [files]).length
    simp only [List.length_append, List.length_singleton]; omega
  · intro r p hp
    obtain ⟨j, hj, hm⟩ := hI.triedSub r p hp
    refine ⟨j, hj, ?_⟩
    simp only [step]
    rw [getD_append_single, if_pos (hI.jlt r j hj)]
    exact hm
  · intro r j hm
    obtain ⟨h1, h2, h3⟩ := hI.pubOk r j hm
    refine ⟨h1, h2, ?_⟩
    intro p hp
    simp only [step] at hp
    rw [getD_append_single, if_pos (hI.jlt r j h2)] at hp
    exact h3 p hp

theorem inv_gcAcquire (s : St) (hI : Inv s) (_hok : ok full s .gcAcquire = true) :
    Inv (step s .gcAcquire) := by
  refine ⟨hI.doomed, ?_, hI.exist, hI.klt, hI.gone, hI.jlt, hI.noBad, hI.notFailed, hI.triedSub,
    hI.handlesTried, hI.pubOk, hI.lockedFresh⟩
  intro r j hl
  simp [step] at hl

theorem inv_gcRelease (s : St) (hI : Inv s) (hok : ok full s .gcRelease = true) :
    Inv (step s .gcRelease) := by
  simp only [ok, decide_eq_true_eq] at hok
  refine ⟨hI.doomed, ?_, hI.exist, hI.klt, hI.gone, hI.jlt, hI.noBad, hI.notFailed, hI.triedSub,
    hI.handlesTried, hI.pubOk, hI.lockedFresh⟩
  intro r j hl
  simp [step, hok] at hl

theorem inv_gcList (s : St) (living : List Path) (hI : Inv s)
    (hok : ok full s (.gcList living) = true) : Inv (step s (.gcList living)) := by
  simp only [ok, full, Bool.not_true, Bool.false_or, metaFiles, List.all_eq_true,
    Bool.and_eq_true, decide_eq_true_eq, List.contains_eq_mem] at hok
  obtain ⟨hl, hliv⟩ := hok
  have hk := hI.klt
  refine ⟨?_, ?_, hI.exist, ?_, hI.gone, hI.jlt, hI.noBad, hI.notFailed, hI.triedSub,
    hI.handlesTried, hI.pubOk, hI.lockedFresh⟩
  · intro p hp j hj hm
    simp only [step] at hp hj hm
    have hjl := mem_getD_lt hm
    rcases hp with hp | hp
    · have hjeq : j = s.metas.length - 1 := by omega
      subst hjeq
      have := hliv p hm
      simp only [List.mem_filter, Bool.not_eq_true', List.contains_eq_mem,
        decide_eq_false_iff_not] at hp
      exact hp.2 (by simpa using this)
    · exact hI.doomed p (Or.inr hp) j (by omega) hm
  · intro r j hl'
    simp only [step] at hl'
    rw [hl] at hl'; cases hl'
  · show s.metas.length - 1 < s.metas.length
    omega

theorem inv_gcDelete (s : St) (p : Path) (hI : Inv s)
    (hok : ok full s (.gcDelete p) = true) : Inv (step s (.gcDelete p)) := by
  simp only [ok, List.contains_eq_mem, decide_eq_true_eq] at hok
  refine ⟨?_, hI.holder, ?_, hI.klt, ?_, hI.jlt, hI.noBad, hI.notFailed, hI.triedSub,
    hI.handlesTried, hI.pubOk, hI.lockedFresh⟩
  · intro p' hp j hj hm
    simp only [step, List.mem_cons] at hp hj hm
    rcases hp with hp | hp | hp
    · exact hI.doomed p' (Or.inl hp) j hj hm
    · subst hp; exact hI.doomed p' (Or.inl hok) j hj hm
    · exact hI.doomed p' (Or.inr hp) j hj hm
  · intro j p' hm
    simp only [step, List.mem_cons, lookup_filter_ne]
    by_cases h : p' = p
    · exact Or.inr (Or.inl h)
    · rcases hI.exist j p' hm with h' | h'
      · left; simp [h, h']
      · exact Or.inr (Or.inr h')
  · intro p' hd
    simp only [step, List.mem_cons, lookup_filter_ne] at hd ⊢
    by_cases h : p' = p
    · simp [h]
    · rcases hd with hd | hd
      · exact absurd hd h
      · simp [h, hI.gone p' hd]

/-- an event that changes, of all reload states, only fields the invariant does not mention -/
theorem inv_same_rs (s s' : St) (hI : Inv s)
    (h0 : s'.metas = s.metas ∧ s'.fs = s.fs ∧ s'.deleted = s.deleted ∧ s'.lock = s.lock ∧
      s'.gcDels = s.gcDels ∧ s'.kList = s.kList ∧ s'.pubs = s.pubs ∧ s'.badOpens = s.badOpens)
    (hr : ∀ x, (s'.rs x).phase = (s.rs x).phase ∧ (s'.rs x).j = (s.rs x).j ∧
      (s'.rs x).tried = (s.rs x).tried ∧ (s'.rs x).handles = (s.rs x).handles ∧
      (s'.rs x).failed = (s.rs x).failed) : Inv s' := by
  obtain ⟨h1, h2, h3, h4, h5, h6, h7, h8⟩ := h0
  refine ⟨?_, ?_, ?_, ?_, ?_, ?_, ?_, ?_, ?_, ?_, ?_, ?_⟩
  · rw [h5, h3, h6, h1]; exact hI.doomed
  · intro r j; rw [h4, (hr r).2.1, h6]; exact hI.holder r j
  · rw [h1, h2, h3]; exact hI.exist
  · rw [h6, h1]; exact hI.klt
  · rw [h3, h2]; exact hI.gone
  · intro r j; rw [(hr r).2.1, h1]; exact hI.jlt r j
  · rw [h8]; exact hI.noBad
  · intro r; rw [(hr r).2.2.2.2]; exact hI.notFailed r
  · intro r p; rw [(hr r).2.2.1, (hr r).2.1, h1]; exact hI.triedSub r p
  · intro r; rw [(hr r).2.2.2.1, (hr r).2.2.1]; exact hI.handlesTried r
  · intro r j; rw [h7, (hr r).1, (hr r).2.1, h1, (hr r).2.2.1]; exact hI.pubOk r j
  · intro r; rw [(hr r).1, (hr r).2.2.1]; exact hI.lockedFresh r

theorem rs_warm (s : St) (r x : Rid) :
    ((step s (.warm r)).rs x).phase = (s.rs x).phase ∧ ((step s (.warm r)).rs x).j = (s.rs x).j ∧
    ((step s (.warm r)).rs x).tried = (s.rs x).tried ∧
    ((step s (.warm r)).rs x).handles = (s.rs x).handles ∧
    ((step s (.warm r)).rs x).failed = (s.rs x).failed := by
  by_cases h : x = r
  · subst h; simp [step, upd]
  · simp [step, upd, h]

theorem inv_warm (s : St) (r : Rid) (hI : Inv s) : Inv (step s (.warm r)) :=
  inv_same_rs s _ hI ⟨rfl, rfl, rfl, rfl, rfl, rfl, rfl, rfl⟩ (rs_warm s r)

theorem inv_step (s : St) (e : Ev) (hI : Inv s) (hok : ok full s e = true) : Inv (step s e) := by
  cases e with
  | acquire r => exact inv_acquire s r hI hok
  | loadMeta r => exact inv_loadMeta s r hI hok
  | openFile r p => exact inv_openFile s r p hI hok
  | release r => exact inv_release s r hI hok
  | warm r => exact inv_warm s r hI
  | publish r => exact inv_publish s r hI hok
  | create p b => exact inv_create s p b hI hok
  | saveMeta f => exact inv_saveMeta s f hI hok
  | gcAcquire => exact inv_gcAcquire s hI hok
  | gcList l => exact inv_gcList s l hI hok
  | gcRelease => exact inv_gcRelease s hI hok
  | gcDelete p => exact inv_gcDelete s p hI hok
  | mLock r =>
    exact inv_same_rs s _ hI ⟨rfl, rfl, rfl, rfl, rfl, rfl, rfl, rfl⟩ (fun _ => ⟨rfl, rfl, rfl, rfl, rfl⟩)
  | mUnlock r =>
    exact inv_same_rs s _ hI ⟨rfl, rfl, rfl, rfl, rfl, rfl, rfl, rfl⟩ (fun _ => ⟨rfl, rfl, rfl, rfl, rfl⟩)

theorem check_append (f : St → Ev → Bool) (s : St) (t u : List Ev) :
    check f s (t ++ u) = (check f s t && check f (run s t) u) := by
  induction t generalizing s with
  | nil => simp [check, run]
  | cons e t ih => simp [check, run, ih, Bool.and_assoc]

theorem inv_run (s : St) (t : List Ev) (hI : Inv s) (hv : validFrom full s t = true) :
    Inv (run s t) := by
  induction t generalizing s with
  | nil => exact hI
  | cons e t ih =>
    simp only [validFrom, check, Bool.and_eq_true] at hv
    exact ih (step s e) (inv_step s e hI hv.1) hv.2

end TantivyModel.Reader
