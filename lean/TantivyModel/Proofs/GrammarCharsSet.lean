import TantivyModel.Proofs.GrammarCharsRange
namespace TantivyModel.Grammar.Chars
open TantivyModel.Grammar

/-! ## sets `IN [a b c]` -/

/-- a remainder at which an unquoted word stops: the end, a space, `)`, `]` or `^` -/
def WStop (t : Str) : Prop := t = [] ∨ ∃ d t', t = d :: t' ∧ (d = ' ' ∨ d = ')' ∨ d = ']' ∨ d = '^')

theorem wordRest_stop (t : Str) (ht : WStop t) : wordRest t = ([], t) := by
  rcases ht with rfl | ⟨d, t', rfl, hd⟩
  · rfl
  · have hb : d ≠ '\\' := by rcases hd with rfl | rfl | rfl | rfl <;> decide
    have hs : (!isUniSpace d && !escapeInWord.contains d) = false := by
      rcases hd with rfl | rfl | rfl | rfl <;> decide
    unfold wordRest
    split
    · rename_i heq; cases heq
    · rename_i heq; exact absurd (List.cons.inj heq).1 hb
    · rename_i heq
      obtain ⟨rfl, rfl⟩ := List.cons.inj heq
      rw [if_neg (by rw [hs]; decide)]

theorem wordRest_plain_stop (w t : Str) (hw : ∀ c ∈ w, plain c = true) (ht : WStop t) :
    wordRest (w ++ t) = (w, t) := by
  induction w with
  | nil => simpa using wordRest_stop t ht
  | cons c rest ih =>
    have hc := hw c (by simp)
    have hb : c ≠ '\\' := plain_ne c '\\' hc (by decide)
    have ih' := ih (fun d hd => hw d (List.mem_cons_of_mem _ hd))
    have h1 := (plain_not_space c hc).1
    have h2' : c ∉ escapeInWord := by simpa using (plain_not_special c hc).2
    show wordRest (c :: (rest ++ t)) = (c :: rest, t)
    unfold wordRest
    split
    · rename_i heq; cases heq
    · rename_i heq
      exact absurd (List.cons.inj heq).1 hb
    · rename_i heq
      obtain ⟨rfl, rfl⟩ := List.cons.inj heq
      simp [h1, h2', ih']

theorem word_stop (c : Char) (r t : Str) (h : PlainWord (c :: r)) (ht : WStop t) :
    word (c :: (r ++ t)) = some (c :: r, t) := by
  have hc := pw_head c r h
  have hb : c ≠ '\\' := plain_ne c '\\' hc (by decide)
  have hm : c ≠ '-' := plain_ne c '-' hc (by decide)
  have h1 := (plain_not_space c hc).1
  have h2 : c ∉ escapeInWord := by simpa using (plain_not_special c hc).2
  have hr := wordRest_plain_stop r t (pw_tail c r h) ht
  have hk : c :: r ∉ keywords := by
    intro hmem
    exact plainWord_ne_keyword _ _ h hmem rfl
  have hnb' : ¬ ('\\' = c ∨ '\\' ∈ r) := by
    intro hh
    have hmem : '\\' ∈ c :: r := by
      rcases hh with rfl | hh
      · simp
      · exact List.mem_cons_of_mem _ hh
    exact absurd (h.all _ hmem) (by decide)
  unfold word
  split
  · rename_i heq
    exact absurd (List.cons.inj heq).1 hb
  · rename_i heq
    obtain ⟨rfl, rfl⟩ := List.cons.inj heq
    simp [h1, h2, hm, hr, hk, hnb']
  · rename_i heq; cases heq

theorem simpleTerm_stop (c : Char) (r t : Str) (h : PlainWord (c :: r)) (ht : WStop t) :
    simpleTerm (c :: (r ++ t)) = some ((.none, c :: r), t) := by
  have hc := pw_head c r h
  have h1 : c ≠ '\'' := plain_ne c '\'' hc (by decide)
  have h2 : c ≠ '"' := plain_ne c '"' hc (by decide)
  have hn : negativeNumber (c :: (r ++ t)) = none := by
    unfold negativeNumber
    split
    · rename_i heq; exact absurd (List.cons.inj heq).1 (plain_ne c '-' hc (by decide))
    · rfl
  unfold simpleTerm
  rw [hn]
  simp only
  split
  · rename_i heq; exact absurd (List.cons.inj heq).1 h1
  · rename_i heq; exact absurd (List.cons.inj heq).1 h2
  · simp [word_stop c r t h ht]

theorem wstop_elems (more : List (Nat × Str)) (t : Str) : WStop (elemsText more ++ ']' :: t) := by
  cases more with
  | nil => exact Or.inr ⟨']', t, rfl, Or.inr (Or.inr (Or.inl rfl))⟩
  | cons e rest => exact Or.inr ⟨' ', _, rfl, Or.inl rfl⟩

theorem skip1_blanks (k : Nat) (c : Char) (x : Str) (hc : isNomSpace c = false) :
    skip1 (' ' :: (spaces k ++ c :: x)) = some (c :: x) := by
  have := skip0_spaces (k + 1) (c :: x) (by
    intro c' r' h'
    rw [← (List.cons.inj h').1]; exact hc)
  have e : spaces (k + 1) ++ c :: x = ' ' :: (spaces k ++ c :: x) := by simp [spaces, List.replicate_succ]
  rw [e] at this
  rw [skip1_space, this]

theorem setMore_print (more : List (Nat × Str)) (hm : ∀ e ∈ more, PlainWord e.2) (t : Str) (fuel : Nat)
    (hf : more.length ≤ fuel) :
    setMore fuel (elemsText more ++ ']' :: t) = (more.map (·.2), ']' :: t) := by
  induction more generalizing fuel with
  | nil =>
    cases fuel with
    | zero => rfl
    | succ f => simp [elemsText, setMore, skip1, isNomSpace]
  | cons e rest ih =>
    obtain ⟨k, w⟩ := e
    obtain ⟨f, rfl⟩ : ∃ f, fuel = f + 1 := ⟨fuel - 1, by simp at hf; omega⟩
    have hw : PlainWord w := hm (k, w) (by simp)
    obtain ⟨c, r, rfl⟩ := List.exists_cons_of_ne_nil hw.ne
    have hc := pw_head c r hw
    have ih' := ih (fun e he => hm e (List.mem_cons_of_mem _ he)) f (by simp at hf; omega)
    have hst := simpleTerm_stop c r _ hw (wstop_elems rest t)
    have hs1 := skip1_blanks k c (r ++ (elemsText rest ++ ']' :: t)) (plain_not_space c hc).2
    have e1 : elemsText ((k, c :: r) :: rest) ++ ']' :: t
        = ' ' :: (spaces k ++ c :: (r ++ (elemsText rest ++ ']' :: t))) := by
      simp [elemsText]
    rw [e1]
    generalize elemsText rest ++ ']' :: t = X at ih' hst hs1
    generalize hY : c :: (r ++ X) = Y at hst hs1
    simp [setMore, hs1, hst, ih']

theorem elemsText_length (more : List (Nat × Str)) : more.length ≤ (elemsText more).length := by
  induction more with
  | nil => simp [elemsText]
  | cons e rest ih =>
    obtain ⟨k, w⟩ := e
    simp only [elemsText, List.length_cons, List.length_append]
    omega

theorem set_print (k0 k1 : Nat) (c : Char) (r : Str) (more : List (Nat × Str)) (t : Str)
    (hw : PlainWord (c :: r)) (hm : ∀ e ∈ more, PlainWord e.2) :
    set ('I' :: 'N' :: ' ' :: (spaces k0 ++ '[' :: (spaces k1 ++ c :: (r ++ (elemsText more ++ ']' :: t)))))
      = some (.set none ((c :: r) :: more.map (·.2)), t) := by
  have hc := pw_head c r hw
  have hst := simpleTerm_stop c r _ hw (wstop_elems more t)
  have hsm := setMore_print more hm t (elemsText more ++ ']' :: t).length (by
    have := elemsText_length more
    simp only [List.length_append]; omega)
  have h3 : skip0 (spaces k1 ++ c :: (r ++ (elemsText more ++ ']' :: t))) = c :: (r ++ (elemsText more ++ ']' :: t)) := by
    apply skip0_spaces
    intro c' r' h'
    rw [← (List.cons.inj h').1]; exact (plain_not_space c hc).2
  generalize elemsText more ++ ']' :: t = X at hst hsm h3
  generalize c :: (r ++ X) = W at hst h3
  have h2 := skip1_blanks k0 '[' (spaces k1 ++ W) (by decide)
  generalize spaces k1 ++ W = V at h2 h3
  have hsk : ∀ Z, skip0 ('I' :: 'N' :: Z) = 'I' :: 'N' :: Z := by
    intro Z; simp [skip0, List.dropWhile, isNomSpace]
  have htag : ∀ Z, tag ['I', 'N'] ('I' :: 'N' :: Z) = some Z := by
    intro Z; simp [tag, List.isPrefixOf]
  simp [set, hsk, htag, h2, h3, hst, hsm]

theorem fieldName_allplain_rem (c : Char) (r t : Str) (hall : ∀ d ∈ c :: r, plain d = true) (ht : Rem t) :
    fieldName (c :: (r ++ t)) = none := by
  have hc := hall c (by simp)
  have hs : c ∉ specialChars := by simpa using (plain_not_special c hc).1
  have hm : c ≠ '-' := plain_ne c '-' hc (by decide)
  have hfr := fieldRest_plain_rem r t (fun d hd => hall d (List.mem_cons_of_mem _ hd)) ht
  simp [fieldName, hs, hm, hfr]
  rcases ht with rfl | ⟨t', rfl, hcol⟩ | ⟨t', rfl⟩
  rotate_left 2
  · simp [skip0, List.dropWhile, isNomSpace]
  · simp [skip0]
  · have e : skip0 (' ' :: t') = skip0 t' := by simp [skip0, List.dropWhile, isNomSpace]
    rw [e]
    cases hsk : skip0 t' with
    | nil => rfl
    | cons d rest =>
      have hd : d ≠ ':' := fun e => hcol rest (by rw [hsk, e])
      split
      · rename_i heq; exact absurd (List.cons.inj heq).1 hd
      · rfl

theorem range_plain_head (c : Char) (x : Str) (hc : plain c = true) : range (c :: x) = none := by
  have ne : ∀ d, plain d = false → c ≠ d := fun d hd => plain_ne c d hc hd
  have hsk : skip0 (c :: x) = c :: x := by simp [skip0, List.dropWhile, (plain_not_space c hc).2]
  simp [range, hsk, tag_head_ne _ _ _ _ (ne '>' (by decide)),
    tag_head_ne _ _ _ _ (ne '<' (by decide)), ne '{' (by decide), ne '[' (by decide)]

theorem fieldName_set (k0 : Nat) (V : Str) : fieldName ('I' :: 'N' :: ' ' :: (spaces k0 ++ '[' :: V)) = none := by
  have := fieldName_allplain_rem 'I' ['N'] (' ' :: (spaces k0 ++ '[' :: V)) (by decide)
    (Or.inr (Or.inl ⟨_, rfl, by
      intro r' h
      rw [skip0_spaces k0 ('[' :: V) (by intro c' r'' h'; rw [← (List.cons.inj h').1]; decide)] at h
      exact absurd (List.cons.inj h).1 (by decide)⟩))
  simpa using this

theorem plainLiteral_set (g : Bool) (k0 k1 : Nat) (c : Char) (r : Str) (more : List (Nat × Str)) (t : Str)
    (hw : PlainWord (c :: r)) (hm : ∀ e ∈ more, PlainWord e.2) :
    plainLiteral g ('I' :: 'N' :: ' ' :: (spaces k0 ++ '[' :: (spaces k1 ++ c :: (r ++ (elemsText more ++ ']' :: t)))))
      = .ok (.leaf (.set none ((c :: r) :: more.map (·.2)))) t := by
  have hs := set_print k0 k1 c r more t hw hm
  have hfn := fieldName_set k0 (spaces k1 ++ c :: (r ++ (elemsText more ++ ']' :: t)))
  have hr := range_plain_head 'I' ('N' :: ' ' :: (spaces k0 ++ '[' :: (spaces k1 ++ c :: (r ++ (elemsText more ++ ']' :: t))))) (by decide)
  generalize 'I' :: 'N' :: ' ' :: (spaces k0 ++ '[' :: (spaces k1 ++ c :: (r ++ (elemsText more ++ ']' :: t)))) = S at hs hfn hr
  simp [plainLiteral, hfn, hr, hs, setField]

/-- a field name in front of a set: the same set with the field set -/
theorem plainLiteral_field_set (g : Bool) (c : Char) (r y : Str) (h : PlainWord (c :: r)) (hy : skip0 y = y)
    (hfn : fieldName y = none) (es : List Str) (t : Str)
    (hY : plainLiteral g y = .ok (.leaf (.set none es)) t) :
    plainLiteral g (c :: (r ++ ':' :: y)) = .ok (.leaf (.set (some (c :: r)) es)) t := by
  rw [plainLiteral_eq] at hY ⊢
  rw [fieldName_field c r y h hy]
  rw [hfn] at hY
  simp only at hY ⊢
  cases hL : leafAlt y with
  | none => rw [hL] at hY; cases hY
  | some lr =>
    obtain ⟨l, r'⟩ := lr
    rw [hL] at hY
    simp only at hY ⊢
    cases l <;> simp [setField] at hY ⊢
    · exact hY
    · cases g <;> simp at hY

/-- the elements of a set: plain words -/
def PlainElems (w : Str) (more : List (Nat × Str)) : Prop := PlainWord w ∧ ∀ e ∈ more, PlainWord e.2

/-- `IN [a b c]` is a good operand -/
theorem goodOpd_set (g : Bool) (k0 k1 : Nat) (w : Str) (more : List (Nat × Str)) (h : PlainElems w more) :
    GoodOpd g (setOpd k0 k1 w more) := by
  obtain ⟨hw, hm⟩ := h
  obtain ⟨c, r, rfl⟩ := List.exists_cons_of_ne_nil hw.ne
  refine ⟨⟨'I', _, rfl, by decide, by decide, by decide, by decide, by decide⟩, ?_, ?_, ?_⟩
  · intro t _
    simp [setOpd, setText, binaryOperand, tag, List.isPrefixOf]
  · intro t ht f hf
    obtain ⟨f', rfl⟩ : ∃ f', f = f' + 1 := ⟨f - 1, by simp [setOpd] at hf; omega⟩
    have e : (setOpd k0 k1 (c :: r) more).text ++ t
        = 'I' :: 'N' :: ' ' :: (spaces k0 ++ '[' :: (spaces k1 ++ c :: (r ++ (elemsText more ++ ']' :: t)))) := by
      simp [setOpd, setText]
    rw [e]
    have hp := plainLiteral_set g k0 k1 c r more t hw hm
    generalize spaces k0 ++ '[' :: (spaces k1 ++ c :: (r ++ (elemsText more ++ ']' :: t))) = S at hp
    unfold pLeaf
    simp [R.orElse, tag, List.isPrefixOf, hp, setOpd]
  · simp [setOpd, setText]; omega

/-- `name:IN [a b c]` is a good operand -/
theorem goodOpd_fieldSet (g : Bool) (f : Str) (k0 k1 : Nat) (w : Str) (more : List (Nat × Str))
    (hf : PlainWord f) (h : PlainElems w more) : GoodOpd g (fieldSetOpd f k0 k1 w more) := by
  obtain ⟨hw, hm⟩ := h
  obtain ⟨c, r, rfl⟩ := List.exists_cons_of_ne_nil hw.ne
  obtain ⟨cf, rf, rfl⟩ := List.exists_cons_of_ne_nil hf.ne
  have hc : plain cf = true := hf.all cf (by simp)
  refine ⟨⟨cf, _, rfl, (plain_not_space cf hc).2, plain_ne cf ':' hc (by decide),
    plain_ne cf '+' hc (by decide), plain_ne cf '-' hc (by decide), plain_ne cf ')' hc (by decide)⟩, ?_, ?_, ?_⟩
  · intro t _
    have e : (fieldSetOpd (cf :: rf) k0 k1 (c :: r) more).text ++ t
        = (cf :: rf) ++ ':' :: ('I' :: 'N' :: ' ' :: (spaces k0 ++ '[' :: (spaces k1 ++ c :: (r ++ (elemsText more ++ ']' :: t))))) := by
      simp [fieldSetOpd, setText]
    rw [e]
    exact binaryOperand_field (cf :: rf) _ hf
  · intro t ht fu hfu
    obtain ⟨f', rfl⟩ : ∃ f', fu = f' + 1 := ⟨fu - 1, by simp [fieldSetOpd] at hfu; omega⟩
    have e : (fieldSetOpd (cf :: rf) k0 k1 (c :: r) more).text ++ t
        = cf :: (rf ++ ':' :: ('I' :: 'N' :: ' ' :: (spaces k0 ++ '[' :: (spaces k1 ++ c :: (r ++ (elemsText more ++ ']' :: t)))))) := by
      simp [fieldSetOpd, setText]
    rw [e]
    have hp := plainLiteral_set g k0 k1 c r more t hw hm
    have hfn := fieldName_set k0 (spaces k1 ++ c :: (r ++ (elemsText more ++ ']' :: t)))
    generalize spaces k0 ++ '[' :: (spaces k1 ++ c :: (r ++ (elemsText more ++ ']' :: t))) = S at hp hfn
    exact pLeaf_field g f' cf rf _ hf _ t
      (plainLiteral_field_set g cf rf _ hf (by simp [skip0, List.dropWhile, isNomSpace]) hfn _ t hp)
  · simp [fieldSetOpd, setText]; omega

end TantivyModel.Grammar.Chars
