import TantivyModel.Model.Expull
/-! `read_to_end` returns exactly the bytes appended to an `ExpUnrolledLinkedList`, whatever else
happens in the arena outside its blocks -/
namespace TantivyModel.Expull

abbrev Block := Nat × List Nat

def nextAddr (rest : List Block) (last : Nat) : Nat :=
  match rest with
  | [] => last
  | p :: _ => p.1

/-- the full blocks (address, content) from block number `bn` on, chained up to the address `last`
of the block being filled; addresses increase (allocation order) -/
def ChainOK (a : Arena) : Nat → List Block → Nat → Prop
  | _, [], _ => True
  | bn, p :: rest, last =>
    p.2.length = blockSize bn ∧ a.slice p.1 (blockSize bn) = p.2 ∧
    a.readAddr (p.1 + blockSize bn) = nextAddr rest last ∧
    p.1 + blockSize bn + 4 ≤ nextAddr rest last ∧
    ChainOK a (bn + 1) rest last

structure Good (a : Arena) (e : Eull) (full : List Block) (la : Nat) (ld : List Nat) : Prop where
  head : e.head = some (nextAddr full la)
  bn : e.blockNum = full.length + 3
  chain : ChainOK a 3 full la
  lastSlice : a.slice la ld.length = ld
  cap : ld.length + e.remainingCap = blockSize e.blockNum
  tail : e.tail = la + ld.length
  bound : la + blockSize e.blockNum + 4 ≤ a.len

def bytesOf (full : List Block) (ld : List Nat) : List Nat := full.flatMap (·.2) ++ ld

/-- the list holds `bs` -/
def Rep (a : Arena) (e : Eull) (bs : List Nat) : Prop :=
  (e = Eull.default ∧ bs = []) ∨ ∃ full la ld, Good a e full la ld ∧ bs = bytesOf full ld

theorem blockSize_pos (bn : Nat) : 0 < blockSize bn := Nat.two_pow_pos _

/-! ### reading -/

theorem readBlocks_chain (a : Arena) (full : List Block) :
    ∀ bn last, ChainOK a bn full last →
      readBlocks a full.length bn (nextAddr full last) = (full.flatMap (·.2), last) := by
  induction full with
  | nil => intro bn last _; rfl
  | cons p rest ih =>
    intro bn last h
    obtain ⟨_, h2, h3, _, h5⟩ := h
    simp only [List.length_cons, readBlocks, nextAddr, List.flatMap_cons]
    rw [h3, ih (bn + 1) last h5, h2]

theorem readToEnd_good (a : Arena) (e : Eull) (full : List Block) (la : Nat) (ld : List Nat)
    (g : Good a e full la ld) : readToEnd e a = bytesOf full ld := by
  have h3 : FIRST_BLOCK_NUM + 1 = 3 := by decide
  unfold readToEnd
  rw [g.head]
  simp only [h3]
  have hn : e.blockNum - 3 = full.length := by rw [g.bn]; omega
  rw [hn, readBlocks_chain a full 3 la g.chain]
  have hl : blockSize e.blockNum - e.remainingCap = ld.length := by have := g.cap; omega
  simp only [hl, g.lastSlice, bytesOf]

theorem readToEnd_rep (a : Arena) (e : Eull) (bs : List Nat) (h : Rep a e bs) : readToEnd e a = bs := by
  rcases h with ⟨rfl, rfl⟩ | ⟨full, la, ld, g, rfl⟩
  · rfl
  · exact readToEnd_good a e full la ld g

/-! ### the frame: memory outside the list's blocks does not matter -/

def inFull (full : List Block) (x : Nat) : Prop := ∃ p ∈ full, p.1 ≤ x ∧ x < p.1 + p.2.length + 4

theorem slice_congr (a a' : Arena) (addr n : Nat) (h : ∀ x, addr ≤ x → x < addr + n → a'.mem x = a.mem x) :
    a'.slice addr n = a.slice addr n := by
  unfold Arena.slice
  apply List.map_congr_left
  intro i hi
  rw [List.mem_range] at hi
  exact h _ (by omega) (by omega)

theorem readAddr_congr (a a' : Arena) (addr : Nat) (h : ∀ x, addr ≤ x → x < addr + 4 → a'.mem x = a.mem x) :
    a'.readAddr addr = a.readAddr addr := by
  unfold Arena.readAddr
  rw [h addr (by omega) (by omega), h (addr + 1) (by omega) (by omega), h (addr + 2) (by omega) (by omega),
    h (addr + 3) (by omega) (by omega)]

theorem chain_congr (a a' : Arena) (full : List Block) :
    ∀ bn last, (∀ x, inFull full x → a'.mem x = a.mem x) → ChainOK a bn full last → ChainOK a' bn full last := by
  induction full with
  | nil => intro _ _ _ _; trivial
  | cons p rest ih =>
    intro bn last hm h
    obtain ⟨h1, h2, h3, h4, h5⟩ := h
    refine ⟨h1, ?_, ?_, h4, ih (bn + 1) last (fun x hx => hm x ?_) h5⟩
    · rw [← h2]
      exact slice_congr a a' _ _ (fun x hx1 hx2 => hm x ⟨p, by simp, hx1, by omega⟩)
    · rw [← h3]
      exact readAddr_congr a a' _ (fun x hx1 hx2 => hm x ⟨p, by simp, by omega, by omega⟩)
    · obtain ⟨q, hq, hx'⟩ := hx
      exact ⟨q, List.mem_cons_of_mem _ hq, hx'⟩

/-- all full blocks lie below the block being filled -/
theorem chain_below (a : Arena) (full : List Block) :
    ∀ bn last, ChainOK a bn full last → ∀ x, inFull full x → x < last := by
  induction full with
  | nil => intro _ _ _ x hx; obtain ⟨p, hp, _⟩ := hx; simp at hp
  | cons p rest ih =>
    intro bn last h x hx
    obtain ⟨h1, _, _, h4, h5⟩ := h
    obtain ⟨q, hq, hx1, hx2⟩ := hx
    have hnext : nextAddr rest last ≤ last := by
      cases rest with
      | nil => exact Nat.le_refl _
      | cons r rs =>
        have := ih (bn + 1) last h5 r.1 ⟨r, by simp, Nat.le_refl _, by omega⟩
        simp only [nextAddr]; omega
    rcases List.mem_cons.mp hq with rfl | hq'
    · rw [h1] at hx2; omega
    · exact ih (bn + 1) last h5 x ⟨q, hq', hx1, hx2⟩

/-- the addresses the list owns -/
def Owned (e : Eull) (full : List Block) (la : Nat) (x : Nat) : Prop :=
  inFull full x ∨ (la ≤ x ∧ x < la + blockSize e.blockNum + 4)

/-- **frame**: any change of the arena outside the list's blocks (other terms' lists, the hash
table, new allocations) leaves the list as it is -/
theorem good_congr (a a' : Arena) (e : Eull) (full : List Block) (la : Nat) (ld : List Nat)
    (hm : ∀ x, Owned e full la x → a'.mem x = a.mem x) (hl : a.len ≤ a'.len)
    (g : Good a e full la ld) : Good a' e full la ld := by
  refine ⟨g.head, g.bn, chain_congr a a' full 3 la (fun x hx => hm x (Or.inl hx)) g.chain, ?_, g.cap, g.tail,
    by have := g.bound; omega⟩
  refine (slice_congr a a' la ld.length ?_).trans g.lastSlice
  intro x h1 h2
  have := g.cap
  exact hm x (Or.inr ⟨h1, by omega⟩)

/-! ### writing -/

theorem slice_add (a : Arena) (addr n m : Nat) : a.slice addr (n + m) = a.slice addr n ++ a.slice (addr + n) m := by
  unfold Arena.slice
  rw [List.range_add, List.map_append, List.map_map]
  congr 1
  apply List.map_congr_left
  intro i _
  simp [Nat.add_assoc]

theorem slice_write_self (a : Arena) (addr : Nat) (bs : List Nat) : (a.write addr bs).slice addr bs.length = bs := by
  apply List.ext_getElem
  · simp [Arena.slice]
  · intro i h1 h2
    simp only [Arena.slice, List.getElem_map, List.getElem_range, Arena.write]
    have : addr ≤ addr + i ∧ addr + i < addr + bs.length := ⟨by omega, by omega⟩
    simp only [this, and_self, if_true, Nat.add_sub_cancel_left]
    rw [List.getD_eq_getElem?_getD, List.getElem?_eq_getElem h2]
    rfl

theorem write_mem_outside (a : Arena) (addr : Nat) (bs : List Nat) (x : Nat)
    (h : x < addr ∨ addr + bs.length ≤ x) : (a.write addr bs).mem x = a.mem x := by
  simp only [Arena.write]
  have : ¬ (addr ≤ x ∧ x < addr + bs.length) := by omega
  simp [this]

/-- copying a chunk into the free part of the block being filled -/
theorem good_write (a : Arena) (e : Eull) (full : List Block) (la : Nat) (ld chunk : List Nat)
    (g : Good a e full la ld) (hc : chunk.length ≤ e.remainingCap) :
    Good (a.write e.tail chunk)
      { e with remainingCap := e.remainingCap - chunk.length, tail := e.tail + chunk.length }
      full la (ld ++ chunk) := by
  have hcap := g.cap
  have htail := g.tail
  refine ⟨g.head, g.bn, ?_, ?_, ?_, ?_, g.bound⟩
  · apply chain_congr a _ full 3 la _ g.chain
    intro x hx
    have := chain_below a full 3 la g.chain x hx
    exact write_mem_outside a _ _ x (Or.inl (by omega))
  · rw [List.length_append, slice_add]
    congr 1
    · refine (slice_congr a _ la ld.length ?_).trans g.lastSlice
      intro x h1 h2
      exact write_mem_outside a _ _ x (Or.inl (by omega))
    · rw [← htail]; exact slice_write_self a e.tail chunk
  · simp only [List.length_append]; omega
  · simp only [List.length_append]; omega

theorem allocate_ge (a : Arena) (n : Nat) : a.len ≤ (a.allocate n).2 ∧ (a.allocate n).1.len = (a.allocate n).2 + n ∧
    (a.allocate n).1.mem = a.mem := by
  refine ⟨?_, rfl, rfl⟩
  show a.len ≤ (if a.len % PAGE_SIZE + n ≤ PAGE_SIZE then a.len else (a.len / PAGE_SIZE + 1) * PAGE_SIZE)
  split
  · exact Nat.le_refl _
  · have hp : 0 < PAGE_SIZE := Nat.two_pow_pos _
    have := Nat.div_add_mod a.len PAGE_SIZE
    have := Nat.mod_lt a.len hp
    rw [Nat.add_mul, Nat.one_mul, Nat.mul_comm]
    omega

theorem readAddr_write (a : Arena) (addr v : Nat) (hv : v < 2 ^ 32) :
    (a.write addr (addrBytes v)).readAddr addr = v := by
  simp only [Arena.readAddr, Arena.write, addrBytes, List.length_cons, List.length_nil]
  have h0 : addr ≤ addr ∧ addr < addr + (0 + 1 + 1 + 1 + 1) := ⟨by omega, by omega⟩
  have h1 : addr ≤ addr + 1 ∧ addr + 1 < addr + (0 + 1 + 1 + 1 + 1) := ⟨by omega, by omega⟩
  have h2 : addr ≤ addr + 2 ∧ addr + 2 < addr + (0 + 1 + 1 + 1 + 1) := ⟨by omega, by omega⟩
  have h3 : addr ≤ addr + 3 ∧ addr + 3 < addr + (0 + 1 + 1 + 1 + 1) := ⟨by omega, by omega⟩
  simp only [h0, h1, h2, h3, and_self, if_true, Nat.sub_self, Nat.add_sub_cancel_left]
  simp only [List.getD_eq_getElem?_getD, List.getElem?_cons_zero, List.getElem?_cons_succ, Option.getD_some]
  omega

/-- the block being filled is full: allocate the next one and link it -/
theorem good_newBlock (a : Arena) (e : Eull) (full : List Block) (la : Nat) (ld : List Nat)
    (g : Good a e full la ld) (h0 : e.remainingCap = 0)
    (hfit : (a.allocate (blockSize (e.blockNum + 1) + ADDR_SIZE)).1.len ≤ 2 ^ 32) :
    Good (ensureCapacity { e with blockNum := e.blockNum + 1 } a (blockSize (e.blockNum + 1))).2
      (ensureCapacity { e with blockNum := e.blockNum + 1 } a (blockSize (e.blockNum + 1))).1
      (full ++ [(la, ld)]) (a.allocate (blockSize (e.blockNum + 1) + ADDR_SIZE)).2 [] := by
  obtain ⟨hge, hlen, hmem⟩ := allocate_ge a (blockSize (e.blockNum + 1) + ADDR_SIZE)
  have hA : ADDR_SIZE = 4 := rfl
  have hcap := g.cap
  have hbound := g.bound
  have hpos := blockSize_pos (e.blockNum + 1)
  have hv : (a.allocate (blockSize (e.blockNum + 1) + ADDR_SIZE)).2 < 2 ^ 32 := by omega
  have hld : ld.length = blockSize e.blockNum := by omega
  unfold ensureCapacity
  simp only [g.head, Option.getD_some]
  generalize hna : (a.allocate (blockSize (e.blockNum + 1) + ADDR_SIZE)).2 = na at *
  generalize ha1 : (a.allocate (blockSize (e.blockNum + 1) + ADDR_SIZE)).1 = a1 at *
  -- memory below the pointer slot is untouched
  have hlow : ∀ x, x < e.tail → (a1.write e.tail (addrBytes na)).mem x = a.mem x := by
    intro x hx
    rw [write_mem_outside a1 _ _ x (Or.inl hx), hmem]
  refine ⟨?_, ?_, ?_, ?_, ?_, ?_, ?_⟩
  · cases full <;> simp [nextAddr]
  · simp [g.bn]
  · -- the chain with the completed block appended
    have hchain : ChainOK (a1.write e.tail (addrBytes na)) 3 full la := by
      apply chain_congr a _ full 3 la _ g.chain
      intro x hx
      have := chain_below a full 3 la g.chain x hx
      exact hlow x (by rw [g.tail]; omega)
    have hblock : ChainOK (a1.write e.tail (addrBytes na)) (3 + full.length) [(la, ld)] na := by
      have hb : 3 + full.length = e.blockNum := by rw [g.bn]; omega
      rw [hb]
      refine ⟨hld, ?_, ?_, ?_, trivial⟩
      · rw [← hld]
        refine (slice_congr a _ la ld.length ?_).trans g.lastSlice
        intro x h1 h2
        exact hlow x (by rw [g.tail]; omega)
      · simp only [nextAddr]
        rw [← hld, ← g.tail]
        exact readAddr_write a1 e.tail na hv
      · simp only [nextAddr]; omega
    -- append
    have happ : ∀ (l : List Block) bn, ChainOK (a1.write e.tail (addrBytes na)) bn l la →
        ChainOK (a1.write e.tail (addrBytes na)) (bn + l.length) [(la, ld)] na →
        ChainOK (a1.write e.tail (addrBytes na)) bn (l ++ [(la, ld)]) na := by
      intro l
      induction l with
      | nil => intro bn _ h; simpa using h
      | cons p rest ih =>
        intro bn h hb
        obtain ⟨c1, c2, c3, c4, c5⟩ := h
        have hn : nextAddr (rest ++ [(la, ld)]) na = nextAddr rest la := by
          cases rest <;> simp [nextAddr]
        show ChainOK _ bn (p :: (rest ++ [(la, ld)])) na
        refine ⟨c1, c2, hn ▸ c3, hn ▸ c4, ?_⟩
        apply ih (bn + 1) c5
        have e' : bn + 1 + rest.length = bn + (p :: rest).length := by simp; omega
        rw [e']; exact hb
    exact happ full 3 hchain hblock
  · rfl
  · simp
  · simp
  · simp only [Arena.write]
    rw [← ha1] at *
    omega

/-- the very first write: the first block is allocated, nothing to link -/
theorem good_firstBlock (a : Arena) :
    Good (ensureCapacity { Eull.default with blockNum := Eull.default.blockNum + 1 } a
        (blockSize (Eull.default.blockNum + 1))).2
      (ensureCapacity { Eull.default with blockNum := Eull.default.blockNum + 1 } a
        (blockSize (Eull.default.blockNum + 1))).1
      [] (a.allocate (blockSize (Eull.default.blockNum + 1) + ADDR_SIZE)).2 [] := by
  obtain ⟨hge, hlen, hmem⟩ := allocate_ge a (blockSize (Eull.default.blockNum + 1) + ADDR_SIZE)
  have hA : ADDR_SIZE = 4 := rfl
  unfold ensureCapacity
  refine ⟨rfl, ?_, trivial, rfl, ?_, ?_, ?_⟩
  · show FIRST_BLOCK_NUM + 1 = 0 + 3
    decide
  · show 0 + blockSize (FIRST_BLOCK_NUM + 1) = blockSize (FIRST_BLOCK_NUM + 1)
    omega
  · rfl
  · show (a.allocate (blockSize (FIRST_BLOCK_NUM + 1) + ADDR_SIZE)).2 + blockSize (FIRST_BLOCK_NUM + 1) + 4 ≤
      (a.allocate (blockSize (FIRST_BLOCK_NUM + 1) + ADDR_SIZE)).1.len
    have : Eull.default.blockNum = FIRST_BLOCK_NUM := rfl
    rw [this] at hlen
    omega

/-! ### the write loop -/

/-- the head of an iteration: allocate and link a new block if the current one is full -/
def pre (e : Eull) (a : Arena) : Eull × Arena :=
  if e.remainingCap = 0 then
    ensureCapacity { e with blockNum := e.blockNum + 1 } a (blockSize (e.blockNum + 1))
  else (e, a)

theorem extendLoop_cons (fuel : Nat) (e : Eull) (a : Arena) (b : Nat) (bs : List Nat) :
    extendLoop (fuel + 1) e a (b :: bs) =
      extendLoop fuel
        { (pre e a).1 with
            remainingCap := (pre e a).1.remainingCap - min (b :: bs).length (pre e a).1.remainingCap,
            tail := (pre e a).1.tail + min (b :: bs).length (pre e a).1.remainingCap }
        ((pre e a).2.write (pre e a).1.tail ((b :: bs).take (min (b :: bs).length (pre e a).1.remainingCap)))
        ((b :: bs).drop (min (b :: bs).length (pre e a).1.remainingCap)) := by
  rfl

theorem write_len (a : Arena) (addr : Nat) (bs : List Nat) : (a.write addr bs).len = a.len := rfl

theorem pre_len (e : Eull) (a : Arena) : a.len ≤ (pre e a).2.len := by
  unfold pre
  split
  · unfold ensureCapacity
    have := allocate_ge a (blockSize (e.blockNum + 1) + ADDR_SIZE)
    simp only
    split
    · omega
    · rw [write_len]; omega
  · exact Nat.le_refl _

theorem extendLoop_len (fuel : Nat) : ∀ (e : Eull) (a : Arena) (buf : List Nat),
    a.len ≤ (extendLoop fuel e a buf).2.len := by
  induction fuel with
  | zero => intro e a buf; exact Nat.le_refl _
  | succ f ih =>
    intro e a buf
    cases buf with
    | nil => exact Nat.le_refl _
    | cons b bs =>
      rw [extendLoop_cons]
      have h1 := pre_len e a
      have h2 := ih { (pre e a).1 with
            remainingCap := (pre e a).1.remainingCap - min (b :: bs).length (pre e a).1.remainingCap,
            tail := (pre e a).1.tail + min (b :: bs).length (pre e a).1.remainingCap }
        ((pre e a).2.write (pre e a).1.tail ((b :: bs).take (min (b :: bs).length (pre e a).1.remainingCap)))
        ((b :: bs).drop (min (b :: bs).length (pre e a).1.remainingCap))
      rw [write_len] at h2
      omega

theorem bytesOf_snoc (full : List Block) (la : Nat) (ld : List Nat) :
    bytesOf (full ++ [(la, ld)]) [] = bytesOf full ld := by
  simp [bytesOf]

theorem pre_good (e : Eull) (a : Arena) (bs : List Nat) (h : Rep a e bs) (hfit : (pre e a).2.len ≤ 2 ^ 32) :
    ∃ full la ld, Good (pre e a).2 (pre e a).1 full la ld ∧ bs = bytesOf full ld ∧
      0 < (pre e a).1.remainingCap := by
  rcases h with ⟨rfl, rfl⟩ | ⟨full, la, ld, g, rfl⟩
  · have h0 : Eull.default.remainingCap = 0 := rfl
    have hg := good_firstBlock a
    unfold pre
    simp only [h0, if_true]
    exact ⟨[], _, [], hg, rfl, blockSize_pos _⟩
  · by_cases h0 : e.remainingCap = 0
    · have hp : pre e a = ensureCapacity { e with blockNum := e.blockNum + 1 } a (blockSize (e.blockNum + 1)) := by
        unfold pre; simp [h0]
      rw [hp] at hfit ⊢
      have hfit' : (a.allocate (blockSize (e.blockNum + 1) + ADDR_SIZE)).1.len ≤ 2 ^ 32 := by
        unfold ensureCapacity at hfit
        simp only [g.head] at hfit
        rw [write_len] at hfit
        exact hfit
      exact ⟨_, _, [], good_newBlock a e full la ld g h0 hfit', (bytesOf_snoc full la ld).symm, blockSize_pos _⟩
    · have hp : pre e a = (e, a) := by unfold pre; simp [h0]
      rw [hp]
      exact ⟨full, la, ld, g, rfl, Nat.pos_of_ne_zero h0⟩

/-- **writing appends**: after `extend_from_slice(buf)` the list holds the old bytes followed by `buf` -/
theorem extendLoop_rep (fuel : Nat) : ∀ (e : Eull) (a : Arena) (buf bs : List Nat),
    Rep a e bs → buf.length ≤ fuel → (extendLoop fuel e a buf).2.len ≤ 2 ^ 32 →
    Rep (extendLoop fuel e a buf).2 (extendLoop fuel e a buf).1 (bs ++ buf) := by
  induction fuel with
  | zero =>
    intro e a buf bs h hl _
    have : buf = [] := List.length_eq_zero_iff.mp (by omega)
    subst this
    simpa [extendLoop] using h
  | succ f ih =>
    intro e a buf bs h hl hfit
    cases buf with
    | nil => simpa [extendLoop] using h
    | cons b rest =>
      rw [extendLoop_cons] at hfit ⊢
      generalize hn : min (b :: rest).length (pre e a).1.remainingCap = n at *
      have hmono := extendLoop_len f
        { (pre e a).1 with remainingCap := (pre e a).1.remainingCap - n, tail := (pre e a).1.tail + n }
        ((pre e a).2.write (pre e a).1.tail ((b :: rest).take n)) ((b :: rest).drop n)
      rw [write_len] at hmono
      obtain ⟨full, la, ld, g, hbs, hpos⟩ := pre_good e a bs h (by omega)
      have hn1 : 1 ≤ n := by rw [← hn]; simp only [List.length_cons]; omega
      have hnle : n ≤ (pre e a).1.remainingCap := by rw [← hn]; exact Nat.min_le_right _ _
      have hnlen : n ≤ (b :: rest).length := by rw [← hn]; exact Nat.min_le_left _ _
      have htl : ((b :: rest).take n).length = n := by rw [List.length_take]; omega
      have gw := good_write (pre e a).2 (pre e a).1 full la ld ((b :: rest).take n) g (by rw [htl]; exact hnle)
      rw [htl] at gw
      have hrep : Rep ((pre e a).2.write (pre e a).1.tail ((b :: rest).take n))
          { (pre e a).1 with remainingCap := (pre e a).1.remainingCap - n, tail := (pre e a).1.tail + n }
          (bs ++ (b :: rest).take n) :=
        Or.inr ⟨full, la, ld ++ (b :: rest).take n, gw, by rw [hbs]; simp [bytesOf]⟩
      have := ih _ _ ((b :: rest).drop n) _ hrep (by rw [List.length_drop]; simp only [List.length_cons] at hl ⊢; omega) hfit
      rw [List.append_assoc, List.take_append_drop] at this
      exact this

theorem extendFromSlice_rep (e : Eull) (a : Arena) (buf bs : List Nat) (h : Rep a e bs)
    (hfit : (extendFromSlice e a buf).2.len ≤ 2 ^ 32) :
    Rep (extendFromSlice e a buf).2 (extendFromSlice e a buf).1 (bs ++ buf) :=
  extendLoop_rep buf.length e a buf bs h (Nat.le_refl _) hfit

/-! ### the footprint of a write, and the other lists in the arena -/

/-- the only already-allocated bytes a write to the list can touch: the free part of the block being
filled and its next-pointer slot -/
def Free (e : Eull) (x : Nat) : Prop :=
  e.tail ≤ x ∧ x < e.tail + e.remainingCap + (if e.head = none then 0 else 4)

theorem pre_footprint (e : Eull) (a : Arena) (x : Nat) (hx : x < a.len) (hnf : ¬ Free e x) :
    (pre e a).2.mem x = a.mem x ∧ (Free (pre e a).1 x → False) := by
  unfold pre
  by_cases h0 : e.remainingCap = 0
  · simp only [h0, if_true]
    have hal := allocate_ge a (blockSize (e.blockNum + 1) + ADDR_SIZE)
    unfold ensureCapacity
    constructor
    · cases hh : e.head with
      | none => simp only; rw [hal.2.2]
      | some h =>
        simp only
        rw [write_mem_outside _ _ _ x, hal.2.2]
        have hl : (addrBytes (a.allocate (blockSize (e.blockNum + 1) + ADDR_SIZE)).2).length = 4 := rfl
        rw [hl]
        unfold Free at hnf
        simp only [hh, h0] at hnf
        simp at hnf
        omega
    · intro hf
      unfold Free at hf
      simp only at hf
      omega
  · rw [if_neg h0]
    exact ⟨rfl, hnf⟩

theorem extendLoop_footprint (fuel : Nat) : ∀ (e : Eull) (a : Arena) (buf : List Nat) (x : Nat),
    x < a.len → ¬ Free e x → (extendLoop fuel e a buf).2.mem x = a.mem x := by
  induction fuel with
  | zero => intro _ _ _ _ _ _; rfl
  | succ f ih =>
    intro e a buf x hx hnf
    cases buf with
    | nil => rfl
    | cons b rest =>
      rw [extendLoop_cons]
      generalize hn : min (b :: rest).length (pre e a).1.remainingCap = n
      obtain ⟨hp1, hp2⟩ := pre_footprint e a x hx hnf
      have hnle : n ≤ (pre e a).1.remainingCap := by rw [← hn]; exact Nat.min_le_right _ _
      have hnlen : n ≤ (b :: rest).length := by rw [← hn]; exact Nat.min_le_left _ _
      have htl : ((b :: rest).take n).length = n := by rw [List.length_take]; omega
      have hplen := pre_len e a
      rw [ih _ _ _ x (by rw [write_len]; omega) ?_, write_mem_outside _ _ _ x ?_, hp1]
      · rw [htl]
        rcases Nat.lt_or_ge x (pre e a).1.tail with h | h
        · exact Or.inl h
        · rcases Nat.lt_or_ge x ((pre e a).1.tail + n) with h' | h'
          · exfalso; apply hp2; unfold Free; split <;> omega
          · exact Or.inr h'
      · intro hf
        apply hp2
        unfold Free at hf ⊢
        simp only at hf
        split at hf <;> split <;> simp_all <;> omega

/-- the addresses a list owns are allocated -/
theorem owned_lt_len (a : Arena) (e : Eull) (full : List Block) (la : Nat) (ld : List Nat)
    (g : Good a e full la ld) (x : Nat) (hx : Owned e full la x) : x < a.len := by
  have := g.bound
  rcases hx with h | h
  · have := chain_below a full 3 la g.chain x h; omega
  · omega

/-- the bytes a write may touch belong to the list -/
theorem free_owned (a : Arena) (e : Eull) (full : List Block) (la : Nat) (ld : List Nat)
    (g : Good a e full la ld) (x : Nat) (hx : Free e x) : Owned e full la x := by
  right
  unfold Free at hx
  have := g.cap
  have := g.tail
  rw [g.head] at hx
  simp at hx
  omega

/-- **separation**: appending to one list leaves every other list of the arena as it is, as long as
the two do not share addresses -/
theorem other_list_kept (a : Arena) (e1 : Eull) (full : List Block) (la : Nat) (ld : List Nat)
    (g : Good a e1 full la ld) (e2 : Eull) (buf : List Nat)
    (hdisj : ∀ x, Owned e1 full la x → ¬ Free e2 x) :
    Good (extendFromSlice e2 a buf).2 e1 full la ld := by
  apply good_congr a _ e1 full la ld _ (extendLoop_len _ _ _ _) g
  intro x hx
  exact extendLoop_footprint _ e2 a buf x (owned_lt_len a e1 full la ld g x hx) (hdisj x hx)

/-! ### all the lists of the writer at once -/

abbrev View := Option (List Block × Nat × List Nat)

def OwnedV (e : Eull) : View → Nat → Prop
  | none, _ => False
  | some (full, la, _), x => Owned e full la x

def RepV (a : Arena) (e : Eull) : View → List Nat → Prop
  | none, bs => e = Eull.default ∧ bs = []
  | some (full, la, ld), bs => Good a e full la ld ∧ bs = bytesOf full ld

theorem repV_rep (a : Arena) (e : Eull) (v : View) (bs : List Nat) (h : RepV a e v bs) : Rep a e bs := by
  cases v with
  | none => exact Or.inl h
  | some w => obtain ⟨full, la, ld⟩ := w; exact Or.inr ⟨full, la, ld, h⟩

theorem inFull_snoc (full : List Block) (la : Nat) (ld : List Nat) (x : Nat)
    (h : inFull (full ++ [(la, ld)]) x) : inFull full x ∨ (la ≤ x ∧ x < la + ld.length + 4) := by
  obtain ⟨p, hp, h1, h2⟩ := h
  rcases List.mem_append.mp hp with hp | hp
  · exact Or.inl ⟨p, hp, h1, h2⟩
  · simp at hp; subst hp; exact Or.inr ⟨h1, h2⟩

theorem pre_view (e : Eull) (a : Arena) (v : View) (bs : List Nat) (h : RepV a e v bs)
    (hfit : (pre e a).2.len ≤ 2 ^ 32) :
    ∃ full la ld, Good (pre e a).2 (pre e a).1 full la ld ∧ bs = bytesOf full ld ∧
      0 < (pre e a).1.remainingCap ∧
      ∀ x, Owned (pre e a).1 full la x → OwnedV e v x ∨ a.len ≤ x := by
  cases v with
  | none =>
    obtain ⟨rfl, rfl⟩ := h
    have h0 : Eull.default.remainingCap = 0 := rfl
    have hg := good_firstBlock a
    have hge := (allocate_ge a (blockSize (Eull.default.blockNum + 1) + ADDR_SIZE)).1
    unfold pre
    simp only [h0, if_true]
    refine ⟨[], _, [], hg, rfl, blockSize_pos _, fun x hx => Or.inr ?_⟩
    rcases hx with ⟨p, hp, _⟩ | hx
    · simp at hp
    · omega
  | some w =>
    obtain ⟨full, la, ld⟩ := w
    obtain ⟨g, rfl⟩ := h
    by_cases h0 : e.remainingCap = 0
    · have hp : pre e a = ensureCapacity { e with blockNum := e.blockNum + 1 } a (blockSize (e.blockNum + 1)) := by
        unfold pre; simp [h0]
      rw [hp] at hfit ⊢
      have hfit' : (a.allocate (blockSize (e.blockNum + 1) + ADDR_SIZE)).1.len ≤ 2 ^ 32 := by
        unfold ensureCapacity at hfit
        simp only [g.head] at hfit
        rw [write_len] at hfit
        exact hfit
      have hge := (allocate_ge a (blockSize (e.blockNum + 1) + ADDR_SIZE)).1
      have hcap := g.cap
      refine ⟨_, _, [], good_newBlock a e full la ld g h0 hfit', (bytesOf_snoc full la ld).symm, blockSize_pos _, ?_⟩
      intro x hx
      rcases hx with hx | hx
      · rcases inFull_snoc full la ld x hx with h' | h'
        · exact Or.inl (Or.inl h')
        · exact Or.inl (Or.inr ⟨h'.1, by omega⟩)
      · exact Or.inr (by omega)
    · have hp : pre e a = (e, a) := by unfold pre; simp [h0]
      rw [hp]
      exact ⟨full, la, ld, g, rfl, Nat.pos_of_ne_zero h0, fun x hx => Or.inl hx⟩

/-- writing appends, and the list only grows into freshly allocated space -/
theorem extendLoop_view (fuel : Nat) : ∀ (e : Eull) (a : Arena) (buf bs : List Nat) (v : View),
    RepV a e v bs → buf ≠ [] → buf.length ≤ fuel → (extendLoop fuel e a buf).2.len ≤ 2 ^ 32 →
    ∃ v', RepV (extendLoop fuel e a buf).2 (extendLoop fuel e a buf).1 v' (bs ++ buf) ∧
      ∀ x, OwnedV (extendLoop fuel e a buf).1 v' x → OwnedV e v x ∨ a.len ≤ x := by
  induction fuel with
  | zero =>
    intro e a buf bs v _ hne hl _
    exact absurd (List.length_eq_zero_iff.mp (by omega)) hne
  | succ f ih =>
    intro e a buf bs v h hne hl hfit
    cases buf with
    | nil => exact absurd rfl hne
    | cons b rest =>
      rw [extendLoop_cons] at hfit ⊢
      generalize hn : min (b :: rest).length (pre e a).1.remainingCap = n at *
      have hmono := extendLoop_len f
        { (pre e a).1 with remainingCap := (pre e a).1.remainingCap - n, tail := (pre e a).1.tail + n }
        ((pre e a).2.write (pre e a).1.tail ((b :: rest).take n)) ((b :: rest).drop n)
      rw [write_len] at hmono
      obtain ⟨full, la, ld, g, hbs, hpos, hown⟩ := pre_view e a v bs h (by omega)
      have hplen := pre_len e a
      have hn1 : 1 ≤ n := by rw [← hn]; simp only [List.length_cons]; omega
      have hnle : n ≤ (pre e a).1.remainingCap := by rw [← hn]; exact Nat.min_le_right _ _
      have hnlen : n ≤ (b :: rest).length := by rw [← hn]; exact Nat.min_le_left _ _
      have htl : ((b :: rest).take n).length = n := by rw [List.length_take]; omega
      have gw := good_write (pre e a).2 (pre e a).1 full la ld ((b :: rest).take n) g (by rw [htl]; exact hnle)
      rw [htl] at gw
      have hrep : RepV ((pre e a).2.write (pre e a).1.tail ((b :: rest).take n))
          { (pre e a).1 with remainingCap := (pre e a).1.remainingCap - n, tail := (pre e a).1.tail + n }
          (some (full, la, ld ++ (b :: rest).take n)) (bs ++ (b :: rest).take n) :=
        ⟨gw, by rw [hbs]; simp [bytesOf]⟩
      by_cases hrest : (b :: rest).drop n = []
      · -- everything written
        have hfuel0 : ∀ f' e' a', extendLoop f' e' a' [] = (e', a') := by
          intro f' e' a'; cases f' <;> rfl
        rw [hrest, hfuel0]
        refine ⟨some (full, la, ld ++ (b :: rest).take n), ?_, fun x hx => hown x hx⟩
        have : (b :: rest).take n = b :: rest := by
          have := List.take_append_drop n (b :: rest)
          rw [hrest, List.append_nil] at this
          exact this
        rw [this] at hrep ⊢
        exact hrep
      · obtain ⟨v', hv', hown'⟩ := ih _ _ ((b :: rest).drop n) _ _ hrep hrest
          (by rw [List.length_drop]; simp only [List.length_cons] at hl ⊢; omega) hfit
        rw [List.append_assoc, List.take_append_drop] at hv'
        refine ⟨v', hv', fun x hx => ?_⟩
        rcases hown' x hx with h' | h'
        · exact hown x h'
        · rw [write_len] at h'; exact Or.inr (by omega)

theorem extendFromSlice_nil (e : Eull) (a : Arena) : extendFromSlice e a [] = (e, a) := rfl

/-- the invariant of the whole writer: every list holds its bytes, and no two lists share an address -/
def Inv (a : Arena) (es : List Eull) (vs : Nat → View) (bss : Nat → List Nat) : Prop :=
  (∀ j, j < es.length → RepV a (es.getD j Eull.default) (vs j) (bss j)) ∧
  (∀ j k, j < es.length → k < es.length → j ≠ k →
    ∀ x, OwnedV (es.getD j Eull.default) (vs j) x → ¬ OwnedV (es.getD k Eull.default) (vs k) x)

theorem getD_set (es : List Eull) (i j : Nat) (e' : Eull) (hi : i < es.length) :
    (es.set i e').getD j Eull.default = if j = i then e' else es.getD j Eull.default := by
  simp only [List.getD_eq_getElem?_getD, List.getElem?_set]
  by_cases h : i = j
  · subst h; simp [hi]
  · have h' : ¬ j = i := fun e => h e.symm
    simp [h, h']

theorem ownedV_lt (a : Arena) (e : Eull) (v : View) (bs : List Nat) (h : RepV a e v bs) (x : Nat)
    (hx : OwnedV e v x) : x < a.len := by
  cases v with
  | none => exact absurd hx (by simp [OwnedV])
  | some w => obtain ⟨full, la, ld⟩ := w; exact owned_lt_len a e full la ld h.1 x hx

theorem free_ownedV (a : Arena) (e : Eull) (v : View) (bs : List Nat) (h : RepV a e v bs) (x : Nat)
    (hx : Free e x) : OwnedV e v x := by
  cases v with
  | none =>
    obtain ⟨rfl, _⟩ := h
    unfold Free at hx
    simp [Eull.default] at hx
  | some w => obtain ⟨full, la, ld⟩ := w; exact free_owned a e full la ld h.1 x hx

theorem repV_congr (a a' : Arena) (e : Eull) (v : View) (bs : List Nat)
    (hm : ∀ x, OwnedV e v x → a'.mem x = a.mem x) (hl : a.len ≤ a'.len) (h : RepV a e v bs) :
    RepV a' e v bs := by
  cases v with
  | none => exact h
  | some w => obtain ⟨full, la, ld⟩ := w; exact ⟨good_congr a a' e full la ld hm hl h.1, h.2⟩

/-- one write of the writer keeps the invariant -/
theorem inv_step (a : Arena) (es : List Eull) (vs : Nat → View) (bss : Nat → List Nat) (i : Nat)
    (buf : List Nat) (hi : i < es.length) (h : Inv a es vs bss)
    (hfit : (extendFromSlice (es.getD i Eull.default) a buf).2.len ≤ 2 ^ 32) :
    ∃ vs', Inv (extendFromSlice (es.getD i Eull.default) a buf).2
      (es.set i (extendFromSlice (es.getD i Eull.default) a buf).1) vs'
      (fun j => if j = i then bss j ++ buf else bss j) := by
  by_cases hbuf : buf = []
  · subst hbuf
    rw [extendFromSlice_nil]
    refine ⟨vs, ?_, ?_⟩
    · intro j hj
      rw [List.length_set] at hj
      rw [getD_set es i j _ hi]
      by_cases hji : j = i
      · subst hji; simpa using h.1 j hj
      · simpa [hji] using h.1 j hj
    · intro j k hj hk hjk x
      rw [List.length_set] at hj hk
      rw [getD_set es i j _ hi, getD_set es i k _ hi]
      have := h.2 j k hj hk hjk x
      by_cases hji : j = i <;> by_cases hki : k = i <;> simp_all
  · obtain ⟨v', hv', hown⟩ := extendLoop_view buf.length (es.getD i Eull.default) a buf (bss i) (vs i)
      (h.1 i hi) hbuf (Nat.le_refl _) hfit
    have hlen := extendLoop_len buf.length (es.getD i Eull.default) a buf
    -- the other lists keep their bytes: the write's footprint is inside list `i`
    have hother : ∀ j, j < es.length → j ≠ i →
        RepV (extendFromSlice (es.getD i Eull.default) a buf).2 (es.getD j Eull.default) (vs j) (bss j) := by
      intro j hj hji
      apply repV_congr a _ _ _ _ _ hlen (h.1 j hj)
      intro x hx
      apply extendLoop_footprint _ _ a buf x (ownedV_lt a _ _ _ (h.1 j hj) x hx)
      intro hf
      exact h.2 j i hj hi hji x hx (free_ownedV a _ _ _ (h.1 i hi) x hf)
    refine ⟨fun j => if j = i then v' else vs j, ?_, ?_⟩
    · intro j hj
      rw [List.length_set] at hj
      rw [getD_set es i j _ hi]
      by_cases hji : j = i
      · subst hji; simpa [extendFromSlice] using hv'
      · simpa [hji] using hother j hj hji
    · intro j k hj hk hjk x
      rw [List.length_set] at hj hk
      rw [getD_set es i j _ hi, getD_set es i k _ hi]
      by_cases hji : j = i
      · subst hji
        have hki : k ≠ j := fun e => hjk e.symm
        simp only [if_true, hki, if_false]
        intro hx hxk
        have hlt := ownedV_lt a _ _ _ (h.1 k hk) x hxk
        rcases hown x hx with h' | h'
        · exact h.2 j k hj hk hjk x h' hxk
        · omega
      · by_cases hki : k = i
        · subst hki
          simp only [hji, if_false, if_true]
          intro hx hxk
          have hlt := ownedV_lt a _ _ _ (h.1 j hj) x hx
          rcases hown x hxk with h' | h'
          · exact h.2 j k hj hk hjk x hx h'
          · omega
        · simp only [hji, hki, if_false]
          exact h.2 j k hj hk hjk x

theorem runWrites_len : ∀ (ws : List (Nat × List Nat)) (es : List Eull) (a : Arena),
    a.len ≤ (runWrites es a ws).2.len := by
  intro ws
  induction ws with
  | nil => intro _ _; exact Nat.le_refl _
  | cons w ws ih =>
    intro es a
    obtain ⟨i, buf⟩ := w
    simp only [runWrites]
    have h1 := extendLoop_len buf.length (es.getD i Eull.default) a buf
    have h2 := ih (es.set i (extendFromSlice (es.getD i Eull.default) a buf).1)
      (extendFromSlice (es.getD i Eull.default) a buf).2
    unfold extendFromSlice at h2 ⊢
    omega

/-- **the whole writer**: any interleaving of writes to the lists of one arena keeps every list's bytes -/
theorem runWrites_inv : ∀ (ws : List (Nat × List Nat)) (es : List Eull) (a : Arena) (vs : Nat → View)
    (bss : Nat → List Nat), Inv a es vs bss → (∀ w ∈ ws, w.1 < es.length) →
    (runWrites es a ws).2.len ≤ 2 ^ 32 →
    (runWrites es a ws).1.length = es.length ∧
    ∃ vs', Inv (runWrites es a ws).2 (runWrites es a ws).1 vs'
      (fun j => bss j ++ (ws.filter (fun w => w.1 = j)).flatMap (·.2)) := by
  intro ws
  induction ws with
  | nil =>
    intro es a vs bss h _ _
    exact ⟨rfl, vs, by simpa [runWrites] using h⟩
  | cons w ws ih =>
    intro es a vs bss h hw hfit
    obtain ⟨i, buf⟩ := w
    have hi : i < es.length := hw (i, buf) (by simp)
    simp only [runWrites] at hfit ⊢
    have hmono := runWrites_len ws (es.set i (extendFromSlice (es.getD i Eull.default) a buf).1)
      (extendFromSlice (es.getD i Eull.default) a buf).2
    obtain ⟨vs1, h1⟩ := inv_step a es vs bss i buf hi h (by omega)
    obtain ⟨hl, vs2, h2⟩ := ih _ _ vs1 _ h1
      (fun w hw' => by rw [List.length_set]; exact hw w (List.mem_cons_of_mem _ hw')) hfit
    refine ⟨by rw [hl, List.length_set], vs2, ?_⟩
    have hfun : (fun j => (if j = i then bss j ++ buf else bss j) ++
          (ws.filter (fun w => w.1 = j)).flatMap (·.2)) =
        (fun j => bss j ++ (((i, buf) :: ws).filter (fun w => w.1 = j)).flatMap (·.2)) := by
      funext j
      by_cases hji : j = i
      · subst hji; simp
      · have : ¬ i = j := fun e => hji e.symm
        simp [hji, this]
    rw [← hfun]
    exact h2

end TantivyModel.Expull
