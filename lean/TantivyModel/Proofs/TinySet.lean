import TantivyModel.Gen.PureFns
/-!
`TinySet` (common/src/bitset.rs), the 64-bit bucket of every bitset doc set and of the buffered
union's window. The definitions are translated from the Rust source on every run
(`Gen/PureFns.lean`, `tinyset_*`); the theorems below say that they implement a finite set of
`{0..63}`: membership of element `i` is bit `i` of the word. In particular `pop_lowest`
(Kernighan's `n & (n - 1)`) returns the minimum and removes exactly it.
-/
namespace TantivyModel.TinySet
open TantivyModel.Gen.Fn

/-- membership in the set represented by the word -/
abbrev mem (s : BitVec 64) (i : Nat) : Bool := s.getLsbD i

theorem toNat_zext (el : BitVec 32) : (BitVec.setWidth 64 el).toNat = el.toNat := by
  have := el.isLt
  simp [BitVec.toNat_setWidth]
  omega

theorem mem_empty (i : Nat) : mem tinyset_empty i = false := by
  simp [mem, tinyset_empty]

theorem mem_full (i : Nat) : mem tinyset_full i = decide (i < 64) := by
  simp only [mem, tinyset_full, tinyset_complement, tinyset_empty, BitVec.getLsbD_not,
    BitVec.getLsbD_zero]
  simp

theorem mem_singleton (el : BitVec 32) (h : el.toNat < 64) (i : Nat) :
    mem (tinyset_singleton el) i = decide (i = el.toNat) := by
  unfold mem tinyset_singleton
  rw [toNat_zext, BitVec.getLsbD_shiftLeft, BitVec.getLsbD_one]
  by_cases hi : i = el.toNat
  · subst hi; simp [h]
  · by_cases hlt : i < el.toNat
    · simp [hlt, hi]
    · have : ¬ (i - el.toNat = 0) := by omega
      simp [hi, this]

theorem mem_union (s t : BitVec 64) (i : Nat) :
    mem (tinyset_union s t) i = (mem s i || mem t i) := by
  simp [mem, tinyset_union]

theorem mem_intersect (s t : BitVec 64) (i : Nat) :
    mem (tinyset_intersect s t) i = (mem s i && mem t i) := by
  simp [mem, tinyset_intersect]

theorem mem_complement (s : BitVec 64) (i : Nat) :
    mem (tinyset_complement s) i = (decide (i < 64) && !mem s i) := by
  simp [mem, tinyset_complement]

theorem is_empty_iff (s : BitVec 64) : tinyset_is_empty s = true ↔ ∀ i, mem s i = false := by
  unfold tinyset_is_empty mem
  constructor
  · intro h i
    have : s = 0#64 := by simpa using h
    subst this; simp
  · intro h
    have : s = 0#64 := by
      apply BitVec.eq_of_getLsbD_eq
      intro i _
      simp [h i]
    simp [this]

theorem mem_insert (s : BitVec 64) (el : BitVec 32) (h : el.toNat < 64) (i : Nat) :
    mem (tinyset_insert s el) i = (mem s i || decide (i = el.toNat)) := by
  unfold tinyset_insert
  rw [mem_union, mem_singleton el h]

theorem mem_remove (s : BitVec 64) (el : BitVec 32) (h : el.toNat < 64) (i : Nat) :
    mem (tinyset_remove s el) i = (mem s i && !decide (i = el.toNat)) := by
  unfold tinyset_remove
  rw [mem_intersect, mem_complement, mem_singleton el h]
  by_cases hi : i < 64
  · simp [hi]
  · have : mem s i = false := by
      unfold mem
      cases hb : s.getLsbD i with
      | false => rfl
      | true => exact absurd (BitVec.lt_of_getLsbD hb) hi
    simp [this]

theorem contains_eq_mem (s : BitVec 64) (el : BitVec 32) (h : el.toNat < 64) :
    tinyset_contains s el = mem s el.toNat := by
  unfold tinyset_contains
  cases hm : mem s el.toNat with
  | false =>
    have : tinyset_is_empty (tinyset_intersect s (tinyset_singleton el)) = true := by
      rw [is_empty_iff]
      intro i
      rw [mem_intersect, mem_singleton el h]
      by_cases hi : i = el.toNat
      · subst hi; simp [hm]
      · simp [hi]
    simp [this]
  | true =>
    have : tinyset_is_empty (tinyset_intersect s (tinyset_singleton el)) ≠ true := by
      intro he
      rw [is_empty_iff] at he
      have := he el.toNat
      rw [mem_intersect, mem_singleton el h, hm] at this
      simp at this
    simp [this]

/-! ### ranges -/

theorem mem_range_lower (ub : BitVec 32) (h : ub.toNat < 64) (i : Nat) :
    mem (tinyset_range_lower ub) i = decide (i < ub.toNat) := by
  unfold mem tinyset_range_lower
  have hmod : (BitVec.setWidth 64 (ub % 64#32)).toNat = ub.toNat := by
    rw [toNat_zext, BitVec.toNat_umod]
    simp
    omega
  rw [hmod]
  have hpow : 2 ^ ub.toNat < 2 ^ 64 := Nat.pow_lt_pow_right (by decide) h
  have hpos : 0 < 2 ^ ub.toNat := Nat.two_pow_pos _
  have hval : ((1#64 <<< ub.toNat) - 1#64).toNat = 2 ^ ub.toNat - 1 := by
    rw [BitVec.toNat_sub, BitVec.toNat_shiftLeft]
    simp [Nat.shiftLeft_eq]
    have hpow' : 2 ^ ub.toNat < 18446744073709551616 := by simpa using hpow
    generalize 2 ^ ub.toNat = P at hpow' hpos ⊢
    omega
  rw [BitVec.getLsbD, hval, Nat.testBit_two_pow_sub_one]

theorem mem_range_greater_or_equal (lo : BitVec 32) (h : lo.toNat < 64) (i : Nat) :
    mem (tinyset_range_greater_or_equal lo) i = (decide (lo.toNat ≤ i) && decide (i < 64)) := by
  unfold tinyset_range_greater_or_equal
  rw [mem_complement, mem_range_lower lo h]
  by_cases h1 : i < 64 <;> by_cases h2 : i < lo.toNat <;> simp [h1, h2] <;> omega

/-! ### pop_lowest -/

/-- Kernighan's trick on naturals: `n &&& (n - 1)` clears exactly the lowest set bit `l` -/
theorem nat_clear_lowest (n l : Nat) (hl : n.testBit l = true)
    (hlow : ∀ j, j < l → n.testBit j = false) (i : Nat) :
    (n &&& (n - 1)).testBit i = (n.testBit i && !decide (i = l)) := by
  -- n = 2^(l+1) * r + 2^l
  have hmod : n % 2 ^ l = 0 := by
    apply Nat.eq_of_testBit_eq
    intro j
    rw [Nat.testBit_mod_two_pow, Nat.zero_testBit]
    by_cases hj : j < l
    · simp [hj, hlow j hj]
    · simp [hj]
  have hq : (n / 2 ^ l) % 2 = 1 := by
    have : n.testBit l = decide ((n / 2 ^ l) % 2 = 1) := by
      rw [Nat.testBit_eq_decide_div_mod_eq]
    rw [this] at hl
    simpa using hl
  have hn : n = 2 ^ (l + 1) * (n / 2 ^ l / 2) + 2 ^ l := by
    have h1 := Nat.div_add_mod n (2 ^ l)
    have h2 := Nat.div_add_mod (n / 2 ^ l) 2
    rw [Nat.pow_succ]
    rw [hmod] at h1
    rw [hq] at h2
    generalize n / 2 ^ l = q at h1 h2 ⊢
    generalize q / 2 = r at h2 ⊢
    subst h2
    rw [← h1]
    rw [Nat.mul_add, Nat.mul_one, Nat.mul_assoc]
    omega
  generalize n / 2 ^ l / 2 = r at hn
  have hpos : 0 < 2 ^ l := Nat.two_pow_pos _
  have hn1 : n - 1 = 2 ^ (l + 1) * r + (2 ^ l - 1) := by omega
  have hb1 : 2 ^ l < 2 ^ (l + 1) := Nat.pow_lt_pow_right (by decide) (by omega)
  have hb2 : 2 ^ l - 1 < 2 ^ (l + 1) := by omega
  rw [Nat.testBit_and, hn1]
  conv => lhs; arg 1; rw [hn]
  conv => rhs; arg 1; rw [hn]
  rw [Nat.testBit_two_pow_mul_add r hb1, Nat.testBit_two_pow_mul_add r hb2]
  by_cases h1 : i < l + 1
  · simp only [h1, if_true, Nat.testBit_two_pow, Nat.testBit_two_pow_sub_one]
    by_cases h2 : i = l
    · subst h2; simp
    · have : ¬ l = i := fun h => h2 h.symm
      simp [this, h2]
  · have : ¬ i = l := by omega
    simp [h1, this]

theorem clear_lowest (x : BitVec 64) (hx : x ≠ 0#64) (i : Nat) :
    (x &&& (x - 1#64)).getLsbD i = (x.getLsbD i && !decide (i = (BitVec.ctz x).toNat)) := by
  have hpos : 0 < x.toNat := by
    apply Nat.pos_of_ne_zero
    intro h
    exact hx (BitVec.eq_of_toNat_eq (by simpa using h))
  have hlt := x.isLt
  have hsub : (x - 1#64).toNat = x.toNat - 1 := by
    rw [BitVec.toNat_sub]
    simp
    omega
  have key := nat_clear_lowest x.toNat (BitVec.ctz x).toNat
    (by simpa [BitVec.getLsbD] using BitVec.getLsbD_true_ctz_of_ne_zero hx)
    (fun j hj => by simpa [BitVec.getLsbD] using BitVec.getLsbD_false_of_lt_ctz (x := x) hj) i
  simp only [BitVec.getLsbD, BitVec.toNat_and, hsub]
  exact key

theorem ctz_toNat32 (x : BitVec 64) (hx : x ≠ 0#64) :
    (BitVec.setWidth 32 (BitVec.ctz x)).toNat = (BitVec.ctz x).toNat := by
  have h : BitVec.ctz x < 64 := BitVec.ctz_lt_iff_ne_zero.mpr hx
  have h' : (BitVec.ctz x).toNat < 64 := by
    simpa [BitVec.lt_def] using h
  simp [BitVec.toNat_setWidth]
  omega

theorem pop_lowest_empty (s : BitVec 64) (h : ∀ i, mem s i = false) :
    tinyset_pop_lowest s = (none, s) := by
  have : tinyset_is_empty s = true := (is_empty_iff s).mpr h
  simp [tinyset_pop_lowest, this]

/-- `pop_lowest` on a non-empty set returns its minimum and the set without it -/
theorem pop_lowest_spec (s : BitVec 64) (h : ∃ i, mem s i = true) :
    ∃ l s', tinyset_pop_lowest s = (some l, s') ∧ l.toNat < 64 ∧ mem s l.toNat = true
      ∧ (∀ j, j < l.toNat → mem s j = false)
      ∧ ∀ i, mem s' i = (mem s i && !decide (i = l.toNat)) := by
  have hne : s ≠ 0#64 := by
    intro h0
    obtain ⟨i, hi⟩ := h
    subst h0
    simp [mem] at hi
  have hemp : tinyset_is_empty s = false := by
    unfold tinyset_is_empty
    simpa using hne
  refine ⟨BitVec.setWidth 32 (BitVec.ctz s), s &&& (s - 1#64), ?_, ?_, ?_, ?_, ?_⟩
  · simp [tinyset_pop_lowest, hemp]
  · rw [ctz_toNat32 s hne]
    have h : BitVec.ctz s < 64 := BitVec.ctz_lt_iff_ne_zero.mpr hne
    simpa [BitVec.lt_def] using h
  · rw [ctz_toNat32 s hne]
    exact BitVec.getLsbD_true_ctz_of_ne_zero hne
  · intro j hj
    rw [ctz_toNat32 s hne] at hj
    exact BitVec.getLsbD_false_of_lt_ctz hj
  · intro i
    rw [ctz_toNat32 s hne]
    exact clear_lowest s hne i

end TantivyModel.TinySet
