import TantivyModel.Proofs.RecorderFold
/-! the value stream `recOf o ps` writes is the `enc…` stream of `ps`; hence its calls are `ps` -/
namespace TantivyModel.Recorder
open TantivyModel.Invert (Term RecOpt Posting)

structure Bounded (ps : List Posting) : Prop where
  pos : ∀ p ∈ ps, ∀ x ∈ p.positions, x + 1 < 2 ^ 32
  tf : ∀ p ∈ ps, p.tf < 2 ^ 32
  doc : ∀ p ∈ ps, p.doc < 2 ^ 31

theorem Bounded.tail {p : Posting} {ps : List Posting} (h : Bounded (p :: ps)) : Bounded ps :=
  ⟨fun q hq => h.pos q (by simp [hq]), fun q hq => h.tf q (by simp [hq]), fun q hq => h.doc q (by simp [hq])⟩

/-! ### recording the positions of one document -/

theorem foldl_rp_positions (poss : List Nat) (h : ∀ x ∈ poss, x + 1 < 2 ^ 32) :
    ∀ r : Rec, poss.foldl (recordPosition .positions) r = { r with vals := r.vals ++ poss.map (· + 1) } := by
  induction poss with
  | nil => intro r; simp
  | cons x rest ih =>
    intro r
    have hx := h x (by simp)
    rw [List.foldl_cons, ih (fun y hy => h y (by simp [hy]))]
    simp [recordPosition, Nat.mod_eq_of_lt hx]

theorem foldl_rp_freqs (poss : List Nat) :
    ∀ r : Rec, poss.foldl (recordPosition .freqs) r = { r with currentTf := r.currentTf + poss.length } := by
  induction poss with
  | nil => intro r; simp
  | cons x rest ih =>
    intro r
    rw [List.foldl_cons, ih]
    simp [recordPosition]; omega

theorem foldl_rp_basic (poss : List Nat) : ∀ r : Rec, poss.foldl (recordPosition .basic) r = r := by
  induction poss with
  | nil => intro r; rfl
  | cons x rest ih => intro r; rw [List.foldl_cons, ih]; rfl

/-! ### positions -/

theorem stream_positions_some (ps : List Posting) :
    ∀ r : Rec, (∀ p ∈ ps, r.currentDoc < p.doc) → (ps.map (·.doc)).Pairwise (· < ·) → Bounded ps →
      ∃ r', ps.foldl (fun acc p => some (addPosting .positions acc p)) (some r) = some r' ∧
        r'.vals = r.vals ++ encPositions r.currentDoc false ps := by
  induction ps with
  | nil => intro r _ _ _; exact ⟨r, rfl, by simp [encPositions]⟩
  | cons p rest ih =>
    intro r habove hs hb
    have hp := habove p (by simp)
    have hs' := List.pairwise_cons.mp (by rw [List.map_cons] at hs; exact hs)
    have hne : r.currentDoc ≠ p.doc := by omega
    have hstep : addPosting .positions (some r) p =
        { (newDoc .positions (closeDoc .positions r) p.doc) with
          vals := (newDoc .positions (closeDoc .positions r) p.doc).vals ++ p.positions.map (· + 1) } := by
      unfold addPosting
      simp only [hne, ne_eq, not_false_eq_true, if_true]
      exact foldl_rp_positions _ (hb.pos p (by simp)) _
    obtain ⟨r', h1, h2⟩ := ih (addPosting .positions (some r) p) (by
        intro q hq
        rw [hstep]
        simp only [newDoc]
        exact hs'.1 q.doc (List.mem_map.mpr ⟨q, hq, rfl⟩)) hs'.2 hb.tail
    refine ⟨r', by rw [List.foldl_cons, h1], ?_⟩
    rw [h2, hstep]
    simp [newDoc, closeDoc, encPositions]

theorem stream_positions (ps : List Posting) (hne : ps ≠ []) (hs : (ps.map (·.doc)).Pairwise (· < ·))
    (hb : Bounded ps) :
    ∃ r, recOf .positions ps = some r ∧ r.vals = encPositions 0 true ps := by
  cases ps with
  | nil => exact absurd rfl hne
  | cons p rest =>
    have hs' := List.pairwise_cons.mp (by rw [List.map_cons] at hs; exact hs)
    have hstep : addPosting .positions none p =
        { (newDoc .positions Rec.empty p.doc) with
          vals := (newDoc .positions Rec.empty p.doc).vals ++ p.positions.map (· + 1) } := by
      unfold addPosting
      exact foldl_rp_positions _ (hb.pos p (by simp)) _
    obtain ⟨r', h1, h2⟩ := stream_positions_some rest (addPosting .positions none p) (by
        intro q hq
        rw [hstep]
        simp only [newDoc]
        exact hs'.1 q.doc (List.mem_map.mpr ⟨q, hq, rfl⟩)) hs'.2 hb.tail
    refine ⟨r', by unfold recOf; rw [List.foldl_cons, h1], ?_⟩
    rw [h2, hstep]
    simp [newDoc, Rec.empty, encPositions]

/-! ### frequencies -/

/-- the stream after the first delta: the finished document's tf, then the next delta -/
def tailFreqs : Nat → Nat → List Posting → List Nat
  | _, _, [] => []
  | t, d, p :: ps => [t, p.doc - d] ++ tailFreqs p.tf p.doc ps

theorem encFreqs_eq (prev : Nat) (p : Posting) (ps : List Posting) :
    encFreqs prev (p :: ps) = [p.doc - prev] ++ tailFreqs p.tf p.doc ps := by
  induction ps generalizing prev p with
  | nil => simp [encFreqs, tailFreqs]
  | cons q r ih => simp [encFreqs, tailFreqs, ih]

theorem stream_freqs_some (ps : List Posting) :
    ∀ r : Rec, (∀ p ∈ ps, r.currentDoc < p.doc) → (ps.map (·.doc)).Pairwise (· < ·) →
      (∀ p ∈ ps, p.tf = p.positions.length) →
      ∃ r', ps.foldl (fun acc p => some (addPosting .freqs acc p)) (some r) = some r' ∧
        r'.vals = r.vals ++ tailFreqs r.currentTf r.currentDoc ps ∧
        r'.currentTf = ((ps.getLast?.map (·.tf)).getD r.currentTf) := by
  induction ps with
  | nil => intro r _ _ _; exact ⟨r, rfl, by simp [tailFreqs], by simp⟩
  | cons p rest ih =>
    intro r habove hs htf
    have hp := habove p (by simp)
    have hs' := List.pairwise_cons.mp (by rw [List.map_cons] at hs; exact hs)
    have hne : r.currentDoc ≠ p.doc := by omega
    have hstep : addPosting .freqs (some r) p =
        { (newDoc .freqs (closeDoc .freqs r) p.doc) with
          currentTf := (newDoc .freqs (closeDoc .freqs r) p.doc).currentTf + p.positions.length } := by
      unfold addPosting
      simp only [hne, ne_eq, not_false_eq_true, if_true]
      exact foldl_rp_freqs _ _
    obtain ⟨r', h1, h2, h3⟩ := ih (addPosting .freqs (some r) p) (by
        intro q hq
        rw [hstep]
        simp only [newDoc]
        exact hs'.1 q.doc (List.mem_map.mpr ⟨q, hq, rfl⟩)) hs'.2 (fun q hq => htf q (by simp [hq]))
    refine ⟨r', by rw [List.foldl_cons, h1], ?_, ?_⟩
    · rw [h2, hstep]
      simp [newDoc, closeDoc, tailFreqs, htf p (by simp)]
    · rw [h3, hstep]
      cases rest with
      | nil => simp [newDoc, closeDoc, htf p (by simp)]
      | cons q rest' =>
        rw [List.getLast?_cons_cons, List.getLast?_eq_some_getLast (by simp)]
        simp

theorem stream_freqs (ps : List Posting) (hne : ps ≠ []) (hs : (ps.map (·.doc)).Pairwise (· < ·))
    (htf : ∀ p ∈ ps, p.tf = p.positions.length) :
    ∃ r, recOf .freqs ps = some r ∧ r.vals = encFreqs 0 ps ∧
      r.currentTf = (ps.getLast?.map (·.tf)).getD 0 := by
  cases ps with
  | nil => exact absurd rfl hne
  | cons p rest =>
    have hs' := List.pairwise_cons.mp (by rw [List.map_cons] at hs; exact hs)
    have hstep : addPosting .freqs none p =
        { (newDoc .freqs Rec.empty p.doc) with
          currentTf := (newDoc .freqs Rec.empty p.doc).currentTf + p.positions.length } := by
      unfold addPosting
      exact foldl_rp_freqs _ _
    obtain ⟨r', h1, h2, h3⟩ := stream_freqs_some rest (addPosting .freqs none p) (by
        intro q hq
        rw [hstep]
        simp only [newDoc]
        exact hs'.1 q.doc (List.mem_map.mpr ⟨q, hq, rfl⟩)) hs'.2 (fun q hq => htf q (by simp [hq]))
    refine ⟨r', by unfold recOf; rw [List.foldl_cons, h1], ?_, ?_⟩
    · rw [h2, hstep, encFreqs_eq]
      simp [newDoc, Rec.empty, htf p (by simp)]
    · rw [h3, hstep]
      cases rest with
      | nil => simp [newDoc, Rec.empty, htf p (by simp)]
      | cons q rest' =>
        rw [List.getLast?_cons_cons, List.getLast?_eq_some_getLast (by simp)]
        simp

/-! ### doc ids only -/

theorem stream_basic_some (ps : List Posting) :
    ∀ r : Rec, (∀ p ∈ ps, r.currentDoc < p.doc) → (ps.map (·.doc)).Pairwise (· < ·) →
      ∃ r', ps.foldl (fun acc p => some (addPosting .basic acc p)) (some r) = some r' ∧
        r'.vals = r.vals ++ encBasic r.currentDoc ps := by
  induction ps with
  | nil => intro r _ _; exact ⟨r, rfl, by simp [encBasic]⟩
  | cons p rest ih =>
    intro r habove hs
    have hp := habove p (by simp)
    have hs' := List.pairwise_cons.mp (by rw [List.map_cons] at hs; exact hs)
    have hne : r.currentDoc ≠ p.doc := by omega
    have hstep : addPosting .basic (some r) p = newDoc .basic (closeDoc .basic r) p.doc := by
      unfold addPosting
      simp only [hne, ne_eq, not_false_eq_true, if_true]
      exact foldl_rp_basic _ _
    obtain ⟨r', h1, h2⟩ := ih (addPosting .basic (some r) p) (by
        intro q hq
        rw [hstep]
        simp only [newDoc]
        exact hs'.1 q.doc (List.mem_map.mpr ⟨q, hq, rfl⟩)) hs'.2
    refine ⟨r', by rw [List.foldl_cons, h1], ?_⟩
    rw [h2, hstep]
    simp [newDoc, closeDoc, encBasic]

theorem stream_basic (ps : List Posting) (hne : ps ≠ []) (hs : (ps.map (·.doc)).Pairwise (· < ·)) :
    ∃ r, recOf .basic ps = some r ∧ r.vals = encBasic 0 ps := by
  cases ps with
  | nil => exact absurd rfl hne
  | cons p rest =>
    have hs' := List.pairwise_cons.mp (by rw [List.map_cons] at hs; exact hs)
    have hstep : addPosting .basic none p = newDoc .basic Rec.empty p.doc := by
      unfold addPosting
      exact foldl_rp_basic _ _
    obtain ⟨r', h1, h2⟩ := stream_basic_some rest (addPosting .basic none p) (by
        intro q hq
        rw [hstep]
        simp only [newDoc]
        exact hs'.1 q.doc (List.mem_map.mpr ⟨q, hq, rfl⟩)) hs'.2
    refine ⟨r', by unfold recOf; rw [List.foldl_cons, h1], ?_⟩
    rw [h2, hstep]
    simp [newDoc, Rec.empty, encBasic]

end TantivyModel.Recorder
