import TantivyModel.Proofs.TopNHeap
import TantivyModel.Proofs.WandMachine
import TantivyModel.Proofs.Wand
/-!
The `TopNHeap` callback of `collect_segment_top_k` as a callback of the WAND theorems (integer
scores): its thresholds never decrease (`MonoCb`), and the exhaustive loop run with it pushes
exactly the matching documents, in doc order.
-/
namespace TantivyModel.TopN
open List TantivyModel.Wand

/-- `score > other` on integer scores -/
def natGt (a b : Nat) : Bool := decide (b < a)

theorem natGt_strictWeak : StrictWeak natGt where
  asymm a b h := by simp [natGt] at *; omega
  negTrans a b c h1 h2 := by simp [natGt] at *; omega

/-- `top_n.threshold.unwrap_or(Score::MIN)`: with positive integer scores `0` plays `Score::MIN` -/
def thrNat (h : Heap Nat) : Nat := h.threshold.getD 0

/-- mirrors: src/collector/sort_key/sort_by_score.rs::collect_segment_top_k — the callback handed to
`for_each_pruning` (segment without deletes): push `(score, doc)`, return the heap's threshold.
`base + doc` is the document's address (`DocAddress::new(segment_ord, doc)`, order-preserving). -/
def heapCb (base : Nat) (h : Heap Nat) (d sc : Nat) : Heap Nat × Nat :=
  (heapPush natGt h ⟨sc, base + d⟩, thrNat (heapPush natGt h ⟨sc, base + d⟩))

/-- the matching documents `lo ≤ d < lo + n` of a segment (total score > 0) as entries, in doc order -/
def segEntries (base : Nat) (tot : Nat → Nat) (lo n : Nat) : List (Entry Nat) :=
  ((List.range' lo n).filter (fun d => decide (0 < tot d))).map (fun d => ⟨tot d, base + d⟩)

theorem segEntries_zero (base : Nat) (tot : Nat → Nat) (lo : Nat) : segEntries base tot lo 0 = [] := rfl

theorem segEntries_succ (base : Nat) (tot : Nat → Nat) (lo n : Nat) :
    segEntries base tot lo (n + 1)
      = (if 0 < tot lo then [⟨tot lo, base + lo⟩] else []) ++ segEntries base tot (lo + 1) n := by
  unfold segEntries
  rw [range'_succ]
  by_cases h : 0 < tot lo
  · rw [filter_cons_of_pos (by simpa using h)]; simp [h]
  · rw [filter_cons_of_neg (by simpa using h)]; simp [h]

theorem segEntries_addr (base : Nat) (tot : Nat → Nat) : ∀ (n lo : Nat) (e : Entry Nat),
    e ∈ segEntries base tot lo n → base + lo ≤ e.addr
  | 0, _, _, h => by cases h
  | n + 1, lo, e, h => by
    rw [segEntries_succ] at h
    rcases mem_append.mp h with h | h
    · split at h
      · simp only [mem_cons, not_mem_nil, or_false] at h; subst h; exact Nat.le_refl _
      · cases h
    · have := segEntries_addr base tot n (lo + 1) e h; omega

theorem segEntries_asc (base : Nat) (tot : Nat → Nat) : ∀ (n lo : Nat), AddrAsc (segEntries base tot lo n)
  | 0, _ => Pairwise.nil
  | n + 1, lo => by
    rw [segEntries_succ]
    unfold AddrAsc
    rw [pairwise_append]
    refine ⟨?_, segEntries_asc base tot n (lo + 1), ?_⟩
    · split
      · simp
      · exact Pairwise.nil
    · intro a ha b hb
      split at ha
      · simp only [mem_cons, not_mem_nil, or_false] at ha; subst ha
        have := segEntries_addr base tot n (lo + 1) b hb
        simp only; omega
      · cases ha

/-- the exhaustive loop run with the heap callback pushes exactly the matching documents -/
theorem exhRange_heapCb (base : Nat) (tot : Nat → Nat) : ∀ (n lo : Nat) (h : Heap Nat), HeapWf h →
    exhRange (heapCb base) tot lo n (h, thrNat h)
      = ((segEntries base tot lo n).foldl (heapPush natGt) h,
          thrNat ((segEntries base tot lo n).foldl (heapPush natGt) h))
  | 0, _, _, _ => rfl
  | n + 1, lo, h, hw => by
    rw [segEntries_succ]
    simp only [exhRange]
    by_cases hcall : thrNat h < tot lo
    · rw [if_pos hcall, if_pos (by omega)]
      simp only [heapCb, singleton_append, foldl_cons]
      exact exhRange_heapCb base tot n (lo + 1) _ (heapWf_push natGt hw _)
    · rw [if_neg hcall]
      by_cases hpos : 0 < tot lo
      · rw [if_pos hpos]
        simp only [singleton_append, foldl_cons]
        have hna : above natGt (tot lo) h.threshold = false := by
          unfold thrNat at hcall
          cases ht : h.threshold with
          | none => rw [ht] at hcall; simp at hcall; omega
          | some t => rw [ht] at hcall; simp [above, natGt] at hcall ⊢; omega
        rw [heapPush_not_above natGt hw ⟨tot lo, base + lo⟩ hna]
        exact exhRange_heapCb base tot n (lo + 1) h hw
      · rw [if_neg hpos]
        simp only [nil_append]
        exact exhRange_heapCb base tot n (lo + 1) h hw

/-- what is needed of a heap for its threshold never to decrease, whatever is pushed next -/
structure HeapOK (h : Heap Nat) : Prop where
  wf : HeapWf h
  sorted : Sorted (le natGt) h.heap
  last : ∀ t, h.threshold = some t → h.heap.getLast?.map (·.key) = some t

theorem heapOK_new (K : Nat) : HeapOK (Heap.new K) where
  wf := heapWf_new K
  sorted := Pairwise.nil
  last t ht := by simp [Heap.new] at ht

theorem key_ge_of_le {x y : Entry Nat} (h : le natGt x y = true) : y.key ≤ x.key := by
  unfold le natGt at h
  simp only [Bool.or_eq_true, Bool.and_eq_true, Bool.not_eq_true', decide_eq_true_eq, decide_eq_false_iff_not] at h
  omega

theorem heapPush_room {gt : Nat → Nat → Bool} {h : Heap Nat} (e : Entry Nat) (hlt : h.heap.length < h.topN) :
    heapPush gt h e = ⟨ins (le gt) e h.heap, h.topN,
      if (ins (le gt) e h.heap).length = h.topN then (ins (le gt) e h.heap).getLast?.map (·.key) else h.threshold⟩ := by
  unfold heapPush; rw [if_pos hlt]

theorem heapPush_replace {gt : Nat → Nat → Bool} {h : Heap Nat} (e : Entry Nat) (hge : ¬ h.heap.length < h.topN) {t : Nat}
    (ht : h.threshold = some t) (hg : gt e.key t = true) :
    heapPush gt h e = ⟨ins (le gt) e h.heap.dropLast, h.topN,
      (ins (le gt) e h.heap.dropLast).getLast?.map (·.key)⟩ := by
  unfold heapPush; rw [if_neg hge, ht]; simp only [hg, if_true]

theorem heapPush_keep {gt : Nat → Nat → Bool} {h : Heap Nat} (e : Entry Nat) (hge : ¬ h.heap.length < h.topN)
    (hk : ∀ t, h.threshold = some t → gt e.key t = false) : heapPush gt h e = h := by
  unfold heapPush; rw [if_neg hge]
  cases ht : h.threshold with
  | none => rfl
  | some t => simp only [hk t ht, Bool.false_eq_true, if_false]

theorem heapPush_ok {h : Heap Nat} (hok : HeapOK h) (e : Entry Nat) :
    HeapOK (heapPush natGt h e) ∧ thrNat h ≤ thrNat (heapPush natGt h e) := by
  have hle := le_totalPreorder natGt_strictWeak
  by_cases hlt : h.heap.length < h.topN
  · -- room left: no threshold yet
    have hnone : h.threshold = none := by
      cases ht : h.threshold with
      | none => rfl
      | some t => exact absurd (hok.wf t ht).1 (by omega)
    refine ⟨⟨heapWf_push natGt hok.wf e, ?_, ?_⟩, ?_⟩
    · rw [heapPush_room e hlt]; exact ins_sorted hle e hok.sorted
    · intro t ht
      rw [heapPush_room e hlt] at ht ⊢
      simp only at ht ⊢
      split at ht
      · exact ht
      · rw [hnone] at ht; cases ht
    · unfold thrNat; rw [hnone]; simp
  · by_cases hrep : ∃ t, h.threshold = some t ∧ natGt e.key t = true
    · obtain ⟨t, ht, hg⟩ := hrep
      have hlast := hok.last t ht
      refine ⟨⟨heapWf_push natGt hok.wf e, ?_, ?_⟩, ?_⟩
      · rw [heapPush_replace e hlt ht hg]
        exact ins_sorted hle e (Pairwise.sublist (dropLast_sublist _) hok.sorted)
      · intro t' ht'
        rw [heapPush_replace e hlt ht hg] at ht' ⊢
        exact ht'
      · rw [heapPush_replace e hlt ht hg]
        unfold thrNat
        rw [ht]
        simp only [Option.getD_some]
        simp only [natGt, decide_eq_true_eq] at hg
        -- the new last entry is `e` or an entry that preceded the old last one
        have hne : ins (le natGt) e h.heap.dropLast ≠ [] := by
          intro hnil
          have := congrArg length hnil
          rw [length_ins, length_nil] at this; omega
        rw [getLast?_eq_some_getLast hne]
        simp only [Option.map_some, Option.getD_some]
        have hmem := getLast_mem hne
        generalize (ins (le natGt) e h.heap.dropLast).getLast hne = x at hmem
        rcases (mem_ins (le := le natGt)).mp hmem with heq | hin
        · rw [heq]; omega
        · have hhne : h.heap ≠ [] := by
            intro hn
            have hl := length_pos_of_mem hin
            rw [length_dropLast, hn] at hl
            simp at hl
          have hsplit : h.heap = h.heap.dropLast ++ [h.heap.getLast hhne] := (dropLast_concat_getLast hhne).symm
          have hs := hok.sorted
          unfold Sorted at hs
          rw [hsplit, pairwise_append] at hs
          have hxl := hs.2.2 x hin (h.heap.getLast hhne) (by simp)
          have hk := key_ge_of_le hxl
          rw [getLast?_eq_some_getLast hhne] at hlast
          simp only [Option.map_some, Option.some.injEq] at hlast
          omega
    · have hkeep : heapPush natGt h e = h := by
        apply heapPush_keep e hlt
        intro t ht
        cases hg : natGt e.key t with
        | false => rfl
        | true => exact absurd ⟨t, ht, hg⟩ hrep
      rw [hkeep]
      exact ⟨hok, Nat.le_refl _⟩

/-- the heap callback is a callback of the WAND theorems: thresholds never decrease -/
theorem heapCb_mono (base : Nat) : MonoCb (heapCb base) (fun h θ => HeapOK h ∧ θ = thrNat h) where
  step h θ d sc hR _ := by
    obtain ⟨hok, hθ⟩ := hR
    obtain ⟨h1, h2⟩ := heapPush_ok hok ⟨sc, base + d⟩
    exact ⟨⟨h1, rfl⟩, by rw [hθ]; exact h2⟩

/-- the exhaustive loop over a posting list (positive scores) with the heap callback pushes every
posting -/
theorem exhaustive_heapCb (base : Nat) : ∀ (docs : List (Nat × Nat)) (h : Heap Nat), HeapWf h →
    (∀ p, p ∈ docs → 0 < p.2) →
    exhaustive natGt (heapCb base) (h, thrNat h) docs
      = ((docs.map fun p => (⟨p.2, base + p.1⟩ : Entry Nat)).foldl (heapPush natGt) h,
          thrNat ((docs.map fun p => (⟨p.2, base + p.1⟩ : Entry Nat)).foldl (heapPush natGt) h))
  | [], _, _, _ => rfl
  | (d, sc) :: rest, h, hw, hpos => by
    have hrest : ∀ p, p ∈ rest → 0 < p.2 := fun p hp => hpos p (by simp [hp])
    have hsc : 0 < sc := hpos (d, sc) (by simp)
    simp only [exhaustive, map_cons, foldl_cons]
    by_cases hcall : natGt sc (thrNat h) = true
    · rw [if_pos hcall]
      simp only [heapCb]
      exact exhaustive_heapCb base rest _ (heapWf_push natGt hw _) hrest
    · rw [if_neg hcall]
      have hna : above natGt sc h.threshold = false := by
        simp only [natGt, decide_eq_true_eq, Nat.not_lt] at hcall
        unfold thrNat at hcall
        cases ht : h.threshold with
        | none => rw [ht] at hcall; simp at hcall; omega
        | some t => rw [ht] at hcall; simp [above, natGt] at hcall ⊢; omega
      rw [heapPush_not_above natGt hw ⟨sc, base + d⟩ hna]
      exact exhaustive_heapCb base rest h hw hrest

/-! ### segments with deleted documents -/

/-- mirrors: src/collector/sort_key/sort_by_score.rs::collect_segment_top_k — the callback of the
`alive_bitset` branch: a deleted document returns the old threshold, a live one is pushed -/
def heapCbA (base : Nat) (alive : Nat → Bool) (h : Heap Nat) (d sc : Nat) : Heap Nat × Nat :=
  if alive d then heapCb base h d sc else (h, thrNat h)

theorem heapCbA_mono (base : Nat) (alive : Nat → Bool) :
    MonoCb (heapCbA base alive) (fun h θ => HeapOK h ∧ θ = thrNat h) where
  step h θ d sc hR hlt := by
    unfold heapCbA
    split
    · exact (heapCb_mono base).step h θ d sc hR hlt
    · exact ⟨⟨hR.1, rfl⟩, by rw [hR.2]; exact Nat.le_refl _⟩

/-- the total score restricted to the live documents -/
def maskTot (alive : Nat → Bool) (tot : Nat → Nat) : Nat → Nat := fun d => if alive d then tot d else 0

/-- the exhaustive loop with the deletes-aware callback = the plain one over the live documents -/
theorem exhRange_heapCbA (base : Nat) (alive : Nat → Bool) (tot : Nat → Nat) : ∀ (n lo : Nat) (h : Heap Nat),
    exhRange (heapCbA base alive) tot lo n (h, thrNat h)
      = exhRange (heapCb base) (maskTot alive tot) lo n (h, thrNat h)
  | 0, _, _ => rfl
  | n + 1, lo, h => by
    simp only [exhRange]
    by_cases ha : alive lo = true
    · have hm : maskTot alive tot lo = tot lo := by unfold maskTot; rw [if_pos ha]
      rw [hm]
      by_cases hc : thrNat h < tot lo
      · rw [if_pos hc, if_pos hc]
        have : heapCbA base alive h lo (tot lo) = heapCb base h lo (tot lo) := by unfold heapCbA; rw [if_pos ha]
        rw [this]
        exact exhRange_heapCbA base alive tot n (lo + 1) _
      · rw [if_neg hc, if_neg hc]
        exact exhRange_heapCbA base alive tot n (lo + 1) h
    · have hm : maskTot alive tot lo = 0 := by unfold maskTot; rw [if_neg ha]
      rw [hm, if_neg (Nat.not_lt_zero _)]
      have : (if thrNat h < tot lo then heapCbA base alive h lo (tot lo) else (h, thrNat h)) = (h, thrNat h) := by
        split
        · unfold heapCbA; rw [if_neg ha]
        · rfl
      rw [this]
      exact exhRange_heapCbA base alive tot n (lo + 1) h

end TantivyModel.TopN
