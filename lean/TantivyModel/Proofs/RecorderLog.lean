import TantivyModel.Model.Recorder
import TantivyModel.Proofs.VInt
/-! recorder streams: bytes ↔ values, and values → `write_doc` calls for the three recorders -/
namespace TantivyModel.Recorder
open TantivyModel.Invert (Term RecOpt Posting)

/-! ### bytes ↔ values -/

theorem readU32_ser (v : Nat) (hv : v < 2 ^ 32) (rest : List Nat) :
    VInt.readU32 Gen.Postings.VINT_STOP_BIT Gen.Postings.VINT32_MAX_LEN (ser v ++ rest) =
      some (v, (ser v).length) ∧ 0 < (ser v).length := by
  have hb : ser v = VInt.enc 128 v := VInt.serializeU32_eq_enc v hv
  have hS : Gen.Postings.VINT_STOP_BIT = 128 := by decide
  have hM : Gen.Postings.VINT32_MAX_LEN = 5 := by decide
  have hlen : (VInt.enc 128 v).length ≤ 5 :=
    VInt.enc_length_le 128 (by omega) 4 v (Nat.lt_of_lt_of_le hv (by decide))
  rw [hb, hS, hM]
  exact ⟨VInt.readU32_enc 128 (by omega) 5 v rest hlen, VInt.enc_length_pos 128 v⟩

theorem readVals_flatMap (vals : List Nat) (h : ∀ v ∈ vals, v < 2 ^ 32) :
    ∀ fuel, vals.length ≤ fuel → readVals fuel (vals.flatMap ser) = vals := by
  induction vals with
  | nil => intro fuel _; cases fuel <;> simp [readVals]
  | cons v vs ih =>
    intro fuel hf
    cases fuel with
    | zero => simp at hf
    | succ fuel =>
      have hr := readU32_ser v (h v (by simp)) (vs.flatMap ser)
      have hne : ¬ (ser v ++ vs.flatMap ser).isEmpty = true := by
        have := hr.2
        simp only [List.isEmpty_iff, List.append_eq_nil_iff, not_and]
        intro h0; rw [h0] at this; simp at this
      simp only [List.flatMap_cons, readVals, hne, hr.1, if_false]
      rw [List.drop_left' rfl, ih (fun x hx => h x (by simp [hx])) fuel (by simpa using hf)]
      simp

theorem flatMap_ser_length (vals : List Nat) (h : ∀ v ∈ vals, v < 2 ^ 32) :
    vals.length ≤ (vals.flatMap ser).length := by
  induction vals with
  | nil => simp
  | cons v vs ih =>
    have := (readU32_ser v (h v (by simp)) []).2
    have := ih (fun x hx => h x (by simp [hx]))
    simp only [List.flatMap_cons, List.length_append, List.length_cons]
    omega

/-- the reader recovers the value stream from the arena bytes -/
theorem readVals_logBytes (r : Rec) (h : ∀ v ∈ r.vals, v < 2 ^ 32) :
    readVals (logBytes r).length (logBytes r) = r.vals :=
  readVals_flatMap r.vals h _ (flatMap_ser_length r.vals h)

/-! ### the value stream of each recorder, as a function of the postings recorded -/

/-- `TfAndPositionRecorder`: delta, positions+1, and `END` between documents -/
def encPositions : Nat → Bool → List Posting → List Nat
  | _, _, [] => []
  | prev, first, p :: ps =>
    (if first then [] else [END]) ++ [p.doc - prev] ++ p.positions.map (· + 1) ++ encPositions p.doc false ps

/-- `TermFrequencyRecorder`: delta, then the tf once the next document starts -/
def encFreqs : Nat → List Posting → List Nat
  | _, [] => []
  | prev, [p] => [p.doc - prev]
  | prev, p :: q :: r => [p.doc - prev, p.tf] ++ encFreqs p.doc (q :: r)

def encBasic : Nat → List Posting → List Nat
  | _, [] => []
  | prev, p :: ps => (p.doc - prev) :: encBasic p.doc ps

/-- postings as recorded: strictly increasing docs, `tf` = number of positions > 0, positions
non-decreasing and `position + 1` a non-zero `u32` -/
structure GoodPostings (prev : Nat) (ps : List Posting) : Prop where
  sorted : (ps.map (·.doc)).Pairwise (· < ·)
  above : ∀ p ∈ ps, prev ≤ p.doc
  tf : ∀ p ∈ ps, p.tf = p.positions.length ∧ 0 < p.tf
  mono : ∀ p ∈ ps, p.positions.Pairwise (· ≤ ·)

theorem GoodPostings.tail {prev : Nat} {p : Posting} {ps : List Posting} (h : GoodPostings prev (p :: ps)) :
    GoodPostings p.doc ps := by
  have hs : ((p :: ps).map (·.doc)).Pairwise (· < ·) := h.sorted
  rw [List.map_cons, List.pairwise_cons] at hs
  exact ⟨hs.2, fun q hq => Nat.le_of_lt (hs.1 q.doc (List.mem_map.mpr ⟨q, hq, rfl⟩)),
    fun q hq => h.tf q (by simp [hq]), fun q hq => h.mono q (by simp [hq])⟩

theorem plusOneDeltas_map (q : Nat) (ps : List Nat) :
    plusOneDeltas (q + 1) (ps.map (· + 1)) = Postings.deltas q ps := by
  induction ps generalizing q with
  | nil => rfl
  | cons a r ih =>
    simp only [List.map_cons, plusOneDeltas, Postings.deltas, ih]
    congr 1; omega

theorem takeWhile_map_succ (ps rest : List Nat) :
    (ps.map (· + 1) ++ END :: rest).takeWhile (· ≠ END) = ps.map (· + 1) ∧
    (ps.map (· + 1) ++ END :: rest).dropWhile (· ≠ END) = END :: rest := by
  have hE : END = 0 := by decide
  induction ps with
  | nil => simp
  | cons a r ih =>
    have : a + 1 ≠ END := by rw [hE]; omega
    simp only [List.map_cons, List.cons_append, List.takeWhile_cons, List.dropWhile_cons, this,
      ne_eq, not_false_eq_true, decide_true, if_true, ih.1, ih.2, and_self]

theorem takeWhile_map_succ_end (ps : List Nat) :
    (ps.map (· + 1)).takeWhile (· ≠ END) = ps.map (· + 1) ∧
    (ps.map (· + 1)).dropWhile (· ≠ END) = [] := by
  have hE : END = 0 := by decide
  induction ps with
  | nil => simp
  | cons a r ih =>
    have : a + 1 ≠ END := by rw [hE]; omega
    simp only [List.map_cons, List.takeWhile_cons, List.dropWhile_cons, this,
      ne_eq, not_false_eq_true, decide_true, if_true, ih.1, ih.2, and_self]

def callOf (o : RecOpt) (p : Posting) : Call :=
  match o with
  | .basic => { doc := p.doc, tf := 0, deltas := [] }
  | .freqs => { doc := p.doc, tf := p.tf, deltas := [] }
  | .positions => { doc := p.doc, tf := p.tf, deltas := Postings.deltas 0 p.positions }

theorem encPositions_length_ge (prev : Nat) (first : Bool) (ps : List Posting) :
    ps.length ≤ (encPositions prev first ps).length := by
  induction ps generalizing prev first with
  | nil => simp [encPositions]
  | cons p r ih =>
    have := ih p.doc false
    simp only [encPositions, List.length_append, List.length_cons, List.length_map]
    omega

theorem callsPositions_step (ps : List Posting) :
    ∀ (p0 : Posting) (prev fuel : Nat), prev ≤ p0.doc → GoodPostings p0.doc ps → ps.length ≤ fuel →
      callsPositions (fuel + 1) prev
          ([p0.doc - prev] ++ p0.positions.map (· + 1) ++ encPositions p0.doc false ps) =
        { doc := p0.doc, tf := p0.positions.length, deltas := Postings.deltas 0 p0.positions } ::
          ps.map (callOf .positions) := by
  induction ps with
  | nil =>
    intro p0 prev fuel hp _ _
    have e := takeWhile_map_succ_end p0.positions
    have hd : prev + (p0.doc - prev) = p0.doc := by omega
    have hpd := plusOneDeltas_map 0 p0.positions
    simp only [Nat.zero_add] at hpd
    simp only [encPositions, List.append_nil, List.singleton_append, callsPositions, e.1, e.2,
      List.drop_nil, List.length_map, List.map_nil, hd, hpd]
    cases fuel <;> simp [callsPositions]
  | cons p r ih =>
    intro p0 prev fuel hp hg hf
    cases fuel with
    | zero => simp at hf
    | succ fuel =>
      have e := takeWhile_map_succ p0.positions
        ([p.doc - p0.doc] ++ p.positions.map (· + 1) ++ encPositions p.doc false r)
      have hd : prev + (p0.doc - prev) = p0.doc := by omega
      have hpd := plusOneDeltas_map 0 p0.positions
      simp only [Nat.zero_add] at hpd
      have hrec := ih p p0.doc fuel (hg.above p (by simp)) hg.tail (by simpa using hf)
      simp only [encPositions, Bool.false_eq_true, if_false, List.singleton_append, List.cons_append,
        List.nil_append, List.append_assoc] at e hrec ⊢
      rw [callsPositions]
      simp only [e.1, e.2, List.drop_succ_cons, List.drop_zero, List.length_map, hd, hpd, List.map_cons]
      rw [hrec]
      simp only [callOf, (hg.tf p (by simp)).1]

/-- parsing the positional stream gives back one call per posting -/
theorem callsPositions_enc (ps : List Posting) (prev fuel : Nat) (hg : GoodPostings prev ps)
    (hf : ps.length ≤ fuel) :
    callsPositions fuel prev (encPositions prev true ps) = ps.map (callOf .positions) := by
  cases ps with
  | nil => cases fuel <;> simp [encPositions, callsPositions]
  | cons p r =>
    cases fuel with
    | zero => simp at hf
    | succ fuel =>
      have := callsPositions_step r p prev fuel (hg.above p (by simp)) hg.tail (by simpa using hf)
      simp only [encPositions, if_true, List.nil_append, List.map_cons]
      rw [this]
      simp only [callOf, (hg.tf p (by simp)).1]

theorem callsFreqs_enc (ps : List Posting) :
    ∀ (prev : Nat), GoodPostings prev ps →
      callsFreqs ((ps.getLast?.map (·.tf)).getD 0) prev (encFreqs prev ps) = ps.map (callOf .freqs) := by
  induction ps with
  | nil => intro prev _; simp [encFreqs, callsFreqs]
  | cons p r ih =>
    intro prev hg
    have hd : prev + (p.doc - prev) = p.doc := by have := hg.above p (by simp); omega
    cases r with
    | nil => simp [encFreqs, callsFreqs, callOf, hd]
    | cons q r' =>
      have := ih p.doc hg.tail
      simp only [encFreqs, List.cons_append, List.nil_append, callsFreqs, hd, List.map_cons, callOf]
      simp only [List.getLast?_cons_cons] at this ⊢
      rw [this]
      simp [callOf]

theorem callsBasic_enc (ps : List Posting) :
    ∀ (prev : Nat), GoodPostings prev ps → callsBasic prev (encBasic prev ps) = ps.map (callOf .basic) := by
  induction ps with
  | nil => intro prev _; simp [encBasic, callsBasic]
  | cons p r ih =>
    intro prev hg
    have hd : prev + (p.doc - prev) = p.doc := by have := hg.above p (by simp); omega
    simp only [encBasic, callsBasic, hd, List.map_cons, ih p.doc hg.tail, callOf]

end TantivyModel.Recorder
