import TantivyModel.Proofs.GrammarCharsRem
import TantivyModel.Proofs.Grammar
import TantivyModel.Model.Grammar.Printer
namespace TantivyModel.Grammar.Chars
open TantivyModel.Grammar

/-! ## printing operand lists (words and parenthesised lists), and parsing them back -/

/-- what the list parser needs to know about an operand -/
structure GoodOpd (g : Bool) (o : Opd) : Prop where
  head : ∃ c r, o.text = c :: r ∧ isNomSpace c = false ∧ c ≠ ':' ∧ c ≠ '+' ∧ c ≠ '-' ∧ c ≠ ')'
  noOp : ∀ t, Rem t → binaryOperand (o.text ++ t) = (none, o.text ++ t)
  parse : ∀ t, Rem t → ∀ f, o.cost ≤ f → pLeaf g f (o.text ++ t) = .ok o.leaf t
  small : o.cost ≤ 4 * o.text.length

/-- `leaf` followed by the optional boost, as `occur_leaf` runs them -/
def pLeafB (g : Bool) (f : Nat) (s : Str) : R (Ast CLeaf) :=
  (pLeaf g f s).bind fun a r => .ok (applyBoost a (boost r).1) (boost r).2

/-- what the list parser needs to know about an item of a list: an operand with its optional boost -/
structure GoodItem (g : Bool) (o : Opd) : Prop where
  head : ∃ c r, o.text = c :: r ∧ isNomSpace c = false ∧ c ≠ ':' ∧ c ≠ '+' ∧ c ≠ '-' ∧ c ≠ ')'
  noOp : ∀ t, Rem t → binaryOperand (o.text ++ t) = (none, o.text ++ t)
  parse : ∀ t, Rem t → ∀ f, o.cost ≤ f → pLeafB g f (o.text ++ t) = .ok o.leaf t
  small : o.cost ≤ 4 * o.text.length

/-- what may follow an operand list: nothing, or the `)` of the enclosing group -/
def EndTail (tail : Str) : Prop := tail = [] ∨ ∃ x, tail = ')' :: x

theorem skip0_spaces (n : Nat) (x : Str) (hx : ∀ c r, x = c :: r → isNomSpace c = false) :
    skip0 (spaces n ++ x) = x := by
  induction n with
  | zero =>
    cases x with
    | nil => rfl
    | cons c r => simp [spaces, skip0, List.dropWhile, hx c r rfl]
  | succ n ih =>
    have : spaces (n + 1) ++ x = ' ' :: (spaces n ++ x) := by simp [spaces, List.replicate_succ]
    rw [this]
    have e : skip0 (' ' :: (spaces n ++ x)) = skip0 (spaces n ++ x) := by
      simp [skip0, List.dropWhile, isNomSpace]
    rw [e, ih]

theorem endTail_head (tail : Str) (h : EndTail tail) : ∀ c r, tail = c :: r → isNomSpace c = false := by
  intro c r e
  rcases h with rfl | ⟨x, rfl⟩
  · cases e
  · simp only [List.cons.injEq] at e
    rw [← e.1]; decide

theorem skip0_spaces_tail (n : Nat) (tail : Str) (h : EndTail tail) : skip0 (spaces n ++ tail) = tail :=
  skip0_spaces n tail (endTail_head tail h)

theorem rem_spaces_tail (k : Nat) (tail : Str) (h : EndTail tail) : Rem (spaces k ++ tail) := by
  cases k with
  | zero =>
    rcases h with rfl | ⟨x, rfl⟩
    · exact Or.inl rfl
    · exact Or.inr (Or.inr ⟨x, by simp [spaces]⟩)
  | succ k =>
    refine Or.inr (Or.inl ⟨spaces k ++ tail, by simp [spaces, List.replicate_succ], ?_⟩)
    intro r' e
    rw [skip0_spaces_tail k tail h] at e
    rcases h with rfl | ⟨x, rfl⟩
    · cases e
    · simp at e

/-- the first character of an operand's text is not a blank and not a colon -/
theorem itemText_head (g : Bool) (it : PItem) (hw : GoodItem g it.opd) :
    ∃ c r, itemText it = c :: r ∧ isNomSpace c = false ∧ c ≠ ':' := by
  obtain ⟨c, r, hcr, hsp, hcol, _⟩ := hw.head
  unfold itemText
  cases hop : it.op with
  | some o =>
    cases o with
    | and => exact ⟨'A', 'N' :: 'D' :: ' ' :: (spaces it.sp2 ++ (markText it.occ ++ it.opd.text)), by simp [opText], by decide, by decide⟩
    | or => exact ⟨'O', 'R' :: ' ' :: (spaces it.sp2 ++ (markText it.occ ++ it.opd.text)), by simp [opText], by decide, by decide⟩
  | none =>
    cases hocc : it.occ with
    | none => exact ⟨c, r, by simp [opText, markText, hcr], hsp, hcol⟩
    | some o =>
      cases o with
      | should => exact ⟨c, r, by simp [opText, markText, hcr], hsp, hcol⟩
      | must => exact ⟨'+', it.opd.text, by simp [opText, markText], by decide, by decide⟩
      | mustNot => exact ⟨'-', it.opd.text, by simp [opText, markText], by decide, by decide⟩

theorem skip0_printRest_cons (g : Bool) (it : PItem) (more : List PItem) (k : Nat) (tail : Str)
    (hw : GoodItem g it.opd) :
    skip0 (printRest (it :: more) k tail) = itemText it ++ printRest more k tail := by
  obtain ⟨c, r, hcr, hsp, _⟩ := itemText_head g it hw
  have e : skip0 (' ' :: (spaces it.sp1 ++ (itemText it ++ printRest more k tail)))
      = skip0 (spaces it.sp1 ++ (itemText it ++ printRest more k tail)) := by
    simp [skip0, List.dropWhile, isNomSpace]
  show skip0 (' ' :: (spaces it.sp1 ++ (itemText it ++ printRest more k tail))) = _
  rw [e, skip0_spaces]
  intro c' r' h'
  rw [hcr] at h'
  simp only [List.cons_append, List.cons.injEq] at h'
  rw [← h'.1]
  exact hsp

/-- what follows an operand in a printed operand list never makes it a field name -/
theorem rem_printRest (g : Bool) (more : List PItem) (k : Nat) (tail : Str) (ht : EndTail tail)
    (hw : ∀ it ∈ more, GoodItem g it.opd) : Rem (printRest more k tail) := by
  cases more with
  | nil => exact rem_spaces_tail k tail ht
  | cons it rest =>
    refine Or.inr (Or.inl ⟨spaces it.sp1 ++ (itemText it ++ printRest rest k tail), rfl, ?_⟩)
    obtain ⟨c, r, hcr, hsp, hcol⟩ := itemText_head g it (hw it (by simp))
    intro r' h
    rw [skip0_spaces] at h
    · rw [hcr] at h
      simp only [List.cons_append, List.cons.injEq] at h
      exact hcol h.1
    · intro c' r'' h'
      rw [hcr] at h'
      simp only [List.cons_append, List.cons.injEq] at h'
      rw [← h'.1]
      exact hsp

theorem needRest_ge (more : List PItem) : 3 ≤ needRest more := by
  induction more with
  | nil => simp [needRest]
  | cons it rest ih => simp only [needRest]; omega

theorem boost_of_rem (t : Str) (ht : Rem t) : boost t = (none, t) := by
  rcases ht with rfl | ⟨t', rfl, _⟩ | ⟨t', rfl⟩
  · rfl
  · unfold boost
    split
    · rename_i heq; exact absurd (List.cons.inj heq).1 (by decide)
    · rfl
  · unfold boost
    split
    · rename_i heq; exact absurd (List.cons.inj heq).1 (by decide)
    · rfl

/-- an operand without a boost is an item -/
theorem GoodOpd.toItem {g : Bool} {o : Opd} (h : GoodOpd g o) : GoodItem g o :=
  ⟨h.head, h.noOp, fun t ht f hf => by
    simp [pLeafB, h.parse t ht f hf, R.bind, boost_of_rem t ht, applyBoost], h.small⟩

theorem pOccurLeaf_eq (g : Bool) (f : Nat) (s : Str) :
    pOccurLeaf g (f + 1) s
      = (pLeafB g f (occurSymbol s).2).bind fun a r => .ok ((occurSymbol s).1, a) r := by
  unfold pOccurLeaf pLeafB
  cases occurSymbol s with
  | mk occ s1 =>
    simp only
    cases pLeaf g f s1 with
    | ok a r =>
      simp only [R.bind]
    | fail => rfl
    | panic => rfl

/-- an operand with its occur marker -/
theorem pOccurLeaf_good (g : Bool) (o : Opd) (ho : GoodItem g o) (occ : Option Occur) (t : Str)
    (ht : Rem t) (f : Nat) (hf : o.cost + 1 ≤ f) :
    pOccurLeaf g f (markText occ ++ (o.text ++ t)) = .ok (normOcc occ, o.leaf) t := by
  obtain ⟨f', rfl⟩ : ∃ f', f = f' + 1 := ⟨f - 1, by omega⟩
  obtain ⟨c, r, hcr, _, _, hp, hm, _⟩ := ho.head
  have ho' : occurSymbol (o.text ++ t) = (none, o.text ++ t) := by
    rw [hcr]
    show occurSymbol (c :: (r ++ t)) = _
    unfold occurSymbol
    split
    · rename_i heq; exact absurd (List.cons.inj heq).1 hm
    · rename_i heq; exact absurd (List.cons.inj heq).1 hp
    · rfl
  have hl := ho.parse t ht f' (by omega)
  rw [pOccurLeaf_eq]
  match occ with
  | some .must => simp [markText, normOcc, occurSymbol, hl, R.bind]
  | some .mustNot => simp [markText, normOcc, occurSymbol, hl, R.bind]
  | some .should => simp [markText, normOcc, ho', hl, R.bind]
  | none => simp [markText, normOcc, ho', hl, R.bind]

theorem plainLiteral_nil (g : Bool) : plainLiteral g [] = .fail := by rfl

theorem pLeaf_nil (g : Bool) (f : Nat) : pLeaf g (f + 1) [] = .fail := by
  unfold pLeaf
  simp [R.orElse, tag, List.isPrefixOf, plainLiteral_nil, fieldName]

theorem pOccurLeaf_nil (g : Bool) (f : Nat) : pOccurLeaf g (f + 2) [] = .fail := by
  unfold pOccurLeaf
  simp [occurSymbol, pLeaf_nil, R.bind]

theorem pOperands_nil (g : Bool) (f : Nat) : pOperands g (f + 3) [] = .ok [] [] := by
  unfold pOperands
  simp [binaryOperand, tag, List.isPrefixOf, skip0, pOccurLeaf_nil]

theorem plainLiteral_close (g : Bool) (x : Str) : plainLiteral g (')' :: x) = .fail := by
  have h1 : fieldName (')' :: x) = none := by simp [fieldName, specialChars]
  have h2 : range (')' :: x) = none := by
    simp [range, skip0, List.dropWhile, isNomSpace, tag, List.isPrefixOf]
  have h3 : set (')' :: x) = none := by
    simp [set, skip0, List.dropWhile, isNomSpace, tag, List.isPrefixOf]
  have h4 : exists_ (')' :: x) = none := by
    simp [exists_, skip0, List.dropWhile, isNomSpace]
  have h5 : regex (')' :: x) = none := by simp [regex]
  have hn : negativeNumber (')' :: x) = none := by
    unfold negativeNumber
    split
    · rename_i heq; exact absurd (List.cons.inj heq).1 (by decide)
    · rfl
  have hwd : word (')' :: x) = none := by
    unfold word
    split
    · rename_i heq; exact absurd (List.cons.inj heq).1 (by decide)
    · rename_i heq
      obtain ⟨rfl, rfl⟩ := List.cons.inj heq
      simp [escapeInWord]
    · rename_i heq; cases heq
  have hst : simpleTerm (')' :: x) = none := by
    unfold simpleTerm
    rw [hn]
    simp only
    split
    · rename_i heq; exact absurd (List.cons.inj heq).1 (by decide)
    · rename_i heq; exact absurd (List.cons.inj heq).1 (by decide)
    · simp [hwd]
  have h6 : termOrPhrase (')' :: x) = none := by
    simp [termOrPhrase, hst]
  simp [plainLiteral, h1, h2, h3, h4, h5, h6]

theorem pLeaf_close (g : Bool) (f : Nat) (x : Str) : pLeaf g (f + 1) (')' :: x) = .fail := by
  unfold pLeaf
  simp [R.orElse, tag, List.isPrefixOf, plainLiteral_close, fieldName, specialChars]

theorem pOperands_close (g : Bool) (f : Nat) (x : Str) :
    pOperands g (f + 3) (')' :: x) = .ok [] (')' :: x) := by
  have h : pOccurLeaf g (f + 2) (')' :: x) = .fail := by
    unfold pOccurLeaf
    simp [occurSymbol, pLeaf_close, R.bind]
  unfold pOperands
  simp [binaryOperand, tag, List.isPrefixOf, skip0, List.dropWhile, isNomSpace, h]

theorem pOperands_end (g : Bool) (f : Nat) (tail : Str) (h : EndTail tail) :
    pOperands g (f + 3) tail = .ok [] tail := by
  rcases h with rfl | ⟨x, rfl⟩
  · exact pOperands_nil g f
  · exact pOperands_close g f x

/-- the operand texts after the first one parse back to their items -/
theorem pOperands_print (g : Bool) (more : List PItem) (k : Nat) (tail : Str) (ht : EndTail tail)
    (hw : ∀ it ∈ more, GoodItem g it.opd) :
    ∀ f, needRest more ≤ f →
      pOperands g f (skip0 (printRest more k tail)) = .ok (more.map itemOf) tail := by
  induction more with
  | nil =>
    intro f hf
    obtain ⟨f', rfl⟩ : ∃ f', f = f' + 3 := ⟨f - 3, by simp [needRest] at hf; omega⟩
    simp only [printRest, skip0_spaces_tail k tail ht, List.map_nil]
    exact pOperands_end g f' tail ht
  | cons it rest ih =>
    intro f hf
    have hwi := hw it (by simp)
    have hwr : ∀ x ∈ rest, GoodItem g x.opd := fun x hx => hw x (List.mem_cons_of_mem _ hx)
    simp only [needRest] at hf
    obtain ⟨f', rfl⟩ : ∃ f', f = f' + 1 := ⟨f - 1, by omega⟩
    have hn3 := needRest_ge rest
    have hfr : needRest rest ≤ f' := by omega
    have hrem := rem_printRest g rest k tail ht hwr
    obtain ⟨c, r, hcr, hsp, _, hpl, hmi, _⟩ := hwi.head
    rw [skip0_printRest_cons g it rest k tail hwi]
    have hbin : binaryOperand (itemText it ++ printRest rest k tail)
        = (it.op, (if it.op.isSome then spaces it.sp2 else []) ++ (markText it.occ ++ (it.opd.text ++ printRest rest k tail))) := by
      unfold itemText
      cases hop : it.op with
      | some o => cases o <;> simp [opText, binaryOperand, tag, List.isPrefixOf]
      | none =>
        cases hocc : it.occ with
        | none => simpa [opText, markText] using hwi.noOp (printRest rest k tail) hrem
        | some o =>
          cases o with
          | should => simpa [opText, markText] using hwi.noOp (printRest rest k tail) hrem
          | must => simp [opText, markText, binaryOperand, tag, List.isPrefixOf]
          | mustNot => simp [opText, markText, binaryOperand, tag, List.isPrefixOf]
    have hx : ∀ c' r', markText it.occ ++ (it.opd.text ++ printRest rest k tail) = c' :: r' → isNomSpace c' = false := by
      intro c' r' h'
      rw [hcr] at h'
      cases hocc : it.occ with
      | none =>
        simp only [hocc, markText, List.nil_append, List.cons_append, List.cons.injEq] at h'
        rw [← h'.1]; exact hsp
      | some o =>
        cases o <;> simp only [hocc, markText, List.nil_append, List.cons_append, List.cons.injEq] at h'
        · rw [← h'.1]; exact hsp
        · rw [← h'.1]; decide
        · rw [← h'.1]; decide
    have hskip : skip0 ((if it.op.isSome then spaces it.sp2 else []) ++ (markText it.occ ++ (it.opd.text ++ printRest rest k tail)))
        = markText it.occ ++ (it.opd.text ++ printRest rest k tail) := by
      cases hs : it.op.isSome
      · simp only [Bool.false_eq_true, if_false, List.nil_append]
        have := skip0_spaces 0 _ hx
        simpa [spaces] using this
      · simp only [if_true]
        exact skip0_spaces _ _ hx
    have hocc := pOccurLeaf_good g it.opd hwi it.occ (printRest rest k tail) hrem f' (by omega)
    have hrec := ih hwr f' hfr
    unfold pOperands
    simp only [hbin, hskip, hocc, hrec]
    simp [itemOf]

theorem skip1_space (t : Str) : skip1 (' ' :: t) = some (skip0 (' ' :: t)) := by
  simp [skip1, skip0, isNomSpace]

theorem skip1_close (x : Str) : skip1 (')' :: x) = none := by
  simp [skip1, isNomSpace]

theorem skip0_printList (g : Bool) (lead : Nat) (occ : Option Occur) (o : Opd) (ho : GoodItem g o) (t : Str) :
    skip0 (spaces lead ++ (markText occ ++ (o.text ++ t))) = markText occ ++ (o.text ++ t) := by
  obtain ⟨c, r, hcr, hsp, _⟩ := ho.head
  apply skip0_spaces
  intro c' r' h'
  rw [hcr] at h'
  cases occ with
  | none =>
    simp only [markText, List.nil_append, List.cons_append, List.cons.injEq] at h'
    rw [← h'.1]; exact hsp
  | some oc =>
    cases oc <;> simp only [markText, List.nil_append, List.cons_append, List.cons.injEq] at h'
    · rw [← h'.1]; exact hsp
    · rw [← h'.1]; decide
    · rw [← h'.1]; decide

theorem listTree_eq (occ : Option Occur) (o : Opd) (more : List PItem) :
    strictAst (normOcc occ, o.leaf) (more.map itemOf) = .ok (listTree occ o more) := by
  unfold listTree
  cases more with
  | nil => simp [strictAst]
  | cons it rest =>
    obtain ⟨t, ht⟩ := strictFold_ok (normOcc occ, o.leaf) ((it :: rest).map itemOf)
    have : strictAst (normOcc occ, o.leaf) ((it :: rest).map itemOf) = .ok t := by
      simpa [strictAst] using ht
    rw [this]

/-- **print/parse for operand lists**: the printed list parses to the fold of its items and
    leaves exactly `tail` -/
theorem pAst_print (g : Bool) (lead : Nat) (occ : Option Occur) (o : Opd) (more : List PItem) (k : Nat)
    (tail : Str) (ht : EndTail tail) (ho : GoodItem g o) (hm : ∀ it ∈ more, GoodItem g it.opd)
    (f : Nat) (hf : o.cost + needRest more + 2 ≤ f) :
    pAst g f (printList lead occ o more k tail) = .ok (listTree occ o more) tail := by
  have hneed : 3 ≤ needRest more := needRest_ge more
  obtain ⟨f', rfl⟩ : ∃ f', f = f' + 1 := ⟨f - 1, by omega⟩
  have hrem := rem_printRest g more k tail ht hm
  have hocc := pOccurLeaf_good g o ho occ (printRest more k tail) hrem f' (by omega)
  have hsk := skip0_printList g lead occ o ho (printRest more k tail)
  have htree := listTree_eq occ o more
  show pAst g (f' + 1) (spaces lead ++ (markText occ ++ (o.text ++ printRest more k tail))) = _
  unfold pAst
  rw [hsk, hocc]
  simp only [R.bind]
  cases more with
  | nil =>
    simp only [List.map_nil, strictAst] at htree
    have htr : listTree occ o [] = (if normOcc occ = some .mustNot then o.leaf.unary .mustNot else o.leaf) := by
      simp [listTree, strictAst]
    obtain ⟨f'', rfl⟩ : ∃ f'', f' = f'' + 3 := ⟨f' - 3, by omega⟩
    cases k with
    | zero =>
      have e : printRest [] 0 tail = tail := by simp [printRest, spaces]
      rw [e]
      rcases ht with rfl | ⟨x, rfl⟩
      · simp [skip1, skip0, htr]
      · simp [skip1_close, skip0, List.dropWhile, isNomSpace, htr]
    | succ k =>
      have e : printRest [] (k + 1) tail = ' ' :: (spaces k ++ tail) := by simp [printRest, spaces, List.replicate_succ]
      have e2 : skip0 (' ' :: (spaces k ++ tail)) = tail := by
        have := skip0_spaces_tail (k + 1) tail ht
        simpa [spaces, List.replicate_succ] using this
      rw [e, skip1_space, e2]
      simp only [pOperands_end g f'' tail ht, e2, htr]
  | cons it rest =>
    have e : printRest (it :: rest) k tail = ' ' :: (spaces it.sp1 ++ (itemText it ++ printRest rest k tail)) := rfl
    have hp := pOperands_print g (it :: rest) k tail ht hm f' (by omega)
    have hst : strictFold (normOcc occ, o.leaf) ((it :: rest).map itemOf) = .ok (listTree occ o (it :: rest)) := by
      simpa [strictAst] using htree
    rw [e, skip1_space, ← e]
    simp only [hp]
    simp only [List.map_cons] at hst ⊢
    have hend : skip0 tail = tail := by
      have := skip0_spaces_tail 0 tail ht
      simpa [spaces] using this
    simp [hst, hend]

end TantivyModel.Grammar.Chars
