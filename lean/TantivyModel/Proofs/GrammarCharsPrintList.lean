import TantivyModel.Proofs.GrammarCharsRem
import TantivyModel.Model.Grammar.Printer
import TantivyModel.Proofs.Grammar
namespace TantivyModel.Grammar.Chars
open TantivyModel.Grammar

/-! ## printing operand lists of plain words, and parsing them back -/

theorem skip0_spaces (n : Nat) (x : Str) (hx : ∀ c r, x = c :: r → isNomSpace c = false) :
    skip0 (spaces n ++ x) = x := by
  induction n with
  | zero =>
    cases x with
    | nil => rfl
    | cons c r => simp [spaces, skip0, List.dropWhile, hx c r rfl]
  | succ n ih =>
    have : spaces (n + 1) ++ x = ' ' :: (spaces n ++ x) := by simp [spaces, List.replicate_succ]
    rw [this]
    have e : skip0 (' ' :: (spaces n ++ x)) = skip0 (spaces n ++ x) := by
      simp [skip0, List.dropWhile, isNomSpace]
    rw [e, ih]

theorem skip0_spaces_nil (n : Nat) : skip0 (spaces n) = [] := by
  have := skip0_spaces n [] (by intro c r h; cases h)
  simpa using this

/-- the first character of an operand's text is not a blank and not a colon -/
theorem itemText_head (it : PItem) (hw : PlainWord it.word) :
    ∃ c r, itemText it = c :: r ∧ isNomSpace c = false ∧ c ≠ ':' := by
  obtain ⟨c, r, hcr⟩ := List.exists_cons_of_ne_nil hw.ne
  have hc : plain c = true := hw.all c (by rw [hcr]; simp)
  unfold itemText
  cases hop : it.op with
  | some o =>
    cases o with
    | and => exact ⟨'A', 'N' :: 'D' :: ' ' :: (spaces it.sp2 ++ (markText it.occ ++ it.word)), by simp [opText], by decide, by decide⟩
    | or => exact ⟨'O', 'R' :: ' ' :: (spaces it.sp2 ++ (markText it.occ ++ it.word)), by simp [opText], by decide, by decide⟩
  | none =>
    cases hocc : it.occ with
    | none => exact ⟨c, r, by simp [opText, markText, hcr], (plain_not_space c hc).2, plain_ne c ':' hc (by decide)⟩
    | some o =>
      cases o with
      | should => exact ⟨c, r, by simp [opText, markText, hcr], (plain_not_space c hc).2, plain_ne c ':' hc (by decide)⟩
      | must => exact ⟨'+', it.word, by simp [opText, markText], by decide, by decide⟩
      | mustNot => exact ⟨'-', it.word, by simp [opText, markText], by decide, by decide⟩

theorem skip0_printRest_cons (it : PItem) (more : List PItem) (k : Nat) (hw : PlainWord it.word) :
    skip0 (printRest (it :: more) k) = itemText it ++ printRest more k := by
  obtain ⟨c, r, hcr, hsp, _⟩ := itemText_head it hw
  have e : skip0 (' ' :: (spaces it.sp1 ++ (itemText it ++ printRest more k)))
      = skip0 (spaces it.sp1 ++ (itemText it ++ printRest more k)) := by
    simp [skip0, List.dropWhile, isNomSpace]
  show skip0 (' ' :: (spaces it.sp1 ++ (itemText it ++ printRest more k))) = _
  rw [e, skip0_spaces]
  intro c' r' h'
  rw [hcr] at h'
  simp only [List.cons_append, List.cons.injEq] at h'
  rw [← h'.1]
  exact hsp

/-- what follows a word in a printed operand list never makes it a field name -/
theorem rem_printRest (more : List PItem) (k : Nat) (hw : ∀ it ∈ more, PlainWord it.word) :
    Rem (printRest more k) := by
  cases more with
  | nil =>
    cases k with
    | zero => exact Or.inl rfl
    | succ k =>
      refine Or.inr ⟨spaces k, by simp [printRest, spaces, List.replicate_succ], ?_⟩
      intro r' h
      rw [skip0_spaces_nil] at h
      cases h
  | cons it rest =>
    refine Or.inr ⟨spaces it.sp1 ++ (itemText it ++ printRest rest k), rfl, ?_⟩
    obtain ⟨c, r, hcr, hsp, hcol⟩ := itemText_head it (hw it (by simp))
    intro r' h
    rw [skip0_spaces] at h
    · rw [hcr] at h
      simp only [List.cons_append, List.cons.injEq] at h
      exact hcol h.1
    · intro c' r'' h'
      rw [hcr] at h'
      simp only [List.cons_append, List.cons.injEq] at h'
      rw [← h'.1]
      exact hsp

theorem tag_kwspace_none (ks w t : Str) (hks : ks ∈ keywords) (hw : PlainWord w) (ht : Rem t) :
    tag (ks ++ [' ']) (w ++ t) = none := by
  unfold tag
  split
  · rename_i hp
    exact absurd (prefix_space_false ks w t (keyword_plain ks hks) hw.all ht hp)
      (plainWord_ne_keyword w ks hw hks)
  · rfl

theorem binaryOperand_word (w t : Str) (hw : PlainWord w) (ht : Rem t) :
    binaryOperand (w ++ t) = (none, w ++ t) := by
  have h1 := tag_kwspace_none ['A', 'N', 'D'] w t (by simp [keywords]) hw ht
  have h2 := tag_kwspace_none ['O', 'R'] w t (by simp [keywords]) hw ht
  simp only [List.cons_append, List.nil_append] at h1 h2
  simp [binaryOperand, h1, h2]

theorem plainLiteral_nil (g : Bool) : plainLiteral g [] = .fail := by rfl

theorem pLeaf_nil (g : Bool) (f : Nat) : pLeaf g (f + 1) [] = .fail := by
  unfold pLeaf
  simp [R.orElse, tag, List.isPrefixOf, plainLiteral_nil, fieldName]

theorem pOccurLeaf_nil (g : Bool) (f : Nat) : pOccurLeaf g (f + 2) [] = .fail := by
  unfold pOccurLeaf
  simp [occurSymbol, pLeaf_nil, R.bind]

theorem pOperands_nil (g : Bool) (f : Nat) : pOperands g (f + 3) [] = .ok [] [] := by
  unfold pOperands
  simp [binaryOperand, tag, List.isPrefixOf, skip0, pOccurLeaf_nil]

/-- the operand texts after the first one parse back to their items -/
theorem pOperands_print (g : Bool) (more : List PItem) (k : Nat)
    (hw : ∀ it ∈ more, PlainWord it.word) :
    ∀ f, more.length + 3 ≤ f →
      pOperands g f (skip0 (printRest more k)) = .ok (more.map itemOf) [] := by
  induction more with
  | nil =>
    intro f hf
    obtain ⟨f', rfl⟩ : ∃ f', f = f' + 3 := ⟨f - 3, by simp at hf; omega⟩
    simp only [printRest, skip0_spaces_nil, List.map_nil]
    exact pOperands_nil g f'
  | cons it rest ih =>
    intro f hf
    have hwi := hw it (by simp)
    have hwr : ∀ x ∈ rest, PlainWord x.word := fun x hx => hw x (List.mem_cons_of_mem _ hx)
    obtain ⟨f'', rfl⟩ : ∃ f'', f = f'' + 3 := ⟨f - 3, by simp at hf; omega⟩
    have hfr : rest.length + 3 ≤ f'' + 2 := by simp at hf; omega
    have ht := rem_printRest rest k hwr
    obtain ⟨c, r, hcr⟩ := List.exists_cons_of_ne_nil hwi.ne
    have hpw : PlainWord (c :: r) := hcr ▸ hwi
    rw [skip0_printRest_cons it rest k hwi]
    -- after the operator keyword and its blanks: marker, word, the rest
    have hbin : binaryOperand (itemText it ++ printRest rest k)
        = (it.op, (if it.op.isSome then spaces it.sp2 else []) ++ (markText it.occ ++ (it.word ++ printRest rest k))) := by
      unfold itemText
      cases hop : it.op with
      | some o => cases o <;> simp [opText, binaryOperand, tag, List.isPrefixOf]
      | none =>
        cases hocc : it.occ with
        | none =>
          simpa [opText, markText] using binaryOperand_word it.word (printRest rest k) hwi ht
        | some o =>
          cases o with
          | should => simpa [opText, markText] using binaryOperand_word it.word (printRest rest k) hwi ht
          | must => simp [opText, markText, binaryOperand, tag, List.isPrefixOf]
          | mustNot => simp [opText, markText, binaryOperand, tag, List.isPrefixOf]
    have hskip : skip0 ((if it.op.isSome then spaces it.sp2 else []) ++ (markText it.occ ++ (it.word ++ printRest rest k)))
        = markText it.occ ++ (c :: (r ++ printRest rest k)) := by
      have hx : ∀ c' r', markText it.occ ++ (it.word ++ printRest rest k) = c' :: r' → isNomSpace c' = false := by
        intro c' r' h'
        rw [hcr] at h'
        cases hocc : it.occ with
        | none =>
          simp only [hocc, markText, List.nil_append, List.cons_append, List.cons.injEq] at h'
          rw [← h'.1]; exact (plain_not_space c (hpw.all c (by simp))).2
        | some o =>
          cases o <;> simp only [hocc, markText, List.nil_append, List.cons_append, List.cons.injEq] at h'
          · rw [← h'.1]; exact (plain_not_space c (hpw.all c (by simp))).2
          · rw [← h'.1]; decide
          · rw [← h'.1]; decide
      have base : skip0 (markText it.occ ++ (it.word ++ printRest rest k)) = markText it.occ ++ (it.word ++ printRest rest k) := by
        have := skip0_spaces 0 _ hx
        simpa [spaces] using this
      cases hs : it.op.isSome
      · simp only [Bool.false_eq_true, if_false, List.nil_append]
        rw [base, hcr]
        simp
      · simp only [if_true]
        rw [skip0_spaces _ _ hx, hcr]
        simp
    have hocc := pOccurLeaf_rem c r (printRest rest k) hpw ht g f'' it.occ
    have hrec := ih hwr (f'' + 2) hfr
    show pOperands g (f'' + 2 + 1) (itemText it ++ printRest rest k) = _
    unfold pOperands
    simp only [hbin, hskip]
    have hocc' : pOccurLeaf g (f'' + 2) (markText it.occ ++ c :: (r ++ printRest rest k))
        = .ok (normOcc it.occ, leafOf (c :: r)) (printRest rest k) := by
      cases ho : it.occ with
      | none => simpa [ho, markText, normOcc, leafOf] using hocc
      | some o => cases o <;> simpa [ho, markText, normOcc, leafOf] using hocc
    rw [hocc']
    simp only [hrec]
    simp [itemOf, hcr]

theorem skip1_space (t : Str) : skip1 (' ' :: t) = some (skip0 (' ' :: t)) := by
  simp [skip1, skip0, isNomSpace]

theorem skip0_printList (lead : Nat) (occ : Option Occur) (c : Char) (r : Str) (t : Str)
    (hc : plain c = true) :
    skip0 (spaces lead ++ (markText occ ++ (c :: r ++ t))) = markText occ ++ (c :: (r ++ t)) := by
  have hx : ∀ c' r', markText occ ++ (c :: r ++ t) = c' :: r' → isNomSpace c' = false := by
    intro c' r' h'
    cases occ with
    | none =>
      simp only [markText, List.nil_append, List.cons_append, List.cons.injEq] at h'
      rw [← h'.1]; exact (plain_not_space c hc).2
    | some o =>
      cases o <;> simp only [markText, List.nil_append, List.cons_append, List.cons.injEq] at h'
      · rw [← h'.1]; exact (plain_not_space c hc).2
      · rw [← h'.1]; decide
      · rw [← h'.1]; decide
  rw [skip0_spaces _ _ hx]
  simp

/-- **print/parse for operand lists**: the text of `[+|-]w₀ ([AND |OR ][+|-]wᵢ)*` with any number
    of blanks before, between and after the operands parses to the fold of its items -/
theorem pAst_print (g : Bool) (lead : Nat) (occ : Option Occur) (w : Str) (more : List PItem) (k : Nat)
    (hw : PlainWord w) (hm : ∀ it ∈ more, PlainWord it.word) (f : Nat) (hf : more.length + 4 ≤ f) :
    ∃ t, strictAst (normOcc occ, leafOf w) (more.map itemOf) = .ok t
      ∧ pAst g f (printList lead occ w more k) = .ok t [] := by
  obtain ⟨f'', rfl⟩ : ∃ f'', f = f'' + 4 := ⟨f - 4, by omega⟩
  obtain ⟨c, r, rfl⟩ := List.exists_cons_of_ne_nil hw.ne
  have hc : plain c = true := hw.all c (by simp)
  have ht := rem_printRest more k hm
  have hocc : pOccurLeaf g (f'' + 3) (markText occ ++ c :: (r ++ printRest more k))
      = .ok (normOcc occ, leafOf (c :: r)) (printRest more k) := by
    have h0 := pOccurLeaf_rem c r (printRest more k) hw ht g (f'' + 1) occ
    cases ho : occ with
    | none => simpa [ho, markText, normOcc, leafOf] using h0
    | some o => cases o <;> simpa [ho, markText, normOcc, leafOf] using h0
  have hsk := skip0_printList lead occ c r (printRest more k) hc
  show ∃ t, _ ∧ pAst g (f'' + 3 + 1) (spaces lead ++ (markText occ ++ (c :: r ++ printRest more k))) = .ok t []
  unfold pAst
  rw [hsk, hocc]
  simp only [R.bind]
  cases more with
  | nil =>
    refine ⟨_, rfl, ?_⟩
    cases k with
    | zero => simp [printRest, spaces, skip1, skip0]
    | succ k =>
      have e : printRest [] (k + 1) = ' ' :: spaces k := by simp [printRest, spaces, List.replicate_succ]
      have e2 : skip0 (' ' :: spaces k) = [] := by
        have := skip0_spaces_nil (k + 1)
        simpa [spaces, List.replicate_succ] using this
      rw [e, skip1_space, e2]
      simp only [pOperands_nil g f'', e2]
  | cons it rest =>
    obtain ⟨t, hst⟩ := strictFold_ok (normOcc occ, leafOf (c :: r)) ((it :: rest).map itemOf)
    refine ⟨t, by simpa [strictAst] using hst, ?_⟩
    have e : printRest (it :: rest) k = ' ' :: (spaces it.sp1 ++ (itemText it ++ printRest rest k)) := rfl
    have hp := pOperands_print g (it :: rest) k hm (f'' + 3) (by simp at hf ⊢; omega)
    rw [e, skip1_space, ← e]
    simp only [hp]
    simp only [List.map_cons] at hst ⊢
    simp [hst, skip0]

theorem printRest_length (more : List PItem) (k : Nat) : more.length ≤ (printRest more k).length := by
  induction more with
  | nil => simp
  | cons it rest ih =>
    simp only [printRest, List.length_cons, List.length_append]
    omega

/-- the whole strict parser on a printed operand list of plain words, for every layout choice -/
theorem parseStrictWith_print (g : Bool) (lead : Nat) (occ : Option Occur) (w : Str)
    (more : List PItem) (k : Nat) (hw : PlainWord w) (hm : ∀ it ∈ more, PlainWord it.word) :
    ∃ t, strictAst (normOcc occ, leafOf w) (more.map itemOf) = .ok t
      ∧ parseStrictWith g (printList lead occ w more k) = .tree (rewrite t) := by
  obtain ⟨c, r, rfl⟩ := List.exists_cons_of_ne_nil hw.ne
  have hc : plain c = true := hw.all c (by simp)
  have hlen : more.length + 4 ≤ 8 * (printList lead occ (c :: r) more k).length + 16 := by
    have := printRest_length more k
    simp only [printList, List.length_append, List.length_cons]
    omega
  have hsk : skip0 (printList lead occ (c :: r) more k) = printList 0 occ (c :: r) more k := by
    have := skip0_printList lead occ c r (printRest more k) hc
    simpa [printList, spaces] using this
  obtain ⟨t, hst, hp⟩ := pAst_print g 0 occ (c :: r) more k hw hm _ hlen
  refine ⟨t, hst, ?_⟩
  unfold parseStrictWith
  simp only [hsk, hp]

end TantivyModel.Grammar.Chars
