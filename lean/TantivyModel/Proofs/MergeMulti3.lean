import TantivyModel.Proofs.MergeMulti2
/-! the invariant of `SysM` (any number of merges in flight) and its preservation -/
namespace TantivyModel.Merge

def allEntries (st : State) : List Entry := st.uncommitted ++ st.committed ++ st.published

structure InvM (s : SysM) : Prop where
  base : Inv (s.view none)
  each : ∀ r ∈ s.running, Inv (s.view (some r))
  fresh : ∀ r ∈ s.running, ∀ m ∈ r.merged.toList, m.segId < s.nextId ∧
    ∀ e ∈ allEntries s.st, e.segId ≠ m.segId
  srclt : ∀ r ∈ s.running, ∀ id ∈ r.sources, id < s.nextId
  notsrc : ∀ r ∈ s.running, ∀ r' ∈ s.running, ∀ m ∈ r.merged.toList, m.segId ∉ r'.sources
  distinct : s.running.Pairwise fun r r' =>
    ∀ m ∈ r.merged.toList, ∀ m' ∈ r'.merged.toList, m.segId ≠ m'.segId

def RelM (s : SysM) (a : Abs) : Prop := Rel (s.view none) a

/-- ids after a plain event: old ids, or the id the event drew from the id source -/
theorem plain_ids (s : Sys) (ev : Ev) (h : isPlain ev = true) :
    s.nextId ≤ (s.step ev).nextId ∧
    ∀ e ∈ allEntries (s.step ev).st,
      (∃ e0 ∈ allEntries s.st, e0.segId = e.segId) ∨ (e.segId = s.nextId ∧ s.nextId < (s.step ev).nextId) := by
  cases ev with
  | startMerge ids => simp [isPlain] at h
  | startMergeExplicit ids => simp [isPlain] at h
  | endMerge => simp [isPlain] at h
  | addSeg docs =>
    refine ⟨Nat.le_succ _, ?_⟩
    intro e he
    simp only [allEntries, Sys.step, List.mem_append, List.mem_singleton] at he
    rcases he with ((he | rfl) | he) | he
    · exact Or.inl ⟨e, by simp [allEntries, he], rfl⟩
    · exact Or.inr ⟨rfl, Nat.lt_succ_self _⟩
    · exact Or.inl ⟨e, by simp [allEntries, he], rfl⟩
    · exact Or.inl ⟨e, by simp [allEntries, he], rfl⟩
  | delete key =>
    refine ⟨Nat.le_refl _, fun e he => Or.inl ⟨e, he, rfl⟩⟩
  | commit =>
    refine ⟨Nat.le_refl _, ?_⟩
    intro e he
    simp only [allEntries, Sys.step, commit, List.nil_append, List.mem_append, List.mem_map] at he
    have hx : ∃ e0, (e0 ∈ s.st.uncommitted ∨ e0 ∈ s.st.committed) ∧ advance s.st.queue e0 s.stamp = e := by
      rcases he with he | he <;> exact he
    obtain ⟨e0, he0, rfl⟩ := hx
    exact Or.inl ⟨e0, by
      simp only [allEntries, List.mem_append]
      exact Or.inl he0, rfl⟩
  | rollback =>
    refine ⟨Nat.le_refl _, ?_⟩
    intro e he
    simp only [allEntries, Sys.step, rollback, List.nil_append, List.mem_append, List.mem_map] at he
    rcases he with ⟨e0, he0, rfl⟩ | he
    · exact Or.inl ⟨e0, by simp [allEntries, he0], rfl⟩
    · exact Or.inl ⟨e, by simp [allEntries, he], rfl⟩
  | deleteAll =>
    refine ⟨Nat.le_refl _, ?_⟩
    intro e he
    simp only [allEntries, Sys.step, deleteAll, List.nil_append] at he
    exact Or.inl ⟨e, by simp [allEntries, he], rfl⟩
  | removeEmpty =>
    refine ⟨Nat.le_refl _, ?_⟩
    intro e he
    simp only [allEntries, Sys.step, removeEmpty, List.mem_append, List.mem_filter] at he
    rcases he with (he | he) | he
    · exact Or.inl ⟨e, by simp [allEntries, he], rfl⟩
    · exact Or.inl ⟨e, by simp [allEntries, he.1], rfl⟩
    · exact Or.inl ⟨e, by simp [allEntries, he.1], rfl⟩

theorem reconcile_segId (st : State) (m : Entry) : (reconcile st m).segId = m.segId := by
  unfold reconcile
  split
  · split <;> rfl
  · rfl

/-- ids after the end of a merge: old ids, or the id of its merged entry -/
theorem endMerge_ids (st : State) (r : Running) :
    ∀ e ∈ allEntries (endMerge st r),
      (∃ e0 ∈ allEntries st, e0.segId = e.segId) ∨ ∃ m ∈ r.merged.toList, e.segId = m.segId := by
  have hm : ∀ e ∈ (r.merged.map (reconcile st)).toList, ∃ m ∈ r.merged.toList, e.segId = m.segId := by
    intro e he
    rw [toList_map] at he
    obtain ⟨m, hm, rfl⟩ := List.mem_map.1 he
    exact ⟨m, hm, reconcile_segId st m⟩
  intro e he
  by_cases hep : r.epoch = st.epoch
  · by_cases hu : containsAll st.uncommitted r.sources = true
    · rw [endMerge_unc st r hep hu] at he
      simp only [allEntries, List.mem_append] at he
      rcases he with (he | he) | he
      · rcases mem_swapIn _ _ _ _ he with ⟨h1, _⟩ | h1
        · exact Or.inl ⟨e, by simp [allEntries, h1], rfl⟩
        · exact Or.inr (hm e h1)
      · exact Or.inl ⟨e, by simp [allEntries, he], rfl⟩
      · exact Or.inl ⟨e, by simp [allEntries, he], rfl⟩
    · have hu' := bool_false_of_not_true hu
      by_cases hc : containsAll st.committed r.sources = true
      · rw [endMerge_com st r hep hu' hc] at he
        simp only [allEntries, List.mem_append] at he
        rcases he with (he | he) | he
        · exact Or.inl ⟨e, by simp [allEntries, he], rfl⟩
        · rcases mem_swapIn _ _ _ _ he with ⟨h1, _⟩ | h1
          · exact Or.inl ⟨e, by simp [allEntries, h1], rfl⟩
          · exact Or.inr (hm e h1)
        · rcases mem_swapIn _ _ _ _ he with ⟨h1, _⟩ | h1
          · exact Or.inl ⟨e, by simp [allEntries, h1], rfl⟩
          · exact Or.inr (hm e h1)
      · have hst : endMerge st r = st :=
          endMergeWith_discard_missing true st r hu' (bool_false_of_not_true hc)
        rw [hst] at he
        exact Or.inl ⟨e, he, rfl⟩
  · have hst : endMerge st r = st := endMergeWith_discard_epoch true st r hep
    rw [hst] at he
    exact Or.inl ⟨e, he, rfl⟩

theorem inv_set_running (s : Sys) (hI : Inv { s with running := none }) (r : Running)
    (hle : r.epoch ≤ s.st.epoch) (hrun : r.epoch = s.st.epoch → RunInv s r) :
    Inv { s with running := some r } :=
  { ops_lt := hI.ops_lt, c_lt := hI.c_lt, ops_ne := hI.ops_ne, wf := hI.wf, pwf := hI.pwf,
    comD1 := hI.comD1, comD2 := hI.comD2, pubE := hI.pubE, ids := hI.ids, pids := hI.pids,
    repoch := fun r' hr' => by
      simp only [Option.some.injEq] at hr'; subst hr'; exact hle,
    run := fun r' hr' hep => by
      simp only [Option.some.injEq] at hr'; subst hr'
      have h := hrun hep
      exact ⟨h.srcs_ne, h.srcs_lt, h.mwf, h.pendAll, h.pubC⟩ }

theorem invM_init : InvM SysM.init :=
  { base := inv_init, each := fun r h => by simp [SysM.init] at h,
    fresh := fun r h => by simp [SysM.init] at h, srclt := fun r h => by simp [SysM.init] at h,
    notsrc := fun r h => by simp [SysM.init] at h, distinct := by simp [SysM.init] }

end TantivyModel.Merge
