import TantivyModel.Proofs.GrammarChars
namespace TantivyModel.Grammar.Chars
open TantivyModel.Grammar

/-- ASCII letters and digits -/
def plain (c : Char) : Bool :=
  let n := c.toNat
  (48 ≤ n && n ≤ 57) || (65 ≤ n && n ≤ 90) || (97 ≤ n && n ≤ 122)

theorem plain_ne (c d : Char) (hc : plain c = true) (hd : plain d = false) : c ≠ d := by
  intro h; rw [h, hd] at hc; cases hc

theorem plain_not_space (c : Char) (hc : plain c = true) : isUniSpace c = false ∧ isNomSpace c = false := by
  constructor
  · simp only [plain, Bool.or_eq_true, Bool.and_eq_true, decide_eq_true_eq] at hc
    simp only [isUniSpace, Bool.or_eq_false_iff, Bool.and_eq_false_iff, decide_eq_false_iff_not, beq_eq_false_iff_ne, ne_eq]
    omega
  · have h1 := plain_ne c ' ' hc (by decide)
    have h2 := plain_ne c '\t' hc (by decide)
    have h3 := plain_ne c '\r' hc (by decide)
    have h4 := plain_ne c '\n' hc (by decide)
    simp [isNomSpace, h1, h2, h3, h4]

theorem plain_not_special (c : Char) (hc : plain c = true) :
    specialChars.contains c = false ∧ escapeInWord.contains c = false := by
  have ne : ∀ d, plain d = false → c ≠ d := fun d hd => plain_ne c d hc hd
  constructor
  · simp [specialChars, ne '+' (by decide), ne '^' (by decide), ne '`' (by decide), ne ':' (by decide),
      ne '{' (by decide), ne '}' (by decide), ne '"' (by decide), ne '\'' (by decide), ne '[' (by decide),
      ne ']' (by decide), ne '(' (by decide), ne ')' (by decide), ne '!' (by decide), ne '\\' (by decide),
      ne '*' (by decide), ne ' ' (by decide)]
  · simp [escapeInWord, ne '^' (by decide), ne '`' (by decide), ne ':' (by decide),
      ne '{' (by decide), ne '}' (by decide), ne '"' (by decide), ne '\'' (by decide), ne '[' (by decide),
      ne ']' (by decide), ne '(' (by decide), ne ')' (by decide), ne '\\' (by decide)]

theorem wordRest_plain (w : Str) (hw : ∀ c ∈ w, plain c = true) : wordRest w = (w, []) := by
  induction w with
  | nil => rfl
  | cons c rest ih =>
    have hc := hw c (by simp)
    have hb : c ≠ '\\' := plain_ne c '\\' hc (by decide)
    have ih' := ih (fun d hd => hw d (List.mem_cons_of_mem _ hd))
    have h1 := (plain_not_space c hc).1
    have h2 := (plain_not_special c hc).2
    have h2' : c ∉ escapeInWord := by simpa using h2
    unfold wordRest
    split
    · rename_i heq; cases heq
    · rename_i heq
      exact absurd (List.cons.inj heq).1 hb
    · rename_i heq
      obtain ⟨rfl, rfl⟩ := List.cons.inj heq
      simp [h1, h2', ih']

/-- a word of ASCII letters and digits -/
structure PlainWord (w : Str) : Prop where
  ne : w ≠ []
  all : ∀ c ∈ w, plain c = true
  notKw : keywords.contains w = false

theorem skip0_plain (w : Str) (hw : ∀ c ∈ w, plain c = true) : skip0 w = w := by
  cases w with
  | nil => rfl
  | cons c r => simp [skip0, List.dropWhile, (plain_not_space c (hw c (by simp))).2]

theorem skip1_plain (w : Str) (hw : ∀ c ∈ w, plain c = true) : skip1 w = none := by
  cases w with
  | nil => rfl
  | cons c r => simp [skip1, (plain_not_space c (hw c (by simp))).2]

theorem tag_suffix_plain (t w r : Str) (hw : ∀ c ∈ w, plain c = true) (h : tag t w = some r) :
    ∀ c ∈ r, plain c = true := by
  unfold tag at h
  split at h
  · simp only [Option.some.injEq] at h
    subst h
    intro c hc
    exact hw c (List.mem_of_mem_drop hc)
  · cases h

theorem tag_head_ne (a : Char) (t : Str) (c : Char) (w : Str) (h : c ≠ a) : tag (a :: t) (c :: w) = none := by
  have : (a == c) = false := by simp [Ne.symm h]
  simp [tag, List.isPrefixOf, this]

theorem word_plain (w : Str) (h : PlainWord w) : word w = some (w, []) := by
  obtain ⟨c, r, rfl⟩ := List.exists_cons_of_ne_nil h.ne
  have hc := h.all c (by simp)
  have hb : c ≠ '\\' := plain_ne c '\\' hc (by decide)
  have hm : c ≠ '-' := plain_ne c '-' hc (by decide)
  have h1 := (plain_not_space c hc).1
  have h2 : c ∉ escapeInWord := by simpa using (plain_not_special c hc).2
  have hr := wordRest_plain r (fun d hd => h.all d (List.mem_cons_of_mem _ hd))
  have hnb : (c :: r).contains '\\' = false := by
    rw [Bool.eq_false_iff]
    intro hcon
    have := List.contains_iff_mem.mp hcon
    have hp := h.all _ this
    exact absurd hp (by decide)
  unfold word
  split
  · rename_i heq
    exact absurd (List.cons.inj heq).1 hb
  · rename_i heq
    obtain ⟨rfl, rfl⟩ := List.cons.inj heq
    have hk : c :: r ∉ keywords := by
      intro hmem
      have := List.contains_iff_mem.mpr hmem
      rw [h.notKw] at this
      cases this
    have hnb' : ¬ ('\\' = c ∨ '\\' ∈ r) := by
      intro hh
      have : '\\' ∈ c :: r := by
        rcases hh with rfl | hh
        · simp
        · exact List.mem_cons_of_mem _ hh
      have := List.contains_iff_mem.mpr this
      rw [hnb] at this
      cases this
    simp [h1, h2, hm, hr, hk, hnb']
  · rename_i heq; cases heq

theorem fieldRest_plain (w : Str) (hw : ∀ d ∈ w, plain d = true) : fieldRest w = (w, []) := by
  induction w with
  | nil => rfl
  | cons d rest ih =>
    have hd := hw d (by simp)
    have hb : d ≠ '\\' := plain_ne d '\\' hd (by decide)
    have hs : d ∉ specialChars := by simpa using (plain_not_special d hd).1
    have ih' := ih (fun e he => hw e (List.mem_cons_of_mem _ he))
    unfold fieldRest
    split
    · rename_i heq; cases heq
    · rename_i heq; exact absurd (List.cons.inj heq).1 hb
    · rename_i heq; exact absurd (List.cons.inj heq).1 hb
    · rename_i heq
      obtain ⟨rfl, rfl⟩ := List.cons.inj heq
      simp [hs, ih']

section
variable (c : Char) (r : Str) (h : PlainWord (c :: r))
include h

theorem pw_head : plain c = true := h.all c (by simp)
theorem pw_tail : ∀ d ∈ r, plain d = true := fun d hd => h.all d (List.mem_cons_of_mem _ hd)

theorem negativeNumber_plain : negativeNumber (c :: r) = none := by
  have hm : c ≠ '-' := plain_ne c '-' (pw_head c r h) (by decide)
  unfold negativeNumber
  split
  · rename_i heq; exact absurd (List.cons.inj heq).1 hm
  · rfl

theorem fieldName_plain : fieldName (c :: r) = none := by
  have hc := pw_head c r h
  have hs : c ∉ specialChars := by simpa using (plain_not_special c hc).1
  have hm : c ≠ '-' := plain_ne c '-' hc (by decide)
  simp [fieldName, hs, hm, fieldRest_plain r (pw_tail c r h), skip0]

theorem range_plain : range (c :: r) = none := by
  have hc := pw_head c r h
  have ne : ∀ d, plain d = false → c ≠ d := fun d hd => plain_ne c d hc hd
  have hsk : skip0 (c :: r) = c :: r := skip0_plain _ h.all
  simp [range, hsk, tag_head_ne _ _ _ _ (ne '>' (by decide)), tag_head_ne _ _ _ _ (ne '<' (by decide)),
    ne '{' (by decide), ne '[' (by decide)]

theorem set_plain : set (c :: r) = none := by
  have hsk : skip0 (c :: r) = c :: r := skip0_plain _ h.all
  unfold set
  rw [hsk]
  cases ht : tag ['I', 'N'] (c :: r) with
  | none => rfl
  | some rest =>
    have := skip1_plain rest (tag_suffix_plain _ _ _ h.all ht)
    simp [this]

theorem exists_plain : exists_ (c :: r) = none := by
  have hsk : skip0 (c :: r) = c :: r := skip0_plain _ h.all
  have hne : c ≠ '*' := plain_ne c '*' (pw_head c r h) (by decide)
  unfold exists_
  rw [hsk]
  split
  · rename_i heq; exact absurd (List.cons.inj heq).1 hne
  · rfl

theorem regex_plain : regex (c :: r) = none := by
  have hne : c ≠ '/' := plain_ne c '/' (pw_head c r h) (by decide)
  unfold regex
  split
  · rename_i heq; exact absurd (List.cons.inj heq).1 hne
  · rfl

theorem simpleTerm_plain : simpleTerm (c :: r) = some ((.none, c :: r), []) := by
  have hc := pw_head c r h
  have h1 : c ≠ '\'' := plain_ne c '\'' hc (by decide)
  have h2 : c ≠ '"' := plain_ne c '"' hc (by decide)
  unfold simpleTerm
  rw [negativeNumber_plain c r h]
  simp only
  split
  · rename_i heq; exact absurd (List.cons.inj heq).1 h1
  · rename_i heq; exact absurd (List.cons.inj heq).1 h2
  · simp [word_plain _ h]

theorem termOrPhrase_plain :
    termOrPhrase (c :: r) = some (.literal none (c :: r) .none 0 false, []) := by
  simp [termOrPhrase, simpleTerm_plain c r h, slopOrPrefix]

theorem plainLiteral_plain (g : Bool) :
    plainLiteral g (c :: r) = .ok (.leaf (.literal none (c :: r) .none 0 false)) [] := by
  simp [plainLiteral, fieldName_plain c r h, range_plain c r h, set_plain c r h, exists_plain c r h,
    regex_plain c r h, termOrPhrase_plain c r h, setField]

theorem pLeaf_plain (g : Bool) (f : Nat) :
    pLeaf g (f + 1) (c :: r) = .ok (.leaf (.literal none (c :: r) .none 0 false)) [] := by
  have hc := pw_head c r h
  have h1 : c ≠ '(' := plain_ne c '(' hc (by decide)
  have h2 : c ≠ '*' := plain_ne c '*' hc (by decide)
  unfold pLeaf
  cases ht : tag ['N', 'O', 'T'] (c :: r) with
  | none => simp [h1, h2, R.orElse, plainLiteral_plain c r h g]
  | some rest =>
    simp [h1, h2, R.orElse, skip1_plain rest (tag_suffix_plain _ _ _ h.all ht), plainLiteral_plain c r h g]

theorem pOccurLeaf_plain (g : Bool) (f : Nat) :
    pOccurLeaf g (f + 2) (c :: r) = .ok (none, .leaf (.literal none (c :: r) .none 0 false)) [] := by
  have hc := pw_head c r h
  have h1 : c ≠ '-' := plain_ne c '-' hc (by decide)
  have h2 : c ≠ '+' := plain_ne c '+' hc (by decide)
  have ho : occurSymbol (c :: r) = (none, c :: r) := by
    unfold occurSymbol
    split
    · rename_i heq; exact absurd (List.cons.inj heq).1 h1
    · rename_i heq; exact absurd (List.cons.inj heq).1 h2
    · rfl
  unfold pOccurLeaf
  simp [ho, pLeaf_plain c r h g f, R.bind, boost, applyBoost]

/-- the ∀ form of print/parse at leaf level: every word of ASCII letters and digits that is not a
    keyword parses to the unfielded literal with exactly that text -/
theorem pAst_plain (g : Bool) (f : Nat) :
    pAst g (f + 3) (c :: r) = .ok (.leaf (.literal none (c :: r) .none 0 false)) [] := by
  unfold pAst
  rw [skip0_plain _ h.all, pOccurLeaf_plain c r h g f]
  simp [R.bind, skip1, skip0]

end

/-- the whole strict parser on a plain word (any guard) -/
theorem parseStrictWith_plain (g : Bool) (w : Str) (h : PlainWord w) :
    parseStrictWith g w = .tree (.leaf (.literal none w .none 0 false)) := by
  obtain ⟨c, r, rfl⟩ := List.exists_cons_of_ne_nil h.ne
  have hf : 8 * (c :: r).length + 16 = (8 * (c :: r).length + 13) + 3 := by omega
  unfold parseStrictWith
  simp only
  rw [skip0_plain _ h.all, hf, pAst_plain c r h g]
  simp [rewrite]

theorem plainWord_abc : PlainWord ['a', 'b', 'c'] :=
  ⟨by simp, by decide, by decide⟩

end TantivyModel.Grammar.Chars
