import TantivyModel.Proofs.BlockWandTotalA
/-!
Part B: the two measures of the mirrored `block_wand` loop — the remaining postings (`lenSum`,
strictly decreasing: termination) and the `max_score` mass of the scorers at or before a document
(`massLe`, never increasing: the pivots never go backwards) — under the array operations.
-/
namespace TantivyModel.BlockWand
open List TantivyModel.Wand

def lenSum (arr : List S) : Nat := (arr.map (·.rest.length)).sum
/-- the sum of `max_score` over the scorers whose current document is `≤ d` -/
def massLe (arr : List S) (d : Nat) : Nat := ((arr.filter (fun x => decide (x.doc ≤ d))).map (·.maxScore)).sum

theorem lenSum_cons (x : S) (xs : List S) : lenSum (x :: xs) = x.rest.length + lenSum xs := by simp [lenSum]
theorem lenSum_append (a b : List S) : lenSum (a ++ b) = lenSum a + lenSum b := by simp [lenSum]
theorem lenSum_perm {a b : List S} (h : a ~ b) : lenSum a = lenSum b := perm_sum_map h _

theorem massLe_cons (x : S) (xs : List S) (d : Nat) :
    massLe (x :: xs) d = (if x.doc ≤ d then x.maxScore else 0) + massLe xs d := by
  unfold massLe
  by_cases h : x.doc ≤ d
  · rw [filter_cons_of_pos (by simpa using h)]; simp [h]
  · rw [filter_cons_of_neg (by simpa using h)]; simp [h]
theorem massLe_append (a b : List S) (d : Nat) : massLe (a ++ b) d = massLe a d + massLe b d := by
  simp [massLe]
theorem massLe_perm {a b : List S} (h : a ~ b) (d : Nat) : massLe a d = massLe b d := by
  unfold massLe
  exact perm_sum_map (h.filter _) _

/-! ### replacing one scorer -/

theorem split_at {arr : List S} {i : Nat} {s : S} (hi : arr[i]? = some s) :
    arr = arr.take i ++ s :: arr.drop (i + 1) := by
  have hlt : i < arr.length := getElem?_lt_length hi
  conv => lhs; rw [← take_append_drop i arr]
  congr 1
  rw [drop_eq_getElem_cons hlt]
  congr 1
  rw [getElem?_eq_getElem hlt] at hi
  exact Option.some.inj hi

theorem set_eq {arr : List S} {i : Nat} {s : S} (hi : arr[i]? = some s) (s' : S) :
    arr.set i s' = arr.take i ++ s' :: arr.drop (i + 1) := by
  have hlt : i < arr.length := getElem?_lt_length hi
  conv => lhs; rw [split_at hi]
  rw [set_append_right _ _ (by simp; omega)]
  simp only [length_take]
  have : i - min i arr.length = 0 := by omega
  rw [this]; rfl

theorem lenSum_set {arr : List S} {i : Nat} {s : S} (hi : arr[i]? = some s) (s' : S) :
    lenSum (arr.set i s') + s.rest.length = lenSum arr + s'.rest.length := by
  rw [set_eq hi s']
  conv => rhs; rw [split_at hi]
  simp only [lenSum_append, lenSum_cons]
  omega

theorem massLe_set_le {arr : List S} {i : Nat} {s : S} (hi : arr[i]? = some s) (s' : S)
    (hm : s'.maxScore = s.maxScore) (hd : s.doc ≤ s'.doc) (d : Nat) :
    massLe (arr.set i s') d ≤ massLe arr d := by
  rw [set_eq hi s']
  conv => rhs; rw [split_at hi]
  simp only [massLe_append, massLe_cons, hm]
  have : (if s'.doc ≤ d then s.maxScore else 0) ≤ (if s.doc ≤ d then s.maxScore else 0) := by
    split
    · rw [if_pos (by omega)]; exact Nat.le_refl _
    · exact Nat.zero_le _
  omega

/-! ### removing one scorer -/

theorem swapRemove_perm {arr : List S} {i : Nat} {s : S} (hi : arr[i]? = some s) :
    s :: swapRemove arr i ~ arr := by
  have hlt : i < arr.length := getElem?_lt_length hi
  have hne : arr ≠ [] := by intro h; rw [h] at hlt; simp at hlt
  unfold swapRemove
  rw [getLast?_eq_some_getLast hne]
  simp only
  split
  · rename_i hlt2
    have hdne : arr.drop (i + 1) ≠ [] := by
      intro h
      have := congrArg length h
      simp at this; omega
    have hlast : (arr.drop (i + 1)).getLast hdne = arr.getLast hne := by rw [getLast_drop]
    have hd : arr.drop (i + 1) = (arr.drop (i + 1)).dropLast ++ [arr.getLast hne] := by
      rw [← hlast]; exact (dropLast_concat_getLast hdne).symm
    conv => rhs; rw [split_at hi, hd]
    generalize (arr.drop (i + 1)).dropLast = dl
    generalize arr.getLast hne = last
    generalize arr.take i = pre
    -- s :: (pre ++ last :: dl) ~ pre ++ s :: (dl ++ [last])
    have h1 : s :: (pre ++ last :: dl) ~ pre ++ s :: (last :: dl) := perm_middle.symm
    refine h1.trans (Perm.append_left pre (Perm.cons s ?_))
    exact (perm_append_singleton last dl).symm
  · rename_i hge
    have hi' : i + 1 = arr.length := by omega
    have hd0 : arr.drop (i + 1) = [] := by rw [drop_eq_nil_iff]; omega
    have harr : arr = arr.take i ++ [s] := by have := split_at hi; rw [hd0] at this; exact this
    have hdl : arr.dropLast = arr.take i := by
      conv => lhs; rw [harr]
      simp
    rw [hdl]
    conv => rhs; rw [harr]
    exact (perm_append_singleton s _).symm

theorem lenSum_swapRemove {arr : List S} {i : Nat} {s : S} (hi : arr[i]? = some s) :
    lenSum (swapRemove arr i) + s.rest.length = lenSum arr := by
  rw [← lenSum_perm (swapRemove_perm hi), lenSum_cons]; omega

theorem massLe_swapRemove_le {arr : List S} {i : Nat} {s : S} (hi : arr[i]? = some s) (d : Nat) :
    massLe (swapRemove arr i) d ≤ massLe arr d := by
  rw [← massLe_perm (swapRemove_perm hi) d, massLe_cons]; omega

/-! ### a deep seek moves forward -/

/-- what COMPLETION of the mirrored loops needs of a scorer — no bound hypothesis: ascending
postings below `TERMINATED`, full blocks ending below `TERMINATED` -/
structure WFC (x : S) : Prop where
  asc : Asc x.rest
  lt : ∀ p, p ∈ x.rest → p.1 < T
  blocksLt : ∀ b, b ∈ x.blocks → b.1 < T

theorem WFC.of_rest_sublist {s s' : S} (h : WFC s) (hr : s'.rest.Sublist s.rest) (hb : s'.blocks = s.blocks) : WFC s' :=
  ⟨Pairwise.sublist hr h.asc, fun p hp => h.lt p (hr.subset hp), by rw [hb]; exact h.blocksLt⟩

theorem WFC.seek {s : S} (h : WFC s) (t : Nat) : WFC (s.seek t) :=
  h.of_rest_sublist (by rw [seek_rest s h.asc]; exact seekP_sublist _ _) (seek_blocks s t)
theorem WFC.seekBlock {s : S} (h : WFC s) (t : Nat) : WFC (s.seekBlock t) :=
  h.of_rest_sublist (by rw [seekBlock_rest]; exact Sublist.refl _) (seekBlock_blocks s t)
theorem WFC.advance {s : S} (h : WFC s) : WFC s.advance :=
  h.of_rest_sublist (by rw [advance_rest]; exact tail_sublist _) (by unfold TS.advance; split <;> rfl)

theorem doc_le_T {x : S} (hwf : WFC x) : x.doc ≤ T := by
  by_cases hx : x.rest = []
  · rw [doc_eq_T_of_nil hx]; exact Nat.le_refl _
  · exact Nat.le_of_lt (doc_lt_T hwf.lt hx)

theorem seek_doc_ge (x : S) (hwf : WFC x) (t : Nat) : x.doc ≤ (x.seek t).doc := by
  by_cases hr : (x.seek t).rest = []
  · rw [doc_eq_T_of_nil hr]; exact doc_le_T hwf
  · obtain ⟨p, hp, hpd⟩ := doc_mem hr
    rw [seek_rest x hwf.asc t] at hp
    have := doc_le_of_mem hwf.asc ((seekP_sublist _ _).subset hp)
    omega

/-- the current document after `seek(t)` is `≥ t` (or the scorer is exhausted) -/
theorem seek_doc_ge_target (x : S) (hwf : WFC x) (t : Nat) (ht : t ≤ T) : t ≤ (x.seek t).doc := by
  by_cases hr : (x.seek t).rest = []
  · rw [doc_eq_T_of_nil hr]; exact ht
  · obtain ⟨p, hp, hpd⟩ := doc_mem hr
    rw [seek_rest x hwf.asc t] at hp
    have := seekP_ge_of_asc hwf.asc t p hp
    omega

/-- a deep seek past the current document drops at least one posting -/
theorem seek_len_lt (x : S) (hwf : WFC x) (t : Nat) (h : x.doc < t) (hT : x.doc < T) :
    (x.seek t).rest.length < x.rest.length := by
  rw [seek_rest x hwf.asc t]
  unfold TS.doc at h hT
  cases hr : x.rest with
  | nil => rw [hr] at hT; simp only at hT; omega
  | cons p ps =>
    rw [hr] at h
    simp only at h
    unfold seekP
    rw [dropWhile_cons_of_pos (by simpa using h)]
    have := (dropWhile_sublist (fun q : Nat × Nat => decide (q.1 < t)) (l := ps)).length_le
    simp only [length_cons]; omega

theorem seek_len_le (x : S) (hwf : WFC x) (t : Nat) : (x.seek t).rest.length ≤ x.rest.length := by
  rw [seek_rest x hwf.asc t]; exact (seekP_sublist _ _).length_le

end TantivyModel.BlockWand
