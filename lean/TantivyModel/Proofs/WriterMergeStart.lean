import TantivyModel.Proofs.WriterMergeSteps
/-!
`mergeStart`: the new merge in flight satisfies `MergeGood`; both invariants are kept.
-/
namespace TantivyModel.Writer
open TantivyModel.WriterSpec

variable {α : Type} [DecidableEq α]

/-- `WInv` only reads these components of the state -/
theorem winv_congr (s s' : WState α) (P C : List α) (h : WInv s P C)
    (h1 : s'.stamper = s.stamper) (h2 : s'.log = s.log) (h3 : s'.channel = s.channel)
    (h4 : s'.workers = s.workers) (h5 : s'.inflight = s.inflight) (h6 : s'.uncommitted = s.uncommitted)
    (h7 : s'.committed = s.committed) (h8 : s'.metas = s.metas) (h9 : s'.flushed = s.flushed) : WInv s' P C := by
  have hall : allPairs s' = allPairs s := by simp only [allPairs, chanPairs, h3, h4, h5, h6, h7]
  have hchan : chanPairs s' = chanPairs s := by simp only [chanPairs, h3]
  obtain ⟨a1, a2, a3, a4, a5, a6, a7, a8, a9, a10⟩ := h
  refine ⟨by simpa only [live, hall, h2] using a1, by simpa only [published, h8] using a2,
    by rw [hall, h1]; exact a3, by rw [h2, h1]; exact a4, by rw [h2]; exact a5, by rw [hchan]; exact a6,
    by rw [h9, h2]; exact a7, by rw [h4, h2, hchan]; exact a8, by rw [h5, h6, h7, h2]; exact a9,
    by rw [h8]; exact a10⟩

theorem lookup_mem (reg : List (Seg α)) (i : Nat) (sg : Seg α) (h : lookup reg i = some sg) :
    sg ∈ reg ∧ sg.id = i := by
  simp only [lookup] at h
  exact ⟨List.mem_of_find?_eq_some h, by simpa using List.find?_some h⟩

theorem filterMap_lookup_mem (ids : List Nat) (reg : List (Seg α)) :
    ∀ sg ∈ ids.filterMap (lookup reg), sg ∈ reg := by
  intro sg hsg
  obtain ⟨i, _, hl⟩ := List.mem_filterMap.mp hsg
  exact (lookup_mem reg i sg hl).1

/-- ids present in one register name no segment of the other (ids are unique) -/
theorem srcsOf_other_nil (ids : List Nat) (A B : List (Seg α)) (hn : (segIds (A ++ B)).Nodup)
    (hp : present ids A) : srcsOf ids B = [] := by
  simp only [srcsOf, List.filter_eq_nil_iff]
  intro b hb hc
  have hid : b.id ∈ ids := by simpa using hc
  obtain ⟨a, ha, he⟩ := hp b.id hid
  simp only [segIds, List.map_append] at hn
  have := (List.nodup_append.mp hn).2.2 a.id (mem_segIds ha) b.id (mem_segIds hb)
  exact this he

theorem srcsOf_other_nil' (ids : List Nat) (A B : List (Seg α)) (hn : (segIds (A ++ B)).Nodup)
    (hp : present ids B) : srcsOf ids A = [] := by
  simp only [srcsOf, List.filter_eq_nil_iff]
  intro a ha hc
  have hid : a.id ∈ ids := by simpa using hc
  obtain ⟨b, hb, he⟩ := hp a.id hid
  simp only [segIds, List.map_append] at hn
  have := (List.nodup_append.mp hn).2.2 a.id (mem_segIds ha) b.id (mem_segIds hb)
  exact this he.symm

theorem not_present_both (ids : List Nat) (A B : List (Seg α)) (hne : ids ≠ []) (hn : (segIds (A ++ B)).Nodup)
    (hpA : present ids A) (hpB : present ids B) : False := by
  cases ids with
  | nil => exact hne rfl
  | cons i is =>
    obtain ⟨a, ha, he⟩ := hpA i (by simp)
    obtain ⟨b, hb, he'⟩ := hpB i (by simp)
    simp only [segIds, List.map_append] at hn
    exact (List.nodup_append.mp hn).2.2 a.id (mem_segIds ha) b.id (mem_segIds hb) (he.trans he'.symm)

theorem regsNodup (s : WState α) (h : MInv s) : (segIds (s.uncommitted ++ s.committed)).Nodup := by
  have : List.Sublist (segIds (s.uncommitted ++ s.committed)) (allIds s) := by
    simp only [allIds, regs]; exact List.sublist_append_right _ _
  exact this.nodup h.nodup

/-- the record of a merge of uncommitted segments proposed by the policy (target: a fresh stamp) -/
theorem good_start_uncommitted (s : WState α) (P C : List α) (hw : WInv s P C) (h : MInv s) (ids : List Nat)
    (hne : ids ≠ []) (hnd : ids.Nodup) (hp : present ids s.uncommitted) :
    MergeGood s.log s.uncommitted s.committed s.metas.opstamp
      { ids := ids, result := mergeSegs s.log s.stamper s.nextId (ids.filterMap (lookup s.uncommitted)) }
    ∧ ∀ M, mergeSegs s.log s.stamper s.nextId (ids.filterMap (lookup s.uncommitted)) = some M → M.id = s.nextId := by
  have hRn := regsNodup s h
  have hUn : (segIds s.uncommitted).Nodup := by
    simp only [segIds, List.map_append] at hRn; exact (List.nodup_append.mp hRn).1
  let srcs := ids.filterMap (lookup s.uncommitted)
  have hmemU : ∀ sg ∈ srcs, sg ∈ s.uncommitted := filterMap_lookup_mem ids s.uncommitted
  have hok : ∀ sg ∈ srcs, SegOK s.log sg := fun sg hsg =>
    hw.segs sg (List.mem_append_left _ (List.mem_append_right _ (hmemU sg hsg)))
  have hle : ∀ del ∈ s.log, del.op ≤ s.stamper := fun del hd => Nat.le_of_lt (hw.logLt del hd)
  have hcur : ∀ sg ∈ srcs, (advance s.log s.stamper sg).cursor = s.log.length :=
    fun sg hsg => (advance_full s.log s.stamper sg (hok sg hsg) hle).1
  have hspec := mergeSegs_spec s.log s.stamper s.nextId s.log.length srcs hok hcur (Nat.le_refl _)
  have hperm : List.Perm (srcs.flatMap segPairs) ((srcsOf ids (s.uncommitted ++ s.committed)).flatMap segPairs) := by
    have e : srcsOf ids (s.uncommitted ++ s.committed) = srcsOf ids s.uncommitted := by
      simp only [srcsOf, List.filter_append]
      have := srcsOf_other_nil ids s.uncommitted s.committed hRn hp
      simp only [srcsOf] at this
      rw [this, List.append_nil]
    rw [e]
    exact List.Perm.flatMap_right _ (filterMap_lookup_perm ids s.uncommitted hnd hUn hp)
  constructor
  · intro _
    refine ⟨s.log.length, Nat.le_refl _,
      fun hpC => (not_present_both ids s.uncommitted s.committed hne hRn hp hpC).elim, ?_⟩
    show match mergeSegs s.log s.stamper s.nextId srcs with
      | some M => _
      | none => _
    cases hr : mergeSegs s.log s.stamper s.nextId srcs with
    | none =>
      simp only [hr] at hspec ⊢
      intro p hpm
      exact hspec p (hperm.mem_iff.mpr hpm)
    | some M =>
      simp only [hr] at hspec ⊢
      obtain ⟨_, hc, hsok, hal, hpairs⟩ := hspec
      refine ⟨hc, hsok, hal, ?_⟩
      rw [hpairs]
      exact List.Perm.filter _ hperm
  · intro M hM
    have hspec' := hspec
    show M.id = s.nextId
    simp only [srcs] at hspec'
    rw [hM] at hspec'
    exact hspec'.1

/-- the record of a merge of committed segments (target: the opstamp of the last commit) -/
theorem good_start_committed (s : WState α) (P C : List α) (hw : WInv s P C) (h : MInv s) (ids : List Nat)
    (hne : ids ≠ []) (hnd : ids.Nodup) (hp : present ids s.committed) :
    MergeGood s.log s.uncommitted s.committed s.metas.opstamp
      { ids := ids, result := mergeSegs s.log s.metas.opstamp s.nextId (ids.filterMap (lookup s.committed)) }
    ∧ ∀ M, mergeSegs s.log s.metas.opstamp s.nextId (ids.filterMap (lookup s.committed)) = some M → M.id = s.nextId := by
  have hRn := regsNodup s h
  have hCn : (segIds s.committed).Nodup := by
    simp only [segIds, List.map_append] at hRn; exact (List.nodup_append.mp hRn).2.1
  let srcs := ids.filterMap (lookup s.committed)
  have hmemC : ∀ sg ∈ srcs, sg ∈ s.committed := filterMap_lookup_mem ids s.committed
  have hok : ∀ sg ∈ s.committed, SegOK s.log sg := fun sg hsg => hw.segs sg (List.mem_append_right _ hsg)
  -- a source exists; every committed segment has its cursor
  obtain ⟨i0, hi0⟩ : ∃ i, i ∈ ids := by
    cases ids with
    | nil => exact absurd rfl hne
    | cons i _ => exact ⟨i, by simp⟩
  obtain ⟨s0, hs0, _⟩ := hp i0 hi0
  have hsame : ∀ sg ∈ s.committed, sg.cursor = s0.cursor := by
    intro sg hsg
    have a := h.cis sg hsg
    have b := h.cis s0 hs0
    exact boundary_unique s.log s.metas.opstamp sg.cursor s0.cursor (hok sg hsg).cur (hok s0 hs0).cur a.1 a.2 b.1 b.2
  have hcur : ∀ sg ∈ srcs, (advance s.log s.metas.opstamp sg).cursor = s0.cursor := by
    intro sg hsg
    rw [advance_committedAt s.log s.metas.opstamp sg (h.cis sg (hmemC sg hsg))]
    exact hsame sg (hmemC sg hsg)
  have hspec := mergeSegs_spec s.log s.metas.opstamp s.nextId s0.cursor srcs
    (fun sg hsg => hok sg (hmemC sg hsg)) hcur (hok s0 hs0).cur
  have hperm : List.Perm (srcs.flatMap segPairs) ((srcsOf ids (s.uncommitted ++ s.committed)).flatMap segPairs) := by
    have e : srcsOf ids (s.uncommitted ++ s.committed) = srcsOf ids s.committed := by
      simp only [srcsOf, List.filter_append]
      have := srcsOf_other_nil' ids s.uncommitted s.committed hRn hp
      simp only [srcsOf] at this
      rw [this, List.nil_append]
    rw [e]
    exact List.Perm.flatMap_right _ (filterMap_lookup_perm ids s.committed hnd hCn hp)
  constructor
  · intro _
    refine ⟨s0.cursor, (hok s0 hs0).cur, fun _ => (h.cis s0 hs0).1, ?_⟩
    show match mergeSegs s.log s.metas.opstamp s.nextId srcs with
      | some M => _
      | none => _
    cases hr : mergeSegs s.log s.metas.opstamp s.nextId srcs with
    | none =>
      simp only [hr] at hspec ⊢
      intro p hpm
      exact hspec p (hperm.mem_iff.mpr hpm)
    | some M =>
      simp only [hr] at hspec ⊢
      obtain ⟨_, hc, hsok, hal, hpairs⟩ := hspec
      refine ⟨hc, hsok, hal, ?_⟩
      rw [hpairs]
      exact List.Perm.filter _ hperm
  · intro M hM
    have hspec' := hspec
    show M.id = s.nextId
    simp only [srcs] at hspec'
    rw [hM] at hspec'
    exact hspec'.1

def mergeStartState (s : WState α) (st : Nat) (m : Merge α) : WState α :=
  { s with stamper := st, nextId := s.nextId + 1, merges := s.merges ++ [m] }

/-- a new merge in flight with a fresh result id -/
theorem minv_mergeStart (s : WState α) (h : MInv s) (st : Nat) (m : Merge α) (hne : m.ids ≠ [])
    (hp : present m.ids (regs s)) (hgood : MergeGood s.log s.uncommitted s.committed s.metas.opstamp m)
    (hid : ∀ M, m.result = some M → M.id = s.nextId) : MInv (mergeStartState s st m) := by
  obtain ⟨h1, h2, h3, h4, h5, h6, h7, h8, h9, h10, h11⟩ := h
  have hres : resultIds (s.merges ++ [m]) = resultIds s.merges ++ mergeResultId m := by
    simp only [resultIds, List.flatMap_append, List.flatMap_cons, List.flatMap_nil, List.append_nil]
  have hfresh : s.nextId ∉ allIds s := fun hmem => by have := h2 _ hmem; omega
  have hidsreg : ∀ i ∈ m.ids, i ∈ segIds (regs s) := by
    intro i hi
    obtain ⟨sg, hsg, he⟩ := hp i hi
    exact he ▸ mem_segIds hsg
  have hmemAll : ∀ i, i ∈ allIds (mergeStartState s st m) → i = s.nextId ∨ i ∈ allIds s := by
    intro i hi
    simp only [allIds, pipeIds, mergeStartState, hres, List.mem_append] at hi ⊢
    rcases hi with ((hh | hh) | (hh | hh)) | hh
    · exact Or.inr (Or.inl (Or.inl (Or.inl hh)))
    · exact Or.inr (Or.inl (Or.inl (Or.inr hh)))
    · exact Or.inr (Or.inl (Or.inr hh))
    · cases hr : m.result with
      | none => simp [mergeResultId, hr] at hh
      | some M => simp [mergeResultId, hr] at hh; left; rw [hh]; exact hid M hr
    · exact Or.inr (Or.inr hh)
  have hnodup : (allIds (mergeStartState s st m)).Nodup := by
    cases hr : m.result with
    | none =>
      have e : allIds (mergeStartState s st m) = allIds s := by
        simp [allIds, pipeIds, mergeStartState, hres, mergeResultId, hr, regs]
      rw [e]; exact h1
    | some M =>
      have hM := hid M hr
      have hperm : List.Perm (allIds (mergeStartState s st m)) (s.nextId :: allIds s) := by
        apply List.perm_iff_count.mpr
        intro i
        simp only [allIds, pipeIds, mergeStartState, hres, mergeResultId, hr, hM, regs, List.count_append,
          List.count_cons, List.count_nil]
        omega
      exact hperm.nodup_iff.mpr (List.nodup_cons.mpr ⟨hfresh, h1⟩)
  have hpipe : ∀ i, i ∈ pipeIds (mergeStartState s st m) → i = s.nextId ∨ i ∈ pipeIds s := by
    intro i hi
    simp only [pipeIds, mergeStartState, hres, List.mem_append] at hi ⊢
    rcases hi with (hh | hh) | (hh | hh)
    · exact Or.inr (Or.inl (Or.inl hh))
    · exact Or.inr (Or.inl (Or.inr hh))
    · exact Or.inr (Or.inr hh)
    · cases hr : m.result with
      | none => simp [mergeResultId, hr] at hh
      | some M => simp [mergeResultId, hr] at hh; left; rw [hh]; exact hid M hr
  refine ⟨hnodup, ?_, ?_, ?_, ?_, h6, ?_, ?_, h9, h10, h11⟩
  · intro i hi
    rcases hmemAll i hi with he | hold
    · show i < s.nextId + 1; omega
    · have := h2 i hold; show i < s.nextId + 1; omega
  · intro m' hm'
    simp only [mergeStartState, List.mem_append, List.mem_singleton] at hm'
    rcases hm' with hm' | rfl
    · exact h3 m' hm'
    · exact hne
  · intro m' hm' i hi
    simp only [mergeStartState, List.mem_append, List.mem_singleton] at hm'
    show i < s.nextId + 1
    rcases hm' with hm' | rfl
    · have := h4 m' hm' i hi; omega
    · have := h2 i (by simp only [allIds]; exact List.mem_append_right _ (hidsreg i hi)); omega
  · intro m' hm' i hi hpi
    simp only [mergeStartState, List.mem_append, List.mem_singleton] at hm'
    rcases hm' with hm' | rfl
    · rcases hpipe i hpi with rfl | hold
      · have := h4 m' hm' _ hi; omega
      · exact h5 m' hm' i hi hold
    · have hreg := hidsreg i hi
      rcases hpipe i hpi with rfl | hold
      · have := h2 _ (by simp only [allIds]; exact List.mem_append_right _ hreg); omega
      · simp only [allIds] at h1
        exact (List.nodup_append.mp h1).2.2 i hold i hreg rfl
  · intro sg hsg; have := h7 sg hsg; show sg.id < s.nextId + 1; omega
  · intro m' hm'
    simp only [mergeStartState, List.mem_append, List.mem_singleton] at hm'
    rcases hm' with hm' | rfl
    · exact h8 m' hm'
    · exact hgood

end TantivyModel.Writer
