import TantivyModel.Model.JsonPositions
/-! per path, a JSON field is indexed like a multi-valued text field; values are gap-separated -/
namespace TantivyModel.JsonPositions
open TantivyModel.Invert

/-- the text occurrences of path `p` are those of the multi-valued text field made of `p`'s leaves -/
theorem occsFrom_path (gap : Nat) (p : Term) (evs : List JEvent) :
    ∀ st : Term → Nat,
      ((occsFrom gap st evs).filter (fun o => o.text ∧ o.path = p)).map (fun o => (o.term, o.pos)) =
        docOccsFrom gap (st p) (pathValues p evs) := by
  induction evs with
  | nil => intro st; simp [occsFrom, pathValues, docOccsFrom]
  | cons e es ih =>
    intro st
    unfold occsFrom
    by_cases ht : e.text = true
    · simp only [ht, if_true, List.filter_append, List.map_append]
      by_cases hp : e.path = p
      · subst hp
        have hkeep : ((indexValue gap (st e.path) e.toks).1.map
            (fun o => ({ path := e.path, text := true, term := o.1, pos := o.2 } : JOcc))).filter
            (fun o => o.text ∧ o.path = e.path) =
            (indexValue gap (st e.path) e.toks).1.map
              (fun o => ({ path := e.path, text := true, term := o.1, pos := o.2 } : JOcc)) := by
          apply List.filter_eq_self.mpr
          intro o ho
          obtain ⟨x, _, rfl⟩ := List.mem_map.mp ho
          simp
        rw [hkeep, ih]
        simp only [List.map_map, Function.comp_def, List.map_id', if_true]
        have hpv : pathValues e.path (e :: es) = e.toks :: pathValues e.path es := by
          simp [pathValues, List.filter_cons, ht]
        rw [hpv]
        simp [docOccsFrom]
      · have hdrop : ((indexValue gap (st e.path) e.toks).1.map
            (fun o => ({ path := e.path, text := true, term := o.1, pos := o.2 } : JOcc))).filter
            (fun o => o.text ∧ o.path = p) = [] := by
          apply List.filter_eq_nil_iff.mpr
          intro o ho
          obtain ⟨x, _, rfl⟩ := List.mem_map.mp ho
          simp [hp]
        rw [hdrop, ih]
        have hp' : ¬ p = e.path := fun h => hp h.symm
        have hpv : pathValues p (e :: es) = pathValues p es := by
          simp [pathValues, List.filter_cons, hp]
        simp [hp', hpv]
    · have ht' : e.text = false := by simpa using ht
      simp only [ht', Bool.false_eq_true, if_false, List.filter_append, List.map_append]
      have hdrop : (e.toks.map (fun t => ({ path := e.path, text := false, term := t.term, pos := 0 } : JOcc))).filter
          (fun o => o.text ∧ o.path = p) = [] := by
        apply List.filter_eq_nil_iff.mpr
        intro o ho
        obtain ⟨x, _, rfl⟩ := List.mem_map.mp ho
        simp
      rw [hdrop, ih]
      have hpv : pathValues p (e :: es) = pathValues p es := by
        simp [pathValues, List.filter_cons, ht']
      simp [hpv]

/-! ### the position gap between values -/

theorem foldl_max_ge (e : Nat) (v : Value) :
    ∀ init, init ≤ v.foldl (fun a t => max a (e + t.pos + t.posLen)) init ∧
      ∀ t ∈ v, e + t.pos + t.posLen ≤ v.foldl (fun a t => max a (e + t.pos + t.posLen)) init := by
  induction v with
  | nil => intro init; simp
  | cons a r ih =>
    intro init
    have h := ih (max init (e + a.pos + a.posLen))
    simp only [List.foldl_cons]
    refine ⟨by omega, ?_⟩
    intro t ht
    rcases List.mem_cons.mp ht with rfl | ht
    · omega
    · exact h.2 t ht

theorem indexValue_end (gap e : Nat) (v : Value) :
    e + gap ≤ (indexValue gap e v).2 ∧ ∀ t ∈ v, e + t.pos + t.posLen + gap ≤ (indexValue gap e v).2 := by
  have h := foldl_max_ge e v e
  simp only [indexValue]
  exact ⟨by omega, fun t ht => by have := h.2 t ht; omega⟩

theorem indexValue_occs (gap e : Nat) (v : Value) :
    (indexValue gap e v).1 = v.map (fun t => (t.term, e + t.pos)) := rfl

theorem docOccsFrom_ge (gap : Nat) (vs : List Value) :
    ∀ e, ∀ o ∈ docOccsFrom gap e vs, e ≤ o.2 := by
  induction vs with
  | nil => intro e o ho; simp [docOccsFrom] at ho
  | cons v r ih =>
    intro e o ho
    simp only [docOccsFrom, List.mem_append] at ho
    rcases ho with ho | ho
    · rw [indexValue_occs] at ho
      obtain ⟨t, _, rfl⟩ := List.mem_map.mp ho
      simp
    · have := ih _ o ho
      have := (indexValue_end gap e v).1
      omega

theorem docOccsFrom_append (gap : Nat) (A B : List Value) :
    ∀ e, docOccsFrom gap e (A ++ B) = docOccsFrom gap e A ++ docOccsFrom gap (endAfter gap e A) B := by
  induction A with
  | nil => intro e; simp [docOccsFrom, endAfter]
  | cons v r ih => intro e; simp [docOccsFrom, endAfter, ih]

/-- in `A ++ v :: B`, the tokens of `v` sit at `endAfter A + pos`, and every occurrence of the later
values lies beyond each of them by at least its length plus the gap -/
theorem values_gap_separated (gap e : Nat) (A : List Value) (v : Value) (B : List Value) :
    docOccsFrom gap e (A ++ v :: B) =
      docOccsFrom gap e A ++ v.map (fun t => (t.term, endAfter gap e A + t.pos)) ++
        docOccsFrom gap (indexValue gap (endAfter gap e A) v).2 B ∧
    ∀ t ∈ v, ∀ o ∈ docOccsFrom gap (indexValue gap (endAfter gap e A) v).2 B,
      endAfter gap e A + t.pos + t.posLen + gap ≤ o.2 := by
  constructor
  · rw [docOccsFrom_append]
    simp [docOccsFrom, indexValue_occs]
  · intro t ht o ho
    have h1 := (indexValue_end gap (endAfter gap e A) v).2 t ht
    have h2 := docOccsFrom_ge gap B _ o ho
    omega

theorem occsFrom_nontext_pos (gap : Nat) (evs : List JEvent) :
    ∀ st : Term → Nat, ∀ o ∈ occsFrom gap st evs, o.text = false → o.pos = 0 := by
  induction evs with
  | nil => intro st o ho; simp [occsFrom] at ho
  | cons e es ih =>
    intro st o ho hnt
    unfold occsFrom at ho
    split at ho
    · rcases List.mem_append.mp ho with h | h
      · obtain ⟨x, _, rfl⟩ := List.mem_map.mp h
        simp at hnt
      · exact ih _ o h hnt
    · rcases List.mem_append.mp ho with h | h
      · obtain ⟨x, _, rfl⟩ := List.mem_map.mp h
        rfl
      · exact ih _ o h hnt

end TantivyModel.JsonPositions
