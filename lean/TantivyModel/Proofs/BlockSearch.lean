import TantivyModel.Model.PostingsCodec
/-! the k-ary branchless block search returns the rank of the target -/
namespace TantivyModel.Postings

/-- in a non-decreasing list, `arr[j] < t` exactly for the first `rank t` indices -/
theorem sorted_lt_iff (arr : List Nat) (hs : arr.Pairwise (· ≤ ·)) (t j : Nat) (hj : j < arr.length) :
    arr.getD j 0 < t ↔ j < arr.countP (· < t) := by
  induction arr generalizing j with
  | nil => simp at hj
  | cons a l ih =>
    have hp := List.pairwise_cons.mp hs
    by_cases ha : a < t
    · have hc : (a :: l).countP (· < t) = l.countP (· < t) + 1 := by simp [ha]
      rw [hc]
      cases j with
      | zero => simp [ha]
      | succ j =>
        have := ih hp.2 j (by simpa using hj)
        simp only [List.getD_cons_succ]
        omega
    · have hc0 : l.countP (· < t) = 0 := by
        rw [List.countP_eq_zero]
        intro x hx
        have := hp.1 x hx
        simp; omega
      have hc : (a :: l).countP (· < t) = 0 := by simp [ha, hc0]
      rw [hc]
      cases j with
      | zero => simp [ha]
      | succ j =>
        have hj' : j < l.length := by simpa using hj
        have hmem : l.getD j 0 ∈ l := by
          simp [List.getD_eq_getElem?_getD, List.getElem?_eq_getElem hj']
        have := hp.1 _ hmem
        simp only [List.getD_cons_succ]
        omega

theorem countP_range_lt (n c : Nat) : (List.range n).countP (fun i => decide (i < c)) = min n c := by
  induction n with
  | zero => simp
  | succ n ih =>
    rw [List.range_succ, List.countP_append, ih]
    by_cases h : n < c <;> simp [h] <;> omega

theorem linearCount_eq (arr : List Nat) (hs : arr.Pairwise (· ≤ ·)) (t base range : Nat)
    (hb : base + range ≤ arr.length) :
    linearCount arr t base range = min range (arr.countP (· < t) - base) := by
  unfold linearCount
  rw [← countP_range_lt]
  apply List.countP_congr
  intro i hi
  have hi' : i < range := List.mem_range.mp hi
  have := sorted_lt_iff arr hs t (base + i) (by omega)
  simp only [decide_eq_true_eq]
  omega

theorem pivotCount_eq (K : Nat) (arr : List Nat) (hs : arr.Pairwise (· ≤ ·)) (t base step : Nat)
    (hstep : 0 < step) (hb : base + K * step ≤ arr.length) (hr : base ≤ arr.countP (· < t)) :
    pivotCount K arr t base step = min (K - 1) ((arr.countP (· < t) - base) / step) := by
  unfold pivotCount
  rw [← countP_range_lt]
  apply List.countP_congr
  intro i hi
  have hi' : i < K - 1 := List.mem_range.mp hi
  have hidx : base + (i + 1) * step - 1 < arr.length := by
    have : (i + 1) * step ≤ K * step := Nat.mul_le_mul_right _ (by omega)
    have : 0 < (i + 1) * step := Nat.mul_pos (by omega) hstep
    omega
  have h1 := sorted_lt_iff arr hs t (base + (i + 1) * step - 1) hidx
  have h2 : i + 1 ≤ (arr.countP (· < t) - base) / step ↔ (i + 1) * step ≤ arr.countP (· < t) - base :=
    Nat.le_div_iff_mul_le hstep
  have hpos : 0 < (i + 1) * step := Nat.mul_pos (by omega) hstep
  simp only [decide_eq_true_eq]
  omega

theorem karyLoop_inv (K : Nat) (hK : 2 ≤ K) (arr : List Nat) (t : Nat) (hs : arr.Pairwise (· ≤ ·))
    (m : Nat) : ∀ (q base : Nat), q < K → base ≤ arr.countP (· < t) →
      arr.countP (· < t) ≤ base + K ^ m * q → base + K ^ m * q ≤ arr.length →
      karyLoop K arr t base (K ^ m * q) = arr.countP (· < t) := by
  induction m with
  | zero =>
    intro q base hq h1 h2 h3
    simp only [Nat.pow_zero, Nat.one_mul] at h2 h3 ⊢
    rw [karyLoop]
    have hd : q / K = 0 := Nat.div_eq_of_lt hq
    simp only [hd, Nat.lt_irrefl, and_false, dite_false]
    rw [linearCount_eq arr hs t base q h3]
    omega
  | succ m ih =>
    intro q base hq h1 h2 h3
    rcases Nat.eq_zero_or_pos q with h0 | hqpos
    · subst h0
      simp only [Nat.mul_zero, Nat.add_zero] at h2 h3 ⊢
      rw [karyLoop]
      simp [linearCount]
      omega
    · have hKpos : 0 < K := by omega
      have hrange : K ^ (m + 1) * q = K * (K ^ m * q) := by
        rw [Nat.pow_succ, Nat.mul_comm (K ^ m) K, Nat.mul_assoc]
      have hstep : K ^ (m + 1) * q / K = K ^ m * q := by
        rw [hrange, Nat.mul_div_cancel_left _ hKpos]
      have hsp : 0 < K ^ m * q := Nat.mul_pos (Nat.pow_pos hKpos) hqpos
      rw [karyLoop]
      have hcond : 2 ≤ K ∧ 0 < K ^ (m + 1) * q / K := ⟨hK, by rw [hstep]; exact hsp⟩
      rw [dif_pos hcond, hstep]
      rw [hrange] at h2 h3
      have hpc := pivotCount_eq K arr hs t base (K ^ m * q) hsp h3 h1
      generalize hstepdef : K ^ m * q = step at *
      generalize hrdef : arr.countP (· < t) = r at *
      have hd1 : (r - base) / step * step ≤ r - base := Nat.div_mul_le_self _ _
      have hd2 : r - base < step * ((r - base) / step + 1) := Nat.lt_mul_div_succ _ hsp
      have hd2' : step * ((r - base) / step + 1) = (r - base) / step * step + step := by
        rw [Nat.mul_add, Nat.mul_one, Nat.mul_comm]
      have hKs : K * step = (K - 1) * step + step := by
        have : K = (K - 1) + 1 := by omega
        conv => lhs; rw [this, Nat.add_mul, Nat.one_mul]
      rcases Nat.le_total ((r - base) / step) (K - 1) with hle | hle
      · have hpc' : pivotCount K arr t base step = (r - base) / step := by rw [hpc]; omega
        rw [hpc']
        have hmul : (r - base) / step * step ≤ (K - 1) * step := Nat.mul_le_mul_right _ hle
        rw [← hstepdef]
        apply ih q _ hq <;> rw [hstepdef] <;> omega
      · have hpc' : pivotCount K arr t base step = K - 1 := by rw [hpc]; omega
        rw [hpc']
        have hmul : (K - 1) * step ≤ (r - base) / step * step := Nat.mul_le_mul_right _ hle
        rw [← hstepdef]
        apply ih q _ hq <;> rw [hstepdef] <;> omega

theorem karyLoop_correct (K m q : Nat) (hK : 2 ≤ K) (hq : q < K) (arr : List Nat) (target : Nat)
    (hlen : arr.length = K ^ m * q) (hs : arr.Pairwise (· ≤ ·)) :
    karyLoop K arr target 0 (K ^ m * q) = arr.countP (· < target) := by
  apply karyLoop_inv K hK arr target hs m q 0 hq (Nat.zero_le _)
  · rw [← hlen, Nat.zero_add]; exact List.countP_le_length
  · omega

theorem searchBlock_eq (arr : List Nat) (target : Nat)
    (hlen : arr.length = cfg.B) (hs : arr.Pairwise (· ≤ ·)) :
    searchBlock cfg arr target = arr.countP (· < target) := by
  have hB : cfg.B = Gen.Postings.BLOCK_SEARCH_K ^ 2 * 2 := by decide
  unfold searchBlock
  rw [hB]
  exact karyLoop_correct _ 2 2 (by decide) (by decide) arr target (by rw [hlen, hB]) hs

theorem searchBlock_spec (arr : List Nat) (target : Nat)
    (hlen : arr.length = cfg.B) (hs : arr.Pairwise (· ≤ ·)) :
    searchBlock cfg arr target = arr.countP (· < target) ∧
    (∀ i, i < searchBlock cfg arr target → arr.getD i 0 < target) ∧
    (searchBlock cfg arr target < arr.length → target ≤ arr.getD (searchBlock cfg arr target) 0) := by
  have h := searchBlock_eq arr target hlen hs
  refine ⟨h, ?_, ?_⟩
  · intro i hi
    rw [h] at hi
    have hil : i < arr.length := Nat.lt_of_lt_of_le hi List.countP_le_length
    exact (sorted_lt_iff arr hs target i hil).mpr hi
  · intro hl
    have := sorted_lt_iff arr hs target _ hl
    rw [h] at this ⊢
    omega

end TantivyModel.Postings
