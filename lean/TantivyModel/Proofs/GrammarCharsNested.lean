import TantivyModel.Proofs.GrammarCharsPrintList
import TantivyModel.Proofs.GrammarCharsPhrase
import TantivyModel.Proofs.GrammarCharsField
import TantivyModel.Proofs.GrammarCharsSfx
import TantivyModel.Proofs.GrammarCharsRange
import TantivyModel.Proofs.GrammarCharsSet
import TantivyModel.Proofs.GrammarCharsEsc
import TantivyModel.Proofs.GrammarCharsMisc
namespace TantivyModel.Grammar.Chars
open TantivyModel.Grammar

/-! ## the operands: plain words and parenthesised operand lists (nesting to any depth) -/

theorem tag_kwspace_none (ks w t : Str) (hks : ks ∈ keywords) (hw : PlainWord w) (ht : Rem t) :
    tag (ks ++ [' ']) (w ++ t) = none := by
  unfold tag
  split
  · rename_i hp
    exact absurd (prefix_space_false ks w t (keyword_plain ks hks) hw.all ht hp)
      (plainWord_ne_keyword w ks hw hks)
  · rfl

theorem binaryOperand_word (w t : Str) (hw : PlainWord w) (ht : Rem t) :
    binaryOperand (w ++ t) = (none, w ++ t) := by
  have h1 := tag_kwspace_none ['A', 'N', 'D'] w t (by simp [keywords]) hw ht
  have h2 := tag_kwspace_none ['O', 'R'] w t (by simp [keywords]) hw ht
  simp only [List.cons_append, List.nil_append] at h1 h2
  simp [binaryOperand, h1, h2]

/-- a plain word is a good operand -/
theorem goodOpd_word (g : Bool) (w : Str) (hw : PlainWord w) : GoodOpd g (wordOpd w) := by
  obtain ⟨c, r, rfl⟩ := List.exists_cons_of_ne_nil hw.ne
  have hc : plain c = true := hw.all c (by simp)
  refine ⟨⟨c, r, rfl, (plain_not_space c hc).2, plain_ne c ':' hc (by decide), plain_ne c '+' hc (by decide),
    plain_ne c '-' hc (by decide), plain_ne c ')' hc (by decide)⟩, ?_, ?_, ?_⟩
  · intro t ht
    exact binaryOperand_word (c :: r) t hw ht
  · intro t ht f hf
    obtain ⟨f', rfl⟩ : ∃ f', f = f' + 1 := ⟨f - 1, by simp [wordOpd] at hf; omega⟩
    exact pLeaf_rem c r t hw ht g f'
  · simp [wordOpd]; omega

theorem printRest_append (more : List PItem) (k : Nat) (tail t : Str) :
    printRest more k tail ++ t = printRest more k (tail ++ t) := by
  induction more with
  | nil => simp [printRest]
  | cons it rest ih => simp [printRest, ih]

theorem printList_append (lead : Nat) (occ : Option Occur) (o : Opd) (more : List PItem) (k : Nat)
    (tail t : Str) :
    printList lead occ o more k tail ++ t = printList lead occ o more k (tail ++ t) := by
  simp [printList, printRest_append]

theorem needRest_le (g : Bool) (more : List PItem) (k : Nat) (tail : Str)
    (hm : ∀ it ∈ more, GoodItem g it.opd) :
    needRest more + 4 * tail.length ≤ 4 * (printRest more k tail).length + 3 := by
  induction more with
  | nil => simp [needRest, printRest, spaces]; omega
  | cons it rest ih =>
    have h1 := (hm it (by simp)).small
    have h2 := ih (fun x hx => hm x (List.mem_cons_of_mem _ hx))
    have h3 : it.opd.text.length ≤ (itemText it).length := by
      simp [itemText]; omega
    simp only [needRest, printRest, List.length_cons, List.length_append]
    omega

/-- a parenthesised list of good operands is a good operand -/
theorem goodOpd_group (g : Bool) (lead : Nat) (occ : Option Occur) (o : Opd) (more : List PItem) (k : Nat)
    (ho : GoodItem g o) (hm : ∀ it ∈ more, GoodItem g it.opd) :
    GoodOpd g (groupOpd lead occ o more k) := by
  refine ⟨⟨'(', printList lead occ o more k [')'], rfl, by decide, by decide, by decide, by decide, by decide⟩,
    ?_, ?_, ?_⟩
  · intro t _
    simp [groupOpd, binaryOperand, tag, List.isPrefixOf]
  · intro t ht f hf
    simp only [groupOpd] at hf
    obtain ⟨f', rfl⟩ : ∃ f', f = f' + 1 := ⟨f - 1, by omega⟩
    have hp := pAst_print g lead occ o more k (')' :: t) (Or.inr ⟨t, rfl⟩) ho hm f' (by omega)
    have htext : (groupOpd lead occ o more k).text ++ t = '(' :: printList lead occ o more k (')' :: t) := by
      simp [groupOpd, printList_append]
    rw [htext]
    unfold pLeaf
    simp [hp, R.bind, R.orElse, groupOpd]
  · have h1 := ho.small
    have h2 := needRest_le g more k [')'] hm
    simp only [groupOpd, printList, List.length_cons, List.length_append, List.length_nil] at h2 ⊢
    omega

/-- `NOT x` of a good operand is a good operand -/
theorem goodOpd_not (g : Bool) (k : Nat) (o : Opd) (ho : GoodOpd g o) : GoodOpd g (notOpd k o) := by
  refine ⟨⟨'N', 'O' :: 'T' :: ' ' :: (spaces k ++ o.text), rfl, by decide, by decide, by decide, by decide, by decide⟩,
    ?_, ?_, ?_⟩
  · intro t _
    simp [notOpd, binaryOperand, tag, List.isPrefixOf]
  · intro t ht f hf
    simp only [notOpd] at hf
    obtain ⟨f', rfl⟩ : ∃ f', f = f' + 1 := ⟨f - 1, by omega⟩
    have hp := ho.parse t ht f' (by omega)
    obtain ⟨c, r, hcr, hsp, _⟩ := ho.head
    have hsk : skip0 (' ' :: (spaces k ++ (o.text ++ t))) = o.text ++ t := by
      have := skip0_spaces (k + 1) (o.text ++ t) (by
        intro c' r' h'
        rw [hcr] at h'
        simp only [List.cons_append, List.cons.injEq] at h'
        rw [← h'.1]; exact hsp)
      simpa [spaces, List.replicate_succ] using this
    have htext : (notOpd k o).text ++ t = 'N' :: 'O' :: 'T' :: ' ' :: (spaces k ++ (o.text ++ t)) := by
      simp [notOpd]
    have hs1 := skip1_space (spaces k ++ (o.text ++ t))
    rw [hsk] at hs1
    rw [htext]
    generalize o.text ++ t = X at hp hs1
    generalize spaces k ++ X = Y at hs1
    unfold pLeaf
    simp [R.orElse, tag, List.isPrefixOf, hs1, hp, R.map, notOpd]
  · have := ho.small
    simp only [notOpd, List.length_cons, List.length_append]
    omega

/-- the well-formed fragment: plain words, double-quoted phrases without escapes (optionally with a slop `~n` or the prefix star), double-quoted phrases of any characters at all printed with `\"` and `\\` escapes, either of them with a field prefix `name:`, bracketed ranges `[a TO b]`/`{a TO b}` (also mixed, also with a field prefix), elastic ranges `>=a` `<=a` `<a` `>a`, `*`, `name:*`, sets `IN [a b c]` of plain words (any blanks, also with a field prefix), `NOT x` of a well-formed operand, and parenthesised lists of well-formed operands with
    markers, AND/OR and any layout -/
inductive WFOpd : Opd → Prop where
  | word (w : Str) (hw : PlainWord w) : WFOpd (wordOpd w)
  | phrase (body : Str) (hb : PhraseBody body) : WFOpd (phraseOpd body)
  | fieldWord (f w : Str) (hf : PlainWord f) (hw : PlainWord w) : WFOpd (fieldWordOpd f w)
  | fieldPhrase (f body : Str) (hf : PlainWord f) (hb : PhraseBody body) : WFOpd (fieldPhraseOpd f body)
  | phraseSfx (body : Str) (x : Sfx) (hb : PhraseBody body) (hx : WFSfx x) : WFOpd (phraseSfxOpd body x)
  | fieldPhraseSfx (f body : Str) (x : Sfx) (hf : PlainWord f) (hb : PhraseBody body) (hx : WFSfx x) :
      WFOpd (fieldPhraseSfxOpd f body x)
  | range (lo hi : Bool) (w1 w2 : Str) (h1 : PlainBound w1) (h2 : PlainBound w2) : WFOpd (rangeOpd lo hi w1 w2)
  | fieldRange (f : Str) (lo hi : Bool) (w1 w2 : Str) (hf : PlainWord f) (h1 : PlainBound w1) (h2 : PlainBound w2) :
      WFOpd (fieldRangeOpd f lo hi w1 w2)
  | set (k0 k1 : Nat) (w : Str) (more : List (Nat × Str)) (h : PlainElems w more) : WFOpd (setOpd k0 k1 w more)
  | fieldSet (f : Str) (k0 k1 : Nat) (w : Str) (more : List (Nat × Str)) (hf : PlainWord f) (h : PlainElems w more) :
      WFOpd (fieldSetOpd f k0 k1 w more)
  | phraseEsc (body : Str) (x : Sfx) (hx : WFSfx x) : WFOpd (phraseEscOpd body x)
  | fieldPhraseEsc (f body : Str) (x : Sfx) (hf : PlainWord f) (hx : WFSfx x) : WFOpd (fieldPhraseEscOpd f body x)
  | all : WFOpd allOpd
  | existsField (f : Str) (hf : PlainWord f) : WFOpd (existsOpd f)
  | elastic (k : Nat) (w : Str) (hw : PlainBound w) : WFOpd (elasticOpd k w)
  | fieldElastic (f : Str) (k : Nat) (w : Str) (hf : PlainWord f) (hw : PlainBound w) : WFOpd (fieldElasticOpd f k w)
  | not (k : Nat) (o : Opd) (ho : WFOpd o) : WFOpd (notOpd k o)
  | group (lead : Nat) (occ : Option Occur) (o : Opd) (more : List PItem) (k : Nat)
      (ho : WFOpd o) (hm : ∀ it ∈ more, WFOpd it.opd) : WFOpd (groupOpd lead occ o more k)

theorem wf_good (g : Bool) (o : Opd) (h : WFOpd o) : GoodOpd g o := by
  induction h with
  | word w hw => exact goodOpd_word g w hw
  | phrase body hb => exact goodOpd_phrase g body hb
  | fieldWord f w hf hw => exact goodOpd_fieldWord g f w hf hw
  | fieldPhrase f body hf hb => exact goodOpd_fieldPhrase g f body hf hb
  | phraseSfx body x hb hx => exact goodOpd_phraseSfx g body x hb hx
  | fieldPhraseSfx f body x hf hb hx => exact goodOpd_fieldPhraseSfx g f body x hf hb hx
  | range lo hi w1 w2 h1 h2 => exact goodOpd_range g lo hi w1 w2 h1 h2
  | fieldRange f lo hi w1 w2 hf h1 h2 => exact goodOpd_fieldRange g f lo hi w1 w2 hf h1 h2
  | set k0 k1 w more h => exact goodOpd_set g k0 k1 w more h
  | fieldSet f k0 k1 w more hf h => exact goodOpd_fieldSet g f k0 k1 w more hf h
  | phraseEsc body x hx => exact goodOpd_phraseEsc g body x hx
  | fieldPhraseEsc f body x hf hx => exact goodOpd_fieldPhraseEsc g f body x hf hx
  | all => exact goodOpd_all g
  | existsField f hf => exact goodOpd_exists g f hf
  | elastic k w hw => exact goodOpd_elastic g k w hw
  | fieldElastic f k w hf hw => exact goodOpd_fieldElastic g f k w hf hw
  | not k o _ ih => exact goodOpd_not g k o ih
  | group lead occ o more k _ _ iho ihm =>
    exact goodOpd_group g lead occ o more k iho.toItem (fun it hi => (ihm it hi).toItem)

/-- the whole strict parser on a printed list of good items -/
theorem parseStrictWith_items (g : Bool) (lead : Nat) (occ : Option Occur) (o : Opd)
    (more : List PItem) (k : Nat) (hgo : GoodItem g o) (hgm : ∀ it ∈ more, GoodItem g it.opd) :
    parseStrictWith g (printList lead occ o more k []) = .tree (rewrite (listTree occ o more)) := by
  have hsk : skip0 (printList lead occ o more k []) = printList 0 occ o more k [] := by
    have := skip0_printList g lead occ o hgo (printRest more k [])
    simpa [printList, spaces] using this
  have h1 := hgo.small
  have h2 := needRest_le g more k [] hgm
  have hlen : o.cost + needRest more + 2 ≤ 8 * (printList lead occ o more k []).length + 16 := by
    simp only [printList, List.length_append, List.length_nil] at h2 ⊢
    omega
  have hp := pAst_print g 0 occ o more k [] (Or.inl rfl) hgo hgm _ hlen
  unfold parseStrictWith
  simp only [hsk, hp]

/-- the whole strict parser on a printed operand list of well-formed operands -/
theorem parseStrictWith_printList (g : Bool) (lead : Nat) (occ : Option Occur) (o : Opd)
    (more : List PItem) (k : Nat) (ho : WFOpd o) (hm : ∀ it ∈ more, WFOpd it.opd) :
    parseStrictWith g (printList lead occ o more k []) = .tree (rewrite (listTree occ o more)) :=
  parseStrictWith_items g lead occ o more k (wf_good g o ho).toItem
    (fun it hi => (wf_good g it.opd (hm it hi)).toItem)

end TantivyModel.Grammar.Chars
