import TantivyModel.Model.Wand
import TantivyModel.Proofs.TopNSort
/-!
Soundness of the block-max WAND drivers *given* the bound hypotheses.
-/
namespace TantivyModel.Wand
open TantivyModel.TopN List

variable {α σ : Type}

theorem exhaustive_append (gt : α → α → Bool) (cb : σ → Nat → α → σ × α) (st : σ × α)
    (l₁ l₂ : List (Nat × α)) :
    exhaustive gt cb st (l₁ ++ l₂) = exhaustive gt cb (exhaustive gt cb st l₁) l₂ := by
  induction l₁ generalizing st with
  | nil => rfl
  | cons p ps ih =>
    obtain ⟨s, θ⟩ := st
    obtain ⟨d, sc⟩ := p
    simp only [cons_append, exhaustive]
    split <;> exact ih _

/-- documents none of which is above the threshold leave the state unchanged -/
theorem exhaustive_noop (gt : α → α → Bool) (cb : σ → Nat → α → σ × α) (s : σ) (θ : α)
    (l : List (Nat × α)) (h : ∀ p, p ∈ l → gt p.2 θ = false) :
    exhaustive gt cb (s, θ) l = (s, θ) := by
  induction l with
  | nil => rfl
  | cons p ps ih =>
    obtain ⟨d, sc⟩ := p
    have hp : gt sc θ = false := h (d, sc) (by simp)
    simp only [exhaustive, hp]
    exact ih fun q hq => h q (by simp [hq])

/-- `block_wand_single_scorer` computes exactly what the exhaustive loop computes, for every
callback, provided every block's bound really bounds the block (`UB_block`). -/
theorem wandSingle_eq_exhaustive (gt : α → α → Bool) (hgt : StrictWeak gt)
    (cb : σ → Nat → α → σ × α) (blocks : List (Block α)) (hub : ubBlock gt blocks) (st : σ × α) :
    wandSingle gt cb st blocks = exhaustive gt cb st (blocks.flatMap (·.docs)) := by
  induction blocks generalizing st with
  | nil => rfl
  | cons b bs ih =>
    obtain ⟨s, θ⟩ := st
    have hub' : ubBlock gt bs := fun b' hb' => hub b' (by simp [hb'])
    simp only [wandSingle, flatMap_cons, exhaustive_append]
    split
    · exact ih hub' _
    · rename_i hskip
      simp only [Bool.not_eq_true] at hskip
      rw [exhaustive_noop gt cb s θ b.docs]
      · exact ih hub' _
      · intro p hp
        exact hgt.negTrans _ _ _ (hub b (by simp) p hp) hskip

/-! ### the pivot rule -/

theorem scoreOf_eq_zero (t : TermList) (doc : Nat) (h : ∀ p, p ∈ t.postings → p.1 ≠ doc) :
    t.scoreOf doc = 0 := by
  unfold TermList.scoreOf
  have : t.postings.find? (·.1 == doc) = none := by
    rw [find?_eq_none]
    intro p hp
    simpa using h p hp
  rw [this]

theorem scoreOf_le_max (t : TermList) (doc : Nat) (hub : ∀ p, p ∈ t.postings → p.2 ≤ t.maxScore) :
    t.scoreOf doc ≤ t.maxScore := by
  unfold TermList.scoreOf
  cases hf : t.postings.find? (·.1 == doc) with
  | none => exact Nat.zero_le _
  | some p => exact hub p (mem_of_find?_eq_some hf)

/-- the scorers are sorted by their current document and each current document is the least
remaining one of its list -/
structure SortedByCur (ts : List TermList) : Prop where
  own : ∀ t, t ∈ ts → ∀ d, t.cur = some d → ∀ p, p ∈ t.postings → d ≤ p.1
  sorted : ts.Pairwise (fun a b => ∀ d, a.cur = some d → ∀ p, p ∈ b.postings → d ≤ p.1)
  /-- an exhausted scorer has no postings left -/
  exhausted : ∀ t, t ∈ ts → t.cur = none → t.postings = []

theorem SortedByCur.tail {t : TermList} {ts : List TermList} (h : SortedByCur (t :: ts)) :
    SortedByCur ts where
  own t' ht' := h.own t' (by simp [ht'])
  sorted := (pairwise_cons.mp h.sorted).2
  exhausted t' ht' := h.exhausted t' (by simp [ht'])

theorem findPivot_sound (θ : Nat) (ts : List TermList) (acc : Nat) (hacc : acc ≤ θ)
    (hs : SortedByCur ts) (hub : ∀ t, t ∈ ts → ∀ p, p ∈ t.postings → p.2 ≤ t.maxScore) :
    (∀ piv, findPivot θ ts acc = some piv → ∀ doc, doc < piv → acc + totalScore ts doc ≤ θ) ∧
    (findPivot θ ts acc = none → ∀ doc, acc + totalScore ts doc ≤ θ) := by
  induction ts generalizing acc with
  | nil => simp [findPivot, totalScore, hacc]
  | cons t ts ih =>
    have hub' : ∀ t', t' ∈ ts → ∀ p, p ∈ t'.postings → p.2 ≤ t'.maxScore :=
      fun t' ht' => hub t' (by simp [ht'])
    have htot : ∀ doc, totalScore (t :: ts) doc = t.scoreOf doc + totalScore ts doc := by
      intro doc; simp [totalScore]
    unfold findPivot
    cases hc : t.cur with
    | none =>
      have hz : ∀ doc, t.scoreOf doc = 0 := by
        intro doc
        apply scoreOf_eq_zero
        rw [hs.exhausted t (by simp) hc]; simp
      have := ih acc hacc hs.tail hub'
      simp only [htot, hz, Nat.zero_add]
      exact this
    | some d =>
      simp only
      split
      · rename_i hlt
        refine ⟨?_, by simp⟩
        intro piv hp doc hdoc
        simp only [Option.some.injEq] at hp
        subst hp
        -- nothing positioned at or after the pivot contains an earlier document
        have h0 : t.scoreOf doc = 0 := scoreOf_eq_zero t doc fun p hp' he => by
          have := hs.own t (by simp) d hc p hp'; omega
        have hrest : ∀ l : List TermList, (∀ t', t' ∈ l → ∀ p, p ∈ t'.postings → d ≤ p.1) →
            totalScore l doc = 0 := by
          intro l hl
          induction l with
          | nil => rfl
          | cons x xs ihx =>
            have hx0 : x.scoreOf doc = 0 := scoreOf_eq_zero x doc fun p hp' he => by
              have := hl x (by simp) p hp'; omega
            have : totalScore (x :: xs) doc = x.scoreOf doc + totalScore xs doc := by simp [totalScore]
            rw [this, hx0, ihx fun t' ht' => hl t' (by simp [ht'])]
        have hts : totalScore ts doc = 0 :=
          hrest ts fun t' ht' p hp' => (pairwise_cons.mp hs.sorted).1 t' ht' d hc p hp'
        rw [htot, h0, hts]; omega
      · rename_i hge
        have hacc' : acc + t.maxScore ≤ θ := by omega
        have := ih (acc + t.maxScore) hacc' hs.tail hub'
        have hle := fun doc => scoreOf_le_max t doc (hub t (by simp))
        constructor
        · intro piv hp doc hdoc
          have := this.1 piv hp doc hdoc
          have := hle doc
          rw [htot]; omega
        · intro hn doc
          have := this.2 hn doc
          have := hle doc
          rw [htot]; omega

/-- the block-max refinement of `block_wand`: if the scorers at or before the pivot sit on blocks
whose bounds add up to at most the threshold, no document that lies within all these blocks and
before the current document of every other scorer can beat the threshold — this is the range
`[pivot_doc, doc_to_seek_after)` that `block_max_was_too_low_advance_one_scorer` passes over. -/
theorem blockRule_sound (θ : Nat) (prefix_ : List BlockView) (suffix : List TermList) (doc : Nat)
    (hub : ∀ b, b ∈ prefix_ → ∀ p, p ∈ b.t.postings → p.1 ≤ b.lastDoc → p.2 ≤ b.blockMax)
    (hin : ∀ b, b ∈ prefix_ → doc ≤ b.lastDoc)
    (hsuf : ∀ t, t ∈ suffix → ∀ p, p ∈ t.postings → doc < p.1)
    (hsum : (prefix_.map (·.blockMax)).sum ≤ θ) :
    totalScore (prefix_.map (·.t) ++ suffix) doc ≤ θ := by
  have hsuf0 : totalScore suffix doc = 0 := by
    induction suffix with
    | nil => rfl
    | cons x xs ih =>
      have hx0 : x.scoreOf doc = 0 := scoreOf_eq_zero x doc fun p hp' he => by
        have := hsuf x (by simp) p hp'; omega
      have : totalScore (x :: xs) doc = x.scoreOf doc + totalScore xs doc := by simp [totalScore]
      rw [this, hx0, ih fun t' ht' => hsuf t' (by simp [ht'])]
  have happ : ∀ l₁ l₂ : List TermList, totalScore (l₁ ++ l₂) doc = totalScore l₁ doc + totalScore l₂ doc := by
    intro l₁ l₂; simp [totalScore]
  rw [happ, hsuf0, Nat.add_zero]
  suffices h : totalScore (prefix_.map (·.t)) doc ≤ (prefix_.map (·.blockMax)).sum by omega
  induction prefix_ with
  | nil => simp [totalScore]
  | cons b bs ih =>
    have hb : b.t.scoreOf doc ≤ b.blockMax := by
      unfold TermList.scoreOf
      cases hf : b.t.postings.find? (·.1 == doc) with
      | none => exact Nat.zero_le _
      | some p =>
        have hp := mem_of_find?_eq_some hf
        have hd : p.1 = doc := by simpa using find?_some hf
        exact hub b (by simp) p hp (by rw [hd]; exact hin b (by simp))
    have hrest := ih (fun b' hb' => hub b' (by simp [hb'])) (fun b' hb' => hin b' (by simp [hb']))
      (by simp only [map_cons, sum_cons] at hsum; omega)
    simp only [map_cons, sum_cons, totalScore] at hrest ⊢
    omega

end TantivyModel.Wand
