import TantivyModel.Proofs.MergeWF
import TantivyModel.Proofs.MergeKeys
/-! merge of merges, per term: the posting list of every key (C04) -/
namespace TantivyModel.Merge

/-- canonical form of the live posting list of key `k` over the sources, starting at new id `b` -/
def cfFrom {α} (k : Key) : Nat → List (Segment α) → List Posting
  | _, [] => []
  | b, s :: rest =>
    shift b (livePostings s.alive (postingsOf s.terms k)) ++ cfFrom k (b + s.alive.count true) rest

/-- the posting list of `k` in the logical content of the concatenation -/
def specPostings {α} (k : Key) (X : List (Segment α)) : List Posting :=
  livePostings ((X.map (·.alive)).flatten) (concatPostings k X 0)

theorem postingsOf_bound {α} (x : Segment α) (k : Key)
    (hpost : ∀ t ∈ x.terms, postingsOk x.alive.length t.2 = true) :
    ∀ p ∈ postingsOf x.terms k, p.doc < x.alive.length := by
  unfold postingsOf
  cases hl : x.terms.lookup k with
  | none => simp
  | some ps =>
    have hm : (k, ps) ∈ x.terms := by
      obtain ⟨l1, l2, he, _⟩ := List.lookup_eq_some_iff.1 hl
      rw [he]; simp
    exact postingsOk_bound _ _ (hpost (k, ps) hm)

theorem specPostings_cf_gen {α} (k : Key) (A : List Bool) (rest : List (Segment α))
    (hpost : ∀ s ∈ rest, ∀ t ∈ s.terms, postingsOk s.alive.length t.2 = true) :
    livePostings (A ++ (rest.map (·.alive)).flatten) (concatPostings k rest A.length)
      = cfFrom k (A.count true) rest := by
  induction rest generalizing A with
  | nil => simp [concatPostings, cfFrom, livePostings]
  | cons x rest' ih =>
    simp only [concatPostings, cfFrom, List.map_cons, List.flatten_cons]
    rw [livePostings_append,
      livePostings_shift_mid A x.alive _ _ (postingsOf_bound x k (hpost x (by simp)))]
    congr 1
    have := ih (A ++ x.alive) (fun s hs => hpost s (by simp [hs]))
    simp only [List.length_append, List.count_append, List.append_assoc] at this
    exact this

theorem specPostings_cf {α} (k : Key) (X : List (Segment α))
    (hpost : ∀ s ∈ X, ∀ t ∈ s.terms, postingsOk s.alive.length t.2 = true) :
    specPostings k X = cfFrom k 0 X := by
  have := specPostings_cf_gen k [] X hpost
  simpa [specPostings] using this

theorem shift_shift (a b : Nat) (ps : List Posting) : shift a (shift b ps) = shift (b + a) ps := by
  simp [shift, List.map_map, Function.comp, Nat.add_assoc]

theorem shift_append (a : Nat) (p q : List Posting) : shift a (p ++ q) = shift a p ++ shift a q := by
  simp [shift]

theorem shift_cfFrom {α} (k : Key) (a b : Nat) (g : List (Segment α)) :
    shift a (cfFrom k b g) = cfFrom k (b + a) g := by
  induction g generalizing b with
  | nil => simp [cfFrom, shift]
  | cons s rest ih =>
    simp only [cfFrom, shift_append, shift_shift, ih]
    congr 2
    omega

theorem cfFrom_append {α} (k : Key) (b : Nat) (g1 g2 : List (Segment α)) :
    cfFrom k b (g1 ++ g2) = cfFrom k b g1 ++ cfFrom k (b + ((g1.map fun s => s.alive.count true).sum)) g2 := by
  induction g1 generalizing b with
  | nil => simp [cfFrom]
  | cons s rest ih =>
    simp only [List.cons_append, cfFrom, ih, List.map_cons, List.sum_cons, List.append_assoc]
    congr 3
    omega

/-- canonical form over groups of sources -/
def cfGroups {α} (k : Key) : Nat → List (List (Segment α)) → List Posting
  | _, [] => []
  | b, g :: rest => cfFrom k b g ++ cfGroups k (b + (g.map fun s => s.alive.count true).sum) rest

theorem cfFrom_flatten {α} (k : Key) (b : Nat) (groups : List (List (Segment α))) :
    cfFrom k b groups.flatten = cfGroups k b groups := by
  induction groups generalizing b with
  | nil => simp [cfFrom, cfGroups]
  | cons g rest ih => simp only [List.flatten_cons, cfFrom_append, cfGroups, ih]

theorem lookup_map_fun {β} (K : List Key) (G : Key → β) (k : Key) :
    List.lookup k (K.map fun x => (x, G x)) = if k ∈ K then some (G k) else none := by
  induction K with
  | nil => simp
  | cons x rest ih =>
    simp only [List.map_cons, List.lookup_cons, List.mem_cons]
    by_cases h : k = x
    · subst h; simp
    · have : (k == x) = false := by simpa using h
      simp [this, ih, h]

theorem mergeModel_terms_eq {α} (g : List (Segment α)) :
    (mergeModel g).terms
      = ((allKeys g).filter fun k => decide ((mergedTermFrom (oldToNew g) k 0 g).1 > 0)).map
          fun k => (k, (mergedTermFrom (oldToNew g) k 0 g).2) := by
  simp only [mergeModel, mergedTerms]
  generalize allKeys g = K
  induction K with
  | nil => rfl
  | cons k rest ih =>
    simp only [List.map_cons, List.filter_cons]
    by_cases h : (mergedTermFrom (oldToNew g) k 0 g).1 > 0
    · simp only [h, decide_true, if_true, List.map_cons]
      rw [ih]
    · simp only [h, decide_false, Bool.false_eq_true, if_false]
      exact ih

theorem postingsOf_nil_of_not_key {α} (g : List (Segment α)) (k : Key) (h : k ∉ allKeys g) :
    ∀ s ∈ g, postingsOf s.terms k = [] := by
  intro s hs
  unfold postingsOf
  cases hl : s.terms.lookup k with
  | none => rfl
  | some ps =>
    exfalso
    apply h
    have hm : (k, ps) ∈ s.terms := by
      obtain ⟨l1, l2, he, _⟩ := List.lookup_eq_some_iff.1 hl
      rw [he]; simp
    exact ((keyUnion_props (g.map fun s => s.terms.map Prod.fst)).2 k).2
      ⟨_, List.mem_map.2 ⟨s, hs, rfl⟩, List.mem_map.2 ⟨(k, ps), hm, rfl⟩⟩

theorem cfFrom_nil_of_no_postings {α} (k : Key) (b : Nat) (g : List (Segment α))
    (h : ∀ s ∈ g, postingsOf s.terms k = []) : cfFrom k b g = [] := by
  induction g generalizing b with
  | nil => rfl
  | cons s rest ih =>
    simp only [cfFrom, h s (by simp), livePostings, List.filterMap_nil, shift, List.map_nil, List.nil_append]
    exact ih _ (fun x hx => h x (by simp [hx]))

/-- looking up `k` in the merged dictionary gives the canonical posting list of `k` over the
sources (empty when the key is absent or has no live document) -/
theorem postingsOf_mergeModel {α} (g : List (Segment α))
    (hpost : ∀ s ∈ g, ∀ t ∈ s.terms, postingsOk s.alive.length t.2 = true) (k : Key) :
    postingsOf (mergeModel g).terms k = cfFrom k 0 g := by
  have hF := mergedTermFrom_eq k [] g hpost
  simp only [List.nil_append, List.length_nil, List.map_nil, List.flatten_nil] at hF
  have hcf : (mergedTermFrom (oldToNew g) k 0 g).2 = cfFrom k 0 g := by
    rw [hF.1]
    exact specPostings_cf k g hpost
  unfold postingsOf
  rw [mergeModel_terms_eq, lookup_map_fun]
  by_cases hin : k ∈ (allKeys g).filter fun k => decide ((mergedTermFrom (oldToNew g) k 0 g).1 > 0)
  · simp only [hin, if_true]
    exact hcf
  · simp only [hin, if_false]
    symm
    rw [List.mem_filter] at hin
    by_cases hk : k ∈ allKeys g
    · have hdf : ¬ (mergedTermFrom (oldToNew g) k 0 g).1 > 0 := fun h => hin ⟨hk, by simpa using h⟩
      have hlen : (mergedTermFrom (oldToNew g) k 0 g).2.length = 0 := by
        have := hF.2; omega
      rw [← hcf]
      exact List.eq_nil_of_length_eq_zero hlen
    · exact cfFrom_nil_of_no_postings k 0 g (postingsOf_nil_of_not_key g k hk)

theorem mergeModel_alive_count {α} (g : List (Segment α)) :
    (mergeModel g).alive.count true = (g.map fun s => s.alive.count true).sum := by
  show (List.replicate (newToOld g).length true).count true = _
  rw [List.count_replicate_self, newToOld, newToOldFrom_length]

theorem cfFrom_bound {α} (k : Key) (g : List (Segment α))
    (hpost : ∀ s ∈ g, ∀ t ∈ s.terms, postingsOk s.alive.length t.2 = true) :
    ∀ p ∈ cfFrom k 0 g, p.doc < ((g.map (·.alive)).flatten).count true := by
  rw [← specPostings_cf k g hpost]
  exact livePostings_bound _ _

theorem cfFrom_map_mergeModel {α} (k : Key) (b : Nat) (groups : List (List (Segment α)))
    (hpost : ∀ g ∈ groups, ∀ s ∈ g, ∀ t ∈ s.terms, postingsOk s.alive.length t.2 = true) :
    cfFrom k b (groups.map mergeModel) = cfGroups k b groups := by
  induction groups generalizing b with
  | nil => rfl
  | cons g rest ih =>
    have hg := hpost g (by simp)
    simp only [List.map_cons, cfFrom, cfGroups]
    rw [postingsOf_mergeModel g hg k, mergeModel_alive_count,
      ih _ (fun g' hg' => hpost g' (List.mem_cons_of_mem _ hg'))]
    congr 1
    -- all documents of the merged segment are alive: `livePostings` does not renumber
    have hal : (mergeModel g).alive = List.replicate ((g.map (·.alive)).flatten.count true) true := by
      show List.replicate (newToOld g).length true = _
      rw [newToOld, newToOldFrom_length, List.count_flatten, List.map_map]
      rfl
    rw [hal, livePostings_replicate_true _ _ (cfFrom_bound k g hg), shift_cfFrom]
    simp

/-- MERGE OF MERGES, per term: the live posting list of every key over the merged groups is the
live posting list of that key over all original sources -/
theorem specPostings_merge_of_merges {α} (groups : List (List (Segment α)))
    (hlen : ∀ g ∈ groups, ∀ s ∈ g, s.docs.length = s.alive.length)
    (hpost : ∀ g ∈ groups, ∀ s ∈ g, ∀ t ∈ s.terms, postingsOk s.alive.length t.2 = true) (k : Key) :
    specPostings k (groups.map mergeModel) = specPostings k groups.flatten := by
  have hwfm : ∀ s ∈ groups.map mergeModel, ∀ t ∈ s.terms, postingsOk s.alive.length t.2 = true := by
    intro s hs
    obtain ⟨g, hg, rfl⟩ := List.mem_map.1 hs
    exact (mergeModel_wf g (hlen g hg) (hpost g hg)).2
  have hflat : ∀ s ∈ groups.flatten, ∀ t ∈ s.terms, postingsOk s.alive.length t.2 = true := by
    intro s hs
    obtain ⟨g, hg, hsg⟩ := List.mem_flatten.1 hs
    exact hpost g hg s hsg
  rw [specPostings_cf _ _ hwfm, specPostings_cf _ _ hflat, cfFrom_map_mergeModel k 0 groups hpost,
    cfFrom_flatten]

/-! ### the key lists -/

theorem klt_not_mem_head (a : Key) (as : List Key) (h : (a :: as).Pairwise KLt) : a ∉ as := by
  intro hin
  rw [List.pairwise_cons] at h
  have := h.1 a hin
  unfold KLt at this
  rw [keyLt_irrefl] at this; cases this

/-- two strictly sorted key lists with the same members are equal -/
theorem sorted_ext (l1 l2 : List Key) (h1 : l1.Pairwise KLt) (h2 : l2.Pairwise KLt)
    (hm : ∀ k, k ∈ l1 ↔ k ∈ l2) : l1 = l2 := by
  induction l1 generalizing l2 with
  | nil =>
    cases l2 with
    | nil => rfl
    | cons b bs => exact absurd ((hm b).2 (by simp)) (by simp)
  | cons a as ih =>
    cases l2 with
    | nil => exact absurd ((hm a).1 (by simp)) (by simp)
    | cons b bs =>
      have hab : a = b := by
        by_cases hab : a = b
        · exact hab
        · exfalso
          have ha : a ∈ bs := by
            have := (hm a).1 (by simp)
            rw [List.mem_cons] at this
            rcases this with h | h
            · exact absurd h hab
            · exact h
          have hb : b ∈ as := by
            have := (hm b).2 (by simp)
            rw [List.mem_cons] at this
            rcases this with h | h
            · exact absurd h.symm hab
            · exact h
          rw [List.pairwise_cons] at h1 h2
          have h3 := keyLt_trans a b a (h1.1 b hb) (h2.1 a ha)
          rw [keyLt_irrefl] at h3; cases h3
      subst hab
      congr 1
      apply ih bs (List.Pairwise.of_cons h1) (List.Pairwise.of_cons h2)
      intro k
      have hna := klt_not_mem_head a as h1
      have hnb := klt_not_mem_head a bs h2
      constructor
      · intro hk
        have := (hm k).1 (List.mem_cons_of_mem _ hk)
        rw [List.mem_cons] at this
        rcases this with h | h
        · subst h; exact absurd hk hna
        · exact h
      · intro hk
        have := (hm k).2 (List.mem_cons_of_mem _ hk)
        rw [List.mem_cons] at this
        rcases this with h | h
        · subst h; exact absurd hk hnb
        · exact h

theorem dropEmpty_map (K : List Key) (L : Key → List Posting) :
    dropEmpty (K.map fun k => (k, L k)) = (K.filter fun k => !(L k).isEmpty).map fun k => (k, L k) := by
  induction K with
  | nil => rfl
  | cons k rest ih =>
    simp only [List.map_cons, dropEmpty, List.filter_cons] at ih ⊢
    by_cases h : (L k).isEmpty = true
    · simp only [h, Bool.not_true, Bool.false_eq_true, if_false]; exact ih
    · simp only [h, Bool.not_false, if_true, List.map_cons]; rw [ih]

theorem cfGroups_ne_nil {α} (k : Key) (b : Nat) (groups : List (List (Segment α)))
    (h : cfGroups k b groups ≠ []) : ∃ g ∈ groups, cfFrom k 0 g ≠ [] := by
  induction groups generalizing b with
  | nil => exact absurd rfl h
  | cons g rest ih =>
    simp only [cfGroups] at h
    by_cases hg : cfFrom k b g = []
    · rw [hg, List.nil_append] at h
      obtain ⟨g', hg', hne⟩ := ih _ h
      exact ⟨g', List.mem_cons_of_mem _ hg', hne⟩
    · refine ⟨g, by simp, ?_⟩
      intro h0
      apply hg
      have := shift_cfFrom k b 0 g
      rw [h0] at this
      simpa [shift] using this.symm

theorem key_of_postingsOf_ne_nil (ts : List (Key × List Posting)) (k : Key) (h : postingsOf ts k ≠ []) :
    k ∈ ts.map Prod.fst := by
  unfold postingsOf at h
  cases hl : ts.lookup k with
  | none => rw [hl] at h; exact absurd rfl h
  | some ps =>
    obtain ⟨l1, l2, he, _⟩ := List.lookup_eq_some_iff.1 hl
    rw [he]; simp

theorem mergeSpec_terms {α} (X : List (Segment α)) :
    (mergeSpec X).terms = dropEmpty ((allKeys X).map fun k => (k, specPostings k X)) := by
  simp only [mergeSpec, dump, concat, List.map_map]
  rfl

/-- MERGE OF MERGES, terms component: same keys, same posting lists -/
theorem mergeSpec_terms_merge_of_merges {α} (groups : List (List (Segment α)))
    (hlen : ∀ g ∈ groups, ∀ s ∈ g, s.docs.length = s.alive.length)
    (hpost : ∀ g ∈ groups, ∀ s ∈ g, ∀ t ∈ s.terms, postingsOk s.alive.length t.2 = true) :
    (mergeSpec (groups.map mergeModel)).terms = (mergeSpec groups.flatten).terms := by
  have hA := specPostings_merge_of_merges groups hlen hpost
  have hflatpost : ∀ s ∈ groups.flatten, ∀ t ∈ s.terms, postingsOk s.alive.length t.2 = true := by
    intro s hs
    obtain ⟨g, hg, hsg⟩ := List.mem_flatten.1 hs
    exact hpost g hg s hsg
  rw [mergeSpec_terms, mergeSpec_terms]
  have hfun : (fun k => (k, specPostings k (groups.map mergeModel)))
      = fun k => (k, specPostings k groups.flatten) := by
    funext k; rw [hA k]
  rw [hfun, dropEmpty_map, dropEmpty_map]
  congr 1
  have hs1 := (keyUnion_props ((groups.map mergeModel).map fun s => s.terms.map Prod.fst)).1
  have hs2 := (keyUnion_props (groups.flatten.map fun s => s.terms.map Prod.fst)).1
  have hm1 := (keyUnion_props ((groups.map mergeModel).map fun s => s.terms.map Prod.fst)).2
  have hm2 := (keyUnion_props (groups.flatten.map fun s => s.terms.map Prod.fst)).2
  apply sorted_ext _ _ (hs1.sublist List.filter_sublist) (hs2.sublist List.filter_sublist)
  intro k
  simp only [List.mem_filter]
  constructor
  · rintro ⟨hk, hp⟩
    refine ⟨?_, hp⟩
    -- a key of a merged dictionary is a key of one of that group's sources
    obtain ⟨ks, hks, hkin⟩ := (hm1 k).1 hk
    obtain ⟨m, hmm, rfl⟩ := List.mem_map.1 hks
    obtain ⟨g, hg, rfl⟩ := List.mem_map.1 hmm
    rw [mergeModel_terms_eq, List.map_map] at hkin
    obtain ⟨k', hk', rfl⟩ := List.mem_map.1 hkin
    have hk'' : k' ∈ allKeys g := (List.mem_filter.1 hk').1
    obtain ⟨ks', hks', hkin'⟩ := ((keyUnion_props (g.map fun s : Segment α => s.terms.map Prod.fst)).2 k').1 hk''
    obtain ⟨s, hs, rfl⟩ := List.mem_map.1 hks'
    exact (hm2 k').2 ⟨_, List.mem_map.2 ⟨s, List.mem_flatten.2 ⟨g, hg, hs⟩, rfl⟩, hkin'⟩
  · rintro ⟨_, hp⟩
    refine ⟨?_, hp⟩
    have hne : specPostings k groups.flatten ≠ [] := by
      intro h0; rw [h0] at hp; simp at hp
    rw [specPostings_cf _ _ hflatpost, cfFrom_flatten] at hne
    obtain ⟨g, hg, hgne⟩ := cfGroups_ne_nil k 0 groups hne
    rw [← postingsOf_mergeModel g (hpost g hg) k] at hgne
    have := key_of_postingsOf_ne_nil _ k hgne
    exact (hm1 k).2 ⟨_, List.mem_map.2 ⟨mergeModel g, List.mem_map.2 ⟨g, hg, rfl⟩, rfl⟩, this⟩

/-! ### sources without a live document are dropped (`IndexMerger::open`) -/

theorem livePostings_nil_of_no_live (al : List Bool) (ps : List Posting) (h : al.count true = 0) :
    livePostings al ps = [] := by
  unfold livePostings
  rw [List.filterMap_eq_nil_iff]
  intro p _
  have : isAlive al p.doc = false := by
    cases hi : isAlive al p.doc with
    | false => rfl
    | true =>
      have := rank_lt_count al p.doc hi
      omega
  simp [this]

theorem liveDocs_nil_of_no_live {α} (docs : List α) (al : List Bool) (h : al.count true = 0) :
    liveDocs docs al = [] := by
  induction docs generalizing al with
  | nil => cases al <;> rfl
  | cons d ds ih =>
    cases al with
    | nil => rfl
    | cons a as =>
      cases a
      · simp only [liveDocs, Bool.false_eq_true, if_false]
        exact ih as (by simpa using h)
      · simp at h

theorem cfFrom_filter_hasLive {α} (k : Key) (b : Nat) (X : List (Segment α)) :
    cfFrom k b (X.filter hasLive) = cfFrom k b X := by
  induction X generalizing b with
  | nil => rfl
  | cons s rest ih =>
    by_cases h : 0 < s.alive.count true
    · simp only [List.filter_cons, hasLive, h, decide_true, if_true, cfFrom, ih]
    · have h0 : s.alive.count true = 0 := by omega
      simp only [List.filter_cons, hasLive, h, decide_false, Bool.false_eq_true, if_false, cfFrom,
        livePostings_nil_of_no_live _ _ h0, shift, List.map_nil, List.nil_append, h0, Nat.add_zero]
      exact ih b

theorem cfFrom_ne_nil_source {α} (k : Key) (b : Nat) (X : List (Segment α)) (h : cfFrom k b X ≠ []) :
    ∃ s ∈ X, livePostings s.alive (postingsOf s.terms k) ≠ [] := by
  induction X generalizing b with
  | nil => exact absurd rfl h
  | cons s rest ih =>
    simp only [cfFrom] at h
    by_cases hs : livePostings s.alive (postingsOf s.terms k) = []
    · rw [hs] at h
      simp only [shift, List.map_nil, List.nil_append] at h
      obtain ⟨s', hs', hne⟩ := ih _ h
      exact ⟨s', List.mem_cons_of_mem _ hs', hne⟩
    · exact ⟨s, by simp, hs⟩

/-- dropping the sources that hold no live document changes nothing of the logical content -/
theorem mergeSpec_filter_hasLive {α} (X : List (Segment α))
    (hlen : ∀ s ∈ X, s.docs.length = s.alive.length)
    (hpost : ∀ s ∈ X, ∀ t ∈ s.terms, postingsOk s.alive.length t.2 = true) :
    mergeSpec (X.filter hasLive) = mergeSpec X := by
  have hlenF : ∀ s ∈ X.filter hasLive, s.docs.length = s.alive.length :=
    fun s hs => hlen s (List.mem_filter.1 hs).1
  have hpostF : ∀ s ∈ X.filter hasLive, ∀ t ∈ s.terms, postingsOk s.alive.length t.2 = true :=
    fun s hs => hpost s (List.mem_filter.1 hs).1
  have hsp : ∀ k, specPostings k (X.filter hasLive) = specPostings k X := by
    intro k
    rw [specPostings_cf _ _ hpostF, specPostings_cf _ _ hpost, cfFrom_filter_hasLive]
  have hdocs : (mergeSpec (X.filter hasLive)).docs = (mergeSpec X).docs := by
    rw [mergeSpec_docs _ hlenF, mergeSpec_docs _ hlen]
    clear hlenF hpostF hsp hlen hpost
    induction X with
    | nil => rfl
    | cons s rest ih =>
      by_cases h : 0 < s.alive.count true
      · simp only [List.filter_cons, hasLive, h, decide_true, if_true, List.map_cons, List.flatten_cons, ih]
      · have h0 : s.alive.count true = 0 := by omega
        simp only [List.filter_cons, hasLive, h, decide_false, Bool.false_eq_true, if_false, List.map_cons,
          List.flatten_cons, liveDocs_nil_of_no_live _ _ h0, List.nil_append]
        exact ih
  have hterms : (mergeSpec (X.filter hasLive)).terms = (mergeSpec X).terms := by
    rw [mergeSpec_terms, mergeSpec_terms]
    have hfun : (fun k => (k, specPostings k (X.filter hasLive))) = fun k => (k, specPostings k X) := by
      funext k; rw [hsp k]
    rw [hfun, dropEmpty_map, dropEmpty_map]
    congr 1
    have p1 := keyUnion_props ((X.filter hasLive).map fun s : Segment α => s.terms.map Prod.fst)
    have p2 := keyUnion_props (X.map fun s : Segment α => s.terms.map Prod.fst)
    apply sorted_ext _ _ (p1.1.sublist List.filter_sublist) (p2.1.sublist List.filter_sublist)
    intro k
    simp only [List.mem_filter]
    constructor
    · rintro ⟨hk, hp⟩
      refine ⟨?_, hp⟩
      obtain ⟨ks, hks, hkin⟩ := (p1.2 k).1 hk
      obtain ⟨s, hs, rfl⟩ := List.mem_map.1 hks
      exact (p2.2 k).2 ⟨_, List.mem_map.2 ⟨s, (List.mem_filter.1 hs).1, rfl⟩, hkin⟩
    · rintro ⟨_, hp⟩
      refine ⟨?_, hp⟩
      have hne : specPostings k X ≠ [] := by
        intro h0; rw [h0] at hp; simp at hp
      rw [specPostings_cf _ _ hpost] at hne
      obtain ⟨s, hs, hsne⟩ := cfFrom_ne_nil_source k 0 X hne
      have hlive : hasLive s = true := by
        unfold hasLive
        by_cases h : 0 < s.alive.count true
        · simp [h]
        · exact absurd (livePostings_nil_of_no_live _ _ (by omega)) hsne
      have hkey : k ∈ s.terms.map Prod.fst := by
        apply key_of_postingsOf_ne_nil
        intro h0
        rw [h0] at hsne
        exact hsne rfl
      exact (p1.2 k).2 ⟨_, List.mem_map.2 ⟨s, List.mem_filter.2 ⟨hs, hlive⟩, rfl⟩, hkey⟩
  cases e1 : mergeSpec (X.filter hasLive) with
  | mk d1 t1 =>
    cases e2 : mergeSpec X with
    | mk d2 t2 =>
      rw [e1, e2] at hdocs hterms
      simp only at hdocs hterms
      rw [hdocs, hterms]

end TantivyModel.Merge
