import TantivyModel.Proofs.BlockWandLoop
/-!
The mirrored `block_wand` loop is a run of the pruning machine: every iteration is a dead move
(`block_max_was_too_low_advance_one_scorer`, `align_scorers`) or the scoring of the smallest
current document (`advance_all_scorers_on_pivot` afterwards), and it stops only when every
remaining document is dead — given `UB_max` and `UB_block` (part of `WF`).
-/
namespace TantivyModel.BlockWand
open List TantivyModel.Wand

theorem mem_take_getElem? {β : Type} {l : List β} {n : Nat} {x : β} (h : x ∈ l.take n) :
    ∃ k, k < n ∧ l[k]? = some x := by
  obtain ⟨k, hk, rfl⟩ := getElem_of_mem h
  have hk' : k < n ∧ k < l.length := by
    have := hk; rw [length_take] at this; omega
  exact ⟨k, hk'.1, by rw [getElem_take]; exact (getElem?_eq_getElem hk'.2)⟩

theorem take_pred_append_last {β : Type} (l : List β) (n : Nat) (hn : 0 < n) (hl : l.length = n) (x : β)
    (hx : l[n - 1]? = some x) : l = l.take (n - 1) ++ [x] := by
  have hlt : n - 1 < l.length := by omega
  conv => lhs; rw [← take_append_drop (n - 1) l]
  congr 1
  rw [drop_eq_getElem_cons hlt]
  rw [getElem?_eq_getElem hlt] at hx
  have hd : l.drop (n - 1 + 1) = [] := by rw [drop_eq_nil_iff]; omega
  rw [hd, Option.some.inj hx]

/-- the array after the shallow seeks of an iteration -/
def shallow (arr : List S) (pl pd : Nat) : List S := (arr.take pl).map (·.seekBlock pd) ++ arr.drop pl

theorem shallow_tot (arr : List S) (pl pd d : Nat) : tot (shallow arr pl pd) d = tot arr d := by
  unfold shallow
  rw [tot_append, tot_map_seekBlock, ← tot_append, take_append_drop]

theorem shallow_inv {lo : Nat} {arr : List S} (h : Inv lo arr) (pl pd : Nat) : Inv lo (shallow arr pl pd) := by
  unfold shallow
  constructor
  · intro s hs
    rcases mem_append.mp hs with hs | hs
    · obtain ⟨x, hx, rfl⟩ := mem_map.mp hs
      exact (h.wf x (mem_of_mem_take hx)).seekBlock pd
    · exact h.wf s (mem_of_mem_drop hs)
  · intro s hs p hp
    rcases mem_append.mp hs with hs | hs
    · obtain ⟨x, hx, rfl⟩ := mem_map.mp hs
      rw [seekBlock_rest] at hp
      exact h.ge x (mem_of_mem_take hx) p hp
    · exact h.ge s (mem_of_mem_drop hs) p hp

/-- `block_max_was_too_low_advance_one_scorer` only passes dead documents -/
theorem tooLow_step {lo θ : Nat} {arr : List S} {bl pl pd : Nat} (hinv : Inv lo arr)
    (hshape : PivotShape θ arr bl pl pd)
    (hub : sumBy TS.blockMax ((shallow arr pl pd).take pl) ≤ θ)
    (hskip : ((shallow arr pl pd).take pl).all (fun s => s.skip == s.blockIdx pd) = true) :
    Lower (fun d => tot arr d ≤ θ) arr (blockMaxTooLow (shallow arr pl pd) pl) ∧
      Inv lo (blockMaxTooLow (shallow arr pl pd) pl) := by
  obtain ⟨pre, s, mid, suf, hl, hbl, hpl, hsd, hmid, hsuf, _, _⟩ := hshape.split
  have hinv1 := shallow_inv hinv pl pd
  -- the prefix (scorers up to the pivot) and the suffix
  have htake : arr.take pl = pre ++ s :: mid := by
    rw [hl]
    have : pre ++ s :: (mid ++ suf) = (pre ++ s :: mid) ++ suf := by simp
    rw [this, take_left' (by simp; omega)]
  have hdrop : arr.drop pl = suf := by
    rw [hl]
    have : pre ++ s :: (mid ++ suf) = (pre ++ s :: mid) ++ suf := by simp
    rw [this, drop_left' (by simp; omega)]
  generalize hP : (pre ++ s :: mid).map (·.seekBlock pd) = P' at *
  have hPlen : P'.length = pl := by rw [← hP]; simp; omega
  have harr1 : shallow arr pl pd = P' ++ suf := by unfold shallow; rw [htake, hdrop, hP]
  have htake1 : (shallow arr pl pd).take pl = P' := by rw [harr1, take_left' hPlen]
  have hdrop1 : (shallow arr pl pd).drop pl = suf := by rw [harr1, drop_left' hPlen]
  rw [htake1] at hub hskip
  have hplpos : 0 < pl := by omega
  unfold blockMaxTooLow
  have hlast : (shallow arr pl pd)[pl - 1]? = P'[pl - 1]? := by
    rw [harr1, getElem?_append_left (by omega)]
  cases hlp : P'[pl - 1]? with
  | none => rw [getElem?_eq_none_iff] at hlp; omega
  | some lastPre =>
    rw [hlast, hlp]
    simp only
    have htk : (shallow arr pl pd).take (pl - 1) = P'.take (pl - 1) := by
      rw [harr1, take_append_of_le_length (by omega)]
    rw [htk]
    obtain ⟨hs1, hs2, hs3⟩ := tooLowScan_spec (P'.take (pl - 1)) (pl - 1, lastPre.maxScore, lastPre.lastDocInBlock)
    generalize tooLowScan (P'.take (pl - 1)) (pl - 1, lastPre.maxScore, lastPre.lastDocInBlock) = r at *
    simp only at hs1 hs3
    obtain ⟨ha1, ha2⟩ := seekAfter_spec (shallow arr pl pd) pl r.2.2
    rw [hdrop1] at ha2
    generalize seekAfter (shallow arr pl pd) pl r.2.2 = after at *
    have hr1 : r.1 < (shallow arr pl pd).length := by
      rw [harr1, length_append]
      rcases hs3 with h | h
      · omega
      · rw [length_take] at h; omega
    rw [getElem?_eq_getElem hr1]
    simp only
    obtain ⟨hlow, hinv2⟩ := lower_set_seek (shallow arr pl pd) hinv1 r.1 after _ (getElem?_eq_getElem hr1)
    refine ⟨?_, hinv2.of_subset fun x hx => (restoreOrdering_perm _ _).subset hx⟩
    -- totals only change at documents before `after`, all of which are dead
    have hP'split : P' = P'.take (pl - 1) ++ [lastPre] := take_pred_append_last P' pl hplpos hPlen lastPre hlp
    have hP'wf : ∀ x, x ∈ P' → WF x := fun x hx => hinv1.wf x (by rw [harr1]; exact mem_append_left _ hx)
    have hP'skip : ∀ x, x ∈ P' → x.skip = x.blockIdx pd := by
      intro x hx
      have := (all_eq_true.mp hskip) x hx
      simpa using this
    have hdead : ∀ d, d < after → tot arr d ≤ θ := by
      intro d hd
      rcases Nat.lt_or_ge d pd with hlt | hge
      · exact hshape.dead hinv.wf d hlt
      · rw [← shallow_tot arr pl pd d, harr1, tot_append]
        have hsuf0 : tot suf d = 0 := by
          apply tot_eq_zero
          intro x hx p hp hpe
          have := ha2 x hx
          have hxwf : WF x := hinv.wf x (by rw [hl]; simp [hx])
          have := doc_le_of_mem hxwf.asc hp
          omega
        have hle : ∀ x, x ∈ P' → d ≤ x.lastDocInBlock := by
          intro x hx
          rw [hP'split] at hx
          have hdr : d ≤ r.2.2 := by
            by_cases hT : r.2.2 ≠ T
            · rw [if_pos hT] at ha1; omega
            · rw [if_neg hT] at ha1; omega
          rcases mem_append.mp hx with hx | hx
          · have := hs2 x hx; omega
          · simp at hx; subst hx; omega
        have := tot_le_sum_blockMax P' hP'wf pd hP'skip d hge hle
        rw [sumBy_eq] at hub
        omega
    intro d
    have h1 := hlow d
    have h2 : tot (restoreOrdering ((shallow arr pl pd).set r.1 ((shallow arr pl pd)[r.1].seek after)) r.1) d
        = tot ((shallow arr pl pd).set r.1 ((shallow arr pl pd)[r.1].seek after)) d :=
      tot_perm (restoreOrdering_perm _ _) d
    rw [h2, ← shallow_tot arr pl pd d]
    refine ⟨h1.1, fun hne => ?_⟩
    exact hdead d (h1.2 hne)

/-- the mirrored loop of `block_wand` is a run of the pruning machine -/
theorem wandLoop_run {σ : Type} (cb : σ → Nat → Nat → σ × Nat) :
    ∀ (fuel : Nat) (s : σ) (θ : Nat) (arr : List S) (out : σ × Nat) (lo : Nat), Inv lo arr →
      wandLoop cb fuel (s, θ) arr = .ok out → Run cb T (tot arr) lo (s, θ) out
  | 0, _, _, _, _, _, _, h => by simp [wandLoop] at h
  | fuel + 1, s, θ, arr, out, lo, hinv, h => by
    unfold wandLoop at h
    by_cases hsort : isSortedByDoc arr = true
    case neg => simp [hsort] at h
    simp only [hsort, Bool.not_true, Bool.false_eq_true, if_false] at h
    have hsorted := sorted_of_isSorted arr hsort
    cases hp : findPivotDoc θ arr with
    | none =>
      rw [hp] at h
      simp only [Outcome.ok.injEq] at h
      subst h
      exact Run.stop fun d _ hd => findPivotDoc_none hsorted hinv.wf hp d hd
    | some r =>
      obtain ⟨bl, pl, pd⟩ := r
      rw [hp] at h
      simp only at h
      have hshape := findPivotDoc_some hsorted hinv.wf hp
      change (if (!Sc.gt (sumBy TS.blockMax ((shallow arr pl pd).take pl)) θ) = true then _ else _) = _ at h
      by_cases hgt : Sc.gt (sumBy TS.blockMax ((shallow arr pl pd).take pl)) θ = true
      · -- block-max condition observed: align, then score the pivot
        simp only [hgt, Bool.not_true, Bool.false_eq_true, if_false] at h
        rw [show (map (fun x => x.seekBlock pd) (take pl arr) ++ drop pl arr) = shallow arr pl pd from rfl] at h
        obtain ⟨pre, sp, mid, suf, hl, hbl, hpl, hsd, hmid, hsuf, _, _⟩ := hshape.split
        have hinv1 := shallow_inv hinv pl pd
        have hblle : bl ≤ (shallow arr pl pd).length := by
          unfold shallow; rw [length_append, length_map, length_take, length_drop, hl]; simp; omega
        cases halign : alignScorers (shallow arr pl pd) pd bl with
        | mk arr2 b =>
          obtain ⟨hlow, hinv2, hb⟩ := align_spec pd bl (shallow arr pl pd) hinv1 hblle arr2 b halign
          have hdeadmove : ∀ d, lo ≤ d → d < T → tot arr2 d ≤ tot arr d ∧ (tot arr2 d ≠ tot arr d → tot arr d ≤ θ) := by
            intro d _ _
            have := hlow d
            rw [shallow_tot] at this
            exact ⟨this.1, fun hne => hshape.dead hinv.wf d (this.2 hne)⟩
          rw [halign] at h
          cases b with
          | false =>
            simp only at h
            exact Run.dead hdeadmove (wandLoop_run cb fuel s θ arr2 out lo hinv2 h)
          | true =>
            simp only at h
            obtain ⟨hlen, hpre, hdrop⟩ := hb rfl
            -- shape of arr2: the first `pl` scorers sit on the pivot, the others are behind it
            have harr1 : shallow arr pl pd = pre.map (·.seekBlock pd) ++ ((sp :: mid).map (·.seekBlock pd) ++ suf) := by
              unfold shallow
              have e1 : arr.take pl = pre ++ sp :: mid := by
                rw [hl]
                have : pre ++ sp :: (mid ++ suf) = (pre ++ sp :: mid) ++ suf := by simp
                rw [this, take_left' (by simp; omega)]
              have e2 : arr.drop pl = suf := by
                rw [hl]
                have : pre ++ sp :: (mid ++ suf) = (pre ++ sp :: mid) ++ suf := by simp
                rw [this, drop_left' (by simp; omega)]
              rw [e1, e2]; simp
            have hdrop1 : (shallow arr pl pd).drop bl = (sp :: mid).map (·.seekBlock pd) ++ suf := by
              rw [harr1, drop_left' (by simp; omega)]
            have harr2 : arr2 = arr2.take bl ++ ((sp :: mid).map (·.seekBlock pd) ++ suf) := by
              conv => lhs; rw [← take_append_drop bl arr2, hdrop, hdrop1]
            have hAlen : (arr2.take bl).length = bl := by rw [length_take, hlen]; omega
            generalize hA : arr2.take bl = A at harr2 hAlen
            have hAdoc : ∀ x, x ∈ A → x.doc = pd := by
              intro x hx
              rw [← hA] at hx
              obtain ⟨k, hk, hxk⟩ := mem_take_getElem? hx
              obtain ⟨y, hy, hyd⟩ := hpre k hk
              rw [hxk] at hy; cases hy; exact hyd
            have hMdoc : ∀ x, x ∈ (sp :: mid).map (·.seekBlock pd) → x.doc = pd := by
              intro x hx
              obtain ⟨y, hy, rfl⟩ := mem_map.mp hx
              rw [seekBlock_doc]
              rcases mem_cons.mp hy with rfl | hy
              · exact hsd
              · exact hmid y hy
            generalize hM : (sp :: mid).map (·.seekBlock pd) = M at harr2 hMdoc
            have hMlen : M.length = 1 + mid.length := by rw [← hM]; simp; omega
            have hP2 : arr2.take pl = A ++ M := by
              rw [harr2, ← append_assoc, take_left' (by simp; omega)]
            have hS2 : arr2.drop pl = suf := by
              rw [harr2, ← append_assoc, drop_left' (by simp; omega)]
            have hPdoc : ∀ x, x ∈ A ++ M → x.doc = pd := by
              intro x hx
              rcases mem_append.mp hx with hx | hx
              · exact hAdoc x hx
              · exact hMdoc x hx
            have hsufwf : ∀ x, x ∈ suf → WF x := fun x hx => hinv.wf x (by rw [hl]; simp [hx])
            have hsuf0 : ∀ e, e ≤ pd → tot suf e = 0 := by
              intro e he
              apply tot_eq_zero
              intro x hx p hp hpe
              have := hsuf x hx
              have := doc_le_of_mem (hsufwf x hx).asc hp
              omega
            have htot2 : ∀ e, tot arr2 e = tot (A ++ M) e + tot suf e := by
              intro e; conv => lhs; rw [harr2, ← append_assoc, tot_append]
            have hscore : sumBy TS.score (arr2.take pl) = tot arr2 pd := by
              rw [hP2, sumBy_eq, htot2, hsuf0 pd (Nat.le_refl _), tot_eq_sum_score (A ++ M) pd hshape.lt hPdoc]
              omega
            rw [hscore] at h
            have hPwf : ∀ x, x ∈ A ++ M → WF x := fun x hx => hinv2.wf x (by rw [harr2, ← append_assoc]; exact mem_append_left _ hx)
            -- lo ≤ pd: the pivot scorer has a posting at pd
            have hlopd : lo ≤ pd := by
              have hspm : sp ∈ arr := by rw [hl]; simp
              have hne : sp.rest ≠ [] := by
                intro hnil
                have := doc_eq_T_of_nil hnil
                have := hshape.lt; omega
              cases hr : sp.rest with
              | nil => exact absurd hr hne
              | cons p ps =>
                have hd : sp.doc = p.1 := by unfold TS.doc; rw [hr]
                have := hinv.ge sp hspm p (by rw [hr]; simp)
                omega
            refine Run.dead hdeadmove (Run.eval (tot' := tot (advanceAllOnPivot arr2 pl)) pd hlopd hshape.lt ?_ ?_ ?_)
            · -- nothing is left before the pivot
              intro e _ he
              rw [htot2, hsuf0 e (by omega)]
              have : tot (A ++ M) e = 0 := by
                apply tot_eq_zero
                intro x hx p hp hpe
                have := hPdoc x hx
                have := doc_le_of_mem (hPwf x hx).asc hp
                omega
              omega
            · -- the advances only touch the pivot document
              intro e he _
              unfold advanceAllOnPivot
              rw [hP2, hS2]
              have hinv' : Inv lo ((A ++ M).map TS.advance ++ suf) := by
                constructor
                · intro x hx
                  rcases mem_append.mp hx with hx | hx
                  · obtain ⟨y, hy, rfl⟩ := mem_map.mp hx
                    exact (hPwf y hy).advance
                  · exact hsufwf x hx
                · intro x hx p hp
                  rcases mem_append.mp hx with hx | hx
                  · obtain ⟨y, hy, rfl⟩ := mem_map.mp hx
                    rw [advance_rest] at hp
                    exact hinv2.ge y (by rw [harr2, ← append_assoc]; exact mem_append_left _ hy) p
                      ((tail_sublist _).subset hp)
                  · exact hinv.ge x (by rw [hl]; simp [hx]) p hp
              rw [tot_perm (sortByDoc_perm _) e, (removeTerminated_spec _ 0 _ hinv').1 e, tot_append,
                tot_map_advance (A ++ M) pd hPwf hPdoc hshape.lt e he, htot2]
            · -- continue from pd + 1
              have hinvN : Inv (pd + 1) (advanceAllOnPivot arr2 pl) := by
                unfold advanceAllOnPivot
                rw [hP2, hS2]
                have hbase : Inv (pd + 1) ((A ++ M).map TS.advance ++ suf) := by
                  constructor
                  · intro x hx
                    rcases mem_append.mp hx with hx | hx
                    · obtain ⟨y, hy, rfl⟩ := mem_map.mp hx
                      exact (hPwf y hy).advance
                    · exact hsufwf x hx
                  · intro x hx p hp
                    rcases mem_append.mp hx with hx | hx
                    · obtain ⟨y, hy, rfl⟩ := mem_map.mp hx
                      have hne : y.rest ≠ [] := by
                        intro hnil
                        have := doc_eq_T_of_nil hnil
                        have := hPdoc y hy
                        have := hshape.lt; omega
                      rw [advance_rest_seekP y (hPwf y hy).asc hne, hPdoc y hy] at hp
                      exact seekP_ge_of_asc (hPwf y hy).asc _ p hp
                    · have := hsuf x hx
                      have := doc_le_of_mem (hsufwf x hx).asc hp
                      omega
                exact (hbase.of_subset (removeTerminated_spec _ 0 _ hbase).2).of_subset
                  fun x hx => (sortByDoc_perm _).subset hx
              have hgtiff : (Sc.gt (tot arr2 pd) θ = true) ↔ θ < tot arr2 pd := by simp [sc_gt]
              by_cases hcall : θ < tot arr2 pd
              · rw [if_pos (hgtiff.mpr hcall)] at h
                rw [if_pos hcall]
                cases hcb : cb s pd (tot arr2 pd) with
                | mk s' θ' =>
                  rw [hcb] at h
                  exact wandLoop_run cb fuel s' θ' _ out (pd + 1) hinvN h
              · rw [if_neg (fun hc => hcall (hgtiff.mp hc))] at h
                rw [if_neg hcall]
                exact wandLoop_run cb fuel s θ _ out (pd + 1) hinvN h
      · -- block-max condition not reached
        simp only [hgt, Bool.not_false, if_true] at h
        rw [show (map (fun x => x.seekBlock pd) (take pl arr) ++ drop pl arr) = shallow arr pl pd from rfl] at h
        split at h
        · rename_i hskip
          have hub : sumBy TS.blockMax ((shallow arr pl pd).take pl) ≤ θ := by
            have : Sc.gt (sumBy TS.blockMax ((shallow arr pl pd).take pl)) θ = false := by
              cases hc : Sc.gt (sumBy TS.blockMax ((shallow arr pl pd).take pl)) θ
              · rfl
              · exact absurd hc hgt
            simp only [sc_gt, decide_eq_false_iff_not] at this
            omega
          obtain ⟨hlow, hinv2⟩ := tooLow_step hinv hshape hub hskip
          exact Run.dead (fun d _ _ => hlow d) (wandLoop_run cb fuel s θ _ out lo hinv2 h)
        · cases h

theorem tot_filter_alive (l : List S) (hwf : ∀ x, x ∈ l → WF x) (d : Nat) :
    tot (l.filter (fun s => decide (s.doc < T))) d = tot l d := by
  induction l with
  | nil => rfl
  | cons x xs ih =>
    have ih' := ih fun y hy => hwf y (by simp [hy])
    by_cases hx : x.doc < T
    · rw [filter_cons_of_pos (by simpa using hx), tot_cons, tot_cons, ih']
    · rw [filter_cons_of_neg (by simpa using hx), tot_cons, ih']
      have hnil : x.rest = [] := by
        by_cases hr : x.rest = []
        · exact hr
        · exact absurd (doc_lt_T (hwf x (by simp)).lt hr) hx
      rw [hnil]; simp [scoreIn_nil]

/-- `block_wand` (mirrored): whenever the loop completes, it ended in the state of the exhaustive
loop over all documents, for every callback whose thresholds never decrease — given `UB_max` and
`UB_block` for each scorer (`WF`). -/
theorem blockWand_eq_exhaustive {σ : Type} {cb : σ → Nat → Nat → σ × Nat} {R : σ → Nat → Prop}
    (hcb : MonoCb cb R) (fuel : Nat) (s : σ) (θ : Nat) (hR : R s θ) (scorers : List S)
    (hwf : ∀ x, x ∈ scorers → WF x) (out : σ × Nat)
    (h : blockWand cb fuel (s, θ) scorers = .ok out) :
    out = exhRange cb (tot scorers) 0 T (s, θ) := by
  unfold blockWand at h
  have hsub : ∀ x, x ∈ sortByDoc (scorers.filter (fun s => decide (s.doc < T))) → x ∈ scorers :=
    fun x hx => (mem_filter.mp ((sortByDoc_perm _).subset hx)).1
  have hinv : Inv 0 (sortByDoc (scorers.filter (fun s => decide (s.doc < T)))) :=
    ⟨fun x hx => hwf x (hsub x hx), fun _ _ _ _ => Nat.zero_le _⟩
  have hrun := wandLoop_run cb fuel s θ _ out 0 hinv h
  have := run_sound hcb hrun hR (Nat.zero_le _)
  rw [this]
  apply exhRange_congr hcb _ _ _ _ _ _ hR
  intro d _ _ _
  rw [tot_perm (sortByDoc_perm _) d, tot_filter_alive scorers hwf d]

end TantivyModel.BlockWand
