import TantivyModel.Proofs.BoolCompile
/-
List bookkeeping for C03: doc-id ranges against document lists, dis-max as a boolean of SHOULD
clauses, the single-clause side condition through `compile`.
-/
set_option linter.unusedSimpArgs false
set_option linter.unusedVariables false
namespace TantivyModel.BoolCompile
open TantivyModel.QuerySem

theorem filterMap_congr' {α β : Type} {f g : α → Option β} {l : List α} (h : ∀ x ∈ l, f x = g x) :
    l.filterMap f = l.filterMap g := by
  induction l with
  | nil => rfl
  | cons x l ih =>
    have hx := h x (by simp)
    have ih' := ih (fun y hy => h y (by simp [hy]))
    simp only [List.filterMap_cons, hx, ih']

theorem length_filterMap_of_isSome {α β : Type} {f : α → Option β} {l : List α}
    (h : ∀ x ∈ l, (f x).isSome = true) : (l.filterMap f).length = l.length := by
  induction l with
  | nil => rfl
  | cons x l ih =>
    have hx := h x (by simp)
    have ih' := ih (fun y hy => h y (by simp [hy]))
    cases hf : f x with
    | none => simp [hf] at hx
    | some y => simp [List.filterMap_cons, hf, ih']

theorem any_eq_countP {α : Type} (l : List α) (f : α → Bool) : l.any f = decide (0 < l.countP f) := by
  induction l with
  | nil => simp
  | cons x l ih =>
    by_cases h : f x = true
    · simp [List.countP_cons, h]
    · simp only [List.any_cons, List.countP_cons, h, ih]; simp

theorem range'_filterMap_getElem? {α β : Type} (g : α → Option β) (l : List α) (k : Nat) :
    (List.range' k l.length).filterMap (fun i => (l[i - k]?).bind g) = l.filterMap g := by
  induction l generalizing k with
  | nil => simp
  | cons x l ih =>
    simp only [List.length_cons, List.range'_succ, List.filterMap_cons, Nat.sub_self,
      List.getElem?_cons_zero, Option.bind_some]
    have : (List.range' (k + 1) l.length).filterMap (fun i => ((x :: l)[i - k]?).bind g)
        = (List.range' (k + 1) l.length).filterMap (fun i => (l[i - (k + 1)]?).bind g) := by
      apply filterMap_congr'
      intro i hi
      have hk : k + 1 ≤ i := (List.mem_range'_1.mp hi).1
      have : i - k = (i - (k + 1)) + 1 := by omega
      rw [this, List.getElem?_cons_succ]
    rw [this, ih]

theorem range_filterMap_getElem? {α β : Type} (g : α → Option β) (l : List α) :
    (List.range l.length).filterMap (fun i => (l[i]?).bind g) = l.filterMap g := by
  have := range'_filterMap_getElem? g l 0
  simpa [List.range_eq_range'] using this

theorem filterMap_ite_eq_filter_map {α β : Type} (p : α → Bool) (f : α → β) (l : List α) :
    l.filterMap (fun x => if p x then some (f x) else none) = (l.filter p).map f := by
  induction l with
  | nil => simp
  | cons x l ih => by_cases h : p x = true <;> simp [List.filterMap_cons, List.filter_cons, h, ih]

/-- ids of the documents of a list that satisfy `p`, through doc ids -/
theorem range_filterMap_getElem {β : Type} (docs : List ADoc) (p : ADoc → Bool) (f : ADoc → β) :
    (List.range docs.length).filterMap
        (fun d => if (match docs[d]? with | some x => p x | none => false) then docs[d]?.map f else none)
      = (docs.filter p).map f := by
  rw [← filterMap_ite_eq_filter_map, ← range_filterMap_getElem? _ docs]
  apply filterMap_congr'
  intro d hd
  have hd : d < docs.length := List.mem_range.mp hd
  simp [List.getElem?_eq_getElem hd]

theorem live_filter_map (zs : List (ADoc × Bool)) (p : ADoc → Bool) :
    ((zs.filterMap (fun (x : ADoc × Bool) => if x.2 then some x.1 else none)).filter p).map (·.id)
      = zs.filterMap (fun x => if p x.1 && x.2 then some x.1.id else none) := by
  induction zs with
  | nil => simp
  | cons z zs ih =>
    obtain ⟨x, a⟩ := z
    cases a <;> by_cases h : p x = true <;> simp [List.filterMap_cons, List.filter_cons, h, ih]

/-- per segment: doc ids that match and are alive, mapped to ids = ids of the matching live docs -/
theorem range_filterMap_live (docs : List ADoc) (alive : List Bool) (hwf : alive.length = docs.length)
    (p : ADoc → Bool) :
    ((List.range docs.length).filter
        (fun d => (match docs[d]? with | some x => p x | none => false) && aliveAt alive d)).filterMap
        (fun d => docs[d]?.map (·.id))
      = ((Seg.live ⟨docs, alive⟩).filter p).map (·.id) := by
  unfold Seg.live
  have e : (fun (x : ADoc × Bool) => match x with | (d, a) => if a = true then some d else none)
      = (fun (x : ADoc × Bool) => if x.2 then some x.1 else none) := by
    funext x; obtain ⟨d, a⟩ := x; rfl
  simp only [e]
  rw [live_filter_map, ← range_filterMap_getElem? _ (docs.zip alive), List.filterMap_filter]
  have hl : (docs.zip alive).length = docs.length := by simp [hwf]
  rw [hl]
  apply filterMap_congr'
  intro d hd
  have hd : d < docs.length := List.mem_range.mp hd
  have ha : d < alive.length := by omega
  have hz : (docs.zip alive)[d]? = some (docs[d], alive[d]) := by
    rw [List.getElem?_eq_getElem (by omega : d < (docs.zip alive).length), List.getElem_zip]
  simp [List.getElem?_eq_getElem hd, List.getElem?_eq_getElem ha, aliveAt, List.getD_eq_getElem?_getD, hz]

theorem contains_docsWhere (docs : List ADoc) (p : ADoc → Bool) (d : Nat) (hd : d < docs.length) :
    (docsWhere docs p).contains d = p docs[d] := by
  unfold docsWhere
  cases h : p docs[d]
  · rw [Bool.eq_false_iff]
    intro hc
    rw [List.contains_iff_mem, List.mem_map] at hc
    obtain ⟨xi, hx, hxd⟩ := hc
    have hx' := List.mem_filter.mp hx
    have h1 := List.mem_zipIdx_iff_getElem?.mp hx'.1
    rw [hxd, List.getElem?_eq_getElem hd] at h1
    have h2 : docs[d] = xi.1 := by simpa using h1
    have h3 := hx'.2
    rw [← h2, h] at h3
    cases h3
  · rw [List.contains_iff_mem, List.mem_map]
    refine ⟨(docs[d], d), List.mem_filter.mpr ⟨?_, by simpa using h⟩, rfl⟩
    exact List.mem_zipIdx_iff_getElem?.mpr (by simp [List.getElem?_eq_getElem hd])

/-! ### dis-max -/

theorem semAny_eq_any (qs : List Query) (d : ADoc) : semAny qs d = qs.any (fun q => sem q d) := by
  induction qs with
  | nil => simp [semAny]
  | cons q qs ih => simp [semAny, ih]

theorem boolSem_should_only {α : Type} (l : List α) (f : α → Bool) :
    boolSem (l.map (fun x => (Occur.should, f x))) 1 = l.any f := by
  have e1 : (Occur.should == Occur.must) = false := by decide
  have e2 : (Occur.should == Occur.mustNot) = false := by decide
  have e3 : (Occur.should == Occur.should) = true := by decide
  have h1 : countOcc .must (l.map (fun x => (Occur.should, f x))) = 0 := by
    simp [countOcc, List.countP_map, Function.comp_def, e1]
  have h2 : countOcc .should (l.map (fun x => (Occur.should, f x))) = l.length := by
    simp [countOcc, List.countP_map, Function.comp_def, e3]
  have h3 : countHit .must (l.map (fun x => (Occur.should, f x))) = 0 := by
    simp [countHit, List.countP_map, Function.comp_def, e1]
  have h4 : countHit .mustNot (l.map (fun x => (Occur.should, f x))) = 0 := by
    simp [countHit, List.countP_map, Function.comp_def, e2]
  have h5 : countHit .should (l.map (fun x => (Occur.should, f x))) = l.countP f := by
    simp [countHit, List.countP_map, Function.comp_def, e3]
  have h6 := any_eq_countP l f
  have h7 : l.countP f ≤ l.length := List.countP_le_length
  cases hb : boolSem (l.map (fun x => (Occur.should, f x))) 1
  · have hn : ¬ _ := fun h => by
      have := (boolSem_iff (l.map (fun x => (Occur.should, f x))) 1).mpr h
      rw [hb] at this; cases this
    rw [h1, h2, h3, h4, h5] at hn
    unfold effMsm at hn
    rw [h6]
    simp only [Bool.false_eq, decide_eq_false_iff_not]
    intro hc
    apply hn
    refine ⟨by omega, rfl, rfl, ?_⟩
    split <;> omega
  · have := (boolSem_iff _ 1).mp hb
    rw [h1, h2, h3, h4, h5] at this
    unfold effMsm at this
    rw [h6]
    simp only [Bool.true_eq, decide_eq_true_eq]
    obtain ⟨_, _, _, h⟩ := this
    split at h <;> omega

/-! ### the side condition through `compile` -/

theorem singleOkT_compileAny (cls : LeafCls) (guard : Bool) (scoring : Bool) (docs : List ADoc) (b : Bool)
    (qs : List Query) : singleOkT guard (compileAny cls guard scoring docs b qs) 1 = true := by
  match qs with
  | [] => simp [compileAny, singleOkT]
  | [q] => simp [compileAny, singleOkT]
  | q :: q' :: qs => simp [compileAny, singleOkT]

theorem singleOkT_compileClauses (cls : LeafCls) (guard : Bool) (scoring : Bool) (docs : List ADoc) (b : Bool)
    (cs : List (Occur × Query)) (msm : Nat) :
    singleOkT guard (compileClauses cls guard scoring docs b cs) msm = singleOk guard cs msm := by
  match cs with
  | [] => simp [compileClauses, singleOkT, singleOk]
  | [(o, q)] => cases o <;> simp [compileClauses, singleOkT, singleOk]
  | (o, q) :: (o', q') :: cs => simp [compileClauses, singleOkT, singleOk]

theorem mem_complex_eq_boolSem (scoring : Bool) (n d : Nat) (hd : d < n) (cs : List (Occur × STree))
    (msm : Nat) :
    mem n (complex scoring n (occList .must cs) (occList .should cs) (occList .mustNot cs) msm) d
      = boolSem (valsOf n d cs) msm := by
  have key : (mem n (complex scoring n (occList .must cs) (occList .should cs) (occList .mustNot cs) msm) d = true
        ↔ boolSem (valsOf n d cs) msm = true) := by
    rw [mem_complex scoring n d hd, boolSem_iff]
    simp only [countOcc_valsOf, countHit_valsOf]
  cases hb : boolSem (valsOf n d cs) msm
  · cases hm : mem n (complex scoring n (occList .must cs) (occList .should cs) (occList .mustNot cs) msm) d
    · rfl
    · rw [key.mp hm] at hb; cases hb
  · exact key.mpr hb

end TantivyModel.BoolCompile
