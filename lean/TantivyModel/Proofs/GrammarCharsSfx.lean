import TantivyModel.Proofs.GrammarCharsField
namespace TantivyModel.Grammar.Chars
open TantivyModel.Grammar

/-! ## slop and prefix suffixes of phrases -/

theorem takeDigits_rem (t : Str) (ht : Rem t) : takeDigits t = ([], t) := by
  rcases ht with rfl | ⟨t', rfl, _⟩ | ⟨t', rfl⟩
  · rfl
  · simp [takeDigits, List.takeWhile, List.dropWhile, Char.isDigit]
  · simp [takeDigits, List.takeWhile, List.dropWhile, Char.isDigit]

theorem takeDigits_append (ds t : Str) (hd : ∀ d ∈ ds, d.isDigit = true) (ht : Rem t) :
    takeDigits (ds ++ t) = (ds, t) := by
  induction ds with
  | nil => simpa using takeDigits_rem t ht
  | cons d rest ih =>
    have h1 := hd d (by simp)
    have ih' := ih (fun e he => hd e (List.mem_cons_of_mem _ he))
    simp only [takeDigits, Prod.mk.injEq] at ih' ⊢
    simp [List.takeWhile, List.dropWhile, h1, ih'.1, ih'.2]

theorem slopOrPrefix_sfx (x : Sfx) (hx : WFSfx x) (t : Str) (ht : Rem t) :
    slopOrPrefix (x.text ++ t) = ((x.slopVal, x.isPfx), t) := by
  cases x with
  | none => exact slopOrPrefix_of_rem t ht
  | pfx =>
    show slopOrPrefix ('*' :: t) = ((0, true), t)
    unfold slopOrPrefix
    split
    · rename_i heq; obtain ⟨_, rfl⟩ := List.cons.inj heq; rfl
    · rename_i heq; exact absurd (List.cons.inj heq).1 (by decide)
    · rename_i h1 _; exact absurd rfl (h1 t)
  | slop ds =>
    obtain ⟨hne, hd, hlt⟩ := hx
    show slopOrPrefix ('~' :: (ds ++ t)) = ((natOfDigits ds, false), t)
    have htd := takeDigits_append ds t hd ht
    generalize hy : ds ++ t = y at htd
    unfold slopOrPrefix
    split
    · rename_i heq; exact absurd (List.cons.inj heq).1 (by decide)
    · rename_i heq
      obtain ⟨_, rfl⟩ := List.cons.inj heq
      have he : ds.isEmpty = false := by cases ds with | nil => exact absurd rfl hne | cons _ _ => rfl
      simp [htd, he, hlt]
    · rename_i _ h2; exact absurd rfl (h2 y)

theorem plainLiteral_phrase_gen (g : Bool) (body u t : Str) (sl : Nat) (px : Bool) (hb : PhraseBody body)
    (hu : slopOrPrefix u = ((sl, px), t)) :
    plainLiteral g ('"' :: (body ++ '"' :: u)) = .ok (.leaf (.literal none body .double sl px)) t := by
  generalize hx : body ++ '"' :: u = x
  have h1 : fieldName ('"' :: x) = none := by simp [fieldName, specialChars]
  have h2 : range ('"' :: x) = none := by
    simp [range, skip0, List.dropWhile, isNomSpace, tag, List.isPrefixOf]
  have h3 : set ('"' :: x) = none := by
    simp [set, skip0, List.dropWhile, isNomSpace, tag, List.isPrefixOf]
  have h4 : exists_ ('"' :: x) = none := by
    simp [exists_, skip0, List.dropWhile, isNomSpace]
  have h5 : regex ('"' :: x) = none := by simp [regex]
  have hn : negativeNumber ('"' :: x) = none := by
    unfold negativeNumber
    split
    · rename_i heq; exact absurd (List.cons.inj heq).1 (by decide)
    · rfl
  have hst : simpleTerm ('"' :: x) = some ((.double, body), u) := by
    have hq : quotedBody '"' x = some (body, u) := by
      rw [← hx]; exact quotedBody_plain body u hb
    unfold simpleTerm
    rw [hn]
    simp [hq]
  have h6 : termOrPhrase ('"' :: x) = some (.literal none body .double sl px, t) := by
    simp [termOrPhrase, hst, hu]
  simp [plainLiteral, h1, h2, h3, h4, h5, h6, setField]

/-- a double-quoted phrase with a slop or the prefix star is a good operand -/
theorem goodOpd_phraseSfx (g : Bool) (body : Str) (x : Sfx) (hb : PhraseBody body) (hx : WFSfx x) :
    GoodOpd g (phraseSfxOpd body x) := by
  refine ⟨⟨'"', body ++ '"' :: x.text, rfl, by decide, by decide, by decide, by decide, by decide⟩, ?_, ?_, ?_⟩
  · intro t _
    simp [phraseSfxOpd, binaryOperand, tag, List.isPrefixOf]
  · intro t ht f hf
    obtain ⟨f', rfl⟩ : ∃ f', f = f' + 1 := ⟨f - 1, by simp [phraseSfxOpd] at hf; omega⟩
    have htext : (phraseSfxOpd body x).text ++ t = '"' :: (body ++ '"' :: (x.text ++ t)) := by simp [phraseSfxOpd]
    rw [htext]
    have hp := plainLiteral_phrase_gen g body (x.text ++ t) t _ _ hb (slopOrPrefix_sfx x hx t ht)
    generalize body ++ '"' :: (x.text ++ t) = y at hp
    unfold pLeaf
    simp [R.orElse, tag, List.isPrefixOf, hp, phraseSfxOpd]
  · simp [phraseSfxOpd]; omega

/-- `name:"phrase"` with a slop or the prefix star is a good operand -/
theorem goodOpd_fieldPhraseSfx (g : Bool) (f body : Str) (x : Sfx) (hf : PlainWord f) (hb : PhraseBody body)
    (hx : WFSfx x) : GoodOpd g (fieldPhraseSfxOpd f body x) := by
  obtain ⟨c, r, rfl⟩ := List.exists_cons_of_ne_nil hf.ne
  have hc : plain c = true := hf.all c (by simp)
  refine ⟨⟨c, r ++ ':' :: '"' :: (body ++ '"' :: x.text), rfl, (plain_not_space c hc).2, plain_ne c ':' hc (by decide),
    plain_ne c '+' hc (by decide), plain_ne c '-' hc (by decide), plain_ne c ')' hc (by decide)⟩, ?_, ?_, ?_⟩
  · intro t _
    have e : (fieldPhraseSfxOpd (c :: r) body x).text ++ t
        = (c :: r) ++ ':' :: ('"' :: (body ++ '"' :: (x.text ++ t))) := by
      simp [fieldPhraseSfxOpd]
    rw [e]
    exact binaryOperand_field (c :: r) _ hf
  · intro t ht f hfu
    obtain ⟨f', rfl⟩ : ∃ f', f = f' + 1 := ⟨f - 1, by simp [fieldPhraseSfxOpd] at hfu; omega⟩
    have e : (fieldPhraseSfxOpd (c :: r) body x).text ++ t
        = c :: (r ++ ':' :: ('"' :: (body ++ '"' :: (x.text ++ t)))) := by
      simp [fieldPhraseSfxOpd]
    rw [e]
    have hp := plainLiteral_phrase_gen g body (x.text ++ t) t _ _ hb (slopOrPrefix_sfx x hx t ht)
    generalize body ++ '"' :: (x.text ++ t) = y at hp
    exact pLeaf_field g f' c r _ hf _ t
      (plainLiteral_field g c r _ hf (by simp [skip0, List.dropWhile, isNomSpace])
        (by simp [fieldName, specialChars]) _ _ _ _ t hp)
  · simp [fieldPhraseSfxOpd]; omega

end TantivyModel.Grammar.Chars
