import Mathlib.Tactic.Linarith
import Mathlib.Tactic.Positivity
import Mathlib.Tactic.Ring
import Mathlib.Algebra.Order.AbsoluteValue.Basic
import TantivyModel.Model.Bm25
/-!
Rounding: explicit error bounds for the clause sum and for the two multiplication orders of a
boost, over an ABSTRACT rounding model — the arithmetic `F` is read through `val : F → ℚ`, and
each operation returns the exact result up to a relative error `u` (for IEEE `f32` without
overflow / underflow `u = 2⁻²⁴`).
-/
namespace TantivyModel.Bm25
open Arith

variable {F : Type} [Arith F]

/-- every addition / multiplication is exact up to the relative error `u` -/
structure RoundLaws (val : F → ℚ) (u : ℚ) : Prop where
  u_nonneg : 0 ≤ u
  u_le_one : u ≤ 1
  zero : val (zero : F) = 0
  add_err : ∀ x y : F, |val (add x y) - (val x + val y)| ≤ u * |val x + val y|
  mul_err : ∀ x y : F, |val (mul x y) - val x * val y| ≤ u * |val x * val y|

theorem add_bounds {val : F → ℚ} {u : ℚ} (h : RoundLaws val u) (x y : F) (hs : 0 ≤ val x + val y) :
    (1 - u) * (val x + val y) ≤ val (add x y) ∧ val (add x y) ≤ (1 + u) * (val x + val y) := by
  have := h.add_err x y
  rw [abs_of_nonneg hs, abs_le] at this
  constructor <;> nlinarith [this.1, this.2]

theorem mul_bounds {val : F → ℚ} {u : ℚ} (h : RoundLaws val u) (x y : F) (hs : 0 ≤ val x * val y) :
    (1 - u) * (val x * val y) ≤ val (mul x y) ∧ val (mul x y) ≤ (1 + u) * (val x * val y) := by
  have := h.mul_err x y
  rw [abs_of_nonneg hs, abs_le] at this
  constructor <;> nlinarith [this.1, this.2]

/-- the left-to-right float sum of `n` non-negative terms lies within `(1 ∓ u)ⁿ` of the exact sum -/
theorem foldl_add_bounds {val : F → ℚ} {u : ℚ} (h : RoundLaws val u) :
    ∀ (xs : List F) (acc : F), 0 ≤ val acc → (∀ x, x ∈ xs → 0 ≤ val x) →
      (1 - u) ^ xs.length * (val acc + (xs.map val).sum) ≤ val (xs.foldl add acc) ∧
        val (xs.foldl add acc) ≤ (1 + u) ^ xs.length * (val acc + (xs.map val).sum)
  | [], acc, _, _ => by simp
  | x :: xs, acc, hacc, hx => by
    have hx0 : 0 ≤ val x := hx x (by simp)
    have hrest : ∀ y, y ∈ xs → 0 ≤ val y := fun y hy => hx y (by simp [hy])
    have hS : 0 ≤ (xs.map val).sum := List.sum_nonneg (by
      intro a ha
      obtain ⟨y, hy, rfl⟩ := List.mem_map.mp ha
      exact hrest y hy)
    obtain ⟨b1, b2⟩ := add_bounds h acc x (by linarith)
    have hu := h.u_nonneg
    have hu1 := h.u_le_one
    have hacc' : 0 ≤ val (add acc x) := le_trans (mul_nonneg (by linarith) (by linarith)) b1
    obtain ⟨i1, i2⟩ := foldl_add_bounds h xs (add acc x) hacc' hrest
    simp only [List.foldl_cons, List.length_cons, List.map_cons, List.sum_cons, pow_succ]
    have hp1 : 0 ≤ (1 - u) ^ xs.length := pow_nonneg (by linarith) _
    have hp2 : 0 ≤ (1 + u) ^ xs.length := pow_nonneg (by linarith) _
    constructor
    · refine le_trans ?_ i1
      have : (1 - u) * (val acc + (val x + (xs.map val).sum)) ≤ val (add acc x) + (xs.map val).sum := by nlinarith
      calc (1 - u) ^ xs.length * (1 - u) * (val acc + (val x + (xs.map val).sum))
          = (1 - u) ^ xs.length * ((1 - u) * (val acc + (val x + (xs.map val).sum))) := by ring
        _ ≤ (1 - u) ^ xs.length * (val (add acc x) + (xs.map val).sum) := mul_le_mul_of_nonneg_left this hp1
    · refine le_trans i2 ?_
      have : val (add acc x) + (xs.map val).sum ≤ (1 + u) * (val acc + (val x + (xs.map val).sum)) := by nlinarith
      calc (1 + u) ^ xs.length * (val (add acc x) + (xs.map val).sum)
          ≤ (1 + u) ^ xs.length * ((1 + u) * (val acc + (val x + (xs.map val).sum))) := mul_le_mul_of_nonneg_left this hp2
        _ = (1 + u) ^ xs.length * (1 + u) * (val acc + (val x + (xs.map val).sum)) := by ring

/-- two float sums of the same non-negative terms in different orders differ by at most
`((1 + u)ⁿ − (1 − u)ⁿ) · Σ` -/
theorem foldl_add_perm_bound {val : F → ℚ} {u : ℚ} (h : RoundLaws val u) {xs ys : List F} (hp : xs.Perm ys)
    (hx : ∀ x, x ∈ xs → 0 ≤ val x) :
    |val (xs.foldl add zero) - val (ys.foldl add zero)|
      ≤ ((1 + u) ^ xs.length - (1 - u) ^ xs.length) * (xs.map val).sum := by
  have hy : ∀ y, y ∈ ys → 0 ≤ val y := fun y hy => hx y (hp.mem_iff.mpr hy)
  obtain ⟨a1, a2⟩ := foldl_add_bounds h xs zero (by rw [h.zero]) hx
  obtain ⟨b1, b2⟩ := foldl_add_bounds h ys zero (by rw [h.zero]) hy
  have hsum : (ys.map val).sum = (xs.map val).sum := ((hp.map val).sum_eq).symm
  have hlen : ys.length = xs.length := hp.length_eq.symm
  rw [h.zero, zero_add] at a1 a2 b1 b2
  rw [hsum, hlen] at b1 b2
  rw [abs_le]
  constructor <;> nlinarith

/-- `(w·f)·b` (explain) and `(w·b)·f` (scorer) differ by at most `((1 + u)² − (1 − u)²) · w·f·b = 4u·w·f·b` -/
theorem mul_order_bound {val : F → ℚ} {u : ℚ} (h : RoundLaws val u) (w f b : F)
    (hw : 0 ≤ val w) (hf : 0 ≤ val f) (hb : 0 ≤ val b) :
    |val (mul (mul w f) b) - val (mul (mul w b) f)| ≤ 4 * u * (val w * val f * val b) := by
  have hu := h.u_nonneg
  have hu1 := h.u_le_one
  obtain ⟨p1, p2⟩ := mul_bounds h w f (mul_nonneg hw hf)
  obtain ⟨q1, q2⟩ := mul_bounds h w b (mul_nonneg hw hb)
  have hwf : 0 ≤ val (mul w f) := le_trans (mul_nonneg (by linarith) (mul_nonneg hw hf)) p1
  have hwb : 0 ≤ val (mul w b) := le_trans (mul_nonneg (by linarith) (mul_nonneg hw hb)) q1
  obtain ⟨r1, r2⟩ := mul_bounds h (mul w f) b (mul_nonneg hwf hb)
  obtain ⟨s1, s2⟩ := mul_bounds h (mul w b) f (mul_nonneg hwb hf)
  have hP : 0 ≤ val w * val f * val b := mul_nonneg (mul_nonneg hw hf) hb
  -- both products lie in [(1-u)², (1+u)²] · w f b
  have A1 : (1 - u) * ((1 - u) * (val w * val f * val b)) ≤ val (mul (mul w f) b) := by
    refine le_trans ?_ r1
    have : (1 - u) * (val w * val f) * val b ≤ val (mul w f) * val b := mul_le_mul_of_nonneg_right p1 hb
    nlinarith
  have A2 : val (mul (mul w f) b) ≤ (1 + u) * ((1 + u) * (val w * val f * val b)) := by
    refine le_trans r2 ?_
    have : val (mul w f) * val b ≤ (1 + u) * (val w * val f) * val b := mul_le_mul_of_nonneg_right p2 hb
    nlinarith
  have B1 : (1 - u) * ((1 - u) * (val w * val f * val b)) ≤ val (mul (mul w b) f) := by
    refine le_trans ?_ s1
    have : (1 - u) * (val w * val b) * val f ≤ val (mul w b) * val f := mul_le_mul_of_nonneg_right q1 hf
    nlinarith
  have B2 : val (mul (mul w b) f) ≤ (1 + u) * ((1 + u) * (val w * val f * val b)) := by
    refine le_trans s2 ?_
    have : val (mul w b) * val f ≤ (1 + u) * (val w * val b) * val f := mul_le_mul_of_nonneg_right q2 hf
    nlinarith
  rw [abs_le]
  constructor <;> nlinarith

end TantivyModel.Bm25
