import TantivyModel.Proofs.GrammarRewrite
namespace TantivyModel.Grammar
variable {T : Type}

/-! ## `LogicalAst::simplify` keeps the meaning -/

/-- the four aggregates `boolSem` is made of -/
def agg (l : List (Occur × Bool)) : Bool × Bool × Bool × Bool :=
  (l.all (fun e => e.1 != .must || e.2), l.all (fun e => e.1 != .mustNot || !e.2),
   l.any (fun e => e.1 == .must), l.any (fun e => e.1 == .should && e.2))

def aggMerge (x y : Bool × Bool × Bool × Bool) : Bool × Bool × Bool × Bool :=
  (x.1 && y.1, x.2.1 && y.2.1, x.2.2.1 || y.2.2.1, x.2.2.2 || y.2.2.2)

theorem boolSem_agg (l : List (Occur × Bool)) :
    boolSem l = ((agg l).1 && (agg l).2.1 && ((agg l).2.2.1 || (agg l).2.2.2)) := rfl

theorem agg_append (l1 l2 : List (Occur × Bool)) : agg (l1 ++ l2) = aggMerge (agg l1) (agg l2) := by
  simp [agg, aggMerge]

theorem agg_cons (e : Occur × Bool) (l : List (Occur × Bool)) :
    agg (e :: l) = aggMerge (agg [e]) (agg l) := by
  simp [agg, aggMerge]

theorem agg_map_must (bs : List Bool) (hne : bs ≠ []) :
    agg (bs.map (fun b => (Occur.must, b))) = (bs.all id, true, true, false) := by
  cases bs with
  | nil => exact absurd rfl hne
  | cons b r =>
    simp [agg, List.all_map, List.any_map, Function.comp_def]
    rfl

theorem agg_map_should (bs : List Bool) :
    agg (bs.map (fun b => (Occur.should, b))) = (true, true, false, bs.any id) := by
  simp [agg, List.all_map, List.any_map, Function.comp_def]
  rfl

theorem eq_map_of_all_occ (o : Occur) (l : List (Occur × Bool)) (hall : ∀ e ∈ l, e.1 = o) :
    l = (l.map Prod.snd).map (fun b => (o, b)) := by
  induction l with
  | nil => rfl
  | cons e rest ih =>
    obtain ⟨oe, b⟩ := e
    have he : oe = o := hall (oe, b) (by simp)
    subst he
    simp only [List.map_cons]
    congr 1
    exact ih (fun e h => hall e (List.mem_cons_of_mem _ h))

/-- a non-empty list of evaluated entries that all carry the same occur `o` (SHOULD or MUST)
    may be replaced by the single entry `(o, boolSem l)` -/
theorem agg_collapse (o : Occur) (l : List (Occur × Bool)) (ho : o = .should ∨ o = .must)
    (hne : l ≠ []) (hall : ∀ e ∈ l, e.1 = o) : agg [(o, boolSem l)] = agg l := by
  have hl := eq_map_of_all_occ o l hall
  have hne' : l.map Prod.snd ≠ [] := by simpa using hne
  generalize l.map Prod.snd = bs at hl hne'
  subst hl
  rcases ho with rfl | rfl
  · rw [boolSem_all_should, agg_map_should]
    simp [agg]
  · rw [boolSem_all_must _ hne', agg_map_must _ hne']
    simp [agg]

variable (v : T → Bool)

theorem semLs_occ (o : Occur) : ∀ (sub : List (Occur × LAst T)),
    sub.all (fun e => e.1 == o) = true → ∀ e ∈ semLs v sub, e.1 = o
  | [], _, e, he => by simp [semLs] at he
  | (p, a) :: rest, h, e, he => by
    simp only [List.all_cons, Bool.and_eq_true] at h
    simp only [semLs] at he
    split at he
    · exact semLs_occ o rest h.2 e he
    · simp only [List.mem_cons] at he
      rcases he with rfl | he
      · simpa using h.1
      · exact semLs_occ o rest h.2 e he

theorem semLs_nil_iff : ∀ (sub : List (Occur × LAst T)), semLs v sub = [] ↔ allDead sub = true
  | [] => by simp [semLs, allDead]
  | (p, a) :: rest => by
    simp only [semLs, allDead]
    cases hd : isDead a
    · simp
    · simpa using semLs_nil_iff rest

theorem semLs_append : ∀ (l1 l2 : List (Occur × LAst T)), semLs v (l1 ++ l2) = semLs v l1 ++ semLs v l2
  | [], _ => rfl
  | (p, a) :: rest, l2 => by
    simp only [List.cons_append, semLs, semLs_append rest l2]
    split <;> simp

theorem allDead_append : ∀ (l1 l2 : List (Occur × LAst T)), allDead (l1 ++ l2) = (allDead l1 && allDead l2)
  | [], _ => by simp [allDead]
  | (p, a) :: rest, l2 => by
    simp [allDead, allDead_append rest l2, Bool.and_assoc]

mutual
theorem simplify_ok : ∀ (t : LAst T),
    semL v (simplify t) = semL v t ∧ isDead (simplify t) = isDead t
  | .leaf _ => ⟨rfl, rfl⟩
  | .boost _ _ => ⟨rfl, rfl⟩
  | .clause cs => by
    have h := simplifyL_ok cs
    simp only [simplify, semL, isDead, boolSem_agg, h.1, h.2]
    exact ⟨trivial, trivial⟩
theorem simplifyL_ok : ∀ (cs : List (Occur × LAst T)),
    agg (semLs v (simplifyL cs)) = agg (semLs v cs) ∧ allDead (simplifyL cs) = allDead cs
  | [] => ⟨rfl, rfl⟩
  | (o, a) :: rest => by
    have ha := simplify_ok a
    have hr := simplifyL_ok rest
    -- what the entry `(o, a)` contributes, in terms of its simplified form
    have hentry : agg (semLs v [(o, a)]) = agg (semLs v [(o, simplify a)])
        ∧ allDead [(o, a)] = allDead [(o, simplify a)] := by
      simp [semLs, allDead, ha.1, ha.2]
    have hsplit : semLs v ((o, a) :: rest) = semLs v [(o, a)] ++ semLs v rest := by
      simp only [semLs]; split <;> simp
    have hdsplit : allDead ((o, a) :: rest) = (allDead [(o, a)] && allDead rest) := by
      simp [allDead]
    rw [hsplit, hdsplit, agg_append, hentry.1, hentry.2]
    simp only [simplifyL]
    split
    · rename_i sub hs
      split
      · rename_i hc
        -- flattened: the sub-clause's entries are pulled up
        rw [semLs_append, allDead_append, agg_append, hr.1, hr.2, hs]
        have hdead : allDead [(o, LAst.clause sub)] = allDead sub := by simp [allDead, isDead]
        rw [hdead]
        refine ⟨?_, rfl⟩
        congr 1
        by_cases hd : allDead sub = true
        · simp [semLs, isDead, hd, (semLs_nil_iff v sub).mpr hd]
        · have hne : semLs v sub ≠ [] := fun h => hd ((semLs_nil_iff v sub).mp h)
          have hd' : allDead sub = false := by simpa using hd
          simp only [semLs, isDead, hd', semL]
          exact (agg_collapse o _ hc.1 hne (semLs_occ v o sub hc.2)).symm
      · rw [hs]
        have : semLs v ((o, LAst.clause sub) :: simplifyL rest)
            = semLs v [(o, LAst.clause sub)] ++ semLs v (simplifyL rest) := by
          simp only [semLs]; split <;> simp
        rw [this, agg_append, hr.1]
        simp [allDead, hr.2]
    · rename_i s hs
      have : semLs v ((o, simplify a) :: simplifyL rest)
          = semLs v [(o, simplify a)] ++ semLs v (simplifyL rest) := by
        simp only [semLs]; split <;> simp
      rw [this, agg_append, hr.1]
      simp [allDead, hr.2]
end

end TantivyModel.Grammar
