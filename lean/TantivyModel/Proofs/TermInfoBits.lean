import TantivyModel.Model.TermInfoStore
import TantivyModel.Proofs.PostingsBasic
/-! bit-stream lemmas for the TermInfoStore: `packBits`, little-endian bytes, `extractBits` -/
namespace TantivyModel.TermInfoStore

theorem field_testBit (N a w i : Nat) :
    (N / 2 ^ a % 2 ^ w).testBit i = (decide (i < w) && N.testBit (i + a)) := by
  rw [Nat.testBit_mod_two_pow, Nat.testBit_div_two_pow]

theorem pow256 (k : Nat) : 256 ^ k = 2 ^ (8 * k) := by
  have : (256 : Nat) = 2 ^ 8 := by decide
  rw [this, Nat.pow_mul]

/-! ### little-endian bytes -/

def Bytes (l : List Nat) : Prop := ∀ b ∈ l, b < 256

theorem leNat_lt (l : List Nat) (h : Bytes l) : leNat l < 256 ^ l.length := by
  induction l with
  | nil => simp [leNat]
  | cons b r ih =>
    have hb := h b (by simp)
    have := ih (fun x hx => h x (by simp [hx]))
    simp only [leNat, List.length_cons, Nat.pow_succ]
    omega

theorem leNat_append (a b : List Nat) : leNat (a ++ b) = leNat a + 256 ^ a.length * leNat b := by
  induction a with
  | nil => simp [leNat]
  | cons x r ih =>
    simp only [List.cons_append, leNat, ih, List.length_cons, Nat.pow_succ]
    rw [Nat.mul_add, Nat.add_assoc]
    congr 2
    rw [← Nat.mul_assoc, Nat.mul_comm 256]

theorem natToLe_length (n N : Nat) : (natToLe n N).length = n := by
  induction n generalizing N with
  | zero => rfl
  | succ n ih => simp [natToLe, ih]

theorem natToLe_bytes (n N : Nat) : Bytes (natToLe n N) := by
  induction n generalizing N with
  | zero => intro b hb; simp [natToLe] at hb
  | succ n ih =>
    intro b hb
    simp only [natToLe, List.mem_cons] at hb
    rcases hb with rfl | hb
    · exact Nat.mod_lt _ (by omega)
    · exact ih _ b hb

theorem leNat_natToLe (n N : Nat) : leNat (natToLe n N) = N % 256 ^ n := by
  induction n generalizing N with
  | zero => simp [natToLe, leNat, Nat.mod_one]
  | succ n ih =>
    simp only [natToLe, leNat, ih, Nat.pow_succ]
    rw [Nat.mul_comm (256 ^ n) 256, Nat.mod_mul]

theorem leNat_take (l : List Nat) (h : Bytes l) (k : Nat) : leNat (l.take k) = leNat l % 256 ^ k := by
  rcases Nat.lt_or_ge k l.length with hk | hk
  · have e := leNat_append (l.take k) (l.drop k)
    rw [List.take_append_drop] at e
    have hlen : (l.take k).length = k := by simp; omega
    rw [hlen] at e
    have hlt := leNat_lt (l.take k) (fun b hb => h b (List.mem_of_mem_take hb))
    rw [hlen] at hlt
    rw [e, Nat.add_mul_mod_self_left, Nat.mod_eq_of_lt hlt]
  · rw [List.take_of_length_le hk]
    have hlt := leNat_lt l h
    have : 256 ^ l.length ≤ 256 ^ k := Nat.pow_le_pow_right (by omega) hk
    rw [Nat.mod_eq_of_lt (by omega)]

theorem leNat_drop (l : List Nat) (h : Bytes l) (k : Nat) : leNat (l.drop k) = leNat l / 256 ^ k := by
  rcases Nat.lt_or_ge k l.length with hk | hk
  · have e := leNat_append (l.take k) (l.drop k)
    rw [List.take_append_drop] at e
    have hlen : (l.take k).length = k := by simp; omega
    rw [hlen] at e
    have hlt := leNat_lt (l.take k) (fun b hb => h b (List.mem_of_mem_take hb))
    rw [hlen] at hlt
    rw [e, Nat.add_mul_div_left _ _ (Nat.pow_pos (by omega)), Nat.div_eq_of_lt hlt, Nat.zero_add]
  · rw [List.drop_eq_nil_of_le hk]
    have hlt := leNat_lt l h
    have : 256 ^ l.length ≤ 256 ^ k := Nat.pow_le_pow_right (by omega) hk
    rw [Nat.div_eq_of_lt (by omega)]; rfl

/-- the unaligned 8-byte window reads the same bits as the whole stream (`num_bits ≤ 56`) -/
theorem extractBits_eq (data : List Nat) (h : Bytes data) (addr w : Nat) (hw : w ≤ 56) :
    extractBits data addr w = leNat data / 2 ^ addr % 2 ^ w := by
  unfold extractBits
  have hd : Bytes (data.drop (addr / 8)) := fun b hb => h b (List.mem_of_mem_drop hb)
  rw [leNat_take _ hd, leNat_drop _ h, pow256, pow256]
  apply Nat.eq_of_testBit_eq
  intro i
  rw [field_testBit, field_testBit, Nat.testBit_mod_two_pow, Nat.testBit_div_two_pow]
  by_cases hi : i < w
  · have h1 : i + addr % 8 < 8 * 8 := by omega
    have h2 : i + addr % 8 + 8 * (addr / 8) = i + addr := by omega
    simp [hi, h1, h2]
  · simp [hi]

/-! ### the bit stream -/

def AllLt (fs : List (Nat × Nat)) : Prop := ∀ f ∈ fs, f.1 < 2 ^ f.2

theorem totalBits_cons (f : Nat × Nat) (fs : List (Nat × Nat)) : totalBits (f :: fs) = f.2 + totalBits fs := by
  simp [totalBits]

theorem totalBits_append (a b : List (Nat × Nat)) : totalBits (a ++ b) = totalBits a + totalBits b := by
  simp [totalBits, List.sum_append]

theorem packBits_lt (fs : List (Nat × Nat)) (h : AllLt fs) : packBits fs < 2 ^ totalBits fs := by
  induction fs with
  | nil => simp [packBits, totalBits]
  | cons f r ih =>
    obtain ⟨v, w⟩ := f
    have hv : v < 2 ^ w := h (v, w) (by simp)
    have := ih (fun x hx => h x (by simp [hx]))
    rw [totalBits_cons]
    simp only [packBits, Nat.pow_add]
    have hmul : 2 ^ w * packBits r + 2 ^ w ≤ 2 ^ w * 2 ^ totalBits r := by
      rw [← Nat.mul_succ]; exact Nat.mul_le_mul_left _ this
    omega

/-- the field after a prefix is found at the prefix's total width -/
theorem packBits_field (pre : List (Nat × Nat)) (hpre : AllLt pre) (v w : Nat) (hv : v < 2 ^ w)
    (post : List (Nat × Nat)) :
    packBits (pre ++ (v, w) :: post) / 2 ^ totalBits pre % 2 ^ w = v := by
  induction pre with
  | nil =>
    simp only [List.nil_append, packBits, totalBits, List.map_nil, List.sum_nil, Nat.pow_zero, Nat.div_one]
    rw [Nat.add_mul_mod_self_left, Nat.mod_eq_of_lt hv]
  | cons f r ih =>
    obtain ⟨u, x⟩ := f
    have hu : u < 2 ^ x := hpre (u, x) (by simp)
    have ih' := ih (fun y hy => hpre y (by simp [hy]))
    rw [totalBits_cons]
    simp only [List.cons_append, packBits, Nat.pow_add]
    rw [← Nat.div_div_eq_div_mul, Nat.add_mul_div_left _ _ (Nat.pow_pos (by omega)),
      Nat.div_eq_of_lt hu, Nat.zero_add]
    exact ih'

/-- reading a field of a flushed bit stream through `extract_bits`, whatever bytes follow -/
theorem extractBits_field (pre : List (Nat × Nat)) (v w : Nat) (post : List (Nat × Nat))
    (hall : AllLt (pre ++ (v, w) :: post)) (hw : w ≤ 56) (rest : List Nat) (hrest : Bytes rest) :
    extractBits (bitBytes (pre ++ (v, w) :: post) ++ rest) (totalBits pre) w = v := by
  have hpre : AllLt pre := fun f hf => hall f (by simp [hf])
  have hv : v < 2 ^ w := hall (v, w) (by simp)
  have hbytes : Bytes (bitBytes (pre ++ (v, w) :: post) ++ rest) := by
    intro b hb
    rcases List.mem_append.mp hb with h | h
    · exact natToLe_bytes _ _ b h
    · exact hrest b h
  rw [extractBits_eq _ hbytes _ _ hw, leNat_append]
  unfold bitBytes
  rw [leNat_natToLe, natToLe_length, pow256]
  generalize hfs : pre ++ (v, w) :: post = fs at *
  have hN := packBits_lt fs hall
  have hT : totalBits fs ≤ 8 * ((totalBits fs + 7) / 8) := by omega
  have hN' : packBits fs < 2 ^ (8 * ((totalBits fs + 7) / 8)) :=
    Nat.lt_of_lt_of_le hN (Nat.pow_le_pow_right (by omega) hT)
  rw [Nat.mod_eq_of_lt hN']
  have hfield := packBits_field pre hpre v w hv post
  rw [hfs] at hfield
  rw [← hfield]
  apply Nat.eq_of_testBit_eq
  intro i
  rw [field_testBit, field_testBit]
  by_cases hi : i < w
  · have htot : totalBits pre + w ≤ totalBits fs := by
      rw [← hfs, totalBits_append, totalBits_cons]; simp
    rw [Nat.add_comm (packBits fs), Nat.testBit_two_pow_mul_add _ hN']
    have : i + totalBits pre < 8 * ((totalBits fs + 7) / 8) := by omega
    simp [hi, this]
  · simp [hi]

end TantivyModel.TermInfoStore
