import TantivyModel.Proofs.Crc32
/-! CRC-32 detects every change confined to four consecutive bytes (a burst of ≤ 32 bits). -/
namespace TantivyModel.Crc32

theorem bitStep_msb (c : BitVec 32) : (bitStep c).msb = c[0] := by
  unfold bitStep
  by_cases h : c[0] = true
  · simp only [h, if_true]; rw [BitVec.msb_xor, msb_shr1, poly_msb]; rfl
  · have h' : c[0] = false := by simpa using h
    simp only [h', Bool.false_eq_true, if_false, msb_shr1]

/-- if the result of a step has its top bit clear, the step was a plain shift of an even value -/
theorem bitStep_small (c : BitVec 32) (h : (bitStep c).toNat < 2147483648) :
    c.toNat % 2 = 0 ∧ (bitStep c).toNat = c.toNat / 2 := by
  have hm : (bitStep c).msb = false := by
    rw [BitVec.msb_eq_decide]; simp; omega
  rw [bitStep_msb] at hm
  have h0 : c.toNat % 2 = 0 := by
    have : c[0] = c.toNat.testBit 0 := by simp [BitVec.getElem_eq_testBit_toNat]
    rw [this, Nat.testBit_zero] at hm
    simpa using hm
  refine ⟨h0, ?_⟩
  unfold bitStep
  simp only [hm, Bool.false_eq_true, if_false, BitVec.toNat_ushiftRight]
  simp [Nat.shiftRight_eq_div_pow]

theorem bitStep8_small (y : BitVec 32) (h : (bitStep8 y).toNat < 16777216) :
    y.toNat % 256 = 0 ∧ (bitStep8 y).toNat = y.toNat / 256 := by
  unfold bitStep8 at h ⊢
  generalize h1 : bitStep y = y1 at h ⊢
  generalize h2 : bitStep y1 = y2 at h ⊢
  generalize h3 : bitStep y2 = y3 at h ⊢
  generalize h4 : bitStep y3 = y4 at h ⊢
  generalize h5 : bitStep y4 = y5 at h ⊢
  generalize h6 : bitStep y5 = y6 at h ⊢
  generalize h7 : bitStep y6 = y7 at h ⊢
  have s8 := bitStep_small y7 (by omega)
  have s7 := bitStep_small y6 (by rw [h7]; omega)
  have s6 := bitStep_small y5 (by rw [h6]; rw [h7] at s7; omega)
  have s5 := bitStep_small y4 (by rw [h5]; rw [h7] at s7; rw [h6] at s6; omega)
  have s4 := bitStep_small y3 (by rw [h4]; rw [h7] at s7; rw [h6] at s6; rw [h5] at s5; omega)
  have s3 := bitStep_small y2 (by
    rw [h3]; rw [h7] at s7; rw [h6] at s6; rw [h5] at s5; rw [h4] at s4; omega)
  have s2 := bitStep_small y1 (by
    rw [h2]; rw [h7] at s7; rw [h6] at s6; rw [h5] at s5; rw [h4] at s4; rw [h3] at s3; omega)
  have s1 := bitStep_small y (by
    rw [h1]; rw [h7] at s7; rw [h6] at s6; rw [h5] at s5; rw [h4] at s4; rw [h3] at s3
    rw [h2] at s2; omega)
  rw [h7] at s7; rw [h6] at s6; rw [h5] at s5; rw [h4] at s4; rw [h3] at s3; rw [h2] at s2
  rw [h1] at s1
  omega

/-! linearity over xor -/

theorem bitStep_xor (x y : BitVec 32) : bitStep (x ^^^ y) = bitStep x ^^^ bitStep y := by
  unfold bitStep
  have h0 : (x ^^^ y)[0] = (x[0] ^^ y[0]) := by simp
  rw [h0, BitVec.ushiftRight_xor_distrib]
  cases hx : x[0] <;> cases hy : y[0] <;> simp
  · ac_rfl
  · ac_rfl
  · have : (x >>> 1 ^^^ poly) ^^^ (y >>> 1 ^^^ poly) = (x >>> 1 ^^^ y >>> 1) ^^^ (poly ^^^ poly) := by
      ac_rfl
    rw [this, BitVec.xor_self, BitVec.xor_zero]

theorem bitStep8_xor (x y : BitVec 32) : bitStep8 (x ^^^ y) = bitStep8 x ^^^ bitStep8 y := by
  simp only [bitStep8, bitStep_xor]

theorem bitStep8_zero : bitStep8 0#32 = 0#32 := by decide

theorem zext_xor (a b : UInt8) :
    a.toBitVec.setWidth 32 ^^^ b.toBitVec.setWidth 32 = (a ^^^ b).toBitVec.setWidth 32 := by
  simp [BitVec.setWidth_xor]

/-- the difference of two states evolves by absorbing the xor of the two bytes -/
theorem step_xor (s t : BitVec 32) (a b : UInt8) :
    step s a ^^^ step t b = step (s ^^^ t) (a ^^^ b) := by
  unfold step
  rw [← bitStep8_xor, ← zext_xor]
  congr 1
  ac_rfl

theorem zext_toNat (d : UInt8) : (d.toBitVec.setWidth 32).toNat = d.toNat := by
  have := d.toNat_lt
  simp [BitVec.toNat_setWidth]
  try omega

theorem zext_lt (d : UInt8) : (d.toBitVec.setWidth 32).toNat < 256 := by
  rw [zext_toNat]; exact d.toNat_lt

theorem xor_toNat_lt (x y : BitVec 32) (k : Nat) (hx : x.toNat < 2 ^ k) (hy : y.toNat < 2 ^ k) :
    (x ^^^ y).toNat < 2 ^ k := by
  rw [BitVec.toNat_xor]; exact Nat.xor_lt_two_pow hx hy

/-- four absorbed difference bytes leave a zero difference only if they are all zero -/
theorem burst4_zero (d0 d1 d2 d3 : UInt8)
    (h : step (step (step (step 0#32 d0) d1) d2) d3 = 0#32) :
    d0 = 0 ∧ d1 = 0 ∧ d2 = 0 ∧ d3 = 0 := by
  -- name the intermediate words
  have e0 : step 0#32 d0 = bitStep8 (d0.toBitVec.setWidth 32) := by simp [step]
  generalize hz0 : d0.toBitVec.setWidth 32 = z0 at e0
  generalize hz1 : d1.toBitVec.setWidth 32 = z1
  generalize hz2 : d2.toBitVec.setWidth 32 = z2
  generalize hz3 : d3.toBitVec.setWidth 32 = z3
  have b0 : z0.toNat < 256 := by rw [← hz0]; exact zext_lt d0
  have b1 : z1.toNat < 256 := by rw [← hz1]; exact zext_lt d1
  have b2 : z2.toNat < 256 := by rw [← hz2]; exact zext_lt d2
  have b3 : z3.toNat < 256 := by rw [← hz3]; exact zext_lt d3
  unfold step at h
  rw [hz0, hz1, hz2, hz3] at h
  simp only [BitVec.zero_xor] at h
  -- h : L (L (L (L z0 ^ z1) ^ z2) ^ z3) = 0
  generalize hY2 : bitStep8 z0 ^^^ z1 = Y2 at h
  generalize hY3 : bitStep8 Y2 ^^^ z2 = Y3 at h
  have h4 : bitStep8 Y3 ^^^ z3 = 0#32 := by
    apply bitStep8_injective; rw [h, bitStep8_zero]
  have hLY3 : bitStep8 Y3 = z3 := by
    have := congrArg (· ^^^ z3) h4
    simpa [BitVec.xor_assoc] using this
  -- (1)
  have s3 := bitStep8_small Y3 (by rw [hLY3]; omega)
  rw [hLY3] at s3
  have hY3lt : Y3.toNat < 2 ^ 16 := by omega
  -- (2)
  have hLY2 : bitStep8 Y2 = Y3 ^^^ z2 := by
    rw [← hY3, BitVec.xor_assoc, BitVec.xor_self, BitVec.xor_zero]
  have hLY2lt : (bitStep8 Y2).toNat < 2 ^ 16 := by
    rw [hLY2]; exact xor_toNat_lt _ _ 16 hY3lt (by omega)
  have s2 := bitStep8_small Y2 (by omega)
  have hY2lt : Y2.toNat < 2 ^ 24 := by omega
  -- (3)
  have hLz0 : bitStep8 z0 = Y2 ^^^ z1 := by
    rw [← hY2, BitVec.xor_assoc, BitVec.xor_self, BitVec.xor_zero]
  have hLz0lt : (bitStep8 z0).toNat < 2 ^ 24 := by
    rw [hLz0]; exact xor_toNat_lt _ _ 24 hY2lt (by omega)
  have s0 := bitStep8_small z0 (by omega)
  have hz0zero : z0 = 0#32 := by
    apply BitVec.eq_of_toNat_eq; simp; omega
  -- collapse
  have hY2z1 : Y2 = z1 := by rw [← hY2, hz0zero, bitStep8_zero, BitVec.zero_xor]
  have hz1zero : z1 = 0#32 := by
    apply BitVec.eq_of_toNat_eq; simp; rw [hY2z1] at s2; omega
  have hY2zero : Y2 = 0#32 := by rw [hY2z1, hz1zero]
  have hY3z2 : Y3 = z2 := by rw [← hY3, hY2zero, bitStep8_zero, BitVec.zero_xor]
  have hz2zero : z2 = 0#32 := by
    apply BitVec.eq_of_toNat_eq; simp; rw [hY3z2] at s3; omega
  have hz3zero : z3 = 0#32 := by
    rw [← hLY3, hY3z2, hz2zero, bitStep8_zero]
  have back : ∀ (d : UInt8), d.toBitVec.setWidth 32 = 0#32 → d = 0 := by
    intro d hd
    have := congrArg BitVec.toNat hd
    rw [zext_toNat] at this
    apply UInt8.toNat_inj.mp; simpa using this
  exact ⟨back d0 (hz0 ▸ hz0zero), back d1 (hz1 ▸ hz1zero), back d2 (hz2 ▸ hz2zero),
    back d3 (hz3 ▸ hz3zero)⟩

theorem u8_xor_eq_zero {a b : UInt8} (h : a ^^^ b = 0) : a = b := by
  have h1 : (a ^^^ b) ^^^ b = 0 ^^^ b := by rw [h]
  rw [UInt8.xor_assoc, UInt8.xor_self, UInt8.xor_zero, UInt8.zero_xor] at h1
  exact h1

/-- any change confined to four consecutive bytes changes the checksum -/
theorem crc32_burst4 (pre suf : List UInt8) (a0 a1 a2 a3 b0 b1 b2 b3 : UInt8)
    (h : ¬ (a0 = b0 ∧ a1 = b1 ∧ a2 = b2 ∧ a3 = b3)) :
    crc32 (pre ++ a0 :: a1 :: a2 :: a3 :: suf) ≠ crc32 (pre ++ b0 :: b1 :: b2 :: b3 :: suf) := by
  intro he
  unfold crc32 at he
  have h1 := finalize_injective he
  rw [update_append, update_append] at h1
  generalize update init pre = s at h1
  have h2 : update (step (step (step (step s a0) a1) a2) a3) suf
      = update (step (step (step (step s b0) b1) b2) b3) suf := by
    simpa [update] using h1
  have h3 := update_injective_state suf h2
  have h4 : step (step (step (step s a0) a1) a2) a3 ^^^ step (step (step (step s b0) b1) b2) b3
      = 0#32 := by rw [h3, BitVec.xor_self]
  rw [step_xor, step_xor, step_xor, step_xor, BitVec.xor_self] at h4
  obtain ⟨e0, e1, e2, e3⟩ := burst4_zero _ _ _ _ h4
  exact h ⟨u8_xor_eq_zero e0, u8_xor_eq_zero e1, u8_xor_eq_zero e2, u8_xor_eq_zero e3⟩

theorem step_zero_zero : step 0#32 (0 : UInt8) = 0#32 := by decide

/-- any change confined to two consecutive bytes changes the checksum (no further byte needs to
follow: the 4-byte statement does not apply to the last three bytes of a file) -/
theorem crc32_burst2 (pre suf : List UInt8) (a0 a1 b0 b1 : UInt8)
    (h : ¬ (a0 = b0 ∧ a1 = b1)) :
    crc32 (pre ++ a0 :: a1 :: suf) ≠ crc32 (pre ++ b0 :: b1 :: suf) := by
  intro he
  unfold crc32 at he
  have h1 := finalize_injective he
  rw [update_append, update_append] at h1
  generalize update init pre = s at h1
  have h2 : update (step (step s a0) a1) suf = update (step (step s b0) b1) suf := by
    simpa [update] using h1
  have h3 := update_injective_state suf h2
  have h4 : step (step s a0) a1 ^^^ step (step s b0) b1 = 0#32 := by rw [h3, BitVec.xor_self]
  rw [step_xor, step_xor, BitVec.xor_self] at h4
  have h5 : step (step (step (step 0#32 (a0 ^^^ b0)) (a1 ^^^ b1)) 0) 0 = 0#32 := by
    rw [h4, step_zero_zero, step_zero_zero]
  obtain ⟨e0, e1, _, _⟩ := burst4_zero _ _ _ _ h5
  exact h ⟨u8_xor_eq_zero e0, u8_xor_eq_zero e1⟩

end TantivyModel.Crc32
