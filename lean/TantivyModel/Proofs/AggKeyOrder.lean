import TantivyModel.Proofs.AggCompTrim
/-!
C14 helper lemmas: a terms aggregation ordered by `_key` ascending is exact under the
per-segment cut (`termsCut`) for any number of segments.  The cut keeps the first `segment_size`
keys of a segment; a key among the first `size ≤ segment_size` keys of the merged result is among
the first `segment_size` keys of every segment that holds it — the `compTrim` algebra of
`AggCompTrim.lean` with two different sizes.  No Mathlib.
-/
namespace TantivyModel.Agg

theorem isort_sorted_id {α : Type} (le : α → α → Bool) : ∀ l : List α,
    l.Pairwise (fun a b => le a b = true) → isort le l = l
  | [], _ => rfl
  | x :: xs, h => by
    obtain ⟨hx, hxs⟩ := List.pairwise_cons.1 h
    show insertBy le x (isort le xs) = x :: xs
    rw [isort_sorted_id le xs hxs]
    cases xs with
    | nil => rfl
    | cons y ys =>
      show (if le x y = true then x :: y :: ys else y :: insertBy le x ys) = _
      rw [if_pos (hx y List.mem_cons_self)]

theorem take_mem_of_le {α : Type} {l : List α} {s n : Nat} (h : s ≤ n) {x : α} (hx : x ∈ l.take s) :
    x ∈ l.take n := by
  have e : (l.take n).take s = l.take s := by rw [List.take_take, Nat.min_eq_left h]
  rw [← e] at hx
  exact List.mem_of_mem_take hx

section keyorder
variable {V : Type}

theorem pageKeys_trim_le {size n : Nat} (hle : size ≤ n) (after : Option Int) (m : KMap (Nat × V)) :
    pageKeys size after (compTrim n after m) = pageKeys size after m := by
  show ((spanOf m.hull).filter _).take size = ((spanOf m.hull).filter _).take size
  apply take_filter_congr
  · intro k hk
    simp only [Bool.and_eq_true] at hk ⊢
    exact ⟨hk.1, trim_get_isSome_imp n after m k hk.2⟩
  · intro k hk
    have hk2 : k ∈ pageKeys size after m := hk
    have hk3 : k ∈ pageKeys n after m := take_mem_of_le hle hk2
    obtain ⟨_, hv, hsome, _⟩ := mem_pageKeys.1 hk2
    simp only [Bool.and_eq_true]
    exact ⟨hv, by rw [trim_get_on_page n after m hk3]; exact hsome⟩

/-- trimming to a larger page first is invisible in the smaller page -/
theorem trim_trim_le {size n : Nat} (hle : size ≤ n) (after : Option Int) (m : KMap (Nat × V)) :
    compTrim size after (compTrim n after m) = compTrim size after m := by
  rw [show compTrim size after (compTrim n after m)
      = (compTrim n after m).restrict (pageKeys size after (compTrim n after m)) from rfl, pageKeys_trim_le hle]
  show KMap.mk m.hull _ = KMap.mk m.hull _
  congr 1
  funext k
  show (if (pageKeys size after m).contains k then (compTrim n after m).get k else Option.none)
    = (if (pageKeys size after m).contains k then m.get k else Option.none)
  by_cases hc : (pageKeys size after m).contains k
  · have hk : k ∈ pageKeys size after m := by simpa using hc
    simp only [hc, if_true]
    exact trim_get_on_page n after m (take_mem_of_le hle hk)
  · simp only [hc, Bool.false_eq_true, if_false]

/-- any per-fruit transformation that is invisible in the page is invisible in the page of the fold -/
theorem trim_fold_gen (f : (Nat × V) → (Nat × V) → (Nat × V)) (size : Nat) (after : Option Int)
    (T : KMap (Nat × V) → KMap (Nat × V))
    (hT : ∀ m, Supp m → compTrim size after (T m) = compTrim size after m)
    (hTs : ∀ m, Supp m → Supp (T m)) :
    ∀ (ms : List (KMap (Nat × V))) (acc acc' : KMap (Nat × V)), (∀ m ∈ ms, Supp m) → Supp acc → Supp acc' →
      compTrim size after acc' = compTrim size after acc →
      compTrim size after ((ms.map T).foldl (KMap.merge f) acc')
        = compTrim size after (ms.foldl (KMap.merge f) acc)
  | [], _, _, _, _, _, h => h
  | m :: ms, acc, acc', hms, hacc, hacc', h => by
    have hm : Supp m := hms m (List.mem_cons_self)
    simp only [List.map_cons, List.foldl_cons]
    apply trim_fold_gen f size after T hT hTs ms _ _ (fun x hx => hms x (List.mem_cons_of_mem _ hx))
      (supp_merge f hacc hm) (supp_merge f hacc' (hTs m hm))
    rw [← trim_merge f size after acc' (T m) hacc' (hTs m hm), hT m hm, h, trim_merge f size after acc m hacc hm]

/-! ### entries are in ascending key order -/

theorem entries_pairwise_key (m : KMap (Nat × V)) : m.entries.Pairwise (fun a b => a.1 < b.1) := by
  have h : (m.entries.map (·.1)).Pairwise (· < ·) := by
    unfold KMap.entries
    rw [filterMap_keys]
    exact List.Pairwise.sublist List.filter_sublist (pairwise_spanOf m.hull)
  exact List.pairwise_map.1 h

theorem sortBuckets_keyAsc_of_sorted {W : Type} (l : List (Int × Nat × W)) (h : l.Pairwise (fun a b => a.1 < b.1)) :
    sortBuckets .keyAsc l = l := by
  apply isort_sorted_id
  refine List.Pairwise.imp ?_ h
  intro a b hab
  show decide (a.1 ≤ b.1) = true
  exact decide_eq_true (Int.le_of_lt hab)

theorem pageKeys_none_eq (size : Nat) (m : KMap (Nat × V)) :
    pageKeys size Option.none m = (m.entries.take size).map (·.1) := by
  rw [List.map_take]
  unfold pageKeys KMap.entries
  rw [filterMap_keys]
  congr 1

/-- the entries of the page -/
theorem take_entries_of_trim (size : Nat) (m : KMap (Nat × V)) :
    (compTrim size Option.none m).entries.take size = m.entries.take size := by
  have h := page_of_trim (W := V) size Option.none m id (fun _ => rfl)
  rw [compPage_pred, compPage_pred, List.map_id, List.map_id] at h
  have hf : ∀ l : List (Int × Nat × V), l.filter (fun b => validKey Option.none b.1) = l :=
    fun l => List.filter_eq_self.2 (fun _ _ => rfl)
  rw [hf, hf] at h
  exact h

/-- the map `termsCut` keeps for `_key` ascending -/
def cutAsc (seg : Nat) (m : KMap (Nat × V)) : KMap (Nat × V) :=
  if m.entries.length ≤ seg then m else compTrim seg Option.none m

theorem termsCut_keyAsc_map (p : TermsP) (ho : p.order = .keyAsc) (t : TermsI V) :
    (termsCut p t).map = cutAsc p.segSize t.map := by
  unfold cutAsc
  by_cases h : t.map.entries.length ≤ p.segSize
  · rw [termsCut_small p t h, if_pos h]
  · rw [termsCut_big p t h, if_neg h, ho, sortBuckets_keyAsc_of_sorted _ (entries_pairwise_key t.map)]
    show t.map.restrict _ = t.map.restrict _
    rw [pageKeys_none_eq]

theorem cutAsc_trim {size seg : Nat} (hle : size ≤ seg) (m : KMap (Nat × V)) :
    compTrim size Option.none (cutAsc seg m) = compTrim size Option.none m := by
  unfold cutAsc
  by_cases h : m.entries.length ≤ seg
  · rw [if_pos h]
  · rw [if_neg h]; exact trim_trim_le hle _ _

theorem cutAsc_supp (seg : Nat) {m : KMap (Nat × V)} (hs : Supp m) : Supp (cutAsc seg m) := by
  unfold cutAsc
  by_cases h : m.entries.length ≤ seg
  · rw [if_pos h]; exact hs
  · rw [if_neg h]; exact supp_trim hs _ _

theorem mapVals_id (m : KMap (Nat × V)) : m.mapVals id = m := by
  cases m with
  | mk hull get =>
    show KMap.mk hull _ = KMap.mk hull get
    congr 1
    funext k
    show Option.map (fun e : Nat × V => (e.1, id e.2)) (get k) = get k
    cases get k with
    | none => rfl
    | some v => rfl

end keyorder

section termsKey
variable {M : Type} [AddOp M] [LawfulAddOp M]

theorem foldl_terms_map (p : TermsP) (sub : Req) : ∀ (ts : List (TermsI (Inter M sub))) (acc : TermsI (Inter M sub)),
    (ts.foldl (merge (.terms p sub)) acc).map
      = (ts.map (·.map)).foldl (KMap.merge (entryMerge (merge (M := M) sub))) acc.map
  | [], _ => rfl
  | t :: ts, acc => by
    simp only [List.foldl_cons, List.map_cons]
    rw [foldl_terms_map p sub ts]
    rfl

theorem collectSeg_terms_map (p : TermsP) (sub : Req) (ho : p.order = .keyAsc)
    (hsub : ∀ x : Inter M sub, harvest sub x = x) (part : List Doc) :
    (collectSeg (M := M) (.terms p sub) part).map = cutAsc p.segSize (collectB (M := M) sub (termKeys p) part) := by
  have hid : harvest (M := M) sub = id := funext hsub
  show ((termsCut p (collect (M := M) (.terms p sub) part)).map.mapVals (harvest sub)) = _
  rw [hid, mapVals_id, termsCut_keyAsc_map p ho, collect_terms]

/-- **terms ordered by `_key` ascending: the per-segment cut is invisible** in the first `size`
buckets of the merged result, for any number of segments -/
theorem terms_keyAsc_cut_exact (p : TermsP) (sub : Req) (ho : p.order = .keyAsc) (hsz : p.size ≤ p.segSize)
    (hsub : ∀ x : Inter M sub, harvest sub x = x) (parts : List (List Doc)) :
    (mergedTerms (M := M) p sub parts).map.entries.take p.size
      = (collect (M := M) (.terms p sub) parts.flatten).map.entries.take p.size := by
  have h2 : (parts.map (collect (M := M) (.terms p sub))).foldl (merge (.terms p sub)) (empty (.terms p sub))
      = collect (.terms p sub) parts.flatten :=
    fold_parts (merge (.terms p sub)) (empty (.terms p sub)) (merge_assoc _)
      (merge_comm _) (empty_merge _) (collect (.terms p sub)) (collect_nil _) (collect_append _) parts
  rw [← h2]
  unfold mergedTerms
  rw [foldl_terms_map, foldl_terms_map, List.map_map, List.map_map]
  have e1 : (parts.map ((fun t : TermsI (Inter M sub) => t.map) ∘ collectSeg (M := M) (.terms p sub)))
      = (parts.map (collectB (M := M) sub (termKeys p))).map (cutAsc p.segSize) := by
    rw [List.map_map]
    apply List.map_congr_left
    intro part _
    exact collectSeg_terms_map p sub ho hsub part
  have e2 : (parts.map ((fun t : TermsI (Inter M sub) => t.map) ∘ collect (M := M) (.terms p sub)))
      = parts.map (collectB (M := M) sub (termKeys p)) := by
    apply List.map_congr_left
    intro part _
    show (collect (M := M) (.terms p sub) part).map = _
    rw [collect_terms]
  rw [e1, e2]
  have h := trim_fold_gen (entryMerge (merge (M := M) sub)) p.size Option.none (cutAsc p.segSize)
    (fun m _ => cutAsc_trim hsz m) (fun m hm => cutAsc_supp p.segSize hm)
    (parts.map (collectB (M := M) sub (termKeys p))) KMap.empty KMap.empty
    (by
      intro m hm
      obtain ⟨q, _, rfl⟩ := List.mem_map.1 hm
      exact collectB_Supp_pv sub (termKeys p) q)
    supp_empty supp_empty rfl
  have h' := congrArg (fun x : KMap (Nat × Inter M sub) => x.entries.take p.size) h
  simp only [take_entries_of_trim] at h'
  exact h'

end termsKey

/-! ### with the final stage: `min_doc_count ≤ 1` filters nothing because every held bucket has a document -/

section pos
variable {V : Type}

def Pos (m : KMap (Nat × V)) : Prop := ∀ k e, m.get k = some e → 1 ≤ e.1

theorem hp_le {m : KMap (Nat × V)} (h : Pos m) {k : Int} {e : Nat × V} (hg : m.get k = some e) : 1 ≤ e.1 := h k e hg

theorem pos_empty : Pos (KMap.empty : KMap (Nat × V)) := by
  intro k e h; cases h

theorem pos_restrict {m : KMap (Nat × V)} (h : Pos m) (keep : List Int) : Pos (m.restrict keep) := by
  intro k e hg
  rw [restrict_get] at hg
  split at hg
  · exact h k e hg
  · cases hg

theorem pos_merge (f : V → V → V) {a b : KMap (Nat × V)} (ha : Pos a) (hb : Pos b) :
    Pos (KMap.merge (entryMerge f) a b) := by
  intro k e hg
  change optMerge (entryMerge f) (a.get k) (b.get k) = some e at hg
  cases hga : a.get k with
  | none =>
    rw [hga] at hg
    have hb' : b.get k = some e := by
      cases hgb : b.get k with
      | none => rw [hgb] at hg; cases hg
      | some y => rw [hgb] at hg; exact hg
    exact hb k e hb'
  | some x =>
    cases hgb : b.get k with
    | none =>
      rw [hga, hgb] at hg
      have h2 : some x = some e := hg
      obtain rfl := Option.some.inj h2
      exact ha k x hga
    | some y =>
      rw [hga, hgb] at hg
      have h2 : some (entryMerge f x y) = some e := hg
      obtain rfl := Option.some.inj h2
      show 1 ≤ x.1 + y.1
      have := ha k x hga
      omega

theorem pos_cutAsc (seg : Nat) {m : KMap (Nat × V)} (h : Pos m) : Pos (cutAsc seg m) := by
  unfold cutAsc
  by_cases hl : m.entries.length ≤ seg
  · rw [if_pos hl]; exact h
  · rw [if_neg hl]; exact pos_restrict h _

theorem pos_foldl (f : V → V → V) : ∀ (ms : List (KMap (Nat × V))) (acc : KMap (Nat × V)),
    (∀ m ∈ ms, Pos m) → Pos acc → Pos (ms.foldl (KMap.merge (entryMerge f)) acc)
  | [], _, _, h => h
  | m :: ms, acc, hms, h => by
    simp only [List.foldl_cons]
    exact pos_foldl f ms _ (fun x hx => hms x (List.mem_cons_of_mem _ hx))
      (pos_merge f h (hms m List.mem_cons_self))

/-- `_key` ascending, `min_doc_count ≤ 1`, every held bucket non-empty: the shown buckets are the
first `size` entries -/
theorem shown_keyAsc_of_pos {W : Type} (p : TermsP) (ho : p.order = .keyAsc) (hmdc : p.minDocCount ≤ 1)
    (m : KMap (Nat × V)) (hp : Pos m) (g : V → W) (other err : Nat) :
    (termsFinal p (m.entries.map fun e => (e.1, e.2.1, g e.2.2)) other err).1
      = (m.entries.take p.size).map (fun e => (e.1, e.2.1, g e.2.2)) := by
  show (sortBuckets p.order ((m.entries.map fun e => (e.1, e.2.1, g e.2.2)).filter
    (fun b => decide (p.minDocCount ≤ b.2.1)))).take p.size = _
  have hf : (m.entries.map fun e => (e.1, e.2.1, g e.2.2)).filter (fun b => decide (p.minDocCount ≤ b.2.1))
      = m.entries.map fun e => (e.1, e.2.1, g e.2.2) := by
    apply List.filter_eq_self.2
    intro b hb
    obtain ⟨e, he, rfl⟩ := List.mem_map.1 hb
    have := hp e.1 e.2 (mem_entries.1 he).2
    exact decide_eq_true (Nat.le_trans hmdc this)
  have hpw : (m.entries.map fun e => ((e.1, e.2.1, g e.2.2) : Int × Nat × W)).Pairwise (fun a b => a.1 < b.1) :=
    List.pairwise_map.2 (entries_pairwise_key m)
  rw [hf, ho, sortBuckets_keyAsc_of_sorted _ hpw, List.map_take]

end pos

section termsKeyFinal
variable {M : Type} [AddOp M] [LawfulAddOp M]

theorem harvest_of_cutFree : ∀ (r : Req), r.cutFree = true → ∀ x : Inter M r, harvest r x = x
  | .none, _, _ => rfl
  | .both a b, h, x => by
    have h' : a.cutFree = true ∧ b.cutFree = true := by simpa [Req.cutFree] using h
    show (harvest a x.1, harvest b x.2) = x
    rw [harvest_of_cutFree a h'.1, harvest_of_cutFree b h'.2]
  | .metric _ _, _, _ => rfl
  | .terms _ _, h, _ => by simp [Req.cutFree] at h
  | .hist _ sub, h, x => by
    have h' : sub.cutFree = true := by simpa [Req.cutFree] using h
    show KMap.mapVals (harvest sub) x = x
    rw [show harvest (M := M) sub = id from funext (harvest_of_cutFree sub h')]
    exact mapVals_id x
  | .range _ _ sub, h, x => by
    have h' : sub.cutFree = true := by simpa [Req.cutFree] using h
    show KMap.mapVals (harvest sub) x = x
    rw [show harvest (M := M) sub = id from funext (harvest_of_cutFree sub h')]
    exact mapVals_id x
  | .filter _ _ sub, h, x => by
    have h' : sub.cutFree = true := by simpa [Req.cutFree] using h
    show (x.1, harvest sub x.2) = x
    rw [harvest_of_cutFree sub h']
  | .topHits _ _ _ _, _, _ => rfl
  | .composite _ _ _ sub, h, x => by
    have h' : sub.cutFree = true := by simpa [Req.cutFree] using h
    show KMap.mapVals (harvest sub) x = x
    rw [show harvest (M := M) sub = id from funext (harvest_of_cutFree sub h')]
    exact mapVals_id x

theorem pos_collectB (sub : Req) (keysOf : Doc → List Int) (docs : List Doc) :
    Pos (collectB (M := M) sub keysOf docs) := by
  intro k e hg
  rw [(collectB_spec_pv sub keysOf docs).2 k] at hg
  split at hg
  · cases hg
  · rename_i hne
    obtain rfl := Option.some.inj hg
    show 1 ≤ (repDocs keysOf k docs).length
    cases hl : repDocs keysOf k docs with
    | nil => rw [hl] at hne; exact absurd rfl hne
    | cons x xs => simp

/-- **terms ordered by `_key` ascending are exact under the per-segment cut**: the returned buckets
(keys, doc counts, sub-results) of any number of truncated segments are those of collecting all
documents at once -/
theorem terms_keyAsc_exact (p : TermsP) (sub : Req) (ho : p.order = .keyAsc) (hsz : p.size ≤ p.segSize)
    (hmdc : p.minDocCount ≤ 1) (hsub : ∀ x : Inter M sub, harvest sub x = x) (parts : List (List Doc)) :
    (finalize (M := M) (.terms p sub) (mergedTerms (M := M) p sub parts)).1
      = (finalize (M := M) (.terms p sub) (collect (M := M) (.terms p sub) parts.flatten)).1 := by
  have hpos1 : Pos (mergedTerms (M := M) p sub parts).map := by
    unfold mergedTerms
    rw [foldl_terms_map]
    apply pos_foldl
    · intro m hm
      obtain ⟨t, ht, rfl⟩ := List.mem_map.1 hm
      obtain ⟨part, _, rfl⟩ := List.mem_map.1 ht
      rw [collectSeg_terms_map p sub ho hsub part]
      exact pos_cutAsc _ (pos_collectB sub (termKeys p) part)
    · exact pos_empty
  have hpos2 : Pos (collect (M := M) (.terms p sub) parts.flatten).map := by
    rw [collect_terms]
    exact pos_collectB sub (termKeys p) parts.flatten
  show (termsFinal p ((mergedTerms (M := M) p sub parts).map.entries.map fun e => (e.1, e.2.1, finalize sub e.2.2)) _ _).1
    = (termsFinal p ((collect (M := M) (.terms p sub) parts.flatten).map.entries.map fun e => (e.1, e.2.1, finalize sub e.2.2)) _ _).1
  rw [shown_keyAsc_of_pos p ho hmdc _ hpos1, shown_keyAsc_of_pos p ho hmdc _ hpos2,
    terms_keyAsc_cut_exact p sub ho hsz hsub parts]

/-! ### `sum_other_doc_count` is exact as well (conservation) -/

theorem supp_foldl {V : Type} (f : (Nat × V) → (Nat × V) → (Nat × V)) : ∀ (ms : List (KMap (Nat × V))) (acc : KMap (Nat × V)),
    (∀ m ∈ ms, Supp m) → Supp acc → Supp (ms.foldl (KMap.merge f) acc)
  | [], _, _, h => h
  | m :: ms, acc, hms, h => by
    simp only [List.foldl_cons]
    exact supp_foldl f ms _ (fun x hx => hms x (List.mem_cons_of_mem _ hx))
      (supp_merge f h (hms m List.mem_cons_self))

theorem sumCounts_map_keep {V W : Type} (g : V → W) (l : List (Int × Nat × V)) :
    sumCounts (l.map fun e => ((e.1, e.2.1, g e.2.2) : Int × Nat × W)) = sumCounts l := by
  unfold sumCounts
  rw [List.map_map]
  rfl

theorem sumCounts_entries_eq {V : Type} (m : KMap (Nat × V)) (hs : Supp m) (U : List Int) (hU : U.Nodup)
    (hin : ∀ e ∈ m.entries, e.1 ∈ U) : sumOver U (cnt m) = sumCounts m.entries := by
  apply sumOver_eq_sumCounts U hU m.entries (cnt m) (entries_keys_nodup m) hin
  · intro e he
    unfold cnt
    rw [(mem_entries.1 he).2]
  · intro k hk
    unfold cnt
    cases hg : m.get k with
    | none => rfl
    | some e => exact absurd (List.mem_map_of_mem (f := (·.1)) (mem_entries_of_get hs hg)) hk

theorem other_keyAsc_of_pos {V W : Type} (p : TermsP) (ho : p.order = .keyAsc) (hmdc : p.minDocCount ≤ 1)
    (m : KMap (Nat × V)) (hp : Pos m) (g : V → W) (other err : Nat) :
    (termsFinal p (m.entries.map fun e => (e.1, e.2.1, g e.2.2)) other err).2.1
      = other + sumCounts (m.entries.drop p.size) := by
  show other + sumCounts ((sortBuckets p.order ((m.entries.map fun e => (e.1, e.2.1, g e.2.2)).filter
    (fun b => decide (p.minDocCount ≤ b.2.1)))).drop p.size) = _
  have hf : (m.entries.map fun e => (e.1, e.2.1, g e.2.2)).filter (fun b => decide (p.minDocCount ≤ b.2.1))
      = m.entries.map fun e => (e.1, e.2.1, g e.2.2) := by
    apply List.filter_eq_self.2
    intro b hb
    obtain ⟨e, he, rfl⟩ := List.mem_map.1 hb
    have := hp e.1 e.2 (mem_entries.1 he).2
    exact decide_eq_true (Nat.le_trans hmdc this)
  have hpw : (m.entries.map fun e => ((e.1, e.2.1, g e.2.2) : Int × Nat × W)).Pairwise (fun a b => a.1 < b.1) :=
    List.pairwise_map.2 (entries_pairwise_key m)
  rw [hf, ho, sortBuckets_keyAsc_of_sorted _ hpw, ← List.map_drop, sumCounts_map_keep]

/-- conservation over the whole partition: what the merged truncated tree holds plus its
`sum_other_doc_count` is what the untruncated collection holds -/
theorem terms_conservation_total (p : TermsP) (sub : Req) (parts : List (List Doc))
    (hpos1 : Pos (mergedTerms (M := M) p sub parts).map) (hsupp1 : Supp (mergedTerms (M := M) p sub parts).map) :
    sumCounts (mergedTerms (M := M) p sub parts).map.entries + (mergedTerms (M := M) p sub parts).other
      = sumCounts (collect (M := M) (.terms p sub) parts.flatten).map.entries := by
  have hnd : ∀ d ∈ parts.flatten, (termKeys p d).Nodup := fun d _ => termKeys_nodup p d
  have hX' : collect (M := M) (.terms p sub) parts.flatten = ⟨collectB sub (termKeys p) parts.flatten, 0, 0⟩ :=
    collect_terms p sub parts.flatten
  have hsupp2 : Supp (collect (M := M) (.terms p sub) parts.flatten).map := by
    rw [hX']; exact collectB_Supp_pv sub (termKeys p) parts.flatten
  let U : List Int := spanOf (hullOfList (parts.flatten.flatMap (termKeys p)))
  have hU : U.Nodup := nodup_spanOf _
  have hUmem : ∀ d ∈ parts.flatten, ∀ k ∈ termKeys p d, k ∈ U := fun d hd k hk =>
    mem_spanOf.2 (inHull_hullOfList (List.mem_flatMap.2 ⟨d, hd, hk⟩))
  have hcov : ∀ part ∈ parts, ∀ d ∈ part, ∀ k ∈ termKeys p d, k ∈ U := fun part hpart d hd k hk =>
    hUmem d (List.mem_flatten.2 ⟨part, hpart, hd⟩) k hk
  obtain ⟨b1, _, b3⟩ := terms_error_bound (M := M) p sub parts U hU hcov
  have hin1 : ∀ e ∈ (mergedTerms (M := M) p sub parts).map.entries, e.1 ∈ U := by
    intro e he
    have hg := (mem_entries.1 he).2
    have hc : cnt (mergedTerms (M := M) p sub parts).map e.1 = e.2.1 := by unfold cnt; rw [hg]
    have h1 := hp_le hpos1 hg
    have h2 := b1 e.1
    rw [hc] at h2
    have hne : parts.flatten.filter (fun d => (termKeys p d).contains e.1) ≠ [] := by
      intro h0; rw [h0] at h2; simp at h2; omega
    obtain ⟨d, hd⟩ := List.exists_mem_of_ne_nil _ hne
    obtain ⟨hd1, hd2⟩ := List.mem_filter.1 hd
    exact hUmem d hd1 e.1 (by simpa using hd2)
  have hin2 : ∀ e ∈ (collect (M := M) (.terms p sub) parts.flatten).map.entries, e.1 ∈ U := by
    intro e he
    have hg := (mem_entries.1 he).2
    rw [hX'] at hg
    obtain ⟨d, hd, hk⟩ := collectB_supp sub (termKeys p) parts.flatten hnd hg
    exact hUmem d hd e.1 hk
  have e1 := sumCounts_entries_eq _ hsupp1 U hU hin1
  have e2 := sumCounts_entries_eq _ hsupp2 U hU hin2
  have e3 : sumOver U (cnt (collect (M := M) (.terms p sub) parts.flatten).map)
      = sumOver U (fun k => (parts.flatten.filter (fun d => (termKeys p d).contains k)).length) := by
    apply sumOver_congr
    intro k _
    rw [hX']
    exact collectB_cnt sub (termKeys p) parts.flatten hnd k
  omega

/-! any order, no cut below: the map of a segment fruit is the map `termsCut` leaves -/

theorem collectSeg_terms_map_gen (p : TermsP) (sub : Req) (hsub : ∀ x : Inter M sub, harvest sub x = x)
    (part : List Doc) :
    (collectSeg (M := M) (.terms p sub) part).map
      = (termsCut p (⟨collectB (M := M) sub (termKeys p) part, 0, 0⟩ : TermsI (Inter M sub))).map := by
  have hid : harvest (M := M) sub = id := funext hsub
  show ((termsCut p (collect (M := M) (.terms p sub) part)).map.mapVals (harvest sub)) = _
  rw [hid, mapVals_id, collect_terms]

theorem pos_termsCut {V : Type} (p : TermsP) (t : TermsI V) (h : Pos t.map) : Pos (termsCut p t).map := by
  by_cases hl : t.map.entries.length ≤ p.segSize
  · rw [termsCut_small p t hl]; exact h
  · rw [termsCut_big p t hl]; exact pos_restrict h _

theorem mergedTerms_map_eq (p : TermsP) (sub : Req) (hsub : ∀ x : Inter M sub, harvest sub x = x)
    (parts : List (List Doc)) :
    (mergedTerms (M := M) p sub parts).map
      = ((parts.map (collectB (M := M) sub (termKeys p))).map
            (fun m => (termsCut p (⟨m, 0, 0⟩ : TermsI (Inter M sub))).map)).foldl
          (KMap.merge (entryMerge (merge (M := M) sub))) KMap.empty := by
  unfold mergedTerms
  rw [foldl_terms_map, List.map_map, List.map_map]
  congr 1
  apply List.map_congr_left
  intro part _
  exact collectSeg_terms_map_gen p sub hsub part

theorem mergedTerms_pos (p : TermsP) (sub : Req) (hsub : ∀ x : Inter M sub, harvest sub x = x)
    (parts : List (List Doc)) : Pos (mergedTerms (M := M) p sub parts).map := by
  rw [mergedTerms_map_eq p sub hsub]
  apply pos_foldl
  · intro m hm
    obtain ⟨t, ht, rfl⟩ := List.mem_map.1 hm
    obtain ⟨part, _, rfl⟩ := List.mem_map.1 ht
    exact pos_termsCut p _ (pos_collectB sub (termKeys p) part)
  · exact pos_empty

theorem mergedTerms_supp (p : TermsP) (sub : Req) (hsub : ∀ x : Inter M sub, harvest sub x = x)
    (parts : List (List Doc)) : Supp (mergedTerms (M := M) p sub parts).map := by
  rw [mergedTerms_map_eq p sub hsub]
  apply supp_foldl
  · intro m hm
    obtain ⟨t, ht, rfl⟩ := List.mem_map.1 hm
    obtain ⟨part, _, rfl⟩ := List.mem_map.1 ht
    exact termsCut_supp p _ (collectB_Supp_pv sub (termKeys p) part)
  · exact supp_empty

theorem terms_keyAsc_other_exact (p : TermsP) (sub : Req) (ho : p.order = .keyAsc) (hsz : p.size ≤ p.segSize)
    (hmdc : p.minDocCount ≤ 1) (hsub : ∀ x : Inter M sub, harvest sub x = x) (parts : List (List Doc)) :
    (finalize (M := M) (.terms p sub) (mergedTerms (M := M) p sub parts)).2.1
      = (finalize (M := M) (.terms p sub) (collect (M := M) (.terms p sub) parts.flatten)).2.1 := by
  have hpos1 := mergedTerms_pos (M := M) p sub hsub parts
  have hsupp1 := mergedTerms_supp (M := M) p sub hsub parts
  have hX' : collect (M := M) (.terms p sub) parts.flatten = ⟨collectB sub (termKeys p) parts.flatten, 0, 0⟩ :=
    collect_terms p sub parts.flatten
  have hpos2 : Pos (collect (M := M) (.terms p sub) parts.flatten).map := by
    rw [hX']; exact pos_collectB sub (termKeys p) parts.flatten
  have htot := terms_conservation_total (M := M) p sub parts hpos1 hsupp1
  have hk1 := terms_keyAsc_cut_exact (M := M) p sub ho hsz hsub parts
  have s1 := sumCounts_append ((mergedTerms (M := M) p sub parts).map.entries.take p.size)
    ((mergedTerms (M := M) p sub parts).map.entries.drop p.size)
  have s2 := sumCounts_append ((collect (M := M) (.terms p sub) parts.flatten).map.entries.take p.size)
    ((collect (M := M) (.terms p sub) parts.flatten).map.entries.drop p.size)
  rw [List.take_append_drop] at s1 s2
  rw [hk1] at s1
  have hoth : (collect (M := M) (.terms p sub) parts.flatten).other = 0 := by rw [hX']
  show (termsFinal p ((mergedTerms (M := M) p sub parts).map.entries.map fun e => (e.1, e.2.1, finalize sub e.2.2)) _ _).2.1
    = (termsFinal p ((collect (M := M) (.terms p sub) parts.flatten).map.entries.map fun e => (e.1, e.2.1, finalize sub e.2.2)) _ _).2.1
  rw [other_keyAsc_of_pos p ho hmdc _ hpos1, other_keyAsc_of_pos p ho hmdc _ hpos2, hoth]
  omega

end termsKeyFinal


end TantivyModel.Agg
