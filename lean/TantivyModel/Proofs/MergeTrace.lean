import TantivyModel.Proofs.Merge
/-! helper lemmas for the event-machine theorem of C04 (`C04_merge_invisible_all_traces`) -/
namespace TantivyModel.Merge

theorem takeWhile_of_all {α} (p : α → Bool) (l : List α) (h : ∀ x ∈ l, p x = true) :
    l.takeWhile p = l := by
  induction l with
  | nil => rfl
  | cons a as ih => simp [h a (by simp), ih (fun x hx => h x (by simp [hx]))]

theorem takeWhile_dropWhile_nil {α} (p : α → Bool) (l : List α) :
    (l.dropWhile p).takeWhile p = [] := by
  induction l with
  | nil => rfl
  | cons a as ih =>
    by_cases h : p a = true
    · simp [h, ih]
    · simp [h]

/-- a target at or above every queued opstamp consumes the whole rest of the queue -/
theorem consumed_all (q : List DelOp) (c T : Nat) (h : ∀ op ∈ q, op.opstamp ≤ T) :
    consumed q c T = q.drop c := by
  unfold consumed
  apply takeWhile_of_all
  intro op hop
  simpa using h op (List.mem_of_mem_drop hop)

theorem consumed_after_advance (q : List DelOp) (e : Entry) (t : Nat) :
    consumed q (advance q e t).cursor t = [] := by
  rw [advance_cursor]
  unfold consumed
  rw [← List.drop_drop, drop_takeWhile_length]
  exact takeWhile_dropWhile_nil _ _

theorem length_takeWhile_le' {α} (p : α → Bool) (l : List α) : (l.takeWhile p).length ≤ l.length := by
  induction l with
  | nil => simp
  | cons a as ih =>
    by_cases h : p a = true <;> simp [h] <;> omega

theorem consumed_length_le (q : List DelOp) (c t : Nat) : c + (consumed q c t).length ≤ max c q.length := by
  unfold consumed
  have := length_takeWhile_le' (fun op : DelOp => decide (op.opstamp ≤ t)) (q.drop c)
  simp only [List.length_drop] at this
  omega

theorem advance_cursor_le (q : List DelOp) (e : Entry) (t : Nat) (hc : e.cursor ≤ q.length) :
    (advance q e t).cursor ≤ q.length := by
  rw [advance_cursor]
  have := consumed_length_le q e.cursor t
  omega

theorem advance_segId (q : List DelOp) (e : Entry) (t : Nat) : (advance q e t).segId = e.segId := rfl

theorem liveDocsOf_advance (q : List DelOp) (e : Entry) (t : Nat) (h : e.docs.length = e.alive.length) :
    liveDocsOf (advance q e t) = (liveDocsOf e).filter fun d => !killedBy (consumed q e.cursor t) d :=
  liveDocs_advance q e t h

theorem liveDocsOf_advance_all (q : List DelOp) (e : Entry) (T : Nat)
    (hwf : e.docs.length = e.alive.length) (hall : ∀ op ∈ q, op.opstamp ≤ T) :
    liveDocsOf (advance q e T) = docsAll q e := by
  rw [liveDocsOf_advance q e T hwf, consumed_all q e.cursor T hall]
  rfl

theorem drop_eq_consumed_append (q : List DelOp) (c t : Nat) :
    q.drop c = consumed q c t ++ q.drop (c + (consumed q c t).length) := by
  unfold consumed
  rw [← List.drop_drop, drop_takeWhile_length, List.takeWhile_append_dropWhile]

/-- advancing an entry does not change what it holds once the whole queue is applied -/
theorem docsAll_advance (q : List DelOp) (e : Entry) (t : Nat) (hwf : e.docs.length = e.alive.length) :
    docsAll q (advance q e t) = docsAll q e := by
  unfold docsAll
  rw [liveDocsOf_advance q e t hwf, List.filter_filter, advance_cursor]
  congr 1
  funext d
  conv => rhs; rw [drop_eq_consumed_append q e.cursor t]
  simp only [killedBy, List.any_append]
  cases (consumed q e.cursor t).any fun op => hits op d <;> simp

/-- a delete pushed to the end of the queue hits every entry whose cursor is inside the queue -/
theorem docsAll_push (q : List DelOp) (op : DelOp) (e : Entry) (hc : e.cursor ≤ q.length) :
    docsAll (q ++ [op]) e = (docsAll q e).filter fun d => !hits op d := by
  unfold docsAll
  rw [List.drop_append_of_le_length hc, List.filter_filter]
  congr 1
  funext d
  simp only [List.any_append, List.any_cons, List.any_nil, Bool.or_false]
  cases (q.drop e.cursor).any fun op => hits op d <;> simp

/-- operations pushed later (above the target) do not change an advance to the target -/
theorem consumed_push_later (q : List DelOp) (op : DelOp) (c t : Nat) (h : t < op.opstamp) :
    consumed (q ++ [op]) c t = consumed q c t := by
  unfold consumed
  rw [List.drop_append]
  generalize q.drop c = A
  have hB : ∀ B : List DelOp, (∀ o ∈ B, t < o.opstamp) →
      (A ++ B).takeWhile (fun o => decide (o.opstamp ≤ t)) = A.takeWhile (fun o => decide (o.opstamp ≤ t)) := by
    intro B hB
    induction A with
    | nil =>
      cases B with
      | nil => rfl
      | cons b bs =>
        have := hB b (by simp)
        simp [List.takeWhile_cons]; omega
    | cons a as ih =>
      by_cases ha : a.opstamp ≤ t <;> simp [ha, ih]
  exact hB _ (fun o ho => by
    have := List.mem_of_mem_drop ho
    simp at this
    subst this
    exact h)

theorem advance_push_later (q : List DelOp) (op : DelOp) (e : Entry) (t : Nat) (h : t < op.opstamp) :
    advance (q ++ [op]) e t = advance q e t := by
  simp [advance, consumed_push_later q op e.cursor t h]

theorem mergeEntries_none_iff (q : List DelOp) (srcs : List Entry) (target newId : Nat) :
    mergeEntries q srcs target newId = none ↔ (srcs.map fun e => (liveUids e).length).sum = 0 := by
  unfold mergeEntries
  split <;> simp_all

theorem liveUids_length (e : Entry) : (liveUids e).length = (liveDocsOf e).length := by
  simp [liveUids, liveDocsOf]

/-- docs-level version of `merged_covers` -/
theorem merged_covers_docs (q : List DelOp) (srcs : List Entry) (target newId c0 T : Nat) (m : Entry)
    (hm : mergeEntries q srcs target newId = some m)
    (hwf : ∀ e ∈ srcs, e.docs.length = e.alive.length)
    (hsame : SameCursor q srcs target c0) (hT : target ≤ T) :
    liveDocsOf (advance q m T) = (srcs.map fun e => liveDocsOf (advance q e T)).flatten := by
  unfold mergeEntries at hm
  split at hm
  · cases hm
  · rename_i hne
    simp only [Option.some.injEq] at hm
    have hcur : m.cursor = c0 := by
      rw [← hm]
      cases srcs with
      | nil => simp at hne
      | cons e rest => simpa using hsame e (by simp)
    have hdocs : m.docs = ((srcs.map fun e => advance q e target).map fun e => liveDocs e.docs e.alive).flatten := by
      rw [← hm]
    have halive : m.alive = List.replicate m.docs.length true := by rw [← hm]
    have hmwf : m.docs.length = m.alive.length := by rw [halive]; simp
    unfold liveDocsOf
    rw [liveDocs_advance q m T hmwf, halive, liveDocs_replicate_true, hdocs, filter_flatten, hcur]
    congr 1
    simp only [List.map_map]
    apply List.map_congr_left
    intro e he
    simp only [Function.comp]
    rw [← liveDocs_advance_advance q e target T hT (hwf e he),
      liveDocs_advance q (advance q e target) T (advance_wf q e target (hwf e he)), hsame e he]

theorem mergeEntries_some_props (q : List DelOp) (srcs : List Entry) (target newId : Nat) (m : Entry)
    (hm : mergeEntries q srcs target newId = some m) :
    m.segId = newId ∧ m.docs.length = m.alive.length ∧
      ∀ e0 rest, srcs = e0 :: rest → m.cursor = (advance q e0 target).cursor := by
  unfold mergeEntries at hm
  split at hm
  · cases hm
  · simp only [Option.some.injEq] at hm
    subst hm
    refine ⟨rfl, by simp, ?_⟩
    intro e0 rest h
    subst h
    rfl

end TantivyModel.Merge
