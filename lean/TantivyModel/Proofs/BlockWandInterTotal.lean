import TantivyModel.Proofs.BlockWandInter
/-!
The mirrored `block_wand_intersection` loop COMPLETES: started on fresh scorers (skip readers on
their first block) it never reaches the model-only `skipAhead` outcome, and a fuel of
`Σ blocks + 2` iterations is enough — every window passes the end of a block of some scorer.
-/
namespace TantivyModel.BlockWand
open List TantivyModel.Wand

/-! ### skip readers -/

theorem takeWhile_drop_length {β : Type} (p : β → Bool) : ∀ (l : List β) (n : Nat), n ≤ (l.takeWhile p).length →
    n + ((l.drop n).takeWhile p).length = (l.takeWhile p).length
  | _, 0, _ => by simp
  | [], n + 1, h => by simp at h
  | y :: ys, n + 1, h => by
    by_cases hy : p y = true
    · rw [takeWhile_cons_of_pos hy] at h ⊢
      simp only [length_cons, drop_succ_cons] at h ⊢
      have := takeWhile_drop_length p ys n (by omega)
      omega
    · rw [takeWhile_cons_of_neg hy] at h; simp at h

theorem seekBlock_skip (x : S) (d : Nat) :
    (x.seekBlock d).skip = x.skip + ((x.blocks.drop x.skip).takeWhile (fun b => decide (b.1 < d))).length := by
  unfold TS.seekBlock
  dsimp only
  split
  · rename_i h; exact h.symm
  · rfl

/-- a skip reader not ahead of the block of `d` is moved onto it by `seek_block(d)` -/
theorem seekBlock_skip_eq (x : S) (d : Nat) (h : x.skip ≤ x.blockIdx d) : (x.seekBlock d).skip = x.blockIdx d := by
  rw [seekBlock_skip]
  exact takeWhile_drop_length _ x.blocks x.skip h

theorem seekBlock_blockIdx (x : S) (t d : Nat) : (x.seekBlock t).blockIdx d = x.blockIdx d := by
  unfold TS.blockIdx; rw [seekBlock_blocks]
theorem seek_blockIdx (x : S) (t d : Nat) : (x.seek t).blockIdx d = x.blockIdx d := by
  unfold TS.blockIdx; rw [seek_blocks]
theorem loadBlock_blocks (x : S) : x.loadBlock.blocks = x.blocks := by unfold TS.loadBlock; split <;> rfl
theorem loadBlock_skip (x : S) : x.loadBlock.skip = x.skip := by unfold TS.loadBlock; split <;> rfl
theorem loadBlock_blockIdx (x : S) (d : Nat) : x.loadBlock.blockIdx d = x.blockIdx d := by
  unfold TS.blockIdx; rw [loadBlock_blocks]

/-- a deep seek leaves the skip reader at most on the block of its target -/
theorem seek_skip_le (x : S) (c : Nat) (h : x.skip ≤ x.blockIdx c) : (x.seek c).skip ≤ x.blockIdx c := by
  unfold TS.seek
  split
  · exact h
  · split
    · exact h
    · show (x.seekBlock c).skip ≤ _
      rw [seekBlock_skip_eq x c h]; exact Nat.le_refl _

theorem blockIdx_le_length (x : S) (d : Nat) : x.blockIdx d ≤ x.blocks.length := by
  unfold TS.blockIdx
  exact (takeWhile_sublist _).length_le

/-! ### what the candidate loop does to the skip readers -/

/-- the secondaries keep their block lists -/
def SameBlocks (x x' : S) : Prop := x'.blocks = x.blocks

theorem checkCand_skip (d θ : Nat) : ∀ (xs : List S) (sufs : List Nat) (acc : Nat),
    (∀ x, x ∈ xs → x.skip ≤ x.blockIdx d) →
    Fa2 SameBlocks xs (checkCand d θ xs sufs acc).1 ∧
      ∀ x, x ∈ (checkCand d θ xs sufs acc).1 → x.skip ≤ x.blockIdx d
  | [], _, _, _ => by rw [checkCand_nil]; exact ⟨.nil, fun x hx => absurd hx not_mem_nil⟩
  | x :: xs, sufs, acc, h => by
    have hx := h x (by simp)
    have hxs : ∀ y, y ∈ xs → y.skip ≤ y.blockIdx d := fun y hy => h y (by simp [hy])
    have hrefl : Fa2 SameBlocks xs xs := Fa2.refl xs fun _ _ => rfl
    have hseek1 : SameBlocks x (x.seek d) := seek_blocks x d
    have hseek2 : (x.seek d).skip ≤ (x.seek d).blockIdx d := by rw [seek_blockIdx]; exact seek_skip_le x d hx
    have stay : Fa2 SameBlocks (x :: xs) (x.seek d :: xs) ∧ ∀ y, y ∈ x.seek d :: xs → y.skip ≤ y.blockIdx d :=
      ⟨.cons hseek1 hrefl, fun y hy => by
        rcases mem_cons.mp hy with rfl | hy
        · exact hseek2
        · exact hxs y hy⟩
    rw [checkCand_cons]
    split
    · exact ⟨.cons rfl hrefl, h⟩
    · split
      · exact stay
      · split
        · exact stay
        · obtain ⟨ih1, ih2⟩ := checkCand_skip d θ xs sufs.tail (Sc.add acc (x.seek d).score) hxs
          refine ⟨.cons hseek1 ih1, fun y hy => ?_⟩
          rcases mem_cons.mp hy with rfl | hy
          · exact hseek2
          · exact ih2 y hy

theorem sameBlocks_skip_mono {x x' : S} (h : SameBlocks x x') (d e : Nat) (hde : d ≤ e) (hs : x'.skip ≤ x'.blockIdx d) :
    x'.skip ≤ x'.blockIdx e := Nat.le_trans hs (blockIdx_mono x' hde)

theorem candLoop_skip {σ : Type} (cb : σ → Nat → Nat → σ × Nat) (gmax : Nat) (sufs : List Nat) (bnd : Nat) :
    ∀ (cs : List (Nat × Nat)) (lo : Nat) (st : σ × Nat) (secs : List S),
      cs.Pairwise (fun a b => a.1 < b.1) → (∀ c, c ∈ cs → lo ≤ c.1 ∧ c.1 < bnd) → lo ≤ bnd →
      (∀ x, x ∈ secs → x.skip ≤ x.blockIdx lo) →
      Fa2 SameBlocks secs (candLoop cb gmax sufs cs st secs).2.1 ∧
        ∀ x, x ∈ (candLoop cb gmax sufs cs st secs).2.1 → x.skip ≤ x.blockIdx bnd
  | [], lo, st, secs, _, _, hlo, h => by
    rw [candLoop_nil]
    exact ⟨Fa2.refl secs fun _ _ => rfl, fun x hx => Nat.le_trans (h x hx) (blockIdx_mono x hlo)⟩
  | (d, sc) :: cs, lo, (s, θ), secs, hpw, hmem, hlo, h => by
    rw [pairwise_cons] at hpw
    obtain ⟨hd1, hd2⟩ := hmem (d, sc) (by simp)
    simp only at hd1 hd2
    obtain ⟨c1, c2⟩ := checkCand_skip d θ secs sufs sc fun x hx => Nat.le_trans (h x hx) (blockIdx_mono x hd1)
    -- whatever the outcome of the check, the loop goes on with these secondaries or returns them
    have hnext : ∀ (st' : σ × Nat),
        Fa2 SameBlocks secs (candLoop cb gmax sufs cs st' (checkCand d θ secs sufs sc).1).2.1 ∧
          ∀ x, x ∈ (candLoop cb gmax sufs cs st' (checkCand d θ secs sufs sc).1).2.1 → x.skip ≤ x.blockIdx bnd := by
      intro st'
      obtain ⟨i1, i2⟩ := candLoop_skip cb gmax sufs bnd cs (d + 1) st' (checkCand d θ secs sufs sc).1 hpw.2
        (fun c hc => by
          have := hpw.1 c hc
          have := (hmem c (by simp [hc])).2
          simp only at *
          exact ⟨by omega, by omega⟩)
        (by omega) (fun x hx => Nat.le_trans (c2 x hx) (blockIdx_mono x (Nat.le_succ d)))
      exact ⟨Fa2.trans (r := SameBlocks) (s := SameBlocks) (t := SameBlocks)
        (fun a b c (hab : b.blocks = a.blocks) (hbc : c.blocks = b.blocks) => (hbc.trans hab : c.blocks = a.blocks)) c1 i1, i2⟩
    have hret : ∀ x, x ∈ (checkCand d θ secs sufs sc).1 → x.skip ≤ x.blockIdx bnd :=
      fun x hx => Nat.le_trans (c2 x hx) (blockIdx_mono x (by omega))
    cases hopt : (checkCand d θ secs sufs sc).2 with
    | none => rw [candLoop_cons_none cb gmax sufs d sc cs s θ secs hopt]; exact hnext _
    | some total =>
      by_cases hgt : θ < total
      · by_cases hr : gmax ≤ (cb s d total).2
        · rw [candLoop_cons_ret cb gmax sufs d sc cs s θ secs total hopt hgt hr]
          exact ⟨c1, hret⟩
        · rw [candLoop_cons_go cb gmax sufs d sc cs s θ secs total hopt hgt (by omega)]
          exact hnext _
      · rw [candLoop_cons_low cb gmax sufs d sc cs s θ secs total hopt (by omega)]
        exact hnext _

/-! ### the measure: blocks not yet passed -/

def remBlocks (x : S) (doc : Nat) : Nat := x.blocks.length - x.blockIdx doc
def mu (l : S) (secs : List S) (doc : Nat) : Nat := remBlocks l doc + (secs.map (remBlocks · doc)).sum

theorem remBlocks_mono (x : S) {d e : Nat} (h : d ≤ e) : remBlocks x e ≤ remBlocks x d := by
  unfold remBlocks
  have := blockIdx_mono x h
  omega

theorem remBlocks_sameBlocks {x x' : S} (h : SameBlocks x x') (d : Nat) : remBlocks x' d = remBlocks x d := by
  unfold remBlocks TS.blockIdx; rw [h]

theorem sum_remBlocks_same {secs secs' : List S} (h : Fa2 SameBlocks secs secs') (d : Nat) :
    (secs'.map (remBlocks · d)).sum = (secs.map (remBlocks · d)).sum := by
  induction h with
  | nil => rfl
  | cons hab _ ih => simp only [map_cons, sum_cons]; rw [remBlocks_sameBlocks hab, ih]

theorem sum_remBlocks_mono (secs : List S) {d e : Nat} (h : d ≤ e) :
    (secs.map (remBlocks · e)).sum ≤ (secs.map (remBlocks · d)).sum := by
  induction secs with
  | nil => exact Nat.le_refl _
  | cons x xs ih => simp only [map_cons, sum_cons]; have := remBlocks_mono x h; omega

theorem sum_remBlocks_strict (secs : List S) {d e : Nat} (h : d ≤ e) {z : S} (hz : z ∈ secs)
    (hlt : remBlocks z e < remBlocks z d) :
    (secs.map (remBlocks · e)).sum < (secs.map (remBlocks · d)).sum := by
  induction secs with
  | nil => cases hz
  | cons x xs ih =>
    simp only [map_cons, sum_cons]
    rcases mem_cons.mp hz with rfl | hz
    · have := sum_remBlocks_mono xs h; omega
    · have := ih hz; have := remBlocks_mono x h; omega

theorem takeWhile_length_succ {β : Type} (p q : β → Bool) (hpq : ∀ x, p x = true → q x = true) :
    ∀ (l : List β) (b : β), l[(l.takeWhile p).length]? = some b → q b = true →
      (l.takeWhile p).length + 1 ≤ (l.takeWhile q).length
  | [], _, h, _ => by simp at h
  | y :: ys, b, h, hq => by
    by_cases hy : p y = true
    · rw [takeWhile_cons_of_pos hy] at h ⊢
      rw [takeWhile_cons_of_pos (hpq y hy)]
      simp only [length_cons, getElem?_cons_succ] at h ⊢
      have := takeWhile_length_succ p q hpq ys b h hq
      omega
    · rw [takeWhile_cons_of_neg hy] at h ⊢
      simp only [length_nil, getElem?_cons_zero, Option.some.injEq] at h
      rw [takeWhile_cons_of_pos (by rw [h]; exact hq)]
      simp

/-- passing the last document of the block the skip reader sits on passes that block -/
theorem remBlocks_pass (z : S) (doc w : Nat) (hskip : z.skip = z.blockIdx doc) (hdw : doc ≤ w)
    (hlast : z.lastDocInBlock = w) (hw : w < T) : remBlocks z (w + 1) < remBlocks z doc := by
  unfold TS.lastDocInBlock at hlast
  cases hb : z.blocks[z.skip]? with
  | none => rw [hb] at hlast; simp only at hlast; omega
  | some b =>
    rw [hb] at hlast
    simp only at hlast
    have hidx : z.skip < z.blocks.length := getElem?_lt_length hb
    have hge : z.blockIdx doc + 1 ≤ z.blockIdx (w + 1) := by
      rw [hskip] at hb
      unfold TS.blockIdx at hb ⊢
      apply takeWhile_length_succ _ _ _ z.blocks b hb
      · simp only [decide_eq_true_eq]; omega
      · intro x hx; simp only [decide_eq_true_eq] at hx ⊢; omega
    unfold remBlocks
    have := blockIdx_le_length z (w + 1)
    rw [hskip] at hidx
    omega

theorem foldl_min_attained (f : S → Nat) : ∀ (l : List S) (init : Nat),
    l.foldl (fun w x => min w (f x)) init = init ∨ ∃ x, x ∈ l ∧ l.foldl (fun w x => min w (f x)) init = f x
  | [], _ => Or.inl rfl
  | y :: ys, init => by
    simp only [foldl_cons]
    rcases foldl_min_attained f ys (min init (f y)) with h | ⟨x, hx, h⟩
    · rcases Nat.le_total init (f y) with hle | hle
      · left; rw [h]; exact Nat.min_eq_left hle
      · right; exact ⟨y, by simp, by rw [h]; exact Nat.min_eq_right hle⟩
    · right; exact ⟨x, by simp [hx], h⟩

/-- every window passes a block: the measure decreases -/
theorem mu_progress (l1 : S) (secs1 : List S) (doc : Nat) (hsk : l1.skip = l1.blockIdx doc)
    (hsks : ∀ x, x ∈ secs1 → x.skip = x.blockIdx doc) (hdw : doc ≤ wEndOf l1 secs1)
    (hw : wEndOf l1 secs1 < T) : mu l1 secs1 (wEndOf l1 secs1 + 1) < mu l1 secs1 doc := by
  unfold mu
  have hle : doc ≤ wEndOf l1 secs1 + 1 := by omega
  rcases foldl_min_attained TS.lastDocInBlock secs1 l1.lastDocInBlock with h | ⟨z, hz, h⟩
  · have h' : l1.lastDocInBlock = wEndOf l1 secs1 := h.symm
    have := remBlocks_pass l1 doc _ hsk hdw h' hw
    have := sum_remBlocks_mono secs1 hle
    omega
  · have h' : z.lastDocInBlock = wEndOf l1 secs1 := h.symm
    have := sum_remBlocks_strict secs1 hle hz (remBlocks_pass z doc _ (hsks z hz) hdw h' hw)
    have := remBlocks_mono l1 hle
    omega

/-! ### the loop completes -/

theorem mu_seekBlock (l : S) (secs : List S) (t d : Nat) :
    mu (l.seekBlock t) (secs.map (·.seekBlock t)) d = mu l secs d := by
  unfold mu
  have h1 : remBlocks (l.seekBlock t) d = remBlocks l d := remBlocks_sameBlocks (seekBlock_blocks l t) d
  have h2 := sum_remBlocks_same (Fa2.map_right (r := SameBlocks) (fun x => x.seekBlock t) secs fun x _ => seekBlock_blocks x t) d
  rw [h1, h2]

theorem interLoop_completes {σ : Type} (cb : σ → Nat → Nat → σ × Nat) (gmax : Nat) :
    ∀ (fuel : Nat) (s : σ) (θ : Nat) (l : S) (secs : List S) (doc : Nat),
      Asc l.rest → l.skip ≤ l.blockIdx doc → (∀ x, x ∈ secs → x.skip ≤ x.blockIdx doc) →
      (if T ≤ doc then 0 else mu l secs doc + 1) < fuel →
      ∃ out, interLoop cb gmax fuel (s, θ) l secs doc = .ok out
  | 0, _, _, _, _, _, _, _, _, h => by omega
  | fuel + 1, s, θ, l, secs, doc, hasc, hl, hs, hfuel => by
    rw [interLoop_succ]
    split
    · exact ⟨_, rfl⟩
    rename_i hT
    rw [if_neg hT] at hfuel
    -- after the shallow seeks every skip reader is on the block of `doc`
    have hsk1 : (l.seekBlock doc).skip = (l.seekBlock doc).blockIdx doc := by
      rw [seekBlock_blockIdx]; exact seekBlock_skip_eq l doc hl
    have hsks1 : ∀ x, x ∈ secs.map (·.seekBlock doc) → x.skip = x.blockIdx doc := by
      intro x hx
      obtain ⟨y, hy, rfl⟩ := mem_map.mp hx
      rw [seekBlock_blockIdx]; exact seekBlock_skip_eq y doc (hs y hy)
    have hfuel1 : mu (l.seekBlock doc) (secs.map (·.seekBlock doc)) doc + 1 < fuel + 1 := by
      rw [mu_seekBlock]; exact hfuel
    have hasc1 : Asc (l.seekBlock doc).rest := by rw [seekBlock_rest]; exact hasc
    generalize secs.map (·.seekBlock doc) = secs1 at hsks1 hfuel1 ⊢
    generalize l.seekBlock doc = l1 at hsk1 hfuel1 hasc1 ⊢
    split
    · -- skipAhead is impossible
      rename_i hbad
      exfalso
      simp only [Bool.not_eq_true', Bool.and_eq_false_iff, beq_eq_false_iff_ne, ne_eq] at hbad
      rcases hbad with h | h
      · exact h hsk1
      · rw [all_eq_false] at h
        obtain ⟨x, hx, hne⟩ := h
        exact hne (by simpa using hsks1 x hx)
    split
    · exact ⟨_, rfl⟩
    -- the window ends at or after `doc`; the next one starts behind it
    obtain ⟨_, _, hw3⟩ := wEndOf_spec l1 secs1
    have hwdoc : doc ≤ wEndOf l1 secs1 :=
      hw3 doc (lastDoc_ge l1 doc hsk1 (by omega)) fun x hx => lastDoc_ge x doc (hsks1 x hx) (by omega)
    -- recursion: any state with the same block lists and skip readers not ahead of the next window
    have hrec : ∀ (st' : σ × Nat) (l' : S) (secs' : List S), Asc l'.rest → SameBlocks l1 l' → l'.skip ≤ l'.blockIdx (wEndOf l1 secs1 + 1) →
        Fa2 SameBlocks secs1 secs' → (∀ x, x ∈ secs' → x.skip ≤ x.blockIdx (wEndOf l1 secs1 + 1)) →
        ∃ out, interLoop cb gmax fuel st' l' secs' (wEndOf l1 secs1 + 1) = .ok out := by
      intro st' l' secs' hasc' hbl hl' hfa hs'
      obtain ⟨s', θ'⟩ := st'
      apply interLoop_completes cb gmax fuel s' θ' l' secs' _ hasc' hl' hs'
      split
      · omega
      · rename_i hT'
        have hmu' : mu l' secs' (wEndOf l1 secs1 + 1) = mu l1 secs1 (wEndOf l1 secs1 + 1) := by
          unfold mu; rw [remBlocks_sameBlocks hbl, sum_remBlocks_same hfa]
        have := mu_progress l1 secs1 doc hsk1 hsks1 hwdoc (by omega)
        omega
    have hl1next : l1.skip ≤ l1.blockIdx (wEndOf l1 secs1 + 1) := by
      rw [hsk1]; exact blockIdx_mono l1 (by omega)
    have hs1next : ∀ x, x ∈ secs1 → x.skip ≤ x.blockIdx (wEndOf l1 secs1 + 1) := by
      intro x hx; rw [hsks1 x hx]; exact blockIdx_mono x (by omega)
    have hrefl : Fa2 SameBlocks secs1 secs1 := Fa2.refl secs1 fun _ _ => rfl
    have hl2 : SameBlocks l1 l1.loadBlock := loadBlock_blocks l1
    have hl2next : l1.loadBlock.skip ≤ l1.loadBlock.blockIdx (wEndOf l1 secs1 + 1) := by
      rw [loadBlock_skip, loadBlock_blockIdx]; exact hl1next
    have hasc2 : Asc l1.loadBlock.rest := by rw [loadBlock_rest]; exact hasc1
    split
    · exact hrec _ l1 secs1 hasc1 rfl hl1next hrefl hs1next
    split
    · exact hrec _ _ secs1 hasc2 hl2 hl2next hrefl hs1next
    split
    · exact ⟨_, rfl⟩
    · -- after the candidate loop
      obtain ⟨hc1, hc2, _⟩ := candsOf_spec l1.loadBlock hasc2 doc (wEndOf l1 secs1) θ (sumBOf secs1)
      have hcs := candLoop_skip cb gmax (suffixSums (secs1.map TS.blockMax)).1 (wEndOf l1 secs1 + 1)
        (candsOf l1.loadBlock doc (wEndOf l1 secs1) θ (sumBOf secs1)) doc (s, θ) secs1 hc1
        (fun c hc => by have := hc2 c hc; omega) (by omega)
        (fun x hx => by rw [hsks1 x hx]; exact Nat.le_refl _)
      exact hrec _ _ _ hasc2 hl2 hl2next hcs.1 hcs.2

theorem perm_sum_map {l₁ l₂ : List S} (h : l₁ ~ l₂) (f : S → Nat) : (l₁.map f).sum = (l₂.map f).sum := by
  induction h with
  | nil => rfl
  | cons x _ ih => simp only [map_cons, sum_cons, ih]
  | swap x y l => simp only [map_cons, sum_cons]; omega
  | trans _ _ ih₁ ih₂ => rw [ih₁, ih₂]

theorem mu_le_sum (l : S) (secs : List S) (doc : Nat) :
    mu l secs doc ≤ ((l :: secs).map (·.blocks.length)).sum := by
  unfold mu
  have h1 : remBlocks l doc ≤ l.blocks.length := by unfold remBlocks; omega
  have h2 : (secs.map (remBlocks · doc)).sum ≤ (secs.map (·.blocks.length)).sum := by
    induction secs with
    | nil => exact Nat.le_refl _
    | cons x xs ih =>
      simp only [map_cons, sum_cons]
      have : remBlocks x doc ≤ x.blocks.length := by unfold remBlocks; omega
      omega
  simp only [map_cons, sum_cons]
  omega

/-- `block_wand_intersection` (mirrored) COMPLETES — no bound hypothesis, any callback: on at least
two fresh scorers with ascending postings and a fuel of `Σ blocks + 2` iterations -/
theorem blockWandInter_completes {σ : Type} (cb : σ → Nat → Nat → σ × Nat) (fuel : Nat) (s : σ) (θ : Nat)
    (scorers : List S) (hasc : ∀ x, x ∈ scorers → Asc x.rest) (hfresh : ∀ x, x ∈ scorers → x.skip = 0)
    (hlen : 2 ≤ scorers.length) (hfuel : (scorers.map (·.blocks.length)).sum + 2 ≤ fuel) :
    ∃ out, blockWandInter cb fuel (s, θ) scorers = .ok out := by
  unfold blockWandInter
  have hperm := sortByCost_perm scorers
  have hl := hperm.length_eq
  split
  · rename_i hnil; rw [hnil] at hl; simp at hl; omega
  · rename_i hone; rw [hone] at hl; simp at hl; omega
  · rename_i l secs _ hsort
    dsimp only
    split
    · exact ⟨_, rfl⟩
    · have hmem : ∀ x, x ∈ l :: secs → x ∈ scorers := fun x hx => hperm.subset (by rw [hsort]; exact hx)
      apply interLoop_completes cb _ fuel s θ l secs l.doc (hasc l (hmem l (by simp)))
      · rw [hfresh l (hmem l (by simp))]; exact Nat.zero_le _
      · intro x hx; rw [hfresh x (hmem x (by simp [hx]))]; exact Nat.zero_le _
      · have h1 := mu_le_sum l secs l.doc
        have h2 := perm_sum_map hperm (fun x : S => x.blocks.length)
        rw [hsort] at h2
        split <;> omega

/-- … and, given the bound hypotheses and a monotone callback, it is right -/
theorem blockWandInter_total {σ : Type} {cb : σ → Nat → Nat → σ × Nat} {R : σ → Nat → Prop}
    (hcb : MonoCb cb R) (fuel : Nat) (s : σ) (θ : Nat) (hR : R s θ) (scorers : List S)
    (hwf : ∀ x, x ∈ scorers → WFI x) (hfresh : ∀ x, x ∈ scorers → x.skip = 0) (hlen : 2 ≤ scorers.length)
    (hfuel : (scorers.map (·.blocks.length)).sum + 2 ≤ fuel) :
    blockWandInter cb fuel (s, θ) scorers
      = .ok (exhRange cb (interTotal (posts scorers)) 0 T (s, θ)) := by
  obtain ⟨out, hout⟩ := blockWandInter_completes cb fuel s θ scorers (fun x hx => (hwf x hx).wf.asc) hfresh hlen hfuel
  rw [hout, blockWandInter_eq_exhaustive hcb fuel s θ hR scorers hwf out hout]

end TantivyModel.BlockWand
