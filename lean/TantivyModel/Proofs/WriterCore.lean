import TantivyModel.Model.WriterCore
import TantivyModel.Proofs.Writer
/-!
The opstamp rule applied at commit equals the sequential replay — for every history (with
stamps drawn by `consider_merge_options` at any point), provided `delete_all_documents` is only
issued when the delete queue of the writer is empty.
-/
namespace TantivyModel.Writer
open TantivyModel.WriterSpec

variable {α : Type}

theorem dead_nil (p : α × Nat) : dead ([] : List (DelOp α)) p = false := rfl

theorem dead_append (l1 l2 : List (DelOp α)) (p : α × Nat) :
    dead (l1 ++ l2) p = (dead l1 p || dead l2 p) := by
  simp [dead, List.any_append]

/-- a document stamped after every delete of the queue is not removed by it -/
theorem dead_of_newer (log : List (DelOp α)) (p : α × Nat) (h : ∀ del ∈ log, del.op ≤ p.2) :
    dead log p = false := by
  simp only [dead, List.any_eq_false]
  intro del hdel
  have := h del hdel
  simp; intro _; omega

/-- the refinement invariant between the core machine and the specification -/
structure CInv (c : CState α) (t : SpecState α) : Prop where
  pending : (c.docs.filter (fun p => !dead c.log p)).map (·.1) = t.pending
  committed : c.pub.map (·.1) = t.committed
  payload : c.payload = t.payload
  docsLt : ∀ p ∈ c.docs, p.2 < c.stamper
  logLt : ∀ del ∈ c.log, del.op < c.stamper
  pubLt : ∀ p ∈ c.pub, p.2 < c.pubOpstamp

/-- one add: the new document is appended to the survivors -/
theorem core_add (log : List (DelOp α)) (docs : List (α × Nat)) (st : Nat) (d : α)
    (hlog : ∀ del ∈ log, del.op < st) :
    ((docs ++ [(d, st)]).filter (fun p => !dead log p)).map (·.1)
      = (docs.filter (fun p => !dead log p)).map (·.1) ++ [d] := by
  have : dead log (d, st) = false := dead_of_newer log (d, st) (fun del h => Nat.le_of_lt (hlog del h))
  simp [List.filter_append, this]

/-- one delete: exactly the matching survivors disappear (all of them are older) -/
theorem core_del (log : List (DelOp α)) (docs : List (α × Nat)) (st : Nat) (q : α → Bool)
    (hdocs : ∀ p ∈ docs, p.2 < st) :
    (docs.filter (fun p => !dead (log ++ [{ op := st, q := q }]) p)).map (·.1)
      = ((docs.filter (fun p => !dead log p)).map (·.1)).filter (fun d => !q d) := by
  induction docs with
  | nil => rfl
  | cons p rest ih =>
    have hp : p.2 < st := hdocs p (by simp)
    have ih' := ih (fun x hx => hdocs x (by simp [hx]))
    have hd : dead (log ++ [{ op := st, q := q }]) p = (dead log p || q p.1) := by
      rw [dead_append]; simp [dead, hp]
    simp only [List.filter_cons, hd]
    cases h1 : dead log p <;> cases h2 : q p.1 <;> simp [h2, ih']

theorem core_batch (items : List (Item α)) :
    ∀ (st : Nat) (log : List (DelOp α)) (docs : List (α × Nat)) (pending : List α),
      (∀ p ∈ docs, p.2 < st) → (∀ del ∈ log, del.op < st) →
      (docs.filter (fun p => !dead log p)).map (·.1) = pending →
      ((docs ++ batchAdds (stampItems st items)).filter
          (fun p => !dead (log ++ batchDels (stampItems st items)) p)).map (·.1)
        = items.foldl applyItem pending
      ∧ (∀ p ∈ docs ++ batchAdds (stampItems st items), p.2 < st + items.length)
      ∧ (∀ del ∈ log ++ batchDels (stampItems st items), del.op < st + items.length) := by
  induction items with
  | nil =>
    intro st log docs pending hd hl hp
    refine ⟨?_, ?_, ?_⟩
    · simpa [stampItems, batchAdds, batchDels] using hp
    · simpa [stampItems, batchAdds, batchDels] using hd
    · simpa [stampItems, batchAdds, batchDels] using hl
  | cons it rest ih =>
    intro st log docs pending hd hl hp
    cases it with
    | add d =>
      have hd' : ∀ p ∈ docs ++ [(d, st)], p.2 < st + 1 := by
        intro p hp'
        rcases List.mem_append.mp hp' with h | h
        · have := hd p h; omega
        · simp at h; subst h; simp
      have hl' : ∀ del ∈ log, del.op < st + 1 := fun del h => by have := hl del h; omega
      have hp' := core_add log docs st d hl
      rw [hp] at hp'
      obtain ⟨h1, h2, h3⟩ := ih (st + 1) log (docs ++ [(d, st)]) (pending ++ [d]) hd' hl' hp'
      simp only [stampItems, batchAdds, batchDels, List.filterMap_cons, List.foldl_cons, applyItem,
        List.length_cons] at h1 h2 h3 ⊢
      refine ⟨?_, ?_, ?_⟩
      · simpa [List.append_assoc] using h1
      · intro p hp''; have := h2 p (by simpa [List.append_assoc] using hp''); omega
      · intro del hdel; have := h3 del hdel; omega
    | del q =>
      have hd' : ∀ p ∈ docs, p.2 < st + 1 := fun p h => by have := hd p h; omega
      have hl' : ∀ del ∈ log ++ [{ op := st, q := q }], del.op < st + 1 := by
        intro del hdel
        rcases List.mem_append.mp hdel with h | h
        · have := hl del h; omega
        · simp at h; subst h; simp
      have hp' := core_del log docs st q hd
      rw [hp] at hp'
      obtain ⟨h1, h2, h3⟩ := ih (st + 1) (log ++ [{ op := st, q := q }]) docs
        (pending.filter (fun d => !q d)) hd' hl' hp'
      simp only [stampItems, batchAdds, batchDels, List.filterMap_cons, List.foldl_cons, applyItem,
        List.length_cons] at h1 h2 h3 ⊢
      refine ⟨?_, ?_, ?_⟩
      · simpa [List.append_assoc] using h1
      · intro p hp''; have := h2 p hp''; omega
      · intro del hdel; have := h3 del (by simpa [List.append_assoc] using hdel); omega

/-- the spec step of an event of the core machine -/
def specOf (t : SpecState α) : Option (Op α) → SpecState α
  | none => t
  | some op => specStep t op

theorem core_step (c : CState α) (t : SpecState α) (e : Option (Op α)) (h : CInv c t)
    (hclean : e = some .deleteAll → c.log = []) : CInv (cstep c e) (specOf t e) := by
  obtain ⟨hp, hc, hpay, hd, hl, hpub⟩ := h
  cases e with
  | none =>
    exact ⟨hp, hc, hpay, fun p h => by have := hd p h; simp [cstep]; omega,
      fun del h => by have := hl del h; simp [cstep]; omega, hpub⟩
  | some op =>
    cases op with
    | add d =>
      refine ⟨?_, hc, hpay, ?_, ?_, hpub⟩
      · simp only [cstep, specOf, specStep]
        rw [core_add c.log c.docs c.stamper d hl, hp]
      · intro p h
        simp only [cstep] at h ⊢
        rcases List.mem_append.mp h with h | h
        · have := hd p h; omega
        · simp at h; subst h; simp
      · intro del h; have := hl del h; simp only [cstep] at h ⊢; have := hl del h; omega
    | del q =>
      refine ⟨?_, hc, hpay, ?_, ?_, hpub⟩
      · simp only [cstep, specOf, specStep]
        rw [core_del c.log c.docs c.stamper q hd, hp]
      · intro p h; simp only [cstep] at h ⊢; have := hd p h; omega
      · intro del h
        simp only [cstep] at h ⊢
        rcases List.mem_append.mp h with h | h
        · have := hl del h; omega
        · simp at h; subst h; simp
    | batch items =>
      obtain ⟨h1, h2, h3⟩ := core_batch items c.stamper c.log c.docs t.pending hd hl hp
      refine ⟨?_, hc, hpay, ?_, ?_, hpub⟩
      · simp only [cstep, specOf, specStep, batch_fold, List.nil_append]
        exact h1
      · intro p h
        simp only [cstep, batch_fold, List.nil_append] at h ⊢
        have := h2 p h; omega
      · intro del h
        simp only [cstep, batch_fold, List.nil_append] at h ⊢
        have := h3 del h; omega
    | deleteAll =>
      have hlog : c.log = [] := hclean rfl
      refine ⟨?_, hc, hpay, ?_, ?_, hpub⟩
      · simp [cstep, specOf, specStep]
      · intro p h; simp [cstep] at h
      · intro del h; simp [cstep, hlog] at h
    | commit p =>
      refine ⟨?_, ?_, rfl, ?_, ?_, ?_⟩
      · simp only [cstep, specOf, specStep, List.filter_filter, Bool.and_self]
        exact hp
      · simp only [cstep, specOf, specStep]
        exact hp
      · intro x h
        simp only [cstep] at h ⊢
        have := hd x (List.mem_filter.mp h).1; omega
      · intro del h; simp only [cstep] at h ⊢; have := hl del h; omega
      · intro x h
        simp only [cstep] at h ⊢
        exact hd x (List.mem_filter.mp h).1
    | rollback =>
      refine ⟨?_, hc, hpay, ?_, ?_, hpub⟩
      · simp only [cstep, specOf, specStep]
        have : (c.pub.filter (fun p => !dead ([] : List (DelOp α)) p)) = c.pub := by
          simp [dead_nil]
        rw [this, hc]
      · intro x h; simp only [cstep] at h ⊢; exact hpub x h
      · intro del h; simp [cstep] at h
    | prepare =>
      exact ⟨hp, hc, hpay, fun p h => by have := hd p h; simp [cstep]; omega,
        fun del h => by have := hl del h; simp [cstep]; omega, hpub⟩

theorem core_init : CInv (CState.init : CState α) SpecState.init :=
  ⟨rfl, rfl, rfl, by simp [CState.init], by simp [CState.init], by simp [CState.init]⟩

theorem core_run (c : CState α) (t : SpecState α) (es : List (Option (Op α))) (h : CInv c t)
    (hclean : cleanFrom c es) : CInv (crun c es) (es.foldl specOf t) := by
  induction es generalizing c t with
  | nil => exact h
  | cons e es ih =>
    simp only [crun, List.foldl_cons]
    exact ih _ _ (core_step c t e h hclean.1) hclean.2

theorem foldl_specOf (t : SpecState α) (es : List (Option (Op α))) :
    es.foldl specOf t = replayFrom t (es.filterMap id) := by
  induction es generalizing t with
  | nil => rfl
  | cons e es ih =>
    cases e with
    | none => simpa [specOf] using ih t
    | some op => simpa [specOf, replayFrom] using ih (specStep t op)

end TantivyModel.Writer
