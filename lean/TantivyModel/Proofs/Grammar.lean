import TantivyModel.Model.Grammar.Q
import TantivyModel.Model.Grammar.Safe
/-!
Helper lemmas for C16 (fold layer).
-/
namespace TantivyModel.Grammar
variable {L T : Type}

/-! ## totality, strict vs lenient -/

theorem lenientFold_total (input : List (RawItem L)) :
    ∃ t errs, lenientFold input = (t, errs)
      ∧ (errs = [] ↔ earlyOperand (keepParsed input) = false)
      ∧ (keepParsed input = [] → t = Ast.emptyQuery) := by
  unfold lenientFold
  cases h : keepParsed input with
  | nil => exact ⟨_, _, rfl, by simp [earlyOperand], fun _ => rfl⟩
  | cons x xs =>
    refine ⟨_, _, rfl, ?_, by simp⟩
    cases he : earlyOperand (x :: xs) <;> simp

theorem keepParsed_rawOf (items : List (Item L)) : keepParsed (items.map rawOf) = items := by
  induction items with
  | nil => rfl
  | cons x xs ih =>
    obtain ⟨op, occ, a⟩ := x
    simp [rawOf, keepParsed, ih]

theorem lenientFold_map_rawOf (items : List (Item L)) (he : earlyOperand items = false) :
    lenientFold (items.map rawOf) = (assemble (groups items), []) := by
  unfold lenientFold
  rw [keepParsed_rawOf]
  cases items with
  | nil => rfl
  | cons x xs => simp [he]

theorem lenientFold_strict_input (left : Option Occur × Ast L) (others : List (Item L)) :
    lenientFold ((none, left.1, some left.2) :: others.map rawOf)
      = (assemble (groups ((none, left.1, left.2) :: others)), []) := by
  simp [lenientFold, keepParsed, keepParsed_rawOf, earlyOperand]

theorem strictFold_ok (left : Option Occur × Ast L) (others : List (Item L)) :
    ∃ t, strictFold left others = .ok t := by
  refine ⟨assemble (groups ((none, left.1, left.2) :: others)), ?_⟩
  simp [strictFold, lenientFold_strict_input]

theorem lenient_of_strict (left : Option Occur × Ast L) (others : List (Item L)) (t : Ast L)
    (h : strictFold left others = .ok t) :
    lenientFold ((none, left.1, some left.2) :: others.map rawOf) = (t, []) := by
  simp [strictFold, lenientFold_strict_input] at h
  simp [lenientFold_strict_input, h]

theorem strictAst_single (first : Option Occur × Ast L) :
    strictAst first [] = strictFold first [] := by
  obtain ⟨occ, a⟩ := first
  have h := lenientFold_strict_input (occ, a) []
  simp only [List.map_nil] at h
  unfold strictAst strictFold
  simp only [List.map_nil]
  rw [h]
  simp only [groups, nextOp, entryOf, assemble]
  cases occ with
  | none => simp [occOr]
  | some o => cases o <;> simp [occOr, Ast.unary]

end TantivyModel.Grammar
