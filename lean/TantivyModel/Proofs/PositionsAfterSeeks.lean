import TantivyModel.Proofs.CursorSeek
import TantivyModel.Proofs.PositionReader
import TantivyModel.Proofs.BitPacker4x
/-! positions read at the cursor's read offset, after any advance/seek program, are the document's -/
namespace TantivyModel.Postings
open TantivyModel.Invert (RecOpt)

/-- the specification's index after each operation -/
def specIdxs (docs : List Nat) : SpecCursor → List Op → List Nat
  | _, [] => []
  | s, op :: ops => (specStep docs s op).idx :: specIdxs docs (specStep docs s op) ops

theorem specRun_eq_map (T : Nat) (o : RecOpt) (docs tfs : List Nat) (ops : List Op) :
    ∀ s, specRun T o docs tfs s ops = (specIdxs docs s ops).map (fun i => specObserve T o docs tfs ⟨i⟩) := by
  induction ops with
  | nil => intro s; rfl
  | cons op rest ih => intro s; simp only [specRun, specIdxs, List.map_cons, ih]

/-- the `(offset, len)` requests a caller issues for the positions of the documents it lands on -/
def positionRequests (T : Nat) (obs : List (Nat × Nat × Nat)) : List (Nat × Nat) :=
  (obs.filter (fun x => x.1 ≠ T)).map (fun x => (x.2.2, x.2.1))

theorem specObserve_live (T : Nat) (docs tfs : List Nat) (hT : ∀ d ∈ docs, d < T) (i : Nat) :
    ((specObserve T .positions docs tfs ⟨i⟩).1 ≠ T ↔ i < docs.length) ∧
    (i < docs.length → specObserve T .positions docs tfs ⟨i⟩ = (docs.getD i T, tfs.getD i 1, (tfs.take i).sum)) := by
  unfold specObserve specDoc
  by_cases hi : i < docs.length
  · have hmem : docs.getD i T ∈ docs := by
      simp [List.getD_eq_getElem?_getD, List.getElem?_eq_getElem hi]
    have hne : docs.getD i T ≠ T := by have := hT _ hmem; omega
    simp only [if_neg hne, if_true]
    exact ⟨⟨fun _ => hi, fun _ => hne⟩, fun _ => trivial⟩
  · have heq : docs.getD i T = T := by
      simp [List.getD_eq_getElem?_getD, List.getElem?_eq_none (by omega : docs.length ≤ i)]
    simp only [if_pos heq]
    exact ⟨⟨fun h => absurd rfl h, fun h => absurd h hi⟩, fun h => absurd h hi⟩

theorem requests_of_spec (T : Nat) (docs tfs : List Nat) (hT : ∀ d ∈ docs, d < T) (idxs : List Nat) :
    positionRequests T (idxs.map (fun i => specObserve T .positions docs tfs ⟨i⟩)) =
      (idxs.filter (· < docs.length)).map (fun i => ((tfs.take i).sum, tfs.getD i 1)) := by
  induction idxs with
  | nil => rfl
  | cons i rest ih =>
    have h := specObserve_live T docs tfs hT i
    unfold positionRequests at ih ⊢
    simp only [List.map_cons]
    by_cases hi : i < docs.length
    · have hne := h.1.mpr hi
      rw [List.filter_cons_of_pos (by simpa using hne), List.filter_cons_of_pos (by simpa using hi)]
      simp only [List.map_cons, ih, h.2 hi]
    · have hnot : ¬ (specObserve T .positions docs tfs ⟨i⟩).1 ≠ T := fun hh => hi (h.1.mp hh)
      rw [List.filter_cons_of_neg (by simpa using hnot), List.filter_cons_of_neg (by simpa using hi)]
      exact ih

theorem take_map_length_sum (perDoc : List (List Nat)) (i : Nat) :
    ((perDoc.map List.length).take i).sum = ((perDoc.take i).map List.length).sum := by
  rw [List.map_take]

end TantivyModel.Postings
