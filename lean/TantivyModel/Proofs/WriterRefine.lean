import TantivyModel.Proofs.WriterCommit
/-!
Every run of the writer model without merge events, in which `delete_all_documents` is only
issued in clean states, keeps `WInv` with the sequential replay of its history.
-/
namespace TantivyModel.Writer
open TantivyModel.WriterSpec

variable {α : Type} [DecidableEq α]

/-- the events the refinement theorem covers -/
def okEvent (s : WState α) : Event α → Prop
  | .deleteAll => cleanState s
  | .mergeStart _ _ => False
  | .mergeEnd _ => False
  | .stamp _ => False
  | .publish _ => False
  | _ => True

/-- along the run, every event is covered -/
def okRun (s : WState α) : List (Event α) → Prop
  | [] => True
  | e :: es => okEvent s e ∧ ∀ s' r, step s e = some (s', r) → okRun s' es

/-- the specification state after the API call an event stands for -/
def specAfter (t : SpecState α) (e : Event α) : SpecState α :=
  match e.toOp with
  | some op => specStep t op
  | none => t

theorem inv_step (s s' : WState α) (t : SpecState α) (e : Event α) (r : Nat)
    (h : WInv s t.pending t.committed) (hok : okEvent s e) (hstep : step s e = some (s', r)) :
    WInv s' (specAfter t e).pending (specAfter t e).committed := by
  cases e with
  | add d =>
    simp only [step, Option.some.injEq, Prod.mk.injEq] at hstep
    obtain ⟨rfl, _⟩ := hstep
    have := inv_grow s _ _ h [.add d] 0 (s.channel ++ [[(d, s.stamper)]])
      (by simp [chanPairs, stampItems, batchAdds])
    simpa [growState, stampItems, batchDels, batchAdds, specAfter, Event.toOp, specStep, applyItem] using this
  | del q =>
    simp only [step, Option.some.injEq, Prod.mk.injEq] at hstep
    obtain ⟨rfl, _⟩ := hstep
    have := inv_grow s _ _ h [.del q] 0 s.channel (by simp [chanPairs, stampItems, batchAdds])
    simpa [growState, stampItems, batchDels, batchAdds, specAfter, Event.toOp, specStep, applyItem] using this
  | batch items =>
    simp only [step, batch_fold, List.nil_append, Option.some.injEq, Prod.mk.injEq] at hstep
    obtain ⟨rfl, _⟩ := hstep
    have := inv_grow s _ _ h items 1
      (if (batchAdds (stampItems s.stamper items)).isEmpty then s.channel
        else s.channel ++ [batchAdds (stampItems s.stamper items)])
      (by
        by_cases he : (batchAdds (stampItems s.stamper items)).isEmpty
        · simp [he, chanPairs, List.isEmpty_iff.mp he]
        · simp [he, chanPairs])
    simpa [growState, specAfter, Event.toOp, specStep] using this
  | deleteAll =>
    simp only [step, Option.some.injEq, Prod.mk.injEq] at hstep
    obtain ⟨rfl, _⟩ := hstep
    exact inv_deleteAll s _ _ h hok
  | commit p =>
    simp only [step] at hstep
    split at hstep
    · rename_i hq
      simp only [Option.some.injEq, Prod.mk.injEq] at hstep
      obtain ⟨rfl, _⟩ := hstep
      exact inv_commit s _ _ h hq p
    · cases hstep
  | rollback =>
    simp only [step, Option.some.injEq, Prod.mk.injEq] at hstep
    obtain ⟨rfl, _⟩ := hstep
    exact inv_rollback s _ _ h
  | prepare =>
    simp only [step] at hstep
    split at hstep
    · rename_i hq
      simp only [Option.some.injEq, Prod.mk.injEq] at hstep
      obtain ⟨rfl, _⟩ := hstep
      exact inv_prepare s _ _ h hq
    · cases hstep
  | recv w =>
    simp only [step] at hstep
    split at hstep
    · rename_i b rest wk hc hw
      split at hstep
      · rename_i hseg
        split at hstep
        · cases hstep
        · rename_i first tl
          simp only [Option.some.injEq, Prod.mk.injEq] at hstep
          obtain ⟨rfl, _⟩ := hstep
          exact inv_recv_idle s _ _ h w wk first tl rest hc hw hseg
      · rename_i sg hseg
        simp only [Option.some.injEq, Prod.mk.injEq] at hstep
        obtain ⟨rfl, _⟩ := hstep
        exact inv_recv_busy s _ _ h w wk b rest sg hc hw hseg
    · cases hstep
  | cut w =>
    simp only [step] at hstep
    split at hstep
    · rename_i wk hw
      split at hstep
      · rename_i sg hseg
        simp only [Option.some.injEq, Prod.mk.injEq] at hstep
        obtain ⟨rfl, _⟩ := hstep
        exact inv_cut s _ _ h w wk sg hw hseg
      · cases hstep
    · cases hstep
  | register =>
    simp only [step] at hstep
    split at hstep
    · rename_i sg rest hi
      simp only [Option.some.injEq, Prod.mk.injEq] at hstep
      obtain ⟨rfl, _⟩ := hstep
      exact inv_register s _ _ h sg rest hi
    · cases hstep
  | tick =>
    simp only [step, Option.some.injEq, Prod.mk.injEq] at hstep
    obtain ⟨rfl, _⟩ := hstep
    exact inv_tick s _ _ h
  | flush =>
    simp only [step, Option.some.injEq, Prod.mk.injEq] at hstep
    obtain ⟨rfl, _⟩ := hstep
    exact inv_flush s _ _ h
  | mergeStart ids policy => exact hok.elim
  | mergeEnd k => exact hok.elim
  | stamp op => exact hok.elim
  | publish k => exact hok.elim

theorem history_cons (e : Event α) (es : List (Event α)) (t : SpecState α) :
    replayFrom t (history (e :: es)) = replayFrom (specAfter t e) (history es) := by
  simp only [history, List.filterMap_cons, specAfter]
  cases e.toOp <;> rfl

theorem inv_run (s s' : WState α) (t : SpecState α) (es : List (Event α))
    (h : WInv s t.pending t.committed) (hok : okRun s es) (hrun : run s es = some s') :
    WInv s' (replayFrom t (history es)).pending (replayFrom t (history es)).committed := by
  induction es generalizing s t with
  | nil =>
    simp only [run, Option.some.injEq] at hrun
    subst hrun
    exact h
  | cons e es ih =>
    simp only [run] at hrun
    split at hrun
    · rename_i s1 r hstep
      rw [history_cons]
      exact ih s1 (specAfter t e) (inv_step s s1 t e r h hok.1 hstep) (hok.2 s1 r hstep) hrun
    · cases hrun

theorem inv_init (n : Nat) : WInv (WState.init n : WState α) [] [] := by
  have hw : ∀ w ∈ (WState.init n : WState α).workers, w.seg = none := by
    intro w hw
    simp only [WState.init, List.mem_replicate] at hw
    rw [hw.2]
  have hall : allPairs (WState.init n : WState α) = [] := by
    simp only [allPairs, workers_idle_pairs _ hw]
    simp [WState.init, chanPairs]
  refine ⟨?_, ?_, ?_, ?_, ?_, ?_, ?_, ?_, ?_, ?_⟩
  · simp [live, hall]
  · simp [published, WState.init]
  · intro q hq; rw [hall] at hq; simp at hq
  · intro del hd; simp [WState.init] at hd
  · exact List.Pairwise.nil
  · exact List.Pairwise.nil
  · exact Nat.le_refl _
  · intro w hw'
    refine ⟨?_, ?_, ?_⟩
    · simp only [WState.init, List.mem_replicate] at hw'
      rw [hw'.2]; exact Nat.zero_le _
    · intro del hd; simp [WState.init] at hd
    · intro sg hsg; rw [hw w hw'] at hsg; cases hsg
  · intro a ha; simp [WState.init] at ha
  · intro a ha; simp [WState.init] at ha

end TantivyModel.Writer
