import TantivyModel.Proofs.BlockCursorDrain
import TantivyModel.Proofs.BlockSearch
import TantivyModel.Proofs.BitPacker4x
/-! the lazy block cursor's `seek` (skip reader walking entry by entry, then `load_block`, then the
in-block search) lands on the first doc `≥ target` of the encoded list -/
namespace TantivyModel.Postings
open TantivyModel.Invert (RecOpt)

/-- the whole doc buffer `load_block` leaves for the block the skip reader is on -/
def blockBuf (c : Cfg) (s : SkipReader) (data : List Nat) : List Nat :=
  match s.blockInfo with
  | .bitPacked db strict _ _ =>
    let raw := c.P.unpack db (data.drop (s.byteOffset.getD 0))
    if strict then strictIntegrate (offsetOpt s.lastDocInPrev) raw else integrate s.lastDocInPrev raw
  | .vint n =>
    match VInt.decList c.S n (if n = 0 then [] else data.drop (s.byteOffset.getD 0)) with
    | none => List.replicate c.B c.T
    | some (ds, _) => padTo c.B c.T (integrate s.lastDocInPrev ds)

theorem loadBlock_docBuf (c : Cfg) (p : BlockPostings) (h : p.loaded = false) :
    (p.loadBlock c).docBuf = blockBuf c p.skip p.data := by
  simp only [BlockPostings.loadBlock, blockBuf, h, Bool.false_eq_true, if_false]
  repeat' split
  all_goals simp_all

theorem loadBlock_loaded (c : Cfg) (p : BlockPostings) : (p.loadBlock c).loaded = true := by
  simp only [BlockPostings.loadBlock]
  repeat' split
  all_goals simp_all

theorem loadBlock_docFreq (c : Cfg) (p : BlockPostings) : (p.loadBlock c).docFreq = p.docFreq := by
  simp only [BlockPostings.loadBlock]
  repeat' split
  all_goals rfl

theorem loadBlock_of_loaded (c : Cfg) (p : BlockPostings) (h : p.loaded = true) : p.loadBlock c = p := by
  simp [BlockPostings.loadBlock, h]

/-- `ReadyAt`, and on the tail the skip reader shows `TERMINATED` as the block's last doc -/
def ReadyT (c : Cfg) (o : RecOpt) (k prev : Nat) (docs tfs : List Nat) (off : Nat) (S : SkipReader) : Prop :=
  ReadyAt c o k prev docs tfs off S ∧ (k = 0 → S.lastDocInBlock = c.T)

theorem new_readyT (c : Cfg) (o : RecOpt) (hB : 0 < c.B) (docs tfs : List Nat) (hv : ValidList docs tfs) :
    ReadyT c o (docs.length / c.B) 0 docs tfs 0
      (SkipReader.new c ((if docs.length < c.B then none else
        some (encBlocks c o (docs.length / c.B) 0 docs tfs).1).getD []) docs.length o) := by
  refine ⟨new_ready c o hB docs tfs hv, fun hk => ?_⟩
  have hlt : docs.length < c.B := by
    rcases Nat.lt_or_ge docs.length c.B with h | h
    · exact h
    · have : 1 ≤ docs.length / c.B := (Nat.one_le_div_iff hB).mpr h
      omega
  have : ¬ c.B ≤ docs.length := by omega
  simp [SkipReader.new, this]

theorem advance_lastT (c : Cfg) (o : RecOpt) (hB : 0 < c.B) (prev : Nat)
    (docs tfs : List Nat) (off : Nat) (S : SkipReader)
    (hk : 1 = docs.length / c.B) (hr : ReadyAt c o 1 prev docs tfs off S) :
    (S.advance c).lastDocInBlock = c.T := by
  obtain ⟨h1, h2, h3, h4, h5, h6, h7⟩ := hr
  have hlt : docs.length < 2 * c.B := by
    have := Nat.lt_of_div_lt_div (show docs.length / c.B < (2 * c.B) / c.B by
      rw [Nat.mul_div_cancel _ hB]; omega)
    exact this
  have hrem : ¬ c.B ≤ S.remainingDocs - c.B := by rw [h4]; omega
  unfold SkipReader.advance
  simp only [h5, hrem, if_false]

theorem advance_readyT (c : Cfg) (o : RecOpt) (h8 : 8 ∣ c.B) (hB : 0 < c.B) (k prev : Nat)
    (docs tfs : List Nat) (off : Nat) (S : SkipReader) (hv : ValidList docs tfs)
    (hk : k + 1 = docs.length / c.B) (hr : ReadyT c o (k + 1) prev docs tfs off S) :
    ReadyT c o k ((docs.take c.B).getLastD 0) (docs.drop c.B) (tfs.drop c.B)
      (off + blockBytesLen c o prev docs tfs) (S.advance c) := by
  refine ⟨advance_ready c o h8 hB k prev docs tfs off S hv hk hr.1, fun hk0 => ?_⟩
  subst hk0
  exact advance_lastT c o hB prev docs tfs off S hk hr.1

/-- the bytes of the first full block move into the prefix -/
theorem enc_data_step (c : Cfg) (o : RecOpt) (hP : GoodPacker c.B c.P) (k prev : Nat)
    (docs tfs pre : List Nat) (hv : ValidList docs tfs) (hlen : c.B ≤ docs.length) :
    ∃ blk : List Nat, blk.length = blockBytesLen c o prev docs tfs ∧
      pre ++ (encBlocks c o (k + 1) prev docs tfs).2 =
        (pre ++ blk) ++ (encBlocks c o k ((docs.take c.B).getLastD 0) (docs.drop c.B) (tfs.drop c.B)).2 := by
  have htake : (docs.take c.B).length = c.B := by simp; omega
  have httake : (tfs.take c.B).length = c.B := by simp [hv.len]; omega
  have hds_len : (strictDeltas (offsetOpt prev) (docs.take c.B)).length = c.B := by
    rw [strictDeltas_length, htake]
  have hpl := hP.pack_length (numBits (strictDeltas (offsetOpt prev) (docs.take c.B))) _ hds_len
  have hpl2 := hP.pack_length (numBits ((tfs.take c.B).map (· - 1))) ((tfs.take c.B).map (· - 1))
    (by rw [List.length_map]; exact httake)
  refine ⟨c.P.pack (numBits (strictDeltas (offsetOpt prev) (docs.take c.B))) (strictDeltas (offsetOpt prev) (docs.take c.B)) ++
      (if hasFreq o then c.P.pack (numBits ((tfs.take c.B).map (· - 1))) ((tfs.take c.B).map (· - 1)) else []), ?_, ?_⟩
  · simp only [blockBytesLen, List.length_append, hpl]
    cases hasFreq o
    · simp
    · simp only [if_true]; rw [hpl2]
  · simp only [encBlocks, List.append_assoc]

/-- the skip reader is on the block that starts at doc index `n` of the encoded list -/
def Walk (c : Cfg) (o : RecOpt) (docs tfs data : List Nat) (n : Nat) (S : SkipReader) : Prop :=
  ∃ prev pre, (prev = 0 ∨ ∀ d ∈ docs.drop n, prev < d) ∧
    ReadyT c o ((docs.drop n).length / c.B) prev (docs.drop n) (tfs.drop n) pre.length S ∧
    data = pre ++ (encBlocks c o ((docs.drop n).length / c.B) prev (docs.drop n) (tfs.drop n)).2

theorem div_step (B n : Nat) (hB : 0 < B) (k : Nat) (hk : k + 1 = n / B) : B ≤ n ∧ k = (n - B) / B := by
  have hlen : B ≤ n := by
    rcases Nat.lt_or_ge n B with h | h
    · rw [Nat.div_eq_of_lt h] at hk; omega
    · exact h
  refine ⟨hlen, ?_⟩
  have e : n = (n - B) + B := by omega
  rw [e, Nat.add_div_right _ hB] at hk
  omega

theorem walk_advance (c : Cfg) (o : RecOpt) (h8 : 8 ∣ c.B) (hB : 0 < c.B) (hP : GoodPacker c.B c.P)
    (docs tfs data : List Nat) (hv : ValidList docs tfs) (n k : Nat) (S : SkipReader)
    (hk : k + 1 = (docs.drop n).length / c.B) (hw : Walk c o docs tfs data n S) :
    Walk c o docs tfs data (n + c.B) (S.advance c) := by
  obtain ⟨prev, pre, hprev, hr, hdata⟩ := hw
  have hvn := hv.drop n
  obtain ⟨hlen, hk'⟩ := div_step c.B _ hB k hk
  rw [← hk] at hr hdata
  have hadv := advance_readyT c o h8 hB k prev _ _ pre.length S hvn hk hr
  obtain ⟨blk, hbl, hstep⟩ := enc_data_step c o hP k prev _ _ pre hvn hlen
  have hne : (docs.drop n).take c.B ≠ [] := by
    intro h
    have : ((docs.drop n).take c.B).length = c.B := by simp only [List.length_take]; omega
    rw [h] at this; simp at this; omega
  have hdd : (docs.drop n).drop c.B = docs.drop (n + c.B) := by rw [List.drop_drop]
  have htd : (tfs.drop n).drop c.B = tfs.drop (n + c.B) := by rw [List.drop_drop]
  have hk'' : k = (docs.drop (n + c.B)).length / c.B := by
    rw [← hdd, List.length_drop]; exact hk'
  refine ⟨((docs.drop n).take c.B).getLastD 0, pre ++ blk, ?_, ?_, ?_⟩
  · right
    intro d hd
    rw [← hdd] at hd
    exact take_lt_drop _ hvn.sorted c.B _ (getLastD_mem _ hne) d hd
  · rw [← hk'', ← hdd, ← htd, List.length_append, hbl]
    exact hadv
  · rw [← hk'', ← hdd, ← htd, hdata, hstep]

theorem le_getLastD_cons (t : List Nat) : ∀ (a d : Nat), (a :: t).Pairwise (· < ·) → d ∈ a :: t →
    d ≤ t.getLastD a := by
  induction t with
  | nil => intro a d _ hd; simp at hd; simp [hd]
  | cons b t ih =>
    intro a d hs hd
    rw [List.getLastD_cons]
    have hs' : (b :: t).Pairwise (· < ·) := (List.pairwise_cons.mp hs).2
    rcases List.mem_cons.mp hd with rfl | hd'
    · have hab : d < b := (List.pairwise_cons.mp hs).1 b (by simp)
      have := ih b b hs' (by simp)
      omega
    · exact ih b d hs' hd'

theorem le_getLastD_of_sorted (l : List Nat) (hs : l.Pairwise (· < ·)) (d : Nat) (hd : d ∈ l) :
    d ≤ l.getLastD 0 := by
  cases l with
  | nil => simp at hd
  | cons a t => rw [List.getLastD_cons]; exact le_getLastD_cons t a d hs hd

theorem seek_fst (c : Cfg) (target fuel : Nat) (s : SkipReader) (hf : 0 < fuel) :
    (if target ≤ s.lastDocInBlock then s else (SkipReader.seek c target fuel s).1) =
      (SkipReader.seek c target fuel s).1 := by
  obtain ⟨f, rfl⟩ : ∃ f, fuel = f + 1 := ⟨fuel - 1, by omega⟩
  unfold SkipReader.seek
  split <;> simp_all

/-- **the lazy skip reader's seek on encoded skip data** -/
theorem walk_seek (c : Cfg) (o : RecOpt) (h8 : 8 ∣ c.B) (hB : 0 < c.B) (hP : GoodPacker c.B c.P)
    (docs tfs data : List Nat) (hv : ValidList docs tfs) (target : Nat) (ht : target ≤ c.T) (k : Nat) :
    ∀ (n fuel : Nat) (S : SkipReader), k = (docs.drop n).length / c.B → Walk c o docs tfs data n S →
      k + 1 ≤ fuel →
      ∃ n', n ≤ n' ∧ Walk c o docs tfs data n' (SkipReader.seek c target fuel S).1 ∧
        (∀ d ∈ (docs.drop n).take (n' - n), d < target) ∧
        (c.B ≤ (docs.drop n').length → target ≤ ((docs.drop n').take c.B).getLastD 0) ∧
        ((SkipReader.seek c target fuel S).2 = false → (SkipReader.seek c target fuel S).1 = S) ∧
        n' = landing c.B docs target fuel n := by
  induction k with
  | zero =>
    intro n fuel S hk hw hfuel
    obtain ⟨f, rfl⟩ : ∃ f, fuel = f + 1 := ⟨fuel - 1, by omega⟩
    have hlast : S.lastDocInBlock = c.T := by
      obtain ⟨prev, pre, _, hr, _⟩ := hw
      exact hr.2 hk.symm
    have hlt : (docs.drop n).length < c.B := by
      rcases Nat.lt_or_ge (docs.drop n).length c.B with h | h
      · exact h
      · have : 1 ≤ (docs.drop n).length / c.B := (Nat.one_le_div_iff hB).mpr h
        omega
    have hs : SkipReader.seek c target (f + 1) S = (S, false) := by
      unfold SkipReader.seek; simp [hlast, ht]
    rw [hs]
    refine ⟨n, Nat.le_refl _, hw, by simp, fun h => by omega, fun _ => rfl, ?_⟩
    unfold landing
    rw [if_neg (fun h => by omega)]
  | succ k ih =>
    intro n fuel S hk hw hfuel
    obtain ⟨f, rfl⟩ : ∃ f, fuel = f + 1 := ⟨fuel - 1, by omega⟩
    obtain ⟨hlen, hk'⟩ := div_step c.B _ hB k hk
    have hlastS : S.lastDocInBlock = ((docs.drop n).take c.B).getLastD 0 := by
      obtain ⟨prev, pre, _, hr, _⟩ := hw
      rw [← hk] at hr
      exact hr.1.2.2.2.2.2.1
    by_cases hle : target ≤ S.lastDocInBlock
    · have hs : SkipReader.seek c target (f + 1) S = (S, false) := by
        unfold SkipReader.seek; simp [hle]
      rw [hs]
      refine ⟨n, Nat.le_refl _, hw, by simp, fun _ => by rw [← hlastS]; exact hle, fun _ => rfl, ?_⟩
      unfold landing
      rw [if_neg (fun h => by rw [← hlastS] at h; omega)]
    · have hwa := walk_advance c o h8 hB hP docs tfs data hv n k S hk hw
      have hdd : (docs.drop n).drop c.B = docs.drop (n + c.B) := by rw [List.drop_drop]
      have hk'' : k = (docs.drop (n + c.B)).length / c.B := by
        rw [← hdd, List.length_drop]; exact hk'
      obtain ⟨n', hn', hw', hall, hlast', _, hland⟩ := ih (n + c.B) f (S.advance c) hk'' hwa (by omega)
      have hs : (SkipReader.seek c target (f + 1) S).1 = (SkipReader.seek c target f (S.advance c)).1 ∧
          (SkipReader.seek c target (f + 1) S).2 = true := by
        have := seek_fst c target f (S.advance c) (by omega)
        rw [SkipReader.seek]
        simp only [hle, if_false]
        split
        · rename_i h; simp only [h, if_true] at this; exact ⟨this, rfl⟩
        · exact ⟨rfl, rfl⟩
      rw [hs.1, hs.2]
      refine ⟨n', by omega, hw', ?_, hlast', fun h => by simp at h, ?_⟩
      · intro d hd
        -- the docs of the skipped block are below its last doc, which is below the target
        have hsplit : (docs.drop n).take (n' - n) =
            (docs.drop n).take c.B ++ (docs.drop (n + c.B)).take (n' - (n + c.B)) := by
          have e : n' - n = c.B + (n' - (n + c.B)) := by omega
          rw [e, List.take_add, hdd]
        rw [hsplit, List.mem_append] at hd
        rcases hd with hd | hd
        · have hne : (docs.drop n).take c.B ≠ [] := by intro h; rw [h] at hd; simp at hd
          have hsorted : ((docs.drop n).take c.B).Pairwise (· < ·) :=
            (hv.drop n).sorted.sublist (List.take_sublist _ _)
          have hdl : d ≤ ((docs.drop n).take c.B).getLastD 0 := le_getLastD_of_sorted _ hsorted d hd
          rw [← hlastS] at hdl
          omega
        · exact hall d hd
      · rw [hland]
        conv => rhs; unfold landing
        rw [if_pos ⟨hlen, by rw [← hlastS]; omega⟩]

/-! ### the block under the skip reader -/

theorem blockBuf_full (c : Cfg) (o : RecOpt) (hP : GoodPacker c.B c.P) (k prev : Nat)
    (docs tfs pre : List Nat) (S : SkipReader) (hv : ValidList docs tfs)
    (hprev : prev = 0 ∨ ∀ d ∈ docs, prev < d) (hlen : c.B ≤ docs.length)
    (hr : ReadyAt c o (k + 1) prev docs tfs pre.length S) :
    blockBuf c S (pre ++ (encBlocks c o (k + 1) prev docs tfs).2) = docs.take c.B := by
  obtain ⟨h1, h2, h3, h4, h5, h6, h7⟩ := hr
  have htake : (docs.take c.B).length = c.B := by simp; omega
  have hds_len : (strictDeltas (offsetOpt prev) (docs.take c.B)).length = c.B := by
    rw [strictDeltas_length, htake]
  have hbelow : Below (offsetOpt prev) (docs.take c.B) := by
    unfold offsetOpt
    split
    · trivial
    · rename_i hp
      rcases hprev with h | h
      · exact absurd h hp
      · intro v hv'; exact h v (List.mem_of_mem_take hv')
  have hsorted_take : (docs.take c.B).Pairwise (· < ·) := hv.sorted.sublist (List.take_sublist _ _)
  unfold blockBuf
  simp only [h5, h3, h2, Option.getD_some, if_true, encBlocks, List.drop_left', List.append_assoc]
  rw [hP.unpack_pack _ _ _ hds_len (lt_two_pow_numBits _),
    strictIntegrate_strictDeltas _ _ hsorted_take hbelow]

theorem blockBuf_tail (c : Cfg) (o : RecOpt) (hS : 2 ≤ c.S) (prev : Nat)
    (docs tfs pre : List Nat) (S : SkipReader) (hv : ValidList docs tfs)
    (hprev : prev = 0 ∨ ∀ d ∈ docs, prev < d)
    (hr : ReadyAt c o 0 prev docs tfs pre.length S) :
    blockBuf c S (pre ++ (encBlocks c o 0 prev docs tfs).2) = padTo c.B c.T docs := by
  obtain ⟨h1, h2, h3, h4, h5⟩ := hr
  have hle : ∀ v ∈ docs, prev ≤ v := by
    intro v hv'
    rcases hprev with h | h
    · omega
    · exact Nat.le_of_lt (h v hv')
  unfold blockBuf
  simp only [h5, h3, h2, Option.getD_some, encBlocks, vintTail, List.drop_left']
  by_cases h0 : docs.length = 0
  · have hd : docs = [] := List.length_eq_zero_iff.mp h0
    subst hd
    simp [VInt.decList, integrate, padTo]
  · have e1 := VInt.decList_encList c.S hS (deltas prev docs)
      (if hasFreq o = true then VInt.encList c.S tfs else [])
    rw [deltas_length] at e1
    simp only [h0, if_false, e1, integrate_deltas prev docs hv.sorted hle]

/-- what the doc buffer holds for the block starting at doc index `n` -/
theorem blockBuf_walk (c : Cfg) (o : RecOpt) (hB : 0 < c.B) (hS : 2 ≤ c.S) (hP : GoodPacker c.B c.P)
    (docs tfs data : List Nat) (hv : ValidList docs tfs) (n : Nat) (S : SkipReader)
    (hw : Walk c o docs tfs data n S) :
    blockBuf c S data =
      if c.B ≤ (docs.drop n).length then (docs.drop n).take c.B else padTo c.B c.T (docs.drop n) := by
  obtain ⟨prev, pre, hprev, hr, hdata⟩ := hw
  by_cases hlen : c.B ≤ (docs.drop n).length
  · obtain ⟨k, hk⟩ : ∃ k, (docs.drop n).length / c.B = k + 1 := by
      have : 1 ≤ (docs.drop n).length / c.B := (Nat.one_le_div_iff hB).mpr hlen
      exact ⟨(docs.drop n).length / c.B - 1, by omega⟩
    rw [hk] at hr hdata
    rw [if_pos hlen, hdata]
    exact blockBuf_full c o hP k prev _ _ pre S (hv.drop n) hprev hlen hr.1
  · have hk : (docs.drop n).length / c.B = 0 := Nat.div_eq_of_lt (by omega)
    rw [hk] at hr hdata
    rw [if_neg hlen, hdata]
    exact blockBuf_tail c o hS prev _ _ pre S (hv.drop n) hprev hr.1

theorem countP_lt_zero (l : List Nat) (t : Nat) (h : ∀ d ∈ l, t ≤ d) : l.countP (· < t) = 0 := by
  rw [List.countP_eq_zero]
  intro d hd
  have := h d hd
  simp; omega

theorem countP_lt_all (l : List Nat) (t : Nat) (h : ∀ d ∈ l, d < t) : l.countP (· < t) = l.length := by
  rw [List.countP_eq_length]
  intro d hd
  simpa using h d hd

/-- searching the buffer of the block the skip reader stopped on: the index is the rank of the
target among the remaining docs, and the buffer shows the doc of that rank (`TERMINATED` past the end) -/
theorem buf_search (B T : Nat) (D : List Nat) (t : Nat) (ht : t ≤ T) (hs : D.Pairwise (· < ·))
    (hT : ∀ d ∈ D, d < T) (hB : 0 < B)
    (hlast : B ≤ D.length → t ≤ (D.take B).getLastD 0) :
    let buf := if B ≤ D.length then D.take B else padTo B T D
    buf.length = B ∧ buf.Pairwise (· ≤ ·) ∧ buf.countP (· < t) = D.countP (· < t) ∧
    D.countP (· < t) < B ∧ buf.getD (D.countP (· < t)) T = D.getD (D.countP (· < t)) T := by
  intro buf
  by_cases hlen : B ≤ D.length
  · have hbuf : buf = D.take B := by simp [buf, hlen]
    have htl : (D.take B).length = B := by simp; omega
    have hne : D.take B ≠ [] := by intro h; rw [h] at htl; simp at htl; omega
    have hlm := getLastD_mem (D.take B) hne
    have hge : ∀ d ∈ D.drop B, t ≤ d := by
      intro d hd
      have := take_lt_drop D hs B _ hlm d hd
      have := hlast hlen
      omega
    have hc : D.countP (· < t) = (D.take B).countP (· < t) := by
      conv => lhs; rw [← List.take_append_drop B D]
      rw [List.countP_append, countP_lt_zero _ _ hge, Nat.add_zero]
    have hlt : (D.take B).countP (· < t) < B := by
      have hle : (D.take B).countP (· < t) ≤ (D.take B).length := List.countP_le_length
      rcases Nat.lt_or_ge ((D.take B).countP (· < t)) B with h | h
      · exact h
      · have he : (D.take B).countP (· < t) = (D.take B).length := by omega
        rw [List.countP_eq_length] at he
        have := he _ hlm
        have := hlast hlen
        simp at *
        omega
    rw [hbuf, hc]
    refine ⟨htl, ?_, rfl, hlt, ?_⟩
    · exact (hs.sublist (List.take_sublist _ _)).imp (fun h => Nat.le_of_lt h)
    · simp only [List.getD_eq_getElem?_getD, List.getElem?_take, hlt, if_true]
  · have hbuf : buf = D ++ List.replicate (B - D.length) T := by simp [buf, hlen, padTo]
    have hc : buf.countP (· < t) = D.countP (· < t) := by
      rw [hbuf, List.countP_append, countP_lt_zero (List.replicate _ _) t (by
        intro d hd; rw [List.mem_replicate] at hd; omega), Nat.add_zero]
    have hle : D.countP (· < t) ≤ D.length := List.countP_le_length
    refine ⟨by rw [hbuf]; simp; omega, ?_, hc, by omega, ?_⟩
    · rw [hbuf, List.pairwise_append]
      refine ⟨hs.imp (fun h => Nat.le_of_lt h), ?_, ?_⟩
      · rw [List.pairwise_replicate]; right; exact Nat.le_refl _
      · intro a ha b hb
        rw [List.mem_replicate] at hb
        have := hT a ha
        omega
    · rw [hbuf]
      simp only [List.getD_eq_getElem?_getD]
      rcases Nat.lt_or_ge (D.countP (· < t)) D.length with h | h
      · rw [List.getElem?_append_left h]
      · rw [List.getElem?_append_right h, List.getElem?_eq_none h]
        simp only [Option.getD_none]
        rcases Nat.lt_or_ge (D.countP (· < t) - D.length) (B - D.length) with h' | h'
        · rw [List.getElem?_replicate]; simp [h']
        · rw [List.getElem?_eq_none (by simpa using h')]; rfl

/-! ### `BlockSegmentPostings::seek` -/

/-- the block cursor is on the block starting at doc index `n` of the encoded list -/
def LazyAt (c : Cfg) (o : RecOpt) (docs tfs : List Nat) (n : Nat) (p : BlockPostings) : Prop :=
  Walk c o docs tfs p.data n p.skip ∧ (p.loaded = true → p.docBuf = blockBuf c p.skip p.data) ∧
  p.docFreq = docs.length

theorem open_lazyAt (c : Cfg) (o : RecOpt) (hB : 0 < c.B) (hS : 2 ≤ c.S) (docs tfs : List Nat)
    (hv : ValidList docs tfs) :
    LazyAt c o docs tfs 0 (BlockPostings.open c o o docs.length (encodeTerm c o docs tfs)) := by
  unfold BlockPostings.open
  simp only [splitSkips_encodeTerm c o hS, effectiveOpt_encodeTerm]
  refine ⟨?_, fun _ => ?_, ?_⟩
  · rw [loadBlock_skip, loadBlock_data]
    exact ⟨0, [], Or.inl rfl, by simpa using new_readyT c o hB docs tfs hv, by simp⟩
  · rw [loadBlock_docBuf _ _ rfl, loadBlock_skip, loadBlock_data]
  · rw [loadBlock_docFreq]

theorem seek_lazyAt (o : RecOpt) (docs tfs : List Nat) (hv : ValidList docs tfs)
    (hT : ∀ d ∈ docs, d < cfg.T) (target : Nat) (ht : target ≤ cfg.T) (n : Nat) (p : BlockPostings)
    (hp : LazyAt cfg o docs tfs n p) :
    ∃ n', n ≤ n' ∧ LazyAt cfg o docs tfs n' (p.seek cfg target).1 ∧
      (p.seek cfg target).1.loaded = true ∧
      (∀ d ∈ (docs.drop n).take (n' - n), d < target) ∧
      (p.seek cfg target).2 = (docs.drop n').countP (· < target) ∧
      (p.seek cfg target).2 < cfg.B ∧
      (p.seek cfg target).1.docBuf.getD (p.seek cfg target).2 cfg.T =
        (docs.drop n').getD ((docs.drop n').countP (· < target)) cfg.T ∧
      n' = landing cfg.B docs target (docs.length / cfg.B + 2) n := by
  obtain ⟨hw, hbuf, hdf⟩ := hp
  have hB : 0 < cfg.B := by decide
  have hfuel : (docs.drop n).length / cfg.B + 1 ≤ p.docFreq / cfg.B + 2 := by
    have : (docs.drop n).length / cfg.B ≤ docs.length / cfg.B :=
      Nat.div_le_div_right (by simp)
    rw [hdf]; omega
  obtain ⟨n', hn', hw', hall, hlast, hsame, hland⟩ :=
    walk_seek cfg o (by decide) hB bp4x_good docs tfs p.data hv target ht _ n _ p.skip rfl hw hfuel
  -- the cursor after the skip reader moved (or not) and the block was loaded
  have hstate : ((p.seek cfg target).1.skip = (SkipReader.seek cfg target (p.docFreq / cfg.B + 2) p.skip).1 ∧
      (p.seek cfg target).1.data = p.data ∧ (p.seek cfg target).1.docFreq = p.docFreq ∧
      (p.seek cfg target).1.loaded = true ∧
      (p.seek cfg target).1.docBuf =
        blockBuf cfg (SkipReader.seek cfg target (p.docFreq / cfg.B + 2) p.skip).1 p.data) := by
    unfold BlockPostings.seek
    simp only
    cases hm : (SkipReader.seek cfg target (p.docFreq / cfg.B + 2) p.skip).2
    · have hs := hsame hm
      simp only [Bool.false_eq_true, if_false]
      refine ⟨by rw [loadBlock_skip, hs], loadBlock_data _ _, loadBlock_docFreq _ _, loadBlock_loaded _ _, ?_⟩
      rw [hs]
      cases hl : p.loaded
      · exact loadBlock_docBuf _ _ hl
      · rw [loadBlock_of_loaded _ _ hl]; exact hbuf hl
    · simp only [if_true]
      refine ⟨by rw [loadBlock_skip], by rw [loadBlock_data], by rw [loadBlock_docFreq],
        loadBlock_loaded _ _, ?_⟩
      rw [loadBlock_docBuf _ _ rfl]
  obtain ⟨e1, e2, e3, e4, e5⟩ := hstate
  have hbw := blockBuf_walk cfg o hB (by decide) bp4x_good docs tfs p.data hv n' _ hw'
  have hbs := buf_search cfg.B cfg.T (docs.drop n') target ht (hv.drop n').sorted
    (fun d hd => hT d (List.mem_of_mem_drop hd)) hB hlast
  simp only at hbs
  rw [← hbw, ← e5] at hbs
  obtain ⟨b1, b2, b3, b4, b5⟩ := hbs
  have hidx : (p.seek cfg target).2 = (docs.drop n').countP (· < target) := by
    have : (p.seek cfg target).2 = searchBlock cfg (p.seek cfg target).1.docBuf target := rfl
    rw [this, (searchBlock_spec _ target b1 b2).1, b3]
  refine ⟨n', hn', ⟨?_, fun _ => ?_, by rw [e3]; exact hdf⟩, e4, hall, hidx, by rw [hidx]; exact b4, ?_,
    by rw [hland, hdf]⟩
  · rw [e1, e2]; exact hw'
  · rw [e5, e1, e2]
  · rw [hidx]; exact b5

theorem lazyAt_congr (c : Cfg) (o : RecOpt) (docs tfs : List Nat) (n : Nat) (p q : BlockPostings)
    (h : p.eraseTf = q.eraseTf) (hq : LazyAt c o docs tfs n q) : LazyAt c o docs tfs n p := by
  have h' := (eraseTf_eq_iff p q).mp h
  obtain ⟨e1, _, e3, e4⟩ := h'
  simp only [BlockPostings.core, Prod.mk.injEq] at e4
  obtain ⟨_, e5, e6, e7⟩ := e4
  unfold LazyAt
  rw [e1, e3, e5, e6, e7]
  exact hq

/-- a recycled cursor is on the first block of the new term, like a freshly opened one -/
theorem reset_lazyAt (o : RecOpt) (docs tfs : List Nat) (hv : ValidList docs tfs) (p : BlockPostings)
    (hskip : p.skip.skipInfo = o) (hfreq : p.freqOpt = freqOptOf o o) :
    LazyAt cfg o docs tfs 0 (p.reset cfg docs.length (encodeTerm cfg o docs tfs)) := by
  have heff : effectiveOpt cfg o docs.length (splitSkips cfg docs.length (encodeTerm cfg o docs tfs)).1 = o := by
    rw [splitSkips_encodeTerm cfg o (by decide)]
    exact effectiveOpt_encodeTerm cfg o docs tfs
  have h := reset_eq_open cfg o o p docs.length (encodeTerm cfg o docs tfs)
    (by rw [heff]; exact hskip) (by rw [heff]; exact hfreq)
  exact lazyAt_congr cfg o docs tfs 0 _ _ h (open_lazyAt cfg o (by decide) (by decide) docs tfs hv)

theorem getD_drop_add (l : List Nat) (n i d : Nat) : (l.drop n).getD i d = l.getD (n + i) d := by
  simp only [List.getD_eq_getElem?_getD, List.getElem?_drop]

/-- the rank of the target in the whole list, from the rank in the remaining docs -/
theorem rank_split (docs : List Nat) (t n : Nat) (hn : n ≤ docs.length) (h : ∀ d ∈ docs.take n, d < t) :
    docs.countP (· < t) = n + (docs.drop n).countP (· < t) := by
  conv => lhs; rw [← List.take_append_drop n docs]
  rw [List.countP_append, countP_lt_all _ _ h, List.length_take, Nat.min_eq_left hn]

/-- **a program of seeks on the lazy cursor**: non-decreasing targets (the `DocSet` contract), each
answer is the first doc `≥ target` of the list (`TERMINATED` if none) -/
theorem seekAll_lazyAt (o : RecOpt) (docs tfs : List Nat) (hv : ValidList docs tfs)
    (hT : ∀ d ∈ docs, d < cfg.T) (ts : List Nat) :
    ∀ (n : Nat) (p : BlockPostings), LazyAt cfg o docs tfs n p → n ≤ docs.length →
      ts.Pairwise (· ≤ ·) → (∀ t ∈ ts, t ≤ cfg.T) → (∀ t ∈ ts, ∀ d ∈ docs.take n, d < t) →
      BlockPostings.seekAll cfg p ts = ts.map (fun t => docs.getD (docs.countP (· < t)) cfg.T) := by
  induction ts with
  | nil => intro _ _ _ _ _ _ _; rfl
  | cons t ts ih =>
    intro n p hp hn hs hts hbelow
    obtain ⟨n', hn', hp', _, hall, hidx, _, hdoc, _⟩ :=
      seek_lazyAt o docs tfs hv hT t (hts t (by simp)) n p hp
    -- everything before the block the cursor is now on is below the target
    have hbelow' : ∀ d ∈ docs.take n', d < t := by
      intro d hd
      have e : docs.take n' = docs.take n ++ (docs.drop n).take (n' - n) := by
        have e' : n' = n + (n' - n) := by omega
        conv => lhs; rw [e', List.take_add]
      rw [e, List.mem_append] at hd
      rcases hd with hd | hd
      · exact hbelow t (by simp) d hd
      · exact hall d hd
    have hrest : ∀ t' ∈ ts, ∀ d ∈ docs.take n', d < t' := by
      intro t' ht' d hd
      have h1 := hbelow' d hd
      have h2 : t ≤ t' := (List.pairwise_cons.mp hs).1 t' ht'
      omega
    rcases Nat.lt_or_ge docs.length n' with hbig | hsmall
    · -- cannot happen unless nothing is left; then both sides show TERMINATED
      have hdrop : docs.drop n' = [] := List.drop_eq_nil_of_le (by omega)
      have htake : docs.take n' = docs := List.take_of_length_le (by omega)
      have hc : docs.countP (· < t) = docs.length := countP_lt_all _ _ (by rw [htake] at hbelow'; exact hbelow')
      have hrest'' : ∀ t' ∈ ts, ∀ d ∈ docs.take docs.length, d < t' := by
        intro t' ht' d hd
        rw [List.take_length] at hd
        rw [← htake] at hd
        exact hrest t' ht' d hd
      simp only [BlockPostings.seekAll, List.map_cons]
      rw [hdoc, hdrop]
      congr 1
      · simp [hc]
      · -- the cursor stays where it is: restate the invariant at `n'` (it is what we have)
        have hw := hp'
        obtain ⟨⟨prev, pre, hprev, hr, hdata⟩, hb, hdf⟩ := hw
        have hd2 : docs.drop docs.length = docs.drop n' := by rw [hdrop]; simp
        have ht2 : tfs.drop docs.length = tfs.drop n' := by
          rw [List.drop_eq_nil_of_le (by rw [hv.len]; omega), List.drop_eq_nil_of_le (by rw [hv.len]; omega)]
        have hp'' : LazyAt cfg o docs tfs docs.length (p.seek cfg t).1 :=
          ⟨⟨prev, pre, by rw [hd2]; exact hprev, by rw [hd2, ht2]; exact hr, by rw [hd2, ht2]; exact hdata⟩, hb, hdf⟩
        exact ih docs.length _ hp'' (Nat.le_refl _) (List.pairwise_cons.mp hs).2
          (fun t' ht' => hts t' (by simp [ht'])) hrest''
    · simp only [BlockPostings.seekAll, List.map_cons]
      rw [hdoc, getD_drop_add, ← rank_split docs t n' hsmall hbelow']
      congr 1
      exact ih n' _ hp' hsmall (List.pairwise_cons.mp hs).2 (fun t' ht' => hts t' (by simp [ht'])) hrest

/-! ### the term frequency buffer after a seek -/

theorem skipSeek_unmoved (c : Cfg) (target fuel : Nat) (s : SkipReader)
    (h : (SkipReader.seek c target fuel s).2 = false) : (SkipReader.seek c target fuel s).1 = s := by
  cases fuel with
  | zero => rfl
  | succ f =>
    unfold SkipReader.seek at h ⊢
    split
    · rfl
    · rename_i hle
      simp only [hle, if_false] at h
      split at h <;> simp at h

/-- the frequencies decoded for the block starting at doc index `n` -/
theorem blockTfs_walk (c : Cfg) (o : RecOpt) (ho : hasFreq o = true) (hB : 0 < c.B) (hS : 2 ≤ c.S)
    (hP : GoodPacker c.B c.P) (docs tfs data : List Nat) (hv : ValidList docs tfs) (n : Nat)
    (S : SkipReader) (hw : Walk c o docs tfs data n S) (hne : docs.drop n ≠ []) :
    blockTfs c S data =
      some (if c.B ≤ (docs.drop n).length then (tfs.drop n).take c.B else tfs.drop n) := by
  obtain ⟨prev, pre, hprev, hr, hdata⟩ := hw
  by_cases hlen : c.B ≤ (docs.drop n).length
  · obtain ⟨k, hk⟩ : ∃ k, (docs.drop n).length / c.B = k + 1 := by
      have : 1 ≤ (docs.drop n).length / c.B := (Nat.one_le_div_iff hB).mpr hlen
      exact ⟨(docs.drop n).length / c.B - 1, by omega⟩
    rw [hk] at hr hdata
    rw [if_pos hlen, hdata]
    exact blockTfs_full c o ho hP k prev _ _ pre S (hv.drop n) hlen hr.1
  · have hk : (docs.drop n).length / c.B = 0 := Nat.div_eq_of_lt (by omega)
    rw [hk] at hr hdata
    rw [if_neg hlen, hdata]
    exact blockTfs_tail c o ho hS prev _ _ pre S (hv.drop n) hne hr.1

/-- the frequency side of the cursor invariant -/
def FreqsAt (c : Cfg) (p : BlockPostings) : Prop :=
  p.freqOpt = .readFreq ∧ (p.loaded = true → ∀ t, blockTfs c p.skip p.data = some t → p.freqs = t)

theorem open_freqsAt (c : Cfg) (o : RecOpt) (ho : hasFreq o = true) (hS : 2 ≤ c.S) (docs tfs : List Nat) :
    FreqsAt c (BlockPostings.open c o o docs.length (encodeTerm c o docs tfs)) := by
  unfold BlockPostings.open
  simp only [splitSkips_encodeTerm c o hS, effectiveOpt_encodeTerm]
  have hf : freqOptOf o o = .readFreq := by cases o <;> simp_all [freqOptOf, hasFreq]
  refine ⟨by rw [loadBlock_freqOpt]; exact hf, fun _ t ht => ?_⟩
  rw [loadBlock_skip, loadBlock_data] at ht
  exact loadBlock_freqs c _ rfl hf t ht

theorem seek_freqsAt (c : Cfg) (p : BlockPostings) (target : Nat) (hp : FreqsAt c p) :
    FreqsAt c (p.seek c target).1 := by
  obtain ⟨hf, hinv⟩ := hp
  unfold BlockPostings.seek
  simp only
  cases hm : (SkipReader.seek c target (p.docFreq / c.B + 2) p.skip).2
  · simp only [Bool.false_eq_true, if_false]
    cases hl : p.loaded
    · refine ⟨by rw [loadBlock_freqOpt]; exact hf, fun _ t ht => ?_⟩
      rw [loadBlock_skip, loadBlock_data] at ht
      exact loadBlock_freqs c p hl hf t ht
    · rw [loadBlock_of_loaded c p hl]
      exact ⟨hf, hinv⟩
  · simp only [if_true]
    refine ⟨by rw [loadBlock_freqOpt]; exact hf, fun _ t ht => ?_⟩
    rw [loadBlock_skip, loadBlock_data] at ht
    let q : BlockPostings := { p with skip := (SkipReader.seek c target (p.docFreq / c.B + 2) p.skip).1, loaded := false }
    exact loadBlock_freqs c q rfl hf t ht

/-- **doc and term frequency after a seek of the lazy cursor**: if some doc is `≥ target`, the
frequency buffer shows, at the index the search returned, that doc's term frequency -/
theorem seek_lazyAt_freq (o : RecOpt) (ho : hasFreq o = true) (docs tfs : List Nat) (hv : ValidList docs tfs)
    (hT : ∀ d ∈ docs, d < cfg.T) (target : Nat) (ht : target ≤ cfg.T) (n : Nat) (p : BlockPostings)
    (hp : LazyAt cfg o docs tfs n p) (hpf : FreqsAt cfg p)
    (hbelow : ∀ d ∈ docs.take n, d < target)
    (hrank : docs.countP (· < target) < docs.length) :
    (p.seek cfg target).1.freqs.getD (p.seek cfg target).2 0 = tfs.getD (docs.countP (· < target)) 0 := by
  obtain ⟨n', hn', hp', hloaded, hall, hidx, hlt, _⟩ := seek_lazyAt o docs tfs hv hT target ht n p hp
  have hf' := seek_freqsAt cfg p target hpf
  have hbelow' : ∀ d ∈ docs.take n', d < target := by
    intro d hd
    have e : docs.take n' = docs.take n ++ (docs.drop n).take (n' - n) := by
      have e' : n' = n + (n' - n) := by omega
      conv => lhs; rw [e', List.take_add]
    rw [e, List.mem_append] at hd
    rcases hd with hd | hd
    · exact hbelow d hd
    · exact hall d hd
  have hn'le : n' ≤ docs.length := by
    rcases Nat.lt_or_ge docs.length n' with h | h
    · have htake : docs.take n' = docs := List.take_of_length_le (by omega)
      rw [htake] at hbelow'
      have := countP_lt_all _ _ hbelow'
      omega
    · exact h
  have hr := rank_split docs target n' hn'le hbelow'
  have hidxlt : (p.seek cfg target).2 < (docs.drop n').length := by
    rw [hidx, List.length_drop]; omega
  have hne : docs.drop n' ≠ [] := by
    intro h; rw [h] at hidxlt; simp at hidxlt
  have htf := blockTfs_walk cfg o ho (by decide) (by decide) bp4x_good docs tfs _ hv n' _ hp'.1 hne
  rw [hf'.2 hloaded _ htf, hr, ← hidx]
  have hB : (p.seek cfg target).2 < cfg.B := hlt
  split
  · simp only [List.getD_eq_getElem?_getD, List.getElem?_take, hB, if_true, List.getElem?_drop]
  · simp only [List.getD_eq_getElem?_getD, List.getElem?_drop]

theorem loadBlock_freqsAt (c : Cfg) (q : BlockPostings) (hq : q.loaded = false) (hf : q.freqOpt = .readFreq) :
    FreqsAt c (q.loadBlock c) := by
  refine ⟨by rw [loadBlock_freqOpt]; exact hf, fun _ t ht => ?_⟩
  rw [loadBlock_skip, loadBlock_data] at ht
  exact loadBlock_freqs c q hq hf t ht

theorem reset_freqsAt (c : Cfg) (p : BlockPostings) (docFreq : Nat) (bytes : List Nat)
    (hf : p.freqOpt = .readFreq) : FreqsAt c (p.reset c docFreq bytes) := by
  unfold BlockPostings.reset
  simp only
  apply loadBlock_freqsAt
  · rfl
  · exact hf

/-! ### block-level programs mixing `advance` and `seek` -/

theorem loadBlock_unloaded_skip (c : Cfg) (p : BlockPostings) (S : SkipReader) :
    (({ p with skip := S, loaded := false } : BlockPostings).loadBlock c).skip = S ∧
    (({ p with skip := S, loaded := false } : BlockPostings).loadBlock c).data = p.data ∧
    (({ p with skip := S, loaded := false } : BlockPostings).loadBlock c).docFreq = p.docFreq ∧
    (({ p with skip := S, loaded := false } : BlockPostings).loadBlock c).docBuf = blockBuf c S p.data := by
  refine ⟨by rw [loadBlock_skip], by rw [loadBlock_data], by rw [loadBlock_docFreq], ?_⟩
  rw [loadBlock_docBuf _ _ rfl]

/-- `advance` out of a full block: the cursor is on the next block, whose first doc the buffer shows -/
theorem advance_lazyAt (o : RecOpt) (docs tfs : List Nat) (hv : ValidList docs tfs) (n : Nat)
    (p : BlockPostings) (hp : LazyAt cfg o docs tfs n p) (hfull : cfg.B ≤ (docs.drop n).length) :
    LazyAt cfg o docs tfs (n + cfg.B) (p.advance cfg) ∧
    (p.advance cfg).docBuf.getD 0 cfg.T = docs.getD (n + cfg.B) cfg.T := by
  obtain ⟨hw, _, hdf⟩ := hp
  have hB : 0 < cfg.B := by decide
  obtain ⟨k, hk⟩ : ∃ k, k + 1 = (docs.drop n).length / cfg.B := by
    have : 1 ≤ (docs.drop n).length / cfg.B := (Nat.one_le_div_iff hB).mpr hfull
    exact ⟨(docs.drop n).length / cfg.B - 1, by omega⟩
  have hwa := walk_advance cfg o (by decide) hB bp4x_good docs tfs p.data hv n k p.skip hk hw
  obtain ⟨e1, e2, e3, e5⟩ := loadBlock_unloaded_skip cfg p (p.skip.advance cfg)
  have hadv : p.advance cfg =
      (({ p with skip := p.skip.advance cfg, loaded := false } : BlockPostings).loadBlock cfg) := rfl
  have hbw := blockBuf_walk cfg o hB (by decide) bp4x_good docs tfs p.data hv (n + cfg.B) _ hwa
  refine ⟨⟨by rw [hadv, e1, e2]; exact hwa, fun _ => by rw [hadv, e5, e1, e2], by rw [hadv, e3]; exact hdf⟩, ?_⟩
  rw [hadv, e5, hbw]
  split
  · rename_i hl
    simp only [List.getD_eq_getElem?_getD, List.getElem?_take, hB, if_true, List.getElem?_drop, Nat.add_zero]
  · rename_i hl
    simp only [padTo, List.getD_eq_getElem?_getD]
    cases hd : docs.drop (n + cfg.B) with
    | nil =>
      have hlen : docs.length ≤ n + cfg.B := by
        have := congrArg List.length hd
        simp only [List.length_drop, List.length_nil] at this
        omega
      rw [List.getElem?_eq_none hlen]
      simp only [List.length_nil, Nat.sub_zero, List.nil_append, Option.getD_none]
      rw [List.getElem?_replicate]
      simp [hB]
    | cons d rest =>
      have : docs[n + cfg.B]? = some d := by
        have := congrArg (fun l => l[0]?) hd
        simpa [List.getElem?_drop] using this
      simp [this]

/-- **block-level programs**: any program of `advance` (out of full blocks) and `seek` on the lazy
cursor shows exactly what the doc list prescribes -/
theorem runOps_lazyAt (o : RecOpt) (docs tfs : List Nat) (hv : ValidList docs tfs)
    (hT : ∀ d ∈ docs, d < cfg.T) (ops : List BOp) :
    ∀ (n : Nat) (p : BlockPostings), LazyAt cfg o docs tfs n p →
      okBlockOps cfg.B cfg.T docs (docs.length / cfg.B + 2) n ops →
      BlockPostings.runOps cfg p ops = specBlockOps cfg.B cfg.T docs (docs.length / cfg.B + 2) n ops := by
  induction ops with
  | nil => intro _ _ _ _; rfl
  | cons op ops ih =>
    intro n p hp hok
    cases op with
    | advance =>
      obtain ⟨hfull, hok'⟩ := hok
      obtain ⟨hp', hd⟩ := advance_lazyAt o docs tfs hv n p hp hfull
      simp only [BlockPostings.runOps, specBlockOps]
      rw [hd, ih _ _ hp' hok']
    | seek t =>
      obtain ⟨ht, hok'⟩ := hok
      obtain ⟨n', _, hp', _, _, _, _, hdoc, hland⟩ := seek_lazyAt o docs tfs hv hT t ht n p hp
      simp only [BlockPostings.runOps, specBlockOps]
      rw [← hland, hdoc, ih _ _ hp' (by rw [hland]; exact hok')]

end TantivyModel.Postings
