import TantivyModel.Proofs.GrammarCharsNested
namespace TantivyModel.Grammar.Chars
open TantivyModel.Grammar

/-! ## words and phrases followed by `^` (the start of a boost) -/

theorem nph_hat (x : Str) : NPH ('^' :: x) := by
  intro c r h
  rw [← (List.cons.inj h).1]; decide

theorem wstop_hat (x : Str) : WStop ('^' :: x) :=
  Or.inr ⟨'^', x, rfl, Or.inr (Or.inr (Or.inr rfl))⟩

theorem binaryOperand_hat (w x : Str) (hw : PlainWord w) :
    binaryOperand (w ++ '^' :: x) = (none, w ++ '^' :: x) := by
  have key : ∀ ks ∈ keywords, tag (ks ++ [' ']) (w ++ '^' :: x) = none := by
    intro ks hks
    unfold tag
    split
    · rename_i hp
      exact absurd (prefix_space_false' ks w _ (keyword_plain ks hks) hw.all (nph_hat x) hp)
        (plainWord_ne_keyword w ks hw hks)
    · rfl
  have h1 := key ['A', 'N', 'D'] (by simp [keywords])
  have h2 := key ['O', 'R'] (by simp [keywords])
  simp only [List.cons_append, List.nil_append] at h1 h2
  simp [binaryOperand, h1, h2]

theorem fieldRest_hat (x : Str) : fieldRest ('^' :: x) = ([], '^' :: x) := by
  unfold fieldRest
  split
  · rename_i heq; cases heq
  · rename_i heq; exact absurd (List.cons.inj heq).1 (by decide)
  · rename_i heq; exact absurd (List.cons.inj heq).1 (by decide)
  · rename_i heq
    obtain ⟨rfl, rfl⟩ := List.cons.inj heq
    simp [specialChars]

theorem fieldRest_plain_hat (w x : Str) (hw : ∀ d ∈ w, plain d = true) :
    fieldRest (w ++ '^' :: x) = (w, '^' :: x) := by
  induction w with
  | nil => simpa using fieldRest_hat x
  | cons d rest ih =>
    have hd := hw d (by simp)
    have hb : d ≠ '\\' := plain_ne d '\\' hd (by decide)
    have hs : d ∉ specialChars := by simpa using (plain_not_special d hd).1
    have ih' := ih (fun e he => hw e (List.mem_cons_of_mem _ he))
    show fieldRest (d :: (rest ++ '^' :: x)) = (d :: rest, '^' :: x)
    unfold fieldRest
    split
    · rename_i heq; cases heq
    · rename_i heq; exact absurd (List.cons.inj heq).1 hb
    · rename_i heq; exact absurd (List.cons.inj heq).1 hb
    · rename_i heq
      obtain ⟨rfl, rfl⟩ := List.cons.inj heq
      simp [hs, ih']

section
variable (c : Char) (r x : Str) (h : PlainWord (c :: r))
include h

theorem fieldName_hat : fieldName (c :: (r ++ '^' :: x)) = none := by
  have hc := pw_head c r h
  have hs : c ∉ specialChars := by simpa using (plain_not_special c hc).1
  have hm : c ≠ '-' := plain_ne c '-' hc (by decide)
  have hfr := fieldRest_plain_hat r x (pw_tail c r h)
  simp [fieldName, hs, hm, hfr, skip0, List.dropWhile, isNomSpace]

theorem set_hat : set (c :: (r ++ '^' :: x)) = none := by
  have hc := pw_head c r h
  have hsk : skip0 (c :: (r ++ '^' :: x)) = c :: (r ++ '^' :: x) := by
    simp [skip0, List.dropWhile, (plain_not_space c hc).2]
  unfold set
  rw [hsk]
  cases htag : tag ['I', 'N'] (c :: (r ++ '^' :: x)) with
  | none => rfl
  | some rest =>
    have := tag_plain_skip1' ['I', 'N'] (c :: r) ('^' :: x) rest (by decide) h.all h.ne
      (plainWord_ne_keyword _ _ h (by simp [keywords])) (nph_hat x) (by simpa using htag)
    simp [this]

theorem exists_hat : exists_ (c :: (r ++ '^' :: x)) = none := by
  have hc := pw_head c r h
  have hne : c ≠ '*' := plain_ne c '*' hc (by decide)
  have hsk : skip0 (c :: (r ++ '^' :: x)) = c :: (r ++ '^' :: x) := by
    simp [skip0, List.dropWhile, (plain_not_space c hc).2]
  unfold exists_
  rw [hsk]
  split
  · rename_i heq; exact absurd (List.cons.inj heq).1 hne
  · rfl

theorem regex_hat : regex (c :: (r ++ '^' :: x)) = none := by
  have hne : c ≠ '/' := plain_ne c '/' (pw_head c r h) (by decide)
  unfold regex
  split
  · rename_i heq; exact absurd (List.cons.inj heq).1 hne
  · rfl

theorem slopOrPrefix_hat_nil : slopOrPrefix ('^' :: x) = ((0, false), '^' :: x) := by
  unfold slopOrPrefix
  split
  · rename_i heq; exact absurd (List.cons.inj heq).1 (by decide)
  · rename_i heq; exact absurd (List.cons.inj heq).1 (by decide)
  · rfl

theorem plainLiteral_hat (g : Bool) :
    plainLiteral g (c :: (r ++ '^' :: x)) = .ok (.leaf (.literal none (c :: r) .none 0 false)) ('^' :: x) := by
  have hst := simpleTerm_stop c r ('^' :: x) h (wstop_hat x)
  have hsl := slopOrPrefix_hat_nil c r x h
  have htp : termOrPhrase (c :: (r ++ '^' :: x)) = some (.literal none (c :: r) .none 0 false, '^' :: x) := by
    simp [termOrPhrase, hst, hsl]
  simp [plainLiteral, fieldName_hat c r x h, range_plain_head c _ (pw_head c r h), set_hat c r x h,
    exists_hat c r x h, regex_hat c r x h, htp, setField]

theorem pLeaf_hat (g : Bool) (f : Nat) :
    pLeaf g (f + 1) (c :: (r ++ '^' :: x)) = .ok (.leaf (.literal none (c :: r) .none 0 false)) ('^' :: x) := by
  have hc := pw_head c r h
  have h1 : c ≠ '(' := plain_ne c '(' hc (by decide)
  have h2 : c ≠ '*' := plain_ne c '*' hc (by decide)
  unfold pLeaf
  cases htag : tag ['N', 'O', 'T'] (c :: (r ++ '^' :: x)) with
  | none => simp [h1, h2, R.orElse, plainLiteral_hat c r x h g]
  | some rest =>
    have := tag_plain_skip1' ['N', 'O', 'T'] (c :: r) ('^' :: x) rest (by decide) h.all h.ne
      (plainWord_ne_keyword _ _ h (by simp [keywords])) (nph_hat x) (by simpa using htag)
    simp [h1, h2, R.orElse, this, plainLiteral_hat c r x h g]

end

theorem slopOrPrefix_sfx_hat (s : Sfx) (hs : WFSfx s) (x : Str) :
    slopOrPrefix (s.text ++ '^' :: x) = ((s.slopVal, s.isPfx), '^' :: x) := by
  cases s with
  | none =>
    show slopOrPrefix ('^' :: x) = ((0, false), '^' :: x)
    unfold slopOrPrefix
    split
    · rename_i heq; exact absurd (List.cons.inj heq).1 (by decide)
    · rename_i heq; exact absurd (List.cons.inj heq).1 (by decide)
    · rfl
  | pfx =>
    show slopOrPrefix ('*' :: '^' :: x) = ((0, true), '^' :: x)
    unfold slopOrPrefix
    split
    · rename_i heq; obtain ⟨_, rfl⟩ := List.cons.inj heq; rfl
    · rename_i heq; exact absurd (List.cons.inj heq).1 (by decide)
    · rename_i h1 _; exact absurd rfl (h1 ('^' :: x))
  | slop ds =>
    obtain ⟨hne, hd, hlt⟩ := hs
    show slopOrPrefix ('~' :: (ds ++ '^' :: x)) = ((natOfDigits ds, false), '^' :: x)
    have htd : takeDigits (ds ++ '^' :: x) = (ds, '^' :: x) := by
      have key : ∀ l : Str, (∀ d ∈ l, d.isDigit = true) → takeDigits (l ++ '^' :: x) = (l, '^' :: x) := by
        intro l hl
        induction l with
        | nil => simp [takeDigits, List.takeWhile, List.dropWhile, Char.isDigit]
        | cons d rest ih =>
          have h1 := hl d (by simp)
          have ih' := ih (fun e he => hl e (List.mem_cons_of_mem _ he))
          simp only [takeDigits, Prod.mk.injEq] at ih' ⊢
          simp [List.takeWhile, List.dropWhile, h1, ih'.1, ih'.2]
      exact key ds hd
    generalize hy : ds ++ '^' :: x = y at htd
    unfold slopOrPrefix
    split
    · rename_i heq; exact absurd (List.cons.inj heq).1 (by decide)
    · rename_i heq
      obtain ⟨_, rfl⟩ := List.cons.inj heq
      have he : ds.isEmpty = false := by cases ds with | nil => exact absurd rfl hne | cons _ _ => rfl
      simp [htd, he, hlt]
    · rename_i _ h2; exact absurd rfl (h2 y)

end TantivyModel.Grammar.Chars
