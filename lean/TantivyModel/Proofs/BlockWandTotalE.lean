import TantivyModel.Proofs.BlockWandTotalD
/-!
Part E: `align_scorers` keeps the invariant; when it gives up (a scorer jumped over the pivot) the
array is sorted again and a posting was dropped.
-/
namespace TantivyModel.BlockWand
open List TantivyModel.Wand

theorem sorted_without {arr : List S} (hs : SortedByDoc arr) (i : Nat) :
    SortedByDoc (arr.take i ++ arr.drop (i + 1)) := by
  unfold SortedByDoc at hs ⊢
  have : (arr.take i ++ arr.drop (i + 1)).Sublist arr := by
    conv => rhs; rw [← take_append_drop i arr]
    exact Sublist.append_left (drop_sublist_drop_left arr (Nat.le_succ i)) _
  exact Pairwise.sublist this hs

/-- removing `arr[i]` with `swap_remove` and bubbling the swapped-in last element to its place -/
theorem swapRemove_restore_sorted (arr : List S) (i : Nat) (hi : i < arr.length)
    (hs : SortedByDoc (arr.take i ++ arr.drop (i + 1))) : SortedByDoc (restoreOrdering (swapRemove arr i) i) := by
  have hne : arr ≠ [] := by intro h; rw [h] at hi; simp at hi
  unfold swapRemove
  rw [getLast?_eq_some_getLast hne]
  simp only
  split
  · rename_i hlt2
    have hdne : arr.drop (i + 1) ≠ [] := by
      intro h
      have := congrArg length h
      simp at this; omega
    have hlast : (arr.drop (i + 1)).getLast hdne = arr.getLast hne := by rw [getLast_drop]
    have hd : arr.drop (i + 1) = (arr.drop (i + 1)).dropLast ++ [arr.getLast hne] := by
      rw [← hlast]; exact (dropLast_concat_getLast hdne).symm
    rw [hd] at hs
    generalize (arr.drop (i + 1)).dropLast = dl at hs ⊢
    generalize arr.getLast hne = last at hs ⊢
    have hlenA : (arr.take i).length = i := by rw [length_take]; omega
    generalize arr.take i = A at hs hlenA ⊢
    unfold SortedByDoc at hs
    rw [← append_assoc, pairwise_append] at hs
    apply restoreOrdering_sorted (A ++ last :: dl) i last
    · rw [getElem?_append_right (by omega), hlenA]; simp
    · rw [take_left' hlenA]
      have : (A ++ last :: dl).drop (i + 1) = dl := by
        have : A ++ last :: dl = (A ++ [last]) ++ dl := by simp
        rw [this, drop_left' (by simp; omega)]
      rw [this]
      exact hs.1
    · intro y hy
      rw [take_left' hlenA] at hy
      exact hs.2.2 y (mem_append_left _ hy) last (by simp)
  · rename_i hge
    have hlen : arr.dropLast.length = i := by rw [length_dropLast]; omega
    unfold restoreOrdering
    rw [getElem?_eq_none (by omega)]
    have hd0 : arr.drop (i + 1) = [] := by rw [drop_eq_nil_iff]; omega
    rw [hd0, append_nil] at hs
    have : arr.dropLast = arr.take i := by
      rw [dropLast_eq_take]; congr 1; omega
    rw [this]; exact hs

theorem sorted_last_ge {arr : List S} (hs : SortedByDoc arr) (i : Nat) (y : S) (hy : y ∈ arr.drop (i + 1))
    (x : S) (hx : arr[i]? = some x) : x.doc ≤ y.doc := by
  unfold SortedByDoc at hs
  rw [split_at hx, pairwise_append, pairwise_cons] at hs
  exact hs.2.1.1 y hy

/-- setting `arr[i]` to something between its old value and everything behind it keeps the order -/
theorem set_sorted {arr : List S} (hs : SortedByDoc arr) (i : Nat) (s s' : S) (hi : arr[i]? = some s)
    (hle : s.doc ≤ s'.doc) (hfol : ∀ y, y ∈ arr.drop (i + 1) → s'.doc ≤ y.doc) : SortedByDoc (arr.set i s') := by
  rw [set_eq hi s']
  unfold SortedByDoc at hs ⊢
  rw [split_at hi, pairwise_append, pairwise_cons] at hs
  rw [pairwise_append, pairwise_cons]
  refine ⟨hs.1, ⟨hfol, hs.2.1.2⟩, ?_⟩
  intro a ha b hb
  rcases mem_cons.mp hb with rfl | hb
  · have := hs.2.2 a ha s (by simp); omega
  · exact hs.2.2 a ha b (by simp [hb])

theorem seek_self (s : S) (t : Nat) (h : t ≤ s.doc) : s.seek t = s := by
  unfold TS.seek; rw [if_pos h]

theorem align_total (pd : Nat) (hpd : pd < T) : ∀ (i : Nat) (arr : List S), i ≤ arr.length →
    SortedByDoc arr → (∀ x, x ∈ arr → WFC x) → (∀ x, x ∈ arr → JOK pd x) →
    (∀ y, y ∈ arr.take i → y.doc ≤ pd) → (∀ y, y ∈ arr.drop i → pd ≤ y.doc) →
    ∀ arr2 b, alignScorers arr pd i = (arr2, b) →
      (∀ x, x ∈ arr2 → WFC x) ∧ (∀ x, x ∈ arr2 → JOK pd x) ∧ (∀ d, massLe arr2 d ≤ massLe arr d) ∧
        lenSum arr2 ≤ lenSum arr ∧ (b = false → SortedByDoc arr2 ∧ lenSum arr2 < lenSum arr) ∧
        (b = true → arr2.length = arr.length ∧ (∀ k, k < i → ∃ s, arr2[k]? = some s ∧ s.doc = pd) ∧
          arr2.drop i = arr.drop i)
  | 0, arr, _, _, hwf, hj, _, _, arr2, b, h => by
    simp only [alignScorers, Prod.mk.injEq] at h
    obtain ⟨rfl, rfl⟩ := h
    exact ⟨hwf, hj, fun _ => Nat.le_refl _, Nat.le_refl _, (fun hb => by cases hb),
      fun _ => ⟨rfl, fun k hk => absurd hk (Nat.not_lt_zero k), rfl⟩⟩
  | i + 1, arr, hi, hs, hwf, hj, htake, hdrop, arr2, b, h => by
    have hlt : i < arr.length := by omega
    unfold alignScorers at h
    rw [getElem?_eq_getElem hlt] at h
    simp only at h
    have hget : arr[i]? = some arr[i] := getElem?_eq_getElem hlt
    generalize arr[i] = s at h hget
    have hsmem : s ∈ arr := mem_of_getElem? hget
    have hsw := hwf s hsmem
    have hsdoc : s.doc ≤ pd := htake s (by
      rw [mem_take_iff_getElem]
      exact ⟨i, by omega, by rw [getElem?_eq_getElem hlt] at hget; exact Option.some.inj hget⟩)
    have hsskip : s.skip ≤ s.blockIdx pd := by
      have := hj s hsmem
      unfold JOK at this
      rwa [Nat.max_eq_right hsdoc] at this
    -- the sought scorer
    have h1 : s.doc ≤ (s.seek pd).doc := seek_doc_ge s hsw pd
    have h2 : pd ≤ (s.seek pd).doc := seek_doc_ge_target s hsw pd (by omega)
    have hwf' : ∀ x, x ∈ arr.set i (s.seek pd) → WFC x := by
      intro x hx
      rcases mem_of_set hx with rfl | hx
      · exact hsw.seek pd
      · exact hwf x hx
    have hj' : ∀ x, x ∈ arr.set i (s.seek pd) → JOK pd x := by
      intro x hx
      rcases mem_of_set hx with rfl | hx
      · unfold JOK
        rw [seek_blockIdx]
        exact Nat.le_trans (seek_skip_le s pd hsskip) (blockIdx_mono s (by omega))
      · exact hj x hx
    have hmass' : ∀ d, massLe (arr.set i (s.seek pd)) d ≤ massLe arr d :=
      fun d => massLe_set_le hget _ (seek_maxScore s pd) h1 d
    have hlen' := lenSum_set hget (s.seek pd)
    have hlenle := seek_len_le s hsw pd
    split at h
    · -- jumped over the pivot
      rename_i hne
      simp only [Prod.mk.injEq] at h
      obtain ⟨rfl, rfl⟩ := h
      have hslt : s.doc < pd := by
        rcases Nat.lt_or_ge s.doc pd with hlt' | hge
        · exact hlt'
        · exfalso; apply hne; rw [seek_self s pd hge]; omega
      have hstrict := seek_len_lt s hsw pd hslt (by omega)
      have hwithout : SortedByDoc ((arr.set i (s.seek pd)).take i ++ (arr.set i (s.seek pd)).drop (i + 1)) := by
        rw [take_set_of_le (Nat.le_refl _), drop_set_of_lt (by omega)]
        exact sorted_without hs i
      split
      · -- exhausted: swap_remove, then restore
        have hget' : (arr.set i (s.seek pd))[i]? = some (s.seek pd) := by
          rw [getElem?_set_self (by simpa using hlt)]
        have hsub : ∀ x, x ∈ restoreOrdering (swapRemove (arr.set i (s.seek pd)) i) i → x ∈ arr.set i (s.seek pd) :=
          fun x hx => mem_swapRemove ((restoreOrdering_perm _ _).subset hx)
        have hl2 := lenSum_swapRemove hget'
        refine ⟨fun x hx => hwf' x (hsub x hx), fun x hx => hj' x (hsub x hx), ?_, ?_, (fun _ => ⟨?_, ?_⟩), fun hb => by cases hb⟩
        · intro d
          rw [massLe_perm (restoreOrdering_perm _ _) d]
          exact Nat.le_trans (massLe_swapRemove_le hget' d) (hmass' d)
        · rw [lenSum_perm (restoreOrdering_perm _ _)]; omega
        · exact swapRemove_restore_sorted _ i (by simpa using hlt) hwithout
        · rw [lenSum_perm (restoreOrdering_perm _ _)]; omega
      · have hsub : ∀ x, x ∈ restoreOrdering (arr.set i (s.seek pd)) i → x ∈ arr.set i (s.seek pd) :=
          fun x hx => (restoreOrdering_perm _ _).subset hx
        refine ⟨fun x hx => hwf' x (hsub x hx), fun x hx => hj' x (hsub x hx), ?_, ?_, (fun _ => ⟨?_, ?_⟩), fun hb => by cases hb⟩
        · intro d; rw [massLe_perm (restoreOrdering_perm _ _) d]; exact hmass' d
        · rw [lenSum_perm (restoreOrdering_perm _ _)]; omega
        · exact set_restore_sorted arr hs i s _ hget h1
        · rw [lenSum_perm (restoreOrdering_perm _ _)]; omega
    · rename_i heq
      simp only [ne_eq, Decidable.not_not] at heq
      have hs' : SortedByDoc (arr.set i (s.seek pd)) :=
        set_sorted hs i s _ hget h1 fun y hy => by
          rw [heq]; exact hdrop y hy
      obtain ⟨r1, r2, r3, r4, r5, r6⟩ := align_total pd hpd i (arr.set i (s.seek pd)) (by simp; omega) hs' hwf' hj'
        (fun y hy => by
          rw [take_set_of_le (Nat.le_refl _)] at hy
          exact htake y ((take_sublist_take_left (Nat.le_succ i)).subset hy))
        (fun y hy => by
          rw [set_eq hget, drop_left' (by rw [length_take]; omega)] at hy
          rcases mem_cons.mp hy with rfl | hy
          · omega
          · exact hdrop y hy)
        arr2 b h
      refine ⟨r1, r2, fun d => Nat.le_trans (r3 d) (hmass' d), by omega, (fun hb => ?_), fun hb => ?_⟩
      · obtain ⟨q1, q2⟩ := r5 hb
        exact ⟨q1, by omega⟩
      · obtain ⟨hlen, hpre, hdr⟩ := r6 hb
        have hget' : (arr.set i (s.seek pd))[i]? = some (s.seek pd) := by
          rw [getElem?_set_self (by simpa using hlt)]
        refine ⟨by rw [hlen]; simp, ?_, ?_⟩
        · intro k hk
          rcases Nat.lt_or_ge k i with hki | hki
          · exact hpre k hki
          · have hk' : k = i := by omega
            subst hk'
            refine ⟨s.seek pd, ?_, heq⟩
            have : arr2[k]? = (arr2.drop k)[0]? := by simp
            rw [this, hdr]; simp [hget']
        · have : arr2.drop (i + 1) = (arr2.drop i).drop 1 := by simp
          rw [this, hdr]
          simp only [drop_drop]
          exact drop_set_of_lt (by omega)

end TantivyModel.BlockWand
