import TantivyModel.Proofs.AggKeyOrder
/-!
C14 helper lemmas: composite eviction ANYWHERE in the request tree is invisible.

`x` and `y` are observationally equal when `finalize (merge x z) = finalize (merge y z)` for every
(well-formed) `z`; by associativity of `merge` this is a right congruence, so it survives any fold.
`evict r x` is observationally equal to `x` (induction over the request tree): the final result of a
bucket node only depends on the hull and on the pointwise view `(doc_count, finalize sub)` of its
map, and a composite page only on the trimmed map.  `WS` is the well-formedness the page algebra
needs (every present key inside the hull, recursively).  No Mathlib.
-/
namespace TantivyModel.Agg

/-! ### views -/

section view
variable {V W : Type}

theorem opt_view_congr {β : Type} (g : V → W) (x y : Option (Nat × V))
    (hv : x.map (fun e => (e.1, g e.2)) = y.map (fun e => (e.1, g e.2))) (F : Nat → W → β) :
    x.map (fun e => F e.1 (g e.2)) = y.map (fun e => F e.1 (g e.2)) := by
  have h1 : ∀ o : Option (Nat × V), o.map (fun e => F e.1 (g e.2))
      = (o.map (fun e => (e.1, g e.2))).map (fun c => F c.1 c.2) := by
    intro o; cases o <;> rfl
  rw [h1 x, h1 y, hv]

theorem match_view_congr {β : Type} (g : V → W) (x y : Option (Nat × V))
    (hv : x.map (fun e => (e.1, g e.2)) = y.map (fun e => (e.1, g e.2))) (F : Nat → W → β) (d : β) :
    (match (generalizing := false) x with | some e => F e.1 (g e.2) | Option.none => d)
      = (match (generalizing := false) y with | some e => F e.1 (g e.2) | Option.none => d) := by
  have h1 : ∀ o : Option (Nat × V), (match (generalizing := false) o with | some e => F e.1 (g e.2) | Option.none => d)
      = (o.map (fun e => F e.1 (g e.2))).getD d := by
    intro o; cases o <;> rfl
  rw [h1 x, h1 y, opt_view_congr g x y hv F]

/-- the list of shown entries only depends on the hull and the view -/
theorem entries_map_congr (g : V → W) (A B : KMap (Nat × V)) (hh : A.hull = B.hull)
    (hv : ∀ k, (A.get k).map (fun e => (e.1, g e.2)) = (B.get k).map (fun e => (e.1, g e.2))) :
    A.entries.map (fun e => ((e.1, e.2.1, g e.2.2) : Int × Nat × W))
      = B.entries.map (fun e => ((e.1, e.2.1, g e.2.2) : Int × Nat × W)) := by
  unfold KMap.entries
  rw [List.map_filterMap, List.map_filterMap, hh]
  congr 1
  funext k
  have h1 : ∀ o : Option (Nat × V), (o.map (fun v => (k, v))).map (fun e => ((e.1, e.2.1, g e.2.2) : Int × Nat × W))
      = o.map (fun e => ((k, e.1, g e.2) : Int × Nat × W)) := by
    intro o; cases o <;> rfl
  rw [h1, h1]
  exact opt_view_congr g _ _ (hv k) (fun c r => ((k, c, r) : Int × Nat × W))

/-- merging an evicted map: the view is that of merging the original one -/
theorem view_merge_evict (f : V → V → V) (g : V → W) (E : V → V) (P : V → Prop)
    (hE : ∀ v w, P v → P w → g (f (E v) w) = g (f v w)) (hE0 : ∀ v, P v → g (E v) = g v)
    (x z : KMap (Nat × V)) (hx : ∀ k e, x.get k = some e → P e.2) (hz : ∀ k e, z.get k = some e → P e.2)
    (k : Int) :
    ((KMap.merge (entryMerge f) (x.mapVals E) z).get k).map (fun e => (e.1, g e.2))
      = ((KMap.merge (entryMerge f) x z).get k).map (fun e => (e.1, g e.2)) := by
  show (optMerge (entryMerge f) ((x.get k).map (fun e => (e.1, E e.2))) (z.get k)).map _
    = (optMerge (entryMerge f) (x.get k) (z.get k)).map _
  cases hxk : x.get k with
  | none => rfl
  | some a =>
    cases hzk : z.get k with
    | none =>
      show some (a.1, g (E a.2)) = some (a.1, g a.2)
      rw [hE0 a.2 (hx k a hxk)]
    | some b =>
      show some (a.1 + b.1, g (f (E a.2) b.2)) = some (a.1 + b.1, g (f a.2 b.2))
      rw [hE a.2 b.2 (hx k a hxk) (hz k b hzk)]

/-! ### well-formed maps -/

theorem supp_mapVals {m : KMap (Nat × V)} (hs : Supp m) (g : V → V) : Supp (m.mapVals g) := by
  intro k e hg
  change (m.get k).map (fun e => (e.1, g e.2)) = some e at hg
  cases hm : m.get k with
  | none => rw [hm] at hg; cases hg
  | some a => exact hs k a hm

theorem vals_mapVals {m : KMap (Nat × V)} (P : V → Prop) (g : V → V) (hg : ∀ v, P v → P (g v))
    (hm : ∀ k e, m.get k = some e → P e.2) : ∀ k e, (m.mapVals g).get k = some e → P e.2 := by
  intro k e he
  change (m.get k).map (fun e => (e.1, g e.2)) = some e at he
  cases hmk : m.get k with
  | none => rw [hmk] at he; cases he
  | some a =>
    rw [hmk] at he
    have h2 : some (a.1, g a.2) = some e := he
    obtain rfl := Option.some.inj h2
    exact hg a.2 (hm k a hmk)

theorem vals_restrict {m : KMap (Nat × V)} (P : V → Prop) (keep : List Int)
    (hm : ∀ k e, m.get k = some e → P e.2) : ∀ k e, (m.restrict keep).get k = some e → P e.2 := by
  intro k e he
  rw [restrict_get] at he
  split at he
  · exact hm k e he
  · cases he

theorem vals_merge (f : V → V → V) (P : V → Prop) (hf : ∀ v w, P v → P w → P (f v w))
    {a b : KMap (Nat × V)} (ha : ∀ k e, a.get k = some e → P e.2) (hb : ∀ k e, b.get k = some e → P e.2) :
    ∀ k e, (KMap.merge (entryMerge f) a b).get k = some e → P e.2 := by
  intro k e hg
  change optMerge (entryMerge f) (a.get k) (b.get k) = some e at hg
  cases hga : a.get k with
  | none =>
    rw [hga] at hg
    have hb' : b.get k = some e := by
      cases hgb : b.get k with
      | none => rw [hgb] at hg; cases hg
      | some y => rw [hgb] at hg; exact hg
    exact hb k e hb'
  | some x =>
    cases hgb : b.get k with
    | none =>
      rw [hga, hgb] at hg
      have h2 : some x = some e := hg
      obtain rfl := Option.some.inj h2
      exact ha k x hga
    | some y =>
      rw [hga, hgb] at hg
      have h2 : some (entryMerge f x y) = some e := hg
      obtain rfl := Option.some.inj h2
      exact hf x.2 y.2 (ha k x hga) (hb k y hgb)

theorem supp_single (k : Int) (v : Nat × V) : Supp (KMap.single k v) := by
  intro j e hg
  change (if j = k then some v else Option.none) = some e at hg
  split at hg
  · rename_i h
    show k ≤ j ∧ j ≤ k
    omega
  · cases hg

theorem vals_single (P : V → Prop) (k : Int) (c : Nat) (v : V) (hv : P v) :
    ∀ j e, (KMap.single k (c, v)).get j = some e → P e.2 := by
  intro j e hg
  change (if j = k then some (c, v) else Option.none) = some e at hg
  split at hg
  · obtain rfl := Option.some.inj hg; exact hv
  · cases hg

theorem bump_ws (f : V → V → V) (P : V → Prop) (hf : ∀ v w, P v → P w → P (f v w)) (v : V) (hv : P v) :
    ∀ (ks : List Int) (acc : KMap (Nat × V)), Supp acc → (∀ k e, acc.get k = some e → P e.2) →
      Supp (ks.foldl (fun m k => KMap.merge (entryMerge f) m (KMap.single k (1, v))) acc)
        ∧ ∀ k e, (ks.foldl (fun m k => KMap.merge (entryMerge f) m (KMap.single k (1, v))) acc).get k = some e → P e.2
  | [], _, hs, hp => ⟨hs, hp⟩
  | k :: ks, acc, hs, hp => by
    simp only [List.foldl_cons]
    exact bump_ws f P hf v hv ks _ (supp_merge _ hs (supp_single k (1, v)))
      (vals_merge f P hf hp (vals_single P k 1 v hv))

end view

/-! ### well-formed trees -/

section ws
variable {M : Type} [AddOp M]

def WS : (r : Req) → Inter M r → Prop
  | .none, _ => True
  | .both a b, x => WS a x.1 ∧ WS b x.2
  | .metric _ _, _ => True
  | .terms _ sub, x => Supp x.map ∧ ∀ k e, x.map.get k = some e → WS sub e.2
  | .hist _ sub, x => Supp x ∧ ∀ k e, x.get k = some e → WS sub e.2
  | .range _ _ sub, x => Supp x ∧ ∀ k e, x.get k = some e → WS sub e.2
  | .filter _ _ sub, x => WS sub x.2
  | .topHits _ _ _ _, _ => True
  | .composite _ _ _ sub, x => Supp x ∧ ∀ k e, x.get k = some e → WS sub e.2

theorem ws_empty : ∀ (r : Req), WS (M := M) r (empty r)
  | .none => trivial
  | .both a b => ⟨ws_empty a, ws_empty b⟩
  | .metric _ _ => trivial
  | .terms _ _ => ⟨supp_empty, fun _ _ h => by cases h⟩
  | .hist _ _ => ⟨supp_empty, fun _ _ h => by cases h⟩
  | .range _ _ _ => ⟨supp_empty, fun _ _ h => by cases h⟩
  | .filter _ _ sub => ws_empty sub
  | .topHits _ _ _ _ => trivial
  | .composite _ _ _ _ => ⟨supp_empty, fun _ _ h => by cases h⟩

theorem ws_merge : ∀ (r : Req) (x y : Inter M r), WS r x → WS r y → WS r (merge r x y)
  | .none, _, _, _, _ => trivial
  | .both a b, x, y, hx, hy => ⟨ws_merge a x.1 y.1 hx.1 hy.1, ws_merge b x.2 y.2 hx.2 hy.2⟩
  | .metric _ _, _, _, _, _ => trivial
  | .terms _ sub, x, y, hx, hy =>
    ⟨supp_merge _ hx.1 hy.1, vals_merge (merge sub) (WS sub) (ws_merge sub) hx.2 hy.2⟩
  | .hist _ sub, x, y, hx, hy =>
    ⟨supp_merge _ hx.1 hy.1, vals_merge (merge sub) (WS sub) (ws_merge sub) hx.2 hy.2⟩
  | .range _ _ sub, x, y, hx, hy =>
    ⟨supp_merge _ hx.1 hy.1, vals_merge (merge sub) (WS sub) (ws_merge sub) hx.2 hy.2⟩
  | .filter _ _ sub, x, y, hx, hy => ws_merge sub x.2 y.2 hx hy
  | .topHits _ _ _ _, _, _, _, _ => trivial
  | .composite _ _ _ sub, x, y, hx, hy =>
    ⟨supp_merge _ hx.1 hy.1, vals_merge (merge sub) (WS sub) (ws_merge sub) hx.2 hy.2⟩

theorem ws_collectDoc : ∀ (r : Req) (d : Doc), WS (M := M) r (collectDoc r d)
  | .none, _ => trivial
  | .both a b, d => ⟨ws_collectDoc a d, ws_collectDoc b d⟩
  | .metric _ _, _ => trivial
  | .terms p sub, d =>
    bump_ws (merge sub) (WS sub) (ws_merge sub) _ (ws_collectDoc sub d) (termKeys p d) KMap.empty supp_empty
      (fun _ _ h => by cases h)
  | .hist p sub, d =>
    bump_ws (merge sub) (WS sub) (ws_merge sub) _ (ws_collectDoc sub d) (histPoss p d) KMap.empty supp_empty
      (fun _ _ h => by cases h)
  | .range f cuts sub, d =>
    bump_ws (merge sub) (WS sub) (ws_merge sub) _ (ws_collectDoc sub d) (rangeIdxs f cuts d) KMap.empty supp_empty
      (fun _ _ h => by cases h)
  | .filter f v sub, d => by
    show WS sub (if filterMatch f v d then (1, collectDoc sub d) else (0, empty sub) : Nat × Inter M sub).2
    split
    · exact ws_collectDoc sub d
    · exact ws_empty sub
  | .topHits _ _ _ _, _ => trivial
  | .composite srcs _ _ sub, d =>
    bump_ws (merge sub) (WS sub) (ws_merge sub) _ (ws_collectDoc sub d) (compKeys srcs d) KMap.empty supp_empty
      (fun _ _ h => by cases h)

theorem ws_foldl (r : Req) : ∀ (ms : List (Inter M r)) (acc : Inter M r), (∀ m ∈ ms, WS r m) → WS r acc →
    WS r (ms.foldl (merge r) acc)
  | [], _, _, h => h
  | m :: ms, acc, hms, h => by
    simp only [List.foldl_cons]
    exact ws_foldl r ms _ (fun x hx => hms x (List.mem_cons_of_mem _ hx))
      (ws_merge r _ _ h (hms m List.mem_cons_self))

theorem ws_collect (r : Req) (docs : List Doc) : WS (M := M) r (collect r docs) := by
  unfold collect
  have : ∀ (ds : List Doc) (acc : Inter M r), WS r acc →
      WS r (ds.foldl (fun acc d => merge r acc (collectDoc r d)) acc) := by
    intro ds
    induction ds with
    | nil => intro acc h; exact h
    | cons d ds ih =>
      intro acc h
      simp only [List.foldl_cons]
      exact ih _ (ws_merge r _ _ h (ws_collectDoc r d))
  exact this docs _ (ws_empty r)

theorem ws_evict : ∀ (r : Req) (x : Inter M r), WS r x → WS r (evict r x)
  | .none, _, _ => trivial
  | .both a b, x, hx => ⟨ws_evict a x.1 hx.1, ws_evict b x.2 hx.2⟩
  | .metric _ _, _, _ => trivial
  | .terms _ sub, x, hx =>
    ⟨supp_mapVals hx.1 _, vals_mapVals (WS sub) (evict sub) (ws_evict sub) hx.2⟩
  | .hist _ sub, x, hx =>
    ⟨supp_mapVals hx.1 _, vals_mapVals (WS sub) (evict sub) (ws_evict sub) hx.2⟩
  | .range _ _ sub, x, hx =>
    ⟨supp_mapVals hx.1 _, vals_mapVals (WS sub) (evict sub) (ws_evict sub) hx.2⟩
  | .filter _ _ sub, x, hx => ws_evict sub x.2 hx
  | .topHits _ _ _ _, _, _ => trivial
  | .composite _ size after sub, x, hx =>
    ⟨supp_trim (supp_mapVals hx.1 _) size after,
      vals_restrict (WS sub) _ (vals_mapVals (WS sub) (evict sub) (ws_evict sub) hx.2)⟩

theorem ws_harvest : ∀ (r : Req) (x : Inter M r), WS r x → WS r (harvest r x)
  | .none, _, _ => trivial
  | .both a b, x, hx => ⟨ws_harvest a x.1 hx.1, ws_harvest b x.2 hx.2⟩
  | .metric _ _, _, _ => trivial
  | .terms p sub, x, hx => by
    have hs : Supp (termsCut p x).map := termsCut_supp p x hx.1
    have hv : ∀ k e, (termsCut p x).map.get k = some e → WS sub e.2 := by
      by_cases hl : x.map.entries.length ≤ p.segSize
      · rw [termsCut_small p x hl]; exact hx.2
      · rw [termsCut_big p x hl]; exact vals_restrict (WS sub) _ hx.2
    exact ⟨supp_mapVals hs _, vals_mapVals (WS sub) (harvest sub) (ws_harvest sub) hv⟩
  | .hist _ sub, x, hx =>
    ⟨supp_mapVals hx.1 _, vals_mapVals (WS sub) (harvest sub) (ws_harvest sub) hx.2⟩
  | .range _ _ sub, x, hx =>
    ⟨supp_mapVals hx.1 _, vals_mapVals (WS sub) (harvest sub) (ws_harvest sub) hx.2⟩
  | .filter _ _ sub, x, hx => ws_harvest sub x.2 hx
  | .topHits _ _ _ _, _, _ => trivial
  | .composite _ _ _ sub, x, hx =>
    ⟨supp_mapVals hx.1 _, vals_mapVals (WS sub) (harvest sub) (ws_harvest sub) hx.2⟩

end ws

/-! ### the observational theorem -/

section obs
variable {M : Type} [AddOp M] [LawfulAddOp M]

/-- one-sided: trimming the left operand is invisible in the trimmed merge -/
theorem trim_merge_left {V : Type} (f : (Nat × V) → (Nat × V) → (Nat × V)) (size : Nat) (after : Option Int)
    (a z : KMap (Nat × V)) (ha : Supp a) (hz : Supp z) :
    compTrim size after (KMap.merge f (compTrim size after a) z) = compTrim size after (KMap.merge f a z) := by
  have h1 := trim_merge f size after (compTrim size after a) z (supp_trim ha size after) hz
  have h2 := trim_merge f size after a z ha hz
  rw [trim_idem] at h1
  rw [← h1, h2]

theorem fin_range_eq (f : Field) (cuts : List Int) (sub : Req) (y : KMap (Nat × Inter M sub)) :
    finalize (M := M) (.range f cuts sub) y
      = (intSpan 0 cuts.length).map (fun k =>
          ((y.get k).map (fun e => ((k, e.1, finalize sub e.2) : Int × Nat × Res M sub))).getD (k, 0, finalize sub (empty sub))) := by
  show (intSpan 0 cuts.length).map _ = _
  apply List.map_congr_left
  intro k _
  cases y.get k <;> rfl

theorem fin_hist_eq (p : HistP) (sub : Req) (y : KMap (Nat × Inter M sub)) :
    finalize (M := M) (.hist p sub) y
      = if p.minDocCount = 0 then
          (histSpan p y.hull).map (fun k =>
            ((y.get k).map (fun e => ((k, e.1, finalize sub e.2) : Int × Nat × Res M sub))).getD (k, 0, finalize sub (empty sub)))
        else
          (y.entries.map fun e => ((e.1, e.2.1, finalize sub e.2.2) : Int × Nat × Res M sub)).filter
            (fun b => decide (p.minDocCount ≤ b.2.1)) := by
  show (if p.minDocCount = 0 then _ else _) = _
  by_cases hm : p.minDocCount = 0
  · simp only [hm, if_true]
    apply List.map_congr_left
    intro k _
    cases y.get k <;> rfl
  · simp only [hm, if_false]

theorem fin_terms_eq (p : TermsP) (sub : Req) (t : TermsI (Inter M sub)) :
    finalize (M := M) (.terms p sub) t
      = termsFinal p (t.map.entries.map fun e => (e.1, e.2.1, finalize sub e.2.2)) t.other t.err := rfl

theorem evict_obs : ∀ (r : Req) (x z : Inter M r), WS r x → WS r z →
    finalize r (merge r (evict r x) z) = finalize r (merge r x z)
  | .none, _, _, _, _ => rfl
  | .both a b, x, z, hx, hz => by
    show (finalize a (merge a (evict a x.1) z.1), finalize b (merge b (evict b x.2) z.2))
      = (finalize a (merge a x.1 z.1), finalize b (merge b x.2 z.2))
    rw [evict_obs a x.1 z.1 hx.1 hz.1, evict_obs b x.2 z.2 hx.2 hz.2]
  | .metric _ _, _, _, _, _ => rfl
  | .topHits _ _ _ _, _, _, _, _ => rfl
  | .filter _ _ sub, x, z, hx, hz => by
    show (x.1 + z.1, finalize sub (merge sub (evict sub x.2) z.2)) = (x.1 + z.1, finalize sub (merge sub x.2 z.2))
    rw [evict_obs sub x.2 z.2 hx hz]
  | .range f cuts sub, x, z, hx, hz => by
    have hv := view_merge_evict (merge sub) (finalize (M := M) sub) (evict sub) (WS sub)
      (fun v w hv hw => evict_obs sub v w hv hw)
      (fun v hv => by
        have := evict_obs sub v (empty sub) hv (ws_empty sub)
        rwa [merge_empty, merge_empty] at this) x z hx.2 hz.2
    have e1 : merge (M := M) (.range f cuts sub) (evict (.range f cuts sub) x) z
        = KMap.merge (entryMerge (merge sub)) (KMap.mapVals (evict sub) x) z := rfl
    have e2 : merge (M := M) (.range f cuts sub) x z = KMap.merge (entryMerge (merge sub)) x z := rfl
    rw [e1, e2, fin_range_eq, fin_range_eq]
    apply List.map_congr_left
    intro k _
    rw [opt_view_congr (finalize (M := M) sub) _ _ (hv k) (fun c r => (k, c, r))]
  | .hist p sub, x, z, hx, hz => by
    have hv := view_merge_evict (merge sub) (finalize (M := M) sub) (evict sub) (WS sub)
      (fun v w hv hw => evict_obs sub v w hv hw)
      (fun v hv => by
        have := evict_obs sub v (empty sub) hv (ws_empty sub)
        rwa [merge_empty, merge_empty] at this) x z hx.2 hz.2
    have e1 : merge (M := M) (.hist p sub) (evict (.hist p sub) x) z
        = KMap.merge (entryMerge (merge sub)) (KMap.mapVals (evict sub) x) z := rfl
    have e2 : merge (M := M) (.hist p sub) x z = KMap.merge (entryMerge (merge sub)) x z := rfl
    rw [e1, e2, fin_hist_eq, fin_hist_eq]
    by_cases hm : p.minDocCount = 0
    · simp only [hm, if_true]
      show (histSpan p (hullMerge x.hull z.hull)).map _ = (histSpan p (hullMerge x.hull z.hull)).map _
      apply List.map_congr_left
      intro k _
      rw [opt_view_congr (finalize (M := M) sub) _ _ (hv k) (fun c r => (k, c, r))]
    · simp only [hm, if_false]
      rw [entries_map_congr (finalize (M := M) sub)
        (KMap.merge (entryMerge (merge sub)) (KMap.mapVals (evict sub) x) z)
        (KMap.merge (entryMerge (merge sub)) x z) rfl hv]
  | .terms p sub, x, z, hx, hz => by
    have hv := view_merge_evict (merge sub) (finalize (M := M) sub) (evict sub) (WS sub)
      (fun v w hv hw => evict_obs sub v w hv hw)
      (fun v hv => by
        have := evict_obs sub v (empty sub) hv (ws_empty sub)
        rwa [merge_empty, merge_empty] at this) x.map z.map hx.2 hz.2
    have e1 : merge (M := M) (.terms p sub) (evict (.terms p sub) x) z
        = ⟨KMap.merge (entryMerge (merge sub)) (KMap.mapVals (evict sub) x.map) z.map, x.other + z.other, x.err + z.err⟩ := rfl
    have e2 : merge (M := M) (.terms p sub) x z
        = ⟨KMap.merge (entryMerge (merge sub)) x.map z.map, x.other + z.other, x.err + z.err⟩ := rfl
    rw [e1, e2, fin_terms_eq, fin_terms_eq]
    simp only []
    rw [entries_map_congr (finalize (M := M) sub)
      (KMap.merge (entryMerge (merge sub)) (KMap.mapVals (evict sub) x.map) z.map)
      (KMap.merge (entryMerge (merge sub)) x.map z.map) rfl hv]
  | .composite srcs size after sub, x, z, hx, hz => by
    have hv := view_merge_evict (merge sub) (finalize (M := M) sub) (evict sub) (WS sub)
      (fun v w hv hw => evict_obs sub v w hv hw)
      (fun v hv => by
        have := evict_obs sub v (empty sub) hv (ws_empty sub)
        rwa [merge_empty, merge_empty] at this) x z hx.2 hz.2
    have hfin : ∀ y : KMap (Nat × Inter M sub), finalize (M := M) (.composite srcs size after sub) y
        = compPage size after (y.entries.map fun e => (e.1, e.2.1, finalize sub e.2.2)) := fun _ => rfl
    have e1 : merge (M := M) (.composite srcs size after sub) (evict (.composite srcs size after sub) x) z
        = KMap.merge (entryMerge (merge sub)) (compTrim size after (KMap.mapVals (evict sub) x)) z := rfl
    have e2 : merge (M := M) (.composite srcs size after sub) x z = KMap.merge (entryMerge (merge sub)) x z := rfl
    rw [e1, e2, hfin, hfin,
      ← page_of_trim size after (KMap.merge (entryMerge (merge sub)) (compTrim size after (KMap.mapVals (evict sub) x)) z)
        (fun e => (e.1, e.2.1, finalize sub e.2.2)) (fun _ => rfl),
      trim_merge_left _ size after _ z (supp_mapVals hx.1 _) hz.1,
      page_of_trim size after _ (fun e => (e.1, e.2.1, finalize sub e.2.2)) (fun _ => rfl),
      entries_map_congr (finalize (M := M) sub)
        (KMap.merge (entryMerge (merge sub)) (KMap.mapVals (evict sub) x) z)
        (KMap.merge (entryMerge (merge sub)) x z) rfl hv]

/-- observational equality survives the fold: evicting every fruit is invisible -/
theorem evict_fold (r : Req) : ∀ (ms : List (Inter M r)) (acc acc' : Inter M r),
    (∀ m ∈ ms, WS r m) → WS r acc → WS r acc' →
    (∀ z, WS r z → finalize r (merge r acc' z) = finalize r (merge r acc z)) →
    ∀ z, WS r z → finalize r (merge r ((ms.map (evict r)).foldl (merge r) acc') z)
      = finalize r (merge r (ms.foldl (merge r) acc) z)
  | [], _, _, _, _, _, h => h
  | m :: ms, acc, acc', hms, hacc, hacc', h => by
    have hm : WS r m := hms m List.mem_cons_self
    simp only [List.map_cons, List.foldl_cons]
    apply evict_fold r ms _ _ (fun x hx => hms x (List.mem_cons_of_mem _ hx))
      (ws_merge r _ _ hacc hm) (ws_merge r _ _ hacc' (ws_evict r m hm))
    intro z hz
    rw [merge_assoc, h _ (ws_merge r _ _ (ws_evict r m hm) hz), ← merge_assoc, merge_comm r acc (evict r m),
      merge_assoc, evict_obs r m _ hm (ws_merge r _ _ hacc hz), ← merge_assoc, merge_comm r m acc]

/-- **composite eviction anywhere in the request tree is invisible**: for every request tree and
every partition into segments, finalising the merged evicted fruits is finalising the collection
of all documents -/
theorem evict_invisible (r : Req) (parts : List (List Doc)) :
    finalize r ((parts.map (collectSegEvict (M := M) r)).foldl (merge r) (empty r))
      = finalize r (collect (M := M) r parts.flatten) := by
  have h := evict_fold (M := M) r (parts.map (collect r)) (empty r) (empty r)
    (by
      intro m hm
      obtain ⟨q, _, rfl⟩ := List.mem_map.1 hm
      exact ws_collect r q)
    (ws_empty r) (ws_empty r) (fun _ _ => rfl) (empty r) (ws_empty r)
  rw [merge_empty, merge_empty, List.map_map] at h
  rw [← fold_parts (merge r) (empty r) (merge_assoc r) (merge_comm r) (empty_merge r)
      (collect r) (collect_nil r) (collect_append r) parts]
  exact h

/-- **eviction is invisible on top of ANY terms truncation**: the complete segment model (terms cut
and composite eviction) and the cut-only model have the same final result, for every request tree
and every partition — no guard -/
theorem full_eq_cut (r : Req) (parts : List (List Doc)) :
    finalize r ((parts.map (collectSegFull (M := M) r)).foldl (merge r) (empty r))
      = finalize r ((parts.map (collectSeg (M := M) r)).foldl (merge r) (empty r)) := by
  have h := evict_fold (M := M) r (parts.map (collectSeg r)) (empty r) (empty r)
    (by
      intro m hm
      obtain ⟨q, _, rfl⟩ := List.mem_map.1 hm
      exact ws_harvest r _ (ws_collect r q))
    (ws_empty r) (ws_empty r) (fun _ _ => rfl) (empty r) (ws_empty r)
  rw [merge_empty, merge_empty, List.map_map] at h
  exact h

end obs

end TantivyModel.Agg
