import TantivyModel.Proofs.BlockWandTotalC
/-!
Part D: `block_max_was_too_low_advance_one_scorer` keeps the invariant and drops a posting.
-/
namespace TantivyModel.BlockWand
open List TantivyModel.Wand

theorem tooLowScan_lb (pre : List S) (init : Nat × Nat × Nat) (lb : Nat) (h0 : lb ≤ init.2.2)
    (h : ∀ x, x ∈ pre → lb ≤ x.lastDocInBlock) : lb ≤ (tooLowScan pre init).2.2 := by
  unfold tooLowScan
  have hmem : ∀ z, z ∈ pre.zipIdx.reverse → lb ≤ z.1.lastDocInBlock := by
    intro z hz
    have hz' := mem_reverse.mp hz
    have := mem_zipIdx_iff_getElem?.mp hz'
    exact h z.1 (mem_of_getElem? this)
  generalize pre.zipIdx.reverse = zs at hmem
  induction zs generalizing init with
  | nil => simpa using h0
  | cons z zs ih =>
    simp only [foldl_cons]
    have hz := hmem z (by simp)
    have hafter : lb ≤ (if z.1.lastDocInBlock ≤ init.2.2 then z.1.lastDocInBlock else init.2.2) := by
      split <;> omega
    by_cases hg : Sc.gt z.1.maxScore init.2.1 = true
    · rw [if_pos hg]
      exact ih _ hafter fun w hw => hmem w (by simp [hw])
    · rw [if_neg hg]
      exact ih _ hafter fun w hw => hmem w (by simp [hw])

theorem seekAfter_lb (arr : List S) (pl after0 lb : Nat) (h0 : lb ≤ (if after0 ≠ T then after0 + 1 else after0))
    (h : ∀ x, x ∈ arr.drop pl → lb ≤ x.doc) : lb ≤ seekAfter arr pl after0 := by
  unfold seekAfter
  generalize (if after0 ≠ T then after0 + 1 else after0) = a0 at h0
  generalize arr.drop pl = l at h
  induction l generalizing a0 with
  | nil => simpa using h0
  | cons y ys ih =>
    simp only [foldl_cons]
    apply ih
    · have := h y (by simp); split <;> omega
    · intro x hx; exact h x (by simp [hx])

theorem tooLow_total {θ : Nat} {arr1 : List S} {pl pd : Nat} (hinv : TInv pd θ arr1) (hpd : pd < T)
    (hpl : 0 < pl) (hlen : pl ≤ arr1.length)
    (hpre : ∀ x, x ∈ arr1.take pl → x.skip = x.blockIdx pd ∧ x.doc ≤ pd)
    (hsuf : ∀ x, x ∈ arr1.drop pl → pd < x.doc) :
    TInv pd θ (blockMaxTooLow arr1 pl) ∧ lenSum (blockMaxTooLow arr1 pl) < lenSum arr1 := by
  unfold blockMaxTooLow
  have hlastidx : pl - 1 < arr1.length := by omega
  rw [getElem?_eq_getElem hlastidx]
  simp only
  have hlastmem : arr1[pl - 1] ∈ arr1.take pl := by
    rw [mem_take_iff_getElem]
    exact ⟨pl - 1, by omega, rfl⟩
  have hpreAll : ∀ x, x ∈ arr1.take pl → pd ≤ x.lastDocInBlock :=
    fun x hx => lastDoc_ge x pd (hpre x hx).1 (by omega)
  have hsub : ∀ x, x ∈ arr1.take (pl - 1) → x ∈ arr1.take pl :=
    fun x hx => (take_sublist_take_left (by omega)).subset hx
  obtain ⟨hs1, _, hs3⟩ := tooLowScan_spec (arr1.take (pl - 1)) (pl - 1, arr1[pl - 1].maxScore, arr1[pl - 1].lastDocInBlock)
  have hlb := tooLowScan_lb (arr1.take (pl - 1)) (pl - 1, arr1[pl - 1].maxScore, arr1[pl - 1].lastDocInBlock) pd
    (hpreAll _ hlastmem) fun x hx => hpreAll x (hsub x hx)
  generalize tooLowScan (arr1.take (pl - 1)) (pl - 1, arr1[pl - 1].maxScore, arr1[pl - 1].lastDocInBlock) = r at hs1 hs3 hlb
  simp only at hs1 hs3
  have hrT : r.2.2 ≤ T := Nat.le_trans hs1 (lastDocInBlock_le_T (hinv.wf _ (mem_of_mem_take hlastmem)))
  have ha0 : pd < (if r.2.2 ≠ T then r.2.2 + 1 else r.2.2) ∧ (if r.2.2 ≠ T then r.2.2 + 1 else r.2.2) ≤ T := by
    split <;> omega
  obtain ⟨ha1, _⟩ := seekAfter_spec arr1 pl r.2.2
  have ha2 := seekAfter_lb arr1 pl r.2.2 (pd + 1) (by omega) fun x hx => hsuf x hx
  generalize seekAfter arr1 pl r.2.2 = after at ha1 ha2
  have hr1 : r.1 < pl := by
    rcases hs3 with h | h
    · omega
    · rw [length_take] at h; omega
  have hr1' : r.1 < arr1.length := by omega
  rw [getElem?_eq_getElem hr1']
  simp only
  have hget : arr1[r.1]? = some arr1[r.1] := getElem?_eq_getElem hr1'
  have hsjmem : arr1[r.1] ∈ arr1.take pl := by
    rw [mem_take_iff_getElem]
    exact ⟨r.1, by omega, rfl⟩
  generalize hsj : arr1[r.1] = sj at hget hsjmem
  obtain ⟨hsk, hsd⟩ := hpre sj hsjmem
  have hsjarr : sj ∈ arr1 := mem_of_mem_take hsjmem
  have hwf := hinv.wf sj hsjarr
  have hmemres : ∀ x, x ∈ restoreOrdering (arr1.set r.1 (sj.seek after)) r.1 → x = sj.seek after ∨ x ∈ arr1 :=
    fun x hx => mem_of_set ((restoreOrdering_perm _ _).subset hx)
  refine ⟨⟨set_restore_sorted arr1 hinv.sorted r.1 sj _ hget (seek_doc_ge sj hwf after), ?_, ?_, ?_⟩, ?_⟩
  · intro x hx
    rcases hmemres x hx with rfl | hx
    · exact hwf.seek after
    · exact hinv.wf x hx
  · intro x hx
    rcases hmemres x hx with rfl | hx
    · unfold JOK
      rw [seek_blockIdx]
      have h1 : (sj.seek after).skip ≤ sj.blockIdx after :=
        seek_skip_le sj after (by rw [hsk]; exact blockIdx_mono sj (by omega))
      have h2 : after ≤ (sj.seek after).doc := seek_doc_ge_target sj hwf after (by omega)
      exact Nat.le_trans h1 (blockIdx_mono sj (by omega))
    · exact hinv.j x hx
  · intro d hd
    rw [massLe_perm (restoreOrdering_perm _ _) d]
    exact Nat.le_trans (massLe_set_le hget _ (seek_maxScore sj after) (seek_doc_ge sj hwf after) d) (hinv.dead d hd)
  · rw [lenSum_perm (restoreOrdering_perm _ _)]
    have h1 := lenSum_set hget (sj.seek after)
    have h2 := seek_len_lt sj hwf after (by omega) (by omega)
    omega

end TantivyModel.BlockWand
