import TantivyModel.Proofs.GrammarCharsNested
import TantivyModel.Model.Grammar.CharsLenient
namespace TantivyModel.Grammar.Chars
open TantivyModel.Grammar

/-! ## the lenient grammar on a plain word: same tree as the strict grammar, no error -/

theorem wordInfChars_plain (delim : List Char) (w : Str) (hw : ∀ c ∈ w, plain c = true)
    (hd : ∀ c ∈ w, delim.contains c = false) : wordInfChars delim w = (w, []) := by
  induction w with
  | nil => rfl
  | cons c rest ih =>
    have hc := hw c (by simp)
    have hb : c ≠ '\\' := plain_ne c '\\' hc (by decide)
    have h1 := (plain_not_space c hc).1
    have h2 := hd c (by simp)
    have ih' := ih (fun d hd' => hw d (List.mem_cons_of_mem _ hd')) (fun d hd' => hd d (List.mem_cons_of_mem _ hd'))
    unfold wordInfChars
    split
    · rename_i heq; cases heq
    · rename_i heq; exact absurd (List.cons.inj heq).1 hb
    · rename_i heq
      obtain ⟨rfl, rfl⟩ := List.cons.inj heq
      simp only [h1, h2, Bool.not_false, Bool.and_self, if_true, ih']

theorem colonSuspect_plain (w : Str) (hw : ∀ c ∈ w, plain c = true) : colonSuspect w = false := by
  cases w with
  | nil => rfl
  | cons c rest =>
    have hc : c ≠ ':' := plain_ne c ':' (hw c (by simp)) (by decide)
    have hr : ∀ x ∈ rest, x ≠ ':' := fun x hx => plain_ne x ':' (hw x (List.mem_cons_of_mem _ hx)) (by decide)
    simp only [colonSuspect, Bool.or_eq_false_iff, beq_eq_false_iff_ne, ne_eq]
    refine ⟨hc, ?_⟩
    rw [List.any_eq_false]
    intro p hp
    obtain ⟨x, y⟩ := p
    have hx : x ∈ rest := (List.of_mem_zip hp).1
    simp [hr x hx]

theorem no_backslash_plain (w : Str) (hw : ∀ c ∈ w, plain c = true) : w.contains '\\' = false := by
  rw [List.contains_eq_any_beq, List.any_eq_false]
  intro c hc
  have : ¬ ('\\' = c) := fun h => (plain_ne c '\\' (hw c hc) (by decide)) h.symm
  simpa using this

theorem termOrPhraseInf_plain (w : Str) (hne : w ≠ []) (hw : ∀ c ∈ w, plain c = true) :
    termOrPhraseInf w = ((some (.literal none w .none 0 false), 0), []) := by
  obtain ⟨c, r, rfl⟩ := List.exists_cons_of_ne_nil hne
  have hc := hw c (by simp)
  have hd : ∀ d ∈ c :: r, [')', '^'].contains d = false := by
    intro d hd
    have hp := hw d hd
    simp [plain_ne d ')' hp (by decide), plain_ne d '^' hp (by decide)]
  have hwc := wordInfChars_plain [')', '^'] (c :: r) hw hd
  have hsk := skip0_plain (c :: r) hw
  have hnb : ¬ ('\\' = c ∨ '\\' ∈ r) := by
    intro hh
    have hmem : '\\' ∈ c :: r := by
      rcases hh with rfl | hh
      · simp
      · exact List.mem_cons_of_mem _ hh
    exact absurd (hw _ hmem) (by decide)
  have hwi : wordInf [')', '^'] true (c :: r) = ((some (c :: r), 0), []) := by
    simp [wordInf, hsk, hwc, colonSuspect_plain (c :: r) hw, hnb]
  have hst : simpleTermInf [')', '^'] (c :: r) = ((some (.none, c :: r), 0), []) := by
    unfold simpleTermInf
    split
    · rename_i heq; exact absurd (List.cons.inj heq).1 (plain_ne c '"' hc (by decide))
    · rename_i heq; exact absurd (List.cons.inj heq).1 (plain_ne c '\'' hc (by decide))
    · simp [hwi]
  simp [termOrPhraseInf, hst, slopOrPrefix]

theorem tag_in_plain_bracket (w r : Str) (hw : ∀ c ∈ w, plain c = true) (h : tag ['I', 'N'] w = some r) :
    ∀ r', skip0 r ≠ '[' :: r' := by
  intro r' hr
  have hp := tag_suffix_plain ['I', 'N'] w r hw h
  rw [skip0_plain r hp] at hr
  have := hp '[' (by rw [hr]; simp)
  exact absurd this (by decide)

theorem literalNoGroupInf_plain (g : Bool) (w : Str) (h : PlainWord w) :
    literalNoGroupInf g w = .ok (some (.leaf (.literal none w .none 0 false))) 0 [] := by
  obtain ⟨c, r, rfl⟩ := List.exists_cons_of_ne_nil h.ne
  have hc := pw_head c r h
  have hfn := fieldName_plain c r h
  have hsk := skip0_plain (c :: r) h.all
  have htp := termOrPhraseInf_plain (c :: r) h.ne h.all
  have hnot : ((c :: r) == ['N', 'O', 'T']) = false := by
    have := plainWord_ne_keyword (c :: r) ['N', 'O', 'T'] h (by simp [keywords])
    simpa using this
  have ne : ∀ e, plain e = false → c ≠ e := fun e he => plain_ne c e hc he
  unfold literalNoGroupInf
  simp only [hfn, hsk]
  split
  · rename_i r0 heq
    cases ht : tag ['I', 'N'] (c :: r) with
    | none => simp [ht] at heq
    | some r1 =>
      have hbr := tag_in_plain_bracket (c :: r) r1 h.all ht
      simp only [ht] at heq
      cases heq
  · simp [ne '{' (by decide), ne '[' (by decide), ne '>' (by decide), ne '<' (by decide), ne '/' (by decide),
      hsk, htp, setField, hnot]

theorem leafInf_plain (g : Bool) (f : Nat) (w : Str) (h : PlainWord w) :
    leafInf g (f + 1) w = .ok (some (.leaf (.literal none w .none 0 false))) 0 [] := by
  obtain ⟨c, r, rfl⟩ := List.exists_cons_of_ne_nil h.ne
  have hc := pw_head c r h
  have h1 : c ≠ '(' := plain_ne c '(' hc (by decide)
  have h2 : c ≠ '*' := plain_ne c '*' hc (by decide)
  have hnot : tag ['N', 'O', 'T', ' '] (c :: r) = none := by
    have := tag_kwspace_none ['N', 'O', 'T'] (c :: r) [] (by simp [keywords]) h (Or.inl rfl)
    simpa using this
  have hfn := fieldName_plain c r h
  have hlit := literalNoGroupInf_plain g (c :: r) h
  unfold leafInf
  split
  · rename_i heq; exact absurd (List.cons.inj heq).1 h1
  · simp [h2, hnot, termGroupStart, existsStart, hfn, hlit]

theorem operandInf_plain (g : Bool) (f : Nat) (w : Str) (h : PlainWord w) :
    operandInf g (f + 2) w = .ok (none, none, some (.leaf (.literal none w .none 0 false))) 0 [] := by
  obtain ⟨c, r, rfl⟩ := List.exists_cons_of_ne_nil h.ne
  have hc := pw_head c r h
  have hbo : binaryOperand (c :: r) = (none, c :: r) := by
    have := binaryOperand_word (c :: r) [] h (Or.inl rfl)
    simpa using this
  have hsk := skip0_plain (c :: r) h.all
  have hoc : occurSymbol (c :: r) = (none, c :: r) := by
    unfold occurSymbol
    split
    · rename_i heq; exact absurd (List.cons.inj heq).1 (plain_ne c '-' hc (by decide))
    · rename_i heq; exact absurd (List.cons.inj heq).1 (plain_ne c '+' hc (by decide))
    · rfl
  have hl := leafInf_plain g f (c :: r) h
  unfold operandInf
  simp [hbo, hsk, hoc, hl, J.bind, boost, applyBoost]

theorem leafInf_nil (g : Bool) (f : Nat) : ∃ a e, leafInf g f [] = .ok a e [] := by
  cases f with
  | zero => exact ⟨none, 0, rfl⟩
  | succ f' =>
    exact ⟨none, 1, rfl⟩

theorem operandInf_nil (g : Bool) (f : Nat) : ∃ it e, operandInf g f [] = .ok it e [] := by
  cases f with
  | zero => exact ⟨(none, none, none), 0, rfl⟩
  | succ f' =>
    obtain ⟨a, e, ha⟩ := leafInf_nil g f'
    refine ⟨(none, none, a.map fun x => applyBoost x none), e, ?_⟩
    unfold operandInf
    simp [binaryOperand, tag, List.isPrefixOf, occurSymbol, skip0, ha, J.bind, boost]

theorem sepLoop_nil (g : Bool) (f : Nat) : sepLoop g f [] = .ok [] 0 [] := by
  cases f with
  | zero => rfl
  | succ f' =>
    obtain ⟨it, e, hit⟩ := operandInf_nil g f'
    unfold sepLoop
    simp [space1Inf, skip1, hit, J.bind]

theorem astInf_plain (g : Bool) (f : Nat) (w : Str) (h : PlainWord w) :
    astInf g (f + 3) w = .ok (.leaf (.literal none w .none 0 false)) 0 [] := by
  have hsk := skip0_plain w h.all
  have ho := operandInf_plain g f w h
  have hs := sepLoop_nil g (f + 2)
  have hlf : lenientFold [((none : Option BinOp), (none : Option Occur), some (Ast.leaf (CLeaf.literal none w Delim.none 0 false)))]
      = (Ast.leaf (CLeaf.literal none w Delim.none 0 false), []) := rfl
  have hsk0 : skip0 ([] : Str) = [] := rfl
  unfold astInf
  simp only [hsk, ho, hs, J.bind, hlf, hsk0, List.length_nil, Nat.add_zero]

/-- the lenient grammar reads a plain word as the strict grammar does, without an error -/
theorem parseLenientWith_plain (g : Bool) (w : Str) (h : PlainWord w) :
    parseLenientWith g w = .tree (.leaf (.literal none w .none 0 false)) 0 := by
  obtain ⟨c, r, rfl⟩ := List.exists_cons_of_ne_nil h.ne
  have hc := pw_head c r h
  have hall : (c :: r).all isUniSpace = false := by
    simp [(plain_not_space c hc).1]
  obtain ⟨f, hf⟩ : ∃ f, 8 * (c :: r).length + 16 = f + 3 := ⟨8 * (c :: r).length + 13, by omega⟩
  unfold parseLenientWith
  rw [hall, hf, astInf_plain g f (c :: r) h]
  simp [rewrite]

end TantivyModel.Grammar.Chars
