import TantivyModel.Proofs.MergeSteps
/-! `startMerge` and `endMerge` preserve the invariant and the refinement relation -/
namespace TantivyModel.Merge

theorem flatten_map_nil {α β} (l : List α) (f : α → List β) (h : ∀ x ∈ l, f x = []) :
    (l.map f).flatten = [] := by
  rw [List.flatten_eq_nil_iff]
  intro y hy
  obtain ⟨x, hx, rfl⟩ := List.mem_map.1 hy
  exact h x hx

theorem srcs_live_nil (q : List DelOp) (srcs : List Entry) (target newId : Nat)
    (h : mergeEntries q srcs target newId = none) : ∀ e ∈ srcs, liveDocsOf e = [] := by
  intro e he
  have := (mergeEntries_none_iff q srcs target newId).1 h
  exact liveDocsOf_nil_of_uids e (sum_eq_zero_mem _ this _ (List.mem_map.2 ⟨e, he, rfl⟩))

/-- at its start a merge result, taken to the end of the queue, holds what its sources hold -/
theorem start_pendAll (q : List DelOp) (srcs : List Entry) (target newId c0 T : Nat)
    (hwf : ∀ e ∈ srcs, e.docs.length = e.alive.length)
    (hsame : SameCursor q srcs target c0) (hT : target ≤ T) (hall : ∀ op ∈ q, op.opstamp ≤ T) :
    ((mergeEntries q srcs target newId).toList.map (docsAll q)).flatten
      = (srcs.map (docsAll q)).flatten := by
  cases hm : mergeEntries q srcs target newId with
  | none =>
    simp only [Option.toList_none, List.map_nil, List.flatten_nil]
    symm
    apply flatten_map_nil
    intro e he
    exact docsAll_nil_of_live_nil q e (srcs_live_nil q srcs target newId hm e he)
  | some m =>
    simp only [Option.toList_some, List.map_cons, List.map_nil, List.flatten_cons, List.flatten_nil,
      List.append_nil]
    have hmwf := (mergeEntries_some_props q srcs target newId m hm).2.1
    rw [← liveDocsOf_advance_all q m T hmwf hall,
      merged_covers_docs q srcs target newId c0 T m hm hwf hsame hT]
    congr 1
    apply List.map_congr_left
    intro e he
    exact liveDocsOf_advance_all q e T (hwf e he) hall

theorem start_pub (q : List DelOp) (srcs : List Entry) (target newId c0 c : Nat)
    (hwf : ∀ e ∈ srcs, e.docs.length = e.alive.length)
    (hsame : SameCursor q srcs target c0) (hT : target ≤ c) :
    ((mergeEntries q srcs target newId).toList.map fun m => liveDocsOf (advance q m c)).flatten
      = (srcs.map fun e => liveDocsOf (advance q e c)).flatten := by
  cases hm : mergeEntries q srcs target newId with
  | none =>
    simp only [Option.toList_none, List.map_nil, List.flatten_nil]
    symm
    apply flatten_map_nil
    intro e he
    rw [liveDocsOf_advance q e c (hwf e he), srcs_live_nil q srcs target newId hm e he]
    rfl
  | some m =>
    simp only [Option.toList_some, List.map_cons, List.map_nil, List.flatten_cons, List.flatten_nil,
      List.append_nil]
    exact merged_covers_docs q srcs target newId c0 c m hm hwf hsame hT

theorem mergeEntries_some_cursor (q : List DelOp) (srcs : List Entry) (target newId c0 : Nat) (m : Entry)
    (hm : mergeEntries q srcs target newId = some m) (hsame : SameCursor q srcs target c0) :
    m.cursor = c0 := by
  cases srcs with
  | nil =>
    have : mergeEntries q [] target newId = none := by simp [mergeEntries]
    rw [this] at hm; cases hm
  | cons e0 rest =>
    rw [(mergeEntries_some_props q _ target newId m hm).2.2 e0 rest rfl]
    exact hsame e0 (by simp)

theorem startMerge_st (s : Sys) (ids : List Nat) : (s.step (.startMerge ids)).st = s.st := by
  unfold Sys.step
  cases s.running with
  | some r => rfl
  | none =>
    simp only
    split
    · rfl
    · split
      · rfl
      · split <;> rfl

/-- the invariant with a new merge in flight, given what `merge()` guarantees about its result -/
theorem inv_with_running (s : Sys) (hI : Inv s) (hnone : s.running = none) (ids : List Nat)
    (hne : ids ≠ []) (srcs : List Entry) (target c0 dstamp : Nat)
    (hsrcs : srcs = (s.st.uncommitted ++ s.st.committed).filter (inSources ids))
    (hcont : containsAll (s.st.uncommitted ++ s.st.committed) ids = true)
    (hsame : SameCursor s.st.queue srcs target c0) (hc0 : c0 ≤ s.st.queue.length)
    (hT : target ≤ s.stamp)
    (hpub : containsAll s.st.committed ids = true →
      ((mergeEntries s.st.queue srcs target s.nextId).toList.map fun m =>
          liveDocsOf (advance s.st.queue m s.st.committedOpstamp)).flatten
        = ((s.st.committed.filter (inSources ids)).map liveDocsOf).flatten ∧
      ∀ m ∈ (mergeEntries s.st.queue srcs target s.nextId).toList, ∀ e ∈ s.st.committed,
        (advance s.st.queue m s.st.committedOpstamp).cursor = e.cursor) :
    Inv { s with running := some ⟨ids, mergeEntries s.st.queue srcs target s.nextId, s.st.epoch⟩,
                 stamp := s.stamp + dstamp, nextId := s.nextId + 1 } := by
  have hsub : ∀ e ∈ srcs, e ∈ s.st.uncommitted ++ s.st.committed := by
    intro e he; rw [hsrcs] at he; exact (List.mem_filter.1 he).1
  have hwf : ∀ e ∈ srcs, e.docs.length = e.alive.length := fun e he => (hI.wf e (hsub e he)).1
  have hall : ∀ op ∈ s.st.queue, op.opstamp ≤ s.stamp := fun op hop => Nat.le_of_lt (hI.ops_lt op hop)
  refine { ops_lt := ?_, c_lt := ?_, ops_ne := hI.ops_ne, wf := ?_, pwf := ?_, comD1 := hI.comD1,
           comD2 := hI.comD2, pubE := hI.pubE, ids := hI.ids, pids := hI.pids, repoch := ?_, run := ?_ }
  · intro op hop
    have := hI.ops_lt op hop
    show op.opstamp < s.stamp + dstamp
    omega
  · have := hI.c_lt
    show s.st.committedOpstamp < s.stamp + dstamp
    omega
  · intro e he
    obtain ⟨h1, h2, h3⟩ := hI.wf e he
    exact ⟨h1, h2, Nat.lt_succ_of_lt h3⟩
  · intro e he
    obtain ⟨h1, h3⟩ := hI.pwf e he
    exact ⟨h1, Nat.lt_succ_of_lt h3⟩
  · intro r hr
    simp only [Option.some.injEq] at hr
    subst hr
    exact Nat.le_refl _
  · intro r hr _
    simp only [Option.some.injEq] at hr
    subst hr
    refine { srcs_ne := hne, srcs_lt := ?_, mwf := ?_, pendAll := ?_, pubC := hpub }
    · intro id hid
      obtain ⟨e, he, rfl⟩ := (containsAll_iff _ _).1 hcont id hid
      exact Nat.lt_succ_of_lt (hI.wf e he).2.2
    · intro m hm
      simp only [Option.mem_toList, Option.mem_def] at hm
      obtain ⟨hid, hmwf, _⟩ := mergeEntries_some_props _ _ _ _ m hm
      refine ⟨hmwf, ?_, ?_, ?_⟩
      · rw [mergeEntries_some_cursor _ _ _ _ c0 m hm hsame]; exact hc0
      · show m.segId < s.nextId + 1
        omega
      · intro e he heq
        have := (hI.wf e he).2.2
        omega
    · intro _
      show ((mergeEntries s.st.queue srcs target s.nextId).toList.map (docsAll s.st.queue)).flatten = _
      rw [start_pendAll _ srcs target s.nextId c0 s.stamp hwf hsame hT hall, hsrcs]

theorem step_startMerge (s : Sys) (a : Abs) (ids : List Nat) (hI : Inv s) (hR : Rel s a) :
    Inv (s.step (.startMerge ids)) ∧ Rel (s.step (.startMerge ids)) (a.step (.startMerge ids)) := by
  refine ⟨?_, by unfold Rel; rw [startMerge_st]; exact hR⟩
  have hall : ∀ op ∈ s.st.queue, op.opstamp ≤ s.stamp := fun op hop => Nat.le_of_lt (hI.ops_lt op hop)
  unfold Sys.step
  cases hrun : s.running with
  | some r => simpa [hrun] using hI
  | none =>
    simp only
    by_cases hnil : ids = []
    · simpa [hnil] using hI
    · simp only [hnil, if_false]
      by_cases hu : containsAll s.st.uncommitted ids = true
      · simp only [hu, if_true]
        have hfil : s.st.uncommitted.filter (inSources ids)
            = (s.st.uncommitted ++ s.st.committed).filter (inSources ids) := by
          rw [List.filter_append, filter_other_nil _ _ ids hI.ids hu, List.append_nil]
        have hcont : containsAll (s.st.uncommitted ++ s.st.committed) ids = true :=
          containsAll_mono _ _ _ (fun e he => List.mem_append_left _ he) hu
        have hsame : SameCursor s.st.queue (s.st.uncommitted.filter (inSources ids))
            (mergeTarget false s.st.committedOpstamp s.stamp) s.st.queue.length := by
          intro e he
          have hmem : e ∈ s.st.uncommitted ++ s.st.committed :=
            List.mem_append_left _ (List.mem_filter.1 he).1
          exact advance_all_cursor _ _ _ (hI.wf e hmem).2.1 hall
        exact inv_with_running s hI hrun ids hnil _ _ s.st.queue.length 1 hfil hcont hsame
          (Nat.le_refl _) (Nat.le_refl _)
          (fun hc => by
            rw [containsAll_not_both _ _ ids hnil hI.ids hu] at hc; cases hc)
      · simp only [hu, if_false]
        by_cases hc : containsAll s.st.committed ids = true
        · simp only [hc, if_true]
          have hfil : s.st.committed.filter (inSources ids)
              = (s.st.uncommitted ++ s.st.committed).filter (inSources ids) := by
            rw [List.filter_append, filter_other_nil' _ _ ids hI.ids hc, List.nil_append]
          have hcont : containsAll (s.st.uncommitted ++ s.st.committed) ids = true :=
            containsAll_mono _ _ _ (fun e he => List.mem_append_right _ he) hc
          -- some committed entry exists; all committed cursors equal its cursor
          obtain ⟨i, rest, rfl⟩ : ∃ i rest, ids = i :: rest := by
            cases ids with
            | nil => exact absurd rfl hnil
            | cons i rest => exact ⟨i, rest, rfl⟩
          obtain ⟨e0, he0, _⟩ := (containsAll_iff _ _).1 hc i (by simp)
          have hadv : ∀ e ∈ s.st.committed, advance s.st.queue e s.st.committedOpstamp = e :=
            fun e he => advance_of_consumed_nil _ _ _ (hI.comD1 e he)
          have hsame : SameCursor s.st.queue (s.st.committed.filter (inSources (i :: rest)))
              (mergeTarget true s.st.committedOpstamp s.stamp) e0.cursor := by
            intro e he
            have hm := (List.mem_filter.1 he).1
            show (advance s.st.queue e s.st.committedOpstamp).cursor = e0.cursor
            rw [hadv e hm]
            exact hI.comD2 e hm e0 he0
          have hwfs : ∀ e ∈ s.st.committed.filter (inSources (i :: rest)), e.docs.length = e.alive.length :=
            fun e he => (hI.wf e (List.mem_append_right _ (List.mem_filter.1 he).1)).1
          have key := inv_with_running s hI hrun (i :: rest) hnil _ _ e0.cursor 0 hfil hcont hsame
            (hI.wf e0 (List.mem_append_right _ he0)).2.1 (Nat.le_of_lt hI.c_lt)
            (fun _ => by
              constructor
              · rw [start_pub _ _ _ _ e0.cursor s.st.committedOpstamp hwfs hsame (Nat.le_refl _)]
                congr 1
                apply List.map_congr_left
                intro e he
                rw [hadv e (List.mem_filter.1 he).1]
              · intro m hm e he
                simp only [Option.mem_toList] at hm
                rw [advance_cursor, mergeEntries_some_cursor _ _ _ _ e0.cursor m hm hsame,
                  hI.comD1 e0 he0]
                exact hI.comD2 e0 he0 e he)
          exact key
        · simpa [hc] using hI

theorem startMergeExplicit_st (s : Sys) (ids : List Nat) : (s.step (.startMergeExplicit ids)).st = s.st := by
  unfold Sys.step
  cases s.running with
  | some r => rfl
  | none =>
    simp only
    split
    · rfl
    · split
      · rfl
      · split <;> rfl

/-- an explicit `IndexWriter::merge`: target = commit opstamp for BOTH registers. For uncommitted
sources the step is covered under `ExplicitOk` (all sources at one cursor position). -/
theorem step_startMergeExplicit (s : Sys) (a : Abs) (ids : List Nat) (hI : Inv s) (hR : Rel s a)
    (hok : ExplicitOk s (.startMergeExplicit ids)) :
    Inv (s.step (.startMergeExplicit ids)) ∧
      Rel (s.step (.startMergeExplicit ids)) (a.step (.startMergeExplicit ids)) := by
  refine ⟨?_, by unfold Rel; rw [startMergeExplicit_st]; exact hR⟩
  unfold Sys.step
  cases hrun : s.running with
  | some r => simpa [hrun] using hI
  | none =>
    simp only
    by_cases hnil : ids = []
    · simpa [hnil] using hI
    · simp only [hnil, if_false]
      by_cases hu : containsAll s.st.uncommitted ids = true
      · simp only [hu, if_true]
        have hfil : s.st.uncommitted.filter (inSources ids)
            = (s.st.uncommitted ++ s.st.committed).filter (inSources ids) := by
          rw [List.filter_append, filter_other_nil _ _ ids hI.ids hu, List.append_nil]
        have hcont : containsAll (s.st.uncommitted ++ s.st.committed) ids = true :=
          containsAll_mono _ _ _ (fun e he => List.mem_append_left _ he) hu
        obtain ⟨c0, hc0⟩ := hok hrun hnil hu
        have hsame : SameCursor s.st.queue (s.st.uncommitted.filter (inSources ids))
            s.st.committedOpstamp c0 := hc0
        -- some source exists, so `c0` is a cursor inside the queue
        obtain ⟨i, rest, hids⟩ : ∃ i rest, ids = i :: rest := by
          cases ids with
          | nil => exact absurd rfl hnil
          | cons i rest => exact ⟨i, rest, rfl⟩
        obtain ⟨e0, he0, heq0⟩ := (containsAll_iff _ _).1 hu i (by rw [hids]; simp)
        have he0f : e0 ∈ s.st.uncommitted.filter (inSources ids) :=
          List.mem_filter.2 ⟨he0, (inSources_iff _ _).2 (by rw [heq0, hids]; simp)⟩
        have hc0le : c0 ≤ s.st.queue.length := by
          rw [← hc0 e0 he0f]
          exact advance_cursor_le _ _ _ (hI.wf e0 (List.mem_append_left _ he0)).2.1
        have key := inv_with_running s hI hrun ids hnil _ s.st.committedOpstamp c0 0 hfil hcont hsame
          hc0le (Nat.le_of_lt hI.c_lt)
          (fun hc => by rw [containsAll_not_both _ _ ids hnil hI.ids hu] at hc; cases hc)
        exact key
      · simp only [hu, if_false]
        by_cases hc : containsAll s.st.committed ids = true
        · simp only [hc, if_true]
          have hfil : s.st.committed.filter (inSources ids)
              = (s.st.uncommitted ++ s.st.committed).filter (inSources ids) := by
            rw [List.filter_append, filter_other_nil' _ _ ids hI.ids hc, List.nil_append]
          have hcont : containsAll (s.st.uncommitted ++ s.st.committed) ids = true :=
            containsAll_mono _ _ _ (fun e he => List.mem_append_right _ he) hc
          obtain ⟨i, rest, rfl⟩ : ∃ i rest, ids = i :: rest := by
            cases ids with
            | nil => exact absurd rfl hnil
            | cons i rest => exact ⟨i, rest, rfl⟩
          obtain ⟨e0, he0, _⟩ := (containsAll_iff _ _).1 hc i (by simp)
          have hadv : ∀ e ∈ s.st.committed, advance s.st.queue e s.st.committedOpstamp = e :=
            fun e he => advance_of_consumed_nil _ _ _ (hI.comD1 e he)
          have hsame : SameCursor s.st.queue (s.st.committed.filter (inSources (i :: rest)))
              s.st.committedOpstamp e0.cursor := by
            intro e he
            have hm := (List.mem_filter.1 he).1
            rw [hadv e hm]
            exact hI.comD2 e hm e0 he0
          have hwfs : ∀ e ∈ s.st.committed.filter (inSources (i :: rest)), e.docs.length = e.alive.length :=
            fun e he => (hI.wf e (List.mem_append_right _ (List.mem_filter.1 he).1)).1
          have key := inv_with_running s hI hrun (i :: rest) hnil _ s.st.committedOpstamp e0.cursor 0
            hfil hcont hsame (hI.wf e0 (List.mem_append_right _ he0)).2.1 (Nat.le_of_lt hI.c_lt)
            (fun _ => by
              constructor
              · rw [start_pub _ _ _ _ e0.cursor s.st.committedOpstamp hwfs hsame (Nat.le_refl _)]
                congr 1
                apply List.map_congr_left
                intro e he
                rw [hadv e (List.mem_filter.1 he).1]
              · intro m hm e he
                simp only [Option.mem_toList] at hm
                rw [advance_cursor, mergeEntries_some_cursor _ _ _ _ e0.cursor m hm hsame,
                  hI.comD1 e0 he0]
                exact hI.comD2 e0 he0 e he)
          exact key
        · simpa [hc] using hI

end TantivyModel.Merge
