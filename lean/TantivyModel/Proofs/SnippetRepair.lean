import TantivyModel.Proofs.Fragments
/-!
# The second half of the snippet repair (NOT part of the C19 check, not imported by Props)

The first half of the repair proposed in the C19 report — `try_add_token` keeps the running
maximum of the end offsets — is part of the checked model (`Frag.add` with `stopMode ≠ 0`,
theorem `C19_highlights_inside`). The second half changes visible behaviour (a query term longer
than `max_num_chars` yields an empty snippet instead of an over-long one) and is a maintainer
decision; the over-long fragment stays a recorded finding. This file keeps the argument for it:

```
fn search_fragments(..) { .. fragment = FragmentCandidate::new(next.offset_from);
                             if next.offset_to - next.offset_from > max_num_chars { continue; } .. }
```

With both halves, for **every** token stream satisfying the contract (no monotonicity of end
offsets, no bound on token length): no underflow, every fragment within `max_num_chars` bytes,
every highlight inside its fragment.
-/
namespace TantivyModel.Snip.Repair
open TantivyModel.Tok TantivyModel.Snip

/-- `search_fragments` with the skip of over-long tokens, over the checked `Frag.add` -/
def searchAuxSkip (mode M : Nat) : Frag → List STok → Option (List Frag)
  | f, [] => some (emit f)
  | f, t :: ts =>
    if t.to < f.start then none
    else if t.to - f.start > M then
      (if t.to - t.from_ > M then searchAuxSkip mode M (Frag.new t.from_) ts
       else searchAuxSkip mode M ((Frag.new t.from_).add mode t) ts).map (emit f ++ ·)
    else searchAuxSkip mode M (f.add mode t) ts

/-- invariant: the `FI` of the check + highlights inside + length within the limit -/
def Good (M : Nat) (s : Text) (f : Frag) : Prop :=
  FI s f ∧ (∀ h ∈ f.hl, h.2 ≤ f.stop) ∧ f.stop - f.start ≤ M

theorem good_add {mode : Nat} (hm : mode ≠ 0) (M : Nat) (s : Text) (f : Frag) (t : STok)
    (ts : List STok) (hg : Good M s f) (h1 : P1 s f (t :: ts)) (hfit : t.to - f.start ≤ M) :
    Good M s (f.add mode t) := by
  obtain ⟨_, g1, g2⟩ := hg
  have hp := P1_add mode s f t ts h1
  refine ⟨hp.1, (P7_step hm s f t ts g1 hp).2, ?_⟩
  rw [add_start, add_stop, stopAfter_pos hm]
  omega

theorem good_new (M : Nat) (s : Text) (o : Nat) (ho : IsBoundary s o) : Good M s (Frag.new o) :=
  ⟨⟨Nat.le_refl _, isBoundary_le ho, ho, ho, by simp [Frag.new]⟩, by simp [Frag.new], by simp [Frag.new]⟩

theorem searchAuxSkip_good {mode : Nat} (hm : mode ≠ 0) (M : Nat) (s : Text) :
    ∀ (ts : List STok) (f : Frag), P1 s f ts → Good M s f →
    ∃ frags, searchAuxSkip mode M f ts = some frags ∧ ∀ g ∈ frags, Good M s g := by
  intro ts
  induction ts with
  | nil =>
    intro f _ hg
    refine ⟨emit f, rfl, ?_⟩
    intro g hgm; unfold emit at hgm
    split at hgm
    · simp only [List.mem_singleton] at hgm; subst hgm; exact hg
    · simp at hgm
  | cons t ts ih =>
    intro f h1 hg
    have hc := h1.2.1
    have ht := hc.inb t List.mem_cons_self
    have hmono := (List.pairwise_cons.mp hc.mono).1
    simp only [searchAuxSkip]
    rw [if_neg (P1_safe s f t ts h1)]
    have hemit : ∀ g ∈ emit f, Good M s g := by
      intro g hgm; unfold emit at hgm
      split at hgm
      · simp only [List.mem_singleton] at hgm; subst hgm; exact hg
      · simp at hgm
    have hnewP1 : P1 s (Frag.new t.from_) (t :: ts) :=
      ⟨(good_new M s _ ht.2.2.1).1, hc, fun x hx => by
        simp only [Frag.new]
        rcases List.mem_cons.mp hx with e | e
        · subst e; exact Nat.le_refl _
        · exact hmono x e⟩
    split
    · split
      · have hp : P1 s (Frag.new t.from_) ts :=
          ⟨hnewP1.1, hc.tail, fun x hx => hnewP1.2.2 x (List.mem_cons_of_mem _ hx)⟩
        obtain ⟨frags, e, h⟩ := ih (Frag.new t.from_) hp (good_new M s _ ht.2.2.1)
        refine ⟨emit f ++ frags, by rw [e]; rfl, ?_⟩
        intro g hgm; rw [List.mem_append] at hgm
        rcases hgm with hgm | hgm
        · exact hemit g hgm
        · exact h g hgm
      · have hgood := good_add hm M s (Frag.new t.from_) t ts (good_new M s _ ht.2.2.1) hnewP1
          (by simp only [Frag.new]; omega)
        obtain ⟨frags, e, h⟩ := ih _ (P1_add mode s _ t ts hnewP1) hgood
        refine ⟨emit f ++ frags, by rw [e]; rfl, ?_⟩
        intro g hgm; rw [List.mem_append] at hgm
        rcases hgm with hgm | hgm
        · exact hemit g hgm
        · exact h g hgm
    · exact ih _ (P1_add mode s f t ts h1) (good_add hm M s f t ts hg h1 (by omega))

/-- with both halves of the repair, for every token stream satisfying the contract: no
underflow, every fragment within `max_num_chars` bytes, every highlight inside its fragment -/
theorem C19_fragment_length_and_inside_with_skip {mode : Nat} (hm : mode ≠ 0) (s : Text) (M : Nat)
    (ts : List STok) (hc : SContract s ts) :
    ∃ frags, searchAuxSkip mode M (Frag.new 0) ts = some frags ∧
      ∀ g ∈ frags, FI s g ∧ (∀ h ∈ g.hl, h.2 ≤ g.stop) ∧ g.stop - g.start ≤ M :=
  searchAuxSkip_good hm M s ts (Frag.new 0) (P1_init s ts hc) (good_new M s 0 (isBoundary_zero s))

/-- the skip removes the S7 counterexample: `abcdefghij klm`, term `abcdefghij`, limit 3 -/
example : searchAuxSkip 1 3 (Frag.new 0) [⟨0, 10, some 8⟩, ⟨11, 14, none⟩] = some [] := by decide
example : searchAuxSkip 1 2 (Frag.new 0)
    [⟨0, 1, some 1⟩, ⟨0, 2, some 1⟩, ⟨0, 3, some 1⟩, ⟨1, 2, some 1⟩, ⟨1, 3, some 1⟩, ⟨1, 4, none⟩,
     ⟨2, 3, none⟩, ⟨2, 4, none⟩, ⟨3, 4, none⟩]
    = some [⟨2, 0, 2, [(0, 1), (0, 2)]⟩, ⟨1, 0, 2, [(1, 2)]⟩, ⟨1, 1, 3, [(1, 3)]⟩] := by decide

end TantivyModel.Snip.Repair
