import TantivyModel.Proofs.Fragments
/-!
# Repair proposal for the two snippet findings (NOT part of the C19 check, not imported by Props)

The C19 model mirrors the code that exists. This file models the two-line repair proposed in the
C19 report and proves that with it the full statement holds for **every** token stream satisfying
the contract (no monotonicity of end offsets, no bound on token length needed):

```
fn try_add_token(..)   { self.stop_offset = self.stop_offset.max(token.offset_to); .. }
fn search_fragments(..) { .. fragment = FragmentCandidate::new(next.offset_from);
                             if next.offset_to - next.offset_from > max_num_chars { continue; } .. }
```
-/
namespace TantivyModel.Snip.Repair
open TantivyModel.Tok TantivyModel.Snip

def addF (f : Frag) (t : STok) : Frag :=
  match t.score with
  | some sc => { f with stop := max f.stop t.to, score := f.score + sc, hl := f.hl ++ [(t.from_, t.to)] }
  | none => { f with stop := max f.stop t.to }

def searchAuxF (M : Nat) : Frag → List STok → Option (List Frag)
  | f, [] => some (emit f)
  | f, t :: ts =>
    if t.to < f.start then none
    else if t.to - f.start > M then
      (if t.to - t.from_ > M then searchAuxF M (Frag.new t.from_) ts
       else searchAuxF M (addF (Frag.new t.from_) t) ts).map (emit f ++ ·)
    else searchAuxF M (addF f t) ts

/-- invariant: the `FI` of the check + highlights inside + length within the limit -/
def Good (M : Nat) (s : Text) (f : Frag) : Prop :=
  FI s f ∧ (∀ h ∈ f.hl, h.2 ≤ f.stop) ∧ f.stop - f.start ≤ M

theorem good_addF (M : Nat) (s : Text) (f : Frag) (t : STok) (hg : Good M s f)
    (ht : t.from_ ≤ t.to ∧ t.to ≤ byteLen s ∧ IsBoundary s t.from_ ∧ IsBoundary s t.to)
    (hs : f.start ≤ t.from_) (hfit : t.to - f.start ≤ M) : Good M s (addF f t) := by
  obtain ⟨⟨f1, f2, f3, f4, f5⟩, g1, g2⟩ := hg
  obtain ⟨t1, t2, t3, t4⟩ := ht
  have hstop : (addF f t).stop = max f.stop t.to := by unfold addF; cases t.score <;> rfl
  have hstart : (addF f t).start = f.start := by unfold addF; cases t.score <;> rfl
  have hhl : ∀ h ∈ (addF f t).hl, h ∈ f.hl ∨ h = (t.from_, t.to) := by
    intro h hh; unfold addF at hh
    cases hsc : t.score with
    | none => rw [hsc] at hh; exact Or.inl hh
    | some sc => rw [hsc] at hh; simpa using hh
  have hb : IsBoundary s (max f.stop t.to) := by
    by_cases hc : f.stop ≤ t.to
    · rw [Nat.max_eq_right hc]; exact t4
    · rw [Nat.max_eq_left (by omega)]; exact f4
  refine ⟨⟨?_, ?_, ?_, ?_, ?_⟩, ?_, ?_⟩
  · rw [hstart, hstop]; omega
  · rw [hstop]; omega
  · rw [hstart]; exact f3
  · rw [hstop]; exact hb
  · intro h hh
    rw [hstart]
    rcases hhl h hh with hh | hh
    · exact f5 h hh
    · subst hh; exact ⟨hs, t1, t2, t3, t4⟩
  · intro h hh
    rw [hstop]
    rcases hhl h hh with hh | hh
    · have := g1 h hh; omega
    · subst hh; simp only; omega
  · rw [hstart, hstop]; omega

theorem good_new (M : Nat) (s : Text) (o : Nat) (ho : IsBoundary s o) : Good M s (Frag.new o) :=
  ⟨⟨Nat.le_refl _, isBoundary_le ho, ho, ho, by simp [Frag.new]⟩, by simp [Frag.new], by simp [Frag.new]⟩

theorem searchAuxF_good (M : Nat) (s : Text) : ∀ (ts : List STok) (f : Frag),
    SContract s ts → Good M s f → (∀ t ∈ ts, f.start ≤ t.from_) →
    ∃ frags, searchAuxF M f ts = some frags ∧ ∀ g ∈ frags, Good M s g := by
  intro ts
  induction ts with
  | nil =>
    intro f _ hg _
    refine ⟨emit f, rfl, ?_⟩
    intro g hgm; unfold emit at hgm
    split at hgm
    · simp only [List.mem_singleton] at hgm; subst hgm; exact hg
    · simp at hgm
  | cons t ts ih =>
    intro f hc hg hs
    have ht := hc.inb t List.mem_cons_self
    have hst := hs t List.mem_cons_self
    have hmono := (List.pairwise_cons.mp hc.mono).1
    simp only [searchAuxF]
    rw [if_neg (by omega)]
    have hemit : ∀ g ∈ emit f, Good M s g := by
      intro g hgm; unfold emit at hgm
      split at hgm
      · simp only [List.mem_singleton] at hgm; subst hgm; exact hg
      · simp at hgm
    split
    · split
      · obtain ⟨frags, e, h⟩ := ih (Frag.new t.from_) hc.tail (good_new M s _ ht.2.2.1)
          (fun x hx => by simp only [Frag.new]; exact hmono x hx)
        refine ⟨emit f ++ frags, by rw [e]; rfl, ?_⟩
        intro g hgm; rw [List.mem_append] at hgm
        rcases hgm with hgm | hgm
        · exact hemit g hgm
        · exact h g hgm
      · rename_i hlong
        have hgood := good_addF M s (Frag.new t.from_) t (good_new M s _ ht.2.2.1) ht
          (by simp [Frag.new]) (by simp only [Frag.new]; omega)
        have hstart : (addF (Frag.new t.from_) t).start = t.from_ := by
          unfold addF; cases t.score <;> rfl
        obtain ⟨frags, e, h⟩ := ih _ hc.tail hgood (fun x hx => by rw [hstart]; exact hmono x hx)
        refine ⟨emit f ++ frags, by rw [e]; rfl, ?_⟩
        intro g hgm; rw [List.mem_append] at hgm
        rcases hgm with hgm | hgm
        · exact hemit g hgm
        · exact h g hgm
    · rename_i hfit
      have hgood := good_addF M s f t hg ht hst (by omega)
      have hstart : (addF f t).start = f.start := by unfold addF; cases t.score <;> rfl
      exact ih _ hc.tail hgood (fun x hx => by rw [hstart]; exact hs x (List.mem_cons_of_mem _ hx))

/-- with the repair, for every token stream satisfying the contract: no underflow, every
fragment within `max_num_chars` bytes, every highlight inside its fragment -/
theorem repaired_search_good (s : Text) (M : Nat) (ts : List STok) (hc : SContract s ts) :
    ∃ frags, searchAuxF M (Frag.new 0) ts = some frags ∧
      ∀ g ∈ frags, FI s g ∧ (∀ h ∈ g.hl, h.2 ≤ g.stop) ∧ g.stop - g.start ≤ M :=
  searchAuxF_good M s ts (Frag.new 0) hc (good_new M s 0 (isBoundary_zero s)) (fun _ _ => Nat.zero_le _)

/-- the repaired code no longer has the two counterexamples of the check -/
example : searchAuxF 3 (Frag.new 0) [⟨0, 10, some 8⟩, ⟨11, 14, none⟩] = some [] := by decide
example : searchAuxF 2 (Frag.new 0)
    [⟨0, 1, some 1⟩, ⟨0, 2, some 1⟩, ⟨0, 3, some 1⟩, ⟨1, 2, some 1⟩, ⟨1, 3, some 1⟩, ⟨1, 4, none⟩,
     ⟨2, 3, none⟩, ⟨2, 4, none⟩, ⟨3, 4, none⟩]
    = some [⟨2, 0, 2, [(0, 1), (0, 2)]⟩, ⟨1, 0, 2, [(1, 2)]⟩, ⟨1, 1, 3, [(1, 3)]⟩] := by decide

end TantivyModel.Snip.Repair
