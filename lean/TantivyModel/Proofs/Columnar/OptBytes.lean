import TantivyModel.Proofs.Columnar.Dense
import TantivyModel.Proofs.Columnar.Header
import TantivyModel.Proofs.Columnar.Column
/-!
The optional index on its real byte layout: `open (serialize rows)` and rank / rank_if_exists /
select across blocks agree with the abstract set.
-/
namespace TantivyModel.Columnar
open TantivyModel

/-! ## per-block bookkeeping -/

theorem rowsBefore_succ (E : Nat) (rows : List Nat) (b : Nat) :
    rowsBefore E rows (b + 1) = rowsBefore E rows b + (blockOf E rows b).length := by
  unfold rowsBefore blockOf
  rw [List.length_map, ← List.countP_eq_length_filter]
  induction rows with
  | nil => simp
  | cons x xs ih =>
    simp only [List.countP_cons, ih]
    by_cases h1 : x / E < b
    · have h2 : x / E < b + 1 := by omega
      have h3 : ¬ x / E = b := by omega
      simp [h1, h2, h3]; omega
    · by_cases h3 : x / E = b
      · have h2 : x / E < b + 1 := by omega
        simp [h1, h2, h3]; omega
      · have h2 : ¬ x / E < b + 1 := by omega
        simp [h1, h2, h3]

/-- byte offset of block `b` in the block data -/
def startOf (rows : List Nat) : Nat → Nat
  | 0 => 0
  | b + 1 => startOf rows b + (variantOfLen (blockOf EPB rows b).length).numBytes

def metaOf (rows : List Nat) (b : Nat) : BlockMeta :=
  { before := rowsBefore EPB rows b, start := startOf rows b,
    variant := variantOfLen (blockOf EPB rows b).length }

theorem sparseEnc_length (els : List Nat) : (sparseEnc els).length = els.length * 2 := by
  unfold sparseEnc
  induction els with
  | nil => simp
  | cons e es ih => simp [leBytes_length, ih]; omega

theorem blockBytesOf_length (rows : List Nat) (b : Nat) :
    (blockBytesOf rows b).length = (variantOfLen (blockOf EPB rows b).length).numBytes := by
  unfold blockBytesOf variantOfLen
  simp only
  split
  · simp [Variant.numBytes, sparseEnc_length]
  · simp [Variant.numBytes, denseEnc_length]; rfl

theorem variantOfLen_zero : variantOfLen 0 = .sparse 0 := by decide

/-- entries of the non-empty blocks among `cur .. cur+n` -/
def entriesFrom (rows : List Nat) (cur n : Nat) : List (Nat × Nat) :=
  ((List.range' cur n).filter (fun b => !(blockOf EPB rows b).isEmpty)).map
    (fun b => (b, (blockOf EPB rows b).length))

theorem optEntries_eq (rows : List Nat) (numRows : Nat) :
    optEntries rows numRows = entriesFrom rows 0 (numBlocksOf numRows) := by
  unfold optEntries entriesFrom; rw [List.range_eq_range']

theorem entriesFrom_succ (rows : List Nat) (cur n : Nat) :
    entriesFrom rows cur (n + 1) =
      if (blockOf EPB rows cur).isEmpty then entriesFrom rows (cur + 1) n
      else (cur, (blockOf EPB rows cur).length) :: entriesFrom rows (cur + 1) n := by
  unfold entriesFrom
  rw [List.range'_succ]
  by_cases h : (blockOf EPB rows cur).isEmpty <;> simp [h]

theorem entriesFrom_ge (rows : List Nat) (cur n : Nat) : ∀ e ∈ entriesFrom rows cur n, cur ≤ e.1 ∧ e.1 < cur + n := by
  intro e he
  unfold entriesFrom at he
  obtain ⟨b, hb, rfl⟩ := List.mem_map.mp he
  have := (List.mem_filter.mp hb).1
  simp only [List.mem_range'_1] at this
  exact this

theorem buildMetas_pad (n cur s bf : Nat) (es : List (Nat × Nat)) (h : ∀ e ∈ es, e.1 ≠ cur) :
    buildMetas (n + 1) cur s bf es
      = { before := bf, start := s, variant := .sparse 0 } :: buildMetas n (cur + 1) s bf es := by
  cases es with
  | nil => rfl
  | cons e rest =>
    obtain ⟨b, c⟩ := e
    have : b ≠ cur := h (b, c) (by simp)
    simp [buildMetas, this]

theorem buildMetas_spec (rows : List Nat) (n cur : Nat) :
    buildMetas n cur (startOf rows cur) (rowsBefore EPB rows cur) (entriesFrom rows cur n)
      = (List.range' cur n).map (metaOf rows) := by
  induction n generalizing cur with
  | zero => simp [buildMetas]
  | succ n ih =>
    rw [List.range'_succ, List.map_cons, entriesFrom_succ]
    by_cases h : (blockOf EPB rows cur).isEmpty
    · simp only [h, if_true]
      have hlen : (blockOf EPB rows cur).length = 0 := by simpa [List.isEmpty_iff] using h
      rw [buildMetas_pad n cur _ _ _ (fun e he => by have := (entriesFrom_ge rows (cur + 1) n e he).1; omega)]
      have h1 : startOf rows (cur + 1) = startOf rows cur := by
        simp [startOf, hlen, variantOfLen_zero, Variant.numBytes]
      have h2 : rowsBefore EPB rows (cur + 1) = rowsBefore EPB rows cur := by rw [rowsBefore_succ, hlen]; rfl
      have := ih (cur + 1)
      rw [h1, h2] at this
      rw [this]
      congr 1
      simp [metaOf, hlen, variantOfLen_zero]
    · simp only [h, Bool.false_eq_true, if_false]
      simp only [buildMetas, if_true]
      have h1 : startOf rows (cur + 1) = startOf rows cur + (variantOfLen (blockOf EPB rows cur).length).numBytes := rfl
      have h2 := rowsBefore_succ EPB rows cur
      have := ih (cur + 1)
      rw [h1, h2] at this
      rw [this]
      rfl

theorem entries_sum (rows : List Nat) (n cur : Nat) :
    ((entriesFrom rows cur n).map (·.2)).sum + rowsBefore EPB rows cur = rowsBefore EPB rows (cur + n) := by
  induction n generalizing cur with
  | zero => simp [entriesFrom]
  | succ n ih =>
    rw [entriesFrom_succ]
    have h2 := rowsBefore_succ EPB rows cur
    have := ih (cur + 1)
    have e : cur + 1 + n = cur + (n + 1) := by omega
    rw [e] at this
    by_cases h : (blockOf EPB rows cur).isEmpty
    · have hlen : (blockOf EPB rows cur).length = 0 := by simpa [List.isEmpty_iff] using h
      simp only [h, if_true]; omega
    · simp only [h, Bool.false_eq_true, if_false, List.map_cons, List.sum_cons]; omega

/-! ## metadata bytes -/

theorem parseMetas_enc (es : List (Nat × Nat)) (h : ∀ e ∈ es, e.1 < 65536 ∧ 1 ≤ e.2 ∧ e.2 ≤ 65536) :
    parseMetas es.length ((es.map metaEntryBytes).flatten) = es := by
  induction es with
  | nil => rfl
  | cons e rest ih =>
    obtain ⟨b, c⟩ := e
    have hb := h (b, c) (by simp)
    simp only [List.length_cons, parseMetas, List.map_cons, List.flatten_cons, metaEntryBytes]
    have l1 : (leBytes 2 b).length = 2 := leBytes_length 2 b
    have l2 : (leBytes 2 (c - 1)).length = 2 := leBytes_length 2 (c - 1)
    have t1 : ((leBytes 2 b ++ leBytes 2 (c - 1)) ++ (rest.map metaEntryBytes).flatten).take 2 = leBytes 2 b := by
      rw [List.append_assoc, List.take_left' l1]
    have t2 : (((leBytes 2 b ++ leBytes 2 (c - 1)) ++ (rest.map metaEntryBytes).flatten).drop 2).take 2 = leBytes 2 (c - 1) := by
      rw [List.append_assoc, List.drop_left' l1, List.take_left' l2]
    have t3 : ((leBytes 2 b ++ leBytes 2 (c - 1)) ++ (rest.map metaEntryBytes).flatten).drop 4 = (rest.map metaEntryBytes).flatten := by
      rw [List.drop_left' (by simp [l1, l2])]
    rw [t1, t2, t3, leNat_leBytes, leNat_leBytes, ih (fun e he => h e (by simp [he]))]
    have m1 : b % 256 ^ 2 = b := Nat.mod_eq_of_lt (by simpa using hb.1)
    have m2 : (c - 1) % 256 ^ 2 = c - 1 := Nat.mod_eq_of_lt (by have := hb.2.2; omega)
    rw [m1, m2]
    congr 2
    omega

theorem metaBytes_length (es : List (Nat × Nat)) : ((es.map metaEntryBytes).flatten).length = es.length * 4 := by
  induction es with
  | nil => rfl
  | cons e rest ih => simp [metaEntryBytes, leBytes_length, ih]; omega

/-! ## block data -/

theorem take_flatten_length (rows : List Nat) (j N : Nat) (hj : j ≤ N) :
    ((((List.range N).map (blockBytesOf rows)).take j).flatten).length = startOf rows j := by
  induction j with
  | zero => simp [startOf]
  | succ j ih =>
    have hlt : j < ((List.range N).map (blockBytesOf rows)).length := by simp; omega
    rw [List.take_succ_eq_append_getElem hlt, List.flatten_append, List.length_append, ih (by omega)]
    simp [startOf, blockBytesOf_length]

theorem blockData_enc (rows : List Nat) (N b : Nat) (hb : b < N) :
    ((((List.range N).map (blockBytesOf rows)).flatten).drop (startOf rows b)).take
        (variantOfLen (blockOf EPB rows b).length).numBytes = blockBytesOf rows b := by
  have hlt : b < ((List.range N).map (blockBytesOf rows)).length := by simp; exact hb
  have := flatten_slice ((List.range N).map (blockBytesOf rows)) b hlt
  rw [take_flatten_length rows b N (by omega)] at this
  simp only [List.getElem_map, List.getElem_range] at this
  rw [blockBytesOf_length] at this
  exact this

end TantivyModel.Columnar
