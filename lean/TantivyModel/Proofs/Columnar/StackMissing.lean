import TantivyModel.Proofs.Columnar.Stack
/-!
Stacked merge where some inputs do not have the column (`ColumnIndex::Empty { num_docs }`): a missing
input behaves exactly like a canonical input of `num_docs` empty rows.
-/
namespace TantivyModel.Columnar
open TantivyModel

variable {V : Type}

/-- cardinality a missing column contributes (mirrors ColumnIndex::get_cardinality on `Empty`) -/
def missingCard (n : Nat) : Card := if n = 0 then .full else .optional

/-- replace a missing input by the canonical input of `n` empty rows -/
def normInput (m : MergeInput V) : MergeInput V :=
  match m.col with
  | some _ => m
  | none => canonInput (missingCard m.numDocs, List.replicate m.numDocs [])

theorem flatten_replicate_nil (n : Nat) : (List.replicate n ([] : List V)).flatten = [] := by
  induction n with
  | zero => rfl
  | succ k ih => simp [List.replicate_succ, ih]

theorem nonNullFrom_replicate_nil (i n : Nat) : nonNullFrom i (List.replicate n ([] : List V)) = [] := by
  induction n generalizing i with
  | zero => rfl
  | succ k ih => simp [List.replicate_succ, nonNullFrom, ih]

theorem missing_fits (n : Nat) : (missingCard n).fits (List.replicate n ([] : List V)) := by
  unfold missingCard
  by_cases h : n = 0
  · subst h; simp [Card.fits]
  · simp only [h, if_false, Card.fits]
    intro r hr
    have := List.eq_of_mem_replicate hr
    subst this; simp

theorem norm_vals (m : MergeInput V) : (normInput m).vals = m.vals := by
  unfold normInput
  cases h : m.col with
  | some c => rfl
  | none =>
    simp only [MergeInput.vals, canonInput, h]
    unfold missingCard
    by_cases h0 : m.numDocs = 0 <;> simp [h0, encodeAs, flatten_replicate_nil]

theorem norm_card (m : MergeInput V) : (normInput m).index.card = m.index.card := by
  unfold normInput
  cases h : m.col with
  | some c => rfl
  | none =>
    simp only [MergeInput.index, canonInput, h]
    unfold missingCard
    by_cases h0 : m.numDocs = 0
    · simp [h0, encodeAs, Index.card]
    · cases hn : m.numDocs with
      | zero => exact absurd hn h0
      | succ k => simp [encodeAs, Index.card]

theorem norm_numDocs (m : MergeInput V) :
    (normInput m).index.numDocs (normInput m).vals.length = m.index.numDocs m.vals.length := by
  cases h : m.col with
  | some c => unfold normInput; simp [h]
  | none =>
    have hc := canon_numDocs (missingCard m.numDocs, List.replicate m.numDocs ([] : List V)) (missing_fits _)
    have : normInput m = canonInput (missingCard m.numDocs, List.replicate m.numDocs []) := by
      unfold normInput; simp [h]
    rw [this, hc]
    simp [MergeInput.index, MergeInput.vals, h, Index.numDocs]

theorem norm_step (acc : List Nat × Nat) (m : MergeInput V) : stackedStep acc (normInput m) = stackedStep acc m := by
  cases h : m.col with
  | some c => unfold normInput; simp [h]
  | none =>
    have : normInput m = canonInput (missingCard m.numDocs, List.replicate m.numDocs []) := by
      unfold normInput; simp [h]
    rw [this, stackedStep_canon acc _ (missing_fits _)]
    simp [stackedStep, MergeInput.index, MergeInput.vals, h, Index.numDocs, nonNullFrom_replicate_nil]

theorem norm_numVals (m : MergeInput V) :
    stackedNumVals [normInput m] = stackedNumVals [m] := by
  cases h : m.col with
  | some c => unfold normInput; simp [h]
  | none =>
    have : normInput m = canonInput (missingCard m.numDocs, List.replicate m.numDocs []) := by
      unfold normInput; simp [h]
    rw [this]
    have := stackedNumVals_canon [(missingCard m.numDocs, List.replicate m.numDocs ([] : List V))]
      (by intro c hc; simp at hc; subst hc; exact missing_fits _)
    simp only [List.map_cons, List.map_nil, List.flatten_cons, List.flatten_nil, List.append_nil] at this
    rw [this]
    have e : ((List.replicate m.numDocs ([] : List V)).map List.length).filter (· ≠ 0) = [] := by
      apply List.filter_eq_nil_iff.mpr
      intro x hx
      obtain ⟨r, hr, rfl⟩ := List.mem_map.mp hx
      have := List.eq_of_mem_replicate hr
      subst this; simp
    rw [e]
    simp [stackedNumVals, MergeInput.index, h]

theorem stackedNumVals_cons (m : MergeInput V) (ms : List (MergeInput V)) :
    stackedNumVals (m :: ms) = stackedNumVals [m] ++ stackedNumVals ms := by
  unfold stackedNumVals; simp

theorem norm_stackedCard (ins : List (MergeInput V)) (c0 : Card) :
    (ins.map normInput).foldl (fun c m => c.max m.index.card) c0 = ins.foldl (fun c m => c.max m.index.card) c0 := by
  induction ins generalizing c0 with
  | nil => rfl
  | cons m ms ih => simp only [List.map_cons, List.foldl_cons, norm_card]; exact ih _

theorem norm_flatVals (ins : List (MergeInput V)) : (ins.map normInput).flatMap (·.vals) = ins.flatMap (·.vals) := by
  induction ins with
  | nil => rfl
  | cons m ms ih => simp only [List.map_cons, List.flatMap_cons, norm_vals, ih]

theorem norm_total (ins : List (MergeInput V)) (a : Nat) :
    ((ins.map normInput).map (fun m => m.index.numDocs m.vals.length)).foldl (· + ·) a
      = (ins.map (fun m => m.index.numDocs m.vals.length)).foldl (· + ·) a := by
  induction ins generalizing a with
  | nil => rfl
  | cons m ms ih => simp only [List.map_cons, List.foldl_cons, norm_numDocs]; exact ih _

theorem norm_foldStep (ins : List (MergeInput V)) (acc : List Nat × Nat) :
    (ins.map normInput).foldl stackedStep acc = ins.foldl stackedStep acc := by
  induction ins generalizing acc with
  | nil => rfl
  | cons m ms ih => simp only [List.map_cons, List.foldl_cons, norm_step]; exact ih _

theorem norm_allNumVals (ins : List (MergeInput V)) : stackedNumVals (ins.map normInput) = stackedNumVals ins := by
  induction ins with
  | nil => rfl
  | cons m ms ih => rw [List.map_cons, stackedNumVals_cons, stackedNumVals_cons m, norm_numVals, ih]

/-- `mergeStacked` does not distinguish a missing input from `num_docs` empty rows -/
theorem mergeStacked_norm (ins : List (MergeInput V)) : mergeStacked (ins.map normInput) = mergeStacked ins := by
  unfold mergeStacked stackedCard stackedNonNull
  simp only [norm_stackedCard, norm_flatVals, norm_total, norm_foldStep, norm_allNumVals]

/-- an input is canonical (written by the writer or an earlier merge) or missing -/
def CanonOrMissing (m : MergeInput V) : Prop :=
  m.col = none ∨ ∃ c : Card × Column V, c.1.fits c.2 ∧ m = canonInput c

/-- stacked merge, any mix of canonical and missing inputs: reads back as the concatenation of what
a reader sees of each input (a missing column = `num_docs` absent rows) -/
theorem read_mergeStacked_any (ins : List (MergeInput V)) (h : ∀ m ∈ ins, CanonOrMissing m) :
    read (mergeStacked ins).1 (mergeStacked ins).2 = stackSpec (ins.map MergeInput.read) := by
  -- choose the canonical description of every input
  have hex : ∃ cols : List (Card × Column V), (∀ c ∈ cols, c.1.fits c.2) ∧ ins.map normInput = cols.map canonInput
      ∧ cols.map (·.2) = ins.map MergeInput.read := by
    induction ins with
    | nil => exact ⟨[], by simp, rfl, rfl⟩
    | cons m ms ih =>
      obtain ⟨cols, hf, hn, hr⟩ := ih (fun x hx => h x (by simp [hx]))
      rcases h m (by simp) with hm | ⟨c, hc, rfl⟩
      · refine ⟨(missingCard m.numDocs, List.replicate m.numDocs []) :: cols, ?_, ?_, ?_⟩
        · intro c hc
          rcases List.mem_cons.mp hc with rfl | hc
          · exact missing_fits _
          · exact hf c hc
        · simp only [List.map_cons, hn]
          congr 1
          unfold normInput; simp [hm]
        · simp only [List.map_cons, hr]
          congr 1
          simp [MergeInput.read, hm]
      · refine ⟨c :: cols, ?_, ?_, ?_⟩
        · intro x hx
          rcases List.mem_cons.mp hx with rfl | hx
          · exact hc
          · exact hf x hx
        · simp only [List.map_cons, hn]
          congr 1
        · simp only [List.map_cons, hr]
          congr 1
          simp only [MergeInput.read, canonInput]
          exact (read_encodeAs c.1 c.2 hc).symm
  obtain ⟨cols, hf, hn, hr⟩ := hex
  rw [← mergeStacked_norm ins, hn, read_mergeStacked cols hf, hr]

end TantivyModel.Columnar
