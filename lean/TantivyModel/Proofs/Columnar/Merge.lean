import TantivyModel.Proofs.Columnar.Column
/-!
Merge: the shuffled merge writes exactly `encodeAs card (rows in the new order)`; reading it back
gives the rearranged rows.
-/
namespace TantivyModel.Columnar
open TantivyModel

variable {V : Type}

theorem mergeShuffledAs_eq (card : Card) (order : List (Nat × Nat)) (ins : List (MergeInput V)) :
    mergeShuffledAs card order ins = encodeAs card (order.map (inputRow ins)) := by
  cases card <;> simp [mergeShuffledAs, encodeAs, shuffledValues, List.flatMap_def]

/-- an address is valid: the segment exists and the row is below its number of documents -/
def validAddr (ins : List (MergeInput V)) (addr : Nat × Nat) : Prop :=
  ∃ m, ins[addr.1]? = some m ∧
    addr.2 < (match m.col with | some c => c.1.numDocs c.2.length | none => m.numDocs)

/-- what the merge reads of an old row is that row of the input as a reader sees it -/
theorem inputRow_eq_rowAt (ins : List (MergeInput V)) (addr : Nat × Nat) (h : validAddr ins addr) :
    inputRow ins addr = rowAt (ins.map MergeInput.read) addr := by
  obtain ⟨m, hm, hr⟩ := h
  have hlt : addr.1 < ins.length := by
    rcases Nat.lt_or_ge addr.1 ins.length with h | h
    · exact h
    · rw [List.getElem?_eq_none h] at hm; cases hm
  unfold inputRow rowAt
  rw [hm]
  have : (ins.map MergeInput.read).getD addr.1 [] = m.read := by
    rw [List.getD_eq_getElem?_getD, List.getElem?_map, hm]; rfl
  rw [this]
  unfold MergeInput.read MergeInput.index MergeInput.vals
  cases hc : m.col with
  | none =>
    simp only [hc] at hr ⊢
    simp [readRow, Index.valueRowIds, List.getD_eq_getElem?_getD, hr]
  | some c =>
    simp only [hc] at hr ⊢
    simp [read, List.getD_eq_getElem?_getD, hr]

theorem read_mergeShuffledAs (card : Card) (order : List (Nat × Nat)) (ins : List (MergeInput V))
    (hfit : card.fits (order.map (inputRow ins))) :
    read (mergeShuffledAs card order ins).1 (mergeShuffledAs card order ins).2 = order.map (inputRow ins) := by
  rw [mergeShuffledAs_eq]
  exact read_encodeAs card _ hfit

theorem read_mergeShuffled_spec (card : Card) (order : List (Nat × Nat)) (ins : List (MergeInput V))
    (hvalid : ∀ a ∈ order, validAddr ins a)
    (hfit : card.fits (order.map (inputRow ins))) :
    read (mergeShuffledAs card order ins).1 (mergeShuffledAs card order ins).2
      = mergeSpec order (ins.map MergeInput.read) := by
  rw [read_mergeShuffledAs card order ins hfit]
  unfold mergeSpec
  apply List.map_congr_left
  intro a ha
  exact inputRow_eq_rowAt ins a (hvalid a ha)

end TantivyModel.Columnar
