import TantivyModel.Proofs.Columnar.CompactSpace
/-!
Range lookup on a compact-space column: the converted compact range selects exactly the covered
values of the original range.
-/
namespace TantivyModel.Columnar
open TantivyModel

theorem cstartAt_succ (rs : Ranges) (j : Nat) (hj : j < rs.length) :
    cstartAt rs (j + 1) = cstartAt rs j + rangeLen rs[j] := by
  unfold cstartAt
  rw [List.take_succ_eq_append_getElem hj, List.map_append, List.sum_append]
  simp; omega

theorem take_sum_le (L : List Nat) (a : Nat) : (L.take a).sum ≤ L.sum := by
  have e : L.sum = (L.take a).sum + (L.drop a).sum := by
    rw [← List.sum_append, List.take_append_drop]
  omega

theorem cstartAt_mono (rs : Ranges) (a b : Nat) (h : a ≤ b) : cstartAt rs a ≤ cstartAt rs b := by
  unfold cstartAt
  have := take_sum_le ((rs.take b).map rangeLen) a
  rw [← List.map_take, List.take_take, Nat.min_eq_left h] at this
  omega

/-- where a covered value goes: range `j`, compact value `compact_start j + offset` -/
theorem toCompactFrom_repr (rs : Ranges) (hv : ValidRanges rs) (acc v : Nat) (hc : Covered rs v) :
    ∃ j, ∃ hj : j < rs.length, rs[j].1 ≤ v ∧ v ≤ rs[j].2 ∧
      toCompactFrom acc rs v = some (acc + ((rs.take j).map rangeLen).sum + (v - rs[j].1)) := by
  induction rs generalizing acc with
  | nil => obtain ⟨r, hr, _⟩ := hc; simp at hr
  | cons r rest ih =>
    by_cases hin : r.1 ≤ v ∧ v ≤ r.2
    · exact ⟨0, by simp, by simpa using hin.1, by simpa using hin.2, by simp [toCompactFrom, hin]⟩
    · have hc' : Covered rest v := by
        obtain ⟨x, hx, hx1, hx2⟩ := hc
        rcases List.mem_cons.mp hx with rfl | hx'
        · exact absurd ⟨hx1, hx2⟩ hin
        · exact ⟨x, hx', hx1, hx2⟩
      obtain ⟨j, hj, h1, h2, h3⟩ := ih hv.tail (acc + rangeLen r) hc'
      refine ⟨j + 1, by simp; omega, by simpa using h1, by simpa using h2, ?_⟩
      simp only [toCompactFrom, hin, if_false, h3, List.take_succ_cons, List.map_cons, List.sum_cons,
        List.getElem_cons_succ]
      congr 1; omega

theorem toCompact_repr (rs : Ranges) (hv : ValidRanges rs) (v : Nat) (hc : Covered rs v) :
    ∃ j, ∃ hj : j < rs.length, rs[j].1 ≤ v ∧ v ≤ rs[j].2 ∧ toCompact rs v = some (cstartAt rs j + (v - rs[j].1)) := by
  obtain ⟨j, hj, h1, h2, h3⟩ := toCompactFrom_repr rs hv 1 v hc
  exact ⟨j, hj, h1, h2, by unfold toCompact cstartAt; exact h3⟩

theorem toCompactFrom_none (rs : Ranges) (v : Nat) : ∀ acc, toCompactFrom acc rs v = none → ¬ Covered rs v := by
  induction rs with
  | nil => intro _ _ ⟨r, hr, _⟩; simp at hr
  | cons r rest ih =>
    intro acc hn ⟨x, hx, hx1, hx2⟩
    unfold toCompactFrom at hn
    by_cases hin : r.1 ≤ v ∧ v ≤ r.2
    · simp [hin] at hn
    · simp only [hin, if_false] at hn
      rcases List.mem_cons.mp hx with rfl | hx'
      · exact hin ⟨hx1, hx2⟩
      · exact ih _ hn ⟨x, hx', hx1, hx2⟩

theorem toCompact_none (rs : Ranges) (v : Nat) (h : toCompact rs v = none) : ¬ Covered rs v :=
  toCompactFrom_none rs v 1 h

/-- the ranges entirely below `t` are a prefix of the sorted ranges -/
theorem errPos_prefix (rs : Ranges) (hv : ValidRanges rs) (t : Nat) :
    errPos rs t ≤ rs.length ∧ ∀ j (hj : j < rs.length), (j < errPos rs t ↔ rs[j].2 < t) := by
  unfold errPos
  induction rs with
  | nil => simp
  | cons r rest ih =>
    have hlater : ∀ x ∈ rest, r.2 < x.1 := (List.pairwise_cons.mp hv.sorted).1
    obtain ⟨ih1, ih2⟩ := ih hv.tail
    simp only [List.countP_cons, List.length_cons]
    by_cases hr : r.2 < t
    · simp only [hr, decide_true, if_true]
      refine ⟨by omega, ?_⟩
      intro j hj
      cases j with
      | zero => simp [hr]
      | succ j =>
        simp only [List.getElem_cons_succ]
        have := ih2 j (by simpa using hj)
        omega
    · have hzero : rest.countP (fun r => decide (r.2 < t)) = 0 := by
        apply List.countP_eq_zero.mpr
        intro x hx
        have h1 := hlater x hx
        have h2 := hv.nonempty x (by simp [hx])
        simp; omega
      simp only [hr, decide_false, Bool.false_eq_true, if_false, hzero]
      refine ⟨by omega, ?_⟩
      intro j hj
      cases j with
      | zero => simp [hr]
      | succ j =>
        simp only [List.getElem_cons_succ]
        have hx := hlater rest[j] (List.getElem_mem _)
        have h2 := hv.nonempty rest[j] (by simp)
        constructor
        · intro h; omega
        · intro h; omega

/-- the conversion of a query range is exact on covered values -/
theorem compactRange_exact (rs : Ranges) (hv : ValidRanges rs) (lo hi v c : Nat) (hc : Covered rs v)
    (hcv : toCompact rs v = some c) :
    match compactRange rs lo hi with
    | none => ¬ (lo ≤ v ∧ v ≤ hi)
    | some r => ((lo ≤ v ∧ v ≤ hi) ↔ (r.1 ≤ c ∧ c ≤ r.2)) := by
  obtain ⟨j, hj, hj1, hj2, hjc⟩ := toCompact_repr rs hv v hc
  rw [hcv] at hjc
  have hceq : c = cstartAt rs j + (v - rs[j].1) := Option.some.inj hjc
  have hclt : c < cstartAt rs (j + 1) := by rw [cstartAt_succ rs j hj, hceq]; unfold rangeLen; omega
  have hcge : cstartAt rs j ≤ c := by omega
  -- lower bound
  have hlow_cov : ∀ a, toCompact rs lo = some a → (lo ≤ v ↔ a ≤ c) := by
    intro a ha
    rcases Nat.lt_trichotomy lo v with h | h | h
    · have := toCompactFrom_mono rs hv 1 lo v a c h ha hcv; omega
    · subst h; rw [hcv] at ha; cases ha; omega
    · have := toCompactFrom_mono rs hv 1 v lo c a h hcv ha; omega
  have hlow_gap : toCompact rs lo = none → (lo ≤ v ↔ cstartAt rs (errPos rs lo) ≤ c) := by
    intro hn
    have hnc := toCompact_none rs lo hn
    obtain ⟨_, hp⟩ := errPos_prefix rs hv lo
    rcases Nat.lt_or_ge j (errPos rs lo) with h | h
    · have := (hp j hj).mp h
      have := cstartAt_mono rs (j + 1) (errPos rs lo) (by omega)
      omega
    · have h1 : ¬ rs[j].2 < lo := fun hh => by have := (hp j hj).mpr hh; omega
      have h2 : lo < rs[j].1 := by
        rcases Nat.lt_or_ge lo rs[j].1 with hh | hh
        · exact hh
        · exact absurd ⟨rs[j], List.getElem_mem hj, hh, by omega⟩ hnc
      have := cstartAt_mono rs (errPos rs lo) j h
      omega
  have hup_cov : ∀ b, toCompact rs hi = some b → (v ≤ hi ↔ c ≤ b) := by
    intro b hb
    rcases Nat.lt_trichotomy v hi with h | h | h
    · have := toCompactFrom_mono rs hv 1 v hi c b h hcv hb; omega
    · subst h; rw [hcv] at hb; cases hb; omega
    · have := toCompactFrom_mono rs hv 1 hi v b c h hb hcv; omega
  have hup_gap : toCompact rs hi = none → (v ≤ hi ↔ c ≤ cstartAt rs (errPos rs hi) - 1) := by
    intro hn
    have hnc := toCompact_none rs hi hn
    obtain ⟨_, hp⟩ := errPos_prefix rs hv hi
    have hpos1 : 1 ≤ cstartAt rs (errPos rs hi) := by unfold cstartAt; omega
    rcases Nat.lt_or_ge j (errPos rs hi) with h | h
    · have := (hp j hj).mp h
      have := cstartAt_mono rs (j + 1) (errPos rs hi) (by omega)
      omega
    · have h1 : ¬ rs[j].2 < hi := fun hh => by have := (hp j hj).mpr hh; omega
      have h2 : hi < rs[j].1 := by
        rcases Nat.lt_or_ge hi rs[j].1 with hh | hh
        · exact hh
        · exact absurd ⟨rs[j], List.getElem_mem hj, hh, by omega⟩ hnc
      have := cstartAt_mono rs (errPos rs hi) j h
      omega
  unfold compactRange
  by_cases hlh : lo > hi
  · simp only [hlh, if_true]; omega
  · simp only [hlh, if_false]
    cases h1 : toCompact rs lo with
    | none =>
      cases h2 : toCompact rs hi with
      | none =>
        simp only
        by_cases hpe : errPos rs lo = errPos rs hi
        · simp only [hpe, if_true]
          have a := hlow_gap h1
          have b := hup_gap h2
          rw [hpe] at a
          have hpos1 : 1 ≤ cstartAt rs (errPos rs hi) := by unfold cstartAt; omega
          omega
        · simp only [hpe, if_false]
          rw [hlow_gap h1, hup_gap h2]
      | some b => simp only; rw [hlow_gap h1, hup_cov b h2]
    | some a =>
      cases h2 : toCompact rs hi with
      | none => simp only; rw [hlow_cov a h1, hup_gap h2]
      | some b => simp only; rw [hlow_cov a h1, hup_cov b h2]

/-- range lookup on the compact values of a column: exactly the positions of `s..e` whose original
value lies in `lo..=hi` -/
theorem compactRangeRows_spec (rs : Ranges) (hv : ValidRanges rs) (vals : List Nat) (hcov : ∀ v ∈ vals, Covered rs v)
    (lo hi s e : Nat) :
    compactRangeRows rs (vals.map (fun v => (toCompact rs v).getD 0)) lo hi s e
      = (List.range' s (min e vals.length - s)).filter (fun i => decide (lo ≤ vals.getD i 0) && decide (vals.getD i 0 ≤ hi)) := by
  unfold compactRangeRows
  have key : ∀ i, i ∈ List.range' s (min e vals.length - s) →
      ∃ c, toCompact rs (vals.getD i 0) = some c ∧ (vals.map (fun v => (toCompact rs v).getD 0)).getD i 0 = c
        ∧ Covered rs (vals.getD i 0) := by
    intro i hmem
    have hi' : i < vals.length := by have := List.mem_range'_1.mp hmem; omega
    have hc := hcov vals[i] (List.getElem_mem hi')
    obtain ⟨c, h1, _⟩ := toCompactFrom_spec rs hv 1 vals[i] hc
    refine ⟨c, ?_, ?_, ?_⟩
    · simp only [List.getD_eq_getElem?_getD, List.getElem?_eq_getElem hi', Option.getD_some]; exact h1
    · simp only [List.getD_eq_getElem?_getD, List.getElem?_map, List.getElem?_eq_getElem hi', Option.map_some,
        Option.getD_some]
      unfold toCompact; rw [h1]; rfl
    · simp only [List.getD_eq_getElem?_getD, List.getElem?_eq_getElem hi', Option.getD_some]; exact hc
  cases hr : compactRange rs lo hi with
  | none =>
    simp only
    symm
    apply List.filter_eq_nil_iff.mpr
    intro i hmem
    obtain ⟨c, h1, _, h3⟩ := key i hmem
    have := compactRange_exact rs hv lo hi (vals.getD i 0) c h3 h1
    rw [hr] at this
    simp only [Bool.and_eq_true, decide_eq_true_eq]
    exact this
  | some r =>
    simp only [List.length_map]
    apply List.filter_congr
    intro i hmem
    obtain ⟨c, h1, h2, h3⟩ := key i hmem
    have := compactRange_exact rs hv lo hi (vals.getD i 0) c h3 h1
    rw [hr] at this
    simp only at this
    rw [h2, Bool.eq_iff_iff]
    simp only [Bool.and_eq_true, decide_eq_true_eq]
    exact this.symm

end TantivyModel.Columnar
