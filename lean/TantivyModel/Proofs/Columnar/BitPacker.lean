import TantivyModel.Model.Columnar.Column
/-!
Bit packer: the bytes written denote `packNat` (Σ vᵢ·2^(i·w)); `BitUnpacker::get` reads digit i.
-/
namespace TantivyModel.Columnar
open TantivyModel

def BytesOk (l : Bytes) : Prop := ∀ b ∈ l, b < 256

theorem pow256 (k : Nat) : 256 ^ k = 2 ^ (8 * k) := by
  rw [Nat.pow_mul]

theorem leBytes_length (k n : Nat) : (leBytes k n).length = k := by
  induction k generalizing n with
  | zero => rfl
  | succ k ih => simp [leBytes, ih]

theorem leBytes_ok (k n : Nat) : BytesOk (leBytes k n) := by
  induction k generalizing n with
  | zero => intro b hb; simp [leBytes] at hb
  | succ k ih =>
    intro b hb
    simp only [leBytes, List.mem_cons] at hb
    rcases hb with rfl | hb
    · exact Nat.mod_lt _ (by decide)
    · exact ih _ b hb

theorem leNat_leBytes (k n : Nat) : leNat (leBytes k n) = n % 256 ^ k := by
  induction k generalizing n with
  | zero => simp [leBytes, leNat, Nat.mod_one]
  | succ k ih =>
    simp only [leBytes, leNat, ih]
    rw [Nat.pow_succ, Nat.mul_comm (256 ^ k) 256, Nat.mod_mul]

theorem leNat_append (a b : Bytes) : leNat (a ++ b) = leNat a + 256 ^ a.length * leNat b := by
  induction a with
  | nil => simp [leNat]
  | cons x xs ih =>
    simp only [List.cons_append, leNat, ih, List.length_cons, Nat.pow_succ]
    rw [Nat.mul_add, Nat.add_assoc, Nat.mul_comm (256 ^ xs.length) 256, Nat.mul_assoc]

theorem BytesOk.append {a b : Bytes} (ha : BytesOk a) (hb : BytesOk b) : BytesOk (a ++ b) := by
  intro x hx
  rcases List.mem_append.mp hx with h | h
  · exact ha x h
  · exact hb x h

theorem leNat_lt {l : Bytes} (h : BytesOk l) : leNat l < 256 ^ l.length := by
  induction l with
  | nil => simp [leNat]
  | cons x xs ih =>
    have hx : x < 256 := h x (by simp)
    have hxs := ih (fun b hb => h b (by simp [hb]))
    simp only [leNat, List.length_cons, Nat.pow_succ]
    omega

theorem leNat_drop {l : Bytes} (h : BytesOk l) (a : Nat) : leNat (l.drop a) = leNat l / 256 ^ a := by
  induction a generalizing l with
  | zero => simp
  | succ a ih =>
    cases l with
    | nil => simp [leNat]
    | cons x xs =>
      have hx : x < 256 := h x (by simp)
      simp only [List.drop_succ_cons, leNat]
      rw [ih (fun b hb => h b (by simp [hb])), Nat.pow_succ, Nat.mul_comm (256 ^ a) 256,
        ← Nat.div_div_eq_div_mul]
      congr 1
      rw [Nat.add_mul_div_left _ _ (by decide : 0 < 256), Nat.div_eq_of_lt hx, Nat.zero_add]

theorem leNat_take {l : Bytes} (h : BytesOk l) (k : Nat) : leNat (l.take k) = leNat l % 256 ^ k := by
  induction k generalizing l with
  | zero => simp [leNat, Nat.mod_one]
  | succ k ih =>
    cases l with
    | nil => simp [leNat]
    | cons x xs =>
      have hx : x < 256 := h x (by simp)
      simp only [List.take_succ_cons, leNat]
      rw [ih (fun b hb => h b (by simp [hb])), Nat.pow_succ, Nat.mul_comm (256 ^ k) 256, Nat.mod_mul]
      rw [Nat.add_mul_mod_self_left, Nat.mod_eq_of_lt hx]
      congr 2
      rw [Nat.add_mul_div_left _ _ (by decide : 0 < 256), Nat.div_eq_of_lt hx, Nat.zero_add]

theorem BytesOk.drop {l : Bytes} (h : BytesOk l) (a : Nat) : BytesOk (l.drop a) :=
  fun b hb => h b (List.mem_of_mem_drop hb)

/-! ## packNat -/

theorem packNat_append (w : Nat) (a b : List Nat) :
    packNat w (a ++ b) = packNat w a + 2 ^ (w * a.length) * packNat w b := by
  induction a with
  | nil => simp [packNat]
  | cons x xs ih =>
    simp only [List.cons_append, packNat, ih, List.length_cons, Nat.mul_succ]
    rw [Nat.mul_add, Nat.add_assoc, Nat.pow_add, Nat.mul_comm (2 ^ (w * xs.length)) (2 ^ w), Nat.mul_assoc]

theorem packNat_snoc (w : Nat) (a : List Nat) (v : Nat) :
    packNat w (a ++ [v]) = packNat w a + 2 ^ (w * a.length) * v := by
  rw [packNat_append]; simp [packNat]

/-- digit `i` of the packed number is the i-th value -/
theorem packNat_get (w : Nat) (vals : List Nat) (h : ∀ v ∈ vals, v < 2 ^ w) (i : Nat) (hi : i < vals.length) :
    packNat w vals / 2 ^ (i * w) % 2 ^ w = vals[i] := by
  induction vals generalizing i with
  | nil => simp at hi
  | cons v vs ih =>
    have hv : v < 2 ^ w := h v (by simp)
    cases i with
    | zero =>
      simp only [packNat, Nat.zero_mul, Nat.pow_zero, Nat.div_one, List.getElem_cons_zero]
      rw [Nat.add_mul_mod_self_left, Nat.mod_eq_of_lt hv]
    | succ i =>
      simp only [packNat, List.getElem_cons_succ]
      have e : (v + 2 ^ w * packNat w vs) / 2 ^ ((i + 1) * w) = packNat w vs / 2 ^ (i * w) := by
        rw [Nat.succ_mul, Nat.add_comm (i * w) w, Nat.pow_add, ← Nat.div_div_eq_div_mul]
        congr 1
        rw [Nat.add_mul_div_left _ _ (Nat.two_pow_pos w), Nat.div_eq_of_lt hv, Nat.zero_add]
      rw [e]
      exact ih (fun x hx => h x (by simp [hx])) i (by simpa using hi)

/-! ## the packer invariant -/

structure PackInv (w : Nat) (p : Packer) (vals : List Nat) : Prop where
  written_lt : p.written < 64
  mini_lt : p.mini < 2 ^ p.written
  ok : BytesOk p.out
  bits : 8 * p.out.length + p.written = w * vals.length
  val : leNat p.out + 2 ^ (8 * p.out.length) * p.mini = packNat w vals

theorem packInv_new (w : Nat) : PackInv w Packer.new [] :=
  ⟨by decide, by decide, by intro b hb; simp [Packer.new] at hb, by simp [Packer.new], by simp [Packer.new, leNat, packNat]⟩

theorem or_shift_eq_add {mini wr a : Nat} (h : mini < 2 ^ wr) : mini ||| (a * 2 ^ wr) = a * 2 ^ wr + mini := by
  rw [Nat.or_comm, ← Nat.shiftLeft_eq, Nat.shiftLeft_add_eq_or_of_lt h]

theorem shl_mod_u64 (v wr : Nat) (hwr : wr ≤ 64) :
    (v <<< wr) % U64 = (v % 2 ^ (64 - wr)) * 2 ^ wr := by
  have : U64 = 2 ^ (64 - wr) * 2 ^ wr := by
    rw [← Nat.pow_add]; unfold U64; congr 1; omega
  rw [Nat.shiftLeft_eq, this, Nat.mul_mod_mul_right]

theorem packInv_write (w : Nat) (p : Packer) (vals : List Nat) (v : Nat)
    (hw : w ≤ 64) (hv : v < 2 ^ w) (inv : PackInv w p vals) : PackInv w (p.write v w) (vals ++ [v]) := by
  obtain ⟨hwr, hmini, hok, hbits, hval⟩ := inv
  have hC : 2 ^ (64 - p.written) * 2 ^ p.written = 2 ^ 64 := by rw [← Nat.pow_add]; congr 1; omega
  have hsplit : v = v % 2 ^ (64 - p.written) + 2 ^ (64 - p.written) * (v / 2 ^ (64 - p.written)) :=
    (Nat.mod_add_div v _).symm
  have hpow : 2 ^ (w * vals.length) = 2 ^ (8 * p.out.length) * 2 ^ p.written := by
    rw [← Nat.pow_add, hbits]
  have hm := shl_mod_u64 v p.written (by omega)
  have hor := @or_shift_eq_add p.mini p.written (v % 2 ^ (64 - p.written)) hmini
  have ha : v % 2 ^ (64 - p.written) < 2 ^ (64 - p.written) := Nat.mod_lt _ (Nat.two_pow_pos _)
  have hmlt : v % 2 ^ (64 - p.written) * 2 ^ p.written + p.mini < 2 ^ 64 := by
    have : (v % 2 ^ (64 - p.written) + 1) * 2 ^ p.written ≤ 2 ^ (64 - p.written) * 2 ^ p.written :=
      Nat.mul_le_mul_right _ ha
    rw [hC, Nat.add_mul, Nat.one_mul] at this
    omega
  unfold Packer.write
  by_cases h1 : p.written + w > 64
  · simp only [h1, if_true]
    rw [hm, hor]
    refine ⟨by simp only; omega, ?_, hok.append (leBytes_ok _ _), ?_, ?_⟩
    · -- v / 2^(64-wr) < 2^(wr + w - 64)
      simp only [Nat.shiftRight_eq_div_pow]
      apply Nat.div_lt_of_lt_mul
      rw [← Nat.pow_add]
      have : 64 - p.written + (p.written + w - 64) = w := by omega
      rw [this]; exact hv
    · simp only [List.length_append, List.length_cons, List.length_nil, Nat.zero_add, leBytes_length, Nat.mul_succ]; omega
    · simp only [List.length_append, leBytes_length, Nat.shiftRight_eq_div_pow]
      rw [leNat_append, leNat_leBytes, pow256, pow256, Nat.mod_eq_of_lt (by simpa using hmlt),
        packNat_snoc, ← hval, hpow]
      have e8 : 2 ^ (8 * (p.out.length + 8)) = 2 ^ (8 * p.out.length) * (2 ^ (64 - p.written) * 2 ^ p.written) := by
        rw [hC, Nat.mul_add, Nat.pow_add]
      rw [e8]
      generalize 2 ^ (8 * p.out.length) = A
      generalize 2 ^ p.written = B
      generalize 2 ^ (64 - p.written) = C at *
      generalize v / C = q at *
      generalize v % C = a at *
      subst hsplit
      grind
  · simp only [h1, if_false]
    have hwle : p.written + w ≤ 64 := by omega
    -- no bit is lost: v < 2^(64 - written)
    have hvlt : v < 2 ^ (64 - p.written) := by
      apply Nat.lt_of_lt_of_le hv
      apply Nat.pow_le_pow_right (by decide)
      omega
    have hmodv : v % 2 ^ (64 - p.written) = v := Nat.mod_eq_of_lt hvlt
    rw [hm, hor, hmodv]
    rw [hmodv] at hmlt
    by_cases h2 : p.written + w = 64
    · simp only [h2, if_true]
      refine ⟨by simp, by simp, hok.append (leBytes_ok _ _), ?_, ?_⟩
      · simp only [List.length_append, List.length_cons, List.length_nil, Nat.zero_add, leBytes_length, Nat.mul_succ]; omega
      · simp only [List.length_append, leBytes_length]
        rw [leNat_append, leNat_leBytes, pow256, pow256, Nat.mod_eq_of_lt (by simpa using hmlt),
          packNat_snoc, ← hval, hpow]
        generalize 2 ^ (8 * p.out.length) = A
        generalize 2 ^ p.written = B
        grind
    · simp only [h2, if_false]
      refine ⟨by simp only; omega, ?_, hok, ?_, ?_⟩
      · simp only
        rw [Nat.pow_add]
        have : (v + 1) * 2 ^ p.written ≤ 2 ^ w * 2 ^ p.written := Nat.mul_le_mul_right _ hv
        rw [Nat.add_mul, Nat.one_mul] at this
        rw [Nat.mul_comm (2 ^ p.written)]
        omega
      · simp only [List.length_append, List.length_cons, List.length_nil, Nat.zero_add, Nat.mul_succ]; omega
      · simp only
        rw [packNat_snoc, ← hval, hpow]
        generalize 2 ^ (8 * p.out.length) = A
        generalize 2 ^ p.written = B
        grind

theorem packInv_writeAll (w : Nat) (hw : w ≤ 64) (vals : List Nat) (h : ∀ v ∈ vals, v < 2 ^ w)
    (p : Packer) (done : List Nat) (inv : PackInv w p done) :
    PackInv w (p.writeAll w vals) (done ++ vals) := by
  induction vals generalizing p done with
  | nil => simpa [Packer.writeAll] using inv
  | cons v vs ih =>
    have := ih (fun x hx => h x (by simp [hx])) (p.write v w) (done ++ [v])
      (packInv_write w p done v hw (h v (by simp)) inv)
    simpa [Packer.writeAll] using this

/-- the closed stream denotes the packed number, has the minimal length and only byte digits -/
theorem pack_spec (w : Nat) (hw : w ≤ 64) (vals : List Nat) (h : ∀ v ∈ vals, v < 2 ^ w) :
    leNat (pack w vals) = packNat w vals ∧ BytesOk (pack w vals)
      ∧ (pack w vals).length = (w * vals.length + 7) / 8 := by
  have inv := packInv_writeAll w hw vals h Packer.new [] (packInv_new w)
  simp only [List.nil_append] at inv
  obtain ⟨hwr, hmini, hok, hbits, hval⟩ := inv
  unfold pack Packer.close
  generalize Packer.new.writeAll w vals = p at *
  by_cases h0 : p.written > 0
  · simp only [h0, if_true]
    have hlt : p.mini < 256 ^ ((p.written + 7) / 8) := by
      rw [pow256]
      apply Nat.lt_of_lt_of_le hmini
      apply Nat.pow_le_pow_right (by decide); omega
    refine ⟨?_, hok.append (leBytes_ok _ _), ?_⟩
    · rw [leNat_append, leNat_leBytes, Nat.mod_eq_of_lt hlt, pow256]; exact hval
    · simp only [List.length_append, leBytes_length]; omega
  · simp only [h0, if_false]
    have hz : p.written = 0 := by omega
    rw [hz] at hmini hbits
    have hm0 : p.mini = 0 := by simpa using hmini
    refine ⟨?_, hok, by omega⟩
    rw [← hval, hm0]; simp

/-! ## the unpacker -/

theorem mod_div_mod (n s w : Nat) (h : s + w ≤ 64) : n % 2 ^ 64 / 2 ^ s % 2 ^ w = n / 2 ^ s % 2 ^ w := by
  have e : 2 ^ 64 = 2 ^ s * 2 ^ (64 - s) := by rw [← Nat.pow_add]; congr 1; omega
  rw [e, Nat.mod_mul_right_div_self]
  apply Nat.mod_mod_of_dvd
  exact Nat.pow_dvd_pow 2 (by omega)

theorem widthOk_iff (w : Nat) : unpackerWidthOk w = true ↔ (w ≤ 56 ∨ w = 64) := by
  unfold unpackerWidthOk Gen.UNPACKER_MAX_NARROW_BITS Gen.UNPACKER_WIDE_BITS
  rw [Bool.or_eq_true, decide_eq_true_eq, decide_eq_true_eq]

theorem unpackGet_spec (w i : Nat) (data : Bytes) (hok : BytesOk data) (hw : unpackerWidthOk w = true) :
    unpackGet w i data = leNat data / 2 ^ (i * w) % 2 ^ w := by
  have hw' : w ≤ 56 ∨ w = 64 := by
    exact (widthOk_iff w).mp hw
  unfold unpackGet
  simp only
  by_cases h0 : i * w / 8 + 8 > data.length ∧ w = 0
  · obtain ⟨ha, hb⟩ := h0
    subst hb
    simp [unpackMask, Nat.mod_one]
  · simp only [h0, if_false]
    rw [leNat_take (hok.drop _), leNat_drop hok, Nat.shiftRight_eq_div_pow, pow256, pow256]
    have hmask : ∀ x, x &&& unpackMask w = x % 2 ^ w := by
      intro x
      unfold unpackMask
      split
      · next h => subst h; unfold U64; exact Nat.and_two_pow_sub_one_eq_mod x 64
      · exact Nat.and_two_pow_sub_one_eq_mod x w
    rw [hmask]
    have hsw : i * w % 8 + w ≤ 64 := by
      rcases hw' with h | h
      · have := Nat.mod_lt (i * w) (by decide : 0 < 8); omega
      · subst h; omega
    show leNat data / 2 ^ (8 * (i * w / 8)) % 2 ^ (8 * 8) / 2 ^ (i * w % 8) % 2 ^ w = _
    rw [mod_div_mod _ _ _ hsw, Nat.div_div_eq_div_mul, ← Nat.pow_add]
    congr 3
    omega

/-- `get i` on the packed stream is the i-th value -/
theorem unpack_pack (w : Nat) (hw : unpackerWidthOk w = true) (vals : List Nat)
    (h : ∀ v ∈ vals, v < 2 ^ w) (i : Nat) (hi : i < vals.length) :
    unpackGet w i (pack w vals) = vals[i] := by
  have hw64 : w ≤ 64 := by
    have : w ≤ 56 ∨ w = 64 := by
      exact (widthOk_iff w).mp hw
    omega
  obtain ⟨hval, hok, _⟩ := pack_spec w hw64 vals h
  rw [unpackGet_spec w i _ hok hw, hval, packNat_get w vals h i hi]

/-- trailing bytes after the stream (next block, footer, padding) do not disturb a read as long
as they are bytes: only digit `i` of the prefix matters -/
theorem unpackGet_append (w : Nat) (hw : unpackerWidthOk w = true) (vals : List Nat)
    (h : ∀ v ∈ vals, v < 2 ^ w) (rest : Bytes) (hrest : BytesOk rest)
    (hfull : 8 ∣ w * vals.length) (i : Nat) (hi : i < vals.length) :
    unpackGet w i (pack w vals ++ rest) = vals[i] := by
  have hw64 : w ≤ 64 := by
    have : w ≤ 56 ∨ w = 64 := by
      exact (widthOk_iff w).mp hw
    omega
  obtain ⟨hval, hok, hlen⟩ := pack_spec w hw64 vals h
  rw [unpackGet_spec w i _ (hok.append hrest) hw, leNat_append, hval, hlen, pow256]
  obtain ⟨k, hk⟩ := hfull
  have e : 8 * ((w * vals.length + 7) / 8) = w * vals.length := by omega
  rw [e]
  -- packNat + 2^(w n) * R : digit i < n unaffected
  have hsplit : vals = vals.take (i + 1) ++ vals.drop (i + 1) := (List.take_append_drop _ _).symm
  have key : ∀ R, (packNat w vals + 2 ^ (w * vals.length) * R) / 2 ^ (i * w) % 2 ^ w
      = packNat w vals / 2 ^ (i * w) % 2 ^ w := by
    intro R
    have hle : i * w + w ≤ w * vals.length := by
      have : (i + 1) * w ≤ vals.length * w := Nat.mul_le_mul_right _ hi
      rw [Nat.succ_mul] at this; rw [Nat.mul_comm w]; exact this
    have e2 : 2 ^ (w * vals.length) = 2 ^ (i * w) * (2 ^ w * 2 ^ (w * vals.length - (i * w + w))) := by
      rw [← Nat.pow_add, ← Nat.pow_add]; congr 1; omega
    rw [e2, Nat.mul_assoc, Nat.add_mul_div_left _ _ (Nat.two_pow_pos _), Nat.mul_assoc,
      Nat.add_mul_mod_self_left]
  rw [key, packNat_get w vals h i hi]

/-- the same for any closed stream (the last byte may hold padding bits): bytes after the stream do
not disturb a read of a value that lies inside it -/
theorem unpackGet_append_any (w : Nat) (hw : unpackerWidthOk w = true) (vals : List Nat)
    (h : ∀ v ∈ vals, v < 2 ^ w) (rest : Bytes) (hrest : BytesOk rest) (i : Nat) (hi : i < vals.length) :
    unpackGet w i (pack w vals ++ rest) = vals[i] := by
  have hw64 : w ≤ 64 := by
    have : w ≤ 56 ∨ w = 64 := (widthOk_iff w).mp hw
    omega
  obtain ⟨hval, hok, hlen⟩ := pack_spec w hw64 vals h
  rw [unpackGet_spec w i _ (hok.append hrest) hw, leNat_append, hval, hlen, pow256]
  generalize hL : 8 * ((w * vals.length + 7) / 8) = L
  have hLge : w * vals.length ≤ L := by omega
  have key : ∀ R, (packNat w vals + 2 ^ L * R) / 2 ^ (i * w) % 2 ^ w
      = packNat w vals / 2 ^ (i * w) % 2 ^ w := by
    intro R
    have hle : i * w + w ≤ w * vals.length := by
      have : (i + 1) * w ≤ vals.length * w := Nat.mul_le_mul_right _ hi
      rw [Nat.succ_mul] at this; rw [Nat.mul_comm w]; exact this
    have e2 : 2 ^ L = 2 ^ (i * w) * (2 ^ w * 2 ^ (L - (i * w + w))) := by
      rw [← Nat.pow_add, ← Nat.pow_add]; congr 1; omega
    rw [e2, Nat.mul_assoc, Nat.add_mul_div_left _ _ (Nat.two_pow_pos _), Nat.mul_assoc,
      Nat.add_mul_mod_self_left]
  rw [key, packNat_get w vals h i hi]

end TantivyModel.Columnar
