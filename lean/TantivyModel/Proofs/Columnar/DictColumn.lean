import TantivyModel.Proofs.Columnar.DictMergeMain
import TantivyModel.Proofs.Columnar.Merge
/-!
The merged Str / Bytes column: merged dictionary + merged index + remapped ordinals resolve, row by
row, to the terms the old rows resolved to.
-/
namespace TantivyModel.Columnar
open TantivyModel

theorem readRow_map {V W : Type} (f : V → W) (idx : Index) (vals : List V) (r : Nat) :
    readRow idx (vals.map f) r = (readRow idx vals r).map f := by
  simp [readRow, List.map_drop, List.map_take]

theorem inputRow_remap (dm : DictMerge) (ins : List DictInput) (a : Nat × Nat) :
    inputRow (ins.mapIdx (fun s d => remapInput dm s d.ords)) a
      = (inputRow (ins.map (·.ords)) a).map (fun o => (remapOrd dm a.1 o).getD 0) := by
  unfold inputRow
  rw [List.getElem?_mapIdx, List.getElem?_map]
  cases h : ins[a.1]? with
  | none => simp
  | some d =>
    simp only [Option.map_some]
    have hidx : (remapInput dm a.1 d.ords).index = d.ords.index := by
      unfold remapInput MergeInput.index
      cases d.ords.col <;> simp
    have hvals : (remapInput dm a.1 d.ords).vals = d.ords.vals.map (fun o => (remapOrd dm a.1 o).getD 0) := by
      unfold remapInput MergeInput.vals
      cases d.ords.col <;> simp
    rw [hidx, hvals, readRow_map]

theorem fits_map_rows {V W : Type} (card : Card) (rows : Column V) (rows' : Column W)
    (h : rows'.map List.length = rows.map List.length) (hf : card.fits rows) : card.fits rows' := by
  have key : ∀ r' ∈ rows', ∃ r ∈ rows, r'.length = r.length := by
    intro r' hr'
    have : r'.length ∈ rows.map List.length := by rw [← h]; exact List.mem_map_of_mem hr'
    obtain ⟨r, hr, e⟩ := List.mem_map.mp this
    exact ⟨r, hr, e.symm⟩
  cases card with
  | full => intro r' hr'; obtain ⟨r, hr, e⟩ := key r' hr'; rw [e]; exact hf r hr
  | optional => intro r' hr'; obtain ⟨r, hr, e⟩ := key r' hr'; rw [e]; exact hf r hr
  | multivalued => trivial

theorem rowAt_readTerms (ins : List DictInput) (a : Nat × Nat) :
    rowAt (ins.map DictInput.readTerms) a
      = (rowAt ((ins.map (·.ords)).map MergeInput.read) a).map (fun o => ((ins.map (·.dict)).getD a.1 [])[o]?) := by
  unfold rowAt
  simp only [List.getD_eq_getElem?_getD, List.getElem?_map]
  cases h : ins[a.1]? with
  | none => simp
  | some d =>
    simp only [Option.map_some, Option.getD_some, DictInput.readTerms, List.getElem?_map]
    cases (d.ords.read)[a.2]? <;> simp

theorem mergeDictColumn_spec (card : Card) (used : Nat → Nat → Bool) (order : List (Nat × Nat)) (ins : List DictInput)
    (hdict : ∀ d ∈ ins, d.dict.Pairwise (· < ·))
    (hvalid : ∀ a ∈ order, validAddr (ins.map (·.ords)) a)
    (hfit : card.fits (order.map (inputRow (ins.map (·.ords)))))
    (hords : ∀ a ∈ order, ∀ o ∈ inputRow (ins.map (·.ords)) a, o < ((ins.map (·.dict)).getD a.1 []).length)
    (hused : ∀ a ∈ order, ∀ o ∈ inputRow (ins.map (·.ords)) a, used a.1 o = true) :
    readTerms (mergeDictColumnAs card used order ins).1 (mergeDictColumnAs card used order ins).2.1
        (mergeDictColumnAs card used order ins).2.2
      = mergeSpec order (ins.map DictInput.readTerms) := by
  unfold mergeDictColumnAs readTerms
  simp only
  generalize hdm : mergeDicts used (ins.map (·.dict)) = dm
  have hfit' : card.fits (order.map (inputRow (ins.mapIdx (fun s d => remapInput dm s d.ords)))) := by
    apply fits_map_rows card _ _ _ hfit
    simp only [List.map_map]
    apply List.map_congr_left
    intro a _
    simp [inputRow_remap]
  rw [read_mergeShuffledAs card order _ hfit']
  unfold mergeSpec
  rw [List.map_map]
  apply List.map_congr_left
  intro a ha
  simp only [Function.comp]
  rw [inputRow_remap, rowAt_readTerms, ← inputRow_eq_rowAt _ a (hvalid a ha), List.map_map]
  apply List.map_congr_left
  intro o ho
  simp only [Function.comp]
  have hs : a.1 < (ins.map (·.dict)).length := by
    obtain ⟨m, hm, _⟩ := hvalid a ha
    have : a.1 < (ins.map (·.ords)).length := (List.getElem?_eq_some_iff.mp hm).1
    simpa using this
  have hds : ∀ d ∈ ins.map (·.dict), d.Pairwise (· < ·) := by
    intro d hd
    obtain ⟨x, hx, rfl⟩ := List.mem_map.mp hd
    exact hdict x hx
  obtain ⟨n, hn, hm⟩ := remapOrd_spec used (ins.map (·.dict)) hds a.1 o hs (hords a ha o ho) (hused a ha o ho)
  rw [hdm] at hn hm
  rw [hn]
  exact hm

/-- every ordinal of a surviving row is in its segment's term bitset (or the segment has none), as
soon as the surviving rows are among the alive rows the merge was given -/
theorem usedOf_order (alive : List (Option (List Nat))) (ins : List DictInput) (order : List (Nat × Nat))
    (halive : ∀ a ∈ order, ∀ rows, alive.getD a.1 none = some rows → a.2 ∈ rows) :
    ∀ a ∈ order, ∀ o ∈ inputRow (ins.map (·.ords)) a, usedOf alive ins a.1 o = true := by
  intro a ha o ho
  unfold usedOf
  cases hal : alive.getD a.1 none with
  | none => rfl
  | some rows =>
    cases hd : ins[a.1]? with
    | none => rfl
    | some d =>
      simp only
      split
      · unfold termBitset
        rw [List.any_eq_true]
        refine ⟨a.2, halive a ha rows hal, ?_⟩
        unfold inputRow at ho
        rw [List.getElem?_map, hd] at ho
        simp only [Option.map_some] at ho
        simpa using ho
      · rfl

/-- the merged Str / Bytes column with the term bitsets computed by the model -/
theorem mergeDictColumn_alive (card : Card) (alive : List (Option (List Nat))) (order : List (Nat × Nat))
    (ins : List DictInput)
    (hdict : ∀ d ∈ ins, d.dict.Pairwise (· < ·))
    (hvalid : ∀ a ∈ order, validAddr (ins.map (·.ords)) a)
    (hfit : card.fits (order.map (inputRow (ins.map (·.ords)))))
    (hords : ∀ a ∈ order, ∀ o ∈ inputRow (ins.map (·.ords)) a, o < ((ins.map (·.dict)).getD a.1 []).length)
    (halive : ∀ a ∈ order, ∀ rows, alive.getD a.1 none = some rows → a.2 ∈ rows) :
    readTerms (mergeDictColumnAs card (usedOf alive ins) order ins).1
        (mergeDictColumnAs card (usedOf alive ins) order ins).2.1
        (mergeDictColumnAs card (usedOf alive ins) order ins).2.2
      = mergeSpec order (ins.map DictInput.readTerms) :=
  mergeDictColumn_spec card (usedOf alive ins) order ins hdict hvalid hfit hords (usedOf_order alive ins order halive)

end TantivyModel.Columnar
