import TantivyModel.Model.Columnar.DictMerge
import TantivyModel.Proofs.Columnar.Codec
/-!
Dictionary merge: the merged dictionary is strictly increasing, and every (segment, old ordinal) a
surviving row uses is registered to a new ordinal that holds the same term.
-/
namespace TantivyModel.Columnar
open TantivyModel

/-! ## generic facts -/

theorem sorted_head_le (l : List Nat) (hs : l.Pairwise (· < ·)) (h : Nat) (hh : l.head? = some h) :
    (∀ y ∈ l, h ≤ y) ∧ (∀ y ∈ l.tail, h < y) := by
  cases l with
  | nil => simp at hh
  | cons a as =>
    simp at hh; subst hh
    have := (List.pairwise_cons.mp hs).1
    refine ⟨?_, by simpa using this⟩
    intro y hy
    rcases List.mem_cons.mp hy with rfl | hy'
    · exact Nat.le_refl _
    · exact Nat.le_of_lt (this y hy')

theorem sum_map_lt {α : Type} (l : List α) (g h : α → Nat) (hle : ∀ x ∈ l, g x ≤ h x) (hlt : ∃ x ∈ l, g x < h x) :
    (l.map g).sum < (l.map h).sum := by
  induction l with
  | nil => obtain ⟨x, hx, _⟩ := hlt; simp at hx
  | cons a as ih =>
    simp only [List.map_cons, List.sum_cons]
    have ha := hle a (by simp)
    have hrest : (as.map g).sum ≤ (as.map h).sum := by
      clear ih hlt
      induction as with
      | nil => simp
      | cons b bs ihb =>
        simp only [List.map_cons, List.sum_cons]
        have := hle b (by simp)
        have := ihb (fun x hx => hle x (by
          rcases List.mem_cons.mp hx with rfl | hx'
          · simp
          · simp [hx']))
        omega
    obtain ⟨x, hx, hxl⟩ := hlt
    rcases List.mem_cons.mp hx with rfl | hx'
    · omega
    · have := ih (fun y hy => hle y (by simp [hy])) ⟨x, hx', hxl⟩
      omega

/-- the smallest head: it is the head of some stream and no head is smaller -/
theorem minHead_spec (rem : List (List Nat)) (m : Nat) (h : minHead rem = some m) :
    (∃ s, s < rem.length ∧ (rem.getD s []).head? = some m) ∧
    (∀ s k, (rem.getD s []).head? = some k → m ≤ k) := by
  unfold minHead at h
  cases hf : rem.filterMap List.head? with
  | nil => rw [hf] at h; cases h
  | cons a l =>
    rw [hf] at h
    simp only [Option.some.injEq] at h
    have hmem : m ∈ rem.filterMap List.head? := by
      rw [hf, ← h]
      rcases foldl_min_mem l a with e | e
      · rw [e]; simp
      · simp [e]
    have hle : ∀ k ∈ rem.filterMap List.head?, m ≤ k := by
      intro k hk
      rw [hf] at hk
      rw [← h]
      rcases List.mem_cons.mp hk with rfl | hk'
      · exact (foldl_min_le l k).1
      · exact (foldl_min_le l a).2 k hk'
    refine ⟨?_, ?_⟩
    · obtain ⟨x, hx, hxm⟩ := List.mem_filterMap.mp hmem
      obtain ⟨s, hs, rfl⟩ := List.getElem_of_mem hx
      exact ⟨s, hs, by simp [List.getD_eq_getElem?_getD, hs, hxm]⟩
    · intro s k hk
      apply hle
      apply List.mem_filterMap.mpr
      by_cases hs : s < rem.length
      · exact ⟨rem[s], List.getElem_mem hs, by simpa [List.getD_eq_getElem?_getD, hs] using hk⟩
      · have : rem.getD s [] = [] := by simp [List.getD_eq_getElem?_getD, Nat.le_of_not_lt hs]
        rw [this] at hk; simp at hk

theorem minHead_none (rem : List (List Nat)) (h : minHead rem = none) : ∀ s, rem.getD s [] = [] := by
  unfold minHead at h
  cases hf : rem.filterMap List.head? with
  | cons a l => rw [hf] at h; cases h
  | nil =>
    intro s
    by_cases hs : s < rem.length
    · have hx : rem[s] ∈ rem := List.getElem_mem hs
      cases hr : rem[s] with
      | nil => simp [List.getD_eq_getElem?_getD, hs, hr]
      | cons b bs =>
        have : b ∈ rem.filterMap List.head? := List.mem_filterMap.mpr ⟨rem[s], hx, by simp [hr]⟩
        rw [hf] at this; simp at this
    · simp [List.getD_eq_getElem?_getD, Nat.le_of_not_lt hs]

/-! ## the invariant -/

structure DMInv (used : Nat → Nat → Bool) (ds : List (List Nat)) (st : DictMerge) : Prop where
  len_rem : st.rem.length = ds.length
  len_ords : st.ords.length = ds.length
  rem_eq : ∀ s, s < ds.length → st.rem.getD s [] = (ds.getD s []).drop (st.ords.getD s 0)
  cur_eq : st.cur = st.merged.length
  sorted : st.merged.Pairwise (· < ·)
  below : ∀ x ∈ st.merged, ∀ s, s < ds.length → ∀ y ∈ st.rem.getD s [], x < y
  map_ok : ∀ e ∈ st.map, e.1 < ds.length ∧ e.2.1 < (ds.getD e.1 []).length ∧
    st.merged[e.2.2]? = (ds.getD e.1 [])[e.2.1]?
  map_all : ∀ s o, s < ds.length → o < st.ords.getD s 0 → o < (ds.getD s []).length → used s o = true →
    ∃ n, (s, o, n) ∈ st.map

def remTotal (st : DictMerge) : Nat := (st.rem.map List.length).sum

theorem dm_init (used : Nat → Nat → Bool) (ds : List (List Nat)) :
    DMInv used ds { rem := ds, ords := List.replicate ds.length 0, cur := 0, merged := [], map := [] } := by
  refine ⟨rfl, by simp, ?_, rfl, by simp, by simp, by simp, ?_⟩
  · intro s hs; simp [List.getD_eq_getElem?_getD, hs]
  · intro s o hs ho; simp [List.getD_eq_getElem?_getD, hs] at ho

theorem getD_map_step (rem : List (List Nat)) (m s : Nat) :
    (rem.map (fun l => if l.head? == some m then l.tail else l)).getD s []
      = (if (rem.getD s []).head? == some m then (rem.getD s []).tail else rem.getD s []) := by
  by_cases hs : s < rem.length
  · simp [List.getD_eq_getElem?_getD, hs]
  · simp [List.getD_eq_getElem?_getD, Nat.le_of_not_lt hs]

theorem getD_ords_step (rem : List (List Nat)) (ords : List Nat) (m s : Nat) (hs : s < rem.length) :
    ((List.range rem.length).map (fun s => if onKey rem m s then ords.getD s 0 + 1 else ords.getD s 0)).getD s 0
      = (if onKey rem m s then ords.getD s 0 + 1 else ords.getD s 0) := by
  simp [List.getD_eq_getElem?_getD, hs]

/-- one round preserves the invariant and consumes at least one term -/
theorem dm_step (used : Nat → Nat → Bool) (ds : List (List Nat)) (hds : ∀ d ∈ ds, d.Pairwise (· < ·))
    (st st' : DictMerge) (inv : DMInv used ds st) (hst : dictStep used st = some st') :
    DMInv used ds st' ∧ remTotal st' < remTotal st := by
  obtain ⟨hlr, hlo, hrem, hcur, hsorted, hbelow, hmapok, hmapall⟩ := inv
  unfold dictStep at hst
  cases hm : minHead st.rem with
  | none => rw [hm] at hst; cases hst
  | some m =>
    rw [hm] at hst
    simp only [Option.some.injEq] at hst
    obtain ⟨⟨s0, hs0, hs0h⟩, hmin⟩ := minHead_spec st.rem m hm
    -- every stream is a suffix of a sorted dictionary, hence sorted
    have hremsorted : ∀ s, s < ds.length → (st.rem.getD s []).Pairwise (· < ·) := by
      intro s hs
      rw [hrem s hs]
      have hd : (ds.getD s []).Pairwise (· < ·) := by
        have : ds.getD s [] = ds[s] := by simp [List.getD_eq_getElem?_getD, hs]
        rw [this]; exact hds _ (List.getElem_mem hs)
      exact hd.sublist (List.drop_sublist _ _)
    -- after the round every remaining key is above m
    have habove : ∀ s, s < ds.length → ∀ y ∈ (if (st.rem.getD s []).head? == some m then (st.rem.getD s []).tail else st.rem.getD s []), m < y := by
      intro s hs y hy
      by_cases hk : (st.rem.getD s []).head? = some m
      · simp only [hk, beq_self_eq_true, if_true] at hy
        exact (sorted_head_le _ (hremsorted s hs) m hk).2 y hy
      · have hk' : ((st.rem.getD s []).head? == some m) = false := by simpa using hk
        simp only [hk', Bool.false_eq_true, if_false] at hy
        cases hl : st.rem.getD s [] with
        | nil => rw [hl] at hy; simp at hy
        | cons a as =>
          have hha : (st.rem.getD s []).head? = some a := by rw [hl]; rfl
          have h1 := hmin s a hha
          have h2 : a ≠ m := fun e => hk (by rw [hha, e])
          have h3 := (sorted_head_le _ (hremsorted s hs) a hha).1 y (by rw [hl] at hy ⊢; exact hy)
          omega
    have hsum : (( st.rem.map (fun l => if l.head? == some m then l.tail else l)).map List.length).sum < remTotal st := by
      unfold remTotal
      rw [List.map_map]
      apply sum_map_lt
      · intro l _
        simp only [Function.comp]
        split
        · simp
        · exact Nat.le_refl _
      · have hx : st.rem[s0] ∈ st.rem := List.getElem_mem hs0
        have hh : st.rem[s0].head? = some m := by simpa [List.getD_eq_getElem?_getD, hs0] using hs0h
        refine ⟨st.rem[s0], hx, ?_⟩
        simp only [Function.comp, hh, beq_self_eq_true, if_true]
        cases hl : st.rem[s0] with
        | nil => rw [hl] at hh; simp at hh
        | cons a as => simp
    -- the new streams and ordinals
    have hrem' : ∀ s, s < ds.length →
        (st.rem.map (fun l => if l.head? == some m then l.tail else l)).getD s []
          = (ds.getD s []).drop (((List.range st.rem.length).map (fun s => if onKey st.rem m s then st.ords.getD s 0 + 1 else st.ords.getD s 0)).getD s 0) := by
      intro s hs
      rw [getD_map_step, getD_ords_step st.rem st.ords m s (by omega)]
      unfold onKey
      by_cases hk : (st.rem.getD s []).head? = some m
      · simp only [hk, beq_self_eq_true, if_true]
        rw [hrem s hs, List.tail_drop]
      · have hk' : ((st.rem.getD s []).head? == some m) = false := by simpa using hk
        simp only [hk', Bool.false_eq_true, if_false]
        exact hrem s hs
    have hmapall' : ∀ (mp : List (Nat × Nat × Nat)), (∀ e ∈ st.map, e ∈ mp) →
        (∀ s, s < ds.length → onKey st.rem m s = true → used s (st.ords.getD s 0) = true → (s, st.ords.getD s 0, st.cur) ∈ mp) →
        ∀ s o, s < ds.length →
          o < ((List.range st.rem.length).map (fun s => if onKey st.rem m s then st.ords.getD s 0 + 1 else st.ords.getD s 0)).getD s 0 →
          o < (ds.getD s []).length → used s o = true → ∃ n, (s, o, n) ∈ mp := by
      intro mp hsub hnew s o hs ho hol hu
      rw [getD_ords_step st.rem st.ords m s (by omega)] at ho
      by_cases hk : onKey st.rem m s = true
      · simp only [hk, if_true] at ho
        rcases Nat.lt_or_ge o (st.ords.getD s 0) with h | h
        · obtain ⟨n, hn⟩ := hmapall s o hs h hol hu
          exact ⟨n, hsub _ hn⟩
        · have : o = st.ords.getD s 0 := by omega
          subst this
          exact ⟨st.cur, hnew s hs hk hu⟩
      · have hk' : onKey st.rem m s = false := by simpa using hk
        simp only [hk', Bool.false_eq_true, if_false] at ho
        obtain ⟨n, hn⟩ := hmapall s o hs ho hol hu
        exact ⟨n, hsub _ hn⟩
    by_cases hkeep : ((List.range st.rem.length).filter (onKey st.rem m)).any (fun s => used s (st.ords.getD s 0)) = true
    · simp only [hkeep, if_true] at hst
      subst hst
      refine ⟨⟨by simp [hlr], by simp [hlr], hrem', by simp [hcur], ?_, ?_, ?_, ?_⟩, hsum⟩
      · -- merged ++ [m] sorted
        apply List.pairwise_append.mpr
        refine ⟨hsorted, by simp, ?_⟩
        intro x hx y hy
        simp at hy; subst hy
        exact hbelow x hx s0 (by omega) y (by
          cases hl : st.rem.getD s0 [] with
          | nil => rw [hl] at hs0h; simp at hs0h
          | cons a as => rw [hl] at hs0h; simp at hs0h; subst hs0h; simp)
      · intro x hx s hs y hy
        simp only at hy
        rw [getD_map_step] at hy
        rcases List.mem_append.mp hx with hx' | hx'
        · have : y ∈ st.rem.getD s [] := by
            split at hy
            · exact List.mem_of_mem_tail hy
            · exact hy
          exact hbelow x hx' s hs y this
        · simp at hx'; subst hx'
          exact habove s hs y hy
      · intro e he
        simp only at he ⊢
        rcases List.mem_append.mp he with he' | he'
        · obtain ⟨h1, h2, h3⟩ := hmapok e he'
          refine ⟨h1, h2, ?_⟩
          have hlt : e.2.2 < st.merged.length := by
            rcases Nat.lt_or_ge e.2.2 st.merged.length with h | h
            · exact h
            · rw [List.getElem?_eq_none h] at h3
              rw [List.getElem?_eq_getElem h2] at h3; cases h3
          rw [List.getElem?_append_left hlt]; exact h3
        · obtain ⟨s, hsm, rfl⟩ := List.mem_map.mp he'
          have hsf := List.mem_filter.mp hsm
          have hs : s < ds.length := by have := List.mem_range.mp hsf.1; omega
          have hk : (st.rem.getD s []).head? = some m := by
            have := hsf.2; unfold onKey at this; simpa using this
          have hdrop := hrem s hs
          rw [hdrop] at hk
          have hlt : st.ords.getD s 0 < (ds.getD s []).length := by
            rcases Nat.lt_or_ge (st.ords.getD s 0) (ds.getD s []).length with h | h
            · exact h
            · rw [List.drop_eq_nil_of_le h] at hk; simp at hk
          refine ⟨hs, hlt, ?_⟩
          simp only
          rw [hcur, List.getElem?_append_right (Nat.le_refl _)]
          simp only [Nat.sub_self, List.getElem?_cons_zero]
          rw [List.head?_drop] at hk
          exact hk.symm
      · apply hmapall'
        · intro e he; exact List.mem_append_left _ he
        · intro s hs hk _
          apply List.mem_append_right
          exact List.mem_map.mpr ⟨s, List.mem_filter.mpr ⟨List.mem_range.mpr (by omega), hk⟩, rfl⟩
    · have hkeep' : ((List.range st.rem.length).filter (onKey st.rem m)).any (fun s => used s (st.ords.getD s 0)) = false := by
        simpa using hkeep
      simp only [hkeep', Bool.false_eq_true, if_false] at hst
      subst hst
      refine ⟨⟨by simp [hlr], by simp [hlr], hrem', hcur, hsorted, ?_, hmapok, ?_⟩, hsum⟩
      · intro x hx s hs y hy
        simp only at hy
        rw [getD_map_step] at hy
        have : y ∈ st.rem.getD s [] := by
          split at hy
          · exact List.mem_of_mem_tail hy
          · exact hy
        exact hbelow x hx s hs y this
      · apply hmapall' st.map (fun e he => he)
        intro s hs hk hu
        exfalso
        have := List.any_eq_false.mp hkeep' s (List.mem_filter.mpr ⟨List.mem_range.mpr (by omega), hk⟩)
        exact this hu

end TantivyModel.Columnar
