import TantivyModel.Proofs.Columnar.BitPacker
/-!
Stats (min / max / gcd), compute_num_bits, the bitpacked codec and the linear codecs.
-/
namespace TantivyModel.Columnar
open TantivyModel

/-! ## compute_num_bits -/

theorem computeNumBits_ok (n : Nat) : unpackerWidthOk (computeNumBits n) = true := by
  rw [widthOk_iff]
  unfold computeNumBits Gen.BITPACK_MAX_NARROW_BITS Gen.BITPACK_WIDE_BITS
  simp only
  generalize (if n = 0 then 0 else Nat.log2 n + 1) = a
  split <;> omega

theorem lt_two_pow_computeNumBits (n : Nat) (hn : n < 2 ^ 64) : n < 2 ^ computeNumBits n := by
  unfold computeNumBits Gen.BITPACK_MAX_NARROW_BITS Gen.BITPACK_WIDE_BITS
  by_cases h0 : n = 0
  · subst h0; simp
  · simp only [h0, if_false]
    split
    · exact Nat.lt_log2_self
    · exact hn

/-! ## min / max / gcd -/

theorem foldl_min_le (l : List Nat) (a : Nat) :
    l.foldl Nat.min a ≤ a ∧ ∀ v ∈ l, l.foldl Nat.min a ≤ v := by
  induction l generalizing a with
  | nil => simp
  | cons x xs ih =>
    simp only [List.foldl_cons, List.mem_cons]
    have h := ih (Nat.min a x)
    have h1 : Nat.min a x ≤ a := Nat.min_le_left a x
    have h2 : Nat.min a x ≤ x := Nat.min_le_right a x
    refine ⟨Nat.le_trans h.1 h1, ?_⟩
    intro v hv
    rcases hv with rfl | hv
    · exact Nat.le_trans h.1 h2
    · exact h.2 v hv

theorem foldl_max_ge (l : List Nat) (a : Nat) :
    a ≤ l.foldl Nat.max a ∧ ∀ v ∈ l, v ≤ l.foldl Nat.max a := by
  induction l generalizing a with
  | nil => simp
  | cons x xs ih =>
    simp only [List.foldl_cons, List.mem_cons]
    have h := ih (Nat.max a x)
    have h1 : a ≤ Nat.max a x := Nat.le_max_left a x
    have h2 : x ≤ Nat.max a x := Nat.le_max_right a x
    refine ⟨Nat.le_trans h1 h.1, ?_⟩
    intro v hv
    rcases hv with rfl | hv
    · exact Nat.le_trans h2 h.1
    · exact h.2 v hv

/-- the minimum is attained -/
theorem foldl_min_mem (l : List Nat) (a : Nat) : l.foldl Nat.min a = a ∨ l.foldl Nat.min a ∈ l := by
  induction l generalizing a with
  | nil => simp
  | cons x xs ih =>
    simp only [List.foldl_cons, List.mem_cons]
    rcases ih (Nat.min a x) with h | h
    · rw [h]
      rcases Nat.le_total a x with hax | hax
      · left; exact Nat.min_eq_left hax
      · right; left; exact Nat.min_eq_right hax
    · right; right; exact h

theorem foldl_max_mem (l : List Nat) (a : Nat) : l.foldl Nat.max a = a ∨ l.foldl Nat.max a ∈ l := by
  induction l generalizing a with
  | nil => simp
  | cons x xs ih =>
    simp only [List.foldl_cons, List.mem_cons]
    rcases ih (Nat.max a x) with h | h
    · rw [h]
      rcases Nat.le_total a x with hax | hax
      · right; left; exact Nat.max_eq_right hax
      · left; exact Nat.max_eq_left hax
    · right; right; exact h

def absDiff (a b : Nat) : Nat := if a ≥ b then a - b else b - a

theorem foldl_gcd_dvd (f : Nat) (l : List Nat) (g0 : Nat) :
    l.foldl (fun g v => Nat.gcd g (absDiff v f)) g0 ∣ g0 ∧
    ∀ v ∈ l, l.foldl (fun g v => Nat.gcd g (absDiff v f)) g0 ∣ absDiff v f := by
  induction l generalizing g0 with
  | nil => simp
  | cons x xs ih =>
    simp only [List.foldl_cons, List.mem_cons]
    have h := ih (Nat.gcd g0 (absDiff x f))
    refine ⟨Nat.dvd_trans h.1 (Nat.gcd_dvd_left _ _), ?_⟩
    intro v hv
    rcases hv with rfl | hv
    · exact Nat.dvd_trans h.1 (Nat.gcd_dvd_right _ _)
    · exact h.2 v hv

theorem dvd_sub_of_absDiff {g a b f : Nat} (ha : g ∣ absDiff a f) (hb : g ∣ absDiff b f) (hba : b ≤ a) :
    g ∣ a - b := by
  unfold absDiff at ha hb
  by_cases h1 : a ≥ f <;> by_cases h2 : b ≥ f <;> simp only [h1, h2, if_true, if_false] at ha hb
  · have : a - b = (a - f) - (b - f) := by omega
    rw [this]; exact Nat.dvd_sub ha hb
  · have : a - b = (a - f) + (f - b) := by omega
    rw [this]; exact Nat.dvd_add ha hb
  · omega
  · have : a - b = (f - b) - (f - a) := by omega
    rw [this]; exact Nat.dvd_sub hb ha

/-- min ≤ v ≤ max, min and max are attained, gcd ∣ v − min, gcd ≠ 0 -/
theorem collectStats_spec (vals : List Nat) :
    let s := collectStats vals
    s.numRows = vals.length ∧ s.gcd ≠ 0 ∧
    (∀ v ∈ vals, s.min ≤ v ∧ v ≤ s.max ∧ s.gcd ∣ v - s.min) ∧
    (vals ≠ [] → s.min ∈ vals ∧ s.max ∈ vals) := by
  cases vals with
  | nil => simp [collectStats]
  | cons first rest =>
    simp only [collectStats]
    have hmin := foldl_min_le rest first
    have hmax := foldl_max_ge rest first
    have hg := foldl_gcd_dvd first rest 0
    have hminmem : rest.foldl Nat.min first ∈ first :: rest := by
      rcases foldl_min_mem rest first with h | h
      · rw [h]; simp
      · simp [h]
    have hmaxmem : rest.foldl Nat.max first ∈ first :: rest := by
      rcases foldl_max_mem rest first with h | h
      · rw [h]; simp
      · simp [h]
    have hfun : (fun g v => Nat.gcd g (if v ≥ first then v - first else first - v))
        = (fun g v => Nat.gcd g (absDiff v first)) := by
      funext g v; rfl
    rw [hfun]
    generalize hG : rest.foldl (fun g v => Nat.gcd g (absDiff v first)) 0 = G at *
    -- G divides every |v − first| for v in first :: rest
    have hdv : ∀ v ∈ first :: rest, G ∣ absDiff v first := by
      intro v hv
      rcases List.mem_cons.mp hv with rfl | hv
      · simp [absDiff]
      · exact hg.2 v hv
    refine ⟨trivial, by split <;> omega, ?_, fun _ => ⟨hminmem, hmaxmem⟩⟩
    intro v hv
    have hle : rest.foldl Nat.min first ≤ v := by
      rcases List.mem_cons.mp hv with rfl | hv
      · exact hmin.1
      · exact hmin.2 v hv
    have hge : v ≤ rest.foldl Nat.max first := by
      rcases List.mem_cons.mp hv with rfl | hv
      · exact hmax.1
      · exact hmax.2 v hv
    refine ⟨hle, hge, ?_⟩
    split
    · exact Nat.one_dvd _
    · exact dvd_sub_of_absDiff (hdv v hv) (hdv _ hminmem) hle

/-! ## bitpacked codec -/

theorem bitpacked_exact (vals : List Nat) (hv : ∀ v ∈ vals, v < 2 ^ 64) (i : Nat) (hi : i < vals.length) :
    bitpackedGet (collectStats vals) (bitpackedPayload (collectStats vals) vals) i = vals[i] := by
  obtain ⟨_, hg0, hall, hmem⟩ := collectStats_spec vals
  generalize collectStats vals = s at *
  have hne : vals ≠ [] := by intro h; subst h; simp at hi
  have hmax64 : s.max < 2 ^ 64 := hv _ (hmem hne).2
  unfold bitpackedGet bitpackedPayload
  have hbound : ∀ x ∈ vals.map (fun v => (v - s.min) / s.gcd), x < 2 ^ bitpackedNumBits s := by
    intro x hx
    obtain ⟨v, hvm, rfl⟩ := List.mem_map.mp hx
    have h1 := hall v hvm
    have hle : (v - s.min) / s.gcd ≤ (s.max - s.min) / s.gcd := Nat.div_le_div_right (by omega)
    have hA : (s.max - s.min) / s.gcd < 2 ^ 64 :=
      Nat.lt_of_le_of_lt (Nat.div_le_self _ _) (by omega)
    exact Nat.lt_of_le_of_lt hle (lt_two_pow_computeNumBits _ hA)
  rw [unpack_pack (bitpackedNumBits s) (show unpackerWidthOk (bitpackedNumBits s) = true from computeNumBits_ok _) _ hbound i (by simpa using hi)]
  simp only [List.getElem_map]
  have h1 := hall vals[i] (List.getElem_mem hi)
  rw [Nat.mul_div_cancel' h1.2.2]
  omega

end TantivyModel.Columnar
