import TantivyModel.Proofs.Columnar.Codec
/-!
Linear codec: exact for *every* estimation line (wrapping `u64` arithmetic on `BitVec 64`):
the stored offset is `deviationᵢ − min_deviation ∈ [0, max_deviation − min_deviation]`.
-/
namespace TantivyModel.Columnar
open TantivyModel

theorem eval_final (l : Line) (m x : Nat) :
    (linearFinalLine l m).eval x = l.eval x + BitVec.ofNat 64 m - BitVec.ofNat 64 Gen.HALF_SPACE := by
  unfold linearFinalLine Line.eval
  simp only
  generalize (BitVec.signExtend 64 (BitVec.setWidth 32 ((BitVec.ofNat 64 (x % 2 ^ 32) * l.slope) >>> 32))) = t
  generalize BitVec.ofNat 64 m = a
  generalize BitVec.ofNat 64 Gen.HALF_SPACE = h
  bv_omega

theorem zipRange_get {α β : Type} (f : Nat → α → β) (l : List α) (i : Nat) (hi : i < l.length) :
    ((List.range l.length).zipWith f l)[i]'(by simpa using hi) = f i l[i] := by
  simp

theorem zipRange_length {α β : Type} (f : Nat → α → β) (l : List α) :
    ((List.range l.length).zipWith f l).length = l.length := by
  simp

theorem linearOffsets_length (l : Line) (vals : List Nat) : (linearOffsets l vals).length = vals.length := by
  unfold linearOffsets; exact zipRange_length _ _

theorem linearOffsets_get (l : Line) (vals : List Nat) (i : Nat) (hi : i < vals.length) :
    (linearOffsets l vals)[i]'(by rw [linearOffsets_length]; exact hi) = (BitVec.ofNat 64 vals[i] - l.eval i).toNat := by
  unfold linearOffsets; exact zipRange_get _ vals i hi

theorem linearDeviations_length (l : Line) (vals : List Nat) : (linearDeviations l vals).length = vals.length := by
  unfold linearDeviations; exact zipRange_length _ _

theorem linearDeviations_get (l : Line) (vals : List Nat) (i : Nat) (hi : i < vals.length) :
    (linearDeviations l vals)[i]'(by rw [linearDeviations_length]; exact hi)
      = (BitVec.ofNat 64 vals[i] + BitVec.ofNat 64 Gen.HALF_SPACE - l.eval i).toNat := by
  unfold linearDeviations; exact zipRange_get _ vals i hi

/-- offset_i = deviation_i − min_deviation (as naturals) -/
theorem offset_eq_dev_sub (l : Line) (v x md : Nat)
    (hle : md ≤ (BitVec.ofNat 64 v + BitVec.ofNat 64 Gen.HALF_SPACE - l.eval x).toNat) :
    (BitVec.ofNat 64 v - (linearFinalLine l md).eval x).toNat
      = (BitVec.ofNat 64 v + BitVec.ofNat 64 Gen.HALF_SPACE - l.eval x).toNat - md := by
  rw [eval_final]
  generalize l.eval x = e at *
  generalize BitVec.ofNat 64 v = a at *
  generalize BitVec.ofNat 64 Gen.HALF_SPACE = h at *
  have hlt := (a + h - e).isLt
  have hmd : md < 2 ^ 64 := by omega
  have e1 : a - (e + BitVec.ofNat 64 md - h) = (a + h - e) - BitVec.ofNat 64 md := by bv_omega
  rw [e1, BitVec.toNat_sub, BitVec.toNat_ofNat, Nat.mod_eq_of_lt hmd]
  omega

theorem devStep_eq (s : Nat × Nat) (d : Nat) : Gen.linearDevStep s d = (Nat.min s.1 d, Nat.max s.2 d) := by
  unfold Gen.linearDevStep; rfl

theorem devBounds_eq (devs : List Nat) :
    devBounds devs = (devs.foldl Nat.min (U64 - 1), devs.foldl Nat.max 0) := by
  unfold devBounds
  generalize (U64 - 1) = a
  generalize (0 : Nat) = b
  induction devs generalizing a b with
  | nil => rfl
  | cons d ds ih => simp only [List.foldl_cons, devStep_eq]; exact ih _ _

/-- the estimator's invariant: after the pass, `min_deviation ≤ deviationᵢ ≤ max_deviation` for every
row — this is what makes every residual `deviationᵢ − min_deviation` fit `num_bits` -/
theorem devBounds_spec (devs : List Nat) : ∀ d ∈ devs, (devBounds devs).1 ≤ d ∧ d ≤ (devBounds devs).2 := by
  rw [devBounds_eq]
  intro d hd
  exact ⟨(foldl_min_le devs _).2 d hd, (foldl_max_ge devs _).2 d hd⟩

theorem linear_exact (l : Line) (vals : List Nat) (hv : ∀ v ∈ vals, v < 2 ^ 64) (i : Nat) (hi : i < vals.length) :
    linearGet (linearEncWith l vals).1 (linearEncWith l vals).2.1 (linearEncWith l vals).2.2 i = vals[i] := by
  unfold linearEncWith
  simp only
  generalize hdevs : linearDeviations l vals = devs
  rw [devBounds_eq]
  simp only
  generalize hmd : devs.foldl Nat.min (U64 - 1) = md
  generalize hMd : devs.foldl Nat.max 0 = Md
  have hlen : devs.length = vals.length := by rw [← hdevs]; exact linearDeviations_length l vals
  have hdev : ∀ j (hj : j < vals.length),
      devs[j]'(by omega) = (BitVec.ofNat 64 vals[j] + BitVec.ofNat 64 Gen.HALF_SPACE - l.eval j).toNat := by
    intro j hj; subst hdevs; exact linearDeviations_get l vals j hj
  have hmin : ∀ d ∈ devs, md ≤ d := by rw [← hmd]; exact (foldl_min_le devs _).2
  have hmax : ∀ d ∈ devs, d ≤ Md := by rw [← hMd]; exact (foldl_max_ge devs _).2
  have hoff : ∀ j (hj : j < vals.length),
      (BitVec.ofNat 64 vals[j] - (linearFinalLine l md).eval j).toNat = devs[j]'(by omega) - md := by
    intro j hj
    rw [hdev j hj]
    apply offset_eq_dev_sub
    rw [← hdev j hj]
    exact hmin _ (List.getElem_mem _)
  have hMd64 : Md < 2 ^ 64 := by
    rw [← hMd]
    rcases foldl_max_mem devs 0 with h | h
    · rw [h]; decide
    · obtain ⟨k, hk, hk2⟩ := List.getElem_of_mem h
      rw [← hk2, hdev k (by omega)]; exact BitVec.isLt _
  -- every offset fits the width
  have hbound : ∀ x ∈ linearOffsets (linearFinalLine l md) vals, x < 2 ^ computeNumBits (Md - md) := by
    intro x hx
    obtain ⟨j, hj, rfl⟩ := List.getElem_of_mem hx
    have hj' : j < vals.length := by rw [linearOffsets_length] at hj; exact hj
    rw [linearOffsets_get _ vals j hj', hoff j hj']
    have h1 := hmax _ (List.getElem_mem (l := devs) (by omega : j < devs.length))
    have hM : Md - md < 2 ^ 64 := by omega
    exact Nat.lt_of_le_of_lt (by omega) (lt_two_pow_computeNumBits _ hM)
  unfold linearGet
  have hlo : i < (linearOffsets (linearFinalLine l md) vals).length := by rw [linearOffsets_length]; exact hi
  rw [unpack_pack _ (computeNumBits_ok _) _ hbound i hlo]
  rw [linearOffsets_get _ vals i hi]
  rw [BitVec.ofNat_toNat, BitVec.setWidth_eq]
  have : (linearFinalLine l md).eval i + (BitVec.ofNat 64 vals[i] - (linearFinalLine l md).eval i)
      = BitVec.ofNat 64 vals[i] := by
    bv_omega
  rw [this, BitVec.toNat_ofNat]
  exact Nat.mod_eq_of_lt (hv _ (List.getElem_mem hi))

end TantivyModel.Columnar
