import TantivyModel.Proofs.Columnar.BlockwiseColumn
/-!
`load ∘ serialize` for the linear codec through its byte layout.
-/
namespace TantivyModel.Columnar
open TantivyModel

theorem linearEncWith_width_ok (l : Line) (vals : List Nat) : unpackerWidthOk (linearEncWith l vals).2.1 = true := by
  unfold linearEncWith
  exact computeNumBits_ok _

theorem linear_column_roundtrip (vals : List Nat) (hv : ∀ v ∈ vals, v < 2 ^ 64) (hlen : vals.length < 2 ^ 32)
    (bytes : Bytes) (henc : linearEnc vals = some bytes) : decodeU64Column (1 :: bytes) = some vals := by
  unfold linearEnc at henc
  split at henc
  · cases henc
  · simp only [Option.some.injEq] at henc
    subst henc
    generalize Line.train (vals.take Gen.LINE_ESTIMATION_BLOCK_LEN) = l
    have hex := linear_exact l vals hv
    have hw := linearEncWith_width_ok l vals
    have hrows : (collectStats vals).numRows = vals.length := (collectStats_spec vals).1
    unfold decodeU64Column openU64Column
    simp only [List.append_assoc]
    rw [stats_roundtrip vals hv hlen]
    simp only [Option.bind_eq_bind, Option.bind_some]
    rw [lineDec_enc]
    simp only [Option.bind_some, List.cons_append, List.nil_append, hw, Bool.not_true, Bool.false_eq_true, if_false,
      Option.map_some]
    congr 1
    rw [hrows]
    apply List.ext_getElem
    · simp
    · intro i h1 h2
      simp only [List.getElem_map, List.getElem_range]
      exact hex i h2

end TantivyModel.Columnar
