import TantivyModel.Proofs.Columnar.OptionalIndex
/-!
Dense blocks on their real byte layout: 1024 mini blocks of (64-bit bitvec LE, u16 rank offset LE).
`rank`, `rank_if_exists`, `contains`, `select` agree with the abstract set.
-/
namespace TantivyModel.Columnar
open TantivyModel

/-! ## generic list facts -/

/-- two strictly increasing lists with the same members are equal -/
theorem sorted_ext : ∀ (l1 l2 : List Nat), l1.Pairwise (· < ·) → l2.Pairwise (· < ·) →
    (∀ x, x ∈ l1 ↔ x ∈ l2) → l1 = l2
  | [], [], _, _, _ => rfl
  | [], b :: bs, _, _, h => by have := (h b).mpr (by simp); simp at this
  | a :: as, [], _, _, h => by have := (h a).mp (by simp); simp at this
  | a :: as, b :: bs, h1, h2, h => by
    have ha := List.pairwise_cons.mp h1
    have hb := List.pairwise_cons.mp h2
    have hab : a = b := by
      have h3 : a ∈ b :: bs := (h a).mp (by simp)
      have h4 : b ∈ a :: as := (h b).mpr (by simp)
      rcases List.mem_cons.mp h3 with e | e
      · exact e
      · rcases List.mem_cons.mp h4 with e' | e'
        · exact e'.symm
        · have := hb.1 a e; have := ha.1 b e'; omega
    subst hab
    congr 1
    apply sorted_ext as bs ha.2 hb.2
    intro x
    constructor
    · intro hx
      have := (h x).mp (by simp [hx])
      rcases List.mem_cons.mp this with e | e
      · have := ha.1 x hx; omega
      · exact e
    · intro hx
      have := (h x).mpr (by simp [hx])
      rcases List.mem_cons.mp this with e | e
      · have := hb.1 x hx; omega
      · exact e

/-- the i-th member of a strictly increasing list is at least i -/
theorem sorted_getElem_ge (l : List Nat) (hs : l.Pairwise (· < ·)) (i : Nat) (hi : i < l.length) : i ≤ l[i] := by
  induction i with
  | zero => omega
  | succ i ih =>
    have h1 := ih (by omega)
    have h2 := List.pairwise_iff_getElem.mp hs i (i + 1) (by omega) hi (by omega)
    omega

theorem sorted_length_le (l : List Nat) (hs : l.Pairwise (· < ·)) (N : Nat) (h : ∀ x ∈ l, x < N) : l.length ≤ N := by
  rcases Nat.eq_zero_or_pos l.length with h0 | h0
  · omega
  · have h1 := sorted_getElem_ge l hs (l.length - 1) (by omega)
    have h2 := h _ (List.getElem_mem (by omega : l.length - 1 < l.length))
    omega

theorem flatten_chunk {α : Type} (f : Nat → List α) (c N : Nat) (hc : ∀ m, (f m).length = c) (m : Nat) (hm : m < N) :
    ((((List.range N).map f).flatten).drop (m * c)).take c = f m := by
  induction N with
  | zero => omega
  | succ N ih =>
    have hlen : (((List.range N).map f).flatten).length = N * c := by
      clear ih hm
      induction N with
      | zero => simp
      | succ K ih2 => rw [List.range_succ, List.map_append, List.flatten_append, List.length_append, ih2]; simp [hc, Nat.succ_mul]
    rw [List.range_succ, List.map_append, List.flatten_append]
    simp only [List.map_cons, List.map_nil, List.flatten_cons, List.flatten_nil, List.append_nil]
    rcases Nat.lt_or_ge m N with h | h
    · have h1 : (m + 1) * c ≤ N * c := Nat.mul_le_mul_right c h
      rw [Nat.succ_mul] at h1
      rw [List.drop_append_of_le_length (by rw [hlen]; omega)]
      rw [List.take_append_of_le_length (by rw [List.length_drop, hlen]; omega)]
      exact ih h
    · have : m = N := by omega
      subst this
      rw [List.drop_append_of_le_length (by rw [hlen]; omega)]
      have : (((List.range m).map f).flatten).drop (m * c) = [] := by
        apply List.drop_eq_nil_of_le; rw [hlen]; omega
      rw [this, List.nil_append, List.take_of_length_le (by rw [hc]; omega)]

/-! ## blocks of a sorted set -/

theorem blockOf_mem (E : Nat) (els : List Nat) (m x : Nat) :
    x ∈ blockOf E els m ↔ ∃ e ∈ els, e / E = m ∧ e % E = x := by
  unfold blockOf
  simp only [List.mem_map, List.mem_filter, decide_eq_true_eq]
  constructor
  · rintro ⟨e, ⟨he, hm⟩, hx⟩; exact ⟨e, he, hm, hx⟩
  · rintro ⟨e, he, hm, hx⟩; exact ⟨e, ⟨he, hm⟩, hx⟩

theorem blockOf_lt (E : Nat) (hE : 0 < E) (els : List Nat) (m x : Nat) (h : x ∈ blockOf E els m) : x < E := by
  obtain ⟨e, _, _, rfl⟩ := (blockOf_mem E els m x).mp h
  exact Nat.mod_lt _ hE

theorem blockOf_sorted (E : Nat) (hE : 0 < E) (els : List Nat) (hs : els.Pairwise (· < ·)) (m : Nat) :
    (blockOf E els m).Pairwise (· < ·) := by
  unfold blockOf
  have h1 : (els.filter (fun r => decide (r / E = m))).Pairwise (· < ·) := hs.filter _
  have h2 : (els.filter (fun r => decide (r / E = m))).Pairwise (fun a b => a % E < b % E) := by
    apply List.Pairwise.imp_of_mem _ h1
    intro a b ha hb hab
    have ha' : a / E = m := by simpa using (List.mem_filter.mp ha).2
    have hb' : b / E = m := by simpa using (List.mem_filter.mp hb).2
    rcases (lt_iff_divmod E a b hE).mp hab with h | h
    · omega
    · exact h.2
  exact List.Pairwise.map _ (fun a b h => h) h2

/-- members of a sorted set in blocks before `b` : at most `E·b` of them -/
theorem rowsBefore_le (E : Nat) (hE : 0 < E) (els : List Nat) (hs : els.Pairwise (· < ·)) (b : Nat) :
    rowsBefore E els b ≤ E * b := by
  unfold rowsBefore
  rw [List.countP_eq_length_filter]
  apply sorted_length_le _ (hs.filter _)
  intro x hx
  have : x / E < b := by simpa using (List.mem_filter.mp hx).2
  have := (Nat.div_lt_iff_lt_mul hE).mp this
  rw [Nat.mul_comm]; exact this

theorem rowsBefore_mono (E : Nat) (els : List Nat) (a b : Nat) (h : a ≤ b) : rowsBefore E els a ≤ rowsBefore E els b := by
  unfold rowsBefore
  induction els with
  | nil => simp
  | cons x xs ih =>
    simp only [List.countP_cons]
    by_cases h1 : x / E < a
    · have h2 : x / E < b := by omega
      simp [h1, h2]; exact ih
    · by_cases h2 : x / E < b <;> simp [h1, h2] <;> omega

theorem countP_lt_of_imp (l : List Nat) (p q : Nat → Bool) (himp : ∀ x, p x = true → q x = true)
    (hex : ∃ x ∈ l, q x = true ∧ ¬ p x = true) : l.countP p < l.countP q := by
  induction l with
  | nil => obtain ⟨x, hx, _⟩ := hex; simp at hx
  | cons y ys ih =>
    have hle : ys.countP p ≤ ys.countP q := List.countP_mono_left (fun x _ => himp x)
    simp only [List.countP_cons]
    obtain ⟨x, hx, hq, hp⟩ := hex
    rcases List.mem_cons.mp hx with rfl | hx'
    · simp [hq, hp]; omega
    · have := ih ⟨x, hx', hq, hp⟩
      by_cases h1 : p y = true
      · simp [h1, himp y h1]; omega
      · by_cases h2 : q y = true <;> simp [h1, h2] <;> omega

/-- abstract select through blocks: the `k`-th member lives in block `b = els[k] / E`, at in-block
rank `k − rowsBefore b` -/
theorem select_decomp (E : Nat) (hE : 0 < E) (els : List Nat) (hs : els.Pairwise (· < ·)) (k : Nat) (hk : k < els.length) :
    rowsBefore E els (els[k] / E) ≤ k ∧ k < rowsBefore E els (els[k] / E + 1) ∧
    (blockOf E els (els[k] / E))[k - rowsBefore E els (els[k] / E)]? = some (els[k] % E) := by
  have hrank := rankSpec_getElem els hs k hk
  have hdec := rankBlocks_eq E hE els els[k]
  rw [hrank] at hdec
  unfold rankBlocks at hdec
  -- in-block rank of els[k]
  have hmem : els[k] % E ∈ blockOf E els (els[k] / E) :=
    (blockOf_mem E els _ _).mpr ⟨els[k], List.getElem_mem hk, rfl, rfl⟩
  have hsel := select_rank (blockOf E els (els[k] / E)) (blockOf_sorted E hE els hs _) _ hmem
  unfold rankSpec at hsel
  refine ⟨by omega, ?_, ?_⟩
  · -- all members of block ≤ b are counted by rowsBefore (b+1); els[k] itself is one of them beyond rank k
    have : rankSpec els els[k] < rowsBefore E els (els[k] / E + 1) := by
      unfold rankSpec rowsBefore
      -- countP (· < els[k]) < countP (·/E < b+1): the latter also counts els[k]
      have hsub : ∀ x, decide (x < els[k]) = true → decide (x / E < els[k] / E + 1) = true := by
        intro x hx
        have hx' : x < els[k] := by simpa using hx
        have := Nat.div_le_div_right (c := E) (Nat.le_of_lt hx')
        simp; omega
      have hstrict : ∃ x ∈ els, decide (x / E < els[k] / E + 1) = true ∧ ¬ decide (x < els[k]) = true :=
        ⟨els[k], List.getElem_mem hk, by simp, by simp⟩
      exact countP_lt_of_imp els _ _ hsub hstrict
    omega
  · have e : k - rowsBefore E els (els[k] / E) = List.countP (fun x => decide (x < els[k] % E)) (blockOf E els (els[k] / E)) := by omega
    rw [e]; exact hsel

/-! ## bit vectors of mini blocks -/

theorem foldl_or_testBit (l : List Nat) (a i : Nat) :
    (l.foldl (fun acc x => acc ||| 2 ^ x) a).testBit i = (a.testBit i || decide (i ∈ l)) := by
  induction l generalizing a with
  | nil => simp
  | cons x xs ih =>
    simp only [List.foldl_cons, ih, Nat.testBit_or, Nat.testBit_two_pow, List.mem_cons]
    by_cases h1 : x = i
    · subst h1; simp
    · have h1' : ¬ i = x := fun h => h1 h.symm
      simp [h1, h1']

theorem miniBitvec_testBit (els : List Nat) (m i : Nat) :
    (miniBitvec els m).testBit i = decide (i ∈ blockOf EPMB els m) := by
  unfold miniBitvec; rw [foldl_or_testBit]; simp

theorem epmb_eq : EPMB = 64 := rfl
theorem epb_eq : EPB = 65536 := rfl

theorem miniBitvec_lt (els : List Nat) (m : Nat) : miniBitvec els m < 2 ^ 64 := by
  apply Nat.lt_pow_two_of_testBit
  intro i hi
  rw [miniBitvec_testBit]
  have : i ∉ blockOf EPMB els m := fun h => by
    have := blockOf_lt EPMB (by decide) els m i h; rw [epmb_eq] at this; omega
  simp [this]

/-- the set bits of a mini block's bitvec, in increasing order, are the in-block positions -/
theorem setBits_eq_blockOf (els : List Nat) (hs : els.Pairwise (· < ·)) (m : Nat) :
    (List.range 64).filter (fun i => (miniBitvec els m).testBit i) = blockOf EPMB els m := by
  apply sorted_ext
  · exact List.pairwise_lt_range.filter _
  · exact blockOf_sorted EPMB (by decide) els hs m
  · intro x
    simp only [List.mem_filter, List.mem_range, miniBitvec_testBit, decide_eq_true_eq]
    constructor
    · exact fun h => h.2
    · intro h
      have := blockOf_lt EPMB (by decide) els m x h
      rw [epmb_eq] at this
      exact ⟨this, h⟩

theorem popCount_mini (els : List Nat) (hs : els.Pairwise (· < ·)) (m : Nat) :
    popCount (miniBitvec els m) = (blockOf EPMB els m).length := by
  unfold popCount; rw [setBits_eq_blockOf els hs m]

theorem rankU64_mini (els : List Nat) (hs : els.Pairwise (· < ·)) (m j : Nat) :
    rankU64 (miniBitvec els m) j = (blockOf EPMB els m).countP (· < j) := by
  unfold rankU64 popCount
  have : (List.range 64).filter (fun i => (miniBitvec els m &&& (2 ^ j - 1)).testBit i)
      = ((List.range 64).filter (fun i => (miniBitvec els m).testBit i)).filter (fun i => decide (i < j)) := by
    rw [List.filter_filter]
    apply List.filter_congr
    intro i _
    rw [Nat.testBit_and, Nat.testBit_two_pow_sub_one, Bool.and_comm]
  rw [this, setBits_eq_blockOf els hs m, List.countP_eq_length_filter]

theorem selectU64_mini (els : List Nat) (hs : els.Pairwise (· < ·)) (m k : Nat) :
    selectU64 (miniBitvec els m) k = (blockOf EPMB els m).getD k 64 := by
  unfold selectU64; rw [setBits_eq_blockOf els hs m]

/-! ## the byte layout -/

theorem denseMiniBytes_length (els : List Nat) (m : Nat) : (denseMiniBytes els m).length = 10 := by
  unfold denseMiniBytes; simp [leBytes_length]; rfl

theorem denseEnc_length (els : List Nat) : (denseEnc els).length = 10240 := by
  unfold denseEnc
  have : ∀ N, (((List.range N).map (denseMiniBytes els)).flatten).length = N * 10 := by
    intro N
    induction N with
    | zero => simp
    | succ K ih => rw [List.range_succ, List.map_append, List.flatten_append, List.length_append, ih]; simp [denseMiniBytes_length, Nat.succ_mul]
  rw [this]; rfl

/-- reading mini block `m` of a serialized dense block -/
theorem denseMini_enc (els : List Nat) (hs : els.Pairwise (· < ·)) (m : Nat) (hm : m < 1024) :
    denseMini (denseEnc els) m = (miniBitvec els m, rowsBefore EPMB els m) := by
  have hchunk : ((denseEnc els).drop (m * 10)).take 10 = denseMiniBytes els m :=
    flatten_chunk (denseMiniBytes els) 10 (EPB / EPMB) (denseMiniBytes_length els) m hm
  have hR : rowsBefore EPMB els m < 65536 := by
    have h1 := rowsBefore_le EPMB (by decide) els hs m
    have h2 : EPMB * m = 64 * m := by rw [epmb_eq]
    omega
  have hB : miniBitvec els m < 256 ^ 8 := by have := miniBitvec_lt els m; rw [pow256]; exact this
  unfold denseMini
  have h10 : Gen.MINI_BLOCK_NUM_BYTES = 10 := rfl
  have h8 : Gen.MINI_BLOCK_BITVEC_NUM_BYTES = 8 := rfl
  have h2 : Gen.MINI_BLOCK_OFFSET_NUM_BYTES = 2 := rfl
  simp only [h10, h8, h2]
  have e1 : ((denseEnc els).drop (m * 10)).take 8 = (((denseEnc els).drop (m * 10)).take 10).take 8 := by
    rw [List.take_take]; simp
  have e2 : (((denseEnc els).drop (m * 10)).drop 8).take 2 = ((((denseEnc els).drop (m * 10)).take 10).drop 8) := by
    rw [List.drop_take]
  rw [e1, e2, hchunk]
  unfold denseMiniBytes
  simp only [h8, h2]
  rw [List.take_left' (leBytes_length 8 _), List.drop_left' (leBytes_length 8 _), leNat_leBytes, leNat_leBytes,
    Nat.mod_eq_of_lt hR, Nat.mod_eq_of_lt hB, Nat.mod_eq_of_lt (by omega : rowsBefore EPMB els m < 256 ^ 2)]

/-! ## rank / contains / select of a dense block -/

theorem dense_rank (els : List Nat) (hs : els.Pairwise (· < ·)) (el : Nat) (hel : el < 65536) :
    denseRank (denseEnc els) el = rankSpec els el := by
  unfold denseRank
  have hm : el / EPMB < 1024 := by rw [epmb_eq]; omega
  simp only [denseMini_enc els hs _ hm, rankU64_mini els hs]
  exact rankBlocks_eq EPMB (by decide) els el

theorem dense_contains (els : List Nat) (hs : els.Pairwise (· < ·)) (el : Nat) (hel : el < 65536) :
    denseContains (denseEnc els) el = decide (el ∈ els) := by
  unfold denseContains
  have hm : el / EPMB < 1024 := by rw [epmb_eq]; omega
  rw [denseMini_enc els hs _ hm, miniBitvec_testBit]
  apply decide_eq_decide.mpr
  rw [blockOf_mem]
  constructor
  · rintro ⟨e, he, h1, h2⟩
    have : e = el := by
      have := Nat.div_add_mod e EPMB; have := Nat.div_add_mod el EPMB
      rw [h1, h2] at *; omega
    rw [← this]; exact he
  · intro h; exact ⟨el, h, rfl, rfl⟩

theorem dense_rankIfExists (els : List Nat) (hs : els.Pairwise (· < ·)) (el : Nat) (hel : el < 65536) :
    denseRankIfExists (denseEnc els) el = if el ∈ els then some (rankSpec els el) else none := by
  unfold denseRankIfExists
  rw [dense_contains els hs el hel, dense_rank els hs el hel]
  by_cases h : el ∈ els <;> simp [h]

theorem findMiniAux_stop (data : Bytes) (rank fuel m : Nat) (best : Option Nat)
    (h : fuel = 0 ∨ rank < (denseMini data m).2) : denseFindMiniAux data rank fuel m best = best := by
  cases fuel with
  | zero => rfl
  | succ f =>
    rcases h with h | h
    · omega
    · unfold denseFindMiniAux
      have : ¬ (denseMini data m).2 ≤ rank := by omega
      simp [this]

theorem findMiniAux_spec (data : Bytes) (rank : Nat) (off : Nat → Nat) (N : Nat)
    (hoff : ∀ m, m < N → (denseMini data m).2 = off m)
    (hmono : ∀ a b, a ≤ b → off a ≤ off b)
    (ms : Nat) (hms : ms < N) (h1 : off ms ≤ rank) (h2 : ms + 1 = N ∨ rank < off (ms + 1)) :
    ∀ fuel m best, m ≤ ms → m + fuel = N → denseFindMiniAux data rank fuel m best = some ms := by
  intro fuel
  induction fuel with
  | zero => intro m best h3 h4; omega
  | succ fuel ih =>
    intro m best h3 h4
    unfold denseFindMiniAux
    have hm : (denseMini data m).2 ≤ rank := by
      rw [hoff m (by omega)]; exact Nat.le_trans (hmono m ms h3) h1
    simp only [hm, if_true]
    rcases Nat.lt_or_ge m ms with h | h
    · exact ih (m + 1) (some m) (by omega) (by omega)
    · have : m = ms := by omega
      subst this
      apply findMiniAux_stop
      rcases Nat.lt_or_ge (m + 1) N with hlt | hge
      · right
        rcases h2 with h2 | h2
        · omega
        · rw [hoff (m + 1) hlt]; exact h2
      · left; omega

theorem dense_select (els : List Nat) (hs : els.Pairwise (· < ·)) (hlt : ∀ e ∈ els, e < 65536)
    (k : Nat) (hk : k < els.length) : denseSelect (denseEnc els) k = some els[k] := by
  have hek : els[k] < 65536 := hlt _ (List.getElem_mem hk)
  obtain ⟨h1, h2, h3⟩ := select_decomp EPMB (by decide) els hs k hk
  have hms : els[k] / EPMB < 1024 := by rw [epmb_eq]; omega
  have hfind : denseFindMini (denseEnc els) k 0 = some (els[k] / EPMB) := by
    have hh2 : els[k] / EPMB + 1 = 1024 ∨ k < rowsBefore EPMB els (els[k] / EPMB + 1) := Or.inr h2
    have key := findMiniAux_spec (denseEnc els) k (rowsBefore EPMB els) 1024
      (fun m hm => by rw [denseMini_enc els hs m hm]) (rowsBefore_mono EPMB els) (els[k] / EPMB) hms h1 hh2
      1024 0 none (Nat.zero_le _) rfl
    unfold denseFindMini
    rw [denseEnc_length]
    exact key
  unfold denseSelect
  rw [hfind]
  simp only [Option.bind_eq_bind, Option.bind_some, denseMini_enc els hs _ hms, selectU64_mini els hs]
  rw [List.getD_eq_getElem?_getD, h3]
  simp only [Option.getD_some]
  congr 1
  have := Nat.div_add_mod els[k] EPMB
  rw [Nat.mul_comm]; exact this

end TantivyModel.Columnar
