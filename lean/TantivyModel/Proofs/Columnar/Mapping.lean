import TantivyModel.Model.Columnar.Column
/-!
Monotone mappings i64 / f64 → u64 (functions extracted from common/src/lib.rs into `Gen`).
Method: split a 64-bit pattern into its top bit and the low 63 bits (`BitVec.cons`).
-/
namespace TantivyModel.Columnar
open TantivyModel

theorem hb_cons : Gen.Col.HIGHEST_BIT_BV = BitVec.cons true 0#63 := by decide

/-- the order an `f64` bit pattern has under IEEE-754 `totalOrder` (sign-magnitude):
non-negative patterns by magnitude, negative patterns reversed, below all non-negative ones -/
def f64Key (x : BitVec 64) : Int :=
  if x.msb then -((x.toNat % 2 ^ 63 : Nat) : Int) - 1 else ((x.toNat % 2 ^ 63 : Nat) : Int)

theorem split64 (x : BitVec 64) : ∃ (m : Bool) (l : BitVec 63), x = BitVec.cons m l :=
  ⟨x.msb, x.setWidth 63, (BitVec.cons_msb_setWidth x).symm⟩

theorem toNat_cons63 (m : Bool) (l : BitVec 63) :
    (BitVec.cons m l).toNat = m.toNat * 2 ^ 63 + l.toNat := by
  rw [BitVec.toNat_cons', Nat.shiftLeft_eq]

theorem i64_to_u64_cons (m : Bool) (l : BitVec 63) :
    Gen.Col.i64_to_u64 (BitVec.cons m l) = BitVec.cons (!m) l := by
  unfold Gen.Col.i64_to_u64
  rw [hb_cons, BitVec.cons_xor_cons]
  simp

theorem u64_to_i64_cons (m : Bool) (l : BitVec 63) :
    Gen.Col.u64_to_i64 (BitVec.cons m l) = BitVec.cons (!m) l := by
  unfold Gen.Col.u64_to_i64
  rw [hb_cons, BitVec.cons_xor_cons]
  simp

theorem and_hb_cons (m : Bool) (l : BitVec 63) :
    (BitVec.cons m l &&& Gen.Col.HIGHEST_BIT_BV = 0#64) ↔ m = false := by
  rw [hb_cons, BitVec.cons_and_cons]
  have h0 : (0#64 : BitVec 64) = BitVec.cons false 0#63 := by decide
  rw [h0]
  cases m <;> simp

theorem f64_to_u64_cons (m : Bool) (l : BitVec 63) :
    Gen.Col.f64_to_u64 (BitVec.cons m l) = if m then BitVec.cons false (~~~ l) else BitVec.cons true l := by
  unfold Gen.Col.f64_to_u64
  simp only [and_hb_cons]
  cases m
  · simp only [Bool.false_eq_true, if_false]; rw [hb_cons, BitVec.cons_xor_cons]; simp
  · simp [BitVec.not_cons]

theorem u64_to_f64_cons (m : Bool) (l : BitVec 63) :
    Gen.Col.u64_to_f64 (BitVec.cons m l) = if m then BitVec.cons false l else BitVec.cons true (~~~ l) := by
  unfold Gen.Col.u64_to_f64
  have h : (BitVec.cons m l &&& Gen.Col.HIGHEST_BIT_BV ≠ 0#64) ↔ m = true := by
    rw [Ne, and_hb_cons]; cases m <;> simp
  simp only [h]
  cases m
  · simp [BitVec.not_cons]
  · simp only [if_true]; rw [hb_cons, BitVec.cons_xor_cons]; simp

/-- `i64_to_u64 x = x + 2^63` on the signed value -/
theorem i64_to_u64_toNat (x : BitVec 64) : ((Gen.Col.i64_to_u64 x).toNat : Int) = x.toInt + 2 ^ 63 := by
  obtain ⟨m, l, rfl⟩ := split64 x
  rw [i64_to_u64_cons, BitVec.toInt_eq_msb_cond, BitVec.msb_cons, toNat_cons63, toNat_cons63]
  have := l.isLt
  cases m <;> simp <;> omega

/-- `f64_to_u64 x = key x + 2^63` -/
theorem f64_to_u64_toNat (x : BitVec 64) : ((Gen.Col.f64_to_u64 x).toNat : Int) = f64Key x + 2 ^ 63 := by
  obtain ⟨m, l, rfl⟩ := split64 x
  have hl := l.isLt
  rw [f64_to_u64_cons]
  unfold f64Key
  rw [BitVec.msb_cons, toNat_cons63]
  cases m
  · simp only [Bool.false_eq_true, if_false, toNat_cons63]
    simp
    omega
  · simp only [if_true, toNat_cons63, BitVec.toNat_not]
    simp
    omega

theorem u64_to_i64_i64_to_u64 (x : BitVec 64) : Gen.Col.u64_to_i64 (Gen.Col.i64_to_u64 x) = x := by
  obtain ⟨m, l, rfl⟩ := split64 x
  rw [i64_to_u64_cons, u64_to_i64_cons]; simp

theorem i64_to_u64_u64_to_i64 (x : BitVec 64) : Gen.Col.i64_to_u64 (Gen.Col.u64_to_i64 x) = x := by
  obtain ⟨m, l, rfl⟩ := split64 x
  rw [u64_to_i64_cons, i64_to_u64_cons]; simp

theorem u64_to_f64_f64_to_u64 (x : BitVec 64) : Gen.Col.u64_to_f64 (Gen.Col.f64_to_u64 x) = x := by
  obtain ⟨m, l, rfl⟩ := split64 x
  rw [f64_to_u64_cons]
  cases m <;> simp [u64_to_f64_cons]

theorem f64_to_u64_u64_to_f64 (x : BitVec 64) : Gen.Col.f64_to_u64 (Gen.Col.u64_to_f64 x) = x := by
  obtain ⟨m, l, rfl⟩ := split64 x
  rw [u64_to_f64_cons]
  cases m <;> simp [f64_to_u64_cons]

end TantivyModel.Columnar
