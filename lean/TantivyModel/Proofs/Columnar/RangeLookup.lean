import TantivyModel.Proofs.Columnar.Column
import TantivyModel.Proofs.Columnar.OptionalIndex
/-!
`Column::get_docids_for_value_range` through the column index: documents of `s..e` holding a value
in the range, ascending, each once — for Full, Optional and Multivalued indexes.
-/
namespace TantivyModel.Columnar
open TantivyModel

variable {V : Type}

/-- number of values before row `j` -/
def F (rows : Column V) (j : Nat) : Nat := ((rows.take j).flatten).length

theorem F_succ (rows : Column V) (j : Nat) (hj : j < rows.length) : F rows (j + 1) = F rows j + rows[j].length := by
  unfold F
  rw [List.take_succ_eq_append_getElem hj]
  simp only [List.flatten_append, List.flatten_cons, List.flatten_nil, List.append_nil, List.length_append]

theorem take_flatten_le (L : Column V) (a : Nat) : ((L.take a).flatten).length ≤ L.flatten.length := by
  have e : L.flatten = (L.take a).flatten ++ (L.drop a).flatten := by
    rw [← List.flatten_append, List.take_append_drop]
  rw [e, List.length_append]; omega

theorem F_mono (rows : Column V) (a b : Nat) (h : a ≤ b) : F rows a ≤ F rows b := by
  unfold F
  have := take_flatten_le (rows.take b) a
  rw [List.take_take, Nat.min_eq_left h] at this
  exact this

theorem F_le_total (rows : Column V) (j : Nat) : F rows j ≤ rows.flatten.length := by
  have := F_mono rows j (max j rows.length) (Nat.le_max_left _ _)
  have e : F rows (max j rows.length) = rows.flatten.length := by
    unfold F; rw [List.take_of_length_le (Nat.le_max_right _ _)]
  omega

/-- the i-th value of row `j` sits at flat position `F j + i` -/
theorem flatten_get (rows : Column V) (j : Nat) (hj : j < rows.length) (i : Nat) (hi : i < rows[j].length) :
    rows.flatten[F rows j + i]? = some (rows[j][i]) := by
  have e : rows = rows.take j ++ rows[j] :: rows.drop (j + 1) := by
    rw [List.getElem_cons_drop, List.take_append_drop]
  have hflat : rows.flatten = (rows.take j).flatten ++ (rows[j] ++ (rows.drop (j + 1)).flatten) := by
    conv => lhs; rw [e]
    rw [List.flatten_append, List.flatten_cons]
  rw [hflat]
  unfold F
  rw [List.getElem?_append_right (by omega)]
  have : ((rows.take j).flatten).length + i - ((rows.take j).flatten).length = i := by omega
  rw [this, List.getElem?_append_left hi, List.getElem?_eq_getElem hi]

theorem flatten_get? (rows : Column V) (j : Nat) (hj : j < rows.length) (i : Nat) (hi : i < rows[j].length) :
    rows.flatten[F rows j + i]? = rows[j][i]? := by
  rw [flatten_get rows j hj i hi, List.getElem?_eq_getElem hi]

def inR (key : V → Nat) (lo hi : Nat) (v : V) : Bool := decide (lo ≤ key v) && decide (key v ≤ hi)

/-- the matching flat positions inside one row: none iff the row has no value in the range -/
theorem row_matches (key : V → Nat) (lo hi : Nat) (rows : Column V) (j : Nat) (hj : j < rows.length) :
    ((List.range' (F rows j) rows[j].length).filter (fun r => (rows.flatten[r]?).any (inR key lo hi)) = [])
      ↔ rows[j].any (inR key lo hi) = false := by
  rw [List.filter_eq_nil_iff]
  constructor
  · intro h
    rw [List.any_eq_false]
    intro v hv
    obtain ⟨i, hi, rfl⟩ := List.getElem_of_mem hv
    have := h (F rows j + i) (by simp [List.mem_range'_1]; omega)
    rw [flatten_get rows j hj i hi] at this
    simpa using this
  · intro h r hr
    have hr' := List.mem_range'_1.mp hr
    have hi : r - F rows j < rows[j].length := by omega
    have e : r = F rows j + (r - F rows j) := by omega
    rw [e, flatten_get rows j hj _ hi]
    have := List.any_eq_false.mp h _ (List.getElem_mem hi)
    simpa using this

theorem range'_append_one (a n : Nat) : List.range' a (n + 1) = List.range' a n ++ [a + n] := by
  rw [List.range'_concat]; simp

theorem range'_split (a n m : Nat) : List.range' a (n + m) = List.range' a n ++ List.range' (a + n) m := by
  rw [List.range'_append_1]

/-! ## the rows-with-values list -/

theorem nonNullFrom_sorted (i : Nat) (rows : Column V) : (nonNullFrom i rows).Pairwise (· < ·) := by
  induction rows generalizing i with
  | nil => simp [nonNullFrom]
  | cons r rs ih =>
    unfold nonNullFrom
    split
    · exact ih (i + 1)
    · apply List.pairwise_cons.mpr
      refine ⟨?_, ih (i + 1)⟩
      intro x hx
      have := nonNullFrom_ge (i + 1) rs x hx; omega

theorem rank_nn (rows : Column V) (d : Nat) : rankSpec (nonNullRows rows) d = nz rows d := by
  have := rank_nonNullFrom 0 rows d; simpa [nonNullRows] using this

/-- the `nz e`-th row with values is `e` when row `e` has values -/
theorem nn_get (rows : Column V) (e : Nat) (he : e < rows.length) (hne : rows[e].isEmpty = false) :
    (nonNullRows rows).getD (nz rows e) 0 = e := by
  have hmem : e ∈ nonNullRows rows := by
    unfold nonNullRows; rw [mem_nonNullFrom]
    simp [List.getD_eq_getElem?_getD, he, hne]
  have := select_rank (nonNullRows rows) (nonNullFrom_sorted 0 rows) e hmem
  rw [rank_nn] at this
  rw [List.getD_eq_getElem?_getD, this]; rfl

theorem nz_mono (rows : Column V) (a b : Nat) (h : a ≤ b) : nz rows a ≤ nz rows b := by
  unfold nz
  have : (rows.take a).Sublist (rows.take b) := by
    have := List.take_sublist a (rows.take b)
    rw [List.take_take, Nat.min_eq_left h] at this
    exact this
  exact this.countP_le

/-! ## start offsets are strictly increasing -/

theorem prefixSums_ge (l : List Nat) (acc : Nat) : ∀ x ∈ prefixSums l acc, acc ≤ x := by
  induction l generalizing acc with
  | nil => intro x hx; simp [prefixSums] at hx; omega
  | cons n ns ih =>
    intro x hx
    simp only [prefixSums, List.mem_cons] at hx
    rcases hx with rfl | hx
    · exact Nat.le_refl _
    · have := ih (acc + n) x hx; omega

theorem prefixSums_strict (l : List Nat) (acc : Nat) (hpos : ∀ x ∈ l, 0 < x) : (prefixSums l acc).Pairwise (· < ·) := by
  induction l generalizing acc with
  | nil => simp [prefixSums]
  | cons n ns ih =>
    simp only [prefixSums]
    apply List.pairwise_cons.mpr
    refine ⟨?_, ih (acc + n) (fun x hx => hpos x (by simp [hx]))⟩
    intro x hx
    have := prefixSums_ge ns (acc + n) x hx
    have := hpos n (by simp)
    omega

theorem prefixSums_length (l : List Nat) (acc : Nat) : (prefixSums l acc).length = l.length + 1 := by
  induction l generalizing acc with
  | nil => rfl
  | cons n ns ih => simp [prefixSums, ih]

theorem starts_sorted (rows : Column V) : (startOffsets (rows.map List.length)).Pairwise (· < ·) := by
  unfold startOffsets
  apply prefixSums_strict
  intro x hx
  have := (List.mem_filter.mp hx).2
  simp at this; omega

theorem starts_length (rows : Column V) : (startOffsets (rows.map List.length)).length = nz rows rows.length + 1 := by
  unfold startOffsets
  rw [prefixSums_length, nz_eq_count_lens, List.take_of_length_le (by simp), List.countP_eq_length_filter]

/-! ## the multivalued cursor -/

theorem advanceTo_spec (S : List Nat) (hS : S.Pairwise (· < ·)) (pos k : Nat) (hk : k + 1 < S.length)
    (h1 : S.getD k 0 ≤ pos) (h2 : pos < S.getD (k + 1) 0) :
    ∀ fuel cur, cur ≤ k → k - cur < fuel → advanceTo S pos fuel cur = k := by
  have hget : ∀ a b, a < b → b < S.length → S.getD a 0 < S.getD b 0 := by
    intro a b hab hb
    have := List.pairwise_iff_getElem.mp hS a b (by omega) hb hab
    simpa [List.getD_eq_getElem?_getD, hb, (by omega : a < S.length)] using this
  intro fuel
  induction fuel with
  | zero => intro cur _ h; omega
  | succ fuel ih =>
    intro cur hcur hf
    unfold advanceTo
    by_cases hc : S.getD (cur + 1) 0 > pos
    · simp only [hc, if_true]
      rcases Nat.lt_or_ge cur k with hlt | hge
      · have : S.getD (cur + 1) 0 ≤ S.getD k 0 := by
          rcases Nat.lt_or_ge (cur + 1) k with h | h
          · exact Nat.le_of_lt (hget _ _ h (by omega))
          · have : cur + 1 = k := by omega
            rw [this]; exact Nat.le_refl _
        omega
      · omega
    · simp only [hc, if_false]
      have hlt : cur < k := by
        rcases Nat.lt_or_ge cur k with h | h
        · exact h
        · have : cur = k := by omega
          subst this; omega
      exact ih (cur + 1) (by omega) (by omega)

/-- all matching positions of one row (in block `k`) write `k` once -/
theorem mvStep_block (S : List Nat) (hS : S.Pairwise (· < ·)) (k : Nat) (hk : k + 1 < S.length)
    (B : List Nat) (hB : ∀ pos ∈ B, S.getD k 0 ≤ pos ∧ pos < S.getD (k + 1) 0) (hne : B ≠ [])
    (out : List Nat) (cur : Nat) (last : Option Nat) (hcur : cur ≤ k) (hlast : last ≠ some k) :
    B.foldl (mvStep S) (out, cur, last) = (out ++ [k], k, some k) := by
  have hadv : ∀ pos ∈ B, ∀ c, c ≤ k → advanceTo S pos S.length c = k := by
    intro pos hp c hc
    exact advanceTo_spec S hS pos k hk (hB pos hp).1 (hB pos hp).2 S.length c hc (by omega)
  cases B with
  | nil => exact absurd rfl hne
  | cons p ps =>
    simp only [List.foldl_cons]
    have h1 : mvStep S (out, cur, last) p = (out ++ [k], k, some k) := by
      unfold mvStep
      simp only [hadv p (by simp) cur hcur, hlast, if_false]
    rw [h1]
    -- the remaining positions leave the state unchanged
    have : ∀ (l : List Nat), (∀ pos ∈ l, pos ∈ p :: ps) → l.foldl (mvStep S) (out ++ [k], k, some k) = (out ++ [k], k, some k) := by
      intro l
      induction l with
      | nil => intro _; rfl
      | cons q qs ihq =>
        intro hq
        simp only [List.foldl_cons]
        have : mvStep S (out ++ [k], k, some k) q = (out ++ [k], k, some k) := by
          unfold mvStep
          simp only [hadv q (hq q (by simp)) k (Nat.le_refl _), if_true]
        rw [this]
        exact ihq (fun x hx => hq x (by simp [hx]))
    exact this ps (fun x hx => by simp [hx])

end TantivyModel.Columnar
